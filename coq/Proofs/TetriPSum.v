(* TetriPSum — finite sums and what a satisfying assignment gives for each row family. *)
From Coq Require Import ZArith Bool List Lia ZifyBool.
Import ListNotations.
From Verif Require Import Model.Val Model.PlanSpec Model.TetriModel Proofs.TetriP.
Open Scope Z_scope.

Fixpoint sumf {A} (f : A -> Z) (l : list A) : Z := match l with [] => 0 | x :: l' => f x + sumf f l' end.

Lemma sumf_app : forall A (f : A -> Z) l1 l2, sumf f (l1 ++ l2) = sumf f l1 + sumf f l2.
Proof. induction l1 as [|a l1 IH]; intros; cbn; [lia|]. rewrite IH. lia. Qed.
Lemma sumf_flat_map : forall A B (f : B -> Z) (g : A -> list B) l, sumf f (flat_map g l) = sumf (fun x => sumf f (g x)) l.
Proof. induction l as [|a l IH]; cbn; [reflexivity|]. rewrite sumf_app, IH. reflexivity. Qed.
Lemma sumf_map : forall A B (f : B -> Z) (g : A -> B) l, sumf f (map g l) = sumf (fun x => f (g x)) l.
Proof. induction l as [|a l IH]; cbn; [reflexivity|]. now rewrite IH. Qed.
Lemma sumf_ext : forall A (f g : A -> Z) l, (forall x, In x l -> f x = g x) -> sumf f l = sumf g l.
Proof.
  induction l as [|a l IH]; intros H; cbn; [reflexivity|].
  rewrite H by (left; reflexivity). rewrite IH; [reflexivity|]. intros; apply H; now right.
Qed.
Lemma sumf_le : forall A (f g : A -> Z) l, (forall x, In x l -> f x <= g x) -> sumf f l <= sumf g l.
Proof.
  induction l as [|a l IH]; intros H; cbn; [lia|].
  assert (f a <= g a) by (apply H; now left). assert (sumf f l <= sumf g l) by (apply IH; intros; apply H; now right). lia.
Qed.
Lemma sumf_nonneg : forall A (f : A -> Z) l, (forall x, In x l -> 0 <= f x) -> 0 <= sumf f l.
Proof.
  induction l as [|a l IH]; intros H; cbn; [lia|].
  assert (0 <= f a) by (apply H; now left). assert (0 <= sumf f l) by (apply IH; intros; apply H; now right). lia.
Qed.
Lemma sumf_zero : forall A (f : A -> Z) l, (forall x, In x l -> f x = 0) -> sumf f l = 0.
Proof.
  induction l as [|a l IH]; intros H; cbn; [reflexivity|].
  rewrite H by (now left). rewrite IH; [reflexivity|]. intros; apply H; now right.
Qed.
Lemma sumf_In_le : forall A (f : A -> Z) l x, (forall y, In y l -> 0 <= f y) -> In x l -> f x <= sumf f l.
Proof.
  induction l as [|a l IH]; intros x Hn Hx; [contradiction|]. cbn.
  assert (0 <= f a) by (apply Hn; now left).
  assert (0 <= sumf f l) by (apply sumf_nonneg; intros; apply Hn; now right).
  destruct Hx as [->|Hx]; [lia|]. assert (f x <= sumf f l) by (apply IH; auto; intros; apply Hn; now right). lia.
Qed.
Lemma sumf_filter_split : forall A (f : A -> Z) (P : A -> bool) l,
  sumf f l = sumf f (filter P l) + sumf f (filter (fun x => negb (P x)) l).
Proof. induction l as [|a l IH]; cbn; [reflexivity|]. destruct (P a); cbn; lia. Qed.
Lemma sumf_filter_sub : forall A (f : A -> Z) (P Q : A -> bool) l,
  (forall x, In x l -> 0 <= f x) -> (forall x, In x l -> P x = true -> Q x = true) ->
  sumf f (filter P l) <= sumf f (filter Q l).
Proof.
  induction l as [|a l IH]; intros Hn Hs; cbn; [lia|].
  assert (IH' : sumf f (filter P l) <= sumf f (filter Q l)).
  { apply IH; intros; [apply Hn|apply Hs]; auto; now right. }
  assert (0 <= f a) by (apply Hn; now left).
  destruct (P a) eqn:EP.
  - rewrite (Hs a (or_introl eq_refl) EP). cbn. lia.
  - destruct (Q a); cbn; lia.
Qed.
(* a sum of 0/1 values that is >= 1 has a member equal to 1 *)
Lemma sumf_binary_pos : forall A (f : A -> Z) l, (forall x, In x l -> 0 <= f x <= 1) -> 1 <= sumf f l ->
  exists x, In x l /\ f x = 1.
Proof.
  induction l as [|a l IH]; intros Hb Hs; cbn in Hs; [lia|].
  assert (0 <= f a <= 1) by (apply Hb; now left).
  destruct (Z.eq_dec (f a) 1) as [E|E].
  - exists a. split; [now left|auto].
  - destruct IH as [x [Hx Fx]]; [intros; apply Hb; now right|lia|]. exists x. split; [now right|auto].
Qed.
(* sum of at most n values each <= 1 reaching n: all are 1 *)
Lemma sumf_all_one : forall A (f : A -> Z) l, (forall x, In x l -> f x <= 1) -> Z.of_nat (length l) <= sumf f l ->
  forall x, In x l -> f x = 1.
Proof.
  induction l as [|a l IH]; intros Hb Hs x Hx; [contradiction|]. cbn [length sumf] in Hs.
  assert (f a <= 1) by (apply Hb; now left).
  assert (sumf f l <= Z.of_nat (length l)).
  { clear - Hb. induction l as [|b l IH]; cbn [length sumf]; [lia|].
    assert (f b <= 1) by (apply Hb; right; now left).
    assert (sumf f l <= Z.of_nat (length l)) by (apply IH; intros y Hy; apply Hb; destruct Hy; [now left|right; now right]).
    lia. }
  destruct Hx as [->|Hx]; [lia|]. apply IH; auto; [intros; apply Hb; now right|lia].
Qed.

Lemma fold_add_map : forall A (g : A -> Z) l, fold_right Z.add 0 (map g l) = sumf g l.
Proof. induction l as [|a l IH]; cbn; [reflexivity|]. now rewrite IH. Qed.
Lemma eval_lin_sumf : forall a e, eval_lin a e = sumf (fun cv => fst cv * a (snd cv)) e.
Proof. induction e as [|cv e IH]; cbn; [reflexivity|]. unfold eval_lin in IH. now rewrite IH. Qed.
Lemma eval_lin_app : forall a e1 e2, eval_lin a (e1 ++ e2) = eval_lin a e1 + eval_lin a e2.
Proof. intros; rewrite !eval_lin_sumf. apply sumf_app. Qed.
Lemma eval_lin_neg : forall a e, eval_lin a (neg e) = - eval_lin a e.
Proof.
  induction e as [|[c v] e IH]; [reflexivity|].
  change (eval_lin a (neg ((c, v) :: e))) with (- c * a v + eval_lin a (neg e)).
  change (eval_lin a ((c, v) :: e)) with (c * a v + eval_lin a e). rewrite IH. lia.
Qed.
Lemma eval_lin_cons : forall a c v e, eval_lin a ((c, v) :: e) = c * a v + eval_lin a e.
Proof. reflexivity. Qed.

(* ------------------------------------------------------------------ sat, row by row *)
Lemma sat_rows : forall cs a c, sat cs a = true -> In c (cs_rows cs) -> sat_constr a c = true.
Proof.
  intros cs a c H Hc. unfold sat in H. apply andb_true_iff in H. destruct H as [_ H].
  rewrite forallb_forall in H. now apply H.
Qed.
Lemma sat_bounds : forall cs a d, sat cs a = true -> In d (cs_vars cs) -> sat_bound a d = true.
Proof.
  intros cs a d H Hd. unfold sat in H. apply andb_true_iff in H. destruct H as [H _].
  rewrite forallb_forall in H. now apply H.
Qed.

Lemma free_tasks_In : forall I x, In x (free_tasks I) <-> In x (ti_tasks I) /\ is_running x = false.
Proof. intros; unfold free_tasks. rewrite filter_In. split; intros [A B]; split; auto; destruct (is_running x); auto; discriminate. Qed.

Lemma row_of_task : forall I x c, In x (free_tasks I) -> In c (task_rows I x) -> In c (cs_rows (gen_tetri I)).
Proof.
  intros I x c Hx Hc. cbn. apply in_or_app. left. apply in_flat_map. exists x. auto.
Qed.
Lemma row_of_dep : forall I x c, In x (ti_tasks I) -> In c (dep_rows I x) -> In c (cs_rows (gen_tetri I)).
Proof.
  intros I x c Hx Hc. cbn. apply in_or_app. right. apply in_or_app. left. apply in_flat_map. exists x. auto.
Qed.
Lemma row_of_cap : forall I c, In c (cap_rows I) -> In c (cs_rows (gen_tetri I)).
Proof. intros I c Hc. cbn. apply in_or_app. right. apply in_or_app. now right. Qed.
Lemma var_of_task : forall I x d, In x (free_tasks I) -> In d (task_vars I x) -> In d (cs_vars (gen_tetri I)).
Proof. intros I x d Hx Hd. cbn. apply in_or_app. left. apply in_flat_map. exists x. auto. Qed.
Lemma var_of_dep : forall I x d, In x (ti_tasks I) -> In d (dep_vars I x) -> In d (cs_vars (gen_tetri I)).
Proof. intros I x d Hx Hd. cbn. apply in_or_app. right. apply in_flat_map. exists x. auto. Qed.

Section Sat.
  Variable I : tinst.
  Variable a : assignment.
  Hypothesis Hsat : sat (gen_tetri I) a = true.

  Lemma cell_binary : forall x c, In x (free_tasks I) -> In c (var_cells I x) -> 0 <= a (cell_var x c) <= 1.
  Proof.
    intros x c Hx Hc.
    assert (Hd : In (mkVD (cell_var x c) TBin 0 (Some 1)) (task_vars I x)).
    { unfold task_vars. apply in_or_app. left. apply in_map_iff. exists c. auto. }
    pose proof (sat_bounds _ _ _ Hsat (var_of_task _ _ _ Hx Hd)) as B. unfold sat_bound in B. cbn [vd_lb vd_var vd_ub] in B. lia.
  Qed.

  Definition cellsum (x : ttask) : Z := sumf (fun c => a (cell_var x c)) (var_cells I x).

  Lemma eval_cell_terms : forall x, eval_lin a (cell_terms I x) = cellsum x.
  Proof.
    intros x. unfold cell_terms, cellsum. rewrite eval_lin_sumf, sumf_map. apply sumf_ext. intros c _. cbn [fst snd]. lia.
  Qed.

  Lemma cellsum_nonneg : forall x, In x (free_tasks I) -> 0 <= cellsum x.
  Proof. intros x Hx. apply sumf_nonneg. intros c Hc. apply (cell_binary x c Hx Hc). Qed.

  (* at most one unit of placement per task *)
  Lemma cellsum_le_1 : forall x, In x (free_tasks I) -> cellsum x <= 1.
  Proof.
    intros x Hx. unfold task_rows.
    destruct (must_stay I x) eqn:M.
    - assert (Hr : In (CLin (RRequired (tt_id x)) (cell_terms I x) SEq 1) (task_rows I x)).
      { unfold task_rows. rewrite M. apply in_or_app. right. apply in_or_app. left. now left. }
      pose proof (sat_rows _ _ _ Hsat (row_of_task _ _ _ Hx Hr)) as S. cbn in S. rewrite eval_cell_terms in S. lia.
    - assert (Hr : In (CLin (RConsistent (tt_id x)) (cell_terms I x) SLe 1) (task_rows I x)).
      { unfold task_rows. rewrite M. apply in_or_app. right. apply in_or_app. left. now left. }
      pose proof (sat_rows _ _ _ Hsat (row_of_task _ _ _ Hx Hr)) as S. cbn in S. rewrite eval_cell_terms in S. lia.
  Qed.

  Lemma must_stay_cellsum : forall x, In x (free_tasks I) -> must_stay I x = true -> cellsum x = 1.
  Proof.
    intros x Hx M.
    assert (Hr : In (CLin (RRequired (tt_id x)) (cell_terms I x) SEq 1) (task_rows I x)).
    { unfold task_rows. rewrite M. apply in_or_app. right. apply in_or_app. left. now left. }
    pose proof (sat_rows _ _ _ Hsat (row_of_task _ _ _ Hx Hr)) as S. cbn in S. rewrite eval_cell_terms in S. lia.
  Qed.

  Lemma is_placed_cellsum : forall x, In x (free_tasks I) -> must_stay I x = false -> a (VIsPlaced (tt_id x)) = cellsum x.
  Proof.
    intros x Hx M.
    assert (Hr : In (CLin (RIsPlaced (tt_id x)) ((1, VIsPlaced (tt_id x)) :: neg (cell_terms I x)) SEq 0) (task_rows I x)).
    { unfold task_rows. rewrite M. apply in_or_app. right. apply in_or_app. left. right. now left. }
    pose proof (sat_rows _ _ _ Hsat (row_of_task _ _ _ Hx Hr)) as S. cbn [sat_constr cmp] in S.
    rewrite eval_lin_cons, eval_lin_neg, eval_cell_terms in S. lia.
  Qed.

  (* a cell with value 1 makes the read-back answer "placed" *)
  Lemma cell_one_readback : forall x c, In c (var_cells I x) -> a (cell_var x c) = 1 -> exists p, readback_task I a x = Some p.
  Proof.
    intros x c Hc H1. destruct (readback_task I a x) eqn:R; [eauto|].
    exfalso. exact (readback_task_None _ _ _ R c Hc H1).
  Qed.
  Lemma cellsum_one_readback : forall x, In x (free_tasks I) -> 1 <= cellsum x -> exists p, readback_task I a x = Some p.
  Proof.
    intros x Hx H1. destruct (sumf_binary_pos _ (fun c => a (cell_var x c)) (var_cells I x)) as [c [Hc Fc]]; auto.
    - intros c Hc. apply (cell_binary x c Hx Hc).
    - eapply cell_one_readback; eauto.
  Qed.
End Sat.
