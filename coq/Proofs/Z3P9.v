(* C12 for the Z3 planner, the optimum: from any satisfying assignment, un-placing every task and
   moving one task's start variable to a time allowed by its timing row gives another satisfying
   assignment.  Hence an assignment that minimises the weight of the violated soft rows (what
   z3.Optimize minimises first) under enforce_deadlines makes every task that can meet its deadline
   at all (not `hopeless`) meet it: a placed task misses its deadline only if it is hopeless. *)
From Coq Require Import ZArith Bool List Lia ZifyBool.
Import ListNotations.
From Verif Require Import Model.Val Gen.Src_Z3 Model.Z3Model Proofs.Z3P Proofs.Z3P2 Proofs.Z3P3.
Open Scope Z_scope.

(* ---------------------------------------------------------------- inversion of the row lists *)
Lemma concat_results_inv : forall A (l : list (result (list A))) out x, concat_results l = Ok out -> In x out ->
  exists r rows, In r l /\ r = Ok rows /\ In x rows.
Proof.
  induction l as [|r0 l IH]; intros out x H Hx.
  - cbn in H. inversion H; subst. contradiction.
  - cbn [concat_results] in H. destruct r0 as [x0|c]; cbn [bind] in H; [|discriminate].
    destruct (concat_results l) as [y|c] eqn:El; cbn [bind] in H; [|discriminate]. inversion H; subst.
    apply in_app_or in Hx. destruct Hx as [Hx|Hx].
    + exists (Ok x0), x0. split; [now left|]. split; [reflexivity|exact Hx].
    + destruct (IH _ _ eq_refl Hx) as (r & rows & Hr & He & Hin). exists r, rows. split; [now right|]. tauto.
Qed.
Lemma sequence_inv : forall A (l : list (result A)) ys y, sequence l = Ok ys -> In y ys -> In (Ok y) l.
Proof.
  induction l as [|r0 l IH]; intros ys y H Hy.
  - cbn in H. inversion H; subst. contradiction.
  - cbn [sequence] in H. destruct r0 as [y0|c]; cbn [bind] in H; [|discriminate].
    destruct (sequence l) as [ys'|c] eqn:E; cbn [bind] in H; [|discriminate]. inversion H; subst.
    destruct Hy as [->|Hy]; [now left|right; eapply IH; eauto].
Qed.
Lemma pairs_from_in : forall ins l t1 t2, In (t1, t2) (pairs_from ins l) -> In t1 l /\ In t2 l.
Proof.
  induction l as [|x l IH]; intros t1 t2 H; [contradiction|]. cbn [pairs_from] in H. apply in_app_or in H. destruct H as [H|H].
  - apply in_map_iff in H. destruct H as (y & Heq & Hy). inversion Heq; subst. apply filter_In in Hy. split; [now left|right; tauto].
  - destruct (IH _ _ H). split; now right.
Qed.
Lemma find_task_nodup : forall l t, NoDup (map zt_id l) -> In t l -> find_task l (zt_id t) = Some t.
Proof.
  induction l as [|x l IH]; intros t Hnd Hin; [contradiction|]. cbn [map] in Hnd. inversion Hnd as [|? ? Hnot Hnd']; subst.
  unfold find_task. cbn [find]. destruct Hin as [->|Hin].
  - rewrite Z.eqb_refl. reflexivity.
  - destruct (zt_id x =? zt_id t) eqn:E.
    + exfalso. apply Hnot. apply Z.eqb_eq in E. rewrite E. apply in_map. exact Hin.
    + apply IH; assumption.
Qed.

(* rows whose truth is taken from the given assignment; every other row is re-established *)
Definition kept (f : bexp) : bool :=
  match f with
  | FAnd [FGe _ _; FGe _ _] => true
  | FIff (FVar (VIndep _ _ _ _)) _ => true
  | FEqI (IVar VPenalty) _ => true
  | _ => false
  end.

Section Unplace.
Variables (ins : instance) (a : asg) (tid snew : Z).

Definition remof (id : Z) : Z := match find_task (i_tasks ins) id with Some t => zt_remaining t | None => 0 end.
Definition a1 : asg := fun v =>
  match v with
  | VStart id => if id =? tid then snew else a v
  | VPlaced _ => 0
  | VWorker _ => 0
  | _ => a v
  end.
Definition a2 : asg := fun v =>
  match v with
  | VEnds i j => if a1 (VStart i) + remof i <? a1 (VStart j) then 1 else 0
  | _ => a1 v
  end.
Definition a3 : asg := fun v =>
  match v with
  | VOverlap i j => if negb (truth a2 (VEnds i j) || truth a2 (VEnds j i)) then 1 else 0
  | _ => a2 v
  end.
Definition slack_val (g : Z) : Z :=
  match slack_row ins g with
  | FEqI _ e :: _ => ieval a3 e
  | _ => a3 (VSlack g)
  end.
Definition a4 : asg := fun v => match v with VSlack g => slack_val g | _ => a3 v end.
Definition goal_expr : iexp :=
  isum (map (fun t => IIte (VPlaced (zt_id t)) (IVar (VSlack (zt_graph t))) (IVar VPenalty)) (i_tasks ins)).
Definition a5 : asg := fun v => match v with VGoal => ieval a4 goal_expr | _ => a4 v end.

Variable fs : list bexp.
Hypothesis Hgen : gen_z3 ins = Ok fs.
(* only the timing rows, the definitions of the independence variables and of the penalty constant are
   taken from `a` *)
Hypothesis Hkept : forall g, In g fs -> kept g = true -> feval a g = true.
Hypothesis Hnodup : NoDup (map zt_id (i_tasks ins)).
Hypothesis Hnew : forall t, In t (i_tasks ins) -> zt_id t = tid -> snew >= i_now ins /\ snew >= zt_release t.

Lemma truth_placed5 : forall id, truth a5 (VPlaced id) = false.
Proof. reflexivity. Qed.
Lemma bits5 : forall t, worker_bits ins a5 t = 0.
Proof. intros t. unfold worker_bits. change (a5 (VWorker (zt_id t))) with 0. apply Zmod_0_l. Qed.

Lemma start5 : forall t, In t (i_tasks ins) -> t_start a5 t = if zt_id t =? tid then snew else t_start a t.
Proof. reflexivity. Qed.

(* ---- per-task rows *)
Lemma task_rows_sat5 : forall t rows f, In t (i_tasks ins) -> task_rows ins t = Ok rows -> In f rows -> feval a5 f = true.
Proof.
  intros t rows f Ht Hr Hf.
  destruct (task_rows_shape _ _ _ Hr) as [(Hn & Hc & rr & Hrr & ->)|(Hn & Hc & ->)].
  - destruct Hf as [<-|[<-|[<-|Hf]]].
    + (* timing *)
      assert (Hold : feval a (timing (ops ins) t (i_now ins)) = true).
      { apply Hkept; [|reflexivity]. eapply task_rows_in; eauto. now left. }
      apply timing_sem in Hold. unfold timing. cbn [o_and o_ge o_start_time o_const o_release_us ops feval ieval].
      change (a5 (VStart (zt_id t))) with (if zt_id t =? tid then snew else a (VStart (zt_id t))).
      unfold t_start in Hold. destruct (zt_id t =? tid) eqn:E.
      * apply Z.eqb_eq in E. pose proof (Hnew t Ht E). lia.
      * lia.
    + (* one-hot: the all-zero vector is the last alternative *)
      unfold one_hot. cbn [o_or o_placed_on_worker ops]. rewrite feval_or. apply existsb_exists.
      exists (o_bv_eq_int (ops ins) (worker_bv ins t) (py_shr (2 ^ (nworkers ins - 1)) (nworkers ins))). split.
      * apply in_map_iff. exists (nworkers ins). split; [reflexivity|]. apply py_range_in. lia.
      * rewrite feval_bv_eq_int, bits5, shr_pow2 by lia. rewrite Z.eqb_refl. rewrite Z.mod_0_l; [reflexivity|].
        pose proof (pow2_pos (nworkers ins)). lia.
    + (* placed <-> vector non-zero *)
      unfold placed_iff. cbn [o_iff o_is_placed o_placed_on_worker ops].
      change (Bool.eqb (truth a5 (VPlaced (zt_id t))) (feval a5 (o_bv_ne_int (ops ins) (worker_bv ins t) 0)) = true).
      rewrite feval_bv_ne_int, bits5, truth_placed5. rewrite Z.mod_0_l by (pose proof (pow2_pos (nworkers ins)); lia). reflexivity.
    + (* resource rows: every one is an implication from `on worker k` or from `placed` *)
      destruct (concat_results_inv _ _ _ _ Hrr Hf) as (r & rws & Hrin & Hre & Hfin).
      apply in_map_iff in Hrin. destruct Hrin as ([idx w] & <- & Hiw). cbn [fst snd] in Hre.
      unfold indexed_workers in Hiw. apply in_map_iff in Hiw. destruct Hiw as ([k w'] & Heq & Hkw). cbn [fst snd] in Heq.
      inversion Heq; subst idx w'; clear Heq.
      pose proof (indexed_from_in _ _ _ _ _ Hkw) as [Hk _]. fold (nworkers ins) in Hk.
      assert (Hmod : 2 ^ k mod 2 ^ nworkers ins = 2 ^ k).
      { apply Z.mod_small. split; [apply Z.pow_nonneg; lia|apply pow2_lt; lia]. }
      unfold resource_rows in Hre. destruct (can_be_placed w t).
      * (* rows built by the fold *)
        revert rws Hre Hfin. induction (rtypes t) as [|r0 l IH]; intros rws Hre Hfin.
        -- cbn in Hre. inversion Hre; subst. contradiction.
        -- cbn [fold_right] in Hre. destruct (fold_right _ (Ok []) l) as [rows0|c] eqn:Ef; cbn [bind] in Hre; [|discriminate].
           destruct (rsize ins r0) as [size|]; [|discriminate]. destruct (req w t r0) as [need|]; [|discriminate].
           inversion Hre; subst rws; clear Hre. destruct Hfin as [<-|Hfin]; [|eapply IH; eauto].
           assert (Hx : feval a5 (o_bv_eq_int (ops ins) (worker_bv ins t) (2 ^ k)) = false).
           { rewrite feval_bv_eq_int, bits5, Hmod. pose proof (pow2_pos k ltac:(lia)). lia. }
           change (feval a5 (FImp ?x ?y)) with (implb (feval a5 x) (feval a5 y)).
           match goal with |- implb ?x ?y = true => replace x with false by (symmetry; exact Hx) end. reflexivity.
      * inversion Hre; subst rws. destruct Hfin as [<-|[]]. cbn [feval]. rewrite truth_placed5. reflexivity.
  - destruct Hf as [<-|[]]. cbn [feval]. rewrite truth_placed5. reflexivity.
Qed.

(* ---- exclusivity rows *)
Lemma remof_task : forall t, In t (i_tasks ins) -> remof (zt_id t) = zt_remaining t.
Proof. intros t Ht. unfold remof. rewrite (find_task_nodup _ _ Hnodup Ht). reflexivity. Qed.

Lemma pair_rows_sat5 : forall idx w p rows f, In p (pairs ins) -> pair_rows ins idx w p = Ok rows ->
  (forall g, In g rows -> kept g = true -> feval a g = true) -> In f rows -> feval a5 f = true.
Proof.
  intros idx w [t1 t2] rows f Hp Hr Hold Hf. unfold pair_rows in Hr. cbn [fst snd] in Hr.
  destruct (sequence _) as [irows|c] eqn:Eseq; cbn [bind] in Hr; [|discriminate]. inversion Hr; subst rows; clear Hr.
  destruct (pairs_from_in _ _ _ _ Hp) as [H1 H2].
  destruct Hf as [<-|[<-|[<-|Hf]]].
  - unfold ends_before. cbn [feval ieval].
    change (truth a5 (VEnds (zt_id t1) (zt_id t2))) with
      (negb ((if a1 (VStart (zt_id t1)) + remof (zt_id t1) <? a1 (VStart (zt_id t2)) then 1 else 0) =? 0)).
    change (a5 (VStart (zt_id t1))) with (a1 (VStart (zt_id t1))). change (a5 (VStart (zt_id t2))) with (a1 (VStart (zt_id t2))).
    rewrite (remof_task t1 H1). replace (a1 (VStart (zt_id t1)) + (zt_remaining t1 + 0)) with (a1 (VStart (zt_id t1)) + zt_remaining t1) by lia.
    destruct (a1 (VStart (zt_id t1)) + zt_remaining t1 <? a1 (VStart (zt_id t2))); reflexivity.
  - unfold ends_before. cbn [feval ieval].
    change (truth a5 (VEnds (zt_id t2) (zt_id t1))) with
      (negb ((if a1 (VStart (zt_id t2)) + remof (zt_id t2) <? a1 (VStart (zt_id t1)) then 1 else 0) =? 0)).
    change (a5 (VStart (zt_id t1))) with (a1 (VStart (zt_id t1))). change (a5 (VStart (zt_id t2))) with (a1 (VStart (zt_id t2))).
    rewrite (remof_task t2 H2). replace (a1 (VStart (zt_id t2)) + (zt_remaining t2 + 0)) with (a1 (VStart (zt_id t2)) + zt_remaining t2) by lia.
    destruct (a1 (VStart (zt_id t2)) + zt_remaining t2 <? a1 (VStart (zt_id t1))); reflexivity.
  - cbn [feval].
    change (truth a5 (VOverlap (zt_id t1) (zt_id t2))) with
      (negb ((if negb (truth a2 (VEnds (zt_id t1) (zt_id t2)) || truth a2 (VEnds (zt_id t2) (zt_id t1))) then 1 else 0) =? 0)).
    change (truth a5 (VEnds (zt_id t1) (zt_id t2))) with (truth a2 (VEnds (zt_id t1) (zt_id t2))).
    change (truth a5 (VEnds (zt_id t2) (zt_id t1))) with (truth a2 (VEnds (zt_id t2) (zt_id t1))).
    rewrite orb_false_r. destruct (truth a2 (VEnds (zt_id t1) (zt_id t2)) || truth a2 (VEnds (zt_id t2) (zt_id t1))); reflexivity.
  - apply in_app_or in Hf. destruct Hf as [Hf|[<-|[]]].
    + (* independence rows mention only variables that were not touched *)
      assert (Hf' := Hf). apply (sequence_inv _ _ _ _ Eseq) in Hf. apply in_map_iff in Hf. destruct Hf as ([r q] & Hrow & _).
      cbn [fst snd] in Hrow. unfold indep_row in Hrow. destruct (rsize ins r) as [size|]; [|discriminate].
      destruct ((0 <? q) && (q <=? size)); [|discriminate]. inversion Hrow; subst f.
      assert (Ho := Hold _ (or_intror (or_intror (or_intror (in_or_app _ _ _ (or_introl Hf'))))) eq_refl).
      exact Ho.
    + change (feval a5 (FImp ?x ?y)) with (implb (feval a5 x) (feval a5 y)). rewrite feval_and. cbn [forallb feval].
      rewrite truth_placed5. reflexivity.
Qed.

(* ---- objective rows *)
Lemma ieval_add : forall b l, ieval b (IAdd l) = fold_right (fun x acc => ieval b x + acc) 0 l.
Proof. intros b l. cbn [ieval]. induction l as [|x l IH]; cbn [fold_right]; [reflexivity|]. now rewrite IH. Qed.
Lemma ieval_goal_ext : forall l,
  ieval a5 (isum (map (fun t => IIte (VPlaced (zt_id t)) (IVar (VSlack (zt_graph t))) (IVar VPenalty)) l)) =
  ieval a4 (isum (map (fun t => IIte (VPlaced (zt_id t)) (IVar (VSlack (zt_graph t))) (IVar VPenalty)) l)).
Proof.
  intros l. destruct l as [|t l]; [reflexivity|]. unfold isum. cbn [map]. rewrite !ieval_add.
  change (IIte (VPlaced (zt_id t)) (IVar (VSlack (zt_graph t))) (IVar VPenalty) ::
          map (fun t1 => IIte (VPlaced (zt_id t1)) (IVar (VSlack (zt_graph t1))) (IVar VPenalty)) l)
    with (map (fun t1 => IIte (VPlaced (zt_id t1)) (IVar (VSlack (zt_graph t1))) (IVar VPenalty)) (t :: l)).
  generalize (t :: l). intros l0. induction l0 as [|x l0 IH]; [reflexivity|]. cbn [map fold_right]. rewrite IH. reflexivity.
Qed.

Lemma objective_sat5 : forall f, In f (objective_rows ins) ->
  (forall g, In g (objective_rows ins) -> kept g = true -> feval a g = true) -> feval a5 f = true.
Proof.
  intros f Hf Hold. unfold objective_rows in Hf. apply in_app_or in Hf. destruct Hf as [[<-|[]]|Hf].
  - exact (Hold _ (or_introl eq_refl) eq_refl).
  - apply in_app_or in Hf. destruct Hf as [Hf|[<-|[]]].
    + apply in_flat_map in Hf. destruct Hf as (g & _ & Hf). unfold slack_row in Hf.
      destruct (filter (fun t => zt_graph t =? g) (i_tasks ins)) as [|t l] eqn:El; [contradiction|]. destruct Hf as [<-|[]].
      cbn [feval ieval]. change (a5 (VSlack g)) with (slack_val g). unfold slack_val, slack_row. rewrite El. cbn [ieval].
      apply Z.eqb_refl.
    + cbn [feval]. change (ieval a5 (IVar VGoal)) with (ieval a4 goal_expr). fold goal_expr.
      unfold goal_expr. rewrite ieval_goal_ext. apply Z.eqb_refl.
Qed.

(* ---- the whole system *)
Theorem unplaced_sat_gen : sat fs a5 = true.
Proof.
  destruct (gen_z3_parts _ _ Hgen) as (tr & er & Htr & Her & Hfs).
  unfold sat. apply forallb_forall. intros f Hf. rewrite Hfs in Hf.
  assert (Hall : forall g, In g fs -> kept g = true -> feval a g = true) by exact Hkept.
  apply in_app_or in Hf. destruct Hf as [Hf|Hf].
  - destruct (concat_results_inv _ _ _ _ Htr Hf) as (r & rows & Hr & He & Hin).
    apply in_map_iff in Hr. destruct Hr as (t & <- & Ht). eapply task_rows_sat5; eauto.
  - apply in_app_or in Hf. destruct Hf as [Hf|Hf].
    + apply in_flat_map in Hf. destruct Hf as (t & Ht & Hf). cbn [dependency_rows] in Hf.
      destruct Hf as [<-|[<-|[]]]; unfold dep_placed, dep_start; cbn [o_implies o_is_placed ops];
        change (feval a5 (FImp ?x ?y)) with (implb (feval a5 x) (feval a5 y)); cbn [feval]; rewrite truth_placed5; reflexivity.
    + apply in_app_or in Hf. destruct Hf as [Hf|Hf].
      * unfold exclusivity_rows in Her. destruct (concat_results_inv _ _ _ _ Her Hf) as (r & rows & Hr & He & Hin).
        apply in_flat_map in Hr. destruct Hr as ([idx w] & Hiw & Hr). apply in_map_iff in Hr. destruct Hr as (p & <- & Hp).
        cbn [fst snd] in He. eapply pair_rows_sat5; eauto. intros g Hg Hk. apply Hall; [|exact Hk]. rewrite Hfs.
        apply in_or_app; right. apply in_or_app; right. apply in_or_app; left.
        eapply concat_results_in; [exact Her| |exact He|exact Hg].
        apply in_flat_map. exists (idx, w). split; [exact Hiw|]. apply in_map_iff. exists p. split; [reflexivity|exact Hp].
      * apply objective_sat5; [exact Hf|]. intros g Hg Hk. apply Hall; [|exact Hk]. rewrite Hfs.
        apply in_or_app; right. apply in_or_app; right. apply in_or_app; right. exact Hg.
Qed.
End Unplace.

Theorem unplaced_sat : forall ins a tid snew fs, gen_z3 ins = Ok fs -> sat fs a = true ->
  NoDup (map zt_id (i_tasks ins)) -> forall t0, In t0 (i_tasks ins) -> zt_id t0 = tid ->
  snew >= i_now ins /\ snew >= zt_release t0 -> sat fs (a5 ins a tid snew) = true.
Proof.
  intros ins a tid snew fs Hg Hs Hnd t0 Ht0 Htid Hnew. apply unplaced_sat_gen; try assumption.
  - intros g Hg' _. eapply sat_in; eauto.
  - intros t Ht He. assert (t = t0).
    { pose proof (find_task_nodup _ _ Hnd Ht) as H1. pose proof (find_task_nodup _ _ Hnd Ht0) as H2. rewrite He in H1. rewrite Htid in H2. congruence. }
    subst. exact Hnew.
Qed.

(* ---------------------------------------------------------------- soft rows under enforce_deadlines *)
Definition pen (ins : instance) (b : asg) (t : ztask) : Z :=
  if any_compatible ins t then (if meets_deadline b t then 0 else 1) else 0.
Lemma pen_fold_app : forall b (x y : list (bexp * Z)),
  fold_right (fun p acc => (if feval b (fst p) then 0 else snd p) + acc) 0 (x ++ y) =
  fold_right (fun p acc => (if feval b (fst p) then 0 else snd p) + acc) 0 x +
  fold_right (fun p acc => (if feval b (fst p) then 0 else snd p) + acc) 0 y.
Proof. intros b x y. induction x as [|p x IH]; cbn [app fold_right]; [lia|]. rewrite IH. lia. Qed.
Lemma soft_penalty_enforce : forall ins b, i_enforce ins = true ->
  soft_penalty ins b = fold_right (fun t acc => pen ins b t + acc) 0 (i_tasks ins).
Proof.
  intros ins b He. unfold soft_penalty, soft_z3. rewrite He. induction (i_tasks ins) as [|t l IH]; [reflexivity|].
  cbn [flat_map]. rewrite pen_fold_app, IH. cbn [fold_right]. f_equal.
  unfold pen. destruct (any_compatible ins t); [|reflexivity].
  unfold soft_rows. cbn [fold_right fst snd].
  assert (Hd : feval b (o_le (ops ins) (o_add_const (ops ins) (o_start_time (ops ins) t) (o_remaining_us (ops ins) t))
                                (o_const (ops ins) (o_deadline_us (ops ins) t))) = meets_deadline b t).
  { cbn [o_le o_add_const o_start_time o_remaining_us o_const o_deadline_us ops feval ieval]. unfold meets_deadline. f_equal. lia. }
  rewrite Hd. destruct (meets_deadline b t); reflexivity.
Qed.
Lemma sum_lt : forall (f g : ztask -> Z) l, (forall x, In x l -> f x <= g x) -> (exists x, In x l /\ f x < g x) ->
  fold_right (fun t acc => f t + acc) 0 l < fold_right (fun t acc => g t + acc) 0 l.
Proof.
  intros f g l. induction l as [|y l IH]; intros Hle (x & Hin & Hlt); [contradiction|]. cbn [fold_right].
  assert (Hrest : fold_right (fun t acc => f t + acc) 0 l <= fold_right (fun t acc => g t + acc) 0 l).
  { clear IH Hin Hlt. induction l as [|z l IHl]; cbn [fold_right]; [lia|].
    pose proof (Hle z (or_intror (or_introl eq_refl))).
    assert (fold_right (fun t acc => f t + acc) 0 l <= fold_right (fun t acc => g t + acc) 0 l).
    { apply IHl. intros w [->|Hw]; apply Hle; [now left|right; now right]. }
    lia. }
  destruct Hin as [->|Hin].
  - lia.
  - pose proof (Hle y (or_introl eq_refl)).
    assert (fold_right (fun t acc => f t + acc) 0 l < fold_right (fun t acc => g t + acc) 0 l).
    { apply IH; [intros w Hw; apply Hle; now right|now exists x]. }
    lia.
Qed.

(* the optimum under enforce_deadlines: every task that has a compatible worker and can meet its
   deadline at all has a start variable that meets it; in particular a placed task misses its
   deadline only if it is hopeless *)
Theorem c12_z3_optimum : forall ins fs a, gen_z3 ins = Ok fs -> i_enforce ins = true -> NoDup (map zt_id (i_tasks ins)) ->
  soft_optimal ins fs a ->
  forall t, In t (i_tasks ins) -> any_compatible ins t = true -> hopeless ins t = false -> meets_deadline a t = true.
Proof.
  intros ins fs a Hg He Hnd [Hs Hopt] t Ht Hc Hh.
  destruct (meets_deadline a t) eqn:Hm; [reflexivity|exfalso].
  set (snew := Z.max (i_now ins) (zt_release t)).
  assert (Hs' : sat fs (a5 ins a (zt_id t) snew) = true).
  { eapply unplaced_sat with (t0 := t); eauto. unfold snew. lia. }
  specialize (Hopt _ Hs'). rewrite !soft_penalty_enforce in Hopt by exact He.
  assert (Hlt : fold_right (fun t1 acc => pen ins (a5 ins a (zt_id t) snew) t1 + acc) 0 (i_tasks ins) <
                fold_right (fun t1 acc => pen ins a t1 + acc) 0 (i_tasks ins)).
  { apply sum_lt.
    - intros x Hx. unfold pen. destruct (any_compatible ins x); [|lia]. unfold meets_deadline.
      change (a5 ins a (zt_id t) snew (VStart (zt_id x))) with (if zt_id x =? zt_id t then snew else a (VStart (zt_id x))).
      destruct (zt_id x =? zt_id t) eqn:E.
      + apply Z.eqb_eq in E. assert (x = t).
        { pose proof (find_task_nodup _ _ Hnd Hx) as H1. pose proof (find_task_nodup _ _ Hnd Ht) as H2. rewrite E in H1. congruence. }
        subst x. unfold hopeless in Hh. fold snew in Hh. replace (snew + zt_remaining t <=? zt_deadline t) with true by lia.
        destruct (a (VStart (zt_id t)) + zt_remaining t <=? zt_deadline t); lia.
      + lia.
    - exists t. split; [exact Ht|]. unfold pen. rewrite Hc, Hm. unfold meets_deadline.
      change (a5 ins a (zt_id t) snew (VStart (zt_id t))) with (if zt_id t =? zt_id t then snew else a (VStart (zt_id t))).
      rewrite Z.eqb_refl. unfold hopeless in Hh. fold snew in Hh. replace (snew + zt_remaining t <=? zt_deadline t) with true by lia. lia. }
  lia.
Qed.

Corollary c12_z3_placed_meets_or_hopeless : forall ins fs a, gen_z3 ins = Ok fs -> i_enforce ins = true ->
  NoDup (map zt_id (i_tasks ins)) -> soft_optimal ins fs a -> c12_ok ins a = true.
Proof.
  intros ins fs a Hg He Hnd Hopt. unfold c12_ok. rewrite He. cbn [negb orb]. apply forallb_forall. intros t Ht.
  destruct (truth a (VPlaced (zt_id t))) eqn:Hpl; [|reflexivity]. destruct (hopeless ins t) eqn:Hh; [reflexivity|]. cbn [negb andb implb].
  destruct Hopt as [Hs Ho]. destruct (placed_facts _ _ _ _ Hg Hs Ht Hpl) as (Hc & _).
  eapply c12_z3_optimum; eauto. split; assumption.
Qed.

(* ---- the hypotheses of c12_z3_optimum are satisfiable by a state in which it says something: the chain
        t0 -> t1 of Z3P.ex_chain under enforce_deadlines, both placed and meeting their deadlines (penalty 0) *)
Lemma soft_penalty_nonneg : forall ins b, i_enforce ins = true -> 0 <= soft_penalty ins b.
Proof.
  intros ins b He. rewrite soft_penalty_enforce by exact He. induction (i_tasks ins) as [|t l IH]; cbn [fold_right]; [lia|].
  unfold pen at 1. destruct (any_compatible ins t); [destruct (meets_deadline b t)|]; lia.
Qed.
Example c12_z3_optimum_nonvacuous : exists fs,
  gen_z3 ex_chain = Ok fs /\ i_enforce ex_chain = true /\ NoDup (map zt_id (i_tasks ex_chain)) /\
  soft_optimal ex_chain fs ex_chain_asg /\
  forallb (fun t => truth ex_chain_asg (VPlaced (zt_id t)) && any_compatible ex_chain t && negb (hopeless ex_chain t)) (i_tasks ex_chain) = true.
Proof.
  set (fs0 := match gen_z3 ex_chain with Ok l => l | Err _ => [] end).
  assert (E : gen_z3 ex_chain = Ok fs0) by (vm_compute; reflexivity).
  exists fs0. split; [exact E|]. split; [reflexivity|]. split.
  - cbn. repeat constructor; cbn; intuition lia.
  - split; [|vm_compute; reflexivity]. split; [vm_compute; reflexivity|].
    intros a' _. replace (soft_penalty ex_chain ex_chain_asg) with 0 by (vm_compute; reflexivity).
    apply soft_penalty_nonneg. reflexivity.
Qed.

(* ---------------------------------------------------------------- the asserted system is always satisfiable *)
(* every task un-placed, starting at the earliest time its timing row allows, no slot taken *)
Definition a0 (ins : instance) : asg := fun v =>
  match v with
  | VStart id => match find_task (i_tasks ins) id with
                 | Some t => Z.max (i_now ins) (zt_release t)
                 | None => i_now ins
                 end
  | VPenalty => TASK_SKIP_PENALTY
  | _ => 0
  end.

Lemma resource_rows_not_kept : forall ins t idx w rws f, resource_rows ins t idx w = Ok rws -> In f rws -> kept f = false.
Proof.
  intros ins t idx w rws f Hre Hf. unfold resource_rows in Hre. destruct (can_be_placed w t).
  - revert rws Hre Hf. induction (rtypes t) as [|r0 l IH]; intros rws Hre Hf.
    + cbn in Hre. inversion Hre; subst. contradiction.
    + cbn [fold_right] in Hre. destruct (fold_right _ (Ok []) l) as [rows0|c] eqn:Ef; cbn [bind] in Hre; [|discriminate].
      destruct (rsize ins r0) as [size|]; [|discriminate]. destruct (req w t r0) as [need|]; [|discriminate].
      inversion Hre; subst rws; clear Hre. destruct Hf as [<-|Hf]; [reflexivity|eapply IH; eauto].
  - inversion Hre; subst rws. destruct Hf as [<-|[]]. reflexivity.
Qed.

Lemma kept_a0 : forall ins fs, gen_z3 ins = Ok fs -> NoDup (map zt_id (i_tasks ins)) ->
  forall g, In g fs -> kept g = true -> feval (a0 ins) g = true.
Proof.
  intros ins fs Hg Hnd g Hin Hk. destruct (gen_z3_parts _ _ Hg) as (tr & er & Htr & Her & Hfs). rewrite Hfs in Hin.
  apply in_app_or in Hin. destruct Hin as [Hin|Hin].
  - destruct (concat_results_inv _ _ _ _ Htr Hin) as (r & rows & Hr & He & Hf).
    apply in_map_iff in Hr. destruct Hr as (t & <- & Ht).
    destruct (task_rows_shape _ _ _ He) as [(Hn & Hc & rr & Hrr & ->)|(Hn & Hc & ->)].
    + destruct Hf as [<-|[<-|[<-|Hf]]].
      * unfold timing. cbn [o_and o_ge o_start_time o_const o_release_us ops feval ieval].
        change (a0 ins (VStart (zt_id t))) with
          (match find_task (i_tasks ins) (zt_id t) with Some t' => Z.max (i_now ins) (zt_release t') | None => i_now ins end).
        rewrite (find_task_nodup _ _ Hnd Ht). lia.
      * unfold one_hot in Hk. cbn [o_or ops kept] in Hk. discriminate.
      * unfold placed_iff in Hk. cbn [o_iff o_is_placed ops kept] in Hk. discriminate.
      * destruct (concat_results_inv _ _ _ _ Hrr Hf) as (r & rws & Hrin & Hre & Hfin).
        apply in_map_iff in Hrin. destruct Hrin as ([idx w] & <- & _). cbn [fst snd] in Hre.
        rewrite (resource_rows_not_kept _ _ _ _ _ _ Hre Hfin) in Hk. discriminate.
    + destruct Hf as [<-|[]]. cbn [kept] in Hk. discriminate.
  - apply in_app_or in Hin. destruct Hin as [Hin|Hin].
    + apply in_flat_map in Hin. destruct Hin as (t & _ & Hf). cbn [dependency_rows] in Hf.
      destruct Hf as [<-|[<-|[]]]; unfold dep_placed, dep_start in Hk; cbn [o_implies ops kept] in Hk; discriminate.
    + apply in_app_or in Hin. destruct Hin as [Hin|Hin].
      * unfold exclusivity_rows in Her. destruct (concat_results_inv _ _ _ _ Her Hin) as (r & rows & Hr & He & Hf).
        apply in_flat_map in Hr. destruct Hr as ([idx w] & _ & Hr). apply in_map_iff in Hr. destruct Hr as ([t1 t2] & <- & _).
        unfold pair_rows in He. cbn [fst snd] in He.
        destruct (sequence _) as [irows|c] eqn:Eseq; cbn [bind] in He; [|discriminate]. inversion He; subst rows; clear He.
        destruct Hf as [<-|[<-|[<-|Hf]]]; try (unfold ends_before in Hk; cbn [kept] in Hk; discriminate).
        apply in_app_or in Hf. destruct Hf as [Hf|[<-|[]]]; [|cbn [kept] in Hk; discriminate].
        apply (sequence_inv _ _ _ _ Eseq) in Hf. apply in_map_iff in Hf. destruct Hf as ([r q] & Hrow & _).
        cbn [fst snd] in Hrow. unfold indep_row in Hrow. destruct (rsize ins r) as [size|]; [|discriminate].
        destruct ((0 <? q) && (q <=? size)) eqn:Eq; [|discriminate]. inversion Hrow; subst g.
        cbn [feval bveval]. change (truth (a0 ins) (VIndep (zw_name w) r (zt_id t1) (zt_id t2))) with false.
        change (a0 ins (VRes (zt_id t1) r)) with 0. change (a0 ins (VRes (zt_id t2) r)) with 0.
        rewrite !Zmod_0_l. cbn [Z.lxor].
        rewrite (Z.mod_small (2 ^ q - 1)) by (pose proof (pow2_pos q ltac:(lia)); lia).
        assert (2 ^ q >= 2).
        { replace q with (Z.succ (q - 1)) by lia. rewrite Z.pow_succ_r by lia. pose proof (pow2_pos (q - 1) ltac:(lia)). lia. }
        replace (0 =? 2 ^ q - 1) with false by lia. reflexivity.
      * unfold objective_rows in Hin. apply in_app_or in Hin. destruct Hin as [[<-|[]]|Hin].
        -- cbn [feval ieval]. change (a0 ins VPenalty) with TASK_SKIP_PENALTY. apply Z.eqb_refl.
        -- apply in_app_or in Hin. destruct Hin as [Hin|[<-|[]]]; [|cbn [kept] in Hk; discriminate].
           apply in_flat_map in Hin. destruct Hin as (gr & _ & Hf). unfold slack_row in Hf.
           destruct (filter (fun t => zt_graph t =? gr) (i_tasks ins)) as [|t l]; [contradiction|]. destruct Hf as [<-|[]].
           cbn [kept] in Hk. discriminate.
Qed.

(* whenever building the system does not raise, it has a model (everything un-placed): optimizer.check()
   cannot answer unsat, and every theorem about `sat` has its hypothesis satisfiable on every such instance *)
Theorem z3_always_feasible : forall ins fs, gen_z3 ins = Ok fs -> NoDup (map zt_id (i_tasks ins)) ->
  exists a, sat fs a = true /\ forall t, In t (i_tasks ins) -> truth a (VPlaced (zt_id t)) = false.
Proof.
  intros ins fs Hg Hnd. exists (a5 ins (a0 ins) 0 (a0 ins (VStart 0))). split; [|reflexivity].
  apply unplaced_sat_gen; try assumption.
  - apply kept_a0; assumption.
  - intros t Ht He.
    change (a0 ins (VStart 0)) with (match find_task (i_tasks ins) 0 with Some t' => Z.max (i_now ins) (zt_release t') | None => i_now ins end).
    rewrite <- He, (find_task_nodup _ _ Hnd Ht). lia.
Qed.
