(* C20 — part 8: capacity for ANY slot function under a covering condition; instance: the range-based
   (dynamic) discretisation of CapacityConstraintMap. *)
From Coq Require Import ZArith Bool List Lia ZifyBool.
Import ListNotations.
From Verif Require Import Model.Val Model.Strl Proofs.StrlP Proofs.StrlP2 Proofs.StrlP4.
Open Scope Z_scope.

(* one key per time, registered by every leaf that is active at that time *)
Definition covering (sl : Z -> Z -> list Z) (e : expr) : Prop :=
  exists key : Z -> Z, forall s d, In (s, d) (leaf_spans e) -> forall tau, s <= tau < s + d -> In (key tau) (sl s d).

Lemma compile_with_inv : forall pt now sl e cs, compile_with pt now sl e = Ok cs ->
  exists n ks, e = Objective n ks /\ forallb (no_throw pt now) ks = true /\
    cs = {| cs_vars := e_vars pt now e; cs_rows := e_rows pt now e ++ cap_rows pt (e_regs_with pt now sl e);
            cs_obj := pu_util (parse pt now e) |}.
Proof.
  intros pt now sl e cs H. destruct e; cbn [compile_with] in H; try discriminate.
  destruct (forallb (no_throw pt now) kids) eqn:Hnt; [|discriminate].
  injection H as <-. eauto.
Qed.

Lemma sat_with_inv : forall pt now sl e cs a, compile_with pt now sl e = Ok cs -> sat cs a = true ->
  (forall e' d, In e' (subs e) -> In d (own_vars pt now e') -> dom_ok a d = true) /\
  (forall k, In k (reg_keys (e_regs_with pt now sl e)) -> row_holds a (cap_row pt (e_regs_with pt now sl e) k) = true).
Proof.
  intros pt now sl e cs a Hc Hs. destruct (compile_with_inv _ _ _ _ _ Hc) as [n [ks [-> [_ ->]]]].
  unfold sat in Hs; cbn [cs_rows cs_vars] in Hs. apply andb_prop in Hs. destruct Hs as [Hr Hv].
  rewrite forallb_app in Hr. apply andb_prop in Hr. destruct Hr as [_ Hk].
  rewrite forallb_forall in Hv, Hk. split.
  - intros e' d He' Hin. apply Hv. unfold e_vars. apply in_flat_map. eauto.
  - intros k Hin. apply Hk. unfold cap_rows. apply in_map. exact Hin.
Qed.

Lemma vars_alloc_nn : forall pt now a e,
  (forall e' d, In e' (subs e) -> In d (own_vars pt now e') -> dom_ok a d = true) -> alloc_nn pt now a e.
Proof.
  intros pt now a e Hv n ps am s d u q Hin Hp Hq.
  assert (Hd : dom_ok a (int_decl (VAlloc n q) 0 (Some (Z.min (qty0 pt q) am))) = true).
  { apply (Hv (Choose n ps am s d u)); [exact Hin|].
    cbn [own_vars]. destruct (parse pt now (Choose n ps am s d u)); [discriminate|].
    right. apply in_map_iff. exists q. split; [reflexivity|exact Hq]. }
  unfold dom_ok, int_decl in Hd; cbn [vd_ind vd_var vd_lb vd_ub] in Hd. lia.
Qed.

Lemma node_le_regs_with : forall pt now sl a key p tau e,
  (forall s d, In (s, d) (leaf_span e) -> s <= tau < s + d -> In (key tau) (sl s d)) ->
  (forall n ps am s d u q, e = Choose n ps am s d u -> is_pu (parse pt now e) = true -> In q (sched pt ps) ->
     0 <= a (VAlloc n q)) ->
  (forall n al s d q x, e = Alloc n al s d -> In (q, x) al -> 0 <= x) ->
  cu pt now a p tau e + leaf_alloc p tau e <= rsum a (p, key tau) (own_regs_with pt now sl e).
Proof.
  intros pt now sl a key p tau e Hal Hc Ha. destruct e; cbn [cu leaf_alloc own_regs_with]; try (rewrite rsum_nil; lia).
  - (* Choose *)
    destruct (parse pt now (Choose n parts amount start dur util)) eqn:Hp; cbn [is_pu andb]; [rewrite rsum_nil; lia|].
    rewrite Z.add_0_r.
    pose proof (leaf_regs_ge a p (key tau) (sl start dur)
                  (map (fun q => (q, AVar (VAlloc n q))) (sched pt parts))
                  ((start <=? tau) && (tau <? start + dur))) as L.
    rewrite flat_map_map, map_map in L. cbn [fst snd aval] in L. apply L.
    + intros Hact. apply (Hal start dur); [left; reflexivity|lia].
    + intros it Hit. apply in_map_iff in Hit. destruct Hit as [q [<- Hq]]. cbn [snd aval].
      apply (Hc n parts amount start dur util q eq_refl); [first [reflexivity|rewrite Hp; reflexivity]|exact Hq].
  - (* Alloc *)
    pose proof (leaf_regs_ge a p (key tau) (sl start dur)
                  (map (fun pa => (fst pa, AConst (snd pa))) allocs)
                  ((start <=? tau) && (tau <? start + dur))) as L.
    rewrite flat_map_map, map_map in L. cbn [fst snd aval] in L. apply L.
    + intros Hact. apply (Hal start dur); [left; reflexivity|lia].
    + intros it Hit. apply in_map_iff in Hit. destruct Hit as [[q x] [<- Hq]]. cbn [snd aval].
      exact (Ha n allocs start dur q x eq_refl Hq).
Qed.

Definition wf_amounts (pt : ptab) (e : expr) : Prop :=
  (forall p, 0 <= qty0 pt p) /\
  (forall n al s d q x, In (Alloc n al s d) (subs e) -> In (q, x) al -> 0 <= x).

Theorem capacity_with : forall pt now sl e cs a,
  compile_with pt now sl e = Ok cs -> sat cs a = true -> wf_amounts pt e -> covering sl e ->
  forall p tau, usage (populate pt now a e) p tau + alloc_usage e p tau <= qty0 pt p.
Proof.
  intros pt now sl e cs a Hc Hs [Hq Hal] [key Hkey] p tau.
  destruct (sat_with_inv _ _ _ _ _ _ Hc Hs) as [Hv Hcap].
  pose proof (vars_alloc_nn _ _ _ _ Hv) as Hnn.
  unfold populate.
  pose proof (usage_le_cu pt now a p tau e Hnn) as H1.
  set (k := (p, key tau)).
  assert (H2 : sumZ (map (cu pt now a p tau) (subs e)) + alloc_usage e p tau <= rsum a k (e_regs_with pt now sl e)).
  { unfold alloc_usage, e_regs_with. rewrite rsum_flat_map.
    assert (forall l, (forall x, In x l -> In x (subs e)) ->
              sumZ (map (cu pt now a p tau) l) + sumZ (map (leaf_alloc p tau) l)
              <= sumZ (map (fun x => rsum a k (own_regs_with pt now sl x)) l)) as Hl.
    { induction l as [|x l IH]; intros Hsub; [cbn; lia|]. cbn [map]. rewrite !sumZ_cons.
      assert (Hx : In x (subs e)) by (apply Hsub; left; reflexivity).
      assert (cu pt now a p tau x + leaf_alloc p tau x <= rsum a k (own_regs_with pt now sl x)).
      { apply (node_le_regs_with pt now sl a key p tau x).
        - intros s d Hin Hact. apply (Hkey s d); [|exact Hact]. unfold leaf_spans. apply in_flat_map. exists x. split; assumption.
        - intros n ps am s d u q -> Hp Hq'. exact (Hnn n ps am s d u q Hx Hp Hq').
        - intros n al s d q y -> Hin. exact (Hal n al s d q y Hx Hin). }
      assert (forall y, In y l -> In y (subs e)) by (intros; apply Hsub; right; assumption).
      specialize (IH H0). lia. }
    apply Hl. auto. }
  assert (H3 : rsum a k (e_regs_with pt now sl e) <= qty0 pt p).
  { destruct (in_dec key_dec k (reg_keys (e_regs_with pt now sl e))) as [Hin|Hnin].
    - pose proof (Hcap k Hin) as Hr. unfold cap_row in Hr. apply mkrow_LE in Hr. exact Hr.
    - rewrite rsum_no_key by assumption. apply Hq. }
  lia.
Qed.

(* ------------------------------------------------------------------ the decidable covering check *)
Lemma times_of_in : forall s d tau, s <= tau < s + d -> In tau (times_of s d).
Proof.
  intros s d tau H. unfold times_of. apply in_map_iff. exists (Z.to_nat (tau - s)). split; [lia|].
  apply in_seq. lia.
Qed.

Lemma coveringb_sound : forall sl key e, coveringb sl key e = true -> covering sl e.
Proof.
  intros sl key e H. exists key. intros s d Hin tau Hact. unfold coveringb in H. rewrite forallb_forall in H.
  specialize (H _ Hin). cbn [fst snd] in H. rewrite forallb_forall in H.
  specialize (H tau (times_of_in s d tau Hact)). apply memZ_in. exact H.
Qed.

(* range-based discretisation: every satisfying assignment of the model compiled with the given ranges
   keeps every partition within its quantity at every time, provided every leaf registers the grid key
   of every time at which it is active (checked by [coveringb], e.g. contiguous ranges from 0 whose
   lengths are multiples of their granularities) *)
Theorem capacity_dyn : forall pt now rs e cs a,
  compile_dyn pt now rs e = Ok cs -> sat cs a = true -> wf_amounts pt e ->
  coveringb (dyn_slots rs) (grid_key rs) e = true ->
  forall p tau, usage (populate pt now a e) p tau + alloc_usage e p tau <= qty0 pt p.
Proof.
  intros pt now rs e cs a Hc Hs Hwf Hcov. unfold compile_dyn in Hc.
  destruct (ranges_okb rs && forallb (range_ok rs) (flat_map (reg_span pt now) (subs e))); [|discriminate].
  eapply capacity_with; eauto. eapply coveringb_sound; eauto.
Qed.

(* non-vacuous: ranges [0,4):4, [4,8):4, one unit; X = Choose [2,6) starts strictly inside the first range
   and crosses its end, Y = Choose [4,6): X is registered at keys 0 and 4, Y at key 4 *)
Example capacity_dyn_nonvacuous :
  let pt : ptab := [(1, 1, true)] in
  let rs : ranges := [(0, 4, 4); (4, 8, 4)] in
  let e := Objective 3 [Choose 1 [1] 1 2 4 1; Choose 2 [1] 1 4 2 1] in
  exists cs a, compile_dyn pt 0 rs e = Ok cs /\ sat cs a = true /\ coveringb (dyn_slots rs) (grid_key rs) e = true /\
               dyn_slots rs 2 4 = [0; 4] /\ usage (populate pt 0 a e) 1 5 = 1 /\
               sat cs (fun _ => 1) = false.
Proof.
  cbv zeta. eexists. exists (asg_of [(VInd 1, 1); (VAlloc 1 1, 1)]).
  split; [vm_compute; reflexivity|]. repeat split; vm_compute; reflexivity.
Qed.

(* ------------------------------------------------------------------ finding F15: the happens-before row of a LessThan
   is unconditional; when it cannot hold even with nothing satisfied the WHOLE model has no solution,
   although other expressions (here Choose 5) could be placed *)
Definition f15_pt : ptab := [(1, 2, true)].
Definition f15_e : expr :=
  Objective 6 [LessThan 4 (Choose 1 [1] 1 0 5 1) (Max 3 [Choose 2 [1] 1 2 1 1]); Choose 5 [1] 1 0 1 1].

Lemma infeasible_model_refuted :
  exists pt now g e cs, compile pt now g e = Ok cs /\ forall a, sat cs a = false.
Proof.
  exists f15_pt, 0, 1, f15_e. eexists. split; [vm_compute; reflexivity|].
  intros a. match goal with |- sat ?c a = false => destruct (sat c a) eqn:Hs; [|reflexivity] end.
  exfalso.
  assert (Hc : compile f15_pt 0 1 f15_e = Ok
            {| cs_vars := e_vars f15_pt 0 f15_e;
               cs_rows := e_rows f15_pt 0 f15_e ++ cap_rows f15_pt (e_regs f15_pt 0 1 f15_e);
               cs_obj := pu_util (parse f15_pt 0 f15_e) |}) by reflexivity.
  assert (Hs' : sat {| cs_vars := e_vars f15_pt 0 f15_e;
               cs_rows := e_rows f15_pt 0 f15_e ++ cap_rows f15_pt (e_regs f15_pt 0 1 f15_e);
               cs_obj := pu_util (parse f15_pt 0 f15_e) |} a = true).
  { revert Hs. vm_compute. exact (fun h => h). }
  pose proof (sat_facts _ _ _ _ _ _ Hc Hs') as F.
  set (lt := LessThan 4 (Choose 1 [1] 1 0 5 1) (Max 3 [Choose 2 [1] 1 2 1 1])).
  set (mx := Max 3 [Choose 2 [1] 1 2 1 1]).
  assert (Hlt : In lt (subs f15_e)) by (right; left; reflexivity).
  assert (Hmx : In mx (subs f15_e)) by (right; right; right; left; reflexivity).
  (* happens-before: 5 <= start variable of the Max; declared upper bound of that variable: 2 *)
  assert (R : row_holds a (mkrow LE [(1, AConst 5); (-1, AVar (VStart 3))] 0) = true).
  { apply (f_rows _ _ _ _ _ F lt); [exact Hlt|]. right; left. reflexivity. }
  assert (D : dom_ok a (int_decl (VStart 3) (-2) (Some 2)) = true).
  { apply (f_vars _ _ _ _ _ F mx); [exact Hmx|]. left. reflexivity. }
  apply mkrow_LE in R. cbn [lin_val aval] in R.
  unfold dom_ok, int_decl in D; cbn [vd_ind vd_var vd_lb vd_ub] in D. lia.
Qed.
