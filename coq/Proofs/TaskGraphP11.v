(* Resolution of the conditionals at submission (model resolve_at_submission, jobs.py:839-861):
   what one conditional does, and the whole pass when the conditionals do not interfere. *)
From Coq Require Import ZArith Bool List Lia ZifyBool.
Import ListNotations.
From Verif Require Import Model.Val Gen.Src_Task Gen.Src_TaskGraph Model.TaskGraph
  Proofs.TaskGraphP Proofs.TaskGraphP8.
From Verif Require Model.Graph.
Open Scope Z_scope.

(* the jobs whose probability the zeroing loop of an untaken child u resets: u itself and the jobs that
   breadth_first(u) yields before the first terminal job *)
Fixpoint before_terminal (term : Z -> bool) (l : list Z) : list Z :=
  match l with [] => [] | n :: l' => if term n then [] else n :: before_terminal term l' end.
Definition zeroed (jg : Graph.graph) (term : Z -> bool) (u : Z) : list Z :=
  u :: before_terminal term (fst (Graph.breadth_first jg (Some u))).
Definition zeroed_by (jg : Graph.graph) (term : Z -> bool) (chosen : Z) (ks : list Z) : list Z :=
  flat_map (fun u => if u =? chosen then [] else zeroed jg term u) ks.
(* everything the resolution of conditional c may write *)
Definition touched (jg : Graph.graph) (term : Z -> bool) (c : Z) : list Z :=
  Graph.children_of jg c ++ flat_map (zeroed jg term) (Graph.children_of jg c).

Lemma zero_prefix_get : forall term l probs n,
  al_get n (zero_prefix term l probs) = if zmem n (before_terminal term l) then Some 0 else al_get n probs.
Proof.
  intros term l; induction l as [|m l IH]; intros probs n; cbn [zero_prefix before_terminal zmem]; [reflexivity|].
  destruct (term m); cbn [zmem]; [reflexivity|]. rewrite IH.
  destruct (zmem n (before_terminal term l)) eqn:M.
  - rewrite orb_true_r. reflexivity.
  - rewrite orb_false_r. destruct (m =? n) eqn:E.
    + assert (m = n) by lia. subst. apply al_get_put_same.
    + apply al_get_put_other. lia.
Qed.

Lemma resolve_children_spec : forall jg term chosen ks den probs probs',
  resolve_children jg term chosen ks den probs = Ok probs' ->
  (forall n, ~ In n ks -> ~ In n (zeroed_by jg term chosen ks) -> al_get n probs' = al_get n probs) /\
  (forall n, In n (zeroed_by jg term chosen ks) -> n <> chosen -> al_get n probs' = Some 0) /\
  (In chosen ks -> ~ In chosen (zeroed_by jg term chosen ks) -> al_get chosen probs' = Some den).
Proof.
  intros jg term chosen ks; induction ks as [|c ks IH]; intros den probs probs' H; cbn [resolve_children] in H.
  - inversion H; subst. repeat split; auto; intros; contradiction.
  - unfold zeroed_by. cbn [flat_map]. fold (zeroed_by jg term chosen ks).
    destruct (c =? chosen) eqn:E.
    + assert (c = chosen) by lia. subst c. cbn [app].
      destruct (IH _ _ _ H) as (A & B & C). repeat split.
      * intros n Hn Hz. rewrite A; [|intro X; apply Hn; right; exact X | exact Hz].
        apply al_get_put_other. intro X. apply Hn. left. auto.
      * exact B.
      * intros _ Hz. destruct (zmem chosen ks) eqn:M.
        -- apply C; [apply zmem_In; exact M | exact Hz].
        -- apply zmem_not_In in M. rewrite A; [apply al_get_put_same | exact M | exact Hz].
    + destruct (Graph.breadth_first jg (Some c)) as [l st] eqn:Eb. destruct (st =? 0) eqn:Es; [|discriminate].
      destruct (IH _ _ _ H) as (A & B & C).
      assert (Ez : zeroed jg term c = c :: before_terminal term l) by (unfold zeroed; rewrite Eb; reflexivity).
      rewrite Ez.
      assert (G : forall n, al_get n (zero_prefix term l (al_put c 0 probs)) =
                            if zmem n (c :: before_terminal term l) then Some 0 else al_get n probs).
      { intro n. rewrite zero_prefix_get. cbn [zmem].
        destruct (zmem n (before_terminal term l)); [rewrite orb_true_r; reflexivity|]. rewrite orb_false_r.
        destruct (c =? n) eqn:Ecn; [assert (c = n) by lia; subst; apply al_get_put_same | apply al_get_put_other; lia]. }
      repeat split.
      * intros n Hn Hz. rewrite A.
        -- rewrite G. destruct (zmem n (c :: before_terminal term l)) eqn:M; [|reflexivity].
           exfalso. apply Hz. apply in_or_app. left. apply zmem_In. exact M.
        -- intro X. apply Hn. right. exact X.
        -- intro X. apply Hz. apply in_or_app. right. exact X.
      * intros n Hn Hne. apply in_app_or in Hn.
        destruct (zmem n (zeroed_by jg term chosen ks)) eqn:Mz; [apply B; [apply zmem_In; exact Mz | exact Hne]|].
        apply zmem_not_In in Mz. destruct Hn as [Hn|Hn]; [|contradiction].
        destruct (zmem n ks) eqn:Mk.
        -- (* n is a later sibling: it is either the chosen one (excluded) or zeroed at its own turn *)
           apply zmem_In in Mk. exfalso. apply Mz. unfold zeroed_by. apply in_flat_map. exists n. split; [exact Mk|].
           assert (n =? chosen = false) as -> by lia. left. reflexivity.
        -- apply zmem_not_In in Mk. rewrite A; [|exact Mk | exact Mz]. rewrite G.
           assert (zmem n (c :: before_terminal term l) = true) as -> by (apply zmem_In; exact Hn). reflexivity.
      * intros Hin Hz. destruct Hin as [Hin|Hin]; [lia|]. apply C; [exact Hin|].
        intro X. apply Hz. apply in_or_app. right. exact X.
Qed.

Lemma zeroed_by_touched : forall jg term k c n,
  In n (zeroed_by jg term k (Graph.children_of jg c)) -> In n (touched jg term c).
Proof.
  intros jg term k c n H. unfold touched. apply in_or_app. right. unfold zeroed_by in H.
  apply in_flat_map in H. destruct H as (u & Hu & Hn). apply in_flat_map. exists u. split; [exact Hu|].
  destruct (u =? k); [contradiction | exact Hn].
Qed.
Lemma child_touched : forall jg term c n, In n (Graph.children_of jg c) -> In n (touched jg term c).
Proof. intros. unfold touched. apply in_or_app. left. assumption. Qed.

(* conditionals whose writes do not overlap *)
Definition independent (jg : Graph.graph) (term cond : Z -> bool) (ns : list Z) : Prop :=
  forall c1 c2, In c1 ns -> In c2 ns -> cond c1 = true -> cond c2 = true -> c1 <> c2 ->
  forall n, In n (touched jg term c1) -> ~ In n (touched jg term c2).

Theorem resolve_loop_spec : forall jg term cond ns counter den probs final,
  resolve_loop jg term cond ns counter den probs = Ok final -> NoDup ns -> independent jg term cond ns ->
  (forall c, In c ns -> cond c = true ->
     exists k, In k (Graph.children_of jg c) /\
       (forall n, In n (zeroed_by jg term k (Graph.children_of jg c)) -> n <> k -> al_get n final = Some 0) /\
       (~ In k (zeroed_by jg term k (Graph.children_of jg c)) -> al_get k final = Some den)) /\
  (forall n, (forall c, In c ns -> cond c = true -> ~ In n (touched jg term c)) -> al_get n final = al_get n probs).
Proof.
  intros jg term cond ns; induction ns as [|c ns IH]; intros counter den probs final H ND Hind; cbn [resolve_loop] in H.
  - inversion H; subst. split; [intros c []|reflexivity].
  - apply NoDup_cons_iff in ND. destruct ND as [Hc ND].
    assert (Hind' : independent jg term cond ns).
    { intros c1 c2 H1 H2. apply Hind; right; assumption. }
    destruct (cond c) eqn:Ec.
    + destruct (Z.of_nat (length (Graph.children_of jg c)) =? 0); [discriminate|].
      set (idx := if Z.of_nat (length (Graph.children_of jg c)) <=? counter
                  then counter mod Z.of_nat (length (Graph.children_of jg c)) else counter) in *.
      destruct (nth_z (Graph.children_of jg c) idx) as [chosen|] eqn:En; [|discriminate].
      destruct (resolve_children jg term chosen (Graph.children_of jg c) den probs) as [p1|e] eqn:Er; cbn [bind] in H; [|discriminate].
      destruct (IH _ _ _ _ H ND Hind') as (P & U).
      destruct (resolve_children_spec _ _ _ _ _ _ _ Er) as (A & B & C).
      assert (Hk : In chosen (Graph.children_of jg c)).
      { unfold nth_z in En. destruct (idx <? 0); [discriminate|]. eapply nth_error_In; eauto. }
      assert (Hkeep : forall n, In n (touched jg term c) -> al_get n final = al_get n p1).
      { intros n Hn. apply U. intros c' Hc' Ecc'. apply (Hind c c'); auto; [left; reflexivity | right; exact Hc' | congruence]. }
      split.
      * intros c0 [<-|Hc0] E0.
        -- exists chosen. split; [exact Hk|]. split.
           ++ intros n Hn Hne. rewrite Hkeep; [apply B; assumption | eapply zeroed_by_touched; eauto].
           ++ intros Hz. rewrite Hkeep; [apply C; assumption | apply child_touched; exact Hk].
        -- apply P; assumption.
      * intros n Hn. rewrite U; [|intros c' Hc' E'; apply Hn; [right; exact Hc' | exact E']].
        apply A.
        -- intro X. apply (Hn c (or_introl eq_refl) Ec). apply child_touched. exact X.
        -- intro X. apply (Hn c (or_introl eq_refl) Ec). eapply zeroed_by_touched; eauto.
    + destruct (IH _ _ _ _ H ND Hind') as (P & U). split.
      * intros c0 [<-|Hc0] E0; [congruence | apply P; assumption].
      * intros n Hn. apply U. intros c' Hc' E'. apply Hn; [right; exact Hc' | exact E'].
Qed.

(* C07_resolved_at_submission *)
Theorem resolve_at_submission_spec : forall adj terms conds den probs final,
  resolve_at_submission adj terms conds den probs = Ok final ->
  exists jg, Graph.of_mapping adj = Ok jg /\
  (NoDup (Graph.nodes jg) -> independent jg (fun n => zmem n terms) (fun n => zmem n conds) (Graph.nodes jg) ->
   (forall c, In c (Graph.nodes jg) -> In c conds ->
      exists k, In k (Graph.children_of jg c) /\
        (forall n, In n (zeroed_by jg (fun n => zmem n terms) k (Graph.children_of jg c)) -> n <> k -> al_get n final = Some 0) /\
        (~ In k (zeroed_by jg (fun n => zmem n terms) k (Graph.children_of jg c)) -> al_get k final = Some den)) /\
   (forall n, (forall c, In c (Graph.nodes jg) -> In c conds -> ~ In n (touched jg (fun n => zmem n terms) c)) ->
              al_get n final = al_get n probs)).
Proof.
  intros adj terms conds den probs final H. unfold resolve_at_submission in H.
  destruct (Graph.of_mapping adj) as [jg|e] eqn:E; cbn [bind] in H; [|discriminate].
  exists jg. split; [reflexivity|]. intros ND Hind.
  destruct (resolve_loop_spec _ _ _ _ _ _ _ _ H ND Hind) as (P & U). split.
  - intros c Hc Hcc. apply P; [exact Hc | apply zmem_In; exact Hcc].
  - intros n Hn. apply U. intros c Hc Ec. apply Hn; [exact Hc | apply zmem_In; exact Ec].
Qed.

(* decidable form of `independent`, for concrete graphs *)
Definition independentb (jg : Graph.graph) (term cond : Z -> bool) (ns : list Z) : bool :=
  forallb (fun c1 => forallb (fun c2 =>
    negb (cond c1) || negb (cond c2) || (c1 =? c2) ||
    forallb (fun n => negb (zmem n (touched jg term c2))) (touched jg term c1)) ns) ns.
Lemma independentb_sound : forall jg term cond ns, independentb jg term cond ns = true -> independent jg term cond ns.
Proof.
  intros jg term cond ns H c1 c2 H1 H2 E1 E2 Hne n Hn Hn2.
  unfold independentb in H. rewrite forallb_forall in H. specialize (H c1 H1).
  rewrite forallb_forall in H. specialize (H c2 H2). rewrite E1, E2 in H. cbn [negb orb] in H.
  assert (c1 =? c2 = false) as X by lia. rewrite X in H. cbn [orb] in H.
  rewrite forallb_forall in H. specialize (H n Hn). apply negb_true_iff in H. apply zmem_not_In in H. contradiction.
Qed.
