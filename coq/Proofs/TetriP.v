(* TetriP — basic lemmas about the TetriSched model: bridge to the translated source fragment,
   structure of the cells, what a satisfying assignment gives row family by row family,
   and the deadline theorems (C12 part). *)
From Coq Require Import ZArith Bool List Lia ZifyBool.
Import ListNotations.
From Verif Require Import Model.Val Model.PlanSpec Model.TetriModel Gen.Src_Tetri.
Open Scope Z_scope.

(* ------------------------------------------------------------------ bridge to the source *)
Lemma bridge_occupies_g : forall s r t, g_occupies s r t = occupies s r t.
Proof. intros; unfold g_occupies, occupies; reflexivity. Qed.
Lemma bridge_occupies_c : forall s r t, c_occupies s r t = occupies s r t.
Proof. intros; unfold c_occupies, occupies; reflexivity. Qed.
Lemma bridge_release_g : forall t rel, g_before_release t rel = (t <? rel).
Proof. reflexivity. Qed.
Lemma bridge_release_c : forall t rel, c_before_release t rel = (t <? rel).
Proof. reflexivity. Qed.
Lemma bridge_deadline_g : forall e t r d, g_past_deadline e t r d = e && past_deadline t r d.
Proof. intros; unfold g_past_deadline, past_deadline; reflexivity. Qed.
Lemma bridge_deadline_c : forall e t r d, c_past_deadline e t r d = e && past_deadline t r d.
Proof. intros; unfold c_past_deadline, past_deadline; reflexivity. Qed.
Lemma bridge_hopeless : forall d n f, c_hopeless d n f = hopeless d n f.
Proof. intros; unfold c_hopeless, hopeless; reflexivity. Qed.
Lemma bridge_dep_gap : forall ps slow, g_dep_bound ps slow = ps + slow + 1.
Proof. reflexivity. Qed.
Lemma bridge_dep_gap_running : forall rem, g_dep_gap_running rem = rem + 1.
Proof. reflexivity. Qed.

(* the model's cell status, restated with the translated tests *)
Lemma cell_kind_src : forall I x w t s,
  cell_kind I x w t s =
  if negb (fits (tw_total w) s) then CConst 0
  else if g_before_release t (tt_release x) then CConst 0
  else if g_past_deadline (ti_enforce I) t (st_runtime s) (tt_deadline x) then CConst 0 else CVar.
Proof. intros; unfold cell_kind, g_before_release, g_past_deadline, past_deadline; reflexivity. Qed.

(* occupancy window and deadline test, as arithmetic *)
Lemma occupies_iff : forall s r t, occupies s r t = true <-> s <= t < s + r.
Proof. intros; unfold occupies; lia. Qed.
Lemma past_deadline_iff : forall t r d, past_deadline t r d = true <-> d < t + r.
Proof. intros; unfold past_deadline; lia. Qed.
Lemma hopeless_iff : forall d n f, hopeless d n f = true <-> d < n + f.
Proof. intros; unfold hopeless; lia. Qed.

(* ------------------------------------------------------------------ lists *)
Lemma indexed_In : forall A (l : list A) i k a, In (k, a) (indexed i l) -> (i <= k)%nat /\ nth_error l (k - i) = Some a.
Proof.
  induction l as [|b l IH]; intros i k a H; cbn in H; [contradiction|].
  destruct H as [H|H].
  - inversion H; subst. split; [lia|]. replace (k - k)%nat with 0%nat by lia. reflexivity.
  - apply IH in H. destruct H as [H1 H2]. split; [lia|].
    replace (k - i)%nat with (S (k - S i)) by lia. exact H2.
Qed.
Lemma indexed_In0 : forall A (l : list A) k a, In (k, a) (indexed 0 l) -> nth_error l k = Some a.
Proof. intros A l k a H. apply indexed_In in H. destruct H as [_ H]. now rewrite Nat.sub_0_r in H. Qed.
Lemma In_indexed : forall A (l : list A) i k a, nth_error l k = Some a -> In ((i + k)%nat, a) (indexed i l).
Proof.
  induction l as [|b l IH]; intros i k a H; destruct k; cbn in H; try discriminate.
  - inversion H; subst. cbn. left. f_equal. lia.
  - cbn. right. replace (i + S k)%nat with (S i + k)%nat by lia. now apply IH.
Qed.
Lemma indexed_NoDup_fst : forall A (l : list A) i, NoDup (map fst (indexed i l)).
Proof.
  induction l as [|b l IH]; intros i; cbn; constructor; auto.
  intros H. apply in_map_iff in H. destruct H as [[k a] [E H]]. cbn in E. subst k.
  apply indexed_In in H. lia.
Qed.

(* ------------------------------------------------------------------ slots *)
Definition wf_time (I : tinst) : Prop := 0 < ti_disc I /\ 0 <= horizon I.

Lemma slot_ge_now : forall I k, 0 < ti_disc I -> ti_now I <= slot I k.
Proof. intros; unfold slot; nia. Qed.
Lemma In_slots : forall I t, In t (slots I) <-> exists k, (k < nslots I)%nat /\ t = slot I k.
Proof.
  intros; unfold slots. rewrite in_map_iff. split.
  - intros [k [E H]]. apply in_seq in H. exists k. split; [lia|auto].
  - intros [k [H E]]. exists k. split; [auto|]. apply in_seq. lia.
Qed.
Lemma slots_ge_now : forall I t, 0 < ti_disc I -> In t (slots I) -> ti_now I <= t.
Proof. intros I t Hd H. apply In_slots in H. destruct H as [k [_ ->]]. now apply slot_ge_now. Qed.
Lemma on_grid_iff : forall I t, on_grid I t = true <-> In t (slots I).
Proof.
  intros; unfold on_grid. rewrite existsb_exists. split.
  - intros [y [H E]]. apply Z.eqb_eq in E. now subst.
  - intros H. exists t. split; [auto|apply Z.eqb_refl].
Qed.

(* ------------------------------------------------------------------ cells *)
Lemma In_cells : forall I x w t i s,
  In (w, t, (i, s)) (cells I x) <-> In w (ti_workers I) /\ In t (slots I) /\ In (i, s) (indexed 0 (tt_strats x)).
Proof.
  intros; unfold cells. rewrite in_flat_map. split.
  - intros [w' [Hw H]]. apply in_flat_map in H. destruct H as [t' [Ht H]].
    apply in_map_iff in H. destruct H as [[i' s'] [E H]]. inversion E; subst. auto.
  - intros [Hw [Ht Hs]]. exists w. split; auto. apply in_flat_map. exists t. split; auto.
    apply in_map_iff. exists (i, s). auto.
Qed.
Lemma In_var_cells : forall I x w t i s,
  In (w, t, (i, s)) (var_cells I x) <-> In (w, t, (i, s)) (cells I x) /\ cell_kind I x w t s = CVar.
Proof.
  intros; unfold var_cells. rewrite filter_In. split; intros [H1 H2]; split; auto.
  - cbn in H2. destruct (cell_kind I x w t s); [reflexivity|discriminate].
  - cbn. now rewrite H2.
Qed.
Lemma cell_kind_var : forall I x w t s, cell_kind I x w t s = CVar ->
  fits (tw_total w) s = true /\ tt_release x <= t /\ (ti_enforce I = true -> t + st_runtime s <= tt_deadline x).
Proof.
  intros I x w t s H. unfold cell_kind, past_deadline in H.
  destruct (fits (tw_total w) s) eqn:Hf; cbn in H; [|discriminate].
  destruct (t <? tt_release x) eqn:Hr; [discriminate|].
  destruct (ti_enforce I) eqn:He; cbn in H.
  - destruct (tt_deadline x <? t + st_runtime s) eqn:Hd; [discriminate|]. repeat split; lia.
  - repeat split; try lia; discriminate.
Qed.
Lemma cell_kind_var_intro : forall I x w t s,
  fits (tw_total w) s = true -> tt_release x <= t -> (ti_enforce I = true -> t + st_runtime s <= tt_deadline x) ->
  cell_kind I x w t s = CVar.
Proof.
  intros I x w t s Hf Hr Hd. unfold cell_kind, past_deadline. rewrite Hf. cbn.
  destruct (t <? tt_release x) eqn:E; [lia|].
  destruct (ti_enforce I); cbn; [|reflexivity].
  specialize (Hd eq_refl). destruct (tt_deadline x <? t + st_runtime s) eqn:E2; [lia|reflexivity].
Qed.

(* ------------------------------------------------------------------ read-back *)
Lemma readback_task_Some : forall I a x p, readback_task I a x = Some p ->
  exists w t i s, In (w, t, (i, s)) (var_cells I x) /\ a (VCell (tt_id x) (tw_idx w) t i) = 1 /\
                  p = mkPl (tt_id x) (tw_idx w) i t.
Proof.
  intros I a x p H. unfold readback_task in H.
  destruct (find _ (var_cells I x)) as [[[w t] [i s]]|] eqn:F; [|discriminate].
  apply find_some in F. destruct F as [Hin Hv]. cbn in Hv. apply Z.eqb_eq in Hv.
  inversion H; subst. exists w, t, i, s. auto.
Qed.
Lemma readback_task_None : forall I a x, readback_task I a x = None ->
  forall c, In c (var_cells I x) -> a (cell_var x c) <> 1.
Proof.
  intros I a x H c Hc. unfold readback_task in H.
  destruct (find _ (var_cells I x)) as [[[w t] [i s]]|] eqn:F; [discriminate|].
  pose proof (find_none _ _ F c Hc) as N. cbn in N. apply Z.eqb_neq in N. exact N.
Qed.

(* ------------------------------------------------------------------ C12: deadlines *)
(* every placement read back from ANY assignment meets its deadline when enforcement is on:
   the cells past the deadline are not variables at all *)
Lemma readback_meets_deadline : forall I a x p,
  ti_enforce I = true -> readback_task I a x = Some p ->
  exists s, nth_error (tt_strats x) (pl_strat p) = Some s /\ pl_start p + st_runtime s <= tt_deadline x.
Proof.
  intros I a x p He H. apply readback_task_Some in H.
  destruct H as [w [t [i [s [Hin [_ ->]]]]]]. cbn.
  apply In_var_cells in Hin. destruct Hin as [Hc Hk].
  apply In_cells in Hc. destruct Hc as [_ [_ Hs]]. apply indexed_In0 in Hs.
  apply cell_kind_var in Hk. destruct Hk as [_ [_ Hd]]. exists s. auto.
Qed.

Lemma fastest_le : forall ss s, In s ss -> fastest_runtime ss <= st_runtime s.
Proof.
  intros ss s H. destruct ss as [|s0 ss]; [contradiction|]. cbn [fastest_runtime].
  assert (G : forall l m, fold_right (fun s m => Z.min (st_runtime s) m) m l <= m /\
                          forall y, In y l -> fold_right (fun s m => Z.min (st_runtime s) m) m l <= st_runtime y).
  { induction l as [|b l IH]; intros m; cbn; split; try lia; try contradiction.
    - destruct (IH m) as [A _]. lia.
    - intros y [->|Hy]; [lia|]. destruct (IH m) as [_ B]. specialize (B y Hy). lia. }
  destruct H as [->|H].
  - destruct (G ss (st_runtime s)) as [A _]. exact A.
  - destruct (G ss (st_runtime s0)) as [_ B]. apply B. exact H.
Qed.

(* a task that cannot finish by its deadline even with its fastest strategy starting now has no
   variable cell, hence no assignment whatsoever places it *)
Lemma hopeless_unplaced : forall I a x,
  ti_enforce I = true -> 0 < ti_disc I ->
  hopeless (tt_deadline x) (ti_now I) (fastest_runtime (tt_strats x)) = true ->
  readback_task I a x = None.
Proof.
  intros I a x He Hd Hh. destruct (readback_task I a x) as [p|] eqn:R; [|reflexivity].
  exfalso. apply readback_task_Some in R. destruct R as [w [t [i [s [Hin _]]]]].
  apply In_var_cells in Hin. destruct Hin as [Hc Hk]. apply In_cells in Hc. destruct Hc as [_ [Ht Hs]].
  apply indexed_In0 in Hs. apply nth_error_In in Hs. apply fastest_le in Hs.
  apply cell_kind_var in Hk. destruct Hk as [_ [_ Hk]]. specialize (Hk He).
  apply slots_ge_now in Ht; auto. apply hopeless_iff in Hh. lia.
Qed.

(* CPLEX admission control cancels exactly the hopeless offered tasks (when enforcement is on) *)
Lemma admission_exact : forall I offered id,
  In id (admission_cancels I offered) <->
  ti_enforce I = true /\ exists x, In x offered /\ tt_id x = id /\
     tt_deadline x < ti_now I + fastest_runtime (tt_strats x).
Proof.
  intros I offered id. unfold admission_cancels. destruct (ti_enforce I).
  - rewrite in_map_iff. split.
    + intros [x [E H]]. apply filter_In in H. destruct H as [H1 H2]. apply hopeless_iff in H2.
      split; auto. exists x. auto.
    + intros [_ [x [H1 [H2 H3]]]]. exists x. split; auto. apply filter_In. split; auto. now apply hopeless_iff.
  - split; [contradiction|]. intros [H _]. discriminate.
Qed.
Lemma admission_src : forall I offered,
  admission_cancels I offered =
  if ti_enforce I
  then map tt_id (filter (fun x => c_hopeless (tt_deadline x) (ti_now I) (fastest_runtime (tt_strats x))) offered)
  else [].
Proof. reflexivity. Qed.

Lemma hopeless_unplaced' : forall I a x,
  ti_enforce I = true -> 0 < ti_disc I ->
  tt_deadline x < ti_now I + fastest_runtime (tt_strats x) ->
  readback_task I a x = None.
Proof. intros I a x He Hd H. apply hopeless_unplaced; auto. now apply hopeless_iff. Qed.

Lemma tetri_bridge_c12 :
  (forall I x w t s, cell_kind I x w t s =
     if negb (fits (tw_total w) s) then CConst 0
     else if g_before_release t (tt_release x) then CConst 0
     else if g_past_deadline (ti_enforce I) t (st_runtime s) (tt_deadline x) then CConst 0 else CVar) /\
  (forall e t r d, c_past_deadline e t r d = g_past_deadline e t r d) /\
  (forall t rel, c_before_release t rel = g_before_release t rel) /\
  (forall e t r d, g_past_deadline e t r d = true <-> e = true /\ d < t + r) /\
  (forall d n f, c_hopeless d n f = true <-> d < n + f) /\
  (forall I offered, admission_cancels I offered =
     if ti_enforce I
     then map tt_id (filter (fun x => c_hopeless (tt_deadline x) (ti_now I) (fastest_runtime (tt_strats x))) offered)
     else []).
Proof.
  repeat split; intros; try apply cell_kind_src; try reflexivity;
    unfold g_past_deadline, c_hopeless in *; lia.
Qed.
