(* C17, basic facts: dict lookups, well-formed graphs (what the constructor builds),
   edges, reachability. *)
From Coq Require Import ZArith Bool List Lia ZifyBool Permutation.
Import ListNotations.
From Verif Require Import Model.Val Model.Graph.
Open Scope Z_scope.

Lemma mem_In : forall x l, mem x l = true <-> In x l.
Proof.
  induction l as [|y l IH]; cbn [mem In].
  - split; [discriminate | tauto].
  - destruct (Z.eqb_spec x y) as [E|E].
    + split; auto.
    + rewrite IH. split; [auto | intros [H|H]; [congruence | auto]].
Qed.
Lemma mem_false : forall x l, mem x l = false <-> ~ In x l.
Proof. intros x l. rewrite <- mem_In. destruct (mem x l); split; congruence. Qed.
Lemma mem_app : forall x a b, mem x (a ++ b) = mem x a || mem x b.
Proof.
  intros x a b. destruct (mem x (a ++ b)) eqn:E.
  - apply mem_In in E. apply in_app_or in E. symmetry. apply orb_true_iff.
    destruct E as [E|E]; [left|right]; apply mem_In; exact E.
  - symmetry. apply orb_false_iff. rewrite !mem_false. rewrite mem_false in E.
    split; intro H; apply E; apply in_or_app; auto.
Qed.

Section Lookup.
Context {A : Type}.
Lemma lookup_some_in : forall k (a : list (node * A)) v, lookup k a = Some v -> In k (map fst a).
Proof.
  induction a as [|[k' v'] a IH]; cbn [lookup map fst In]; intros v H; [discriminate|].
  destruct (Z.eqb_spec k k'); [left; congruence | right; eauto].
Qed.
Lemma lookup_none : forall k (a : list (node * A)), lookup k a = None <-> ~ In k (map fst a).
Proof.
  induction a as [|[k' v'] a IH]; cbn [lookup map fst In]; [tauto|].
  destruct (Z.eqb_spec k k') as [E|E].
  - split; [discriminate | intro H; exfalso; apply H; left; congruence].
  - rewrite IH. split; [intros H [H1|H1]; [congruence|auto] | tauto].
Qed.
Lemma lookup_in_some : forall k (a : list (node * A)), In k (map fst a) -> exists v, lookup k a = Some v.
Proof.
  intros k a H. destruct (lookup k a) eqn:E; [eauto|]. apply lookup_none in E. contradiction.
Qed.
Lemma lookup_set_key : forall k (v : A) x a,
  lookup x (set_key k v a) = if x =? k then Some v else lookup x a.
Proof.
  induction a as [|[k' v'] a IH]; cbn [set_key lookup].
  - reflexivity.
  - destruct (Z.eqb_spec k k') as [E|E]; cbn [lookup].
    + subst k'. destruct (Z.eqb_spec x k); reflexivity.
    + rewrite IH. destruct (Z.eqb_spec x k'), (Z.eqb_spec x k); try reflexivity. congruence.
Qed.
Lemma keys_set_key_in : forall k (v : A) a, In k (map fst a) -> map fst (set_key k v a) = map fst a.
Proof.
  induction a as [|[k' v'] a IH]; cbn [set_key map fst In]; [tauto|].
  intros H. destruct (Z.eqb_spec k k') as [E|E]; cbn [map fst]; [reflexivity|].
  f_equal. apply IH. destruct H; [congruence|assumption].
Qed.
End Lookup.

Lemma lookup_extend_key : forall k vs x a,
  lookup x (extend_key k vs a) =
  if x =? k then Some (match lookup k a with Some l => l | None => [] end ++ vs) else lookup x a.
Proof.
  induction a as [|[k' v'] a IH]; cbn [extend_key lookup].
  - reflexivity.
  - destruct (Z.eqb_spec k k') as [E|E]; cbn [lookup].
    + subst k'. destruct (Z.eqb_spec x k); reflexivity.
    + rewrite IH. destruct (Z.eqb_spec x k'), (Z.eqb_spec x k); try reflexivity. congruence.
Qed.
Lemma keys_extend_key : forall k vs a,
  map fst (extend_key k vs a) = if mem k (map fst a) then map fst a else map fst a ++ [k].
Proof.
  induction a as [|[k' v'] a IH]; cbn [extend_key map fst mem app]; [reflexivity|].
  destruct (Z.eqb_spec k k') as [E|E]; cbn [map fst]; [reflexivity|].
  rewrite IH. destruct (mem k (map fst a)); reflexivity.
Qed.
Lemma keys_extend_key_in : forall k vs a x, In x (map fst (extend_key k vs a)) <-> In x (map fst a) \/ x = k.
Proof.
  intros. rewrite keys_extend_key. destruct (mem k (map fst a)) eqn:E.
  - apply mem_In in E. split; [auto | intros [H|H]; [auto | subst; auto]].
  - rewrite in_app_iff. cbn [In]. intuition.
Qed.

Lemma NoDup_snoc : forall (l : list node) x, NoDup l -> ~ In x l -> NoDup (l ++ [x]).
Proof.
  induction l as [|y l IH]; cbn [app]; intros x Hn Hx.
  - constructor; [intros []|constructor].
  - inversion Hn as [|? ? Hy Hl]; subst. constructor.
    + rewrite in_app_iff. cbn [In]. intros [H|[H|[]]]; [auto | subst; apply Hx; left; reflexivity].
    + apply IH; [assumption | intro H; apply Hx; right; exact H].
Qed.
Lemma keys_extend_key_nodup : forall k vs a, NoDup (map fst a) -> NoDup (map fst (extend_key k vs a)).
Proof.
  intros k vs a H. rewrite keys_extend_key. destruct (mem k (map fst a)) eqn:E; [assumption|].
  apply mem_false in E. apply NoDup_snoc; assumption.
Qed.

(* ------------------------------------------------------------------ graphs *)
Definition edge (g : graph) (u v : node) : Prop := In v (children_of g u).
Inductive reach (g : graph) : node -> node -> Prop :=
| reach_refl : forall x, reach g x x
| reach_step : forall x y z, edge g x y -> reach g y z -> reach g x z.
(* at least one edge *)
Definition reachp (g : graph) (x z : node) : Prop := exists y, edge g x y /\ reach g y z.
Definition cyclic (g : graph) : Prop := exists x, reachp g x x.
Definition acyclic (g : graph) : Prop := forall x, ~ reachp g x x.

Record wf (g : graph) : Prop := mkWf {
  wf_nodup : NoDup (nodes g);
  wf_closed : forall u v, edge g u v -> In u (nodes g) /\ In v (nodes g);
  wf_par : forall u v, In u (parents_of g v) <-> edge g u v
}.
(* no parallel edges (the constructor accepts them; breadth_first needs their absence) *)
Definition simple (g : graph) : Prop := forall n, NoDup (children_of g n).

Lemma has_node_In : forall g n, has_node g n = true <-> In n (nodes g).
Proof.
  intros g n. unfold has_node, nodes. destruct (lookup n (g_children g)) eqn:E.
  - split; [intros _; eapply lookup_some_in; eassumption | reflexivity].
  - split; [discriminate | intro H; apply lookup_none in E; contradiction].
Qed.
Lemma get_children_ok : forall g n, In n (nodes g) -> get_children g n = Ok (children_of g n).
Proof.
  intros g n H. unfold get_children, children_of. apply lookup_in_some in H. destruct H as [v ->]. reflexivity.
Qed.
Lemma get_parents_ok : forall g n, In n (nodes g) -> get_parents g n = Ok (parents_of g n).
Proof. intros g n H. unfold get_parents. apply has_node_In in H. rewrite H. reflexivity. Qed.

Lemma reach_trans : forall g x y z, reach g x y -> reach g y z -> reach g x z.
Proof. intros g x y z H. induction H; [auto | intros; eapply reach_step; eauto]. Qed.
Lemma reach_snoc : forall g x y z, reach g x y -> edge g y z -> reach g x z.
Proof. intros. eapply reach_trans; [eassumption | eapply reach_step; [eassumption | apply reach_refl]]. Qed.
Lemma reachp_reach : forall g x y, reachp g x y -> reach g x y.
Proof. intros g x y [m [E R]]. eapply reach_step; eauto. Qed.
Lemma reach_cases : forall g x y, reach g x y -> x = y \/ reachp g x y.
Proof. intros g x y H. destruct H; [left; reflexivity | right; exists y; auto]. Qed.
Lemma reachp_snoc : forall g x y z, reach g x y -> edge g y z -> reachp g x z.
Proof.
  intros g x y z H E. destruct H.
  - exists z. split; [assumption | apply reach_refl].
  - exists y. split; [assumption | eapply reach_snoc; eassumption].
Qed.
Lemma reachp_trans_l : forall g x y z, reachp g x y -> reach g y z -> reachp g x z.
Proof. intros g x y z [m [E R]] H. exists m. split; [assumption | eapply reach_trans; eassumption]. Qed.
Lemma reachp_trans_r : forall g x y z, reach g x y -> reachp g y z -> reachp g x z.
Proof.
  intros g x y z H [m [E R]]. destruct (reachp_snoc g x y m H E) as [m' [E' R']].
  exists m'. split; [assumption | eapply reach_trans; eassumption].
Qed.
Lemma reach_in_nodes : forall g x y, wf g -> reach g x y -> In x (nodes g) -> In y (nodes g).
Proof.
  intros g x y W H. induction H; [auto|]. intros _. apply IHreach. eapply wf_closed; eassumption.
Qed.
Lemma acyclic_not_cyclic : forall g, acyclic g <-> ~ cyclic g.
Proof. intros g. unfold acyclic, cyclic. split; [intros H [x Hx]; eapply H; eauto | intros H x Hx; apply H; eauto]. Qed.

(* ------------------------------------------------------------------ the constructor builds
   well-formed graphs *)
Lemma children_add_child : forall g n c g' x, add_child g n c = Ok g' ->
  children_of g' x = if x =? n then children_of g n ++ [c] else children_of g x.
Proof.
  intros g n c g' x H. unfold add_child in H. destruct (has_node g n) eqn:Hn; [|discriminate].
  injection H as <-. unfold children_of. cbn [g_children]. rewrite !lookup_extend_key.
  destruct (Z.eqb_spec x c) as [Ec|Ec].
  - subst x. destruct (Z.eqb_spec c n) as [En|En].
    + rewrite app_nil_r. reflexivity.
    + rewrite app_nil_r. destruct (lookup c (g_children g)); reflexivity.
  - destruct (Z.eqb_spec x n); reflexivity.
Qed.
Lemma parents_add_child : forall g n c g' x, add_child g n c = Ok g' ->
  parents_of g' x = if x =? c then parents_of g c ++ [n] else parents_of g x.
Proof.
  intros g n c g' x H. unfold add_child in H. destruct (has_node g n) eqn:Hn; [|discriminate].
  injection H as <-. unfold parents_of. cbn [g_parents]. rewrite lookup_extend_key.
  destruct (Z.eqb_spec x c); reflexivity.
Qed.
Lemma nodes_add_child : forall g n c g' x, add_child g n c = Ok g' ->
  (In x (nodes g') <-> In x (nodes g) \/ x = c).
Proof.
  intros g n c g' x H. unfold add_child in H. destruct (has_node g n) eqn:Hn; [|discriminate].
  injection H as <-. unfold nodes. cbn [g_children]. rewrite !keys_extend_key_in.
  apply has_node_In in Hn. unfold nodes in Hn. split; [intros [[H|H]|H]; subst; auto | intros [H|H]; auto].
Qed.
Lemma wf_add_child : forall g n c g', wf g -> add_child g n c = Ok g' -> wf g'.
Proof.
  intros g n c g' W H.
  assert (Hn : In n (nodes g)).
  { unfold add_child in H. destruct (has_node g n) eqn:Hn; [|discriminate]. apply has_node_In; assumption. }
  constructor.
  - pose proof H as H0. unfold add_child in H0. destruct (has_node g n); [|discriminate]. injection H0 as <-.
    unfold nodes. cbn [g_children]. apply keys_extend_key_nodup, keys_extend_key_nodup. apply (wf_nodup g W).
  - intros u v E. unfold edge in E. rewrite (children_add_child g n c g' u H) in E.
    rewrite !(nodes_add_child g n c g' _ H).
    destruct (Z.eqb_spec u n) as [Eu|Eu].
    + subst u. apply in_app_or in E. destruct E as [E|[E|[]]].
      * destruct (wf_closed g W n v E). auto.
      * subst v. auto.
    + destruct (wf_closed g W u v E). auto.
  - intros u v. unfold edge. rewrite (children_add_child g n c g' u H), (parents_add_child g n c g' v H).
    pose proof (wf_par g W u v) as P. unfold edge in P.
    destruct (Z.eqb_spec v c) as [Ev|Ev], (Z.eqb_spec u n) as [Eu|Eu]; subst; rewrite ?in_app_iff; cbn [In].
    + rewrite P. tauto.
    + rewrite P. split; [intros [H1|[H1|[]]]; [auto | congruence] | auto].
    + rewrite P. split; [auto | intros [H1|[H1|[]]]; [auto | congruence]].
    + exact P.
Qed.
Lemma add_child_ok : forall g n c, In n (nodes g) -> exists g', add_child g n c = Ok g'.
Proof. intros g n c H. unfold add_child. apply has_node_In in H. rewrite H. eauto. Qed.
Lemma add_children_ok : forall cs g n, wf g -> In n (nodes g) ->
  exists g', add_children g n cs = Ok g' /\ wf g' /\ In n (nodes g').
Proof.
  induction cs as [|c cs IH]; intros g n W Hn; cbn [add_children].
  - eauto.
  - destruct (add_child_ok g n c Hn) as [g1 H1]. rewrite H1. cbn [bind].
    apply IH; [eapply wf_add_child; eassumption | apply (nodes_add_child g n c g1 n H1); auto].
Qed.
Lemma wf_touch : forall g n, wf g -> wf (mkG (extend_key n [] (g_children g)) (g_parents g)).
Proof.
  intros g n W.
  assert (C : forall x, children_of (mkG (extend_key n [] (g_children g)) (g_parents g)) x = children_of g x).
  { intro x. unfold children_of. cbn [g_children]. rewrite lookup_extend_key.
    destruct (Z.eqb_spec x n); [subst; rewrite app_nil_r; destruct (lookup n (g_children g)); reflexivity | reflexivity]. }
  constructor.
  - unfold nodes. cbn [g_children]. apply keys_extend_key_nodup. apply (wf_nodup g W).
  - intros u v E. unfold edge in E. rewrite C in E. unfold nodes. cbn [g_children].
    rewrite !keys_extend_key_in. destruct (wf_closed g W u v E). auto.
  - intros u v. unfold edge. rewrite C. apply (wf_par g W).
Qed.
Lemma add_node_ok : forall g n cs, wf g -> exists g', add_node g n cs = Ok g' /\ wf g'.
Proof.
  intros g n cs W. unfold add_node.
  destruct (add_children_ok cs (mkG (extend_key n [] (g_children g)) (g_parents g)) n) as [g' [H [W' _]]].
  - apply wf_touch; assumption.
  - unfold nodes. cbn [g_children]. apply keys_extend_key_in. auto.
  - eauto.
Qed.
Lemma wf_empty : wf g_empty.
Proof.
  constructor.
  - constructor.
  - intros u v E. destruct E.
  - intros u v. unfold edge, parents_of, children_of. cbn. tauto.
Qed.
Lemma of_mapping_from_ok : forall m g, wf g -> exists g', of_mapping_from g m = Ok g' /\ wf g'.
Proof.
  induction m as [|[n cs] m IH]; intros g W; cbn [of_mapping_from].
  - eauto.
  - destruct (add_node_ok g n cs W) as [g1 [H1 W1]]. rewrite H1. cbn [bind]. apply IH; assumption.
Qed.
(* every graph the constructor can build is well-formed, and the constructor never raises *)
Lemma of_mapping_wf : forall m, exists g, of_mapping m = Ok g /\ wf g.
Proof. intro m. apply of_mapping_from_ok. apply wf_empty. Qed.
