(* C19, part 1: release-time generation for FIXED / PERIODIC / POISSON / CLOSED_LOOP
   (workload/jobs.py:259-400).  Statements are about Model/Release.v, whose EventTime
   arithmetic is the translated Gen/Src_Time.v. *)
From Coq Require Import ZArith Bool List Lia ZifyBool Sorting.Sorted.
Import ListNotations.
From Verif Require Import Model.Val Gen.Src_Time Proofs.TimeP Model.Release.
Open Scope Z_scope.

Lemma to_us_ok x : to_us x = Ok (us x).
Proof.
  unfold to_us. destruct (et_to_ok x U_US) as [y [Hy [Hu Hus]]].
  - pose proof (unit_value_pos (et_unit x)). change (unit_value U_US) with 1. lia.
  - rewrite Hy. cbn [bind]. f_equal. unfold us at 1 in Hus. rewrite Hu in Hus. change (unit_value U_US) with 1 in Hus. lia.
Qed.

Lemma us_us_time z : us (us_time z) = z.
Proof. unfold us, us_time; cbn. lia. Qed.

(* ---------------- FIXED ---------------- *)
Definition fixed_spec (s per : Z) (n : Z) : list etime :=
  map (fun i => us_time (s + Z.of_nat i * per)) (seq 0 (Z.to_nat n)).

Lemma fixed_release_times p c zd fd :
  p_type p = FIXED -> 0 <= p_n p ->
  get_release_times p c zd fd = Ok (fixed_spec (us (p_start p)) (us (p_period p)) (p_n p)).
Proof.
  intros Ht Hn. unfold get_release_times, fixed_spec.
  destruct (p_n p =? 0) eqn:E0.
  - assert (p_n p = 0) by lia. rewrite H. reflexivity.
  - rewrite Ht, !to_us_ok. cbn [bind]. unfold linspace_ints.
    destruct (p_n p <? 0) eqn:En; [lia|]. cbn [bind]. rewrite map_map. reflexivity.
Qed.

Lemma fixed_spec_length s per n : length (fixed_spec s per n) = Z.to_nat n.
Proof. unfold fixed_spec. rewrite map_length, seq_length. reflexivity. Qed.

(* a negative invocation count is refused (numpy.linspace raises ValueError) *)
Lemma fixed_negative_refused p c zd fd :
  p_type p = FIXED -> p_n p < 0 -> get_release_times p c zd fd = Err 1.
Proof.
  intros Ht Hn. unfold get_release_times. destruct (p_n p =? 0) eqn:E0; [lia|].
  rewrite Ht, !to_us_ok. cbn [bind]. unfold linspace_ints.
  destruct (p_n p <? 0) eqn:En; [reflexivity|lia].
Qed.

(* ---------------- PERIODIC ---------------- *)
Lemma range_len_spec a b s i :
  0 < s -> 0 <= i -> (a + i * s < b <-> i < range_len a b s).
Proof.
  intros Hs Hi. unfold range_len. destruct (0 <? s) eqn:E; [|lia].
  assert (Hd : (b - a + s - 1) = s * ((b - a + s - 1) / s) + (b - a + s - 1) mod s) by (apply Z.div_mod; lia).
  pose proof (Z.mod_pos_bound (b - a + s - 1) s Hs) as Hm.
  set (q := (b - a + s - 1) / s) in *. split; intros H.
  - assert (i < q) by nia. lia.
  - assert (i < q) by lia. nia.
Qed.

Definition periodic_spec (s per c : Z) : list etime :=
  map (fun i => us_time (s + Z.of_nat i * per)) (seq 0 (Z.to_nat (range_len s c per))).

Lemma periodic_release_times p c zd fd :
  p_type p = PERIODIC -> p_n p <> 0 -> us (p_period p) <> 0 ->
  get_release_times p c zd fd = Ok (periodic_spec (us (p_start p)) (us (p_period p)) (us c)).
Proof.
  intros Ht Hn Hp. unfold get_release_times, periodic_spec.
  destruct (p_n p =? 0) eqn:E0; [lia|]. rewrite Ht, !to_us_ok. cbn [bind]. unfold py_range.
  destruct (us (p_period p) =? 0) eqn:Ez; [lia|]. cbn [bind]. rewrite map_map. reflexivity.
Qed.

Lemma periodic_zero_period_refused p c zd fd :
  p_type p = PERIODIC -> p_n p <> 0 -> us (p_period p) = 0 -> get_release_times p c zd fd = Err 2.
Proof.
  intros Ht Hn Hp. unfold get_release_times.
  destruct (p_n p =? 0) eqn:E0; [lia|]. rewrite Ht, !to_us_ok. cbn [bind]. unfold py_range.
  rewrite Hp. reflexivity.
Qed.

(* membership: exactly the instants start + i*period (i >= 0) that lie before the horizon *)
Lemma periodic_spec_In s per c t :
  0 < per -> (In t (periodic_spec s per c) <-> exists i, 0 <= i /\ t = us_time (s + i * per) /\ s + i * per < c).
Proof.
  intros Hper. unfold periodic_spec. rewrite in_map_iff. split.
  - intros [i [Hi Hin]]. apply in_seq in Hin. exists (Z.of_nat i). split; [lia|]. split; [auto|].
    apply range_len_spec; lia.
  - intros [i [Hi [Ht Hlt]]]. exists (Z.to_nat i). rewrite Z2Nat.id by lia. split; [auto|].
    apply in_seq. apply range_len_spec in Hlt; lia.
Qed.

(* ---------------- POISSON ---------------- *)
Definition nondecreasing (l : list etime) : Prop := Sorted Z.le (map us l).

Lemma poisson_acc_spec ds : forall cur rest,
  Forall (fun d => 0 <= d) ds -> poisson_acc cur ds = Ok rest ->
  length rest = length ds /\ Sorted Z.le (map us (cur :: rest)).
Proof.
  induction ds as [|d ds IH]; intros cur rest Hpos H; cbn [poisson_acc] in H.
  - inversion H; subst. split; [reflexivity|]. cbn. constructor; constructor.
  - destruct (et_add_spec cur (us_time d)) as [r [Hr [Hus _]]]. rewrite Hr in H. cbn [bind] in H.
    destruct (poisson_acc r ds) as [rest'|] eqn:Hacc; cbn [bind] in H; [|discriminate].
    inversion H; subst. inversion Hpos as [|? ? Hd Hpos']; subst.
    destruct (IH r rest' Hpos' Hacc) as [Hlen Hsort]. split; [cbn; lia|].
    cbn [map]. constructor; [exact Hsort|]. constructor. rewrite Hus, us_us_time. lia.
Qed.

Lemma poisson_acc_total ds : forall cur, exists rest, poisson_acc cur ds = Ok rest.
Proof.
  induction ds as [|d ds IH]; intros cur; cbn [poisson_acc]; [eexists; reflexivity|].
  destruct (et_add_spec cur (us_time d)) as [r [Hr _]]. rewrite Hr. cbn [bind].
  destruct (IH r) as [rest Hrest]. rewrite Hrest. cbn [bind]. eexists; reflexivity.
Qed.

(* the i-th release is the start plus the first i inter-arrival draws *)
Fixpoint prefix_sums (acc : Z) (ds : list Z) : list Z :=
  match ds with [] => [] | d :: ds' => (acc + d) :: prefix_sums (acc + d) ds' end.
Lemma poisson_acc_sums ds : forall cur rest,
  poisson_acc cur ds = Ok rest -> map us rest = prefix_sums (us cur) ds.
Proof.
  induction ds as [|d ds IH]; intros cur rest H; cbn [poisson_acc] in H.
  - inversion H; reflexivity.
  - destruct (et_add_spec cur (us_time d)) as [r [Hr [Hus _]]]. rewrite Hr in H. cbn [bind] in H.
    destruct (poisson_acc r ds) as [rest'|] eqn:Hacc; cbn [bind] in H; [|discriminate].
    inversion H; subst. cbn [map prefix_sums]. rewrite (IH _ _ Hacc), Hus, us_us_time. reflexivity.
Qed.

Lemma poisson_release_times p c zd fd rs :
  p_type p = POISSON -> Forall (fun d => 0 <= d) zd ->
  get_release_times p c zd fd = Ok rs -> p_n p <> 0 ->
  length rs = Z.to_nat (p_n p) /\ hd_error rs = Some (p_start p) /\ nondecreasing rs /\
  map us rs = us (p_start p) :: prefix_sums (us (p_start p)) zd.
Proof.
  intros Ht Hpos H Hn. unfold get_release_times in H. destruct (p_n p =? 0) eqn:E0; [lia|].
  rewrite Ht in H. destruct (poisson_args (p_rate p)); cbn [bind] in H; [|discriminate].
  unfold draw_array in H. destruct (p_n p - 1 <? 0) eqn:En; cbn [bind] in H; [discriminate|].
  destruct (Z.of_nat (length zd) =? p_n p - 1) eqn:El; cbn [bind] in H; [|discriminate].
  destruct (poisson_acc (p_start p) zd) as [rest|] eqn:Hacc; cbn [bind] in H; [|discriminate].
  inversion H; subst. destruct (poisson_acc_spec _ _ _ Hpos Hacc) as [Hlen Hsort].
  split; [cbn [length]; lia|]. split; [reflexivity|]. split; [exact Hsort|].
  cbn [map]. rewrite (poisson_acc_sums _ _ _ Hacc). reflexivity.
Qed.

(* the statement is not vacuous: with a positive rate and N-1 draws the call succeeds *)
Lemma poisson_total p c zd fd :
  p_type p = POISSON -> 0 < p_n p -> 0 < fm (p_rate p) -> Z.of_nat (length zd) = p_n p - 1 ->
  exists rs, get_release_times p c zd fd = Ok rs.
Proof.
  intros Ht Hn Hr Hl. unfold get_release_times. destruct (p_n p =? 0) eqn:E0; [lia|]. rewrite Ht.
  unfold poisson_args, fl_is_zero, fl_is_neg. destruct (fm (p_rate p) =? 0) eqn:Ez; [lia|].
  destruct (fm (p_rate p) <? 0) eqn:Eneg; [lia|]. cbn [bind]. unfold draw_array.
  destruct (p_n p - 1 <? 0) eqn:En; [lia|]. destruct (Z.of_nat (length zd) =? p_n p - 1) eqn:El; [|lia].
  cbn [bind]. destruct (poisson_acc_total zd (p_start p)) as [rest Hrest]. rewrite Hrest. cbn [bind].
  eexists; reflexivity.
Qed.

(* ---------------- CLOSED_LOOP: the initial releases ---------------- *)
Lemma closed_loop_initial p c zd fd :
  p_type p = CLOSED_LOOP -> 0 < p_n p -> 0 < p_conc p ->
  get_release_times p c zd fd = Ok (repeat (p_start p) (Z.to_nat (Z.min (p_conc p) (p_n p)))).
Proof.
  intros Ht Hn Hc. unfold get_release_times. destruct (p_n p =? 0) eqn:E0; [lia|]. rewrite Ht.
  destruct (p_conc p <=? p_n p) eqn:E; do 2 f_equal; lia.
Qed.

Example fixed_example :
  get_release_times (mkPol FIXED (mkET 3 U_MS) 4 (mkF (-1) 0) (mkF (-1) 0) 0 (mkET (-5) U_US) (mkF 0 0))
                    et_zero [] []
  = Ok [us_time (-5); us_time 2995; us_time 5995; us_time 8995].
Proof. vm_compute. reflexivity. Qed.
Example periodic_example :
  get_release_times (mkPol PERIODIC (mkET 300 U_US) (-1) (mkF (-1) 0) (mkF (-1) 0) 0 (mkET 5 U_US) (mkF 0 0))
                    (mkET 1 U_MS) [] []
  = Ok [us_time 5; us_time 305; us_time 605; us_time 905].
Proof. vm_compute. reflexivity. Qed.
Example poisson_example :
  get_release_times (mkPol POISSON et_invalid 3 (mkF 1 (-7)) (mkF (-1) 0) 0 (mkET 5 U_MS) (mkF 0 0))
                    et_zero [100; 94] []
  = Ok [mkET 5 U_MS; us_time 5100; us_time 5194].
Proof. vm_compute. reflexivity. Qed.
