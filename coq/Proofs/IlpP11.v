(* C11 for the ILP planner: in every satisfying assignment a placed child has all its co-decided
   parents placed and starts after each of them has ended (plus the one microsecond the code adds). *)
From Coq Require Import ZArith Bool List Lia ZifyBool.
Import ListNotations.
From Verif Require Import Model.Val Gen.Src_Ilp Model.IlpModel Proofs.IlpP.
Open Scope Z_scope.

Definition nodup_ids (I : instance) : Prop := NoDup (map t_id (i_tasks I)).

(* ------------------------------------------------------------------ counting *)
Lemma memZ_In : forall x l, memZ x l = true <-> In x l.
Proof.
  intros x l. unfold memZ. rewrite existsb_exists. split.
  - intros (y & Hy & E). apply Z.eqb_eq in E. subst. exact Hy.
  - intros H. exists x. split; [exact H|apply Z.eqb_refl].
Qed.
Lemma nodupZ_NoDup : forall l, NoDup (nodupZ l).
Proof.
  induction l as [|x l IH]; cbn [nodupZ]; [constructor|]. destruct (memZ x l) eqn:E; [exact IH|].
  constructor; [|exact IH]. intros H.
  assert (G : forall y l, In y (nodupZ l) -> In y l).
  { clear. induction l as [|z l IH]; cbn [nodupZ]; [auto|]. destruct (memZ z l); intros H.
    - right. apply IH, H.
    - destruct H as [->|H]; [left; reflexivity|right; apply IH, H]. }
  apply G in H. apply memZ_In in H. congruence.
Qed.
Lemma NoDup_map_filter : forall A (f : A -> Z) (p : A -> bool) l, NoDup (map f l) -> NoDup (map f (filter p l)).
Proof.
  induction l as [|x l IH]; cbn [map filter]; intros H; [constructor|]. inversion H as [|? ? Hn Hd]; subst.
  destruct (p x); cbn [map]; [|apply IH, Hd]. constructor; [|apply IH, Hd].
  intros Hin. apply Hn. apply in_map_iff in Hin. destruct Hin as (y & Ey & Hy). apply filter_In in Hy.
  apply in_map_iff. exists y. tauto.
Qed.
Lemma decided_parents_count : forall I c, nodup_ids I -> Z.of_nat (length (decided_parents I c)) <= nparents I c.
Proof.
  intros I c Hn. unfold nparents, decided_parents.
  rewrite <- (map_length t_id (filter _ _)). apply inj_le. apply NoDup_incl_length.
  - apply NoDup_map_filter. exact Hn.
  - intros x Hx. apply in_map_iff in Hx. destruct Hx as (p & <- & Hp). apply filter_In in Hp. destruct Hp as [_ Hp].
    apply memZ_In. exact Hp.
Qed.
Lemma all_ones : forall A (f : A -> Z) l n, (forall x, In x l -> f x <= 1) -> Z.of_nat (length l) <= n ->
  sum_list f l = n -> forall x, In x l -> f x = 1.
Proof.
  intros A f l n Hle Hlen Hsum.
  assert (G : sum_list (fun x => 1 - f x) l = Z.of_nat (length l) - sum_list f l).
  { clear. induction l as [|x l IH]; [reflexivity|]. rewrite !sum_list_cons, IH. cbn [length]. lia. }
  assert (Z0 : sum_list (fun x => 1 - f x) l <= 0) by lia.
  intros x Hx.
  assert (1 - f x <= sum_list (fun x => 1 - f x) l).
  { apply (sum_list_member_le _ (fun x => 1 - f x)); [|exact Hx]. intros y Hy. specialize (Hle y Hy). lia. }
  specialize (Hle x Hx). lia.
Qed.

(* ------------------------------------------------------------------ a running task sits in at most one slot *)
Lemma zenum_match_le1 : forall A (l : list A) b i (g : A -> Z), (forall x, In x l -> 0 <= g x <= 1) ->
  0 <= sum_list (fun p => if fst p =? i then g (snd p) else 0) (zenum b l) <= 1 /\
  (i < b -> sum_list (fun p => if fst p =? i then g (snd p) else 0) (zenum b l) = 0).
Proof.
  induction l as [|x l IH]; intros b i g Hg; cbn [zenum]; [rewrite sum_list_nil; lia|].
  rewrite sum_list_cons. cbn [fst snd].
  assert (Hx : 0 <= g x <= 1) by (apply Hg; left; reflexivity).
  destruct (IH (b + 1) i g (fun y Hy => Hg y (or_intror Hy))) as [H1 H2].
  destruct (b =? i) eqn:E.
  - assert (i < b + 1) by lia. rewrite (H2 H). lia.
  - split; [lia|]. intros Hb. rewrite H2 by lia. lia.
Qed.
Lemma running_placed_le1 : forall I a t, is_running t = true ->
  0 <= sum_list (fun p => eval_pterm a (pv t p)) (pairs I t) <= 1.
Proof.
  intros I a t R. unfold pairs, pv. rewrite R.
  destruct (t_prev t) as [[pw pk]|].
  - assert (E : forall l2 (w : Z * worker),
       sum_list (fun p : slot => eval_pterm a (if (pw =? slot_w p) && (pk =? slot_k p) then PConst 1 else PConst 0))
                (map (fun y => (w, y)) l2)
       = if fst w =? pw then sum_list (fun ks : Z * strat => if fst ks =? pk then 1 else 0) l2 else 0).
    { intros l2 w. rewrite sum_list_map. destruct (fst w =? pw) eqn:Ew.
      - apply sum_list_ext. intros ks _. unfold slot_w, slot_k. cbn [fst snd].
        replace (pw =? fst w) with true by lia. cbn [andb]. destruct (fst ks =? pk) eqn:Ek.
        + replace (pk =? fst ks) with true by lia. reflexivity.
        + replace (pk =? fst ks) with false by lia. reflexivity.
      - apply sum_list_zero. intros ks _. unfold slot_w. cbn [fst snd]. replace (pw =? fst w) with false by lia. reflexivity. }
    assert (P : forall l1 l2, sum_list (fun p : slot => eval_pterm a (if (pw =? slot_w p) && (pk =? slot_k p) then PConst 1 else PConst 0))
                                   (list_prod l1 l2)
                 = sum_list (fun w : Z * worker => if fst w =? pw then sum_list (fun ks : Z * strat => if fst ks =? pk then 1 else 0) l2 else 0) l1).
    { induction l1 as [|w l1 IH]; intros l2; cbn [list_prod]; [reflexivity|]. rewrite sum_list_app, sum_list_cons, IH, E. reflexivity. }
    rewrite P.
    pose proof (zenum_match_le1 _ (t_strats t) 0 pk (fun _ => 1) (fun _ _ => ltac:(lia))) as [Hs _].
    fold (senum t) in Hs. set (S := sum_list (fun ks : Z * strat => if fst ks =? pk then 1 else 0) (senum t)) in *.
    pose proof (zenum_match_le1 _ (i_workers I) 1 pw (fun _ => S) (fun _ _ => Hs)) as [Hw _]. exact Hw.
  - rewrite (sum_list_zero _ _ _ (fun _ _ => eq_refl)). lia.
Qed.

(* ------------------------------------------------------------------ readback finds a slot whose variable is 1 *)
Lemma chosen_complete : forall I a t, (exists p, In p (pairs I t) /\ slot_hit a t p = true) -> chosen I a t <> None.
Proof.
  intros I a t (p & Hp & Hh). apply pairs_inv in Hp. destruct Hp as [Hw Hk]. unfold chosen.
  assert (G : forall l acc, (acc <> None \/ In (fst p) l) ->
     fold_left (fun acc wi => match find (fun ks => slot_hit a t (wi, ks)) (senum t) with
                              | Some ks => Some (fst wi, fst ks) | None => acc end) l acc <> None).
  { induction l as [|wi l IH]; intros acc H; cbn [fold_left].
    - destruct H as [H|H]; [exact H|contradiction].
    - apply IH. destruct (find (fun ks => slot_hit a t (wi, ks)) (senum t)) as [ks|] eqn:F; [left; discriminate|].
      destruct H as [H|[H|H]]; [left; exact H| |right; exact H].
      exfalso. subst wi. apply (find_none _ _ F) in Hk. destruct p as [x y]. cbn [fst snd] in *. congruence. }
  apply G. right. exact Hw.
Qed.
Lemma placed_sum_hit : forall I a t, sat (gen_ilp I) a -> In t (nonrunning I) ->
  sum_list (fun p => eval_pterm a (pv t p)) (pairs I t) >= 1 ->
  exists p, In p (pairs I t) /\ slot_hit a t p = true.
Proof.
  intros I a t Hsat Ht Hs.
  assert (Hin : In t (i_tasks I)) by (apply in_nonrunning in Ht; tauto).
  destruct (existsb (fun p => slot_hit a t p) (pairs I t)) eqn:E.
  - apply existsb_exists in E. exact E.
  - exfalso. assert (Z0 : sum_list (fun p => eval_pterm a (pv t p)) (pairs I t) = 0).
    { apply sum_list_zero. intros p Hp.
      assert (Hh : slot_hit a t p = false).
      { destruct (slot_hit a t p) eqn:Hh; [|reflexivity]. exfalso.
        assert (existsb (fun p => slot_hit a t p) (pairs I t) = true) by (apply existsb_exists; exists p; auto). congruence. }
      pose proof (pterm_binary I a Hsat t p Hin Hp) as Hb. unfold slot_hit in Hh.
      destruct (pv t p) as [z|v] eqn:Ev; cbn [eval_pterm] in *.
      - unfold pv in Ev. apply in_nonrunning in Ht. destruct Ht as [_ R]. rewrite R in Ev.
        destruct (compat _ _); inversion Ev. reflexivity.
      - lia. }
    lia.
Qed.
Lemma decision_placed_sum : forall I a t s w k, sat (gen_ilp I) a -> In t (i_tasks I) -> decision I a t = Some (s, w, k) ->
  sum_list (fun p => eval_pterm a (pv t p)) (pairs I t) >= 1.
Proof.
  intros I a t s w k Hsat Hin Hd. apply decision_slot in Hd. destruct Hd as (_ & wk & st & Hp & _ & _ & Hone & _).
  pose proof (sum_list_member_le _ (fun p => eval_pterm a (pv t p)) (pairs I t) _
                (fun p Hp' => proj1 (pterm_binary I a Hsat t p Hin Hp')) Hp) as H. cbn beta in H. lia.
Qed.

(* ------------------------------------------------------------------ the dependency rows *)
Section Dep.
Variable I : instance.
Variable a : assignment.
Hypothesis Hsat : sat (gen_ilp I) a.

Lemma has_dep_true : forall c p, In p (decided_parents I c) -> has_dep I c = true.
Proof. intros c p H. unfold has_dep. destruct (decided_parents I c); [contradiction|reflexivity]. Qed.

Lemma prec_general : forall c p sl, In c (nonrunning I) -> In p (decided_parents I c) -> In sl (pairs I p) ->
  a (VStart (t_id c)) >= eval_pterm a (startv I p) + (slot_rt sl + 1) * eval_pterm a (pv p sl).
Proof.
  intros c p sl Hc Hp Hsl.
  assert (Hr : lrow_ok a (prec_row I c p sl)).
  { apply (sat_lrow I a Hsat). cbn [gen_ilp c_lin]. apply in_or_app; right. apply in_or_app; left.
    apply in_flat_map. exists c. split; [exact Hc|]. unfold dep_lrows. apply in_flat_map. exists p. split; [exact Hp|].
    apply in_map. exact Hsl. }
  unfold lrow_ok, prec_row in Hr. cbn [l_sense l_lin l_rhs] in Hr.
  destruct bridge_prec as (B1 & B2 & B3). rewrite B1, B2, B3 in Hr. cbn [holds] in Hr.
  rewrite !eval_lin_plus, !eval_lin_term in Hr.
  apply in_nonrunning in Hc. destruct Hc as [_ R]. unfold startv in Hr at 1. rewrite R in Hr. cbn [eval_pterm] in Hr. lia.
Qed.

Lemma app_rows : forall c, In c (nonrunning I) -> has_dep I c = true ->
  0 <= a (VApp (t_id c)) <= 1 /\
  (a (VApp (t_id c)) = 1 -> eval_lin a (parent_sum I c) = nparents I c) /\
  (a (VApp (t_id c)) = 0 -> sum_list (fun p => eval_pterm a (pv c p)) (pairs I c) = 0).
Proof.
  intros c Hc Hd.
  assert (Hv : bound_ok a (mkV (VApp (t_id c)) VBin (Some 0) (Some 1))).
  { apply (sat_decl I a Hsat). cbn [gen_ilp c_vars]. apply in_or_app; right. apply in_or_app; left.
    apply in_flat_map. exists c. split; [exact Hc|]. unfold dep_decls. rewrite Hd. left; reflexivity. }
  destruct Hv as [Hl Hu]. cbn in Hl, Hu. split; [lia|].
  assert (Hrows : forall r, In r (dep_irows I c) -> irow_ok a r).
  { intros r Hr. apply (sat_irow I a Hsat). cbn [gen_ilp c_ind]. apply in_or_app; left. apply in_flat_map. exists c. auto. }
  unfold dep_irows in Hrows. rewrite Hd in Hrows. destruct (bridge_app (nparents I c)) as (B1 & B2 & B3). split.
  - intros E. specialize (Hrows _ (or_intror (or_introl eq_refl))). unfold irow_ok, ind_of in Hrows. rewrite B2 in Hrows.
    cbn [n_bvar n_bval n_sense n_lin n_rhs fst snd holds] in Hrows. apply Hrows. exact E.
  - intros E. specialize (Hrows _ (or_intror (or_intror (or_introl eq_refl)))). unfold irow_ok, ind_of in Hrows. rewrite B3 in Hrows.
    cbn [n_bvar n_bval n_sense n_lin n_rhs fst snd holds] in Hrows. specialize (Hrows E). rewrite eval_placed_lin in Hrows.
    rewrite <- Hrows. apply sum_list_ext. intros; unfold one_coef; lia.
Qed.

Lemma placed_le1 : forall t, In t (i_tasks I) -> sum_list (fun p => eval_pterm a (pv t p)) (pairs I t) <= 1.
Proof.
  intros t Ht. destruct (is_running t) eqn:R.
  - apply running_placed_le1. exact R.
  - apply (sat_placement I a Hsat). apply in_nonrunning. auto.
Qed.

(* a placed child: every co-decided parent's placement sum is 1 *)
Lemma parents_all_placed : forall c, nodup_ids I -> In c (nonrunning I) ->
  sum_list (fun p => eval_pterm a (pv c p)) (pairs I c) >= 1 ->
  forall p, In p (decided_parents I c) -> sum_list (fun sl => eval_pterm a (pv p sl)) (pairs I p) = 1.
Proof.
  intros c Hn Hc Hplaced p Hp.
  pose proof (has_dep_true c p Hp) as Hd.
  destruct (app_rows c Hc Hd) as (Hb & H1 & H0).
  assert (Happ : a (VApp (t_id c)) = 1).
  { destruct (Z.eq_dec (a (VApp (t_id c))) 0) as [E|E]; [specialize (H0 E); lia|lia]. }
  specialize (H1 Happ). unfold parent_sum in H1. rewrite eval_lin_sum in H1.
  rewrite (sum_list_ext _ _ (fun q => sum_list (fun sl => eval_pterm a (pv q sl)) (pairs I q))) in H1.
  2:{ intros q _. rewrite eval_placed_lin. apply sum_list_ext. intros; unfold one_coef; lia. }
  apply (all_ones _ (fun q => sum_list (fun sl => eval_pterm a (pv q sl)) (pairs I q)) (decided_parents I c) (nparents I c)).
  - intros q Hq. apply placed_le1. unfold decided_parents in Hq. apply filter_In in Hq. tauto.
  - apply decided_parents_count. exact Hn.
  - exact H1.
  - exact Hp.
Qed.
End Dep.

(* ------------------------------------------------------------------ C11 *)
Lemma C11_child_after_parent : forall I a, sat (gen_ilp I) a -> nodup_ids I ->
  forall c sc wc kc, In c (nonrunning I) -> decision I a c = Some (sc, wc, kc) ->
  forall p, In p (decided_parents I c) -> is_running p = false ->
  exists sp wp kp st, decision I a p = Some (sp, wp, kp) /\ nth_strat p kp = Some st /\ sc >= sp + s_rt st + 1.
Proof.
  intros I a Hsat Hn c sc wc kc Hc Hdc p Hp Rp.
  assert (Hcin : In c (i_tasks I)) by (apply in_nonrunning in Hc; tauto).
  pose proof (decision_placed_sum I a c sc wc kc Hsat Hcin Hdc) as Hsum.
  pose proof (parents_all_placed I a Hsat c Hn Hc Hsum p Hp) as Hpp.
  assert (Hpin : In p (nonrunning I)).
  { apply in_nonrunning. split; [|exact Rp]. unfold decided_parents in Hp. apply filter_In in Hp. tauto. }
  assert (Hex : exists sl, In sl (pairs I p) /\ slot_hit a p sl = true) by (apply placed_sum_hit; [exact Hsat|exact Hpin|lia]).
  apply chosen_complete in Hex.
  destruct (decision I a p) as [[[sp wp] kp]|] eqn:Dp.
  2:{ unfold decision in Dp. destruct (chosen I a p) as [[? ?]|]; [discriminate|congruence]. }
  pose proof (decision_slot I a p sp wp kp Dp) as (Es & wk & st & Hsl & _ & Hk & Hone & _).
  exists sp, wp, kp, st. split; [reflexivity|]. split; [exact Hk|].
  pose proof (prec_general I a Hsat c p _ Hc Hp Hsl) as Hrow. rewrite Hone in Hrow.
  unfold startv in Hrow. rewrite Rp in Hrow. cbn [eval_pterm] in Hrow.
  change (slot_rt ((wp, wk), (kp, st))) with (s_rt st) in Hrow.
  apply decision_slot in Hdc. destruct Hdc as (-> & _). lia.
Qed.

(* a RUNNING parent: the child starts after now + the parent's (full) runtime + 1, which is not
   earlier than its expected finish now + remaining whenever remaining <= runtime *)
Lemma C11_child_after_running_parent : forall I a, sat (gen_ilp I) a ->
  forall c, In c (nonrunning I) ->
  forall p, In p (decided_parents I c) -> is_running p = true ->
  forall w wk k st, t_prev p = Some (w, k) -> In (w, wk) (wenum I) -> In (k, st) (senum p) ->
  a (VStart (t_id c)) >= i_now I + s_rt st + 1 /\
  (t_remaining p <= s_rt st -> a (VStart (t_id c)) >= i_now I + t_remaining p).
Proof.
  intros I a Hsat c Hc p Hp Rp w wk k st Hprev Hw Hk.
  pose proof (prec_general I a Hsat c p ((w, wk), (k, st)) Hc Hp (in_pairs I p w wk k st Hw Hk)) as Hrow.
  unfold startv, pv in Hrow. rewrite Rp, Hprev in Hrow. unfold slot_w, slot_k in Hrow. cbn [fst snd] in Hrow.
  rewrite !Z.eqb_refl in Hrow. cbn [andb eval_pterm] in Hrow. rewrite bridge_running_start in Hrow.
  change (slot_rt ((w, wk), (k, st))) with (s_rt st) in Hrow. split; lia.
Qed.

(* the child of an unplaced co-decided parent is unplaced *)
Lemma C11_unplaced_parent_blocks : forall I a, sat (gen_ilp I) a -> nodup_ids I ->
  forall c p, In c (nonrunning I) -> In p (decided_parents I c) -> is_running p = false ->
  decision I a p = None -> decision I a c = None.
Proof.
  intros I a Hsat Hn c p Hc Hp Rp Dp. destruct (decision I a c) as [[[sc wc] kc]|] eqn:Dc; [|reflexivity].
  destruct (C11_child_after_parent I a Hsat Hn c sc wc kc Hc Dc p Hp Rp) as (sp & wp & kp & st & E & _). congruence.
Qed.

(* non-vacuity: the chain example, child t2 placed at 7 after parent t1 (start 1, runtime 5) *)
Definition ex_t1 : task := mkTask 1 0 TReleased 0 30 [mkStrat 1 5 [(0, 1)]] None 5.
Lemma C11_nonvacuous : exists I a c p sc wc kc,
  sat (gen_ilp I) a /\ nodup_ids I /\ In c (nonrunning I) /\ decision I a c = Some (sc, wc, kc) /\
  In p (decided_parents I c) /\ is_running p = false.
Proof.
  exists ex_chain, ex_chain_asg, ex_t2, ex_t1, 7, 1, 0. split; [exact ex_chain_sat|].
  split; [unfold nodup_ids; cbn; repeat constructor; cbn; intuition discriminate|].
  split; [right; left; reflexivity|]. split; [reflexivity|]. split; [left; reflexivity|reflexivity].
Qed.
