(* The capacity monitor (load at the start instants of the offered tasks) is the decidable form of
   "at every instant", and accepts every satisfying assignment of a well-formed instance. *)
From Coq Require Import ZArith Bool List Lia ZifyBool.
Import ListNotations.
From Verif Require Import Model.Val Gen.Src_Z3 Model.Z3Model Proofs.Z3P Proofs.Z3P2 Proofs.Z3P3 Proofs.Z3P5 Proofs.Z3P6.
Open Scope Z_scope.

Definition capacity_at_starts (ins : instance) (a : asg) : Prop :=
  forall k w, In (k, w) (indexed_from 0 (i_workers ins)) -> forall r, In r (names_of w) ->
  forall t, In t (i_tasks ins) -> load ins a k w r (t_start a t) <= avail w r.

Lemma capacity_ok_iff : forall ins a, capacity_ok ins a = true <-> capacity_at_starts ins a.
Proof.
  intros ins a. unfold capacity_ok, capacity_at_starts. split.
  - intros H k w Hkw r Hr t Ht. rewrite forallb_forall in H. specialize (H (k, w) Hkw). rewrite forallb_forall in H.
    specialize (H r Hr). rewrite forallb_forall in H. specialize (H t Ht). cbn [fst snd] in H. lia.
  - intros H. apply forallb_forall. intros [k w] Hkw. apply forallb_forall. intros r Hr. apply forallb_forall. intros t Ht.
    cbn [fst snd]. specialize (H k w Hkw r Hr t Ht). lia.
Qed.

(* ---- start instants suffice *)
Lemma dsum_mono : forall w r (f g : ztask -> bool) l, (forall t, In t l -> 0 <= demand w t r) ->
  (forall t, In t l -> f t = true -> g t = true) -> dsum w r (filter f l) <= dsum w r (filter g l).
Proof.
  intros w r f g l Hd Hfg. unfold dsum. induction l as [|t l IH]; [cbn [filter fold_right]; lia|]. cbn [filter].
  assert (IH' := IH (fun t' Ht' => Hd t' (or_intror Ht')) (fun t' Ht' => Hfg t' (or_intror Ht'))).
  pose proof (Hd t (or_introl eq_refl)). pose proof (Hfg t (or_introl eq_refl)).
  destruct (f t), (g t); cbn [fold_right]; lia.
Qed.
Lemma max_start : forall a (l : list ztask), l <> [] -> exists t0, In t0 l /\ forall t, In t l -> t_start a t <= t_start a t0.
Proof.
  intros a l. induction l as [|x l IH]; intros Hne; [congruence|].
  destruct l as [|y l'].
  - exists x. split; [now left|]. intros t [->|[]]. lia.
  - destruct (IH ltac:(discriminate)) as (t0 & Hin & Hmax).
    destruct (Z_le_gt_dec (t_start a x) (t_start a t0)).
    + exists t0. split; [now right|]. intros t [->|Ht]; [lia|now apply Hmax].
    + exists x. split; [now left|]. intros t [->|Ht]; [lia|]. specialize (Hmax t Ht). lia.
Qed.
Lemma starts_suffice : forall ins a k w r, 0 <= avail w r -> (forall t, In t (i_tasks ins) -> 0 <= demand w t r) ->
  (forall t, In t (i_tasks ins) -> load ins a k w r (t_start a t) <= avail w r) ->
  forall tau, load ins a k w r tau <= avail w r.
Proof.
  intros ins a k w r Hav Hd H tau. rewrite load_dsum.
  destruct (filter (sel ins a k tau) (i_tasks ins)) as [|x l] eqn:E; [cbn [dsum fold_right]; unfold dsum; cbn [fold_right]; lia|].
  destruct (max_start a (x :: l) ltac:(discriminate)) as (t0 & Hin0 & Hmax). rewrite <- E in Hin0, Hmax.
  apply filter_In in Hin0. destruct Hin0 as [Ht0 Hsel0].
  specialize (H t0 Ht0). rewrite load_dsum in H. rewrite <- E.
  etransitivity; [|exact H]. apply dsum_mono; [exact Hd|].
  intros t Ht Hsel. specialize (Hmax t (proj2 (filter_In _ _ _) (conj Ht Hsel))).
  unfold sel, active_at in *. lia.
Qed.

(* ---- soundness of the monitor *)
Lemma names_of_in : forall w r, In r (names_of w) <-> In r (map (fun k => fst (fst k)) (zw_res w)).
Proof. intros. unfold names_of. apply dedup_in. Qed.
Corollary capacity_monitor_sound : forall ins fs a, gen_z3 ins = Ok fs -> sat fs a = true -> wf_inst ins ->
  (forall w, In w (i_workers ins) -> wf_worker w) -> capacity_ok ins a = true.
Proof.
  intros ins fs a Hg Hs Hwf Hw. apply capacity_ok_iff. intros k w Hkw r _ t _.
  eapply c10_z3_capacity; eauto. apply Hw. destruct (indexed_from_in _ _ _ _ _ Hkw) as [_ Hn]. eapply nth_error_In; eauto.
Qed.

(* ---- the hypotheses are satisfiable by a state in which the theorem says something: ex_par (Z3P4) has
        two tasks executing together on the one worker and filling its two CPU *)
From Verif Require Import Proofs.Z3P4.
Example capacity_hyps_nonvacuous : wf_inst ex_par /\ (forall w, In w (i_workers ex_par) -> wf_worker w) /\
  exists w, nth_error (i_workers ex_par) 0 = Some w /\ load ex_par ex_par_asg 0 w 0 0 = 2 /\ avail w 0 = 2.
Proof.
  split; [|split].
  - constructor.
    + intros t [<-|[<-|[]]]; cbn; lia.
    + intros t1 t2 _ _ _ H. cbn in H. discriminate.
  - intros w [<-|[]]. split; cbn.
    + constructor; [intros []|constructor].
    + repeat constructor; cbn; lia.
  - eexists. split; [reflexivity|]. split; vm_compute; reflexivity.
Qed.
