(* Lemmas about Model/Worker.v, part 1: the ledger invariant of every worker of every pool is
   preserved by EVERY operation of Worker and WorkerPool (no hypothesis on the history). *)
From Coq Require Import ZArith Bool List Lia ZifyBool Arith.
Import ListNotations.
From Verif Require Import Model.Val Model.Res Model.Worker Proofs.ResP Proofs.ResP2.
Open Scope Z_scope.

Definition Res_ok (R : res) : Prop := Inv_ledger R /\ Dict_ok R.

Lemma res_ok_allocate_multiple : forall R req c R' o, Res_ok R -> r_allocate_multiple R req c = (R', o) -> Res_ok R'.
Proof. intros R req c R' o [A B] H. split; [eapply inv_allocate_multiple|eapply dict_allocate_multiple]; eauto. Qed.
Lemma res_ok_deallocate : forall R c R' o, Res_ok R -> r_deallocate R c = (R', o) -> Res_ok R'.
Proof. intros R c R' o [A B] H. split; [eapply inv_deallocate|eapply dict_deallocate]; eauto. Qed.
Lemma res_ok_get_allocated : forall R c, Res_ok R -> Res_ok (fst (r_get_allocated_resources R c)).
Proof. intros R c [A B]. split; [apply inv_get_allocated|apply dict_get_allocated]; assumption. Qed.

(* what an operation may do to the ledger of a worker: a property closed under the three ledger
   primitives and reflexive is preserved by every worker operation *)
Section Lift.
  Variable Q : res -> Prop.
  Variable okreq : rvec -> Prop.
  Hypothesis Q_am : forall R req c R' o, okreq req -> Q R -> r_allocate_multiple R req c = (R', o) -> Q R'.
  Hypothesis Q_de : forall R c R' o, Q R -> r_deallocate R c = (R', o) -> Q R'.
  Hypothesis Q_ga : forall R c, Q R -> Q (fst (r_get_allocated_resources R c)).

  Lemma lift_place : forall t s w w' o, okreq (s_req s) -> Q (w_res w) -> w_place t s w = (w', o) -> Q (w_res w').
  Proof.
    intros t s w w' o Hs HQ H. unfold w_place in H. destruct (zmem t (w_placed w)); [inversion H; subst; exact HQ|].
    destruct (s_is_batch s).
    - destruct (zfind (s_id s) (w_batches w)) as [mem|].
      + destruct (_ <? _); inversion H; subst; exact HQ.
      + destruct (s_bsize s <? 1); [inversion H; subst; exact HQ|].
        destruct (r_allocate_multiple (w_res w) (s_req s) (CBatch (w_fresh w))) as [R [u|e]] eqn:E; inversion H; subst; cbn [w_res w_set_res];
          eapply Q_am; eauto.
    - destruct (r_allocate_multiple (w_res w) (s_req s) (CTask t)) as [R [u|e]] eqn:E; inversion H; subst; cbn [w_res w_set_res];
        eapply Q_am; eauto.
  Qed.
  Lemma lift_remove : forall t w w' o, Q (w_res w) -> w_remove t w = (w', o) -> Q (w_res w').
  Proof.
    intros t w w' o HQ H. unfold w_remove in H. destruct (zfind t (w_placed w)) as [s|]; [|inversion H; subst; exact HQ].
    destruct (s_is_batch s).
    - destruct (zfind (s_id s) (w_batches w)) as [mem|]; [|inversion H; subst; exact HQ].
      destruct (negb (set_mem t mem)); [inversion H; subst; exact HQ|].
      destruct (set_remove t mem) as [|x mem'].
      + destruct (zfind (s_id s) (w_btask w)) as [b|]; [|inversion H; subst; exact HQ].
        destruct (r_deallocate (w_res w) (CBatch b)) as [R [u|e]] eqn:E; inversion H; subst; cbn [w_res w_set_res w_set_batches];
          eapply Q_de; eauto.
      + inversion H; subst; exact HQ.
    - destruct (r_deallocate (w_res w) (CTask t)) as [R [u|e]] eqn:E; inversion H; subst; cbn [w_res w_set_res];
        eapply Q_de; eauto.
  Qed.
  Lemma lift_load : forall p s w w' o, okreq (s_req s) -> Q (w_res w) -> w_load p s w = (w', o) -> Q (w_res w').
  Proof.
    intros p s w w' o Hs HQ H. unfold w_load in H.
    destruct (r_allocate_multiple (w_res w) (s_req s) (CProf p)) as [R [u|e]] eqn:E; inversion H; subst; cbn [w_res w_set_res];
      eapply Q_am; eauto.
  Qed.
  Lemma lift_evict : forall p w w' o, Q (w_res w) -> w_evict p w = (w', o) -> Q (w_res w').
  Proof.
    intros p w w' o HQ H. unfold w_evict in H. destruct (_ && _); [inversion H; subst; exact HQ|].
    destruct (r_deallocate (w_res w) (CProf p)) as [R [u|e]] eqn:E; [|inversion H; subst; cbn [w_res w_set_res]; eapply Q_de; eauto].
    destruct (zmem p (w_avail_prof w)); inversion H; subst; cbn [w_res]; eapply Q_de; eauto.
  Qed.
  Lemma lift_step : forall dt w, Q (w_res w) -> Q (w_res (w_step dt w)).
  Proof. intros dt w HQ. unfold w_step. destruct (step_pend _ _ _). exact HQ. Qed.
  Lemma lift_getalloc : forall t w, Q (w_res w) -> Q (w_res (fst (w_get_allocated_resources t w))).
  Proof.
    intros t w HQ. unfold w_get_allocated_resources. destruct (zfind t (w_placed w)) as [s|]; [|exact HQ].
    destruct (s_is_batch s).
    - destruct (zfind (s_id s) (w_btask w)) as [b|]; [|exact HQ].
      pose proof (Q_ga (w_res w) (CBatch b) HQ) as X. destruct (r_get_allocated_resources (w_res w) (CBatch b)). exact X.
    - pose proof (Q_ga (w_res w) (CTask t) HQ) as X. destruct (r_get_allocated_resources (w_res w) (CTask t)). exact X.
  Qed.

  Definition wop_req_ok (o : wop) : Prop :=
    match o with WPlace _ s => okreq (s_req s) | WLoad _ s => okreq (s_req s) | _ => True end.
  Lemma lift_wop : forall w o, wop_req_ok o -> Q (w_res w) -> Q (w_res (fst (w_opstep w o))).
  Proof.
    intros w [t s|t|p s|p|dt|t] Ho HQ; cbn [w_opstep]; cbn in Ho.
    - destruct (w_place t s w) eqn:E. eapply lift_place; eauto.
    - destruct (w_remove t w) eqn:E. eapply lift_remove; eauto.
    - destruct (w_load p s w) eqn:E. eapply lift_load; eauto.
    - destruct (w_evict p w) eqn:E. eapply lift_evict; eauto.
    - apply lift_step. exact HQ.
    - pose proof (lift_getalloc t w HQ) as X. destruct (w_get_allocated_resources t w). exact X.
  Qed.
  Lemma lift_w_run : forall ops w, Forall wop_req_ok ops -> Q (w_res w) -> Q (w_res (w_run ops w)).
  Proof.
    unfold w_run. induction ops as [|o ops IH]; intros w Ho HQ; cbn [fold_left]; [exact HQ|].
    inversion Ho as [|x l H1 H2]; subst. apply IH; [exact H2|]. apply lift_wop; assumption.
  Qed.

  (* pools *)
  Definition WsQ (ws : list worker) : Prop := Forall (fun W => Q (w_res W)) ws.
  Lemma pw_find_Q : forall wid ws W, WsQ ws -> pw_find wid ws = Some W -> Q (w_res W).
  Proof.
    intros wid. induction ws as [|W' ws IH]; cbn [pw_find]; intros W H E; [discriminate|].
    inversion H as [|x l H1 H2]; subst. destruct (w_id W' =? wid); [inversion E; subst; exact H1|]. eapply IH; eauto.
  Qed.
  Lemma pw_set_Q : forall W ws, WsQ ws -> Q (w_res W) -> WsQ (pw_set W ws).
  Proof.
    intros W. induction ws as [|W' ws IH]; cbn [pw_set]; intros H HQ; [constructor|].
    inversion H as [|x l H1 H2]; subst. destruct (w_id W' =? w_id W); constructor; auto. apply IH; assumption.
  Qed.
  Lemma lift_p_each : forall (f : worker -> worker * result unit),
    (forall W W' o, Q (w_res W) -> f W = (W', o) -> Q (w_res W')) ->
    forall ids ws ws' o, WsQ ws -> p_each f ids ws = (ws', o) -> WsQ ws'.
  Proof.
    intros f Hf. induction ids as [|i ids IH]; intros ws ws' o H E; cbn [p_each] in E; [inversion E; subst; exact H|].
    destruct (pw_find i ws) as [W|] eqn:Ef; [|inversion E; subst; exact H].
    destruct (f W) as [W' [u|e]] eqn:EW.
    - eapply IH; [|exact E]. apply pw_set_Q; [exact H|]. eapply Hf; [|exact EW]. eapply pw_find_Q; eauto.
    - inversion E; subst. apply pw_set_Q; [exact H|]. eapply Hf; [|exact EW]. eapply pw_find_Q; eauto.
  Qed.

  Definition strat_ok (s : strategy) : Prop := okreq (s_req s).
  Definition pop_req_ok (o : pop) : Prop :=
    match o with
    | PPlace _ strats es _ => Forall strat_ok strats /\ match es with Some s => strat_ok s | None => True end
    | PLoad _ s _ => strat_ok s
    | _ => True
    end.
  Lemma first_fit_in : forall W strats s, first_fit_strategy W strats = Some s -> In s strats.
  Proof. intros W strats s H. unfold first_fit_strategy in H. apply find_some in H. tauto. Qed.
  Lemma first_worker_strategy_in : forall ws strats w s, first_worker_strategy ws strats = Some (w, s) -> In s strats.
  Proof.
    induction ws as [|W ws IH]; cbn [first_worker_strategy]; intros strats w s H; [discriminate|].
    destruct (first_fit_strategy W strats) as [s'|] eqn:E; [inversion H; subst; eapply first_fit_in; eauto|eauto].
  Qed.
  Lemma p_choose_ok : forall strats es wid P w s, Forall strat_ok strats ->
    match es with Some s => strat_ok s | None => True end ->
    p_choose strats es wid P = Ok (Some (w, Some s)) -> strat_ok s.
  Proof.
    intros strats es wid P w s Hs He H. unfold p_choose in H. destruct wid as [w0|].
    - destruct (pw_find w0 (p_workers P)) as [W|]; [|discriminate]. destruct es as [s0|].
      + destruct (negb (w_fits s0 W)); inversion H; subst. exact He.
      + inversion H as [H1]. rewrite Forall_forall in Hs. apply Hs. eapply first_fit_in; eauto.
    - destruct es as [s0|].
      + destruct (find _ _); inversion H; subst. exact He.
      + destruct (first_worker_strategy (p_workers P) strats) as [[w1 s1]|] eqn:E; inversion H; subst.
        rewrite Forall_forall in Hs. apply Hs. eapply first_worker_strategy_in; eauto.
  Qed.

  Lemma lift_pop : forall P o, pop_req_ok o -> WsQ (p_workers P) -> WsQ (p_workers (fst (p_opstep P o))).
  Proof.
    intros P [t strats es wid|t|p s wid|p wid|dt] Ho HQ; cbn [p_opstep]; cbn in Ho.
    - unfold p_place. destruct (zmem t (p_placed P)); [exact HQ|]. destruct (p_choose strats es wid P) as [[[w [s|]]|]|e] eqn:Ec; cbn [fst]; try exact HQ.
      destruct (pw_find w (p_workers P)) as [W|] eqn:Ef; [|exact HQ].
      destruct Ho as [Hs He]. pose proof (p_choose_ok _ _ _ _ _ _ Hs He Ec) as Hok.
      destruct (w_place t s W) as [W' [u|e]] eqn:Ep; cbn [fst p_workers]; apply pw_set_Q; try exact HQ;
        eapply lift_place; try exact Ep; try exact Hok; eapply pw_find_Q; eauto.
    - unfold p_remove. destruct (zfind t (p_placed P)) as [w|]; [|exact HQ].
      destruct (pw_find w (p_workers P)) as [W|] eqn:Ef; [|exact HQ].
      destruct (w_remove t W) as [W' [u|e]] eqn:Ep; cbn [fst p_workers]; apply pw_set_Q; try exact HQ;
        eapply lift_remove; try exact Ep; eapply pw_find_Q; eauto.
    - unfold p_load. destruct (p_precheck s (p_ids wid P) (p_workers P)); [|exact HQ].
      destruct (p_each (w_load p s) (p_ids wid P) (p_workers P)) as [ws r] eqn:E. destruct r; cbn [fst p_workers];
        eapply lift_p_each; try exact E; try exact HQ; intros W W' o' HW EW; eapply lift_load; eauto.
    - unfold p_evict. destruct (p_each (w_evict p) (p_ids wid P) (p_workers P)) as [ws r] eqn:E. destruct r; cbn [fst p_workers];
        eapply lift_p_each; try exact E; try exact HQ; intros W W' o' HW EW; eapply lift_evict; eauto.
    - cbn [fst p_step p_workers]. unfold WsQ in *. rewrite Forall_forall in *. intros W' Hin.
      apply in_map_iff in Hin. destruct Hin as (W & <- & Hin). apply lift_step. auto.
  Qed.
  Lemma lift_p_run : forall ops P, Forall pop_req_ok ops -> WsQ (p_workers P) -> WsQ (p_workers (p_run ops P)).
  Proof.
    unfold p_run. induction ops as [|o ops IH]; intros P Ho HQ; cbn [fold_left]; [exact HQ|].
    inversion Ho as [|x l H1 H2]; subst. apply IH; [exact H2|]. apply lift_pop; assumption.
  Qed.
End Lift.

(* instances *)
Definition Ledger_of (v : rvec) (R : res) : Prop := Res_ok R /\ r_total R = v.
Lemma ledger_of_am : forall v R req c R' o, True -> Ledger_of v R -> r_allocate_multiple R req c = (R', o) -> Ledger_of v R'.
Proof. intros v R req c R' o _ [A B] H. split; [eapply res_ok_allocate_multiple; eauto|rewrite (total_allocate_multiple _ _ _ _ _ H); exact B]. Qed.
Lemma ledger_of_de : forall v R c R' o, Ledger_of v R -> r_deallocate R c = (R', o) -> Ledger_of v R'.
Proof. intros v R c R' o [A B] H. split; [eapply res_ok_deallocate; eauto|rewrite (total_deallocate _ _ _ _ H); exact B]. Qed.
Lemma ledger_of_ga : forall v R c, Ledger_of v R -> Ledger_of v (fst (r_get_allocated_resources R c)).
Proof. intros v R c [A B]. split; [apply res_ok_get_allocated; exact A|rewrite total_get_allocated; exact B]. Qed.

Lemma nonneg_am : forall R req c R' o, nonneg_vec req -> Nonneg R -> r_allocate_multiple R req c = (R', o) -> Nonneg R'.
Proof. intros. eapply nonneg_allocate_multiple; eauto. Qed.
Lemma nonneg_de : forall R c R' o, Nonneg R -> r_deallocate R c = (R', o) -> Nonneg R'.
Proof. intros. eapply nonneg_deallocate; eauto. Qed.

(* ---- the C04 conservation statement for every history on a worker ---- *)
Theorem worker_conservation : forall id v ops, NoDup (map fst v) ->
  let w := w_run ops (w_new id v) in
  (forall P, sumP P (r_avail (w_res w)) + allocs_sum P (r_allocs (w_res w)) = sumP P v) /\
  map fst (r_avail (w_res w)) = map fst v /\ r_total (w_res w) = v.
Proof.
  intros id v ops Hv w.
  assert (H : Ledger_of v (w_res w)).
  { apply (lift_w_run (Ledger_of v) (fun _ => True) (ledger_of_am v) (ledger_of_de v) (ledger_of_ga v)).
    - rewrite Forall_forall. intros [ | | | | | ] _; exact Logic.I.
    - cbn. split; [split; [apply inv_new|apply dict_new; exact Hv]|reflexivity]. }
  destruct H as [[[C K _] _] T]. rewrite <- T. repeat split; auto.
Qed.
Theorem worker_nonneg : forall id v ops, nonneg_vec v ->
  Forall (wop_req_ok nonneg_vec) ops ->
  nonneg_vec (r_avail (w_res (w_run ops (w_new id v)))).
Proof.
  intros id v ops Hv Ho. apply nn_avail.
  apply (lift_w_run Nonneg nonneg_vec nonneg_am nonneg_de nonneg_get_allocated); [exact Ho|].
  cbn. apply nonneg_new. exact Hv.
Qed.

(* since a negative quantity is refused (/repo 84d7416): for ALL histories *)
Lemma nonneg_am_any : forall R req c R' o, True -> Nonneg R -> r_allocate_multiple R req c = (R', o) -> Nonneg R'.
Proof. intros R req c R' o _. apply nonneg_allocate_multiple_any. Qed.
Theorem worker_nonneg_all : forall id v ops, nonneg_vec v -> nonneg_vec (r_avail (w_res (w_run ops (w_new id v)))).
Proof.
  intros id v ops Hv. apply nn_avail.
  apply (lift_w_run Nonneg (fun _ => True) nonneg_am_any nonneg_de nonneg_get_allocated).
  - rewrite Forall_forall. intros [ | | | | | ] _; exact Logic.I.
  - cbn. apply nonneg_new. exact Hv.
Qed.

(* ---- and for every history on a pool: every worker of the pool ---- *)
Definition pool_vectors_ok (P : pool) : Prop := Forall (fun W => NoDup (map fst (r_total (w_res W)))) (p_workers P).
Definition Ledger_self (R0 : res -> Prop) (R : res) : Prop := Res_ok R /\ R0 R.

Theorem pool_conservation : forall ops P,
  Forall (fun W => Res_ok (w_res W)) (p_workers P) ->
  Forall (fun W => Res_ok (w_res W) /\
                   forall Pk, sumP Pk (r_avail (w_res W)) + allocs_sum Pk (r_allocs (w_res W)) = sumP Pk (r_total (w_res W)))
         (p_workers (p_run ops P)).
Proof.
  intros ops P H.
  assert (X : WsQ Res_ok (p_workers (p_run ops P))).
  { apply (lift_p_run Res_ok (fun _ => True)
             (fun R req c R' o _ => res_ok_allocate_multiple R req c R' o) res_ok_deallocate).
    - rewrite Forall_forall. intros [t strats es wid| | | | ] _; unfold pop_req_ok, strat_ok; auto.
      split; [rewrite Forall_forall; intros; exact Logic.I|destruct es; exact Logic.I].
    - exact H. }
  unfold WsQ in X. rewrite Forall_forall in *. intros W HW. specialize (X W HW). split; [exact X|].
  destruct X as [[C _ _] _]. exact C.
Qed.
Theorem pool_nonneg : forall ops P,
  Forall (fun W => Nonneg (w_res W)) (p_workers P) ->
  Forall (pop_req_ok nonneg_vec) ops ->
  Forall (fun W => nonneg_vec (r_avail (w_res W))) (p_workers (p_run ops P)).
Proof.
  intros ops P H Ho.
  assert (X : WsQ Nonneg (p_workers (p_run ops P))).
  { apply (lift_p_run Nonneg nonneg_vec nonneg_am nonneg_de); assumption. }
  unfold WsQ in X. rewrite Forall_forall in *. intros W HW. apply nn_avail. auto.
Qed.
(* the totals of the workers of a pool never change, and no worker appears or disappears *)
Lemma pw_set_ids : forall W ws, map w_id (pw_set W ws) = map w_id ws.
Proof.
  intros W. induction ws as [|W' ws IH]; cbn [pw_set map]; [reflexivity|].
  destruct (w_id W' =? w_id W) eqn:E; cbn [map]; [apply Z.eqb_eq in E; congruence|rewrite IH; reflexivity].
Qed.
Theorem pool_nonneg_all : forall ops P,
  Forall (fun W => Nonneg (w_res W)) (p_workers P) ->
  Forall (fun W => nonneg_vec (r_avail (w_res W))) (p_workers (p_run ops P)).
Proof.
  intros ops P H.
  assert (X : WsQ Nonneg (p_workers (p_run ops P))).
  { apply (lift_p_run Nonneg (fun _ => True) nonneg_am_any nonneg_de); [|exact H].
    rewrite Forall_forall. intros [t strats es wid| | | | ] _; unfold pop_req_ok, strat_ok; auto.
    split; [rewrite Forall_forall; intros; exact Logic.I|destruct es; exact Logic.I]. }
  unfold WsQ in X. rewrite Forall_forall in *. intros W HW. apply nn_avail. auto.
Qed.
