(* Greedy policies, part 3: the simple concrete ledger SL satisfies the laws assumed in part 2
   (placing only consumes, fitting is antitone, availability is conserved exactly), so the generic
   theorems are not vacuous; closed witnesses (Examples) evaluated by vm_compute. *)
From Coq Require Import ZArith Bool List Lia ZifyBool Sorting.Sorted Permutation.
Import ListNotations.
From Verif Require Import Model.Val Gen.Src_Greedy Model.Greedy Proofs.GreedyP Proofs.GreedyP2.
Open Scope Z_scope.

Definition s_wok (w : sworker) : Prop := Forall (fun e => 0 <= e_avail e <= e_total e) w.
Definition s_sok (s : sstrat) : Prop := Forall (fun r => 0 <= snd r) (ss_req s) /\ NoDup (map fst (ss_req s)).
(* w' is at least as occupied as w: no more of any resource name is available in w' *)
Definition s_wle (w w' : sworker) : Prop := forall n, avail_of w' n <= avail_of w n.

Lemma s_wle_refl w : s_wle w w.
Proof. intros n. lia. Qed.
Lemma s_wle_trans a b c : s_wle a b -> s_wle b c -> s_wle a c.
Proof. intros H1 H2 n. specialize (H1 n). specialize (H2 n). lia. Qed.

Lemma avail_of_nonneg w n : s_wok w -> 0 <= avail_of w n.
Proof.
  induction 1 as [|e r He _ IH]; cbn [avail_of]; [lia|]. destruct (e_name e =? n); lia.
Qed.
Lemma s_take_other w n q m : m <> n -> avail_of (s_take w n q) m = avail_of w m.
Proof.
  intros Hm. revert q. induction w as [|e r IH]; intros q; cbn [s_take avail_of]; [reflexivity|].
  destruct (e_name e =? n) eqn:En.
  - destruct (q <=? e_avail e); cbn [avail_of e_name e_avail].
    + assert (e_name e =? m = false) as -> by lia. reflexivity.
    + assert (e_name e =? m = false) as -> by lia. apply IH.
  - cbn [avail_of]. rewrite IH. reflexivity.
Qed.
Lemma s_take_same w n : forall q, s_wok w -> 0 <= q <= avail_of w n -> avail_of (s_take w n q) n = avail_of w n - q.
Proof.
  induction w as [|e r IH]; intros q Hok Hq; cbn [s_take avail_of] in *; [lia|].
  inversion Hok as [|? ? He Hr]; subst; cbv beta in He.
  destruct (e_name e =? n) eqn:En.
  - destruct (q <=? e_avail e) eqn:Q; cbn [avail_of e_name e_avail]; rewrite En; [lia|].
    rewrite IH; [lia|exact Hr|]. pose proof (avail_of_nonneg r n Hr). lia.
  - cbn [avail_of]. rewrite En. apply IH; assumption.
Qed.
Lemma s_take_le w n m : forall q, s_wok w -> 0 <= q -> avail_of (s_take w n q) m <= avail_of w m.
Proof.
  destruct (Z.eq_dec m n) as [->|Hm]; [|intros; rewrite s_take_other by exact Hm; lia].
  induction w as [|e r IH]; intros q Hok Hq; cbn [s_take avail_of]; [lia|].
  inversion Hok as [|? ? He Hr]; subst; cbv beta in He.
  destruct (e_name e =? n) eqn:En.
  - destruct (q <=? e_avail e) eqn:Q; cbn [avail_of e_name e_avail]; rewrite En; [lia|].
    specialize (IH (q - e_avail e) Hr ltac:(lia)). lia.
  - cbn [avail_of]. rewrite En. apply IH; assumption.
Qed.
Lemma s_take_ok w n : forall q, s_wok w -> 0 <= q -> s_wok (s_take w n q).
Proof.
  induction w as [|e r IH]; intros q Hok Hq; cbn [s_take]; [constructor|].
  inversion Hok as [|? ? He Hr]; subst; cbv beta in He.
  destruct (e_name e =? n).
  - destruct (q <=? e_avail e) eqn:Q; constructor; cbn [e_avail e_total]; try lia; try assumption.
    apply IH; [assumption|lia].
  - constructor; [assumption|apply IH; assumption].
Qed.

Lemma fold_take_le req : forall w, s_wok w -> Forall (fun r => 0 <= snd r) req ->
  s_wle w (fold_left (fun w r => s_take w (fst r) (snd r)) req w) /\
  s_wok (fold_left (fun w r => s_take w (fst r) (snd r)) req w).
Proof.
  induction req as [|[n q] r IH]; intros w Hok Hq; cbn [fold_left]; [split; [apply s_wle_refl|exact Hok]|].
  inversion Hq as [|? ? Hq1 Hqr]; subst. cbn [fst snd] in *.
  destruct (IH (s_take w n q) (s_take_ok w n q Hok Hq1) Hqr) as [H1 H2]. split; [|exact H2].
  eapply s_wle_trans; [|exact H1]. intros m. apply s_take_le; assumption.
Qed.
Lemma s_wplace_le w t s : s_wok w -> s_sok s -> s_can w s = true -> s_wle w (s_wplace w t s).
Proof. intros Hok [Hq _] _. apply fold_take_le; assumption. Qed.
Lemma s_wplace_ok w t s : s_wok w -> s_sok s -> s_can w s = true -> s_wok (s_wplace w t s).
Proof. intros Hok [Hq _] _. apply fold_take_le; assumption. Qed.
Lemma s_wreset_ok w : s_wok w -> s_wok (s_wreset w).
Proof.
  unfold s_wok, s_wreset. intros H. rewrite Forall_map. eapply Forall_impl; [|exact H].
  intros e He. cbn in *. lia.
Qed.
Lemma forallb_ext_in {A} (f g : A -> bool) l : (forall x, In x l -> f x = g x) -> forallb f l = forallb g l.
Proof.
  induction l as [|x r IH]; intros H; cbn [forallb]; [reflexivity|].
  rewrite (H x (or_introl eq_refl)), IH; [reflexivity|]. intros y Hy. apply H. right. exact Hy.
Qed.

(* one request played on the scratch vector: what remains unserved is the excess over the availability of its
   name; the other names are untouched; the vector stays well formed *)
Lemma s_play_spec w n : forall q, s_wok w -> 0 <= q ->
  snd (s_play w n q) = Z.max 0 (q - avail_of w n) /\ s_wok (fst (s_play w n q)) /\
  forall m, m <> n -> avail_of (fst (s_play w n q)) m = avail_of w m.
Proof.
  induction w as [|e r IH]; intros q Hok Hq; cbn [s_play avail_of].
  - cbn [fst snd]. split; [lia|]. split; [constructor|reflexivity].
  - inversion Hok as [|? ? He Hr]; subst; cbv beta in He.
    destruct (e_name e =? n) eqn:En; cbn [andb].
    + destruct (0 <? q) eqn:Q.
      * destruct (IH (q - Z.min (e_avail e) q) Hr ltac:(lia)) as [H1 [H2 H3]].
        destruct (s_play r n (q - Z.min (e_avail e) q)) as [r' rem] eqn:E. cbn [fst snd] in *.
        pose proof (avail_of_nonneg r n Hr). split; [lia|]. split; [constructor; [cbn; lia|exact H2]|].
        intros m Hm. cbn [avail_of e_name e_avail]. assert (e_name e =? m = false) as -> by lia. apply H3. exact Hm.
      * destruct (IH q Hr Hq) as [H1 [H2 H3]]. destruct (s_play r n q) as [r' rem] eqn:E. cbn [fst snd] in *.
        pose proof (avail_of_nonneg r n Hr). split; [lia|]. split; [constructor; assumption|].
        intros m Hm. cbn [avail_of]. assert (e_name e =? m = false) as -> by lia. apply H3. exact Hm.
    + destruct (IH q Hr Hq) as [H1 [H2 H3]]. destruct (s_play r n q) as [r' rem] eqn:E. cbn [fst snd] in *.
      split; [exact H1|]. split; [constructor; assumption|].
      intros m Hm. cbn [avail_of]. destruct (e_name e =? m); [rewrite H3 by exact Hm; reflexivity|apply H3; exact Hm].
Qed.
(* for non-negative requests on distinct names the cumulative fit test is the per-request one *)
Lemma s_can_from_each req : forall w, s_wok w -> Forall (fun r => 0 <= snd r) req -> NoDup (map fst req) ->
  s_can_from w req = forallb (fun r => snd r <=? avail_of w (fst r)) req.
Proof.
  induction req as [|[n q] rest IH]; intros w Hok Hq ND; cbn [s_can_from forallb fst snd]; [reflexivity|].
  inversion Hq as [|? ? Hq1 Hqr]; subst. cbn [map fst snd] in *. inversion ND as [|? ? Hn NDr]; subst.
  destruct (s_play_spec w n q Hok Hq1) as [H1 [H2 H3]]. destruct (s_play w n q) as [w' rem] eqn:E. cbn [fst snd] in *.
  destruct (0 <? rem) eqn:R.
  - assert (q <=? avail_of w n = false) as -> by lia. reflexivity.
  - assert (q <=? avail_of w n = true) as -> by lia. cbn [andb]. rewrite (IH w' H2 Hqr NDr).
    apply forallb_ext_in. intros r Hr. rewrite H3; [reflexivity|].
    intros X. apply Hn. rewrite <- X. apply in_map. exact Hr.
Qed.
Lemma s_can_each_iff w s : s_wok w -> s_sok s -> s_can w s = s_can_each w s.
Proof. intros Hok [Hq ND]. apply s_can_from_each; assumption. Qed.

Lemma s_can_antitone w w' s : s_wok w -> s_wok w' -> s_sok s -> s_wle w w' -> s_can w' s = true -> s_can w s = true.
Proof.
  intros Hok Hok' Hs Hle. rewrite (s_can_each_iff w s Hok Hs), (s_can_each_iff w' s Hok' Hs).
  unfold s_can_each. intros H. rewrite forallb_forall in *. intros r Hr. specialize (H r Hr). specialize (Hle (fst r)). lia.
Qed.

(* exact conservation: what a placement takes is what its strategy requests, name by name *)
Fixpoint demand (req : list (Z * Z)) (n : Z) : Z :=
  match req with [] => 0 | r :: rest => (if fst r =? n then snd r else 0) + demand rest n end.
Lemma demand_notin req n : ~ In n (map fst req) -> demand req n = 0.
Proof.
  induction req as [|[m q] r IH]; cbn [demand map fst snd In]; intros H; [reflexivity|].
  destruct (m =? n) eqn:E; [exfalso; apply H; left; lia|]. rewrite IH; [lia|]. intros X. apply H. right. exact X.
Qed.
Lemma fold_take_conserve req : forall w, s_wok w -> Forall (fun r => 0 <= snd r) req -> NoDup (map fst req) ->
  forallb (fun r => snd r <=? avail_of w (fst r)) req = true ->
  forall n, avail_of (fold_left (fun w r => s_take w (fst r) (snd r)) req w) n = avail_of w n - demand req n.
Proof.
  induction req as [|[m q] r IH]; intros w Hok Hq ND Hc n; cbn [fold_left demand]; [lia|].
  inversion Hq as [|? ? Hq1 Hqr]; subst. cbn [map fst snd] in *. inversion ND as [|? ? Hn NDr]; subst.
  cbn [forallb fst snd] in Hc. apply andb_true_iff in Hc. destruct Hc as [Hc1 Hcr].
  rewrite IH; [|apply s_take_ok; assumption|assumption|assumption|].
  - destruct (m =? n) eqn:E.
    + replace n with m by lia. rewrite s_take_same; [lia|assumption|lia].
    + rewrite s_take_other by lia. lia.
  - rewrite forallb_forall in *. intros x Hx. specialize (Hcr x Hx).
    rewrite s_take_other; [exact Hcr|]. intros X. apply Hn. rewrite <- X. apply in_map. exact Hx.
Qed.
Lemma s_wplace_conserve w t s : s_wok w -> s_sok s -> s_can w s = true ->
  forall n, avail_of (s_wplace w t s) n = avail_of w n - demand (ss_req s) n.
Proof.
  intros Hok [Hq ND] Hc. rewrite (s_can_each_iff w s Hok (conj Hq ND)) in Hc. apply fold_take_conserve; assumption.
Qed.
(* placing the same strategy on an emptier and on a fuller worker keeps them ordered *)
Lemma s_wplace_mono a b t s : s_wok a -> s_wok b -> s_sok s -> s_wle a b -> s_can b s = true ->
  s_wle (s_wplace a t s) (s_wplace b t s).
Proof.
  intros Ha Hb Hs Hle Hc n. rewrite !s_wplace_conserve; auto; [specialize (Hle n); lia|].
  eapply s_can_antitone; eauto.
Qed.

(* ---------- the laws as one record; the generic theorems restated over it; SL is an instance *)
Record ledger_laws (L : ledger) (wle : wk L -> wk L -> Prop) (wok : wk L -> Prop) (sok : st L -> Prop) : Prop := mkLaws {
  ll_refl : forall w, wle w w;
  ll_trans : forall a b c, wle a b -> wle b c -> wle a c;
  ll_place_le : forall w t s, wok w -> sok s -> can L w s = true -> wle w (wplace L w t s);   (* placing only consumes *)
  ll_place_ok : forall w t s, wok w -> sok s -> can L w s = true -> wok (wplace L w t s);
  ll_reset_ok : forall w, wok w -> wok (wreset L w);
  ll_antitone : forall w w' s, wok w -> wok w' -> sok s -> wle w w' -> can L w' s = true -> can L w s = true  (* fitting is antitone *)
}.
Lemma SL_laws : ledger_laws SL s_wle s_wok s_sok.
Proof.
  constructor; [exact s_wle_refl|exact s_wle_trans|exact s_wplace_le|exact s_wplace_ok|exact s_wreset_ok|exact s_can_antitone].
Qed.

Section OverLaws.
  Variable L : ledger.
  Variable wle : wk L -> wk L -> Prop.
  Variable wok : wk L -> Prop.
  Variable sok : st L -> Prop.
  Variable LL : ledger_laws L wle wok sok.
  Definition c13_laws := c13_generic L wle wok sok (ll_refl _ _ _ _ LL) (ll_trans _ _ _ _ LL) (ll_place_le _ _ _ _ LL)
                                     (ll_place_ok _ _ _ _ LL) (ll_reset_ok _ _ _ _ LL) (ll_antitone _ _ _ _ LL).
  Definition feasible_laws := feasible_generic L wle wok sok (ll_refl _ _ _ _ LL) (ll_trans _ _ _ _ LL) (ll_place_le _ _ _ _ LL)
                                     (ll_place_ok _ _ _ _ LL) (ll_reset_ok _ _ _ _ LL).
End OverLaws.

Definition s_cok := cok SL s_wok.
Definition s_tasks_ok := tasks_ok SL s_sok.
Definition s_cle := cle SL s_wle.

(* ---------- closed witnesses *)
(* one pool, one worker with 2 CPUs (name 0); three tasks, each wanting 1 CPU except B that wants 2;
   deadlines A=10, B=12, C=12 (C after B in the input, same graph): A placed, B unplaced, C placed *)
Definition ex_cluster : cluster SL := [(0, [[mkE 0 2 2]])].
Definition ex_tasks : list (task SL) :=
  [stask 2 (mkTA 12 0 3 0) [mkSS 3 [(0, 1)]];
   stask 1 (mkTA 12 0 3 0) [mkSS 3 [(0, 2)]];
   stask 0 (mkTA 10 0 3 0) [mkSS 3 [(0, 1)]]].
Example ex_edf_run :
  schedule SL edf false false 0 ex_cluster ex_tasks = Ok [DPlace 0 0 0%nat 0; DPlace 2 0 0%nat 0; DUnplaced 1].
Proof. vm_compute. reflexivity. Qed.
Example ex_hyps : s_cok ex_cluster /\ s_tasks_ok ex_tasks /\ NoDup (map (@t_id SL) ex_tasks) /\ NoDup (map fst ex_cluster).
Proof.
  split; [repeat constructor; cbn; lia|]. split.
  - repeat constructor; cbn; try lia; intros [X|X]; try lia; destruct X.
  - split; repeat constructor; cbn; intuition lia.
Qed.
(* with enforcement at now = 8: A (deadline 10 < 8+3) is cancelled, the others are not *)
Example ex_edf_enforce :
  schedule SL edf true false 8 ex_cluster ex_tasks = Ok [DCancel 0; DPlace 2 0 0%nat 8; DUnplaced 1].
Proof. vm_compute. reflexivity. Qed.
(* the boundary: deadline = now + fastest is NOT hopeless *)
Example ex_edf_tight :
  schedule SL edf true false 7 ex_cluster ex_tasks = Ok [DPlace 0 0 0%nat 7; DPlace 2 0 0%nat 7; DUnplaced 1].
Proof. vm_compute. reflexivity. Qed.
