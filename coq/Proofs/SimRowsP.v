(* The rows the simulator machine emits (Model/SimRows.v) tell the truth about the run: every row
   of every accepted log is justified by the machine state at the call that wrote it. *)
From Coq Require Import ZArith Bool List Lia ZifyBool.
Import ListNotations.
From Verif Require Import Model.Val Gen.Src_Task Gen.Src_Event Model.Sim Model.SimRows
  Proofs.TaskP Proofs.SimP Proofs.SimP2 Proofs.SimP4.
Open Scope Z_scope.

(* ------------------------------------------------------------------ inversion of the three task calls that write rows *)
Lemma step_release_inv W s t time s' :
  sim_step W s (ERelease t time) = Some s' ->
  exists x dy u, s_tasks s t = Some x /\ time = s_clock s /\ task_release (t_dyn x) (Some time) = Ok (dy, u) /\
                 s_tasks s' t = Some (set_dyn x dy) /\ s_clock s' = s_clock s.
Proof.
  cbn [sim_step]. intros H. destruct (s_tasks s t) as [x|] eqn:Hx; [|discriminate].
  destruct (cur_is s TASK_RELEASE (Some t) && (time =? s_clock s)) eqn:G; [|discriminate].
  destruct (task_release (t_dyn x) (Some time)) as [[dy u]|c] eqn:R; [|discriminate]. injection H as <-.
  exists x, dy, u. cbn [s_tasks with_tasks s_clock]. rewrite upd_same. repeat split; auto. lia.
Qed.

Lemma step_start_inv W s t time draw s' :
  sim_step W s (EStart t time draw) = Some s' ->
  exists x dy u, s_tasks s t = Some x /\ time = s_clock s /\ resident (s_res s) t = true /\
                 task_start (t_dyn x) (Some time) draw = Ok (dy, u) /\
                 s_tasks s' t = Some (mkT dy (t_info x) (t_runtime x) (t_ptime x) draw (t_starts x + 1) (t_finishes x)) /\
                 s_clock s' = s_clock s /\ s_res s' = s_res s /\ t_runtime x <= draw.
Proof.
  cbn [sim_step]. intros H. destruct (s_tasks s t) as [x|] eqn:Hx; [|discriminate].
  match type of H with (if ?c then _ else _) = _ => destruct c eqn:G; [|discriminate] end.
  destruct (task_start (t_dyn x) (Some time) draw) as [[dy u]|c] eqn:R; [|discriminate]. injection H as <-.
  exists x, dy, u. cbn [s_tasks with_tasks s_clock s_res]. rewrite upd_same. repeat split; auto; lia.
Qed.

Lemma step_finish_inv W s t s' :
  sim_step W s (EFinish t) = Some s' ->
  exists x dy u, s_tasks s t = Some x /\ task_finish (t_dyn x) None = Ok (dy, u) /\
                 s_tasks s' t = Some (mkT dy (t_info x) (t_runtime x) (t_ptime x) (t_drawn x) (t_starts x) (t_finishes x + 1)) /\
                 s_clock s' = s_clock s /\ s_fin s' = s_fin s + 1.
Proof.
  cbn [sim_step]. intros H. destruct (s_tasks s t) as [x|] eqn:Hx; [|discriminate].
  match type of H with (if ?c then _ else _) = _ => destruct c eqn:G; [|discriminate] end.
  destruct (task_finish (t_dyn x) None) as [[dy u]|c] eqn:R; [|discriminate]. injection H as <-.
  exists x, dy, u. cbn [s_tasks s_clock s_fin]. rewrite upd_same. repeat split; auto.
Qed.

(* ------------------------------------------------------------------ what each row claims, as a fact about the machine *)
Definition row_true (W : world) (s s' : sim) (r : row) : Prop :=
  match r with
  | RUtil time p res alloc avail =>
      exists ws, alloc = pool_used (s_res s) ws res /\ alloc + avail = pool_cap W ws res /\ 0 <= alloc /\ 0 <= avail
  | RRelease time t release deadline =>
      time = s_clock s /\ release = time /\
      exists x, s_tasks s' t = Some x /\ t_release_time (t_dyn x) = release /\ t_deadline (t_dyn x) = deadline
  | RPlacement time t runtime req =>
      time = s_clock s /\
      exists x w, s_tasks s' t = Some x /\ st x = TS_RUNNING /\ t_start_time (t_dyn x) = time /\ t_runtime x = runtime /\
                  runtime <= t_drawn x /\ In (t, w, req) (s_res s')
  | RFinished time t completion deadline =>
      time = s_clock s /\ completion = time /\
      exists x, s_tasks s' t = Some x /\ done_state (st x) /\ t_completion_time (t_dyn x) = completion /\
                t_deadline (t_dyn x) = deadline /\
                (st x = TS_COMPLETED -> completion = t_start_time (t_dyn x) + t_drawn x)
  | RMissed time t deadline =>
      time = s_clock s /\
      exists x, s_tasks s' t = Some x /\ done_state (st x) /\ t_deadline (t_dyn x) = deadline /\
                deadline < t_completion_time (t_dyn x)
  | RCancel time t => time = s_clock s
  | REnd time fin canc missed => time = s_clock s /\ fin = s_fin s /\ canc = s_canc s
  end.

Lemma used_nonneg res w r : (forall e, In e res -> forall r, 0 <= qty (snd e) r) -> 0 <= used res w r.
Proof.
  induction res as [|[[t w'] req] rest IH]; cbn [used]; intros H; [lia|].
  assert (0 <= qty req r) by (apply (H (t, w', req)); left; reflexivity).
  assert (0 <= used rest w r) by (apply IH; intros e He; apply H; right; exact He).
  destruct (w' =? w); lia.
Qed.

Lemma pool_used_bounds W s ws r : Inv W s -> 0 <= pool_used (s_res s) ws r <= pool_cap W ws r.
Proof.
  intros I. induction ws as [|w rest IH]; cbn [pool_used pool_cap]; [lia|].
  pose proof (inv_cap W s I w r). pose proof (used_nonneg (s_res s) w r (inv_req W s I)). lia.
Qed.

Lemma req_of_In res t : resident res t = true -> exists w, In (t, w, req_of res t) res.
Proof.
  induction res as [|[[u w] q] rest IH]; cbn [resident existsb req_of fst snd]; intros H; [discriminate|].
  destruct (u =? t) eqn:E.
  - assert (u = t) as -> by lia. exists w. left. reflexivity.
  - cbn in H. destruct (IH H) as [w' Hw]. exists w'. right. exact Hw.
Qed.

Lemma util_rows_true W L s s' time : Inv W s -> forall r, In r (util_rows W L s time) -> row_true W s s' r.
Proof.
  intros I r Hr. unfold util_rows in Hr. apply in_flat_map in Hr. destruct Hr as [[[p ws] rs] [_ Hr]].
  unfold util_pool in Hr. cbn [fst snd] in Hr. apply in_map_iff in Hr. destruct Hr as [res [<- _]].
  cbn [row_true]. exists ws. pose proof (pool_used_bounds W s ws res I). repeat split; lia.
Qed.

(* every row written at an accepted call is true of the machine state at that call *)
Theorem rows_ev_true W L m s s' e :
  Inv W s -> sim_step W s e = Some s' -> forall r, In r (rows_ev W L m s s' e) -> row_true W s s' r.
Proof.
  intros I H r Hr. destruct e; cbn [rows_ev] in Hr; try contradiction.
  - (* EHandle *)
    pose proof (events_handled_at_their_time W s ty time t s' H) as Ht.
    destruct (event_type_eqb ty SCHEDULER_START || event_type_eqb ty LOG_UTILIZATION).
    { apply util_rows_true with (L := L) (time := time); assumption. }
    destruct (event_type_eqb ty TASK_CANCEL).
    { destruct Hr as [<-|[]]. cbn [row_true]. exact Ht. }
    destruct (event_type_eqb ty SIMULATOR_END); [|contradiction].
    destruct Hr as [<-|[]]. cbn [row_true]. auto.
  - (* ERelease *)
    destruct (step_release_inv W s t time s' H) as [x [dy [u [Hx [Ht [R [Hx' Hc]]]]]]].
    rewrite Hx' in Hr. destruct Hr as [<-|[]]. cbn [row_true set_dyn t_dyn].
    destruct (release_spec _ _ _ _ R) as [_ [Rt [_ [_ [_ [_ Rd]]]]]].
    split; [reflexivity|]. split; [lia|]. exists (set_dyn x dy). cbn [set_dyn t_dyn]. auto.
  - (* EStart *)
    destruct (step_start_inv W s t time draw s' H) as [x [dy [u [Hx [Ht [Hres [R [Hx' [Hc [Hr' Hd]]]]]]]]]].
    rewrite Hx' in Hr. destruct Hr as [<-|[]]. cbn [row_true t_runtime].
    destruct (start_spec _ _ _ _ _ R) as [_ [S1 [S2 _]]].
    split; [reflexivity|]. destruct (req_of_In _ _ Hres) as [w Hw].
    exists (mkT dy (t_info x) (t_runtime x) (t_ptime x) draw (t_starts x + 1) (t_finishes x)), w.
    split; [exact Hx'|]. unfold st. cbn [t_dyn t_runtime t_drawn]. rewrite Hr'. repeat split; auto; lia.
  - (* EFinish *)
    destruct (step_finish_inv W s t s' H) as [x [dy [u [Hx [R [Hx' [Hc Hf]]]]]]].
    rewrite Hx' in Hr. cbn [t_dyn] in Hr.
    destruct (finish_spec _ _ _ R) as [F0 [F1 [F2 [F3 [F4 [F5 [F6 [F7 F8]]]]]]]].
    pose proof (inv_tasks W s I t x Hx) as T. destruct T as [T1 T2 T3 T4 T5 T6]. unfold st in *.
    assert (Run : t_state (t_dyn x) = TS_RUNNING) by (destruct F0 as [A|A]; [exact A|contradiction]).
    destruct (T5 Run) as [_ [_ [R0 [_ [_ [_ [_ [R1 R2]]]]]]]].
    assert (Hlast : t_last_step_time (t_dyn x) = s_clock s).
    { destruct (Z.eq_dec (t_remaining_time (t_dyn x)) 0) as [Z0|Z0]; [apply R2 in Z0; lia|apply R1; lia]. }
    assert (Hdone : done_state (t_state dy)) by (unfold done_state; destruct F1 as [[_ A]|[_ A]]; auto).
    assert (Hexact : t_state dy = TS_COMPLETED -> t_completion_time dy = t_start_time dy + t_drawn x).
    { intros C. destruct F1 as [[Z0 _]|[_ A]]; [|congruence]. apply R2 in Z0. lia. }
    destruct Hr as [<-|Hr].
    + cbn [row_true]. split; [reflexivity|]. split; [lia|].
      exists (mkT dy (t_info x) (t_runtime x) (t_ptime x) (t_drawn x) (t_starts x) (t_finishes x + 1)). split; [exact Hx'|].
      unfold st. cbn [t_dyn t_drawn]. repeat split; auto.
    + destruct (t_deadline dy <? s_clock s) eqn:Late; [|contradiction]. destruct Hr as [<-|[]].
      cbn [row_true]. split; [reflexivity|].
      exists (mkT dy (t_info x) (t_runtime x) (t_ptime x) (t_drawn x) (t_starts x) (t_finishes x + 1)). split; [exact Hx'|].
      unfold st. cbn [t_dyn]. repeat split; auto. lia.
Qed.

(* a MISSED_DEADLINE row is written at a completion exactly when the completion is later than the deadline *)
Theorem missed_row_iff_late W L m s s' t :
  Inv W s -> sim_step W s (EFinish t) = Some s' ->
  exists x, s_tasks s' t = Some x /\ t_completion_time (t_dyn x) = s_clock s /\
    (t_deadline (t_dyn x) < t_completion_time (t_dyn x) <->
       In (RMissed (s_clock s) t (t_deadline (t_dyn x))) (rows_ev W L m s s' (EFinish t))) /\
    (t_completion_time (t_dyn x) <= t_deadline (t_dyn x) -> count_rows is_missed (rows_ev W L m s s' (EFinish t)) = 0) /\
    count_rows is_finished (rows_ev W L m s s' (EFinish t)) = 1.
Proof.
  intros I H. destruct (step_finish_inv W s t s' H) as [x [dy [u [Hx [R [Hx' [Hc Hf]]]]]]].
  destruct (finish_spec _ _ _ R) as [F0 [F1 [F2 _]]].
  pose proof (inv_tasks W s I t x Hx) as T. destruct T as [T1 T2 T3 T4 T5 T6]. unfold st in *.
  assert (Run : t_state (t_dyn x) = TS_RUNNING) by (destruct F0 as [A|A]; [exact A|contradiction]).
  destruct (T5 Run) as [_ [_ [R0 [_ [_ [_ [_ [R1 R2]]]]]]]].
  assert (Hlast : t_last_step_time (t_dyn x) = s_clock s).
  { destruct (Z.eq_dec (t_remaining_time (t_dyn x)) 0) as [Z0|Z0]; [apply R2 in Z0; lia|apply R1; lia]. }
  eexists. split; [exact Hx'|]. cbn [t_dyn rows_ev]. rewrite Hx'. cbn [t_dyn]. split; [lia|].
  destruct (t_deadline dy <? s_clock s) eqn:Late; cbn [count_rows is_missed is_finished In].
  - split; [split; [intros _; right; left; reflexivity|intros _; lia]|]. split; [intros; lia|lia].
  - split; [split; [intros; lia|intros [Q|[]]; discriminate Q]|]. split; [intros; lia|lia].
Qed.

(* ------------------------------------------------------------------ the end-of-run summary counts the rows written before it *)
Definition is_late (r : row) : Z :=
  match r with RFinished _ _ completion deadline => if deadline <? completion then 1 else 0 | _ => 0 end.

Fixpoint end_ok (fm : row -> Z) (f c m : Z) (rr : list row) : Prop :=
  match rr with
  | [] => True
  | r :: rest =>
      match r with REnd _ f' c' m' => f' = f /\ c' = c /\ m' = m | _ => True end /\
      end_ok fm (f + is_finished r) (c + is_cancel r) (m + fm r) rest
  end.

Lemma count_rows_app f a b : count_rows f (a ++ b) = count_rows f a + count_rows f b.
Proof. induction a as [|r a IH]; cbn [count_rows app]; lia. Qed.

Lemma end_ok_app fm a : forall f c m b,
  end_ok fm f c m a ->
  end_ok fm (f + count_rows is_finished a) (c + count_rows is_cancel a) (m + count_rows fm a) b ->
  end_ok fm f c m (a ++ b).
Proof.
  induction a as [|r a IH]; cbn [app end_ok count_rows]; intros f c m b Ha Hb.
  - replace (f + 0) with f in Hb by lia. replace (c + 0) with c in Hb by lia. replace (m + 0) with m in Hb by lia. exact Hb.
  - destruct Ha as [A B]. split; [exact A|]. apply IH; [exact B|].
    replace (f + is_finished r + count_rows is_finished a) with (f + (is_finished r + count_rows is_finished a)) by lia.
    replace (c + is_cancel r + count_rows is_cancel a) with (c + (is_cancel r + count_rows is_cancel a)) by lia.
    replace (m + fm r + count_rows fm a) with (m + (fm r + count_rows fm a)) by lia. exact Hb.
Qed.

Lemma util_rows_count f W L s time : (forall a b c d e, f (RUtil a b c d e) = 0) -> count_rows f (util_rows W L s time) = 0.
Proof.
  intros Hf. unfold util_rows. induction L as [|p L IH]; cbn [flat_map]; [reflexivity|].
  rewrite count_rows_app, IH. unfold util_pool. induction (snd p) as [|r rs IHr]; cbn [map count_rows]; [lia|]. rewrite Hf. lia.
Qed.

Lemma util_rows_end_ok fm W L s time f c m : (forall a b c d e, fm (RUtil a b c d e) = 0) -> end_ok fm f c m (util_rows W L s time).
Proof.
  intros Hf. unfold util_rows. revert f c m. induction L as [|p L IH]; cbn [flat_map]; intros f c m; [exact Logic.I|].
  apply end_ok_app.
  - unfold util_pool. revert f c m. induction (snd p) as [|r rs IHr]; cbn [map end_ok]; intros f c m; [exact Logic.I|].
    split; [exact Logic.I|]. cbn [is_finished is_cancel]. rewrite Hf. replace (f + 0) with f by lia. replace (c + 0) with c by lia.
    replace (m + 0) with m by lia. apply IHr.
  - apply IH.
Qed.

(* per call: the rows written account exactly for the change of the simulator's counters *)
Lemma rows_ev_counts W L m s s' e :
  Inv W s -> sim_step W s e = Some s' ->
  let rs := rows_ev W L m s s' e in
  s_fin s' = s_fin s + count_rows is_finished rs /\ s_canc s' = s_canc s + count_rows is_cancel rs /\
  count_rows is_missed rs = count_rows is_late rs /\
  end_ok is_missed (s_fin s) (s_canc s) m rs /\ end_ok is_late (s_fin s) (s_canc s) m rs.
Proof.
  intros I H. destruct (step_counters W s e s' H) as [Cf Cc]. cbn zeta.
  destruct e; cbn [rows_ev fin_inc canc_inc] in *; cbn [count_rows end_ok]; try (repeat split; auto; lia).
  - (* EHandle *)
    destruct (event_type_eqb ty SCHEDULER_START || event_type_eqb ty LOG_UTILIZATION) eqn:U.
    { rewrite !util_rows_count by reflexivity.
      assert (event_type_eqb ty TASK_CANCEL = false) as Z0 by (destruct ty; cbn in U |- *; try reflexivity; discriminate U).
      rewrite Z0 in Cc. repeat split; try lia; apply util_rows_end_ok; reflexivity. }
    destruct (event_type_eqb ty TASK_CANCEL) eqn:C; cbn [count_rows is_finished is_cancel is_missed is_late end_ok].
    { repeat split; auto; lia. }
    destruct (event_type_eqb ty SIMULATOR_END); cbn [count_rows is_finished is_cancel is_missed is_late end_ok]; repeat split; auto; lia.
  - (* ERelease *)
    destruct (s_tasks s' t); cbn [count_rows is_finished is_cancel is_missed is_late end_ok]; repeat split; auto; lia.
  - (* EStart *)
    destruct (s_tasks s' t); cbn [count_rows is_finished is_cancel is_missed is_late end_ok]; repeat split; auto; lia.
  - (* EFinish *)
    destruct (step_finish_inv W s t s' H) as [x [dy [u [Hx [R [Hx' [Hc Hf]]]]]]].
    destruct (missed_row_iff_late W L m s s' t I H) as [x' [Hx2 [Hcomp _]]]. rewrite Hx' in Hx2. injection Hx2 as <-. cbn [t_dyn] in Hcomp.
    rewrite Hx'. cbn [t_dyn]. rewrite Hcomp.
    destruct (t_deadline dy <? s_clock s) eqn:Late; cbn [count_rows is_finished is_cancel is_missed is_late end_ok];
      rewrite ?Late; repeat split; auto; lia.
Qed.

Theorem rows_run_end_ok W L l : forall s m rr,
  Inv W s -> rows_run W L s m l = Some rr ->
  end_ok is_missed (s_fin s) (s_canc s) m rr /\ end_ok is_late (s_fin s) (s_canc s) m rr /\
  count_rows is_missed rr = count_rows is_late rr.
Proof.
  induction l as [|e rest IH]; cbn [rows_run]; intros s m rr I H.
  - injection H as <-. cbn. auto.
  - destruct (sim_step W s e) as [s1|] eqn:E; [|discriminate].
    destruct (rows_run W L s1 (m + count_rows is_missed (rows_ev W L m s s1 e)) rest) as [rr1|] eqn:R; [|discriminate].
    injection H as <-.
    destruct (rows_ev_counts W L m s s1 e I E) as [A [B [C [D1 D2]]]].
    destruct (IH s1 _ rr1 (step_preserves_inv W s e s1 I E) R) as [J1 [J2 J3]].
    rewrite A, B in J1, J2. rewrite !count_rows_app. split; [|split; [|lia]].
    + apply end_ok_app; assumption.
    + apply end_ok_app; [assumption|]. rewrite <- C. assumption.
Qed.

(* whole traces: the SIMULATOR_END row reports exactly the number of TASK_FINISHED rows, of TASK_CANCEL rows and of
   MISSED_DEADLINE rows written before it, and the latter is the number of completions later than their deadline *)
Theorem rows_of_end_ok W L l rr :
  cap_nonneg W -> rows_of W L l = Some rr ->
  end_ok is_missed 0 0 0 rr /\ end_ok is_late 0 0 0 rr /\ count_rows is_missed rr = count_rows is_late rr.
Proof.
  intros HW H. unfold rows_of in H. destruct (rows_run W L sim_init 0 l) as [r1|] eqn:R; [|discriminate]. injection H as <-.
  destruct (rows_run_end_ok W L l sim_init 0 r1 (inv_init W HW) R) as [A [B C]]. cbn [sim_init s_fin s_canc] in A, B.
  rewrite !count_rows_app, !util_rows_count by reflexivity. split; [|split; [|lia]].
  - apply end_ok_app; [apply util_rows_end_ok; reflexivity|]. rewrite !util_rows_count by reflexivity. exact A.
  - apply end_ok_app; [apply util_rows_end_ok; reflexivity|]. rewrite !util_rows_count by reflexivity. exact B.
Qed.

(* every row of every accepted trace is written at some call of the run and is true of the machine state there *)
Theorem rows_run_true W L l : forall s m rr,
  Inv W s -> rows_run W L s m l = Some rr ->
  forall r, In r rr -> exists l1 e l2 s1 s2 m1, l = l1 ++ e :: l2 /\ sim_exec W s l1 = Some s1 /\ sim_step W s1 e = Some s2 /\
                                        In r (rows_ev W L m1 s1 s2 e) /\ Inv W s1 /\ row_true W s1 s2 r.
Proof.
  induction l as [|e rest IH]; cbn [rows_run]; intros s m rr I H r Hr.
  - injection H as <-. contradiction.
  - destruct (sim_step W s e) as [s1|] eqn:E; [|discriminate].
    destruct (rows_run W L s1 (m + count_rows is_missed (rows_ev W L m s s1 e)) rest) as [rr1|] eqn:R; [|discriminate].
    injection H as <-. apply in_app_or in Hr. destruct Hr as [Hr|Hr].
    + exists [], e, rest, s, s1, m. cbn [app sim_exec]. split; [reflexivity|]. split; [reflexivity|]. split; [exact E|].
      split; [exact Hr|]. split; [exact I|]. eapply rows_ev_true; eassumption.
    + destruct (IH s1 _ rr1 (step_preserves_inv W s e s1 I E) R r Hr) as [l1 [e' [l2 [sa [sb [m1 [Q1 [Q2 Q3]]]]]]]].
      exists (e :: l1), e', l2, sa, sb, m1. cbn [app sim_exec]. rewrite E, Q1. split; [reflexivity|]. split; [exact Q2|exact Q3].
Qed.

(* one TASK_FINISHED row per completion: the rows about task u are as many as its Task.finish calls (at most one) *)
Definition is_finished_of (u : Z) (r : row) : Z := match r with RFinished _ t _ _ => if t =? u then 1 else 0 | _ => 0 end.
Definition is_missed_of (u : Z) (r : row) : Z := match r with RMissed _ t _ => if t =? u then 1 else 0 | _ => 0 end.

Lemma rows_ev_finished_of W L m s s' e u :
  sim_step W s e = Some s' ->
  count_rows (is_finished_of u) (rows_ev W L m s s' e) = finish_inc e u /\
  0 <= count_rows (is_missed_of u) (rows_ev W L m s s' e) <= finish_inc e u.
Proof.
  intros H. destruct e; cbn [rows_ev finish_inc]; cbn [count_rows]; try lia.
  - destruct (event_type_eqb ty SCHEDULER_START || event_type_eqb ty LOG_UTILIZATION).
    { rewrite !util_rows_count by reflexivity. lia. }
    destruct (event_type_eqb ty TASK_CANCEL); cbn [count_rows is_finished_of is_missed_of]; [lia|].
    destruct (event_type_eqb ty SIMULATOR_END); cbn [count_rows is_finished_of is_missed_of]; lia.
  - destruct (s_tasks s' t); cbn [count_rows is_finished_of is_missed_of]; lia.
  - destruct (s_tasks s' t); cbn [count_rows is_finished_of is_missed_of]; lia.
  - destruct (step_finish_inv W s t s' H) as [x [dy [v [Hx [R [Hx' _]]]]]]. rewrite Hx'. cbn [t_dyn].
    destruct (t_deadline dy <? s_clock s); cbn [count_rows is_finished_of is_missed_of]; destruct (t =? u); lia.
Qed.

Theorem rows_run_finished_of W L l u : forall s m rr,
  rows_run W L s m l = Some rr ->
  count_rows (is_finished_of u) rr = count_finishes l u /\ 0 <= count_rows (is_missed_of u) rr <= count_finishes l u.
Proof.
  induction l as [|e rest IH]; cbn [rows_run count_finishes]; intros s m rr H.
  - injection H as <-. cbn. lia.
  - destruct (sim_step W s e) as [s1|] eqn:E; [|discriminate].
    destruct (rows_run W L s1 (m + count_rows is_missed (rows_ev W L m s s1 e)) rest) as [rr1|] eqn:R; [|discriminate].
    injection H as <-. rewrite !count_rows_app. destruct (rows_ev_finished_of W L m s s1 e u E). destruct (IH s1 _ rr1 R). lia.
Qed.

Theorem rows_of_one_finish_row_per_task W L l rr u s :
  cap_nonneg W -> rows_of W L l = Some rr -> sim_exec W sim_init l = Some s ->
  count_rows (is_finished_of u) rr = count_finishes l u /\
  (count_rows (is_finished_of u) rr = 0 \/ count_rows (is_finished_of u) rr = 1) /\
  0 <= count_rows (is_missed_of u) rr <= count_rows (is_finished_of u) rr.
Proof.
  intros HW H Hs. unfold rows_of in H. destruct (rows_run W L sim_init 0 l) as [r1|] eqn:R; [|discriminate]. injection H as <-.
  destruct (rows_run_finished_of W L l u sim_init 0 r1 R) as [A B].
  rewrite !count_rows_app, !util_rows_count by reflexivity.
  destruct (at_most_one_start_and_finish W l s u HW Hs) as [_ F]. lia.
Qed.

(* the machine accepts a log exactly when it emits rows for it *)
Lemma rows_run_iff_exec W L l : forall s m, (exists rr, rows_run W L s m l = Some rr) <-> (exists s', sim_exec W s l = Some s').
Proof.
  induction l as [|e rest IH]; cbn [rows_run sim_exec]; intros s m.
  - split; eauto.
  - destruct (sim_step W s e) as [s1|]; [|split; intros [? Q]; discriminate Q].
    rewrite <- (IH s1 (m + count_rows is_missed (rows_ev W L m s s1 e))).
    destruct (rows_run W L s1 (m + count_rows is_missed (rows_ev W L m s s1 e)) rest); split; intros [? Q]; eauto; discriminate Q.
Qed.

(* non-vacuity: a run with a task that completes one microsecond late writes the MISSED_DEADLINE row and counts it *)
Definition ex_world : world := mkWorld (fun _ _ => 1) 0.
Definition ex_log : list ev :=
  [EGraph [(0, mkTI [] false, 0, 2)];
   EHandle TASK_RELEASE 0 (Some 0); ERelease 0 0; EHandled;
   EHandle SCHEDULER_FINISHED 0 None; ESchedule 0 0 0 3; EHandled;
   EHandle TASK_PLACEMENT 0 (Some 0); EPlace 0 0 [(0, 1)]; EStart 0 0 3; EHandled;
   EStep 3 10;
   EHandle TASK_FINISHED 3 (Some 0); ERemove 0 0; EFinish 0; EHandled;
   EStep 7 10;
   EHandle SIMULATOR_END 10 None].
Example rows_example :
  rows_of ex_world [(0, [0], [0])] ex_log =
  Some [RUtil 0 0 0 0 1; RRelease 0 0 0 2; RPlacement 0 0 3 [(0, 1)]; RFinished 3 0 3 2; RMissed 3 0 2; REnd 10 1 0 1].
Proof. vm_compute. reflexivity. Qed.
