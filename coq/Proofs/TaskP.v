(* Characterising lemmas for the Task operations translated from workload/tasks.py
   (Gen/Src_Task.v), and the local half of C06: every operation either fails, leaving the
   task as it was, or moves along an edge of the documented lifecycle. *)
From Coq Require Import ZArith Bool List Lia ZifyBool.
Import ListNotations.
From Verif Require Import Model.Val Gen.Src_Task.
Open Scope Z_scope.

Ltac task_cases d :=
  destruct d as [st pre rel sta com rem las can dl]; destruct st; cbn in *.

Ltac crush_ifs :=
  repeat match goal with
         | H : context [if ?c then _ else _] |- _ => destruct c eqn:?; cbn in H
         | |- context [if ?c then _ else _] => destruct c eqn:?; cbn
         end.

(* the documented lifecycle *)
Inductive legal_edge : task_state -> task_state -> Prop :=
| LE_release : legal_edge TS_VIRTUAL TS_RELEASED
| LE_schedule_v : legal_edge TS_VIRTUAL TS_SCHEDULED          (* scheduled ahead of its release *)
| LE_schedule_r : legal_edge TS_RELEASED TS_SCHEDULED
| LE_unschedule_v : legal_edge TS_SCHEDULED TS_VIRTUAL        (* plan skipped or retracted *)
| LE_unschedule_r : legal_edge TS_SCHEDULED TS_RELEASED
| LE_start : legal_edge TS_SCHEDULED TS_RUNNING
| LE_complete : legal_edge TS_RUNNING TS_COMPLETED
| LE_evict : legal_edge TS_RUNNING TS_EVICTED
| LE_preempt : legal_edge TS_RUNNING TS_PREEMPTED
| LE_resume : legal_edge TS_PREEMPTED TS_RUNNING
| LE_resched_p : legal_edge TS_PREEMPTED TS_SCHEDULED
| LE_evict_p : legal_edge TS_PREEMPTED TS_EVICTED
| LE_complete_p : legal_edge TS_PREEMPTED TS_COMPLETED
| LE_cancel_v : legal_edge TS_VIRTUAL TS_CANCELLED
| LE_cancel_r : legal_edge TS_RELEASED TS_CANCELLED
| LE_cancel_s : legal_edge TS_SCHEDULED TS_CANCELLED.

Definition final_state (s : task_state) : Prop := s = TS_COMPLETED \/ s = TS_CANCELLED \/ s = TS_EVICTED.

Definition pre_ok (d : task_dyn) : Prop :=
  t_pre_scheduling_state d = TS_VIRTUAL \/ t_pre_scheduling_state d = TS_RELEASED.

Lemma legal_from_final a b : final_state a -> legal_edge a b -> False.
Proof. intros [H|[H|H]] E; subst; inversion E. Qed.

Lemma release_spec d time d' u :
  task_release d (Some time) = Ok (d', u) ->
  (t_state d = TS_VIRTUAL /\ t_state d' = TS_RELEASED /\ t_pre_scheduling_state d' = TS_RELEASED
   \/ (t_state d = TS_SCHEDULED \/ t_state d = TS_PREEMPTED) /\ t_state d' = t_state d /\ t_pre_scheduling_state d' = t_pre_scheduling_state d)
  /\ t_release_time d' = time /\ t_start_time d' = t_start_time d /\ t_completion_time d' = t_completion_time d
  /\ t_remaining_time d' = t_remaining_time d /\ t_last_step_time d' = t_last_step_time d /\ t_deadline d' = t_deadline d.
Proof.
  unfold task_release. task_cases d; intros H; try discriminate; crush_ifs; inversion H; subst; cbn;
    repeat split; auto.
Qed.

Lemma schedule_spec d time runtime d' u :
  task_schedule d time runtime = Ok (d', u) ->
  (t_state d = TS_VIRTUAL \/ t_state d = TS_RELEASED \/ t_state d = TS_PREEMPTED \/ t_state d = TS_SCHEDULED)
  /\ t_state d' = TS_SCHEDULED /\ t_pre_scheduling_state d' = t_pre_scheduling_state d
  /\ t_remaining_time d' = runtime /\ 0 <= runtime
  /\ t_release_time d' = t_release_time d /\ t_start_time d' = t_start_time d /\ t_completion_time d' = t_completion_time d
  /\ t_last_step_time d' = t_last_step_time d /\ t_deadline d' = t_deadline d.
Proof.
  unfold task_schedule, task_update_remaining_time, bind, task_is_complete. task_cases d; intros H; try discriminate;
    crush_ifs; try discriminate; inversion H; subst; cbn; repeat split; auto; lia.
Qed.

Lemma unschedule_spec d time d' u :
  task_unschedule d time = Ok (d', u) ->
  t_state d = TS_SCHEDULED /\ t_state d' = t_pre_scheduling_state d /\ t_pre_scheduling_state d' = t_pre_scheduling_state d
  /\ t_release_time d' = t_release_time d /\ t_start_time d' = t_start_time d /\ t_completion_time d' = t_completion_time d
  /\ t_remaining_time d' = t_remaining_time d /\ t_last_step_time d' = t_last_step_time d /\ t_deadline d' = t_deadline d.
Proof.
  unfold task_unschedule. task_cases d; intros H; try discriminate; inversion H; subst; cbn; repeat split; auto.
Qed.

Lemma start_spec d time draw d' u :
  task_start d (Some time) draw = Ok (d', u) ->
  t_state d = TS_SCHEDULED /\ t_state d' = TS_RUNNING /\ t_start_time d' = time /\ t_last_step_time d' = time
  /\ t_remaining_time d' = draw /\ 0 <= draw /\ t_release_time d' = t_release_time d /\ t_release_time d <= time
  /\ t_completion_time d' = t_completion_time d /\ t_pre_scheduling_state d' = t_pre_scheduling_state d
  /\ t_deadline d' = t_deadline d.
Proof.
  unfold task_start, task_update_remaining_time, bind, task_is_complete. task_cases d; intros H; try discriminate;
    crush_ifs; try discriminate; inversion H; subst; cbn; repeat split; auto; lia.
Qed.

Lemma finish_spec d d' u :
  task_finish d None = Ok (d', u) ->
  (t_state d = TS_RUNNING \/ t_state d = TS_PREEMPTED)
  /\ (t_remaining_time d = 0 /\ t_state d' = TS_COMPLETED \/ t_remaining_time d <> 0 /\ t_state d' = TS_EVICTED)
  /\ t_completion_time d' = t_last_step_time d /\ t_start_time d' = t_start_time d /\ t_release_time d' = t_release_time d
  /\ t_remaining_time d' = t_remaining_time d /\ t_last_step_time d' = t_last_step_time d
  /\ t_pre_scheduling_state d' = t_pre_scheduling_state d /\ t_deadline d' = t_deadline d.
Proof.
  unfold task_finish. task_cases d; intros H; try discriminate; crush_ifs; inversion H; subst; cbn;
    repeat split; auto; try lia; (left; split; [lia|reflexivity]) || (right; split; [lia|reflexivity]).
Qed.

Lemma cancel_spec d time d' u :
  task_cancel d time = Ok (d', u) ->
  (t_state d = TS_VIRTUAL \/ t_state d = TS_RELEASED \/ t_state d = TS_SCHEDULED)
  /\ t_state d' = TS_CANCELLED /\ t_remaining_time d' = 0 /\ t_cancellation_time d' = time
  /\ t_start_time d' = t_start_time d /\ t_release_time d' = t_release_time d /\ t_completion_time d' = t_completion_time d
  /\ t_last_step_time d' = t_last_step_time d /\ t_pre_scheduling_state d' = t_pre_scheduling_state d
  /\ t_deadline d' = t_deadline d.
Proof.
  unfold task_cancel, task_update_remaining_time, bind, task_is_complete. task_cases d; intros H; try discriminate;
    crush_ifs; try discriminate; inversion H; subst; cbn; repeat split; auto.
Qed.

(* Task.step: changes nothing but the remaining time and the last step time of a RUNNING task *)
Lemma step_spec d now sz d' b :
  task_step d now sz = Ok (d', b) ->
  t_state d' = t_state d /\ t_pre_scheduling_state d' = t_pre_scheduling_state d /\ t_release_time d' = t_release_time d
  /\ t_start_time d' = t_start_time d /\ t_completion_time d' = t_completion_time d /\ t_deadline d' = t_deadline d
  /\ (t_state d <> TS_RUNNING -> d' = d)
  /\ (t_state d = TS_RUNNING -> t_remaining_time d = 0 -> d' = d)
  /\ (t_state d = TS_RUNNING -> t_start_time d <= now + sz -> t_remaining_time d <> 0 ->
      let ex := now + sz - t_last_step_time d in
      (t_remaining_time d - ex <= 0 /\ t_remaining_time d' = 0 /\ t_last_step_time d' = now + t_remaining_time d /\ b = true)
      \/ (0 < t_remaining_time d - ex /\ t_remaining_time d' = t_remaining_time d - ex /\ t_last_step_time d' = now + sz /\ b = false)).
Proof.
  unfold task_step. task_cases d; intros H; crush_ifs; inversion H; subst; cbn;
    repeat split; auto; try congruence; try lia; intros; try lia; try congruence.
  all: try (left; repeat split; auto; lia).
  all: try (right; repeat split; auto; lia).
Qed.

(* ---- C06, local half *)
Theorem ops_follow_lifecycle :
  (forall d time d' u, task_release d (Some time) = Ok (d', u) -> pre_ok d -> (t_state d' = t_state d \/ legal_edge (t_state d) (t_state d')) /\ pre_ok d') /\
  (forall d time rt d' u, task_schedule d time rt = Ok (d', u) -> pre_ok d -> (t_state d' = t_state d \/ legal_edge (t_state d) (t_state d')) /\ pre_ok d') /\
  (forall d time d' u, task_unschedule d time = Ok (d', u) -> pre_ok d -> legal_edge (t_state d) (t_state d') /\ pre_ok d') /\
  (forall d time draw d' u, task_start d (Some time) draw = Ok (d', u) -> pre_ok d -> legal_edge (t_state d) (t_state d') /\ pre_ok d') /\
  (forall d d' u, task_finish d None = Ok (d', u) -> pre_ok d -> legal_edge (t_state d) (t_state d') /\ pre_ok d') /\
  (forall d time d' u, task_cancel d time = Ok (d', u) -> pre_ok d -> legal_edge (t_state d) (t_state d') /\ pre_ok d') /\
  (forall d now sz d' b, task_step d now sz = Ok (d', b) -> t_state d' = t_state d).
Proof.
  unfold pre_ok. repeat split.
  - apply release_spec in H. destruct H as [[[A [B C]]|[A [B C]]] _]; rewrite ?A, ?B; auto. right; constructor.
  - apply release_spec in H. destruct H as [[[A [B C]]|[A [B C]]] _]; rewrite ?C; auto.
  - apply schedule_spec in H. destruct H as [A [B _]]. rewrite B.
    destruct A as [A|[A|[A|A]]]; rewrite A; auto; right; constructor.
  - apply schedule_spec in H. destruct H as [_ [_ [C _]]]. rewrite C; auto.
  - apply unschedule_spec in H. destruct H as [A [B _]]. rewrite A, B. destruct H0 as [E|E]; rewrite E; constructor.
  - apply unschedule_spec in H. destruct H as [_ [_ [C _]]]. rewrite C; auto.
  - apply start_spec in H. destruct H as [A [B _]]. rewrite A, B. constructor.
  - apply start_spec in H. destruct H as [_ [_ [_ [_ [_ [_ [_ [_ [_ [C _]]]]]]]]]]. rewrite C; auto.
  - apply finish_spec in H. destruct H as [A [B _]].
    destruct A as [A|A]; rewrite A; destruct B as [[_ B]|[_ B]]; rewrite B; constructor.
  - apply finish_spec in H. destruct H as [_ [_ [_ [_ [_ [_ [_ [C _]]]]]]]]. rewrite C; auto.
  - apply cancel_spec in H. destruct H as [A [B _]]. rewrite B. destruct A as [A|[A|A]]; rewrite A; constructor.
  - apply cancel_spec in H. destruct H as [_ [_ [_ [_ [_ [_ [_ [_ [C _]]]]]]]]]. rewrite C; auto.
  - intros. apply step_spec in H. tauto.
Qed.

(* a refused operation leaves no trace: the functions return no state with an error, and on
   the final states every state-changing operation is refused *)
Theorem final_states_absorbing :
  forall d, final_state (t_state d) ->
    (forall time, exists c, task_release d (Some time) = Err c) /\
    (forall time rt, exists c, task_schedule d time rt = Err c) /\
    (forall time, exists c, task_unschedule d time = Err c) /\
    (forall time draw, exists c, task_start d (Some time) draw = Err c) /\
    (exists c, task_finish d None = Err c) /\
    (forall time, exists c, task_cancel d time = Err c) /\
    (forall now sz, task_step d now sz = Ok (d, false)).
Proof.
  intros d [H|[H|H]]; task_cases d; try discriminate; repeat split; intros; eauto.
Qed.

(* cancellation is only possible before the task runs *)
Theorem cancel_only_before_running :
  forall d time d' u, task_cancel d time = Ok (d', u) ->
    t_state d = TS_VIRTUAL \/ t_state d = TS_RELEASED \/ t_state d = TS_SCHEDULED.
Proof. intros. apply cancel_spec in H. tauto. Qed.

Example lifecycle_nonvacuous :
  bind (task_release (task_init 5 100) (Some 5)) (fun r1 =>
  bind (task_schedule (fst r1) 6 10) (fun r2 =>
  bind (task_start (fst r2) (Some 7) 11) (fun r3 =>
  bind (task_step (fst r3) 7 11) (fun r4 =>
  bind (task_finish (fst r4) None) (fun r5 =>
  Ok (t_state (fst r5), t_completion_time (fst r5), snd r4))))))
  = Ok (TS_COMPLETED, 18, true).
Proof. vm_compute. reflexivity. Qed.

(* preemption and resumption (not exercised by the simulator machine, which has no preemption) *)
Theorem preempt_resume_follow_lifecycle :
  (forall d time d' u, task_preempt d time = Ok (d', u) -> t_state d = TS_RUNNING /\ t_state d' = TS_PREEMPTED /\
      t_remaining_time d' = t_remaining_time d /\ t_start_time d' = t_start_time d) /\
  (forall d time d' u, task_resume d time = Ok (d', u) -> t_state d = TS_PREEMPTED /\ t_state d' = TS_RUNNING /\
      t_remaining_time d' = t_remaining_time d /\ t_last_step_time d' = time).
Proof.
  split; intros d time d' u H.
  - unfold task_preempt in H. task_cases d; try discriminate; inversion H; subst; cbn; auto.
  - unfold task_resume in H. task_cases d; try discriminate; inversion H; subst; cbn; auto.
Qed.
