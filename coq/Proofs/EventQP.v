(* C16, second half: events come out of the queue in key order, for every history
   of pushes, removals, in-place re-timings and pops. *)
From Coq Require Import ZArith Bool List Lia ZifyBool Sorting.Sorted Permutation.
Import ListNotations.
From Verif Require Import Model.Val Gen.Src_Event Model.EventQ.
Open Scope Z_scope.

(* task presence is a function of the event type (the constructor demands a task for the
   task-carrying types; the simulator never attaches one to the others) *)
Definition uniform (c : event_type -> bool) (e : event) : Prop :=
  opt_is_some (ev_task e) = c (ev_type e).

Lemma event_type_value_inj a b : event_type_value a = event_type_value b -> a = b.
Proof. destruct a, b; cbn; intros H; try reflexivity; discriminate H. Qed.

(* Event.__lt__ as translated is the strict lexicographic order on (time, priority, name) *)
Lemma ev_ltb_key c a b : uniform c a -> uniform c b -> ev_ltb a b = key_ltb (key a) (key b).
Proof.
  unfold uniform, ev_ltb, key, key_ltb, event_type_eqb, event_type_ltb. intros Ha Hb.
  destruct (ev_time a =? ev_time b) eqn:Et.
  - destruct (event_type_value (ev_type a) =? event_type_value (ev_type b)) eqn:Ev.
    + assert (ev_type a = ev_type b) as Hty by (apply event_type_value_inj; lia).
      rewrite Hty in Ha. rewrite <- Hb in Ha.
      destruct (ev_task a) as [na|], (ev_task b) as [nb|]; cbn in *; try discriminate; lia.
    + cbn [andb]. lia.
  - lia.
Qed.

Lemma key_ltb_irrefl k : key_ltb k k = false.
Proof. destruct k as [[t v] n]. unfold key_ltb. lia. Qed.
Lemma key_ltb_trans a b c : key_ltb a b = true -> key_ltb b c = true -> key_ltb a c = true.
Proof. destruct a as [[? ?] ?], b as [[? ?] ?], c as [[? ?] ?]. unfold key_ltb. lia. Qed.
Lemma key_leb_trans a b c : key_leb a b = true -> key_leb b c = true -> key_leb a c = true.
Proof. destruct a as [[? ?] ?], b as [[? ?] ?], c as [[? ?] ?]. unfold key_leb, key_ltb. lia. Qed.
Lemma key_leb_total a b : key_leb a b = true \/ key_leb b a = true.
Proof. destruct a as [[? ?] ?], b as [[? ?] ?]. unfold key_leb, key_ltb. lia. Qed.
Lemma key_leb_refl a : key_leb a a = true.
Proof. unfold key_leb. rewrite key_ltb_irrefl. reflexivity. Qed.
Lemma key_ltb_leb a b : key_ltb a b = true -> key_leb a b = true.
Proof. destruct a as [[? ?] ?], b as [[? ?] ?]. unfold key_leb, key_ltb. lia. Qed.
Lemma key_nlt_leb a b : key_ltb a b = false -> key_leb b a = true.
Proof. unfold key_leb. intros ->. reflexivity. Qed.

Lemma q_min_in e l : In (q_min e l) (e :: l).
Proof.
  revert e. induction l as [|x l IH]; intros e; cbn [q_min]; [left; reflexivity|].
  destruct (ev_ltb x e); [destruct (IH x) as [H|H]|destruct (IH e) as [H|H]]; cbn; auto.
Qed.

Lemma q_min_le c e l :
  Forall (uniform c) (e :: l) ->
  key_leb (key (q_min e l)) (key e) = true /\ Forall (fun x => key_leb (key (q_min e l)) (key x) = true) l.
Proof.
  revert e. induction l as [|x l IH]; intros e HU; cbn [q_min].
  - split; [apply key_leb_refl|constructor].
  - inversion HU as [|? ? He HU']; subst. inversion HU' as [|? ? Hx HU'']; subst.
    rewrite (ev_ltb_key c x e Hx He). destruct (key_ltb (key x) (key e)) eqn:Lt.
    + destruct (IH x) as [H1 H2]; [constructor; assumption|].
      split; [|constructor; assumption].
      eapply key_leb_trans; [exact H1|apply key_ltb_leb; exact Lt].
    + destruct (IH e) as [H1 H2]; [constructor; assumption|].
      split; [exact H1|]. constructor; [|exact H2].
      eapply key_leb_trans; [exact H1|apply key_nlt_leb; exact Lt].
Qed.

Lemma q_peek_minimal c q m :
  Forall (uniform c) q -> q_peek q = Some m ->
  In m q /\ Forall (fun x => key_leb (key m) (key x) = true) q.
Proof.
  destruct q as [|e l]; cbn [q_peek]; intros HU H; [discriminate|]. injection H as <-.
  split; [apply q_min_in|]. destruct (q_min_le c e l HU) as [H1 H2]. constructor; assumption.
Qed.

Lemma q_pop_minimal c q m q' :
  Forall (uniform c) q -> q_pop q = Some (m, q') ->
  In m q /\ Forall (fun x => key_leb (key m) (key x) = true) q.
Proof.
  destruct q as [|e l]; cbn [q_pop]; intros HU H; [discriminate|]. injection H as <- _.
  apply (q_peek_minimal c (e :: l)); [exact HU|reflexivity].
Qed.

Lemma q_remove_id_incl i q x : In x (q_remove_id i q) -> In x q.
Proof.
  induction q as [|y l IH]; cbn [q_remove_id]; [auto|].
  destruct (ev_id y =? i); cbn; intuition.
Qed.

Lemma Forall_remove_id (P : event -> Prop) i q : Forall P q -> Forall P (q_remove_id i q).
Proof.
  intros H. apply Forall_forall. intros x Hx. rewrite Forall_forall in H. apply H.
  eapply q_remove_id_incl; exact Hx.
Qed.

Lemma retime_uniform c i t e : uniform c e -> uniform c (retime_ev i t e).
Proof. unfold retime_ev, uniform. destruct (ev_id e =? i); cbn; auto. Qed.

Lemma q_pop_rest_incl q m q' : q_pop q = Some (m, q') -> forall x, In x q' -> In x q.
Proof.
  destruct q as [|e l]; cbn [q_pop]; intros H; [discriminate|]. injection H as _ <-.
  intros x. apply (q_remove_id_incl (ev_id (q_min e l)) (e :: l) x).
Qed.

Definition pushes_uniform c (ops : list qop) : Prop :=
  Forall (fun o => match o with QPush e => uniform c e | _ => True end) ops.

Lemma q_step_inv c s o :
  Forall (uniform c) (fst s) ->
  Forall (fun p => Forall (fun x => key_leb (key (fst p)) (key x) = true) (snd p) /\ In (fst p) (snd p)) (snd s) ->
  match o with QPush e => uniform c e | _ => True end ->
  Forall (uniform c) (fst (q_step s o)) /\
  Forall (fun p => Forall (fun x => key_leb (key (fst p)) (key x) = true) (snd p) /\ In (fst p) (snd p)) (snd (q_step s o)).
Proof.
  destruct s as [q outs]; cbn [fst snd]. intros HU HO Ho. destruct o as [e|i|i t|]; cbn [q_step fst snd].
  - split; [|exact HO]. unfold q_push. apply Forall_app. split; [exact HU|constructor; [exact Ho|constructor]].
  - split; [apply Forall_remove_id; exact HU|exact HO].
  - split; [|exact HO]. unfold q_retime. apply Forall_forall. intros x Hx. apply in_map_iff in Hx.
    destruct Hx as [y [<- Hy]]. apply retime_uniform. rewrite Forall_forall in HU. apply HU; exact Hy.
  - destruct (q_pop q) as [[m q']|] eqn:Hp; cbn [fst snd]; [|split; assumption].
    split.
    + apply Forall_forall. intros x Hx. rewrite Forall_forall in HU. apply HU. eapply q_pop_rest_incl; eassumption.
    + constructor; [|exact HO]. cbn [fst snd]. destruct (q_pop_minimal c q m q' HU Hp) as [H1 H2]. split; assumption.
Qed.

(* every pop of every history returns a pending event whose key is minimal among
   the events pending at that moment *)
Theorem queue_pops_minimal c ops :
  pushes_uniform c ops ->
  Forall (fun p => Forall (fun x => key_leb (key (fst p)) (key x) = true) (snd p) /\ In (fst p) (snd p))
         (snd (q_run ops)).
Proof.
  unfold q_run, pushes_uniform. intros HP.
  assert (G : forall s, Forall (uniform c) (fst s) ->
     Forall (fun p => Forall (fun x => key_leb (key (fst p)) (key x) = true) (snd p) /\ In (fst p) (snd p)) (snd s) ->
     Forall (uniform c) (fst (fold_left q_step ops s)) /\
     Forall (fun p => Forall (fun x => key_leb (key (fst p)) (key x) = true) (snd p) /\ In (fst p) (snd p))
            (snd (fold_left q_step ops s))).
  { induction ops as [|o ops IH]; intros s H1 H2; cbn [fold_left]; [split; assumption|].
    inversion HP as [|? ? Ho HP']; subst.
    destruct (q_step_inv c s o H1 H2 Ho) as [H3 H4]. apply IH; assumption. }
  apply G; constructor.
Qed.

(* draining the queue yields the events in non-decreasing key order *)
Lemma q_drain_sorted c fuel q :
  Forall (uniform c) q -> StronglySorted (fun a b => key_leb (key a) (key b) = true) (q_drain fuel q)
  /\ Forall (fun x => In x q) (q_drain fuel q).
Proof.
  revert q. induction fuel as [|f IH]; intros q HU; cbn [q_drain]; [split; constructor|].
  destruct (q_pop q) as [[m q']|] eqn:Hp; [|split; constructor].
  destruct (q_pop_minimal c q m q' HU Hp) as [Hin Hmin].
  assert (HU' : Forall (uniform c) q').
  { apply Forall_forall. intros x Hx. rewrite Forall_forall in HU. apply HU. eapply q_pop_rest_incl; eassumption. }
  destruct (IH q' HU') as [Hs Hsub]. split.
  - constructor; [exact Hs|]. apply Forall_forall. intros x Hx.
    rewrite Forall_forall in Hsub, Hmin. apply Hmin. eapply q_pop_rest_incl; [exact Hp|]. apply Hsub; exact Hx.
  - constructor; [exact Hin|]. apply Forall_forall. intros x Hx. rewrite Forall_forall in Hsub.
    eapply q_pop_rest_incl; [exact Hp|]. apply Hsub; exact Hx.
Qed.

Lemma q_remove_id_length m q : In m q -> S (length (q_remove_id (ev_id m) q)) = length q.
Proof.
  induction q as [|x l IH]; intros Hin; [destruct Hin|]. cbn [q_remove_id].
  destruct (ev_id x =? ev_id m) eqn:E; [reflexivity|].
  destruct Hin as [->|Hin]; [lia|]. cbn [length]. rewrite IH; auto.
Qed.

(* with enough fuel nothing is left behind *)
Lemma q_drain_complete fuel q : (length q <= fuel)%nat -> length (q_drain fuel q) = length q.
Proof.
  revert q. induction fuel as [|f IH]; intros q Hl; [destruct q; cbn in *; [reflexivity|lia]|].
  cbn [q_drain]. destruct q as [|e l]; [reflexivity|]. cbn [q_pop].
  pose proof (q_remove_id_length (q_min e l) (e :: l) (q_min_in e l)) as Hlen.
  cbn [length] in *. rewrite IH; lia.
Qed.

(* the documented priority at equal times: resource-freeing events first *)
Lemma type_priority_documented :
  (forall t, event_type_value t = doc_code t) /\
  map event_type_value all_event_types = [0;1;2;3;4;5;6;7;8;9;10;11;12;13;14] /\
  event_type_value TASK_FINISHED < event_type_value TASK_RELEASE /\
  event_type_value TASK_RELEASE < event_type_value TASK_PLACEMENT /\
  event_type_value TASK_CANCEL < event_type_value TASK_PLACEMENT /\
  event_type_value TASK_PLACEMENT < event_type_value SCHEDULER_START /\
  event_type_value SCHEDULER_START < event_type_value SCHEDULER_FINISHED /\
  event_type_value SCHEDULER_FINISHED < event_type_value SIMULATOR_END.
Proof. split; [intros t; destruct t; reflexivity|]. cbn. repeat split; reflexivity. Qed.

(* the implementation-side monitor is the boolean form of the theorem's conclusion *)
Lemma pop_minimal_spec k pending :
  pop_minimal k pending = true <-> Forall (fun x => key_leb k x = true) pending.
Proof. unfold pop_minimal. rewrite forallb_forall, Forall_forall. reflexivity. Qed.

Example queue_nonvacuous :
  let e1 := mkEv 5 TASK_PLACEMENT (Some 2) 1 in let e2 := mkEv 5 TASK_FINISHED (Some 7) 2 in
  let e3 := mkEv 9 TASK_RELEASE (Some 1) 3 in
  map (fun p => ev_id (fst p)) (snd (q_run [QPush e1; QPush e3; QPush e2; QRetime 3 5; QPop; QPop; QPop])) = [1; 3; 2].
Proof. vm_compute. reflexivity. Qed.
