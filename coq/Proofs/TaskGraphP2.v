(* Graph.topological_sort (model: topo_sort) returns every node once, parents before children. *)
From Coq Require Import ZArith Bool List Lia ZifyBool.
Import ListNotations.
From Verif Require Import Model.Val Gen.Src_Task Gen.Src_TaskGraph Model.TaskGraph Proofs.TaskGraphP Proofs.TaskGraphP1.
Open Scope Z_scope.

Definition closed_out (g : tgraph) (out : list Z) : Prop :=
  forall l1 n l2, out = l1 ++ n :: l2 -> forall c, In c (tg_children g n) -> In c l2.

Record tv_post (g : tgraph) (path : list Z) (out out' : list Z) : Prop := {
  tv_add : exists add, out' = add ++ out /\ (forall x, In x add -> ~ In x path);
  tv_nodup : NoDup out';
  tv_closed : closed_out g out';
  tv_nodes : forall x, In x out' -> In x (tg_nodes g) }.

Lemma closed_cons : forall g n o, closed_out g o -> (forall c, In c (tg_children g n) -> In c o) -> closed_out g (n :: o).
Proof.
  intros g n o Hc Hn l1 m l2 E c Hch. destruct l1 as [|x l1]; cbn [app] in E; inversion E; subst.
  - apply Hn. exact Hch.
  - eapply Hc; eauto.
Qed.

Lemma tvisit_spec : forall fuel g path n out out', wf g ->
  tvisit fuel g path n out = Ok out' -> In n (tg_nodes g) ->
  NoDup out -> closed_out g out -> (forall x, In x out -> In x (tg_nodes g)) ->
  tv_post g path out out' /\ In n out'.
Proof.
  induction fuel as [|f IH]; intros g path n out out' W H Hn ND Hc Hnodes; cbn [tvisit] in H; [discriminate|].
  destruct (zmem n out) eqn:Mo.
  - inversion H; subst out'. apply zmem_In in Mo. split; [|exact Mo].
    constructor; auto. exists []. split; [reflexivity | intros x []].
  - destruct (zmem n path) eqn:Mp; [discriminate|].
    apply zmem_not_In in Mo. apply zmem_not_In in Mp.
    set (go := fix go (cs : list Z) (o : list Z) : result (list Z) :=
                 match cs with
                 | [] => Ok o
                 | c :: cs' => bind (tvisit f g (n :: path) c o) (go cs')
                 end) in *.
    assert (G : forall cs o o', go cs o = Ok o' -> (forall c, In c cs -> In c (tg_nodes g)) ->
                NoDup o -> closed_out g o -> (forall x, In x o -> In x (tg_nodes g)) ->
                tv_post g (n :: path) o o' /\ (forall c, In c cs -> In c o')).
    { induction cs as [|c cs IHcs]; intros o o' Hg Hcs NDo Hco Hno; cbn in Hg.
      - inversion Hg; subst o'. split; [|intros c []]. constructor; auto. exists []. split; [reflexivity | intros x []].
      - destruct (tvisit f g (n :: path) c o) as [o1|e] eqn:Ev; cbn [bind] in Hg; [|discriminate].
        destruct (IH g (n :: path) c o o1 W Ev (Hcs c (or_introl eq_refl)) NDo Hco Hno) as ([(a1 & E1 & A1) N1 C1 X1] & I1).
        destruct (IHcs o1 o' Hg (fun c' Hc' => Hcs c' (or_intror Hc')) N1 C1 X1) as ([(a2 & E2 & A2) N2 C2 X2] & I2).
        split.
        + constructor; auto. exists (a2 ++ a1). split; [subst; rewrite app_assoc; reflexivity|].
          intros x Hx. apply in_app_or in Hx. destruct Hx; auto.
        + intros c' [Hc'|Hc']; [subst c'; subst o'; apply in_or_app; right; exact I1 | apply I2; exact Hc']. }
    destruct (go (tg_children g n) out) as [o|e] eqn:Eg; cbn [bind] in H; [|discriminate].
    inversion H; subst out'.
    destruct (G _ _ _ Eg (fun c Hc' => wf_children g W n c Hc') ND Hc Hnodes) as ([(a & E & A) N C X] & I).
    split; [|left; reflexivity]. constructor.
    + exists (n :: a). split; [subst o; reflexivity|]. intros x [Hx|Hx].
      * subst x. exact Mp.
      * intro Hp. apply (A x Hx). right. exact Hp.
    + constructor; [|exact N]. subst o. intro Hin. apply in_app_or in Hin. destruct Hin as [Hin|Hin].
      * apply (A n Hin). left. reflexivity.
      * contradiction.
    + apply closed_cons; assumption.
    + intros x [Hx|Hx]; [subst; exact Hn | apply X; exact Hx].
Qed.

Lemma tvisit_all_spec : forall fuel g ns out out', wf g ->
  tvisit_all fuel g ns out = Ok out' -> (forall n, In n ns -> In n (tg_nodes g)) ->
  NoDup out -> closed_out g out -> (forall x, In x out -> In x (tg_nodes g)) ->
  NoDup out' /\ closed_out g out' /\ (forall x, In x out' -> In x (tg_nodes g)) /\
  (forall x, In x out -> In x out') /\ (forall n, In n ns -> In n out').
Proof.
  intros fuel g ns; induction ns as [|n ns IH]; intros out out' W H Hns ND Hc Hx; cbn [tvisit_all] in H.
  - inversion H; subst. repeat split; auto. intros n [].
  - destruct (tvisit fuel g [] n out) as [o1|e] eqn:Ev; cbn [bind] in H; [|discriminate].
    destruct (tvisit_spec _ _ _ _ _ _ W Ev (Hns n (or_introl eq_refl)) ND Hc Hx) as ([(a & E & _) N1 C1 X1] & I1).
    destruct (IH o1 out' W H (fun m Hm => Hns m (or_intror Hm)) N1 C1 X1) as (N2 & C2 & X2 & S2 & I2).
    repeat split; auto.
    + intros x Hin. apply S2. subst o1. apply in_or_app. right. exact Hin.
    + intros m [Hm|Hm]; [subst m; apply S2; exact I1 | apply I2; exact Hm].
Qed.

Lemma NoDup_split_unique : forall (a a' : list Z) x b b', NoDup (a ++ x :: b) -> a ++ x :: b = a' ++ x :: b' -> a = a'.
Proof.
  induction a as [|y a IH]; intros a' x b b' ND E.
  - destruct a' as [|z a']; [reflexivity|]. cbn [app] in E. inversion E; subst.
    cbn [app] in ND. inversion ND as [|? ? Hn _]; subst. exfalso. apply Hn. apply in_or_app. right. left. reflexivity.
  - destruct a' as [|z a']; cbn [app] in E; inversion E; subst.
    + cbn [app] in ND. inversion ND as [|? ? Hn _]; subst. exfalso. apply Hn. apply in_or_app. right. left. reflexivity.
    + f_equal. cbn [app] in ND. inversion ND; subst. eapply IH; eauto.
Qed.

Theorem topo_sort_ok : forall g order, wf g -> topo_sort g = Ok order -> topo_ok g order.
Proof.
  intros g order W H. unfold topo_sort in H.
  destruct (tvisit_all_spec _ g (tg_nodes g) [] order W H (fun n Hn => Hn)) as (ND & Cl & X & _ & I).
  - constructor.
  - intros l1 n l2 E. destruct l1; discriminate.
  - intros x [].
  - split; [exact ND|]. split; [intros n; split; [apply X | apply I]|].
    intros pre c post E p Hp.
    assert (Hch : In c (tg_children g p)) by (apply parents_children; [apply W | exact Hp]).
    assert (Hpo : In p order) by (apply I; eapply children_node; eauto).
    apply in_split in Hpo. destruct Hpo as (l1 & l2 & E2).
    pose proof (Cl l1 p l2 E2 c Hch) as Hc2. apply in_split in Hc2. destruct Hc2 as (m1 & m2 & E3).
    assert (E4 : order = (l1 ++ p :: m1) ++ c :: m2) by (rewrite E2, E3, <- app_assoc; reflexivity).
    assert (pre = l1 ++ p :: m1).
    { eapply NoDup_split_unique; [rewrite <- E; exact ND | rewrite <- E; exact E4]. }
    subst pre. apply in_or_app. right. left. reflexivity.
Qed.
