(* The monitors of C18 and C07 decide the properties they check, and accept what the model produces. *)
From Coq Require Import ZArith Bool List Lia ZifyBool.
Import ListNotations.
From Verif Require Import Model.Val Gen.Src_Task Gen.Src_TaskGraph Model.TaskGraph
  Proofs.TaskGraphP Proofs.TaskGraphP1 Proofs.TaskGraphP2 Proofs.TaskGraphP3 Proofs.TaskGraphP4
  Proofs.TaskGraphP5 Proofs.TaskGraphP6 Proofs.TaskGraphP7 Proofs.TaskGraphP8.
Open Scope Z_scope.

(* ---------- C18: the frontier ---------- *)
Definition frontier_obs (g : tgraph) (o : sched_opts) (fr : list Z) : Prop :=
  (forall n, In n (tg_nodes g) -> tg_state g n = TS_RELEASED ->
             t_release_time (tt_dyn (tg_task g n)) <= so_time o + so_lookahead o -> In n fr) /\
  (forall n, In n fr ->
     tg_state g n <> TS_COMPLETED /\ tg_state g n <> TS_CANCELLED /\
     (tg_state g n = TS_SCHEDULED -> so_retract o = true \/ so_preemption o = true) /\
     (tg_state g n = TS_RUNNING -> so_preemption o = true) /\ In n (tg_nodes g)).

Theorem c18_frontier_check_iff : forall g o fr, c18_frontier_check (g, o, fr) = true <-> frontier_obs g o fr.
Proof.
  intros g o fr. unfold c18_frontier_check, frontier_obs. rewrite andb_true_iff, !forallb_forall. split.
  - intros [A B]. split.
    + intros n Hn Hs Hr. specialize (A n Hn). rewrite Hs in A. cbn in A.
      assert (t_release_time (tt_dyn (tg_task g n)) <=? so_time o + so_lookahead o = true) by lia.
      rewrite H in A. cbn in A. apply zmem_In. exact A.
    + intros n Hn. specialize (B n Hn). cbv zeta in B. rewrite !andb_true_iff in B.
      destruct B as ((((B1 & B2) & B3) & B4) & B5).
      apply negb_true_iff, task_state_eqb_neq in B1. apply negb_true_iff, task_state_eqb_neq in B2.
      split; [exact B1|]. split; [exact B2|]. split; [|split].
      * intros E. rewrite E in B3. cbn in B3. destruct (so_retract o); [left; reflexivity | right; exact B3].
      * intros E. rewrite E in B4. cbn in B4. exact B4.
      * apply zmem_In. exact B5.
  - intros [A B]. split.
    + intros n Hn. destruct (task_state_eqb (tg_state g n) TS_RELEASED) eqn:E1; cbn; [|reflexivity].
      destruct (t_release_time (tt_dyn (tg_task g n)) <=? so_time o + so_lookahead o) eqn:E2; cbn; [|reflexivity].
      apply zmem_In. apply A; [exact Hn | apply task_state_eqb_eq; exact E1 | lia].
    + intros n Hn. destruct (B n Hn) as (B1 & B2 & B3 & B4 & B5). cbv zeta. rewrite !andb_true_iff.
      repeat split.
      * apply negb_true_iff, task_state_eqb_neq. exact B1.
      * apply negb_true_iff, task_state_eqb_neq. exact B2.
      * destruct (task_state_eqb (tg_state g n) TS_SCHEDULED) eqn:E; cbn; [|reflexivity].
        apply task_state_eqb_eq in E. destruct (B3 E) as [-> | ->]; [reflexivity | apply orb_true_r].
      * destruct (task_state_eqb (tg_state g n) TS_RUNNING) eqn:E; cbn; [|reflexivity].
        apply task_state_eqb_eq in E. apply B4. exact E.
      * apply zmem_In. exact B5.
Qed.

Theorem c18_frontier_check_accepts_model : forall g o draws fr d',
  tg_schedulable g o draws = Ok (fr, d') -> so_placed o = None -> c18_frontier_check (g, o, fr) = true.
Proof.
  intros g o draws fr d' H Hp. apply c18_frontier_check_iff. split.
  - intros n Hn Hs Hr. eapply frontier_no_starve; eauto.
  - intros n Hn. destruct (frontier_never_final _ _ _ _ _ _ H Hp Hn) as [A B].
    split; [exact A|]. split; [exact B|]. split; [|split].
    + intro E. eapply frontier_scheduled_only_if; eauto.
    + intro E. eapply frontier_running_only_if; eauto.
    + destruct (frontier_members _ _ _ _ _ _ H Hn) as [(C & _)|(_ & C)]; [exact C|]. rewrite Hp in C. tauto.
Qed.

Theorem c18_mono_check_iff : forall a b, c18_mono_check (a, b) = true <-> incl a b.
Proof.
  intros a b. unfold c18_mono_check. cbn [fst snd]. rewrite forallb_forall. split.
  - intros H x Hx. apply zmem_In. apply H. exact Hx.
  - intros H x Hx. apply zmem_In. apply H. exact Hx.
Qed.

Definition no_plan_ahead_obs (g : tgraph) (o : sched_opts) (fr : list Z) : Prop :=
  so_lookahead o = 0 -> so_retract o = false -> so_release_tg o = false -> frontier_sane g (so_time o) = true ->
  forall n, In n fr -> tg_state g n = TS_VIRTUAL -> forall p, In p (tg_parents g n) -> tg_complete g p = true.

Theorem c18_no_plan_ahead_check_iff : forall g o fr,
  c18_no_plan_ahead_check (g, o, fr) = true <-> no_plan_ahead_obs g o fr.
Proof.
  intros g o fr. unfold c18_no_plan_ahead_check, no_plan_ahead_obs. split.
  - intros H Hla Hre Hrt Hs n Hn Hv p Hp.
    rewrite Hla, Hre, Hrt, Hs in H. cbn in H. rewrite forallb_forall in H. specialize (H n Hn).
    rewrite Hv in H. cbn in H. rewrite forallb_forall in H. apply H. exact Hp.
  - intros H. destruct (so_lookahead o =? 0) eqn:E1; cbn; [|reflexivity].
    destruct (so_retract o) eqn:E2; cbn; [reflexivity|].
    destruct (so_release_tg o) eqn:E3; cbn; [reflexivity|].
    destruct (frontier_sane g (so_time o)) eqn:E4; cbn; [|reflexivity].
    apply forallb_forall. intros n Hn.
    destruct (task_state_eqb (tg_state g n) TS_VIRTUAL) eqn:E5; cbn; [|reflexivity].
    apply forallb_forall. intros p Hp. apply (H ltac:(lia) eq_refl eq_refl eq_refl n Hn); [|exact Hp].
    apply task_state_eqb_eq. exact E5.
Qed.

Theorem c18_no_plan_ahead_check_accepts_model : forall g o draws fr d',
  tg_schedulable g o draws = Ok (fr, d') -> so_placed o = None -> c18_no_plan_ahead_check (g, o, fr) = true.
Proof.
  intros g o draws fr d' H Hp. apply c18_no_plan_ahead_check_iff.
  intros Hla Hre Hrt Hs n Hn Hv p Hpp. eapply frontier_no_plan_ahead; eauto.
Qed.

Definition children_obs (g : tgraph) (t : Z) (rel : list Z) : Prop :=
  NoDup rel /\
  forall c, In c rel <-> In c (tg_children g t) /\ tg_state g c <> TS_CANCELLED /\
                         (tg_terminal g c = true \/ forall p, In p (tg_parents g c) -> tg_complete g p = true).

Theorem c18_children_check_iff : forall g t rel, c18_children_check (g, t, rel) = true <-> children_obs g t rel.
Proof.
  intros g t rel. unfold c18_children_check, children_obs. rewrite andb_true_iff, same_set_iff, znodup_NoDup.
  assert (E : forall c, In c (filter (fun c => negb (is_cancelled g c) &&
                (tg_terminal g c || forallb (tg_complete g) (tg_parents g c))) (tg_children g t)) <->
              In c (tg_children g t) /\ tg_state g c <> TS_CANCELLED /\
              (tg_terminal g c = true \/ forall p, In p (tg_parents g c) -> tg_complete g p = true)).
  { intro c. rewrite filter_In, andb_true_iff, negb_true_iff, is_cancelled_false, orb_true_iff, forallb_forall. tauto. }
  split.
  - intros [A B]. split; [exact B|]. intro c. rewrite <- E. apply A.
  - intros [A B]. split; [|exact A]. intro c. rewrite E. apply B.
Qed.

Theorem c18_children_check_accepts_model : forall g t fin draw g' rel canc,
  notify_completion g t fin draw = (g', Ok (rel, canc)) -> tg_conditional g t = false ->
  c18_children_check (g, t, rel) = true.
Proof.
  intros g t fin draw g' rel canc H Hc. apply c18_children_check_iff. split.
  - eapply notify_released_nodup; eauto.
  - destruct (notify_children _ _ _ _ _ _ _ H Hc) as (_ & _ & _ & E & _). exact E.
Qed.

(* ---------- C07: branches by reachability closure ---------- *)
Lemma branch_step_incl : forall g s x, In x s -> In x (branch_step g s).
Proof. intros. unfold branch_step. apply in_or_app. left. assumption. Qed.
Lemma branch_iter_incl : forall k g s x, In x s -> In x (branch_iter k g s).
Proof. induction k as [|k IH]; intros g s x H; cbn [branch_iter]; [exact H | apply IH, branch_step_incl, H]. Qed.
Lemma branch_iter_S : forall k g s, branch_iter (S k) g s = branch_step g (branch_iter k g s).
Proof. induction k as [|k IH]; intros g s; [reflexivity|]. cbn [branch_iter] in *. rewrite <- IH. reflexivity. Qed.
Lemma branch_iter_mono : forall k k' g s x, (k <= k')%nat -> In x (branch_iter k g s) -> In x (branch_iter k' g s).
Proof.
  intros k k' g s x Hle. induction Hle as [|m Hle IH]; intro H; [exact H|].
  rewrite branch_iter_S. apply branch_step_incl. apply IH. exact H.
Qed.

Lemma branch_step_sound : forall g u s, wf g -> (forall x, In x s -> branch g u x) ->
  forall x, In x (branch_step g s) -> branch g u x.
Proof.
  intros g u s W Hs x Hx. unfold branch_step in Hx. apply in_app_or in Hx. destruct Hx as [Hx|Hx]; [auto|].
  apply filter_In in Hx. destruct Hx as [Hn Hx]. rewrite !andb_true_iff in Hx. destruct Hx as [[_ Ht] He].
  apply negb_true_iff in Ht. apply existsb_exists in He. destruct He as (p & Hp & Hm). apply zmem_In in Hm.
  apply br_step with (p := p); auto. apply parents_children; [apply W | exact Hp].
Qed.

Lemma branch_node : forall g u d, wf g -> In u (tg_nodes g) -> branch g u d -> In d (tg_nodes g).
Proof. intros g u d W Hu H. induction H; [exact Hu | eapply wf_children; eauto]. Qed.

Theorem branch_of_iff : forall g u, wf g -> In u (tg_nodes g) -> (exists order, topo_ok g order) ->
  forall d, In d (branch_of g u) <-> branch g u d.
Proof.
  intros g u W Hu (order & To) d. unfold branch_of.
  destruct (tg_terminal g u) eqn:Et.
  - split; [intros []|]. intro H. exfalso.
    assert (A : forall x, branch g u x -> False).
    { intros x Hx. induction Hx; [congruence | assumption]. }
    eapply A; eauto.
  - split.
    + revert d. generalize (length (tg_nodes g)) as k.
      assert (A : forall k s, (forall x, In x s -> branch g u x) -> forall x, In x (branch_iter k g s) -> branch g u x).
      { induction k as [|k IH]; intros s Hs x Hx; cbn [branch_iter] in Hx; [auto|].
        eapply IH; [|exact Hx]. apply branch_step_sound; assumption. }
      intros k x Hx. eapply A; [|exact Hx]. intros y [<-|[]]. constructor. exact Et.
    + intro Hd. destruct To as (ND & Hn & Hpar).
      assert (A : forall pre post, order = pre ++ post -> forall c, In c pre -> branch g u c ->
                  In c (branch_iter (length pre) g [u])).
      { induction pre as [|x l IH] using rev_ind; intros post Ho c Hc Hbc; [contradiction|].
        rewrite <- app_assoc in Ho. cbn [app] in Ho. rewrite app_length. cbn [length]. rewrite Nat.add_1_r.
        apply in_app_or in Hc. destruct Hc as [Hc|[Hc|[]]].
        - rewrite branch_iter_S. apply branch_step_incl. eapply IH; eauto.
        - subst x. rewrite branch_iter_S.
          destruct (zmem c (branch_iter (length l) g [u])) eqn:M; [apply branch_step_incl, zmem_In, M|].
          assert (Hcn : In c (tg_nodes g)) by (apply Hn; rewrite Ho; apply in_or_app; right; left; reflexivity).
          assert (Hpl : forall p, In p (tg_parents g c) -> In p l) by (intros p Hp; eapply Hpar; eauto).
          pose proof (IH (c :: post) Ho) as IHl.
          clear Ho IH.
          inversion Hbc as [Hr|p c' Hbp Hch Htm]; subst.
          + exfalso. apply zmem_not_In in M. apply M. apply branch_iter_incl. left. reflexivity.
          + unfold branch_step. apply in_or_app. right. apply filter_In. split; [exact Hcn|].
            rewrite M, Htm. cbn [negb andb]. apply existsb_exists. exists p.
            assert (Hpp : In p (tg_parents g c)) by (apply parents_children; [apply W | exact Hch]).
            split; [exact Hpp|]. apply zmem_In. apply IHl; [apply Hpl; exact Hpp | exact Hbp]. }
      assert (Hdo : In d order) by (apply Hn; eapply branch_node; eauto).
      apply branch_iter_mono with (k := length order).
      * apply NoDup_incl_length; [exact ND | intros x Hx; apply Hn; exact Hx].
      * apply (A order [] (eq_sym (app_nil_r order))); assumption.
Qed.

(* what C07 says about one observed notification of a completed conditional task *)
Definition c07_obs (g : tgraph) (t draw : Z) (rel canc : list Z) (after : list (Z * Z)) : Prop :=
  exists k, nth_z (tg_children g t) draw = Some k /\ rel = [k] /\ 0 < tg_prob g k /\
  (forall u, In u (tg_children g t) -> u <> k -> forall d, branch g u d -> state_after after d = cancelled_value) /\
  (forall j, In j (tg_nodes g) -> tg_terminal g j = true -> tg_state g j <> TS_CANCELLED ->
             (exists p, In p (tg_parents g j) /\ p <> t /\ state_after after p <> cancelled_value) ->
             state_after after j <> cancelled_value) /\
  (forall n, In n (tg_nodes g) ->
     if zmem n canc then state_after after n = cancelled_value /\ tg_state g n <> TS_CANCELLED
     else state_after after n = task_state_value (tg_state g n)).

Theorem c07_check_iff : forall g t draw rel canc after, wf g -> In t (tg_nodes g) -> (exists order, topo_ok g order) ->
  (c07_check (g, t, draw, rel, canc, after) = true <-> c07_obs g t draw rel canc after).
Proof.
  intros g t draw rel canc after W Ht To. unfold c07_check, c07_obs.
  destruct (nth_z (tg_children g t) draw) as [k|] eqn:Ek.
  2:{ split; [discriminate | intros (k & A & _); discriminate]. }
  set (untaken := filter (fun u => negb (u =? k)) (tg_children g t)).
  assert (Hunt : forall u, In u untaken <-> In u (tg_children g t) /\ u <> k).
  { intro u. unfold untaken. rewrite filter_In, negb_true_iff. split; intros [A B]; split; auto; lia. }
  assert (Hbr : forall u d, In u (tg_children g t) -> (In d (branch_of g u) <-> branch g u d)).
  { intros u d Hu. apply branch_of_iff; auto. eapply wf_children; eauto. }
  rewrite !andb_true_iff, !forallb_forall. split.
  - intros ((((A1 & A2) & A3) & A4) & A5). exists k. split; [reflexivity|].
    assert (Er : rel = [k]).
    { destruct rel as [|r [|r2 rel]]; try discriminate. f_equal. lia. }
    split; [exact Er|]. split; [lia|]. split; [|split].
    + intros u Hu Hne d Hb. specialize (A3 u (proj2 (Hunt u) (conj Hu Hne))). rewrite forallb_forall in A3.
      specialize (A3 d (proj2 (Hbr u d Hu) Hb)). lia.
    + intros j Hj Htj Hsj (p & Hp & Hpt & Hlive). specialize (A4 j Hj).
      rewrite Htj in A4. cbn [negb orb] in A4.
      destruct (is_cancelled g j) eqn:Ec; [apply is_cancelled_iff in Ec; contradiction|]. cbn [orb] in A4.
      assert (Ex : existsb (fun p0 => negb (p0 =? t) && negb (state_after after p0 =? cancelled_value)) (tg_parents g j) = true).
      { apply existsb_exists. exists p. split; [exact Hp|]. apply andb_true_iff. split; apply negb_true_iff; lia. }
      rewrite Ex in A4. cbn [negb orb] in A4. apply negb_true_iff in A4. lia.
    + intros n Hn. specialize (A5 n Hn). destruct (zmem n canc).
      * apply andb_true_iff in A5. destruct A5 as [B1 B2]. apply negb_true_iff, is_cancelled_false in B2. split; [lia | exact B2].
      * lia.
  - intros (k' & E1 & E2 & E3 & E4 & E5 & E6). inversion E1; subst k'. subst rel.
    split; [split; [split; [split|]|]|].
    + apply Z.eqb_eq. reflexivity.
    + lia.
    + intros u Hu. apply Hunt in Hu. destruct Hu as [Hu Hne]. apply forallb_forall. intros d Hd.
      apply Z.eqb_eq. apply (E4 u Hu Hne). apply Hbr; assumption.
    + intros j Hj. destruct (tg_terminal g j) eqn:Etj; cbn [negb orb]; [|reflexivity].
      destruct (is_cancelled g j) eqn:Ec; cbn [orb]; [reflexivity|].
      destruct (existsb (fun p => negb (p =? t) && negb (state_after after p =? cancelled_value)) (tg_parents g j)) eqn:Ex; cbn [negb orb]; [|reflexivity].
      apply existsb_exists in Ex. destruct Ex as (p & Hp & Hl). apply andb_true_iff in Hl. destruct Hl as [Hl1 Hl2].
      apply negb_true_iff in Hl1. apply negb_true_iff in Hl2.
      apply negb_true_iff. apply Z.eqb_neq. apply E5; auto.
      * apply is_cancelled_false. exact Ec.
      * exists p. split; [exact Hp|]. split; lia.
    + intros n Hn. specialize (E6 n Hn). destruct (zmem n canc).
      * destruct E6 as [B1 B2]. apply andb_true_iff. split; [lia | apply negb_true_iff, is_cancelled_false; exact B2].
      * lia.
Qed.

(* ---------- the monitor accepts the model's own notification ---------- *)
Lemma choose_loop_evolves' : forall t cs k time g acc g' canc,
  choose_loop t cs k time g acc = (g', Ok canc) -> evolves g g'.
Proof.
  induction cs as [|c cs IH]; intros k time g acc g' canc H; cbn [choose_loop] in H.
  - inversion H; subst. apply evolves_refl.
  - destruct (c =? k).
    + eapply evolves_trans; [apply set_prob_evolves | eapply IH; eauto].
    + destruct (keeps_join g t c); [eapply IH; eauto|].
      destruct (tg_cancel g c time) as [g1 [l|e]] eqn:Ec; [|inversion H].
      eapply evolves_trans; [eapply tg_cancel_evolves; eauto | eapply IH; eauto].
Qed.

Lemma tg_cancel_list_exact : forall g c time g1 l, tg_cancel g c time = (g1, Ok l) ->
  forall n, In n l <-> tg_state g1 n = TS_CANCELLED /\ tg_state g n <> TS_CANCELLED.
Proof.
  intros g c time g1 l H n. destruct (tg_cancel_exact _ _ _ _ _ H) as (_ & _ & _ & P & Q). split.
  - intro Hn. split; [apply (cp_in _ _ _ P n Hn) | apply (hit_state g c n); apply Q; exact Hn].
  - intros [A B]. destruct (zmem n l) eqn:M; [apply zmem_In; exact M|].
    apply zmem_not_In in M. exfalso. apply B. unfold tg_state in *. rewrite <- (cp_out _ _ _ P n M). exact A.
Qed.

Lemma choose_loop_exact : forall t cs k time g acc g' canc,
  choose_loop t cs k time g acc = (g', Ok canc) ->
  forall n, In n canc <-> In n acc \/ (tg_state g' n = TS_CANCELLED /\ tg_state g n <> TS_CANCELLED).
Proof.
  induction cs as [|c cs IH]; intros k time g acc g' canc H n; cbn [choose_loop] in H.
  - inversion H; subst. tauto.
  - destruct (c =? k).
    + rewrite (IH _ _ _ _ _ _ H n), set_prob_state. tauto.
    + destruct (keeps_join g t c); [apply (IH _ _ _ _ _ _ H n)|].
      destruct (tg_cancel g c time) as [g1 [l|e]] eqn:Ec; [|inversion H].
      pose proof (choose_loop_evolves' _ _ _ _ _ _ _ _ H) as E2.
      pose proof (tg_cancel_evolves _ _ _ _ _ Ec) as E1.
      rewrite (IH _ _ _ _ _ _ H n), in_app_iff, (tg_cancel_list_exact _ _ _ _ _ Ec n).
      split.
      * intros [[A|[A B]]|[A B]]; [left; exact A | right | right].
        -- split; [apply (ev_mono _ _ E2); exact A | exact B].
        -- split; [exact A|]. intro C. apply B. apply (ev_mono _ _ E1). exact C.
      * intros [A|[A B]]; [left; left; exact A|].
        destruct (task_state_eq_dec (tg_state g1 n) TS_CANCELLED) as [C|C]; [left; right; auto | right; auto].
Qed.

Lemma state_value_cancelled : forall s, task_state_value s = cancelled_value <-> s = TS_CANCELLED.
Proof. intros s. unfold cancelled_value. destruct s; cbn; split; intro H; try reflexivity; try discriminate. Qed.

Lemma after_lookup : forall (f : Z -> Z) l n, In n l -> state_after (map (fun m => (m, f m)) l) n = f n.
Proof.
  intros f l n Hn. unfold state_after. induction l as [|m l IH]; [contradiction|]. cbn [map al_get].
  destruct (m =? n) eqn:Em; [assert (m = n) by lia; subst; reflexivity|].
  destruct Hn as [Hn|Hn]; [lia | apply IH; exact Hn].
Qed.

Theorem c07_check_accepts_model : forall g t fin draw g' rel canc,
  notify_completion g t fin draw = (g', Ok (rel, canc)) -> tg_conditional g t = true ->
  all_children_zero g t = false -> cancel_closed g -> (exists order, topo_ok g order) ->
  (forall c, nth_z (tg_children g t) draw = Some c -> 0 < tg_prob g c) ->
  c07_check (g, t, draw, rel, canc, map (fun n => (n, task_state_value (tg_state g' n))) (tg_nodes g)) = true.
Proof.
  intros g t fin draw g' rel canc H Hc Hz CC To Hor.
  destruct (notify_cond_unfold _ _ _ _ _ _ _ H Hc Hz) as (Hok & Ht & _ & _ & k & Hk & Hr & _ & Hl).
  pose proof (tg_ok_wf _ Hok) as W.
  apply c07_check_iff; auto. exists k. split; [exact Hk|]. split; [exact Hr|]. split; [apply Hor; exact Hk|].
  assert (Hnot : forall u, In u (tg_children g t) -> u <> k -> ~ In u rel).
  { intros u Hu Hne Hin. subst rel. destruct Hin as [A|[]]. congruence. }
  split; [|split].
  - intros u Hu Hne d Hb.
    assert (Hun : In u (tg_nodes g)) by (eapply wf_children; eauto).
    rewrite after_lookup by (eapply (branch_node g u d); eauto).
    apply state_value_cancelled. eapply notify_untaken; eauto.
  - intros j Hj Htj Hsj (p & Hp & Hpt & Hlive).
    rewrite after_lookup by exact Hj. rewrite after_lookup in Hlive by (eapply parent_node; eauto).
    intro E. apply state_value_cancelled in E.
    assert (Es : tg_state g' j = tg_state g j).
    { eapply notify_join; eauto.
      exists p. split; [exact Hp|]. split; [exact Hpt|]. intro Ep. apply Hlive. apply state_value_cancelled. exact Ep. }
    congruence.
  - intros n Hn. rewrite after_lookup by exact Hn.
    pose proof (choose_loop_exact _ _ _ _ _ _ _ _ Hl n) as Ex.
    pose proof (choose_loop_evolves' _ _ _ _ _ _ _ _ Hl) as Ev.
    destruct (zmem n canc) eqn:M.
    + apply zmem_In in M. apply Ex in M. destruct M as [[]|[A B]].
      split; [apply state_value_cancelled; exact A | exact B].
    + apply zmem_not_In in M. destruct (ev_only _ _ Ev n) as [A|A]; [rewrite A; reflexivity|].
      destruct (task_state_eq_dec (tg_state g n) TS_CANCELLED) as [B|B]; [rewrite A, B; reflexivity|].
      exfalso. apply M. apply Ex. right. auto.
Qed.

(* ---------- bridges: the documented forms are what the translated source computes ---------- *)
Lemma existsb_map_id : forall (f : Z -> bool) l, existsb (fun b => b) (map f l) = existsb f l.
Proof. intros f l; induction l as [|x l IH]; cbn; [reflexivity | rewrite IH; reflexivity]. Qed.
Lemma forallb_map_id : forall (f : Z -> bool) l, forallb (fun b => b) (map f l) = forallb f l.
Proof. intros f l; induction l as [|x l IH]; cbn; [reflexivity | rewrite IH; reflexivity]. Qed.

Theorem doc_ready_bridge : forall g t,
  is_ready_to_run (tg_complete g) (tg_state g) (tg_terminal g t) (tg_parents g t) (tg_state g t) = doc_ready g t.
Proof.
  intros g t. unfold is_ready_to_run, doc_ready, is_cancelled. rewrite existsb_map_id, forallb_map_id. reflexivity.
Qed.

Theorem doc_releasable_bridge : forall g, tg_releasable g = doc_releasable g.
Proof.
  intros g. unfold tg_releasable, doc_releasable, releasable_state, releasable_parents_ok.
  apply filter_ext. intro n. rewrite forallb_map_id. reflexivity.
Qed.

Theorem c18_releasable_check_accepts_model : forall g, tg_ok g = true -> c18_releasable_check (g, tg_releasable g) = true.
Proof.
  intros g Hok. unfold c18_releasable_check. rewrite doc_releasable_bridge. apply andb_true_iff. split.
  - apply same_set_iff. tauto.
  - apply znodup_NoDup. unfold doc_releasable. apply NoDup_filter. apply (wf_nodup _ (tg_ok_wf _ Hok)).
Qed.

(* a RuntimeError of notify_task_completion (non-conditional task) means that a child had started *)
Theorem c18_children_err_check_accepts_model : forall g t fin draw g',
  notify_completion g t fin draw = (g', Err 3) -> tg_conditional g t = false -> c18_children_err_check (g, t) = true.
Proof.
  intros g t fin draw g' H Hc. unfold notify_completion in H.
  destruct (tg_ok g && zmem t (tg_nodes g)); cbn [negb] in H; [|discriminate].
  destruct (tg_complete g t); cbn [negb] in H; [|discriminate].
  rewrite Hc in H. unfold c18_children_err_check.
  destruct (release_loop g (tg_children g t) []) as [r|e] eqn:E; [discriminate|].
  assert (e = 3) by (inversion H; reflexivity). subst e. clear H.
  revert E. generalize (@nil Z) as acc. induction (tg_children g t) as [|c cs IH]; intros acc E; cbn [release_loop] in E; [discriminate|].
  cbn [existsb]. unfold notify_child_guard in E.
  destruct (task_state_ltb TS_SCHEDULED (tg_state g c) && task_state_ltb (tg_state g c) TS_CANCELLED) eqn:G.
  - apply orb_true_iff. left. destruct (tg_state g c); cbn in G; try discriminate; reflexivity.
  - apply orb_true_iff. right. destruct (task_state_eqb (tg_state g c) TS_CANCELLED).
    + eapply IH; eauto.
    + destruct (notify_releases (tg_terminal g c) (map (tg_complete g) (tg_parents g c))); eapply IH; eauto.
Qed.
