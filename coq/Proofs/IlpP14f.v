(* C14 conditional completeness, general form (co-decided parents and children allowed): a feasible plan whose
   unplaced tasks can be given start values (startable_with), whose placed tasks have all their parents among the
   decided tasks (parents_decided), without running tasks and without three-way overlaps, is represented by a
   satisfying assignment whose objective is the plan's goodput. *)
From Coq Require Import ZArith Bool List Lia ZifyBool.
Import ListNotations.
From Verif Require Import Model.Val Gen.Src_Ilp Model.IlpModel Proofs.IlpP Proofs.IlpP11 Proofs.IlpP10 Proofs.IlpP14
  Proofs.IlpP14s Proofs.IlpPM Proofs.IlpP14c Proofs.IlpP14d Proofs.IlpP14e.
Open Scope Z_scope.

Definition afterg (I : instance) (p : plan) (sv : task -> Z) (x y : task) : Z := if sv y + Rv I p y + 1 <=? sv x then 1 else 0.
Definition beforeg (I : instance) (p : plan) (sv : task -> Z) (x y : task) : Z := if sv x + Rv I p x + 1 <=? sv y then 1 else 0.
Definition ovg (I : instance) (p : plan) (sv : task -> Z) (x y : task) : Z :=
  if dependent I x y then 0 else 1 - afterg I p sv x y - beforeg I p sv x y.
Definition parentsv (I : instance) (p : plan) (c : task) : Z := sum_list (placedv I p) (decided_parents I c).
Definition appv (I : instance) (p : plan) (c : task) : Z := if parentsv I p c =? nparents I c then 1 else 0.
Definition asg_plan_g (I : instance) (p : plan) (sv : task -> Z) : assignment :=
  fun v => match v with
  | VStart id => byid I id sv 0
  | VPlaced id w k => byid I id (fun t => hitv I p t w k) 0
  | VApp id => byid I id (appv I p) 0
  | VOverlap x y => byid I x (fun tx => byid I y (fun ty => ovg I p sv tx ty) 0) 0
  | VAfter x y => byid I x (fun tx => byid I y (fun ty => afterg I p sv tx ty) 0) 0
  | VBefore x y => byid I x (fun tx => byid I y (fun ty => beforeg I p sv tx ty) 0) 0
  | VGReward g => if forallb (placed_in I p) (reward_tasks I g) then 1 else 0
  | VTReward id => byid I id (placedv I p) 0
  end.

Section CompleteG.
Variable I : instance.
Variable p : plan.
Variable sv : task -> Z.
Hypothesis Hn : nodup_ids I.
Hypothesis Hrt : rt_nonneg I.
Hypothesis Hreq : req_nonneg I.
Hypothesis Hcaps : caps_nonneg I.
Hypothesis Hgoal : i_goal I = Goodput.
Hypothesis Hnr : no_running I.
Hypothesis Hfeas : feasible_clb I p = true.
Hypothesis Hsv : startable_with I p sv.
Hypothesis Hpd : parents_decided I p.
Hypothesis H3w : no_three_way_sv I p sv.

Let a := asg_plan_g I p sv.

Local Lemma V : forall t, In t (i_tasks I) -> task_view I p t.
Proof. exact (view I p Hnr Hfeas). Qed.
Local Lemma nr_in : forall t, In t (nonrunning I) -> In t (i_tasks I).
Proof. intros t H. apply in_nonrunning in H. tauto. Qed.
Local Lemma aid : forall A (f : task -> A) d t, In t (i_tasks I) -> byid I (t_id t) f d = f t.
Proof. exact (byid_id I p Hn Hfeas). Qed.
Local Lemma Hap : forall t w k, In t (i_tasks I) -> asg_plan_g I p sv (VPlaced (t_id t) w k) = hitv I p t w k.
Proof. intros t w k Ht. unfold asg_plan_g. apply aid. exact Ht. Qed.
Local Lemma opairs_in : forall x y, In (x, y) (opairs I) -> In x (i_tasks I) /\ In y (i_tasks I) /\ t_id x <> t_id y.
Proof.
  intros x y H. unfold opairs in H. apply filter_In in H. destruct H as [H1 H2]. apply in_prod_iff in H1. cbn [fst snd] in H2. split; [tauto|]. split; [tauto|lia].
Qed.
Local Lemma rts_in : forall t, In t (flat_map (reward_tasks I) (graphs_in_order I)) -> In t (i_tasks I).
Proof. intros t H. apply in_flat_map in H. destruct H as (g & _ & H). eapply reward_task_in; exact H. Qed.
Local Lemma dp_in : forall c q, In q (decided_parents I c) -> In q (i_tasks I).
Proof. intros c q H. unfold decided_parents in H. apply filter_In in H. tauto. Qed.

Lemma sv_placed : forall t, In t (i_tasks I) -> placed_in I p t = true -> sv t = start_in I p t.
Proof. exact (proj1 Hsv). Qed.
Lemma Rv_ge0 : forall t, In t (i_tasks I) -> 0 <= Rv I p t.
Proof. exact (Rv_nonneg I p Hrt Hnr Hfeas). Qed.
Lemma placedv_01 : forall t, 0 <= placedv I p t <= 1.
Proof. intros. unfold placedv. destruct (placed_in I p t); lia. Qed.

(* what precedence_clb gives for a placed child *)
Lemma prec_fact : forall c q, In c (i_tasks I) -> placed_in I p c = true -> In q (decided_parents I c) ->
  placed_in I p q = true /\ start_in I p q + rt_in I p q + 1 <= start_in I p c.
Proof.
  intros c q Hc Pc Hq. unfold feasible_clb in Hfeas. rewrite !andb_true_iff in Hfeas. destruct Hfeas as [[_ Hp] _].
  unfold precedence_clb in Hp. rewrite forallb_forall in Hp. specialize (Hp c Hc). rewrite (Hnr c Hc), Pc in Hp. cbn [negb orb] in Hp.
  rewrite forallb_forall in Hp. specialize (Hp q Hq). apply andb_true_iff in Hp. destruct Hp as [H1 H2].
  unfold dur in H2. rewrite (Hnr q (dp_in c q Hq)) in H2. split; [exact H1|lia].
Qed.
(* the start value of a task is after each co-decided parent, and after its end when the parent is placed *)
Lemma sv_after_parent : forall c q, In c (i_tasks I) -> In q (decided_parents I c) ->
  sv c >= sv q + (if placed_in I p q then rt_in I p q + 1 else 0).
Proof.
  intros c q Hc Hq. destruct (placed_in I p c) eqn:Pc.
  - destruct (prec_fact c q Hc Pc Hq) as [Pq Hle]. rewrite Pq. rewrite (sv_placed c Hc Pc), (sv_placed q (dp_in c q Hq) Pq). lia.
  - exact (proj2 (proj2 Hsv) c q Hc Hq Pc).
Qed.
Lemma parentsv_le : forall c, parentsv I p c <= nparents I c.
Proof.
  intros c. pose proof (decided_parents_count I c Hn). unfold parentsv.
  assert (G : forall l, sum_list (placedv I p) l <= Z.of_nat (length l)).
  { induction l as [|x l IH]; [rewrite sum_list_nil; cbn; lia|]. rewrite sum_list_cons. cbn [length]. pose proof (placedv_01 x). lia. }
  specialize (G (decided_parents I c)). lia.
Qed.
Lemma parentsv_placed_child : forall c, In c (i_tasks I) -> decided_parents I c <> [] -> placed_in I p c = true ->
  parentsv I p c = nparents I c.
Proof.
  intros c Hc Hne Pc. rewrite <- (Hpd c Hc Hne Pc). unfold parentsv.
  assert (G : forall l, (forall q, In q l -> placedv I p q = 1) -> sum_list (placedv I p) l = Z.of_nat (length l)).
  { induction l as [|x l IH]; intros H; [reflexivity|]. rewrite sum_list_cons, (H x (or_introl eq_refl)), IH; [cbn [length]; lia|].
    intros q Hq. apply H. right; exact Hq. }
  apply G. intros q Hq. destruct (prec_fact c q Hc Pc Hq) as [Pq _]. unfold placedv. rewrite Pq. reflexivity.
Qed.

Lemma ovg_01 : forall x y, In x (i_tasks I) -> In y (i_tasks I) -> 0 <= ovg I p sv x y <= 1.
Proof.
  intros x y Hx Hy. pose proof (Rv_ge0 x Hx). pose proof (Rv_ge0 y Hy). unfold ovg, afterg, beforeg.
  destruct (dependent I x y); [lia|].
  destruct (sv y + Rv I p y + 1 <=? sv x) eqn:A; destruct (sv x + Rv I p x + 1 <=? sv y) eqn:B; lia.
Qed.
Lemma ovg_overl : forall x y, ovg I p sv x y = 1 -> overl_sv I p sv x y = true.
Proof.
  intros x y. unfold ovg, afterg, beforeg, overl_sv. destruct (dependent I x y); [lia|].
  destruct (sv y + Rv I p y + 1 <=? sv x) eqn:A; destruct (sv x + Rv I p x + 1 <=? sv y) eqn:B; intros H; lia.
Qed.
Lemma overl_sv_sym : forall x y, overl_sv I p sv x y = overl_sv I p sv y x.
Proof. intros. unfold overl_sv. apply andb_comm. Qed.

Lemma start_value_g : forall t, In t (i_tasks I) -> eval_pterm (asg_plan_g I p sv) (startv I t) = sv t.
Proof. intros t Ht. unfold startv. rewrite (Hnr t Ht). cbn [eval_pterm]. unfold asg_plan_g. apply aid. exact Ht. Qed.

(* ---------------------------------------------------------------- bounds *)
Lemma sv_lb : forall t, In t (i_tasks I) -> start_lb (i_now I) (t_release t) <= sv t.
Proof.
  intros t Ht. rewrite bridge_start_lb. destruct (placed_in I p t) eqn:P.
  - rewrite (sv_placed t Ht P). unfold placed_in in P. unfold start_in.
    destruct (V t Ht) as [Hs _|s w k wk st Hs _ _ _ _ H1 H2 _]; rewrite Hs in *; [discriminate|lia].
  - pose proof (proj1 (proj1 (proj2 Hsv) t Ht P)) as H. unfold lbv in H. lia.
Qed.
Lemma bounds_ok_g : Forall (bound_ok a) (c_vars (gen_ilp I)).
Proof.
  apply Forall_forall. intros d Hd. cbn [gen_ilp c_vars] in Hd. rewrite Hgoal in Hd. unfold a.
  apply in_app_or in Hd. destruct Hd as [Hd|Hd].
  { apply in_flat_map in Hd. destruct Hd as (t & Ht & Hd). apply nr_in in Ht. destruct Hd as [<-|Hd].
    - unfold bound_ok. cbn [v_lb v_ub v_var]. split; [|exact Logic.I]. unfold asg_plan_g. rewrite (aid _ _ _ t Ht). apply sv_lb; exact Ht.
    - unfold pvar_decls in Hd. apply in_flat_map in Hd. destruct Hd as (sl & Hsl & Hd).
      destruct (pv t sl) as [z|v] eqn:E; [contradiction|]. destruct Hd as [<-|[]]. unfold bound_ok. cbn [v_lb v_ub v_var].
      pose proof (on_value_g I p Hnr Hfeas (asg_plan_g I p sv) Hap t sl Ht Hsl) as Hv. rewrite E in Hv. cbn [eval_pterm] in Hv. rewrite Hv.
      pose proof (hitv_binary I p Hfeas t (slot_w sl) (slot_k sl)). lia. }
  apply in_app_or in Hd. destruct Hd as [Hd|Hd].
  { apply in_flat_map in Hd. destruct Hd as (t & Ht & Hd). apply nr_in in Ht. unfold dep_decls in Hd.
    destruct (has_dep I t); [|contradiction]. destruct Hd as [<-|[]]. unfold bound_ok. cbn [v_lb v_ub v_var].
    unfold asg_plan_g. rewrite (aid _ _ _ t Ht). unfold appv. destruct (_ =? _); lia. }
  apply in_app_or in Hd. destruct Hd as [Hd|Hd].
  { apply in_map_iff in Hd. destruct Hd as ([x y] & <- & Hxy). destruct (opairs_in x y Hxy) as (Hx & Hy & _).
    unfold bound_ok. cbn [v_lb v_ub v_var fst snd]. unfold asg_plan_g. rewrite (aid _ _ _ x Hx), (aid _ _ _ y Hy).
    pose proof (ovg_01 x y Hx Hy). lia. }
  apply in_app_or in Hd. destruct Hd as [Hd|Hd].
  { apply in_flat_map in Hd. destruct Hd as ([x y] & Hxy & Hd). destruct (opairs_in x y Hxy) as (Hx & Hy & _).
    unfold pair_decls in Hd. cbn [fst snd] in Hd. destruct (dependent I x y); [contradiction|].
    destruct Hd as [<-|[<-|[]]]; unfold bound_ok; cbn [v_lb v_ub v_var]; unfold asg_plan_g; rewrite (aid _ _ _ x Hx), (aid _ _ _ y Hy).
    - unfold afterg. destruct (_ <=? _); lia.
    - unfold beforeg. destruct (_ <=? _); lia. }
  apply in_app_or in Hd. destruct Hd as [Hd|Hd].
  { apply in_map_iff in Hd. destruct Hd as (g & <- & _). unfold bound_ok. cbn [v_lb v_ub]. tauto. }
  apply in_map_iff in Hd. destruct Hd as (t & <- & Ht). apply rts_in in Ht. unfold bound_ok. cbn [v_lb v_ub v_var].
  unfold asg_plan_g. rewrite (aid _ _ _ t Ht). pose proof (placedv_01 t). lia.
Qed.

(* ---------------------------------------------------------------- linear rows *)
Lemma task_rows_ok_g : forall t r, In t (i_tasks I) -> In r (task_rows I t) -> lrow_ok a r.
Proof.
  intros t r Ht Hr. unfold a. unfold task_rows in Hr. apply in_app_or in Hr. destruct Hr as [Hr|[<-|[]]].
  - destruct (enforce_for I t) eqn:E; [|contradiction]. destruct Hr as [<-|[]].
    unfold lrow_ok, deadline_row. cbn [l_sense l_lin l_rhs]. destruct bridge_deadline as (B1 & B2 & B3 & B4). rewrite B3, B4, B1. cbn [holds].
    rewrite eval_lin_plus, eval_lin_term. rewrite (start_value_g t Ht).
    destruct (V t Ht) as [Hs _|s w k wk st Hs Hw Hk _ _ _ _ Hd].
    + rewrite (placed_lin_unplaced_g I p Hnr Hfeas _ Hap t _ Ht Hs).
      assert (P : placed_in I p t = false) by (unfold placed_in; rewrite Hs; reflexivity).
      pose proof (proj2 (proj1 (proj2 Hsv) t Ht P) E). lia.
    + rewrite (placed_lin_placed_g I p Hnr Hfeas _ Hap t _ s w k wk st Ht Hs Hw Hk). cbn beta.
      change (slot_rt ((w, wk), (k, st))) with (s_rt st). specialize (Hd E). pose proof (B2 (s_rt st)) as B2'.
      assert (P : placed_in I p t = true) by (unfold placed_in; rewrite Hs; reflexivity).
      rewrite (sv_placed t Ht P). unfold start_in. rewrite Hs. lia.
  - unfold lrow_ok, placement_row. destruct bridge_placement as [B1 B2].
    pose proof (placed_sum_value_g I p Hnr Hfeas _ Hap t Ht) as Hv.
    destruct (is_scheduled t && negb (i_retract I)) eqn:C; cbn [l_sense l_lin l_rhs]; rewrite Hv.
    + rewrite B1. cbn [fst snd holds]. unfold placedv, placed_in.
      destruct (V t Ht) as [Hs Hc|s w k wk st Hs _ _ _ _ _ _ _]; [congruence|rewrite Hs; reflexivity].
    + rewrite B2. cbn [fst snd holds]. pose proof (placedv_01 t). lia.
Qed.
Lemma prec_row_ok : forall c q sl, In c (i_tasks I) -> In q (decided_parents I c) -> In sl (pairs I q) -> lrow_ok a (prec_row I c q sl).
Proof.
  intros c q sl Hc Hq Hsl. unfold a. pose proof (dp_in c q Hq) as Hqin.
  unfold lrow_ok, prec_row. cbn [l_sense l_lin l_rhs]. destruct bridge_prec as (B1 & B2 & B3). rewrite B1, B2, B3. cbn [holds].
  rewrite !eval_lin_plus, !eval_lin_term, (start_value_g c Hc), (start_value_g q Hqin).
  rewrite (on_value_g I p Hnr Hfeas _ Hap q sl Hqin Hsl).
  pose proof (sv_after_parent c q Hc Hq) as H. unfold hitv.
  destruct (placed_in I p q) eqn:Pq; cbn [andb]; [|lia].
  destruct ((w_in I p q =? slot_w sl) && (k_in I p q =? slot_k sl)) eqn:E; [|pose proof (Rv_ge0 q Hqin) as R0; unfold Rv in R0; rewrite Pq in R0; lia].
  (* the slot is the one q sits in: its runtime is q's runtime *)
  assert (slot_rt sl = rt_in I p q).
  { unfold w_in, k_in, rt_in in *. destruct (V q Hqin) as [Hs _|s w k wk st Hs Hw Hk _ _ _ _ _]; rewrite Hs in *; [unfold placed_in in Pq; rewrite Hs in Pq; discriminate|].
    apply pairs_inv in Hsl. destruct Hsl as [Hw' Hk']. destruct sl as [[w' wk'] [k' st']]. unfold slot_w, slot_k, slot_rt in *. cbn [fst snd] in *.
    assert (w' = w) by lia. assert (k' = k) by lia. subst. rewrite (zenum_fst_inj _ _ _ _ _ _ Hk' Hk). reflexivity. }
  lia.
Qed.
Lemma lrows_ok_g : Forall (lrow_ok a) (c_lin (gen_ilp I)).
Proof.
  apply Forall_forall. intros r Hr. cbn [gen_ilp c_lin] in Hr. rewrite Hgoal in Hr.
  apply in_app_or in Hr. destruct Hr as [Hr|Hr].
  { apply in_flat_map in Hr. destruct Hr as (t & Ht & Hr). apply (task_rows_ok_g t r (nr_in t Ht) Hr). }
  apply in_app_or in Hr. destruct Hr as [Hr|Hr].
  { apply in_flat_map in Hr. destruct Hr as (c & Hc & Hr). unfold dep_lrows in Hr. apply in_flat_map in Hr. destruct Hr as (q & Hq & Hr).
    apply in_map_iff in Hr. destruct Hr as (sl & <- & Hsl). apply prec_row_ok; [apply nr_in; exact Hc|exact Hq|exact Hsl]. }
  apply in_app_or in Hr. destruct Hr as [Hr|Hr].
  { apply in_flat_map in Hr. destruct Hr as ([x y] & Hxy & Hr). destruct (opairs_in x y Hxy) as (Hx & Hy & _).
    unfold pair_lrows in Hr. cbn [fst snd] in Hr. destruct bridge_overlap as (_ & _ & _ & _ & B5 & _ & B7).
    destruct (dependent I x y) eqn:D.
    - rewrite B7 in Hr. destruct Hr as [<-|[]]. unfold lrow_ok, eval_lin, eval_terms. cbn [l_sense l_lin l_rhs fst snd holds].
      rewrite sum_list_cons, sum_list_nil. cbn [fst snd]. unfold a, asg_plan_g. rewrite (aid _ _ _ x Hx), (aid _ _ _ y Hy). unfold ovg. rewrite D. lia.
    - rewrite B5 in Hr. destruct Hr as [<-|[]].
      unfold lrow_ok, eval_lin, eval_terms. cbn [l_sense l_lin l_rhs fst snd holds]. rewrite !sum_list_cons, sum_list_nil. cbn [fst snd].
      unfold a, asg_plan_g. rewrite !(aid _ _ _ x Hx), !(aid _ _ _ y Hy). unfold ovg. rewrite D. lia. }
  apply in_map_iff in Hr. destruct Hr as (t & <- & Ht). apply rts_in in Ht. unfold a.
  unfold lrow_ok, treward_row. cbn [l_sense l_lin l_rhs holds]. rewrite eval_lin_plus, eval_lin_scale.
  rewrite (placed_sum_value_g I p Hnr Hfeas _ Hap t Ht). unfold eval_lin, eval_terms. cbn [fst snd]. rewrite sum_list_cons, sum_list_nil. cbn [fst snd].
  unfold asg_plan_g. rewrite (aid _ _ _ t Ht). lia.
Qed.

(* ---------------------------------------------------------------- indicator rows *)
Lemma ov_expr_value_g : forall c1 cr1 c2 cr2 x y, In x (i_tasks I) -> In y (i_tasks I) ->
  eval_lin (asg_plan_g I p sv) (ov_expr I (c1, cr1, c2, cr2) x y) = c1 * sv x + cr1 * Rv I p x + c2 * sv y + cr2 * Rv I p y.
Proof.
  intros c1 cr1 c2 cr2 x y Hx Hy. rewrite ov_expr_eval. unfold st_of.
  rewrite (start_value_g x Hx), (start_value_g y Hy), (rem_value_g I p Hnr Hfeas _ Hap x Hx), (rem_value_g I p Hnr Hfeas _ Hap y Hy). reflexivity.
Qed.
Lemma parent_sum_value : forall c, eval_lin (asg_plan_g I p sv) (parent_sum I c) = parentsv I p c.
Proof.
  intros c. unfold parent_sum, parentsv. rewrite eval_lin_sum. apply sum_list_ext. intros q Hq.
  apply (placed_sum_value_g I p Hnr Hfeas _ Hap q (dp_in c q Hq)).
Qed.
Lemma irows_ok_g : Forall (irow_ok a) (c_ind (gen_ilp I)).
Proof.
  apply Forall_forall. intros r Hr. cbn [gen_ilp c_ind] in Hr. unfold a. apply in_app_or in Hr. destruct Hr as [Hr|Hr].
  { apply in_flat_map in Hr. destruct Hr as (c & Hc & Hr). apply nr_in in Hc. unfold dep_irows in Hr.
    destruct (has_dep I c) eqn:Hd; [|contradiction].
    assert (Hne : decided_parents I c <> []) by (unfold has_dep in Hd; destruct (decided_parents I c); [discriminate|discriminate]).
    destruct (bridge_app (nparents I c)) as (B1 & B2 & B3). unfold ind_of in Hr. rewrite B1, B2, B3 in Hr. cbn [fst snd] in Hr.
    pose proof (parentsv_le c) as Hle.
    destruct Hr as [<-|[<-|[<-|[]]]]; unfold irow_ok; cbn [n_bvar n_bval n_sense n_lin n_rhs holds];
      unfold asg_plan_g at 1; rewrite (aid _ _ _ c Hc); unfold appv; intros E.
    - rewrite parent_sum_value. destruct (parentsv I p c =? nparents I c) eqn:Q; lia.
    - rewrite parent_sum_value. destruct (parentsv I p c =? nparents I c) eqn:Q; lia.
    - rewrite (placed_sum_value_g I p Hnr Hfeas _ Hap c Hc). unfold placedv. destruct (placed_in I p c) eqn:Pc; [|reflexivity].
      rewrite (parentsv_placed_child c Hc Hne Pc) in E. rewrite Z.eqb_refl in E. lia. }
  apply in_flat_map in Hr. destruct Hr as ([x y] & Hxy & Hr). destruct (opairs_in x y Hxy) as (Hx & Hy & _).
  unfold pair_irows in Hr. cbn [fst snd] in Hr. destruct (dependent I x y) eqn:D; [contradiction|].
  destruct bridge_overlap as (B1 & B2 & B3 & B4 & _). unfold ov_ind in Hr. rewrite B1, B2, B3, B4 in Hr.
  destruct Hr as [<-|[<-|[<-|[<-|[]]]]]; unfold irow_ok; cbn [n_bvar n_bval n_sense n_lin n_rhs holds];
    rewrite (ov_expr_value_g _ _ _ _ x y Hx Hy); unfold asg_plan_g; rewrite (aid _ _ _ x Hx), (aid _ _ _ y Hy);
    unfold afterg, beforeg; intros E.
  - destruct (sv y + Rv I p y + 1 <=? sv x) eqn:A; lia.
  - destruct (sv y + Rv I p y + 1 <=? sv x) eqn:A; lia.
  - destruct (sv x + Rv I p x + 1 <=? sv y) eqn:A; lia.
  - destruct (sv x + Rv I p x + 1 <=? sv y) eqn:A; lia.
Qed.

(* ---------------------------------------------------------------- AND rows *)
Lemma arows_ok_g : Forall (arow_ok a) (c_and (gen_ilp I)).
Proof.
  apply Forall_forall. intros r Hr. cbn [gen_ilp c_and] in Hr. rewrite Hgoal in Hr. apply in_map_iff in Hr. destruct Hr as (g & <- & Hg).
  unfold arow_ok, a. cbn [a_res a_ops]. unfold asg_plan_g at 1.
  assert (E : all_one (asg_plan_g I p sv) (map (fun t => VTReward (t_id t)) (reward_tasks I g)) = forallb (placed_in I p) (reward_tasks I g)).
  { unfold all_one. apply forallb_map_ext_in. intros t Ht. unfold asg_plan_g. rewrite (aid _ _ _ t (reward_task_in I g t Ht)).
    unfold placedv. destruct (placed_in I p t); reflexivity. }
  rewrite E. reflexivity.
Qed.

(* ---------------------------------------------------------------- capacity rows *)
Lemma ldv_nonneg_g : forall t w r, In t (i_tasks I) -> 0 <= ldv I p t w r.
Proof. intros t w r Ht. unfold ldv. destruct (_ && _); [apply req_at_nonneg; assumption|lia]. Qed.

Lemma row_sum_fits_g : forall t1 wi rq, In t1 (i_tasks I) -> In wi (wenum I) -> In rq (w_res (snd wi)) ->
  ldv I p t1 (fst wi) (fst rq) + sum_list (fun t2 => ovg I p sv t1 t2 * ldv I p t2 (fst wi) (fst rq)) (others I t1) <= snd rq.
Proof.
  intros t1 wi rq H1 Hw Hrq. set (w := fst wi). set (r := fst rq).
  set (c := fun x => if t_id x =? t_id t1 then 1 else ovg I p sv t1 x).
  assert (Esum : ldv I p t1 w r + sum_list (fun t2 => ovg I p sv t1 t2 * ldv I p t2 w r) (others I t1)
                 = sum_list (fun x => c x * ldv I p x w r) (i_tasks I)).
  { rewrite (sum_split_at (fun x => c x * ldv I p x w r) (i_tasks I) t1 Hn H1). fold (others I t1). unfold c at 1. rewrite Z.eqb_refl.
    f_equal; [lia|]. apply sum_list_ext. intros x Hx. unfold others in Hx. apply filter_In in Hx. destruct Hx as [_ Hne].
    unfold c. replace (t_id x =? t_id t1) with false by lia. reflexivity. }
  rewrite Esum. clear Esum.
  assert (Hc01 : forall x, In x (i_tasks I) -> 0 <= c x <= 1).
  { intros x Hx. unfold c. destruct (t_id x =? t_id t1); [lia|apply ovg_01; assumption]. }
  set (M := fun x => (c x =? 1) && placed_in I p x && (w_in I p x =? w)).
  assert (Hterm0 : forall x, In x (i_tasks I) -> M x = false -> c x * ldv I p x w r = 0).
  { intros x Hx Hm. unfold M in Hm. pose proof (Hc01 x Hx). unfold ldv.
    destruct (c x =? 1) eqn:C1; [|assert (c x = 0) by lia; lia]. cbn [andb] in Hm. rewrite Hm. lia. }
  destruct (existsb M (i_tasks I)) eqn:Ex.
  2:{ rewrite sum_list_zero; [apply (Hcaps wi rq Hw Hrq)|]. intros x Hx. apply Hterm0; [exact Hx|].
      destruct (M x) eqn:Mx; [|reflexivity]. exfalso.
      assert (existsb M (i_tasks I) = true) by (apply existsb_exists; exists x; auto). congruence. }
  apply existsb_exists in Ex. destruct (exists_max sv M (i_tasks I) Ex) as (m & Hm & Mm & Hmax).
  assert (Hmem : forall x, In x (i_tasks I) -> M x = true -> placed_in I p x = true /\ w_in I p x = w /\ (x = t1 \/ overl_sv I p sv t1 x = true)).
  { intros x Hx Mx. unfold M in Mx. rewrite !andb_true_iff in Mx. destruct Mx as [[C1 P] W]. split; [exact P|]. split; [lia|].
    unfold c in C1. destruct (t_id x =? t_id t1) eqn:E.
    - left. apply (nodup_map_inj (i_tasks I)); [exact Hn|exact Hx|exact H1|lia].
    - right. apply ovg_overl. lia. }
  assert (Hself : forall x, In x (i_tasks I) -> overl_sv I p sv x x = true).
  { intros x Hx. pose proof (Rv_ge0 x Hx). unfold overl_sv. lia. }
  assert (Hpair : forall x, In x (i_tasks I) -> M x = true -> overl_sv I p sv x m = true).
  { intros x Hx Mx. destruct (Hmem x Hx Mx) as (Px & Wx & Ox). destruct (Hmem m Hm Mm) as (Pm & Wm & Om).
    destruct Ox as [->|Ox]; destruct Om as [->|Om].
    - apply Hself; exact H1.
    - exact Om.
    - rewrite overl_sv_sym. exact Ox.
    - apply (H3w t1 x m H1 Hx Hm Px Pm ltac:(lia) Ox Om). }
  destruct (Hmem m Hm Mm) as (Pm & Wm & _).
  set (tau := start_in I p m).
  assert (Etau : sv m = tau) by (apply sv_placed; assumption).
  assert (Hact : forall x, In x (i_tasks I) -> M x = true -> active_cl I p x w tau = true /\ ldv I p x w r = req_at I p x r).
  { intros x Hx Mx. destruct (Hmem x Hx Mx) as (Px & Wx & _). pose proof (Hpair x Hx Mx) as Ov. pose proof (Hmax x Hx Mx) as Hle.
    unfold overl_sv in Ov. unfold Rv in Ov. rewrite Px, Pm in Ov. rewrite (sv_placed x Hx Px), Etau in Ov. rewrite (sv_placed x Hx Px), Etau in Hle. split.
    - unfold active_cl, dur. rewrite (Hnr x Hx). unfold placed_in in Px. unfold w_in in Wx. unfold start_in, rt_in in Ov, Hle.
      destruct (sits I p x) as [[[[s w'] k] rt]|]; [|discriminate]. lia.
    - unfold ldv. rewrite Px. replace (w_in I p x =? w) with true by lia. reflexivity. }
  assert (Hle : sum_list (fun x => c x * ldv I p x w r) (i_tasks I) <= usage_cl I p w r tau).
  { unfold usage_cl. apply sum_list_le. intros x Hx. pose proof (req_at_nonneg I p x r Hreq Hx) as H0.
    destruct (M x) eqn:Mx.
    - destruct (Hact x Hx Mx) as [A L]. rewrite A, L. unfold M in Mx. rewrite !andb_true_iff in Mx. destruct Mx as [[C1 _] _].
      assert (c x = 1) by lia. lia.
    - rewrite (Hterm0 x Hx Mx). destruct (active_cl I p x w tau); lia. }
  assert (Hcap : usage_cl I p w r tau <= snd rq).
  { unfold feasible_clb in Hfeas. rewrite !andb_true_iff in Hfeas. destruct Hfeas as [_ Hc]. unfold capacity_clb in Hc.
    rewrite forallb_forall in Hc. specialize (Hc tau). assert (Hin : In tau (starts_of I p)).
    { unfold starts_of. apply in_map_iff. exists m. split; [reflexivity|]. apply filter_In. split; [exact Hm|exact Pm]. }
    specialize (Hc Hin). rewrite forallb_forall in Hc. specialize (Hc wi Hw). rewrite forallb_forall in Hc. specialize (Hc rq Hrq).
    unfold w, r. lia. }
  lia.
Qed.

Lemma qrows_ok_g : Forall (qrow_ok a) (c_quad (gen_ilp I)).
Proof.
  apply Forall_forall. intros q Hq. cbn [gen_ilp c_quad] in Hq. apply in_flat_map in Hq. destruct Hq as (t1 & H1 & Hq).
  unfold cap_rows in Hq. apply in_flat_map in Hq. destruct Hq as (wi & Hw & Hq).
  assert (Hoff : off_worker t1 wi = false) by (unfold off_worker; rewrite (Hnr t1 H1); reflexivity). rewrite Hoff in Hq.
  apply in_map_iff in Hq. destruct Hq as (rq & <- & Hrq).
  unfold qrow_ok, a. rewrite cap_row_eval. unfold cap_row. cbn [q_sense q_rhs].
  destruct bridge_overlap as (_ & _ & _ & _ & _ & B6 & _). rewrite B6. cbn [holds].
  rewrite (load_value_g I p Hnr Hfeas _ Hap t1 wi (fst rq) H1 Hw).
  rewrite (sum_list_ext _ _ (fun t2 => ovg I p sv t1 t2 * ldv I p t2 (fst wi) (fst rq))).
  2:{ intros t2 H2. unfold others in H2. apply filter_In in H2. destruct H2 as [H2 _].
      rewrite (load_value_g I p Hnr Hfeas _ Hap t2 wi (fst rq) H2 Hw). unfold asg_plan_g. rewrite (aid _ _ _ t1 H1), (aid _ _ _ t2 H2). reflexivity. }
  apply row_sum_fits_g; assumption.
Qed.

(* ---------------------------------------------------------------- the theorem *)
Theorem plan_assignment_sat_g : sat (gen_ilp I) a.
Proof. unfold sat. repeat split; [apply bounds_ok_g|apply lrows_ok_g|apply irows_ok_g|apply arows_ok_g|apply qrows_ok_g]. Qed.

Lemma placedb_plan_g : forall t, In t (i_tasks I) -> placedb_a I a t = placed_in I p t.
Proof.
  intros t Ht. unfold placedb_a, a.
  destruct (V t Ht) as [Hs _|s w k wk st Hs Hw Hk _ _ _ _ _].
  - unfold placed_in. rewrite Hs. destruct (existsb _ _) eqn:E; [|reflexivity]. exfalso.
    apply existsb_exists in E. destruct E as (sl & Hsl & E). unfold on in E.
    rewrite (on_value_g I p Hnr Hfeas _ Hap t sl Ht Hsl) in E. unfold hitv, placed_in in E. rewrite Hs in E. cbn [andb] in E. lia.
  - unfold placed_in. rewrite Hs. apply existsb_exists. exists ((w, wk), (k, st)). split; [apply in_pairs; assumption|].
    unfold on. rewrite (on_value_g I p Hnr Hfeas _ Hap t _ Ht (in_pairs I t w wk k st Hw Hk)).
    unfold hitv, placed_in, w_in, k_in, slot_w, slot_k. rewrite Hs. cbn [fst snd andb]. rewrite !Z.eqb_refl. reflexivity.
Qed.
Theorem plan_assignment_objective_g : objective (gen_ilp I) a = goodput I p.
Proof.
  rewrite (objective_is_goodput I a plan_assignment_sat_g Hgoal). unfold goodput_a, goodput. apply sum_list_ext. intros g _.
  assert (E : forall l, (forall t, In t l -> In t (i_tasks I)) -> forallb (placedb_a I a) l = forallb (placed_in I p) l).
  { induction l as [|t l IH]; intros Hl; [reflexivity|]. cbn [forallb]. rewrite (placedb_plan_g t (Hl t (or_introl eq_refl))), IH; [reflexivity|].
    intros t' Ht'. apply Hl. right; exact Ht'. }
  rewrite (E (reward_tasks I g) (fun t Ht => reward_task_in I g t Ht)). reflexivity.
Qed.
End CompleteG.

Theorem C14_complete : forall I p sv,
  nodup_ids I -> rt_nonneg I -> req_nonneg I -> caps_nonneg I -> i_goal I = Goodput ->
  no_running I -> feasible_clb I p = true -> startable_with I p sv -> parents_decided I p -> no_three_way_sv I p sv ->
  exists a, sat (gen_ilp I) a /\ objective (gen_ilp I) a = goodput I p.
Proof.
  intros I p sv Hn Hrt Hreq Hcaps Hgoal Hnr Hfeas Hsv Hpd H3w. exists (asg_plan_g I p sv). split.
  - apply plan_assignment_sat_g; assumption.
  - apply plan_assignment_objective_g; assumption.
Qed.

(* non-vacuity: the chain t1 -> t2 offered together, both placed (t2 after t1) *)
Definition ex_chain_plan : plan := [(1, Some (1, 1, 0)); (2, Some (7, 1, 0))].
Definition ex_chain_sv (t : task) : Z := if t_id t =? 1 then 1 else 7.
Lemma C14_complete_g_nonvacuous :
  nodup_ids ex_chain /\ rt_nonneg ex_chain /\ req_nonneg ex_chain /\ caps_nonneg ex_chain /\ i_goal ex_chain = Goodput /\
  no_running ex_chain /\ feasible_clb ex_chain ex_chain_plan = true /\ startable_with ex_chain ex_chain_plan ex_chain_sv /\
  parents_decided ex_chain ex_chain_plan /\ no_three_way_sv ex_chain ex_chain_plan ex_chain_sv /\ goodput ex_chain ex_chain_plan = 1.
Proof.
  destruct ex_chain_wf as [W1 W2 W3 _ _ W6 _].
  split; [exact W1|]. split; [exact W2|]. split; [exact W3|].
  split; [intros w rq Hw Hrq; apply (W6 w rq Hw Hrq)|].
  split; [reflexivity|].
  split; [intros t Ht; cbn in Ht; destruct Ht as [<-|[<-|[]]]; reflexivity|].
  split; [vm_compute; reflexivity|].
  split.
  { split; [|split].
    - intros t Ht _. cbn in Ht. destruct Ht as [<-|[<-|[]]]; reflexivity.
    - intros t Ht P. cbn in Ht. destruct Ht as [<-|[<-|[]]]; vm_compute in P; discriminate.
    - intros c q Hc _ P. cbn in Hc. destruct Hc as [<-|[<-|[]]]; vm_compute in P; discriminate. }
  split.
  { intros c Hc Hne _. cbn in Hc. destruct Hc as [<-|[<-|[]]]; [exfalso; apply Hne; reflexivity|reflexivity]. }
  split; [|vm_compute; reflexivity].
  intros t1 t2 t3 H1 H2 H3 _ _ _. cbn in H1, H2, H3.
  destruct H1 as [<-|[<-|[]]]; destruct H2 as [<-|[<-|[]]]; destruct H3 as [<-|[<-|[]]]; vm_compute; congruence.
Qed.
