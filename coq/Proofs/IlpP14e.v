(* C14 conditional completeness, general form, part 1: values of the placement expressions under ANY assignment
   that gives the placement variables the values of a feasible plan (copy of the Build section of IlpP14c.v,
   parametric in the assignment). *)
From Coq Require Import ZArith Bool List Lia ZifyBool.
Import ListNotations.
From Verif Require Import Model.Val Gen.Src_Ilp Model.IlpModel Proofs.IlpP Proofs.IlpP11 Proofs.IlpP10 Proofs.IlpP14 Proofs.IlpP14s Proofs.IlpP14c.
Open Scope Z_scope.

Section BuildG.
Variable I : instance.
Variable p : plan.
Hypothesis Hn : nodup_ids I.
Hypothesis Hrt : rt_nonneg I.
Hypothesis Hnr : no_running I.
Hypothesis Hfeas : feasible_clb I p = true.

Variable a : assignment.
Hypothesis Ha_placed : forall t w k, In t (i_tasks I) -> a (VPlaced (t_id t) w k) = hitv I p t w k.

(* ---------------------------------------------------------------- value of the placement terms *)
Lemma on_value_g : forall t sl, In t (i_tasks I) -> In sl (pairs I t) ->
  eval_pterm a (pv t sl) = hitv I p t (slot_w sl) (slot_k sl).
Proof.
  intros t sl Ht Hsl. unfold pv. rewrite (Hnr t Ht).
  destruct (compat (snd (fst sl)) (snd (snd sl))) eqn:C.
  - cbn [eval_pterm]. apply Ha_placed. exact Ht.
  - cbn [eval_pterm]. unfold hitv. destruct (view I p Hnr Hfeas t Ht) as [Hs _|s w k wk st Hs Hw Hk _ Hc _ _ _].
    + unfold placed_in. rewrite Hs. reflexivity.
    + unfold placed_in, w_in, k_in. rewrite Hs. cbn [andb].
      destruct ((w =? slot_w sl) && (k =? slot_k sl)) eqn:E; [|reflexivity]. exfalso.
      apply pairs_inv in Hsl. destruct Hsl as [Hw' Hk']. destruct sl as [[w' wk'] [k' st']]. unfold slot_w, slot_k in E. cbn [fst snd] in *.
      assert (w' = w) by lia. assert (k' = k) by lia. subst.
      rewrite (zenum_fst_inj _ _ _ _ _ _ Hw' Hw), (zenum_fst_inj _ _ _ _ _ _ Hk' Hk) in C. congruence.
Qed.
Lemma placed_lin_value_g : forall t coef, In t (i_tasks I) ->
  eval_lin a (placed_lin I t coef) =
  match sits I p t with
  | Some (_, w, k, _) => sum_list (fun sl => if (w =? slot_w sl) && (k =? slot_k sl) then coef sl else 0) (pairs I t)
  | None => 0
  end.
Proof.
  intros t coef Ht. rewrite eval_placed_lin.
  rewrite (sum_list_ext _ _ (fun sl => coef sl * hitv I p t (slot_w sl) (slot_k sl))) by (intros sl Hsl; rewrite (on_value_g t sl Ht Hsl); reflexivity).
  unfold hitv, placed_in, w_in, k_in. destruct (sits I p t) as [[[[s w] k] rt]|].
  - apply sum_list_ext. intros sl _. cbn [andb]. destruct ((w =? slot_w sl) && (k =? slot_k sl)); lia.
  - apply sum_list_zero. intros; cbn [andb]; lia.
Qed.
Lemma placed_lin_placed_g : forall t coef s w k wk st, In t (i_tasks I) -> sits I p t = Some (s, w, k, s_rt st) ->
  In (w, wk) (wenum I) -> In (k, st) (senum t) -> eval_lin a (placed_lin I t coef) = coef ((w, wk), (k, st)).
Proof. intros t coef s w k wk st Ht Hs Hw Hk. rewrite (placed_lin_value_g t coef Ht), Hs. apply pairs_pick; assumption. Qed.
Lemma placed_lin_unplaced_g : forall t coef, In t (i_tasks I) -> sits I p t = None -> eval_lin a (placed_lin I t coef) = 0.
Proof. intros t coef Ht Hs. rewrite (placed_lin_value_g t coef Ht), Hs. reflexivity. Qed.

Lemma placed_sum_value_g : forall t, In t (i_tasks I) -> eval_lin a (placed_lin I t one_coef) = placedv I p t.
Proof.
  intros t Ht. unfold placedv, placed_in. destruct (view I p Hnr Hfeas t Ht) as [Hs _|s w k wk st Hs Hw Hk _ _ _ _ _].
  - rewrite (placed_lin_unplaced_g t _ Ht Hs), Hs. reflexivity.
  - rewrite (placed_lin_placed_g t _ s w k wk st Ht Hs Hw Hk), Hs. reflexivity.
Qed.
Lemma rem_value_g : forall t, In t (i_tasks I) -> eval_lin a (rem_lin I t) = Rv I p t.
Proof.
  intros t Ht. unfold rem_lin, Rv, placed_in, rt_in. destruct (view I p Hnr Hfeas t Ht) as [Hs _|s w k wk st Hs Hw Hk _ _ _ _ _].
  - rewrite (placed_lin_unplaced_g t _ Ht Hs), Hs. reflexivity.
  - rewrite (placed_lin_placed_g t _ s w k wk st Ht Hs Hw Hk), Hs. reflexivity.
Qed.
(* the load a task puts on a worker *)
Lemma load_value_g : forall t wi r, In t (i_tasks I) -> In wi (wenum I) -> load a t wi r = ldv I p t (fst wi) r.
Proof.
  intros t wi r Ht Hw. unfold load.
  rewrite (sum_list_ext _ _ (fun ks => req (snd ks) r * hitv I p t (fst wi) (fst ks))).
  2:{ intros ks Hks. unfold on. rewrite (on_value_g t (wi, ks) Ht (in_prod _ _ _ _ Hw Hks)). reflexivity. }
  unfold ldv, hitv, placed_in, w_in, k_in, req_at. destruct (view I p Hnr Hfeas t Ht) as [Hs _|s w k wk st Hs _ Hk Nk _ _ _ _]; rewrite Hs.
  - cbn [andb]. apply sum_list_zero. intros; lia.
  - cbn [andb]. rewrite Nk. destruct (w =? fst wi) eqn:E.
    + rewrite (sum_list_ext _ _ (fun ks => if fst ks =? k then req (snd ks) r else 0)).
      2:{ intros ks _. cbn [andb]. destruct (fst ks =? k) eqn:Ek; [replace (k =? fst ks) with true by lia|replace (k =? fst ks) with false by lia]; lia. }
      apply (zenum_pick _ (t_strats t) 0 k st (fun ks => req (snd ks) r)). exact Hk.
    + apply sum_list_zero. intros; cbn [andb]; lia.
Qed.
End BuildG.
