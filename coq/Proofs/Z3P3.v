(* C10 for the Z3 constraint system, exclusivity: in every satisfying assignment two tasks that may
   run in parallel, are placed on the same worker and whose executions touch hold disjoint slots of
   every resource key of that worker they both use. *)
From Coq Require Import ZArith Bool List Lia ZifyBool.
Import ListNotations.
From Verif Require Import Model.Val Gen.Src_Z3 Model.Z3Model Proofs.Z3P Proofs.Z3P2.
Open Scope Z_scope.

(* ---------------------------------------------------------------- bits *)
Lemma xor_ones_disjoint : forall x y q, 0 <= q ->
  Z.lxor (x mod 2 ^ q) (y mod 2 ^ q) = 2 ^ q - 1 -> Z.land (x mod 2 ^ q) (y mod 2 ^ q) = 0.
Proof.
  intros x y q Hq H. apply Z.bits_inj'. intros n Hn. rewrite Z.land_spec, Z.bits_0.
  destruct (Z.lt_ge_cases n q) as [Hlt|Hge].
  - assert (Hb : Z.testbit (Z.lxor (x mod 2 ^ q) (y mod 2 ^ q)) n = true).
    { rewrite H. replace (2 ^ q - 1) with (Z.ones q) by (rewrite Z.ones_equiv; lia). apply Z.ones_spec_low. lia. }
    rewrite Z.lxor_spec in Hb. destruct (Z.testbit (x mod 2 ^ q) n), (Z.testbit (y mod 2 ^ q) n); cbn in *; congruence.
  - rewrite Z.mod_pow2_bits_high by lia. reflexivity.
Qed.

(* ---------------------------------------------------------------- lists *)
Lemma sequence_in : forall A (l : list (result A)) ys r, sequence l = Ok ys -> In r l -> exists y, r = Ok y /\ In y ys.
Proof.
  induction l as [|r0 l IH]; intros ys r H Hin; [contradiction|].
  cbn [sequence] in H. destruct r0 as [y0|c]; cbn [bind] in H; [|discriminate].
  destruct (sequence l) as [ys'|c] eqn:E; cbn [bind] in H; [|discriminate]. inversion H; subst.
  destruct Hin as [<-|Hin].
  - exists y0. split; [reflexivity|now left].
  - destruct (IH _ _ eq_refl Hin) as (y & Hy & Hin'). exists y. split; [exact Hy|now right].
Qed.
Lemma indexed_from_in : forall A (l : list A) k0 k x, In (k, x) (indexed_from k0 l) ->
  k0 <= k < k0 + Z.of_nat (length l) /\ nth_error l (Z.to_nat (k - k0)) = Some x.
Proof.
  induction l as [|y l IH]; intros k0 k x H; [contradiction|].
  cbn [indexed_from In length] in *. destruct H as [H|H].
  - inversion H; subst. rewrite Z.sub_diag. split; [lia|reflexivity].
  - destruct (IH _ _ _ H) as [H1 H2]. split; [lia|].
    replace (Z.to_nat (k - k0)) with (S (Z.to_nat (k - (k0 + 1)))) by lia. exact H2.
Qed.

(* ---------------------------------------------------------------- rows of one (worker, pair) *)
Lemma pair_rows_in : forall ins fs k w p, gen_z3 ins = Ok fs -> In (k, w) (indexed_from 0 (i_workers ins)) -> In p (pairs ins) ->
  exists rows, pair_rows ins (2 ^ k) w p = Ok rows /\ forall f, In f rows -> In f fs.
Proof.
  intros ins fs k w p Hg Hkw Hp. destruct (gen_z3_parts _ _ Hg) as (tr & er & _ & He & ->).
  unfold exclusivity_rows in He.
  assert (Hin : In (pair_rows ins (2 ^ k) w p)
                   (flat_map (fun iw => map (pair_rows ins (fst iw) (snd iw)) (pairs ins)) (indexed_workers ins))).
  { apply in_flat_map. exists (2 ^ k, w). split.
    - unfold indexed_workers. apply in_map_iff. exists (k, w). split; [reflexivity|exact Hkw].
    - cbn [fst snd]. apply in_map_iff. exists p. split; [reflexivity|exact Hp]. }
  destruct (concat_results_ok _ _ _ _ He Hin) as (rows & Hr). exists rows. split; [exact Hr|].
  intros f Hf. apply in_or_app; right. apply in_or_app; right. apply in_or_app; left.
  eapply concat_results_in; eauto.
Qed.

Lemma ends_before_sem : forall a t1 t2, feval a (ends_before t1 t2) = true ->
  truth a (VEnds (zt_id t1) (zt_id t2)) = (t_start a t1 + zt_remaining t1 <? t_start a t2).
Proof.
  intros a t1 t2 H. unfold ends_before in H. cbn [feval ieval] in H. apply Bool.eqb_prop in H.
  rewrite H. unfold t_start. f_equal. lia.
Qed.

Definition slots_disjoint (ins : instance) (a : asg) (t1 t2 : ztask) (r q : Z) : Prop :=
  Z.land (res_bits ins a t1 r mod 2 ^ q) (res_bits ins a t2 r mod 2 ^ q) = 0.

Theorem c10_z3_slots : forall ins fs a, gen_z3 ins = Ok fs -> sat fs a = true ->
  forall k w t1 t2, In (k, w) (indexed_from 0 (i_workers ins)) -> In (t1, t2) (pairs ins) ->
  placed_on ins a t1 k = true -> placed_on ins a t2 k = true -> meets a t1 t2 = true ->
  forall r q, In (r, q) (shared_keys w t1 t2) -> slots_disjoint ins a t1 t2 r q.
Proof.
  intros ins fs a Hg Hs k w t1 t2 Hkw Hp Hp1 Hp2 Hm r q Hrq.
  destruct (pair_rows_in _ _ _ _ _ Hg Hkw Hp) as (rows & Hr & Hin).
  assert (Hall : forall f, In f rows -> feval a f = true) by (intros f Hf; eapply sat_in; [exact Hs|now apply Hin]).
  unfold pair_rows in Hr. cbn [fst snd] in Hr.
  destruct (sequence (map (fun k0 => indep_row ins w t1 t2 (fst k0) (snd k0)) (shared_keys w t1 t2))) as [irows|c] eqn:Eseq;
    cbn [bind] in Hr; [|discriminate].
  inversion Hr; subst rows; clear Hr.
  pose proof (indexed_from_in _ _ _ _ _ Hkw) as [Hk _]. fold (nworkers ins) in Hk.
  assert (H12 := Hall _ (or_introl eq_refl)). apply ends_before_sem in H12.
  assert (H21 := Hall _ (or_intror (or_introl eq_refl))). apply ends_before_sem in H21.
  assert (Hov := Hall _ (or_intror (or_intror (or_introl eq_refl)))).
  cbn [feval] in Hov. apply Bool.eqb_prop in Hov. rewrite H12, H21, orb_false_r in Hov.
  fold (meets a t1 t2) in Hov. rewrite Hm in Hov.
  assert (Himp : feval a (FImp (FAnd [FVar (VPlaced (zt_id t1)); FVar (VPlaced (zt_id t2));
                     o_bv_eq_int (ops ins) (worker_bv ins t1) (2 ^ k); o_bv_eq_int (ops ins) (worker_bv ins t2) (2 ^ k);
                     FVar (VOverlap (zt_id t1) (zt_id t2))])
              (FAnd (map (fun k0 => FVar (VIndep (zw_name w) (fst k0) (zt_id t1) (zt_id t2))) (shared_keys w t1 t2)))) = true).
  { apply Hall. right; right; right. apply in_or_app; right. now left. }
  change (feval a (FImp ?x ?y)) with (implb (feval a x) (feval a y)) in Himp.
  rewrite !feval_and in Himp. cbn [forallb] in Himp.
  rewrite !feval_bv_eq_int in Himp. cbn [feval] in Himp.
  unfold placed_on in Hp1, Hp2. apply andb_prop in Hp1. apply andb_prop in Hp2. destruct Hp1 as [Hpl1 Hb1], Hp2 as [Hpl2 Hb2].
  assert (Hmod : 2 ^ k mod 2 ^ nworkers ins = 2 ^ k).
  { apply Z.mod_small. split; [apply Z.pow_nonneg; lia|apply pow2_lt; lia]. }
  rewrite Hmod, Hpl1, Hpl2, Hb1, Hb2, Hov in Himp. cbn [andb implb] in Himp.
  rewrite forallb_forall in Himp.
  assert (Hind : truth a (VIndep (zw_name w) r (zt_id t1) (zt_id t2)) = true).
  { specialize (Himp (FVar (VIndep (zw_name w) r (zt_id t1) (zt_id t2)))). cbn [feval] in Himp. apply Himp.
    apply in_map_iff. exists (r, q). split; [reflexivity|exact Hrq]. }
  (* the defining row of that variable *)
  assert (Hrow : In (indep_row ins w t1 t2 r q) (map (fun k0 => indep_row ins w t1 t2 (fst k0) (snd k0)) (shared_keys w t1 t2))).
  { apply in_map_iff. exists (r, q). split; [reflexivity|exact Hrq]. }
  destruct (sequence_in _ _ _ _ Eseq Hrow) as (row & Hrow_eq & Hrow_in).
  assert (Hrow_true : feval a row = true).
  { apply Hall. right; right; right. apply in_or_app; left. exact Hrow_in. }
  unfold indep_row in Hrow_eq. unfold slots_disjoint, res_bits.
  destruct (rsize ins r) as [size|] eqn:Esz; [|discriminate].
  destruct ((0 <? q) && (q <=? size)) eqn:Eq; [|discriminate].
  inversion Hrow_eq; subst row; clear Hrow_eq.
  cbn [feval bveval] in Hrow_true. apply Bool.eqb_prop in Hrow_true. rewrite Hind in Hrow_true. symmetry in Hrow_true.
  rewrite !Z.pow_0_r, !Z.div_1_r in Hrow_true. replace (q - 1 - 0 + 1) with q in Hrow_true by lia.
  assert (Hq : 0 <= q) by lia.
  rewrite (Z.mod_small (2 ^ q - 1)) in Hrow_true by (pose proof (pow2_pos q Hq); lia).
  apply xor_ones_disjoint; lia.
Qed.

(* the slot monitor is the decidable form of that statement and accepts every satisfying assignment *)
Lemma slots_ok_iff : forall ins a, slots_ok ins a = true <->
  (forall k w t1 t2, In (k, w) (indexed_from 0 (i_workers ins)) -> In (t1, t2) (pairs ins) ->
   placed_on ins a t1 k = true -> placed_on ins a t2 k = true -> meets a t1 t2 = true ->
   forall r q, In (r, q) (shared_keys w t1 t2) -> slots_disjoint ins a t1 t2 r q).
Proof.
  intros ins a. unfold slots_ok, slots_disjoint. split.
  - intros H k w t1 t2 Hkw Hp H1 H2 Hm r q Hrq.
    rewrite forallb_forall in H. specialize (H (k, w) Hkw). rewrite forallb_forall in H. specialize (H (t1, t2) Hp).
    cbn [fst snd] in H. rewrite H1, H2, Hm in H. cbn [andb implb] in H. rewrite forallb_forall in H.
    specialize (H (r, q) Hrq). cbn [fst snd] in H. lia.
  - intros H. apply forallb_forall. intros [k w] Hkw. apply forallb_forall. intros [t1 t2] Hp. cbn [fst snd].
    destruct (placed_on ins a t1 k) eqn:H1; [|reflexivity]. destruct (placed_on ins a t2 k) eqn:H2; [|reflexivity].
    destruct (meets a t1 t2) eqn:Hm; [|reflexivity]. cbn [andb implb].
    apply forallb_forall. intros [r q] Hrq. cbn [fst snd]. specialize (H k w t1 t2 Hkw Hp H1 H2 Hm r q Hrq). lia.
Qed.
Corollary slots_monitor_sound : forall ins fs a, gen_z3 ins = Ok fs -> sat fs a = true -> slots_ok ins a = true.
Proof. intros ins fs a Hg Hs. apply slots_ok_iff. intros. eapply c10_z3_slots; eauto. Qed.
