(* C17: satisfiability of the hypotheses (Examples), the small facts about sources / sinks /
   parents / children, and the statements that are FALSE of the code as written (_refuted). *)
From Coq Require Import ZArith Bool List Lia ZifyBool Permutation.
Import ListNotations.
From Verif Require Import Model.Val Model.Graph Proofs.GraphPBase Proofs.GraphPDfs Proofs.GraphPTopo
  Proofs.GraphPDep Proofs.GraphPBfs Proofs.GraphPLong.
Open Scope Z_scope.

(* ------------------------------------------------------------------ sources, sinks, parents, children *)
Lemma sources_spec : forall g, wf g -> forall x,
  In x (get_sources g) <-> In x (nodes g) /\ forall u, ~ edge g u x.
Proof.
  intros g W x. rewrite (get_sources_in g x). split; intros [H1 H2]; split; auto.
  - intros u E. apply (wf_par g W) in E. rewrite H2 in E. destruct E.
  - destruct (parents_of g x) as [|p ps] eqn:Ep; [reflexivity|]. exfalso. apply (H2 p).
    apply (wf_par g W). rewrite Ep. left. reflexivity.
Qed.
Lemma sinks_spec : forall g x, In x (get_sinks g) <-> In x (nodes g) /\ forall v, ~ edge g x v.
Proof.
  intros g x. unfold get_sinks. rewrite filter_In. unfold edge. split; intros [H1 H2]; split; auto.
  - destruct (children_of g x); [intros v [] | discriminate].
  - destruct (children_of g x) as [|c cs]; [reflexivity|]. exfalso. apply (H2 c). left. reflexivity.
Qed.
Lemma parents_children_spec : forall g, wf g -> forall n, In n (nodes g) ->
  exists ps cs, get_parents g n = Ok ps /\ get_children g n = Ok cs /\
    (forall u, In u ps <-> edge g u n) /\ (forall v, In v cs <-> edge g n v).
Proof.
  intros g W n Hn. exists (parents_of g n), (children_of g n).
  split; [apply get_parents_ok; exact Hn|]. split; [apply get_children_ok; exact Hn|].
  split; [intro u; apply (wf_par g W) | intro v; reflexivity].
Qed.
Lemma unknown_node_errors : forall g n, ~ In n (nodes g) ->
  get_children g n = Err E_VALUE /\ get_parents g n = Err E_VALUE /\ is_source g n = Err E_VALUE /\
  forall mx, get_node_depth g n mx = Err E_VALUE.
Proof.
  intros g n H. assert (E : has_node g n = false).
  { destruct (has_node g n) eqn:E; [apply has_node_In in E; contradiction | reflexivity]. }
  unfold get_children, get_parents, is_source, get_node_depth, get_parents. rewrite E.
  unfold has_node in E. destruct (lookup n (g_children g)); [discriminate|]. auto.
Qed.

(* ------------------------------------------------------------------ a concrete DAG: two sources, a
   diamond, a skip edge;  0->1, 0->2, 0->3, 1->3, 2->3, 4->3, 3->5 *)
Definition ex_map : adj := [(0, [1; 2; 3]); (1, [3]); (2, [3]); (4, [3]); (3, [5])].
Definition ex_g : graph :=
  mkG [(0, [1; 2; 3]); (1, [3]); (2, [3]); (3, [5]); (4, [3]); (5, [])]
      [(1, [0]); (2, [0]); (3, [0; 1; 2; 4]); (5, [3])].
Lemma ex_g_built : of_mapping ex_map = Ok ex_g.
Proof. vm_compute. reflexivity. Qed.
Lemma ex_g_wf : wf ex_g.
Proof. destruct (of_mapping_wf ex_map) as [g [H W]]. rewrite ex_g_built in H. injection H as <-. exact W. Qed.
Lemma ex_g_topo : topological_sort ex_g = Ok [4; 0; 2; 1; 3; 5].
Proof. vm_compute. reflexivity. Qed.
Lemma ex_g_acyclic : acyclic ex_g.
Proof. eapply topo_ok_acyclic; [apply ex_g_wf | apply ex_g_topo]. Qed.
Lemma ex_g_simple : simple ex_g.
Proof.
  intro n. unfold children_of, ex_g. cbn [g_children lookup].
  repeat match goal with |- context [?a =? ?b] => destruct (a =? b) end;
    repeat constructor; cbn [In]; intuition discriminate.
Qed.
(* the hypotheses of every theorem of the family hold of ex_g, and the routines answer *)
Example ex_hypotheses : wf ex_g /\ acyclic ex_g /\ simple ex_g /\ nodes ex_g <> [] /\
  depth_first ex_g (Some 0) = ([0; 3; 5; 2; 1], 0) /\
  breadth_first ex_g None = ([0; 4; 1; 2; 3; 5], 0) /\
  are_dependent ex_g 4 5 = Ok true /\ are_dependent ex_g 4 1 = Ok false /\ are_dependent ex_g 1 2 = Ok false /\
  get_node_depth ex_g 3 true = Ok 3 /\ get_node_depth ex_g 3 false = Ok 2 /\
  longest_path_w (fun n => if n =? 2 then 5 else 1) ex_g = Ok [0; 2; 3; 5] /\
  critical_path (fun n => if n =? 2 then 5 else 1) ex_g = Ok 8 /\
  get_longest_path ex_g None = Ok [0; 1; 3; 5].
Proof.
  split; [apply ex_g_wf|]. split; [apply ex_g_acyclic|]. split; [apply ex_g_simple|].
  split; [discriminate|]. vm_compute. repeat split; reflexivity.
Qed.

(* a cyclic graph: 0 -> 1 -> 2 -> 0, 3 -> 0 *)
Definition ex_c : graph := mkG [(0, [1]); (1, [2]); (2, [0]); (3, [0])] [(1, [0]); (2, [1]); (0, [2; 3])].
Lemma ex_c_built : of_mapping [(0, [1]); (1, [2]); (2, [0]); (3, [0])] = Ok ex_c.
Proof. vm_compute. reflexivity. Qed.
Lemma ex_c_wf : wf ex_c.
Proof.
  destruct (of_mapping_wf [(0, [1]); (1, [2]); (2, [0]); (3, [0])]) as [g [H W]].
  rewrite ex_c_built in H. injection H as <-. exact W.
Qed.
Example ex_cyclic : wf ex_c /\ cyclic ex_c /\ topological_sort ex_c = Err E_RUNTIME /\
  are_dependent ex_c 0 1 = Err E_RUNTIME /\ depth_first ex_c (Some 3) = ([3; 0; 1; 2], 0).
Proof.
  split; [apply ex_c_wf|]. split.
  - exists 0. exists 1. split; [vm_compute; auto|].
    apply reach_step with 2; [vm_compute; auto|]. apply reach_step with 0; [vm_compute; auto | apply reach_refl].
  - vm_compute. repeat split; reflexivity.
Qed.

(* ------------------------------------------------------------------ refuted statements *)

(* (1) breadth_first() "yields every node once" is false when the mapping repeats a child
   (Graph({'A': ['B', 'B']}) is accepted by the constructor): B is yielded twice. *)
Definition mg : graph := mkG [(0, [1; 1]); (1, [])] [(1, [0; 0])].
Lemma mg_built : of_mapping [(0, [1; 1])] = Ok mg.
Proof. vm_compute. reflexivity. Qed.
Lemma bfs_once_parallel_edges_refuted :
  exists g, wf g /\ acyclic g /\ exists l, breadth_first g None = (l, 0) /\ ~ NoDup l.
Proof.
  exists mg. assert (W : wf mg).
  { destruct (of_mapping_wf [(0, [1; 1])]) as [g [H W]]. rewrite mg_built in H. injection H as <-. exact W. }
  split; [exact W|]. split.
  - apply (topo_ok_acyclic mg W [0; 1]). vm_compute. reflexivity.
  - exists [0; 1; 1]. split; [vm_compute; reflexivity|].
    intro N. inversion N as [|? ? _ N1]; subst. inversion N1 as [|? ? H _]; subst. apply H. left. reflexivity.
Qed.

(* (2) breadth_first(node) does not yield every node reachable from `node`: a child that also has
   an ANCESTOR of the start node as a parent is never released, because are_dependent(node, parent)
   is true for ancestors too and ancestors are never visited.  0->1, 0->2, 1->2: from 1 only [1]. *)
Definition sg : graph := mkG [(0, [1; 2]); (1, [2]); (2, [])] [(1, [0]); (2, [0; 1])].
Lemma sg_built : of_mapping [(0, [1; 2]); (1, [2])] = Ok sg.
Proof. vm_compute. reflexivity. Qed.
Lemma bfs_from_node_reachable_refuted :
  exists g n x, wf g /\ simple g /\ acyclic g /\ reach g n x /\
    exists l, breadth_first g (Some n) = (l, 0) /\ ~ In x l.
Proof.
  exists sg, 1, 2. assert (W : wf sg).
  { destruct (of_mapping_wf [(0, [1; 2]); (1, [2])]) as [g [H W]]. rewrite sg_built in H. injection H as <-. exact W. }
  split; [exact W|]. split.
  - intro n. unfold children_of, sg. cbn [g_children lookup].
    repeat match goal with |- context [?a =? ?b] => destruct (a =? b) end;
      repeat constructor; cbn [In]; intuition discriminate.
  - split; [apply (topo_ok_acyclic sg W [0; 1; 2]); vm_compute; reflexivity|].
    split; [apply reach_step with 2; [vm_compute; auto | apply reach_refl]|].
    exists [1]. split; [vm_compute; reflexivity|]. intros [H|[]]. discriminate.
Qed.

(* (3) with a zero weight (a probability-0 job, a zero-runtime task) the path returned need not
   start at a source (nor end at a sink): 0->1, w 0 = 0, w 1 = 1 gives [1]. *)
Definition zg : graph := mkG [(0, [1]); (1, [])] [(1, [0])].
Lemma longest_path_zero_weight_source_refuted :
  exists g w, wf g /\ acyclic g /\ (forall n, 0 <= w n) /\
    exists p, longest_path_w w g = Ok p /\ parents_of g (hd 0 p) <> [].
Proof.
  exists zg, (fun n => if n =? 0 then 0 else 1).
  assert (W : wf zg).
  { destruct (of_mapping_wf [(0, [1])]) as [g [H W]]. vm_compute in H. injection H as <-. exact W. }
  split; [exact W|]. split; [apply (topo_ok_acyclic zg W [0; 1]); vm_compute; reflexivity|].
  split; [intro n; destruct (n =? 0); lia|].
  exists [1]. split; [vm_compute; reflexivity | vm_compute; discriminate].
Qed.
Lemma longest_path_zero_weight_sink_refuted :
  exists g w, wf g /\ acyclic g /\ (forall n, 0 <= w n) /\
    exists p, longest_path_w w g = Ok p /\ children_of g (last p 0) <> [].
Proof.
  exists zg, (fun n => if n =? 0 then 1 else 0).
  assert (W : wf zg).
  { destruct (of_mapping_wf [(0, [1])]) as [g [H W]]. vm_compute in H. injection H as <-. exact W. }
  split; [exact W|]. split; [apply (topo_ok_acyclic zg W [0; 1]); vm_compute; reflexivity|].
  split; [intro n; destruct (n =? 0); lia|].
  exists [0]. split; [vm_compute; reflexivity | vm_compute; discriminate].
Qed.

(* (4) "dependent" is irreflexive in the implementation: a node is never dependent on itself
   (so `reachable` in the are_dependent theorem is reachability by at least one edge) *)
Lemma are_dependent_irreflexive : forall g, wf g -> acyclic g -> forall u, In u (nodes g) ->
  are_dependent g u u = Ok false.
Proof.
  intros g W A u Hu. destruct (are_dependent_spec g W A u u Hu Hu) as [b [R S]]. rewrite R.
  destruct b; [|reflexivity]. exfalso. destruct (proj1 S eq_refl) as [H|H]; exact (A u H).
Qed.
