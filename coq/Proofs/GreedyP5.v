(* Greedy policies, part 5: the C13 monitor (Model.Greedy.c13_check) -- its Prop form, and the proof that
   the model's own decisions always pass it on clusters with one worker per pool.  There a placement names
   its worker, so replaying any sub-sequence of the placements yields an emptier cluster than replaying a
   super-sequence (needs one more ledger law: placing the same strategy keeps two ordered workers ordered). *)
From Coq Require Import ZArith Bool List Lia ZifyBool Sorting.Sorted Permutation.
Import ListNotations.
From Verif Require Import Model.Val Gen.Src_Greedy Model.Greedy Proofs.GreedyP Proofs.GreedyP2 Proofs.GreedyP3.
Open Scope Z_scope.

Inductive subl {A : Type} : list A -> list A -> Prop :=
| sl_nil : subl [] []
| sl_keep x a b : subl a b -> subl (x :: a) (x :: b)
| sl_skip x a b : subl a b -> subl a (x :: b).

Lemma subl_refl {A} (l : list A) : subl l l.
Proof. induction l; constructor; auto. Qed.
Lemma subl_filter2 {A} (f g : A -> bool) l : (forall x, In x l -> f x = true -> g x = true) -> subl (filter f l) (filter g l).
Proof.
  induction l as [|x r IH]; intros H; cbn [filter]; [constructor|].
  assert (subl (filter f r) (filter g r)) as IH' by (apply IH; intros y Hy; apply H; right; exact Hy).
  destruct (f x) eqn:Fx.
  - rewrite (H x (or_introl eq_refl) Fx). constructor. exact IH'.
  - destruct (g x); [constructor|]; exact IH'.
Qed.
Lemma subl_filter {A} (f : A -> bool) l : subl (filter f l) l.
Proof. induction l as [|x r IH]; cbn [filter]; [constructor|]. destruct (f x); constructor; exact IH. Qed.
Lemma subl_app_nil_r {A} (a b : list A) : subl a (a ++ b).
Proof.
  induction a as [|x a IH]; cbn [app]; [|constructor; exact IH].
  induction b; constructor; auto.
Qed.
Lemma subl_trans {A} (b : list A) : forall a c, subl a b -> subl b c -> subl a c.
Proof.
  intros a c H1 H2. revert a H1. induction H2 as [|x b c H2 IH|x b c H2 IH]; intros a H1.
  - exact H1.
  - inversion H1; subst; constructor; auto.
  - constructor. auto.
Qed.

Lemma F2_len {A B} (R : A -> B -> Prop) a b : Forall2 R a b -> length a = length b.
Proof. induction 1; cbn; congruence. Qed.

Definition is_place (d : decision) : bool := match d with DPlace _ _ _ _ => true | _ => false end.

Section Monitor.
  Variable L : ledger.
  Variable wle : wk L -> wk L -> Prop.
  Variable wok : wk L -> Prop.
  Variable sok : st L -> Prop.
  Variable LL : ledger_laws L wle wok sok.
  Hypothesis wplace_mono : forall a b t s, wok a -> wok b -> sok s -> wle a b -> can L b s = true ->
    wle (wplace L a t s) (wplace L b t s).
  Notation task := (task L).
  Notation pool := (pool L).
  Notation cluster := (cluster L).
  Notation cle := (cle L wle).
  Notation ple := (ple L wle).
  Notation cok := (cok L wok).
  Notation tasks_ok := (tasks_ok L sok).

  Let wle_refl := ll_refl _ _ _ _ LL.
  Let wle_trans := ll_trans _ _ _ _ LL.
  Let wplace_le := ll_place_le _ _ _ _ LL.
  Let wplace_ok := ll_place_ok _ _ _ _ LL.
  Let wreset_ok := ll_reset_ok _ _ _ _ LL.
  Let can_antitone := ll_antitone _ _ _ _ LL.

  Definition sw (c : cluster) : Prop := Forall (fun p : pool => length (snd p) = 1%nat) c.
  Lemma single_worker_sw c : single_worker L c = true <-> sw c.
  Proof.
    unfold single_worker, sw. rewrite forallb_forall, Forall_forall. split; intros H p Hp; specialize (H p Hp).
    - apply Nat.eqb_eq. exact H.
    - apply Nat.eqb_eq. exact H.
  Qed.

  Definition stepf (t : Z) (s : st L) : pool -> option pool :=
    fun p => if pool_can L p s then Some (pool_place L p t s) else None.

  (* one pool, both sides *)
  Lemma pool_step (p1 p2 : pool) t s : sok s -> ple p1 p2 -> Forall wok (snd p1) -> Forall wok (snd p2) ->
    length (snd p2) = 1%nat -> pool_can L p2 s = true ->
    pool_can L p1 s = true /\ ple (pool_place L p1 t s) (pool_place L p2 t s) /\
    Forall wok (snd (pool_place L p1 t s)) /\ Forall wok (snd (pool_place L p2 t s)) /\
    length (snd (pool_place L p2 t s)) = 1%nat.
  Proof.
    intros Hs [Eid Hws] Hok1 Hok2 Hlen Hc.
    destruct p1 as [i1 ws1], p2 as [i2 ws2]. cbn [fst snd] in *.
    destruct ws2 as [|w2 [|? ?]]; try discriminate. inversion Hws as [|w1 ? ws1' ? Hw Hr]; subst. inversion Hr; subst.
    inversion Hok1 as [|? ? Hok1' _]; subst. inversion Hok2 as [|? ? Hok2' _]; subst.
    unfold pool_can in *. cbn [snd existsb] in *. rewrite orb_false_r in *.
    assert (can L w1 s = true) as Hc1 by (eapply can_antitone; eauto).
    split; [exact Hc1|]. unfold pool_place. cbn [snd place_first fst]. rewrite Hc, Hc1. cbn [snd fst].
    split; [split; [reflexivity|constructor; [apply wplace_mono; assumption|constructor]]|].
    split; [constructor; [apply wplace_ok; assumption|constructor]|].
    split; [constructor; [apply wplace_ok; assumption|constructor]|reflexivity].
  Qed.

  Lemma update_step (c1 c2 : cluster) pid t s : sok s -> cle c1 c2 -> cok c1 -> cok c2 -> sw c2 ->
    forall c2', pool_update L c2 pid (stepf t s) = Some c2' ->
    exists c1', pool_update L c1 pid (stepf t s) = Some c1' /\ cle c1' c2' /\ cok c1' /\ cok c2' /\ sw c2'.
  Proof.
    intros Hs Hle. induction Hle as [|p1 p2 c1 c2 Hp Hle IH]; intros Hok1 Hok2 Hsw c2' H; cbn [pool_update] in *; [discriminate|].
    inversion Hok1 as [|? ? Hp1 Hok1']; subst. inversion Hok2 as [|? ? Hp2 Hok2']; subst. inversion Hsw as [|? ? Hl Hsw']; subst.
    destruct Hp as [Eid Hws]. rewrite Eid. destruct (fst p2 =? pid) eqn:Q.
    - unfold stepf in *. destruct (pool_can L p2 s) eqn:C2; [|discriminate]. inversion H; subst.
      destruct (pool_step p1 p2 t s Hs (conj Eid Hws) Hp1 Hp2 Hl C2) as (C1 & Hple & O1 & O2 & Len).
      rewrite C1. eexists. split; [reflexivity|].
      split; [constructor; assumption|]. split; [constructor; assumption|]. split; constructor; assumption.
    - destruct (pool_update L c2 pid (stepf t s)) as [r2|] eqn:U; [|discriminate]. inversion H; subst.
      destruct (IH Hok1' Hok2' Hsw' r2 eq_refl) as (r1 & U1 & Hle' & O1 & O2 & S2).
      rewrite U1. eexists. split; [reflexivity|].
      split; [constructor; [split; assumption|assumption]|]. split; [constructor; assumption|].
      split; constructor; assumption.
  Qed.
  Lemma update_skip (c2 : cluster) pid t s : sok s -> cok c2 -> sw c2 ->
    forall c2', pool_update L c2 pid (stepf t s) = Some c2' -> cle c2 c2' /\ cok c2' /\ sw c2'.
  Proof.
    intros Hs. induction c2 as [|p r IH]; intros Hok Hsw c2' H; cbn [pool_update] in H; [discriminate|].
    inversion Hok as [|? ? Hp Hok']; subst. inversion Hsw as [|? ? Hl Hsw']; subst.
    destruct (fst p =? pid).
    - unfold stepf in H. destruct (pool_can L p s); [|discriminate]. inversion H; subst.
      destruct (pool_place_le L wle wok sok wle_refl wplace_le wplace_ok p t s Hp Hs) as [Hple Hok2].
      split; [constructor; [exact Hple|apply cle_refl; exact wle_refl]|]. split; [constructor; assumption|].
      constructor; [|exact Hsw']. destruct Hple as [_ F2]. rewrite <- (F2_len _ _ _ F2). exact Hl.
    - destruct (pool_update L r pid (stepf t s)) as [r'|] eqn:U; [|discriminate]. inversion H; subst.
      destruct (IH Hok' Hsw' r' eq_refl) as (Hle & O & S).
      split; [constructor; [apply ple_refl; exact wle_refl|exact Hle]|]. split; constructor; assumption.
  Qed.

  Lemma strat_ok (ts : list task) t tk k s : tasks_ok ts -> find_task L ts t = Some tk -> nth_error (t_strats tk) k = Some s -> sok s.
  Proof.
    intros Hts Ft Hn. apply find_task_some in Ft. destruct Ft as [Hin _].
    unfold GreedyP2.tasks_ok in Hts. rewrite Forall_forall in Hts. specialize (Hts tk Hin).
    rewrite Forall_forall in Hts. apply Hts. eapply nth_error_In; exact Hn.
  Qed.

  Lemma apply_step (ts : list task) (c1 c2 : cluster) d : tasks_ok ts -> cle c1 c2 -> cok c1 -> cok c2 -> sw c2 ->
    forall c2', apply_decision L ts c2 d = Some c2' ->
    exists c1', apply_decision L ts c1 d = Some c1' /\ cle c1' c2' /\ cok c1' /\ cok c2' /\ sw c2'.
  Proof.
    intros Hts Hle Hok1 Hok2 Hsw c2' H. destruct d as [t|t pid k time|t]; cbn [apply_decision] in *.
    - inversion H; subst. exists c1. auto.
    - destruct (find_task L ts t) as [tk|] eqn:Ft; [|discriminate].
      destruct (nth_error (t_strats tk) k) as [s|] eqn:Hn; [|discriminate].
      eapply (update_step c1 c2 pid t s (strat_ok ts t tk k s Hts Ft Hn) Hle Hok1 Hok2 Hsw). exact H.
    - inversion H; subst. exists c1. auto.
  Qed.
  Lemma apply_skip (ts : list task) (c2 : cluster) d : tasks_ok ts -> cok c2 -> sw c2 ->
    forall c2', apply_decision L ts c2 d = Some c2' -> cle c2 c2' /\ cok c2' /\ sw c2'.
  Proof.
    intros Hts Hok Hsw c2' H. destruct d as [t|t pid k time|t]; cbn [apply_decision] in *.
    - inversion H; subst. split; [apply cle_refl; exact wle_refl|auto].
    - destruct (find_task L ts t) as [tk|] eqn:Ft; [|discriminate].
      destruct (nth_error (t_strats tk) k) as [s|] eqn:Hn; [|discriminate].
      eapply (update_skip c2 pid t s (strat_ok ts t tk k s Hts Ft Hn) Hok Hsw). exact H.
    - inversion H; subst. split; [apply cle_refl; exact wle_refl|auto].
  Qed.

  (* replaying a sub-sequence from an emptier cluster succeeds and ends emptier *)
  Lemma replay_subl (ts : list task) d1 d2 : subl d1 d2 -> tasks_ok ts ->
    forall c1 c2 c2f, cle c1 c2 -> cok c1 -> cok c2 -> sw c2 -> replay L ts c2 d2 = Some c2f ->
    exists c1f, replay L ts c1 d1 = Some c1f /\ cle c1f c2f /\ cok c1f /\ cok c2f.
  Proof.
    intros Hs Hts. induction Hs as [|d a b Hs IH|d a b Hs IH]; intros c1 c2 c2f Hle Hok1 Hok2 Hsw H; cbn [replay] in *.
    - inversion H; subst. exists c1. auto.
    - destruct (apply_decision L ts c2 d) as [c2'|] eqn:A2; [|discriminate].
      destruct (apply_step ts c1 c2 d Hts Hle Hok1 Hok2 Hsw c2' A2) as (c1' & A1 & Hle' & O1 & O2 & S2).
      rewrite A1. eapply IH; eauto.
    - destruct (apply_decision L ts c2 d) as [c2'|] eqn:A2; [|discriminate].
      destruct (apply_skip ts c2 d Hts Hok2 Hsw c2' A2) as (Hle' & O2 & S2).
      eapply IH; [eapply cle_trans; [exact wle_trans|exact Hle|exact Hle']|exact Hok1|exact O2|exact S2|exact H].
  Qed.

  Lemma replay_filter_place (ts : list task) ds : forall c, replay L ts c (filter is_place ds) = replay L ts c ds.
  Proof.
    induction ds as [|d r IH]; intros c; cbn [filter replay]; [reflexivity|].
    destruct d as [t|t pid k time|t]; cbn [is_place replay apply_decision]; try apply IH.
    destruct (find_task L ts t); [|reflexivity]. destruct (nth_error (t_strats t0) k); [|reflexivity].
    destruct (pool_update L c pid _); [apply IH|reflexivity].
  Qed.

  (* ---------- the monitor's Prop form *)
  Definition sel_for (dkey : tattrs -> list Z) (x : task) : task -> bool :=
    fun y => negb (t_id y =? t_id x) && lex_leb (dkey (t_attrs y)) (dkey (t_attrs x)).
  Definition C13obs (dkey : tattrs -> list Z) (ts : list task) (v : cluster) (ds : list decision) : Prop :=
    forall t, In (DUnplaced t) ds ->
      exists x vx, find_task L ts t = Some x /\
        account L ts v ds (fun y => negb (t_id y =? t) && lex_leb (dkey (t_attrs y)) (dkey (t_attrs x))) = Some vx /\
        forall s p w, In s (t_strats x) -> In p vx -> In w (snd p) -> can L w s = false.
  Theorem c13_check_iff dkey ts v ds : c13_check L dkey ts v ds = true <-> C13obs dkey ts v ds.
  Proof.
    unfold c13_check, C13obs. rewrite forallb_forall. split.
    - intros H t Hin. specialize (H _ Hin). cbn [c13_task_ok] in H.
      destruct (find_task L ts t) as [x|]; [|discriminate].
      destruct (account L ts v ds _) as [vx|] eqn:A; [|discriminate].
      exists x, vx. split; [reflexivity|]. split; [exact A|]. apply task_fits_false. apply negb_true_iff. exact H.
    - intros H d Hd. destruct d as [t|t pid k time|t]; cbn [c13_task_ok]; try reflexivity.
      destruct (H t Hd) as (x & vx & Ft & A & F). rewrite Ft, A. apply negb_true_iff. apply task_fits_false. exact F.
  Qed.

  (* ---------- the model's decisions pass the monitor *)
  Theorem c13_monitor_model P dkey e pre now (c : cluster) offered ds cf :
    (forall t, p_key P now t = dkey t) ->
    NoDup (map (@t_id L) offered) -> NoDup (map fst c) -> cok c -> tasks_ok offered ->
    sw (virtual L P pre c) ->
    schedule_full L P e pre now c offered = Ok (ds, cf) ->
    c13_check L dkey offered (virtual L P pre c) ds = true.
  Proof.
    intros Hkey NDt NDc Hok Hts Hsw H. apply c13_check_iff. intros t Hin.
    set (v := virtual L P pre c) in *.
    destruct (contract_generic L P e pre now c offered ds cf NDt NDc H) as [_ [Hrep Hids]]. fold v in Hrep.
    apply In_nth_error in Hin. destruct Hin as [i Hd].
    assert (length ds = length (ordered L P now offered)) as Hlen
      by (rewrite <- (map_length dec_task), Hids, map_length; reflexivity).
    destruct (nth_error (ordered L P now offered) i) as [x|] eqn:Hx;
      [|apply nth_error_None in Hx; assert (i < length ds)%nat by (apply nth_error_Some; congruence); lia].
    assert (t_id x = t) as Hid.
    { pose proof (map_nth_error dec_task i ds Hd) as E1. pose proof (map_nth_error (@t_id L) i _ Hx) as E2.
      rewrite Hids in E1. rewrite E1 in E2. inversion E2. reflexivity. }
    subst t.
    pose proof (sort_by_perm (fun t : task => p_key P now (t_attrs t)) offered) as Perm. fold (ordered L P now offered) in Perm.
    pose proof (nodup_functional L offered NDt) as Fun.
    assert (In x offered) as Hxin by (eapply Permutation_in; [apply Permutation_sym; exact Perm|eapply nth_error_In; exact Hx]).
    assert (cok v) as Hokv by (apply (virtual_ok L wok wreset_ok); exact Hok).
    destruct (c13_laws L wle wok sok LL P e pre now c offered ds cf i x Hok Hts H Hx Hd)
      as (V & R1 & Funfit & _ & _ & Hpre & _). fold v in R1.
    exists x.
    (* the prefix replays to V *)
    assert (replay L offered v (firstn i ds) = Some V) as RepV.
    { assert (NoDup (map fst v)) as NDv.
      { unfold v, virtual. destruct (p_reset P pre); [|exact NDc]. rewrite map_map. cbn [fst]. exact NDc. }
      eapply (run_replay L P e now offered); [exact Fun| |exact NDv|exact R1].
      intros y Hy. eapply Permutation_in; [apply Permutation_sym; exact Perm|].
      rewrite <- (firstn_skipn i (ordered L P now offered)). apply in_or_app. left. exact Hy. }
    set (sel := fun y : task => negb (t_id y =? t_id x) && lex_leb (dkey (t_attrs y)) (dkey (t_attrs x))).
    (* every placement among the first i decisions is selected *)
    assert (forall d, In d (firstn i ds) -> is_place d = true -> placed_sel L offered sel d = true) as Hsel.
    { intros d Hdin Hpl. apply In_nth_error in Hdin. destruct Hdin as [j Hj].
      assert (j < i)%nat as Hji.
      { assert (j < length (firstn i ds))%nat as Hjl0 by (apply nth_error_Some; congruence). rewrite firstn_length in Hjl0. lia. }
      assert (nth_error ds j = Some d) as Hj' by (rewrite <- (firstn_skipn i ds); rewrite nth_error_app1; [exact Hj|apply nth_error_Some; congruence]).
      destruct (nth_error (ordered L P now offered) j) as [y|] eqn:Hy;
        [|apply nth_error_None in Hy; assert (j < length ds)%nat by (apply nth_error_Some; congruence); lia].
      assert (dec_task d = t_id y) as Hdy.
      { pose proof (map_nth_error dec_task j ds Hj') as E1. pose proof (map_nth_error (@t_id L) j _ Hy) as E2.
        rewrite Hids in E1. rewrite E1 in E2. inversion E2. reflexivity. }
      assert (In y offered) as Hyin by (eapply Permutation_in; [apply Permutation_sym; exact Perm|eapply nth_error_In; exact Hy]).
      destruct d as [t'|t' pid k time|t']; try discriminate. cbn [dec_task] in Hdy. subst t'.
      cbn [placed_sel]. rewrite (find_task_in L offered y Fun Hyin). unfold sel. apply andb_true_iff. split.
      - apply negb_true_iff. apply Z.eqb_neq. intros E.
        assert (NoDup (map (@t_id L) (ordered L P now offered))) as NDo
          by (eapply Permutation_NoDup; [apply Permutation_map; exact Perm|exact NDt]).
        rewrite NoDup_nth_error in NDo. specialize (NDo j i).
        assert (j < length (map (@t_id L) (ordered L P now offered)))%nat as Hjl
          by (rewrite map_length; assert (i < length ds)%nat by (apply nth_error_Some; congruence); lia).
        specialize (NDo Hjl). rewrite (map_nth_error (@t_id L) j _ Hy), (map_nth_error (@t_id L) i _ Hx), E in NDo.
        specialize (NDo eq_refl). lia.
      - rewrite Forall_forall in Hpre.
        assert (In y (firstn i (ordered L P now offered))) as Hyp.
        { rewrite <- (firstn_skipn i (ordered L P now offered)) in Hy. rewrite nth_error_app1 in Hy.
          - eapply nth_error_In; exact Hy.
          - rewrite firstn_length. assert (i < length ds)%nat by (apply nth_error_Some; congruence). lia. }
        specialize (Hpre y Hyp). unfold prio_le in Hpre. rewrite !Hkey in Hpre. exact Hpre. }
    assert (filter is_place (firstn i ds) = filter (placed_sel L offered sel) (firstn i ds)) as Efil.
    { apply filter_ext_in. intros d Hdin. destruct (is_place d) eqn:Pl.
      - symmetry. apply Hsel; assumption.
      - destruct d; try discriminate; reflexivity. }
    assert (subl (filter (placed_sel L offered sel) (firstn i ds)) (filter (placed_sel L offered sel) ds)) as S1.
    { rewrite <- (firstn_skipn i ds) at 2. rewrite filter_app. apply subl_app_nil_r. }
    assert (subl (filter (placed_sel L offered sel) ds) ds) as S2 by apply subl_filter.
    (* the selected placements replay to some vx below cf ... *)
    destruct (replay_subl offered _ _ S2 Hts v v cf (cle_refl L wle wle_refl v) Hokv Hokv Hsw Hrep) as (vx & Avx & _ & Hokvx & _).
    exists vx. split; [apply find_task_in; assumption|]. split; [exact Avx|].
    (* ... and above V *)
    destruct (replay_subl offered _ _ S1 Hts v v vx (cle_refl L wle wle_refl v) Hokv Hokv Hsw Avx) as (V' & AV & HleV & HokV & _).
    rewrite <- Efil, replay_filter_place, RepV in AV. inversion AV; subst V'.
    apply task_fits_false.
    eapply (task_unfit_later L wle wok sok can_antitone); [|exact HokV|exact Hokvx|exact HleV|apply task_fits_false; exact Funfit].
    unfold GreedyP2.tasks_ok in Hts. rewrite Forall_forall in Hts. apply Hts. exact Hxin.
  Qed.
End Monitor.

(* the simple ledger satisfies the extra law, so its model always passes mon_c13 *)
Theorem c13_monitor_model_SL P dkey e pre now (c : cluster SL) offered ds cf :
  (forall t, p_key P now t = dkey t) ->
  NoDup (map (@t_id SL) offered) -> NoDup (map fst c) -> s_cok c -> s_tasks_ok offered ->
  single_worker SL (virtual SL P pre c) = true ->
  schedule_full SL P e pre now c offered = Ok (ds, cf) ->
  c13_check SL dkey offered (virtual SL P pre c) ds = true.
Proof.
  intros Hk ND1 ND2 H1 H2 Hs H. eapply (c13_monitor_model SL s_wle s_wok s_sok SL_laws); eauto.
  - intros a b t s Ha Hb Hs' Hle Hc. apply s_wplace_mono; assumption.
  - apply (single_worker_sw SL). exact Hs.
Qed.

Lemma schedule_full_of L P e pre now (c : cluster L) offered ds :
  schedule L P e pre now c offered = Ok ds -> exists cf, schedule_full L P e pre now c offered = Ok (ds, cf).
Proof.
  unfold schedule. destruct (schedule_full L P e pre now c offered) as [[ds' cf]|] eqn:E; cbn [bind fst]; [|discriminate].
  intros H. inversion H; subst. exists cf. reflexivity.
Qed.

(* the monitor applied to the model's own output is always true: it cannot raise a false alarm against an
   implementation that agrees with the model *)
Theorem mon_c13_model code e pre now (c : cluster SL) offered ds :
  code = 0 \/ code = 1 \/ code = 2 ->
  NoDup (map (@t_id SL) offered) -> NoDup (map fst c) -> s_cok c -> s_tasks_ok offered ->
  schedule SL (policy_of_code code) e pre now c offered = Ok ds ->
  mon_c13 (mkGO (mkGI code e pre now c offered) ds) = true.
Proof.
  intros Hcode ND1 ND2 H1 H2 H. destruct (schedule_full_of _ _ _ _ _ _ _ _ H) as [cf Hf].
  unfold mon_c13, go_virtual. cbn [go_in go_decisions gi_policy gi_preemptive gi_cluster gi_offered gi_now].
  assert (virtual SL (doc_policy_shell code) pre c = virtual SL (policy_of_code code) pre c) as Ev.
  { unfold virtual. destruct Hcode as [Hc|[Hc|Hc]]; subst code; destruct pre; reflexivity. }
  rewrite Ev. destruct (single_worker SL (virtual SL (policy_of_code code) pre c)) eqn:S; [|reflexivity].
  cbn [negb orb].
  destruct Hcode as [Hc|[Hc|Hc]]; subst code;
    (eapply c13_monitor_model_SL; [intros t; reflexivity|exact ND1|exact ND2|exact H1|exact H2|exact S|exact Hf]).
Qed.

(* the corollary in replay terms: applying ONLY the decisions taken for the tasks ordered before x -- i.e. discarding
   every placement of a later (lower-or-equal priority) task -- gives a cluster in which x still fits nowhere *)
Theorem c13_discard_later L wle wok sok (LL : ledger_laws L wle wok sok) P e pre now (c : cluster L) offered ds cf i x :
  NoDup (map (@t_id L) offered) -> NoDup (map fst c) -> cok L wok c -> tasks_ok L sok offered ->
  schedule_full L P e pre now c offered = Ok (ds, cf) ->
  nth_error (ordered L P now offered) i = Some x -> nth_error ds i = Some (DUnplaced (t_id x)) ->
  exists V, replay L offered (virtual L P pre c) (firstn i ds) = Some V /\ task_fits L V x = false /\
            Forall (fun d => exists y, In y (firstn i (ordered L P now offered)) /\ dec_task d = t_id y) (firstn i ds).
Proof.
  intros NDt NDc Hok Hts H Hx Hd.
  destruct (c13_laws L wle wok sok LL P e pre now c offered ds cf i x Hok Hts H Hx Hd) as (V & R1 & Funfit & _).
  pose proof (sort_by_perm (fun t : task L => p_key P now (t_attrs t)) offered) as Perm. fold (ordered L P now offered) in Perm.
  exists V. split; [|split; [apply task_fits_false; exact Funfit|]].
  - assert (NoDup (map fst (virtual L P pre c))) as NDv.
    { unfold virtual. destruct (p_reset P pre); [|exact NDc]. rewrite map_map. cbn [fst]. exact NDc. }
    eapply (run_replay L P e now offered); [apply nodup_functional; exact NDt| |exact NDv|exact R1].
    intros y Hy. eapply Permutation_in; [apply Permutation_sym; exact Perm|].
    rewrite <- (firstn_skipn i (ordered L P now offered)). apply in_or_app. left. exact Hy.
  - pose proof (run_tasks L P e now _ _ _ _ R1) as Ht. apply Forall_forall. intros d Hdin.
    assert (In (dec_task d) (map (@t_id L) (firstn i (ordered L P now offered)))) as X by (rewrite <- Ht; apply in_map; exact Hdin).
    apply in_map_iff in X. destruct X as [y [E Hy]]. exists y. auto.
Qed.
