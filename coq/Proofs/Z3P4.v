(* Witnesses: non-vacuity examples and refutations (findings) for the Z3 parts of C10. *)
From Coq Require Import ZArith Bool List Lia ZifyBool.
Import ListNotations.
From Verif Require Import Model.Val Gen.Src_Z3 Model.Z3Model Proofs.Z3P Proofs.Z3P2 Proofs.Z3P3.
Open Scope Z_scope.

(* ---- non-vacuity of the exclusivity theorem: two independent tasks of one graph, both placed at
        time 0 on the one worker (2 CPU), holding slot 0 and slot 1 *)
Definition ex_par : instance :=
  mkInst 0 false
    [mkTask 0 0 0 5 20 [mkStrat 5 [(0, 1)]] [] 1; mkTask 1 0 0 5 20 [mkStrat 5 [(0, 1)]] [] 1]
    [mkWorker 0 0 [(0, 2, 2)]] [] [(0, 20)].
Definition ex_par_asg : asg :=
  asg_of [(VStart 0, 0); (VStart 1, 0); (VPlaced 0, 1); (VPlaced 1, 1); (VWorker 0, 1); (VWorker 1, 1);
          (VRes 0 0, 1); (VRes 1 0, 2); (VEnds 0 1, 0); (VEnds 1 0, 0); (VOverlap 0 1, 1); (VIndep 0 0 0 1, 1);
          (VPenalty, -2000000000); (VSlack 0, 15); (VGoal, 30)].
Example c10_z3_slots_nonvacuous : exists fs w t1 t2,
  gen_z3 ex_par = Ok fs /\ sat fs ex_par_asg = true /\ In (0, w) (indexed_from 0 (i_workers ex_par)) /\
  In (t1, t2) (pairs ex_par) /\ placed_on ex_par ex_par_asg t1 0 = true /\ placed_on ex_par ex_par_asg t2 0 = true /\
  meets ex_par_asg t1 t2 = true /\ In (0, 2) (shared_keys w t1 t2) /\
  capacity_ok ex_par ex_par_asg = true /\ decisions_ok ex_par ex_par_asg = true.
Proof.
  destruct (gen_z3 ex_par) as [fs|c] eqn:E; [|vm_compute in E; discriminate].
  exists fs, (mkWorker 0 0 [(0, 2, 2)]), (mkTask 0 0 0 5 20 [mkStrat 5 [(0, 1)]] [] 1), (mkTask 1 0 0 5 20 [mkStrat 5 [(0, 1)]] [] 1).
  vm_compute in E. inversion E; subst. vm_compute. repeat split; auto.
Qed.

(* ---- FINDING FZ3-A (returns normally): a partially occupied worker.  One worker with 2 CPU, 1 held by
        a running task; two independent 1-CPU tasks offered: the vectors are 1 bit wide (widest
        AVAILABLE quantity) but the exclusivity row extracts bits 1..0 (TOTAL quantity): z3 raises. *)
Definition ex_crash_a : instance :=
  mkInst 2 false
    [mkTask 2 0 0 5 50 [mkStrat 5 [(0, 1)]] [] 1; mkTask 1 0 0 5 50 [mkStrat 5 [(0, 1)]] [] 1]
    [mkWorker 0 0 [(0, 2, 1)]] [] [(0, 50)].
(* ---- FINDING FZ3-B: CPU-only cluster, task with strategies [GPU fast; CPU slow]: a GPU vector of width 0 *)
Definition ex_crash_b : instance :=
  mkInst 0 false [mkTask 0 0 0 6 50 [mkStrat 3 [(1, 1)]; mkStrat 6 [(0, 1)]] [] 1] [mkWorker 0 0 [(0, 2, 2)]] [] [(0, 50)].
Lemma c10_z3_returns_normally_refuted :
  gen_z3 ex_crash_a = Err z3_exception /\ gen_z3 ex_crash_b = Err z3_exception.
Proof. split; vm_compute; reflexivity. Qed.

(* ---- FINDING FZ3-D: a worker with two keys of one resource name (GPU:a = 2, GPU:b = 2, 4 available);
        two tasks of different graphs need 3 each; the point below (the one z3 returns) satisfies every
        row and runs both at time 0 on that worker: 6 > 4 *)
Definition ex_multikey : instance :=
  mkInst 0 false
    [mkTask 0 0 0 5 50 [mkStrat 5 [(0, 3)]] [] 1; mkTask 1 1 0 5 50 [mkStrat 5 [(0, 3)]] [] 1]
    [mkWorker 0 0 [(0, 2, 2); (0, 2, 2)]] [] [(0, 50); (1, 50)].
Definition ex_multikey_asg : asg :=
  asg_of [(VStart 0, 0); (VStart 1, 0); (VPlaced 0, 1); (VPlaced 1, 1); (VWorker 0, 1); (VWorker 1, 1);
          (VRes 0 0, 13); (VRes 1 0, 14); (VEnds 0 1, 0); (VEnds 1 0, 0); (VOverlap 0 1, 1); (VIndep 0 0 0 1, 1);
          (VPenalty, -2000000000); (VSlack 0, 45); (VSlack 1, 45); (VGoal, 90)].
Lemma c10_z3_capacity_multikey_refuted : exists fs w,
  gen_z3 ex_multikey = Ok fs /\ sat fs ex_multikey_asg = true /\ nth_error (i_workers ex_multikey) 0 = Some w /\
  load ex_multikey ex_multikey_asg 0 w 0 0 = 6 /\ avail w 0 = 4 /\ capacity_ok ex_multikey ex_multikey_asg = false.
Proof.
  destruct (gen_z3 ex_multikey) as [fs|c] eqn:E; [|vm_compute in E; discriminate].
  exists fs, (mkWorker 0 0 [(0, 2, 2); (0, 2, 2)]). vm_compute in E. inversion E; subst. vm_compute. repeat split; auto.
Qed.
