(* get_schedulable_tasks (model tg_schedulable): who is in the frontier (C18). *)
From Coq Require Import ZArith Bool List Lia ZifyBool.
Import ListNotations.
From Verif Require Import Model.Val Gen.Src_Task Gen.Src_TaskGraph Model.TaskGraph
  Proofs.TaskGraphP Proofs.TaskGraphP1 Proofs.TaskGraphP2.
Open Scope Z_scope.

Lemma tg_schedulable_unfold : forall g o draws fr d', tg_schedulable g o draws = Ok (fr, d') ->
  tg_ok g = true /\ exists ect order,
    tg_ect g (so_time o) (so_retract o) (so_policy o) draws = Ok (ect, d') /\ topo_sort g = Ok order /\
    fr = offer_loop g o ect order false ++ preempt_extra g o.
Proof.
  intros g o draws fr d' H. unfold tg_schedulable in H.
  destruct (tg_ok g) eqn:E; cbn [negb] in H; [|discriminate]. split; [reflexivity|].
  destruct (tg_ect g (so_time o) (so_retract o) (so_policy o) draws) as [[ect dd]|e] eqn:E1; cbn [bind] in H; [|discriminate].
  destruct (topo_sort g) as [order|e] eqn:E2; cbn [bind fst snd] in H; [|discriminate].
  inversion H; subst. exists ect, order. auto.
Qed.

(* the arguments with which the offer test is evaluated for task n *)
Definition offer_of (g : tgraph) (o : sched_opts) (ect : ect_map) (n : Z) (ar : bool) : bool * bool :=
  let cur := al_get n ect in
  sched_offer (tg_state g n) (t_release_time (tt_dyn (tg_task g n))) (so_time o) (so_lookahead o)
              (match cur with Some _ => true | None => false end)
              (match cur with Some v => v | None => 0 end)
              ar (so_release_tg o) (so_retract o) (tg_remaining g n) (slowest_of (tg_task g n)).

Lemma offer_loop_unfold : forall g o ect n rest ar,
  offer_loop g o ect (n :: rest) ar =
  if fst (offer_of g o ect n ar) then n :: offer_loop g o ect rest (snd (offer_of g o ect n ar))
  else offer_loop g o ect rest (snd (offer_of g o ect n ar)).
Proof.
  intros. cbn [offer_loop]. unfold offer_of. cbv zeta.
  destruct (sched_offer _ _ _ _ _ _ _ _ _ _ _) as [a b]. reflexivity.
Qed.

Lemma offer_loop_in : forall g o ect order ar x, In x (offer_loop g o ect order ar) ->
  In x order /\ exists ar', fst (offer_of g o ect x ar') = true.
Proof.
  intros g o ect order; induction order as [|n rest IH]; intros ar x H; [contradiction|].
  rewrite offer_loop_unfold in H. destruct (fst (offer_of g o ect n ar)) eqn:E.
  - destruct H as [<-|H]; [split; [left; reflexivity | exists ar; exact E]|].
    apply IH in H. destruct H as [A B]. split; [right; exact A | exact B].
  - apply IH in H. destruct H as [A B]. split; [right; exact A | exact B].
Qed.

Lemma offer_loop_complete : forall g o ect order ar x, In x order ->
  (forall ar', fst (offer_of g o ect x ar') = true) -> In x (offer_loop g o ect order ar).
Proof.
  intros g o ect order; induction order as [|n rest IH]; intros ar x Hin Hx; [contradiction|].
  rewrite offer_loop_unfold. destruct Hin as [->|Hin].
  - rewrite Hx. left. reflexivity.
  - destruct (fst (offer_of g o ect n ar)); [right|]; apply IH; auto.
Qed.

(* the offer test, case by case *)
Lemma sched_offer_cases : forall s rel time la ie e ar rtg retract rem slow,
  fst (sched_offer s rel time la ie e ar rtg retract rem slow) = true ->
  (s = TS_RELEASED /\ rel <= time + la) \/ s = TS_PREEMPTED \/ s = TS_EVICTED \/
  (s = TS_VIRTUAL /\ ie = true /\ ((ar = true /\ rtg = true) \/ e <= time + la + rem)) \/
  (s = TS_SCHEDULED /\ retract = true /\ ie = true /\ ((ar = true /\ rtg = true) \/ e <= time + la + slow)).
Proof.
  intros s rel time la ie e ar rtg retract rem slow H. unfold sched_offer in H.
  destruct s; cbn in H.
  - (* VIRTUAL *) right. right. right. left.
    destruct ie; cbn in H; [|destruct retract; discriminate].
    destruct (ar && rtg) eqn:A; cbn in H.
    + apply andb_true_iff in A. tauto.
    + destruct (e <=? time + la + rem) eqn:B; cbn in H; [split; [reflexivity|]; split; [reflexivity|]; right; lia|].
      destruct retract; discriminate.
  - (* RELEASED *) left. destruct (rel <=? time + la) eqn:A; cbn in H; [split; [reflexivity | lia]|].
    destruct retract; discriminate.
  - (* SCHEDULED *) right. right. right. right.
    destruct retract; cbn in H; [|discriminate].
    destruct ie; cbn in H; [|discriminate].
    destruct (ar && rtg) eqn:A; cbn in H.
    + apply andb_true_iff in A. tauto.
    + destruct (e <=? time + la + slow) eqn:B; cbn in H; [|discriminate].
      split; [reflexivity|]. split; [reflexivity|]. split; [reflexivity|]. right. lia.
  - discriminate.
  - right. left. reflexivity.
  - right. right. left. reflexivity.
  - discriminate.
  - destruct retract; discriminate.
Qed.

Lemma sched_offer_released : forall rel time la ie e ar rtg retract rem slow, rel <= time + la ->
  fst (sched_offer TS_RELEASED rel time la ie e ar rtg retract rem slow) = true.
Proof.
  intros. unfold sched_offer. cbn. assert (rel <=? time + la = true) as -> by lia. reflexivity.
Qed.

(* monotone in the lookahead, in release_taskgraphs and in any_released *)
Lemma sched_offer_mono : forall s rel time la la' ie e ar ar' rtg rtg' retract rem slow,
  la <= la' -> (ar = true -> ar' = true) -> (rtg = true -> rtg' = true) ->
  (fst (sched_offer s rel time la ie e ar rtg retract rem slow) = true ->
   fst (sched_offer s rel time la' ie e ar' rtg' retract rem slow) = true) /\
  (snd (sched_offer s rel time la ie e ar rtg retract rem slow) = true ->
   snd (sched_offer s rel time la' ie e ar' rtg' retract rem slow) = true).
Proof.
  intros s rel time la la' ie e ar ar' rtg rtg' retract rem slow Hla Har Hrtg.
  unfold sched_offer.
  destruct s; cbn;
    repeat match goal with
           | |- context [if ?c then _ else _] => destruct c eqn:?; cbn
           end; split; intros; try reflexivity; try discriminate; try lia;
    try (destruct ar, ar', rtg, rtg'; cbn in *; try discriminate; try reflexivity;
         first [specialize (Har eq_refl) | specialize (Hrtg eq_refl) | idtac]; try discriminate; lia).
Qed.

Lemma preempt_extra_in : forall g o x, In x (preempt_extra g o) -> so_preemption o = true /\
  (match so_placed o with Some l => In x l
   | None => In x (tg_nodes g) /\ (tg_state g x = TS_SCHEDULED \/ tg_state g x = TS_RUNNING) end).
Proof.
  intros g o x H. unfold preempt_extra in H. destruct (so_preemption o); [|contradiction]. split; [reflexivity|].
  destruct (so_placed o); [exact H|]. apply filter_In in H. destruct H as [A B]. split; [exact A|].
  unfold sched_preempt_filter in B. apply orb_true_iff in B. rewrite !task_state_eqb_eq in B. exact B.
Qed.

(* every member of the frontier, classified *)
Theorem frontier_members : forall g o draws fr d' x, tg_schedulable g o draws = Ok (fr, d') -> In x fr ->
  (In x (tg_nodes g) /\
   ((tg_state g x = TS_RELEASED /\ t_release_time (tt_dyn (tg_task g x)) <= so_time o + so_lookahead o) \/
    tg_state g x = TS_PREEMPTED \/ tg_state g x = TS_EVICTED \/ tg_state g x = TS_VIRTUAL \/
    (tg_state g x = TS_SCHEDULED /\ so_retract o = true))) \/
  (so_preemption o = true /\
   match so_placed o with Some l => In x l
   | None => In x (tg_nodes g) /\ (tg_state g x = TS_SCHEDULED \/ tg_state g x = TS_RUNNING) end).
Proof.
  intros g o draws fr d' x H Hx. apply tg_schedulable_unfold in H.
  destruct H as (Hok & ect & order & _ & Ht & ->).
  apply in_app_or in Hx. destruct Hx as [Hx|Hx].
  - left. apply offer_loop_in in Hx. destruct Hx as [Hin (ar & Ho)].
    pose proof (topo_sort_ok _ _ (tg_ok_wf _ Hok) Ht) as (_ & Hn & _).
    split; [apply Hn; exact Hin|]. unfold offer_of in Ho. apply sched_offer_cases in Ho.
    destruct Ho as [A|[A|[A|[A|A]]]]; tauto.
  - right. apply preempt_extra_in. exact Hx.
Qed.

Theorem frontier_never_final : forall g o draws fr d' x, tg_schedulable g o draws = Ok (fr, d') ->
  so_placed o = None -> In x fr -> tg_state g x <> TS_COMPLETED /\ tg_state g x <> TS_CANCELLED.
Proof.
  intros g o draws fr d' x H Hp Hx. destruct (frontier_members _ _ _ _ _ _ H Hx) as [(_ & A)|(_ & A)].
  - destruct A as [(A & _)|[A|[A|[A|(A & _)]]]]; rewrite A; split; discriminate.
  - rewrite Hp in A. destruct A as (_ & [A|A]); rewrite A; split; discriminate.
Qed.

Theorem frontier_scheduled_only_if : forall g o draws fr d' x, tg_schedulable g o draws = Ok (fr, d') ->
  so_placed o = None -> In x fr -> tg_state g x = TS_SCHEDULED -> so_retract o = true \/ so_preemption o = true.
Proof.
  intros g o draws fr d' x H Hp Hx Hs. destruct (frontier_members _ _ _ _ _ _ H Hx) as [(_ & A)|(A & _)]; [|auto].
  destruct A as [(A & _)|[A|[A|[A|(_ & A)]]]]; try congruence. auto.
Qed.

Theorem frontier_running_only_if : forall g o draws fr d' x, tg_schedulable g o draws = Ok (fr, d') ->
  so_placed o = None -> In x fr -> tg_state g x = TS_RUNNING -> so_preemption o = true.
Proof.
  intros g o draws fr d' x H Hp Hx Hs. destruct (frontier_members _ _ _ _ _ _ H Hx) as [(_ & A)|(A & _)]; [|auto].
  destruct A as [(A & _)|[A|[A|[A|(A & _)]]]]; congruence.
Qed.

(* no starvation *)
Theorem frontier_no_starve : forall g o draws fr d' x, tg_schedulable g o draws = Ok (fr, d') ->
  In x (tg_nodes g) -> tg_state g x = TS_RELEASED ->
  t_release_time (tt_dyn (tg_task g x)) <= so_time o + so_lookahead o -> In x fr.
Proof.
  intros g o draws fr d' x H Hn Hs Hr. apply tg_schedulable_unfold in H.
  destruct H as (Hok & ect & order & _ & Ht & ->).
  pose proof (topo_sort_ok _ _ (tg_ok_wf _ Hok) Ht) as (_ & Hno & _).
  apply in_or_app. left. apply offer_loop_complete; [apply Hno; exact Hn|].
  intro ar. unfold offer_of. rewrite Hs. apply sched_offer_released. exact Hr.
Qed.
(* PREEMPTED and EVICTED tasks are always offered *)
Theorem frontier_preempted_evicted : forall g o draws fr d' x, tg_schedulable g o draws = Ok (fr, d') ->
  In x (tg_nodes g) -> tg_state g x = TS_PREEMPTED \/ tg_state g x = TS_EVICTED -> In x fr.
Proof.
  intros g o draws fr d' x H Hn Hs. apply tg_schedulable_unfold in H.
  destruct H as (Hok & ect & order & _ & Ht & ->).
  pose proof (topo_sort_ok _ _ (tg_ok_wf _ Hok) Ht) as (_ & Hno & _).
  apply in_or_app. left. apply offer_loop_complete; [apply Hno; exact Hn|].
  intro ar. unfold offer_of. destruct Hs as [-> | ->]; reflexivity.
Qed.

(* monotonicity *)
Definition opts_le (o o' : sched_opts) : Prop :=
  so_time o' = so_time o /\ so_lookahead o <= so_lookahead o' /\ so_preemption o' = so_preemption o /\
  so_retract o' = so_retract o /\ so_placed o' = so_placed o /\ so_policy o' = so_policy o /\
  (so_release_tg o = true -> so_release_tg o' = true).

Lemma offer_loop_mono : forall g o o' ect order ar ar', opts_le o o' -> (ar = true -> ar' = true) ->
  incl (offer_loop g o ect order ar) (offer_loop g o' ect order ar').
Proof.
  intros g o o' ect order; induction order as [|n rest IH]; intros ar ar' Hle Har; [intros x []|].
  rewrite !offer_loop_unfold.
  destruct Hle as (E1 & E2 & E3 & E4 & E5 & E6 & E7).
  assert (M := sched_offer_mono (tg_state g n) (t_release_time (tt_dyn (tg_task g n))) (so_time o) (so_lookahead o)
                 (so_lookahead o') (match al_get n ect with Some _ => true | None => false end)
                 (match al_get n ect with Some v => v | None => 0 end) ar ar' (so_release_tg o) (so_release_tg o')
                 (so_retract o) (tg_remaining g n) (slowest_of (tg_task g n)) E2 Har E7).
  destruct M as [M1 M2].
  assert (Eo : offer_of g o' ect n ar' = sched_offer (tg_state g n) (t_release_time (tt_dyn (tg_task g n))) (so_time o)
                 (so_lookahead o') (match al_get n ect with Some _ => true | None => false end)
                 (match al_get n ect with Some v => v | None => 0 end) ar' (so_release_tg o') (so_retract o)
                 (tg_remaining g n) (slowest_of (tg_task g n))).
  { unfold offer_of. rewrite E1, E4. reflexivity. }
  rewrite Eo. fold (offer_of g o ect n ar) in M1, M2. unfold offer_of in M1, M2 |- *.
  set (A := sched_offer _ _ _ (so_lookahead o) _ _ ar _ _ _ _) in *.
  set (B := sched_offer _ _ _ (so_lookahead o') _ _ ar' _ _ _ _) in *.
  assert (IH' : incl (offer_loop g o ect rest (snd A)) (offer_loop g o' ect rest (snd B))).
  { apply IH; [repeat split; auto | exact M2]. }
  destruct (fst A) eqn:EA.
  - rewrite (M1 eq_refl). intros x [<-|Hx]; [left; reflexivity | right; apply IH'; exact Hx].
  - destruct (fst B); [intros x Hx; right; apply IH'; exact Hx | exact IH'].
Qed.

Theorem frontier_mono : forall g o o' draws fr d' fr' d'', opts_le o o' ->
  tg_schedulable g o draws = Ok (fr, d') -> tg_schedulable g o' draws = Ok (fr', d'') ->
  incl fr fr' /\ d'' = d'.
Proof.
  intros g o o' draws fr d' fr' d'' Hle H H'.
  apply tg_schedulable_unfold in H. apply tg_schedulable_unfold in H'.
  destruct H as (Hok & ect & order & He & Ht & ->). destruct H' as (_ & ect' & order' & He' & Ht' & ->).
  pose proof Hle as (E1 & E2 & E3 & E4 & E5 & E6 & E7).
  rewrite E1, E4, E6, He in He'. inversion He'; subst ect' d''. rewrite Ht in Ht'. inversion Ht'; subst order'.
  split; [|reflexivity]. apply incl_app.
  - apply incl_appl. apply offer_loop_mono; auto.
  - apply incl_appr. unfold preempt_extra. rewrite E3, E5.
    apply incl_refl.
Qed.
