(* Lemmas about Model/Clockwork.v, part 3: sorted(), get_available_execution_strategies, get_placements. *)
From Coq Require Import ZArith Bool List Lia ZifyBool Sorting.Sorted Permutation.
Import ListNotations.
From Verif Require Import Model.Val Gen.Src_Clockwork Model.Clockwork Proofs.ClockworkP Proofs.ClockworkP2.
Open Scope Z_scope.

(* ------------------------------------------------------------------ sorted() *)
Lemma ins_by_perm : forall {A} (lt : A -> A -> bool) x l, Permutation (ins_by lt x l) (x :: l).
Proof.
  intros A lt x l. induction l as [|y l IH]; cbn [ins_by]; [apply Permutation_refl|].
  destruct (lt x y); [apply Permutation_refl|]. eapply perm_trans; [apply perm_skip; exact IH|apply perm_swap].
Qed.
Lemma isort_fold_perm : forall {A} (lt : A -> A -> bool) l acc, Permutation (fold_left (fun acc x => ins_by lt x acc) l acc) (l ++ acc).
Proof.
  intros A lt l. induction l as [|x l IH]; intros acc; cbn [fold_left app]; [apply Permutation_refl|].
  eapply perm_trans; [apply IH|]. eapply perm_trans; [apply Permutation_app_head; apply ins_by_perm|].
  apply Permutation_sym. apply Permutation_middle.
Qed.
Lemma isort_by_perm : forall {A} (lt : A -> A -> bool) l, Permutation (isort_by lt l) l.
Proof. intros. unfold isort_by. eapply perm_trans; [apply isort_fold_perm|]. rewrite app_nil_r. apply Permutation_refl. Qed.
Lemma isort_by_in : forall {A} (lt : A -> A -> bool) l y, In y (isort_by lt l) <-> In y l.
Proof. intros. split; apply Permutation_in; [|apply Permutation_sym]; apply isort_by_perm. Qed.
Lemma isort_by_length : forall {A} (lt : A -> A -> bool) l, length (isort_by lt l) = length l.
Proof. intros. apply Permutation_length. apply isort_by_perm. Qed.
Lemma filter_map_in : forall {A B} (f : A -> option B) l y, In y (filter_map f l) <-> exists x, In x l /\ f x = Some y.
Proof.
  intros A B f l y. induction l as [|x l IH]; cbn [filter_map].
  - split; [intros []|intros [x [[] _]]].
  - destruct (f x) as [z|] eqn:E.
    + cbn [In]. rewrite IH. split.
      * intros [<-|[x' [Hx Hf]]]; [exists x; split; [left; reflexivity|assumption]|exists x'; split; [right; assumption|assumption]].
      * intros [x' [[<-|Hx] Hf]]; [left; congruence|right; exists x'; split; assumption].
    + rewrite IH. split.
      * intros [x' [Hx Hf]]. exists x'. split; [right; assumption|assumption].
      * intros [x' [[<-|Hx] Hf]]; [congruence|exists x'; split; assumption].
Qed.

(* ------------------------------------------------------------------ get_available_execution_strategies *)
Lemma avail_strats_state : forall now m m' ss, avail_strats now m = Ok (m', ss) -> m' = expire_all now m.
Proof.
  intros now m m' ss H. unfold avail_strats in H. destruct (total_qlen (expire_all now m) =? 0); [injection H as <- _; reflexivity|].
  destruct (index_error (expire_all now m)); [discriminate|]. injection H as <- _. reflexivity.
Qed.
(* a strategy is offered only if its queue holds a full batch whose head (hence every member) meets the deadline *)
Lemma avail_strats_spec : forall now m m' ss, Inv_m m -> avail_strats now m = Ok (m', ss) ->
  Inv_m m' /\ shrinks m' m /\ clean now m' /\
  (forall s, In s ss -> exists q, In (s, q) (m_queues m') /\ s_bs s <= zlen q).
Proof.
  intros now m m' ss Hi H. pose proof (avail_strats_state _ _ _ _ H) as ->.
  destruct (expire_all_spec now m Hi) as [H1 [H2 H3]]. repeat (split; [assumption|]).
  intros s Hs. unfold avail_strats in H. destruct (total_qlen (expire_all now m) =? 0); [injection H as <-; destruct Hs|].
  destruct (index_error (expire_all now m)); [discriminate|]. injection H as <-.
  apply in_map_iff in Hs. destruct Hs as [[[p nb] s'] [Es Hs]]. cbn [snd] in Es. subst s'.
  apply isort_by_in in Hs. apply filter_map_in in Hs. destruct Hs as [[s0 q] [Hq He]].
  unfold avail_entry in He. rewrite bridge_ready in He.
  destruct ((s_bs s0 <=? zlen q) && (now + s_rt s0 <=? head_deadline q)) eqn:Ec; [|discriminate].
  injection He as _ _ ->. exists q. split; [assumption|lia].
Qed.
Lemma nth_error_ext_eq : forall {A} (l l' : list A), (forall k, nth_error l k = nth_error l' k) -> l = l'.
Proof.
  intros A l. induction l as [|x l IH]; intros [|y l'] H.
  - reflexivity.
  - specialize (H O). discriminate.
  - specialize (H O). discriminate.
  - pose proof (H O) as H0. cbn in H0. injection H0 as ->. f_equal. apply IH. intros k. apply (H (S k)).
Qed.
Lemma shrinks_strategies : forall m' m, shrinks m' m -> map fst (m_queues m') = map fst (m_queues m).
Proof.
  intros m' m [_ [Hs [Hl _]]]. apply nth_error_ext_eq. intros k.
  rewrite !nth_error_map.
  destruct (nth_error (m_queues m') k) as [sq'|] eqn:E.
  - destruct (Hs k sq' E) as [sq [Hq [Ef _]]]. rewrite Hq. cbn. congruence.
  - apply nth_error_None in E. assert (E2 : nth_error (m_queues m) k = None) by (apply nth_error_None; lia). rewrite E2. reflexivity.
Qed.

Lemma avail_strats_ok : forall now m, Inv_m m -> Forall (fun sq => 1 <= s_bs (fst sq)) (m_queues m) ->
  exists m' ss, avail_strats now m = Ok (m', ss).
Proof.
  intros now m Hi Hb. unfold avail_strats. destruct (total_qlen (expire_all now m) =? 0); [eauto|].
  destruct (index_error (expire_all now m)) eqn:E; [|eauto]. exfalso.
  unfold index_error in E. apply existsb_exists in E. destruct E as [sq [Hsq E]].
  destruct (expire_all_spec now m Hi) as [_ [Hs _]]. pose proof (shrinks_strategies _ _ Hs) as Hf.
  assert (Hin : In (fst sq) (map fst (m_queues m))) by (rewrite <- Hf; apply in_map; assumption).
  apply in_map_iff in Hin. destruct Hin as [sq0 [E0 Hsq0]]. rewrite Forall_forall in Hb. specialize (Hb sq0 Hsq0).
  rewrite E0 in Hb. destruct (snd sq); cbn [nonempty negb] in E; unfold zlen in E; cbn [length] in E; lia.
Qed.

(* ------------------------------------------------------------------ get_placements *)
Lemma find_queue_in : forall sid qs q, find_queue sid qs = Some q -> exists s, In (s, q) qs /\ s_id s = sid.
Proof.
  intros sid qs. induction qs as [|[s0 q0] qs IH]; intros q H; cbn [find_queue] in H; [discriminate|].
  destruct (s_id s0 =? sid) eqn:E.
  - injection H as <-. exists s0. split; [left; reflexivity|lia].
  - destruct (IH q H) as [s [Hs Es]]. exists s. split; [right; assumption|assumption].
Qed.
Lemma find_queue_nodup : forall s q qs, NoDup (map (fun sq => s_id (fst sq)) qs) -> In (s, q) qs -> find_queue (s_id s) qs = Some q.
Proof.
  intros s q qs. induction qs as [|[s0 q0] qs IH]; intros Hd H; [destruct H|]. cbn [find_queue].
  cbn [map fst] in Hd. inversion Hd as [|? ? Hn Hd']; subst. destruct H as [H|H].
  - injection H as -> ->. rewrite Z.eqb_refl. reflexivity.
  - destruct (s_id s0 =? s_id s) eqn:E; [|apply IH; assumption]. exfalso. apply Hn. apply in_map_iff. exists (s, q). split; [cbn; lia|assumption].
Qed.
Lemma fold_remove_inv : forall b m, Inv_m m -> Inv_m (fold_left (fun m t => m_remove_task t m) b m).
Proof. induction b as [|t b IH]; intros m Hi; cbn [fold_left]; [assumption|]. apply IH. apply remove_task_inv. assumption. Qed.
Lemma fold_remove_shrinks : forall b m, shrinks (fold_left (fun m t => m_remove_task t m) b m) m.
Proof.
  induction b as [|t b IH]; intros m; cbn [fold_left]; [apply shrinks_refl|].
  eapply shrinks_trans; [apply IH|apply remove_task_shrinks].
Qed.
Lemma fold_remove_gone : forall b m t, Inv_m m -> In t b -> ~ In (t_id t) (keys (m_tasks (fold_left (fun m t => m_remove_task t m) b m))).
Proof.
  induction b as [|x b IH]; intros m t Hi H; [destruct H|]. cbn [fold_left]. destruct H as [->|H].
  - intros Hc. apply (shrinks_keys _ _ (fold_remove_shrinks b (m_remove_task t m))) in Hc.
    revert Hc. apply remove_task_gone. assumption.
  - apply IH; [apply remove_task_inv; assumption|assumption].
Qed.
Lemma map_remove_keys_keeps : forall t m i, In i (keys m) -> i <> t_id t -> In i (keys (map_remove t m)).
Proof.
  intros t m i H Hne. unfold keys in *. apply in_map_iff in H. destruct H as [[u n] [E Hu]]. cbn [fst] in E. subst i.
  apply in_map_iff. exists (u, n). split; [reflexivity|]. apply map_remove_keeps; assumption.
Qed.
Lemma remove_task_size : forall t m, In (t_id t) (keys (m_tasks m)) -> S (length (m_tasks (m_remove_task t m))) = length (m_tasks m).
Proof.
  intros t m H. unfold m_remove_task. destruct (map_find t (m_tasks m)) eqn:E.
  - cbn [m_tasks]. apply map_remove_length. assumption.
  - apply map_find_none in E. contradiction.
Qed.
Lemma remove_task_keeps_key : forall t m i, In i (keys (m_tasks m)) -> i <> t_id t -> In i (keys (m_tasks (m_remove_task t m))).
Proof.
  intros t m i H Hne. unfold m_remove_task. destruct (map_find t (m_tasks m)); [|assumption]. cbn [m_tasks].
  apply map_remove_keys_keeps; assumption.
Qed.
(* removing a batch of distinct queued requests shrinks the task map by the size of the batch *)
Lemma fold_remove_size : forall b m, NoDup (ids b) -> (forall t, In t b -> In (t_id t) (keys (m_tasks m))) ->
  (length (m_tasks (fold_left (fun m t => m_remove_task t m) b m)) + length b = length (m_tasks m))%nat.
Proof.
  induction b as [|x b IH]; intros m Hd Hk; cbn [fold_left length]; [lia|].
  cbn [ids map] in Hd. inversion Hd as [|? ? Hn Hd']; subst.
  rewrite <- (remove_task_size x m) by (apply Hk; left; reflexivity).
  rewrite <- (IH (m_remove_task x m)); [lia|assumption|].
  intros t Ht. apply remove_task_keeps_key; [apply Hk; right; assumption|].
  intros Hc. apply Hn. rewrite <- Hc. unfold ids. apply in_map. assumption.
Qed.

Lemma firstn_incl' : forall {A} n (l : list A), incl (firstn n l) l.
Proof. intros A n l x H. rewrite <- (firstn_skipn n l). apply in_or_app. left. assumption. Qed.
Lemma py_prefix_incl : forall {A} n (q : list A), incl (py_prefix n q) q.
Proof. intros A n q. unfold py_prefix. destruct (n <? 0); apply firstn_incl'. Qed.
Lemma py_prefix_length : forall {A} n (q : list A), 0 <= n <= zlen q -> zlen (py_prefix n q) = n.
Proof.
  intros A n q H. unfold py_prefix, zlen in *. destruct (n <? 0) eqn:E; [lia|]. rewrite firstn_length. lia.
Qed.
Lemma firstn_nodup : forall n (l : list Z), NoDup l -> NoDup (firstn n l).
Proof.
  intros n l. revert n. induction l as [|x l IH]; intros [|n] H; cbn [firstn]; try constructor.
  - inversion H as [|? ? Hn Hd]; subst. intros Hc. apply Hn. eapply firstn_incl'; eassumption.
  - inversion H; subst. apply IH. assumption.
Qed.
Lemma py_prefix_nodup : forall n q, NoDup (ids q) -> NoDup (ids (py_prefix n q)).
Proof. intros n q H. unfold py_prefix, ids in *. destruct (n <? 0); rewrite <- firstn_map; apply firstn_nodup; assumption. Qed.

Lemma get_placements_spec : forall s m b m', Inv_m m -> m_get_placements s m = Ok (b, m') ->
  Inv_m m' /\ shrinks m' m /\
  (exists s' q, In (s', q) (m_queues m) /\ s_id s' = s_id s /\ incl b q /\ (0 <= s_bs s -> zlen b = s_bs s)) /\
  (forall t, In t b -> ~ In (t_id t) (keys (m_tasks m'))) /\
  (length (m_tasks m') + length b = length (m_tasks m))%nat /\ NoDup (ids b).
Proof.
  intros s m b m' Hi H. unfold m_get_placements in H.
  destruct (find_queue (s_id s) (m_queues m)) as [q|] eqn:Eq; [|discriminate].
  rewrite bridge_queue_short in H. destruct (zlen q <? s_bs s) eqn:El; [discriminate|]. injection H as <- <-.
  destruct (find_queue_in _ _ _ Eq) as [s' [Hs' Es']].
  assert (Hnd : NoDup (ids q)) by (pose proof (inv_nodup m Hi) as Hn; rewrite Forall_forall in Hn; apply (Hn _ Hs')).
  split; [apply fold_remove_inv; assumption|]. split; [apply fold_remove_shrinks|].
  split; [exists s', q; repeat split; [assumption|assumption|apply py_prefix_incl|intros; apply py_prefix_length; lia]|].
  split; [intros t Ht; apply fold_remove_gone; assumption|]. split; [|apply py_prefix_nodup; assumption].
  apply fold_remove_size; [apply py_prefix_nodup; assumption|]. intros t Ht. apply py_prefix_incl in Ht.
  destruct (in_queue_key m (s', q) t Hi Hs' Ht) as [n Hn]. eapply keys_in; eassumption.
Qed.
Lemma get_placements_ok : forall s q m, Inv_m m -> In (s, q) (m_queues m) -> s_bs s <= zlen q -> exists b m', m_get_placements s m = Ok (b, m').
Proof.
  intros s q m Hi Hs Hb. unfold m_get_placements. rewrite (find_queue_nodup s q _ (inv_sids m Hi) Hs).
  rewrite bridge_queue_short. destruct (zlen q <? s_bs s) eqn:E; [lia|eauto].
Qed.
