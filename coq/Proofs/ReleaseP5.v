(* C19, part 5: the monitors of Model/Release.v are the decidable forms of the statements. *)
From Coq Require Import ZArith Bool List Lia ZifyBool Sorting.Sorted.
Import ListNotations.
From Verif Require Import Model.Val Gen.Src_Time Proofs.TimeP Model.Release Proofs.ReleaseP1 Proofs.ReleaseP3 Proofs.ReleaseP4.
Open Scope Z_scope.

Lemma zlist_eqb_eq a : forall b, zlist_eqb a b = true <-> a = b.
Proof.
  induction a as [|x a IH]; intros [|y b]; cbn [zlist_eqb]; try (split; [discriminate|discriminate]); [tauto|].
  rewrite andb_true_iff, IH, Z.eqb_eq. split; [intros [-> ->]; reflexivity|intros H; inversion H; auto].
Qed.

Lemma nondecr_b_sorted l : nondecr_b l = true <-> Sorted Z.le l.
Proof.
  induction l as [|a l IH]; [cbn; split; [constructor|reflexivity]|].
  destruct l as [|b l'].
  - cbn. split; [intros; constructor; constructor|reflexivity].
  - change (nondecr_b (a :: b :: l')) with ((a <=? b) && nondecr_b (b :: l')).
    rewrite andb_true_iff, IH, Z.leb_le. split.
    + intros [H1 H2]. constructor; [exact H2|constructor; exact H1].
    + intros H. inversion H as [|? ? Hs Hh]; subst. inversion Hh; subst. split; assumption.
Qed.

(* observed instants (microseconds) of a FIXED / PERIODIC policy are exactly the declared ones *)
Lemma mon_fixed_iff s per n obs :
  mon_fixed s per n obs = true <-> map us_time obs = fixed_spec s per n.
Proof.
  unfold mon_fixed, fixed_spec. rewrite zlist_eqb_eq. split.
  - intros ->. rewrite map_map. reflexivity.
  - intros H. apply (f_equal (map et_time)) in H. rewrite !map_map in H. cbn [us_time et_time] in H.
    rewrite map_id in H. exact H.
Qed.
Lemma mon_periodic_iff s per c obs :
  mon_periodic s per c obs = true <-> map us_time obs = periodic_spec s per c.
Proof.
  unfold mon_periodic, periodic_spec. rewrite zlist_eqb_eq. split.
  - intros ->. rewrite map_map. reflexivity.
  - intros H. apply (f_equal (map et_time)) in H. rewrite !map_map in H. cbn [us_time et_time] in H.
    rewrite map_id in H. exact H.
Qed.
(* N arrivals, the first at the start, non-decreasing *)
Lemma mon_arrivals_iff s n obs :
  0 < n -> (mon_arrivals s n obs = true <-> Z.of_nat (length obs) = n /\ hd_error obs = Some s /\ Sorted Z.le obs).
Proof.
  intros Hn. unfold mon_arrivals. rewrite !andb_true_iff, nondecr_b_sorted, Z.eqb_eq.
  destruct obs as [|x obs']; cbn [hd_error length].
  - split; [intros [[H _] _]; cbn in H; lia|intros [H _]; cbn in H; lia].
  - rewrite Z.eqb_eq. split; [intros [[H1 H2] H3]; subst; auto|intros [H1 [H2 H3]]; inversion H2; subst; auto].
Qed.
Lemma mon_deadline_iff ct minv maxv minb maxb stretch :
  mon_deadline ct minv maxv minb maxb stretch = true <->
  clampZ minb maxb (var_lo ct minv maxv) <= stretch - ct <= clampZ minb maxb (var_hi ct minv maxv).
Proof. unfold mon_deadline, clampZ. rewrite andb_true_iff, !Z.leb_le. tauto. Qed.

(* the structural monitor: equal node count, distinct task names, and every job's children list is
   the children list of the task of the same name *)
Lemma nadj_get_In k v l : nadj_get k l = Some v -> In (k, v) l.
Proof.
  induction l as [|[k' v'] l IH]; cbn [nadj_get]; [discriminate|]. destruct (k' =? k) eqn:E.
  - intros H; inversion H; subst. left. f_equal. lia.
  - intros H. right. apply IH. exact H.
Qed.
Lemma mon_iso_sound jobs tasks :
  mon_iso jobs tasks = true ->
  length jobs = length tasks /\ (forall k cs, In (k, cs) jobs -> In (k, cs) tasks).
Proof.
  unfold mon_iso. rewrite !andb_true_iff. intros [[Hl _] Hf]. split; [apply Nat.eqb_eq; exact Hl|].
  intros k cs Hin. rewrite forallb_forall in Hf. specialize (Hf _ Hin). cbn [fst snd] in Hf.
  destruct (nadj_get k tasks) as [cs'|] eqn:E; [|discriminate]. apply zlist_eqb_eq in Hf. subst. apply nadj_get_In. exact E.
Qed.
