(* The monitors applied to the implementation's answers (c10_check, c11_check, c12_check,
   c12_hopeless_check of Model/IlpModel.v) are the decidable forms of the properties: each is
   proved equivalent to its Prop; the capacity monitor, which looks only at start instants, is
   proved to bound the usage at EVERY instant. *)
From Coq Require Import ZArith Bool List Lia ZifyBool.
Import ListNotations.
From Verif Require Import Model.Val Gen.Src_Ilp Model.IlpModel Proofs.IlpP Proofs.IlpP11 Proofs.IlpP10 Proofs.IlpP14 Proofs.IlpP14s.
Open Scope Z_scope.

(* ------------------------------------------------------------------ C11 *)
Definition C11_plan_ok (I : instance) (p : plan) : Prop :=
  forall c, In c (i_tasks I) -> is_running c = false -> placed_in I p c = true ->
  forall q, In q (decided_parents I c) ->
    placed_in I p q = true /\
    start_in I p q + (if is_running q then t_remaining q else rt_in I p q) <= start_in I p c.
Lemma c11_check_spec : forall I p, c11_check I p = true <-> C11_plan_ok I p.
Proof.
  intros I p. unfold c11_check, C11_plan_ok. rewrite forallb_forall. split.
  - intros H c Hc Rc Pc q Hq. specialize (H c Hc). rewrite Pc, Rc in H. cbn [negb orb] in H.
    rewrite forallb_forall in H. specialize (H q Hq). apply andb_true_iff in H. destruct H as [H1 H2]. split; [exact H1|lia].
  - intros H c Hc. destruct (placed_in I p c) eqn:Pc; [|reflexivity]. destruct (is_running c) eqn:Rc; [reflexivity|]. cbn [negb orb].
    apply forallb_forall. intros q Hq. destruct (H c Hc Rc Pc q Hq) as [H1 H2]. rewrite H1. cbn [andb]. lia.
Qed.

(* ------------------------------------------------------------------ C12 *)
Definition C12_plan_ok (I : instance) (p : plan) : Prop :=
  i_enforce I = true -> i_release_tg I = false ->
  forall t, In t (i_tasks I) -> is_running t = false -> placed_in I p t = true ->
  start_in I p t + rt_in I p t <= t_deadline t.
Lemma c12_check_spec : forall I p, c12_check I p = true <-> C12_plan_ok I p.
Proof.
  intros I p. unfold c12_check, C12_plan_ok. rewrite forallb_forall. split.
  - intros H He Hr t Ht Rt Pt. specialize (H t Ht). rewrite Rt, Pt, He, Hr in H. cbn [negb orb] in H. lia.
  - intros H t Ht. destruct (is_running t) eqn:Rt; [reflexivity|]. destruct (placed_in I p t) eqn:Pt; [|reflexivity].
    destruct (i_enforce I) eqn:He; [|reflexivity]. destruct (i_release_tg I) eqn:Hr; [reflexivity|]. cbn [negb orb].
    specialize (H eq_refl eq_refl t Ht Rt Pt). lia.
Qed.
Definition C12_hopeless_ok (I : instance) (p : plan) : Prop :=
  i_enforce I = true -> i_release_tg I = false ->
  forall t, In t (i_tasks I) -> is_running t = false -> t_deadline t < i_now I + fastest t -> placed_in I p t = false.
Lemma c12_hopeless_check_spec : forall I p, c12_hopeless_check I p = true <-> C12_hopeless_ok I p.
Proof.
  intros I p. unfold c12_hopeless_check, C12_hopeless_ok, hopeless. rewrite forallb_forall. split.
  - intros H He Hr t Ht Rt Hh. specialize (H t Ht). rewrite Rt, He, Hr in H. cbn [negb orb] in H.
    destruct (placed_in I p t); [|reflexivity]. lia.
  - intros H t Ht. destruct (is_running t) eqn:Rt; [reflexivity|]. destruct (i_enforce I) eqn:He; [|reflexivity].
    destruct (i_release_tg I) eqn:Hr; [reflexivity|]. cbn [negb orb].
    destruct (t_deadline t <? i_now I + fastest t) eqn:Hh; [|reflexivity]. cbn [negb orb].
    rewrite (H eq_refl eq_refl t Ht Rt ltac:(lia)). reflexivity.
Qed.

(* ------------------------------------------------------------------ C10: capacity at start instants bounds every instant *)
Lemma exists_max : forall (key : task -> Z) (P : task -> bool) (l : list task),
  (exists x, In x l /\ P x = true) -> exists m, In m l /\ P m = true /\ forall x, In x l -> P x = true -> key x <= key m.
Proof.
  induction l as [|y l IH]; intros (x & Hx & Px); [contradiction|].
  destruct (existsb P l) eqn:E.
  - apply existsb_exists in E. destruct (IH E) as (m & Hm & Pm & Hmax).
    destruct (P y) eqn:Py.
    + destruct (Z_le_gt_dec (key y) (key m)) as [L|G].
      * exists m. split; [right; exact Hm|]. split; [exact Pm|]. intros z [<-|Hz] Pz; [exact L|apply Hmax; assumption].
      * exists y. split; [left; reflexivity|]. split; [exact Py|]. intros z [<-|Hz] Pz; [lia|]. specialize (Hmax z Hz Pz). lia.
    + exists m. split; [right; exact Hm|]. split; [exact Pm|]. intros z [<-|Hz] Pz; [congruence|apply Hmax; assumption].
  - destruct Hx as [->|Hx].
    + exists x. split; [left; reflexivity|]. split; [exact Px|]. intros z [<-|Hz] Pz; [lia|]. exfalso.
      assert (existsb P l = true) by (apply existsb_exists; exists z; auto). congruence.
    + exfalso. assert (existsb P l = true) by (apply existsb_exists; exists x; auto). congruence.
Qed.

Lemma active_ho_start : forall I p t w tau, active_ho I p t w tau = true -> placed_in I p t = true /\ start_in I p t <= tau.
Proof.
  intros I p t w tau A. unfold active_ho in A. unfold placed_in, start_in. destruct (sits I p t) as [[[[s w'] k] rt]|]; [|discriminate].
  split; [reflexivity|lia].
Qed.
Lemma active_ho_earlier : forall I p t w tau s', active_ho I p t w tau = true -> start_in I p t <= s' -> s' <= tau ->
  active_ho I p t w s' = true.
Proof.
  intros I p t w tau s' A H1 H2. unfold active_ho in *. unfold start_in in H1. destruct (sits I p t) as [[[[s w'] k] rt]|]; [|discriminate].
  set (d := dur t rt) in *. clearbody d. lia.
Qed.

Theorem capacity_ho_every_instant : forall I p, req_nonneg I -> capacity_ho_check I p = true ->
  forall wi rq tau, In wi (wenum I) -> In rq (w_res (snd wi)) -> 0 <= snd rq ->
  usage_ho I p (fst wi) (fst rq) tau <= snd rq.
Proof.
  intros I p Hreq Hc wi rq tau Hw Hrq Hq.
  destruct (existsb (fun t => active_ho I p t (fst wi) tau) (i_tasks I)) eqn:E.
  - apply existsb_exists in E.
    destruct (exists_max (start_in I p) (fun t => active_ho I p t (fst wi) tau) (i_tasks I) E) as (m & Hm & Am & Hmax).
    destruct (active_ho_start I p m (fst wi) tau Am) as [Pm Sm].
    unfold capacity_ho_check in Hc. rewrite forallb_forall in Hc. specialize (Hc m Hm). rewrite Pm in Hc. cbn [negb orb] in Hc.
    rewrite forallb_forall in Hc. specialize (Hc wi Hw). rewrite forallb_forall in Hc. specialize (Hc rq Hrq).
    assert (Hle : usage_ho I p (fst wi) (fst rq) tau <= usage_ho I p (fst wi) (fst rq) (start_in I p m)).
    { unfold usage_ho. apply sum_list_le. intros t Ht. pose proof (req_at_nonneg I p t (fst rq) Hreq Ht) as H0.
      destruct (active_ho I p t (fst wi) tau) eqn:A.
      - rewrite (active_ho_earlier I p t (fst wi) tau (start_in I p m) A (Hmax t Ht A) Sm). lia.
      - destruct (active_ho I p t (fst wi) (start_in I p m)); lia. }
    lia.
  - unfold usage_ho. rewrite sum_list_zero; [exact Hq|]. intros t Ht.
    destruct (active_ho I p t (fst wi) tau) eqn:A; [|reflexivity]. exfalso.
    assert (existsb (fun t => active_ho I p t (fst wi) tau) (i_tasks I) = true) by (apply existsb_exists; exists t; auto). congruence.
Qed.

Definition C10_plan_ok (I : instance) (p : plan) : Prop :=
  map fst p = map t_id (nonrunning I) /\
  (forall t, In t (nonrunning I) -> exists d, plan_get p (t_id t) = Some d /\ decision_ok I t d = true) /\
  (forall t1 wi rq, In t1 (i_tasks I) -> placed_in I p t1 = true -> In wi (wenum I) -> In rq (w_res (snd wi)) ->
     usage_ho I p (fst wi) (fst rq) (start_in I p t1) <= snd rq).
Lemma eqs_spec : forall a b : list Z,
  (fix eqs (a b : list Z) : bool := match a, b with [], [] => true | x :: a', y :: b' => (x =? y) && eqs a' b' | _, _ => false end) a b = true
  <-> a = b.
Proof.
  induction a as [|x a IH]; intros [|y b]; split; intros H; try reflexivity; try discriminate.
  - apply andb_true_iff in H. destruct H as [H1 H2]. apply IH in H2. f_equal; [lia|exact H2].
  - inversion H; subst. apply andb_true_iff. split; [lia|apply IH; reflexivity].
Qed.
Lemma c10_check_spec : forall I p, c10_check I p = true <-> C10_plan_ok I p.
Proof.
  intros I p. unfold c10_check, C10_plan_ok. rewrite !andb_true_iff, eqs_spec. split.
  - intros [[H1 H2] H3]. split; [exact H1|]. split.
    + intros t Ht. rewrite forallb_forall in H2. specialize (H2 t Ht). destruct (plan_get p (t_id t)) as [d|]; [|discriminate].
      exists d. auto.
    + intros t1 wi rq Ht Pt Hw Hrq. unfold capacity_ho_check in H3. rewrite forallb_forall in H3. specialize (H3 t1 Ht).
      rewrite Pt in H3. cbn [negb orb] in H3. rewrite forallb_forall in H3. specialize (H3 wi Hw). rewrite forallb_forall in H3.
      specialize (H3 rq Hrq). lia.
  - intros (H1 & H2 & H3). split; [split; [exact H1|]|].
    + apply forallb_forall. intros t Ht. destruct (H2 t Ht) as (d & E & Hd). rewrite E. exact Hd.
    + unfold capacity_ho_check. apply forallb_forall. intros t1 Ht. destruct (placed_in I p t1) eqn:Pt; [|reflexivity]. cbn [negb orb].
      apply forallb_forall. intros wi Hw. apply forallb_forall. intros rq Hrq. specialize (H3 t1 wi rq Ht Pt Hw Hrq). lia.
Qed.

(* ------------------------------------------------------------------ the hypothesis monitor: dep_linkedb decides (a sufficient condition for) dep_linked *)
Lemma nodup_map_inj : forall (l : list task) x y, NoDup (map t_id l) -> In x l -> In y l -> t_id x = t_id y -> x = y.
Proof.
  induction l as [|z l IH]; intros x y Hnd Hx Hy E; [contradiction|]. cbn [map] in Hnd. inversion Hnd as [|? ? Hz Hnd']; subst.
  destruct Hx as [->|Hx], Hy as [->|Hy].
  - reflexivity.
  - exfalso. apply Hz. apply in_map_iff. exists y. split; [lia|exact Hy].
  - exfalso. apply Hz. apply in_map_iff. exists x. split; [lia|exact Hx].
  - apply IH; assumption.
Qed.
Lemma linkedb_linked : forall I, nodup_ids I -> forall fuel x y, In x (i_tasks I) -> In y (i_tasks I) ->
  linkedb fuel I x y = true -> linked I x y.
Proof.
  intros I Hn. induction fuel as [|f IH]; intros x y Hx Hy H; [discriminate|]. cbn [linkedb] in H.
  apply andb_true_iff in H. destruct H as [Ry H]. apply negb_true_iff in Ry.
  assert (Hyn : In y (nonrunning I)) by (apply in_nonrunning; auto).
  apply existsb_exists in H. destruct H as (z & Hz & E).
  assert (Hzin : In z (i_tasks I)) by (unfold decided_parents in Hz; apply filter_In in Hz; tauto).
  apply orb_true_iff in E. destruct E as [E|E].
  - assert (z = x) by (apply (nodup_map_inj (i_tasks I)); [exact Hn|exact Hzin|exact Hx|lia]). subst z.
    apply linked_step; assumption.
  - eapply linked_trans; [apply IH; [exact Hx|exact Hzin|exact E]|exact Hyn|exact Hz].
Qed.
Theorem dep_linkedb_sound : forall I, nodup_ids I -> dep_linkedb I = true -> dep_linked I.
Proof.
  intros I Hn H x y Hx Hy D. unfold dep_linkedb in H. rewrite forallb_forall in H.
  specialize (H (x, y) (in_prod _ _ _ _ Hx Hy)). cbn [fst snd] in H. rewrite D in H. cbn [negb orb] in H.
  apply orb_true_iff in H. destruct H as [H|H]; [left|right]; eapply linkedb_linked; eassumption.
Qed.
