(* C14 conditional completeness, part 2: the assignment built from a feasible plan satisfies every
   row of gen_ilp, provided no two decided tasks depend on one another (task-by-task mode), no task
   is running, every enforced deadline leaves room for a start, and two tasks of one worker that both
   overlap a third task overlap each other (then the overlap-anywhere sums of the capacity rows are
   sums at one instant: Helly's theorem on the line). *)
From Coq Require Import ZArith Bool List Lia ZifyBool.
Import ListNotations.
From Verif Require Import Model.Val Gen.Src_Ilp Model.IlpModel Proofs.IlpP Proofs.IlpP11 Proofs.IlpP10 Proofs.IlpP14
  Proofs.IlpP14s Proofs.IlpPM Proofs.IlpP14c.
Open Scope Z_scope.

Lemma cap_row_eval : forall I a t1 w rq,
  eval_lin a (q_lin (cap_row I t1 w rq)) + eval_quad a (q_quad (cap_row I t1 w rq)) =
  load a t1 w (fst rq) + sum_list (fun t2 => a (VOverlap (t_id t1) (t_id t2)) * load a t2 w (fst rq)) (others I t1).
Proof.
  intros I a t1 w rq. unfold cap_row. cbn [q_lin q_quad]. rewrite eval_lin_plus, own_lin_eval, eval_lin_sum.
  set (L := filter (fun t2 => negb (off_worker t2 w)) (others I t1)).
  assert (E : sum_list (fun x => eval_lin a (fst x)) (map (fun t2 => other_terms t1 t2 w (fst rq)) L)
              + eval_quad a (flat_map snd (map (fun t2 => other_terms t1 t2 w (fst rq)) L))
              = sum_list (fun t2 => a (VOverlap (t_id t1) (t_id t2)) * load a t2 w (fst rq)) L).
  { induction L as [|t2 L IH]; [reflexivity|]. cbn [map flat_map]. rewrite !sum_list_cons, eval_quad_app.
    rewrite <- IH, <- other_terms_eval. cbn beta. unfold quad in *. lia. }
  assert (E2 : sum_list (fun t2 => a (VOverlap (t_id t1) (t_id t2)) * load a t2 w (fst rq)) L
               = sum_list (fun t2 => a (VOverlap (t_id t1) (t_id t2)) * load a t2 w (fst rq)) (others I t1)).
  { unfold L. rewrite sum_list_filter. apply sum_list_ext. intros t2 _. destruct (off_worker t2 w) eqn:O; cbn [negb]; [|reflexivity].
    rewrite (off_worker_load a t2 w (fst rq) O). lia. }
  unfold quad in *. lia.
Qed.

Section Complete.
Variable I : instance.
Variable p : plan.
Hypothesis Hn : nodup_ids I.
Hypothesis Hrt : rt_nonneg I.
Hypothesis Hreq : req_nonneg I.
Hypothesis Hcaps : caps_nonneg I.
Hypothesis Hgoal : i_goal I = Goodput.
Hypothesis Hnr : no_running I.
Hypothesis Htw : taskwise I.
Hypothesis Hst : startable I.
Hypothesis Hfeas : feasible_clb I p = true.
Hypothesis H3w : no_three_way I p.

Let a := asg_plan I p.

Local Lemma V : forall t, In t (i_tasks I) -> task_view I p t.
Proof. exact (view I p Hnr Hfeas). Qed.
Local Lemma nr_in : forall t, In t (nonrunning I) -> In t (i_tasks I).
Proof. intros t H. apply in_nonrunning in H. tauto. Qed.
Local Lemma aid : forall A (f : task -> A) d t, In t (i_tasks I) -> byid I (t_id t) f d = f t.
Proof. exact (byid_id I p Hn Hfeas). Qed.
Local Lemma opairs_in : forall x y, In (x, y) (opairs I) -> In x (i_tasks I) /\ In y (i_tasks I) /\ t_id x <> t_id y.
Proof.
  intros x y H. unfold opairs in H. apply filter_In in H. destruct H as [H1 H2]. apply in_prod_iff in H1. cbn [fst snd] in H2. split; [tauto|]. split; [tauto|lia].
Qed.
Local Lemma rts_in : forall t, In t (flat_map (reward_tasks I) (graphs_in_order I)) -> In t (i_tasks I).
Proof. intros t H. apply in_flat_map in H. destruct H as (g & _ & H). eapply reward_task_in; exact H. Qed.

Lemma hitv_binary : forall t w k, 0 <= hitv I p t w k <= 1.
Proof. intros. unfold hitv. destruct (_ && _ && _); lia. Qed.
Lemma afterv_before_excl : forall x y, In x (i_tasks I) -> In y (i_tasks I) -> 0 <= ovv I p x y <= 1.
Proof.
  intros x y Hx Hy. pose proof (Rv_nonneg I p Hrt Hnr Hfeas x Hx). pose proof (Rv_nonneg I p Hrt Hnr Hfeas y Hy).
  unfold ovv, afterv, beforev. destruct (Sv I p y + Rv I p y + 1 <=? Sv I p x) eqn:A; destruct (Sv I p x + Rv I p x + 1 <=? Sv I p y) eqn:B; lia.
Qed.
Lemma ovv_overl : forall x y, ovv I p x y = 1 <-> overl I p x y = true.
Proof.
  intros x y. unfold ovv, afterv, beforev, overl.
  destruct (Sv I p y + Rv I p y + 1 <=? Sv I p x) eqn:A; destruct (Sv I p x + Rv I p x + 1 <=? Sv I p y) eqn:B; split; intros H; lia.
Qed.
Lemma overl_sym : forall x y, overl I p x y = overl I p y x.
Proof. intros. unfold overl. apply andb_comm. Qed.

(* ---------------------------------------------------------------- bounds *)
Lemma Sv_lb : forall t, In t (i_tasks I) -> start_lb (i_now I) (t_release t) <= Sv I p t.
Proof.
  intros t Ht. rewrite bridge_start_lb. unfold Sv, placed_in, start_in, lbv.
  destruct (V t Ht) as [Hs _|s w k wk st Hs _ _ _ _ H1 H2 _]; rewrite Hs; lia.
Qed.
Lemma bounds_ok : Forall (bound_ok a) (c_vars (gen_ilp I)).
Proof.
  apply Forall_forall. intros d Hd. cbn [gen_ilp c_vars] in Hd. rewrite Hgoal in Hd.
  apply in_app_or in Hd. destruct Hd as [Hd|Hd].
  { apply in_flat_map in Hd. destruct Hd as (t & Ht & Hd). apply nr_in in Ht. destruct Hd as [<-|Hd].
    - unfold bound_ok. cbn [v_lb v_ub v_var]. split; [|exact Logic.I]. unfold a, asg_plan. rewrite (aid _ _ _ t Ht). apply Sv_lb; exact Ht.
    - unfold pvar_decls in Hd. apply in_flat_map in Hd. destruct Hd as (sl & Hsl & Hd).
      destruct (pv t sl) as [z|v] eqn:E; [contradiction|]. destruct Hd as [<-|[]]. unfold bound_ok. cbn [v_lb v_ub v_var].
      pose proof (on_value I p Hn Hnr Hfeas t sl Ht Hsl) as Hv. rewrite E in Hv. cbn [eval_pterm] in Hv. unfold a. rewrite Hv.
      pose proof (hitv_binary t (slot_w sl) (slot_k sl)). lia. }
  apply in_app_or in Hd. destruct Hd as [Hd|Hd].
  { apply in_flat_map in Hd. destruct Hd as (t & Ht & Hd). apply nr_in in Ht. unfold dep_decls, has_dep in Hd.
    rewrite (proj2 Htw t Ht) in Hd. contradiction. }
  apply in_app_or in Hd. destruct Hd as [Hd|Hd].
  { apply in_map_iff in Hd. destruct Hd as ([x y] & <- & Hxy). destruct (opairs_in x y Hxy) as (Hx & Hy & _).
    unfold bound_ok. cbn [v_lb v_ub v_var fst snd]. unfold a, asg_plan. rewrite (aid _ _ _ x Hx), (aid _ _ _ y Hy).
    pose proof (afterv_before_excl x y Hx Hy). lia. }
  apply in_app_or in Hd. destruct Hd as [Hd|Hd].
  { apply in_flat_map in Hd. destruct Hd as ([x y] & Hxy & Hd). destruct (opairs_in x y Hxy) as (Hx & Hy & _).
    unfold pair_decls in Hd. cbn [fst snd] in Hd. rewrite (proj1 Htw x y Hx Hy) in Hd.
    destruct Hd as [<-|[<-|[]]]; unfold bound_ok; cbn [v_lb v_ub v_var]; unfold a, asg_plan; rewrite (aid _ _ _ x Hx), (aid _ _ _ y Hy).
    - unfold afterv. destruct (_ <=? _); lia.
    - unfold beforev. destruct (_ <=? _); lia. }
  apply in_app_or in Hd. destruct Hd as [Hd|Hd].
  { apply in_map_iff in Hd. destruct Hd as (g & <- & _). unfold bound_ok. cbn [v_lb v_ub]. tauto. }
  apply in_map_iff in Hd. destruct Hd as (t & <- & Ht). apply rts_in in Ht. unfold bound_ok. cbn [v_lb v_ub v_var].
  unfold a, asg_plan. rewrite (aid _ _ _ t Ht). unfold placedv. destruct (placed_in I p t); lia.
Qed.

(* ---------------------------------------------------------------- linear rows *)
Lemma task_rows_ok : forall t r, In t (i_tasks I) -> In r (task_rows I t) -> lrow_ok a r.
Proof.
  intros t r Ht Hr. unfold task_rows in Hr. apply in_app_or in Hr. destruct Hr as [Hr|[<-|[]]].
  - destruct (enforce_for I t) eqn:E; [|contradiction]. destruct Hr as [<-|[]].
    unfold lrow_ok, deadline_row. cbn [l_sense l_lin l_rhs]. destruct bridge_deadline as (B1 & B2 & B3 & B4). rewrite B3, B4, B1. cbn [holds].
    rewrite eval_lin_plus, eval_lin_term. unfold a. rewrite (start_value I p Hn Hnr Hfeas t Ht).
    unfold Sv, placed_in, start_in, lbv. destruct (V t Ht) as [Hs _|s w k wk st Hs Hw Hk _ _ _ _ Hd]; rewrite Hs.
    + rewrite (placed_lin_unplaced I p Hn Hnr Hfeas t _ Ht Hs). pose proof (Hst t Ht E) as H. unfold lbv in H. lia.
    + rewrite (placed_lin_placed I p Hn Hnr Hfeas t _ s w k wk st Ht Hs Hw Hk). cbn beta.
      change (slot_rt ((w, wk), (k, st))) with (s_rt st). specialize (Hd E). pose proof (B2 (s_rt st)) as B2'. lia.
  - unfold lrow_ok, placement_row. destruct bridge_placement as [B1 B2].
    pose proof (placed_sum_value I p Hn Hnr Hfeas t Ht) as Hv. unfold a.
    destruct (is_scheduled t && negb (i_retract I)) eqn:C; cbn [l_sense l_lin l_rhs]; rewrite Hv.
    + rewrite B1. cbn [fst snd holds]. unfold placedv, placed_in.
      destruct (V t Ht) as [Hs Hc|s w k wk st Hs _ _ _ _ _ _ _]; [congruence|rewrite Hs; reflexivity].
    + rewrite B2. cbn [fst snd holds]. unfold placedv. destruct (placed_in I p t); lia.
Qed.
Lemma lrows_ok : Forall (lrow_ok a) (c_lin (gen_ilp I)).
Proof.
  apply Forall_forall. intros r Hr. cbn [gen_ilp c_lin] in Hr. rewrite Hgoal in Hr.
  apply in_app_or in Hr. destruct Hr as [Hr|Hr].
  { apply in_flat_map in Hr. destruct Hr as (t & Ht & Hr). apply (task_rows_ok t r (nr_in t Ht) Hr). }
  apply in_app_or in Hr. destruct Hr as [Hr|Hr].
  { apply in_flat_map in Hr. destruct Hr as (t & Ht & Hr). unfold dep_lrows in Hr. rewrite (proj2 Htw t (nr_in t Ht)) in Hr. contradiction. }
  apply in_app_or in Hr. destruct Hr as [Hr|Hr].
  { apply in_flat_map in Hr. destruct Hr as ([x y] & Hxy & Hr). destruct (opairs_in x y Hxy) as (Hx & Hy & _).
    unfold pair_lrows in Hr. cbn [fst snd] in Hr. rewrite (proj1 Htw x y Hx Hy) in Hr.
    destruct bridge_overlap as (_ & _ & _ & _ & B5 & _). rewrite B5 in Hr. destruct Hr as [<-|[]].
    unfold lrow_ok, eval_lin, eval_terms. cbn [l_sense l_lin l_rhs fst snd holds]. rewrite !sum_list_cons, sum_list_nil. cbn [fst snd].
    unfold a, asg_plan. rewrite !(aid _ _ _ x Hx), !(aid _ _ _ y Hy). unfold ovv. lia. }
  apply in_map_iff in Hr. destruct Hr as (t & <- & Ht). apply rts_in in Ht.
  unfold lrow_ok, treward_row. cbn [l_sense l_lin l_rhs holds]. rewrite eval_lin_plus, eval_lin_scale.
  unfold a. rewrite (placed_sum_value I p Hn Hnr Hfeas t Ht). unfold eval_lin, eval_terms. cbn [fst snd]. rewrite sum_list_cons, sum_list_nil. cbn [fst snd].
  unfold asg_plan. rewrite (aid _ _ _ t Ht). lia.
Qed.

(* ---------------------------------------------------------------- indicator rows *)
Lemma ov_expr_value : forall c1 cr1 c2 cr2 x y, In x (i_tasks I) -> In y (i_tasks I) ->
  eval_lin a (ov_expr I (c1, cr1, c2, cr2) x y) = c1 * Sv I p x + cr1 * Rv I p x + c2 * Sv I p y + cr2 * Rv I p y.
Proof.
  intros c1 cr1 c2 cr2 x y Hx Hy. rewrite ov_expr_eval. unfold st_of, a.
  rewrite (start_value I p Hn Hnr Hfeas x Hx), (start_value I p Hn Hnr Hfeas y Hy),
          (rem_value I p Hn Hnr Hfeas x Hx), (rem_value I p Hn Hnr Hfeas y Hy). reflexivity.
Qed.
Lemma irows_ok : Forall (irow_ok a) (c_ind (gen_ilp I)).
Proof.
  apply Forall_forall. intros r Hr. cbn [gen_ilp c_ind] in Hr. apply in_app_or in Hr. destruct Hr as [Hr|Hr].
  { apply in_flat_map in Hr. destruct Hr as (t & Ht & Hr). unfold dep_irows, has_dep in Hr. rewrite (proj2 Htw t (nr_in t Ht)) in Hr. contradiction. }
  apply in_flat_map in Hr. destruct Hr as ([x y] & Hxy & Hr). destruct (opairs_in x y Hxy) as (Hx & Hy & _).
  unfold pair_irows in Hr. cbn [fst snd] in Hr. rewrite (proj1 Htw x y Hx Hy) in Hr.
  destruct bridge_overlap as (B1 & B2 & B3 & B4 & _). unfold ov_ind in Hr. rewrite B1, B2, B3, B4 in Hr.
  destruct Hr as [<-|[<-|[<-|[<-|[]]]]]; unfold irow_ok; cbn [n_bvar n_bval n_sense n_lin n_rhs holds];
    rewrite (ov_expr_value _ _ _ _ x y Hx Hy); unfold a, asg_plan; rewrite (aid _ _ _ x Hx), (aid _ _ _ y Hy);
    unfold afterv, beforev; intros E.
  - destruct (Sv I p y + Rv I p y + 1 <=? Sv I p x) eqn:A; lia.
  - destruct (Sv I p y + Rv I p y + 1 <=? Sv I p x) eqn:A; lia.
  - destruct (Sv I p x + Rv I p x + 1 <=? Sv I p y) eqn:A; lia.
  - destruct (Sv I p x + Rv I p x + 1 <=? Sv I p y) eqn:A; lia.
Qed.

(* ---------------------------------------------------------------- AND rows *)
Lemma arows_ok : Forall (arow_ok a) (c_and (gen_ilp I)).
Proof.
  apply Forall_forall. intros r Hr. cbn [gen_ilp c_and] in Hr. rewrite Hgoal in Hr. apply in_map_iff in Hr. destruct Hr as (g & <- & Hg).
  unfold arow_ok. cbn [a_res a_ops]. unfold a at 1, asg_plan.
  assert (E : all_one a (map (fun t => VTReward (t_id t)) (reward_tasks I g)) = forallb (placed_in I p) (reward_tasks I g)).
  { unfold all_one. apply forallb_map_ext_in. intros t Ht. unfold a, asg_plan. rewrite (aid _ _ _ t (reward_task_in I g t Ht)).
    unfold placedv. destruct (placed_in I p t); reflexivity. }
  rewrite E. reflexivity.
Qed.

(* ---------------------------------------------------------------- capacity rows: Helly on the line *)
Lemma ldv_nonneg : forall t w r, In t (i_tasks I) -> 0 <= ldv I p t w r.
Proof. intros t w r Ht. unfold ldv. destruct (_ && _); [apply req_at_nonneg; assumption|lia]. Qed.

Lemma row_sum_fits : forall t1 wi rq, In t1 (i_tasks I) -> In wi (wenum I) -> In rq (w_res (snd wi)) ->
  ldv I p t1 (fst wi) (fst rq) + sum_list (fun t2 => ovv I p t1 t2 * ldv I p t2 (fst wi) (fst rq)) (others I t1) <= snd rq.
Proof.
  intros t1 wi rq H1 Hw Hrq. set (w := fst wi). set (r := fst rq).
  (* one sum over all tasks, with coefficient 1 for t1 itself *)
  set (c := fun x => if t_id x =? t_id t1 then 1 else ovv I p t1 x).
  assert (Esum : ldv I p t1 w r + sum_list (fun t2 => ovv I p t1 t2 * ldv I p t2 w r) (others I t1)
                 = sum_list (fun x => c x * ldv I p x w r) (i_tasks I)).
  { rewrite (sum_split_at (fun x => c x * ldv I p x w r) (i_tasks I) t1 Hn H1). fold (others I t1). unfold c at 1. rewrite Z.eqb_refl.
    f_equal; [lia|]. apply sum_list_ext. intros x Hx. unfold others in Hx. apply filter_In in Hx. destruct Hx as [_ Hne].
    unfold c. replace (t_id x =? t_id t1) with false by lia. reflexivity. }
  rewrite Esum. clear Esum.
  assert (Hc01 : forall x, In x (i_tasks I) -> 0 <= c x <= 1).
  { intros x Hx. unfold c. destruct (t_id x =? t_id t1); [lia|apply afterv_before_excl; assumption]. }
  (* the members: tasks on w that are t1 or overlap t1 *)
  set (M := fun x => (c x =? 1) && placed_in I p x && (w_in I p x =? w)).
  assert (Hterm0 : forall x, In x (i_tasks I) -> M x = false -> c x * ldv I p x w r = 0).
  { intros x Hx Hm. unfold M in Hm. pose proof (Hc01 x Hx). unfold ldv.
    destruct (c x =? 1) eqn:C1; [|assert (c x = 0) by lia; lia]. cbn [andb] in Hm. rewrite Hm. lia. }
  destruct (existsb M (i_tasks I)) eqn:Ex.
  2:{ rewrite sum_list_zero; [apply (Hcaps wi rq Hw Hrq)|]. intros x Hx. apply Hterm0; [exact Hx|].
      destruct (M x) eqn:Mx; [|reflexivity]. exfalso.
      assert (existsb M (i_tasks I) = true) by (apply existsb_exists; exists x; auto). congruence. }
  apply existsb_exists in Ex. destruct (exists_max (Sv I p) M (i_tasks I) Ex) as (m & Hm & Mm & Hmax).
  (* members overlap the task t1 (or are t1) *)
  assert (Hmem : forall x, In x (i_tasks I) -> M x = true -> placed_in I p x = true /\ w_in I p x = w /\ (x = t1 \/ overl I p t1 x = true)).
  { intros x Hx Mx. unfold M in Mx. rewrite !andb_true_iff in Mx. destruct Mx as [[C1 P] W]. split; [exact P|]. split; [lia|].
    unfold c in C1. destruct (t_id x =? t_id t1) eqn:E.
    - left. apply (nodup_map_inj (i_tasks I)); [exact Hn|exact Hx|exact H1|lia].
    - right. apply ovv_overl. lia. }
  assert (Hself : forall x, In x (i_tasks I) -> overl I p x x = true).
  { intros x Hx. pose proof (Rv_nonneg I p Hrt Hnr Hfeas x Hx). unfold overl. lia. }
  assert (Hpair : forall x, In x (i_tasks I) -> M x = true -> overl I p x m = true).
  { intros x Hx Mx. destruct (Hmem x Hx Mx) as (Px & Wx & Ox). destruct (Hmem m Hm Mm) as (Pm & Wm & Om).
    destruct Ox as [->|Ox]; destruct Om as [->|Om].
    - apply Hself; exact H1.
    - exact Om.
    - rewrite overl_sym. exact Ox.
    - apply (H3w t1 x m H1 Hx Hm Px Pm ltac:(lia) Ox Om). }
  (* every member is active at the start of m *)
  destruct (Hmem m Hm Mm) as (Pm & Wm & _).
  set (tau := start_in I p m).
  assert (Etau : Sv I p m = tau) by (unfold Sv; rewrite Pm; reflexivity).
  assert (Hact : forall x, In x (i_tasks I) -> M x = true -> active_cl I p x w tau = true /\ ldv I p x w r = req_at I p x r).
  { intros x Hx Mx. destruct (Hmem x Hx Mx) as (Px & Wx & _). pose proof (Hpair x Hx Mx) as Ov. pose proof (Hmax x Hx Mx) as Hle.
    unfold overl in Ov. unfold Sv, Rv in Ov, Hle. rewrite Px, Pm in Ov, Hle. fold tau in Ov, Hle. split.
    - unfold active_cl, dur. rewrite (Hnr x Hx). unfold placed_in in Px. unfold w_in in Wx. unfold start_in, rt_in in Ov, Hle.
      destruct (sits I p x) as [[[[s w'] k] rt]|]; [|discriminate]. lia.
    - unfold ldv. rewrite Px. replace (w_in I p x =? w) with true by lia. reflexivity. }
  assert (Hle : sum_list (fun x => c x * ldv I p x w r) (i_tasks I) <= usage_cl I p w r tau).
  { unfold usage_cl. apply sum_list_le. intros x Hx. pose proof (req_at_nonneg I p x r Hreq Hx) as H0.
    destruct (M x) eqn:Mx.
    - destruct (Hact x Hx Mx) as [A L]. rewrite A, L. unfold M in Mx. rewrite !andb_true_iff in Mx. destruct Mx as [[C1 _] _].
      assert (c x = 1) by lia. lia.
    - rewrite (Hterm0 x Hx Mx). destruct (active_cl I p x w tau); lia. }
  (* and the plan's capacity check covers the start of m *)
  assert (Hcap : usage_cl I p w r tau <= snd rq).
  { unfold feasible_clb in Hfeas. rewrite !andb_true_iff in Hfeas. destruct Hfeas as [_ Hc]. unfold capacity_clb in Hc.
    rewrite forallb_forall in Hc. specialize (Hc tau). assert (Hin : In tau (starts_of I p)).
    { unfold starts_of. apply in_map_iff. exists m. split; [reflexivity|]. apply filter_In. split; [exact Hm|exact Pm]. }
    specialize (Hc Hin). rewrite forallb_forall in Hc. specialize (Hc wi Hw). rewrite forallb_forall in Hc. specialize (Hc rq Hrq).
    unfold w, r. lia. }
  lia.
Qed.

Lemma qrows_ok : Forall (qrow_ok a) (c_quad (gen_ilp I)).
Proof.
  apply Forall_forall. intros q Hq. cbn [gen_ilp c_quad] in Hq. apply in_flat_map in Hq. destruct Hq as (t1 & H1 & Hq).
  unfold cap_rows in Hq. apply in_flat_map in Hq. destruct Hq as (wi & Hw & Hq).
  assert (Hoff : off_worker t1 wi = false) by (unfold off_worker; rewrite (Hnr t1 H1); reflexivity). rewrite Hoff in Hq.
  apply in_map_iff in Hq. destruct Hq as (rq & <- & Hrq).
  unfold qrow_ok. rewrite cap_row_eval. unfold cap_row. cbn [q_sense q_rhs].
  destruct bridge_overlap as (_ & _ & _ & _ & _ & B6 & _). rewrite B6. cbn [holds].
  unfold a. rewrite (load_value I p Hn Hnr Hfeas t1 wi (fst rq) H1 Hw).
  rewrite (sum_list_ext _ _ (fun t2 => ovv I p t1 t2 * ldv I p t2 (fst wi) (fst rq))).
  2:{ intros t2 H2. unfold others in H2. apply filter_In in H2. destruct H2 as [H2 _].
      rewrite (load_value I p Hn Hnr Hfeas t2 wi (fst rq) H2 Hw). unfold asg_plan. rewrite (aid _ _ _ t1 H1), (aid _ _ _ t2 H2). reflexivity. }
  apply row_sum_fits; assumption.
Qed.

(* ---------------------------------------------------------------- the theorem *)
Theorem plan_assignment_sat : sat (gen_ilp I) a.
Proof. unfold sat. repeat split; [apply bounds_ok|apply lrows_ok|apply irows_ok|apply arows_ok|apply qrows_ok]. Qed.

Lemma placedb_plan : forall t, In t (i_tasks I) -> placedb_a I a t = placed_in I p t.
Proof.
  intros t Ht. unfold placedb_a.
  destruct (V t Ht) as [Hs _|s w k wk st Hs Hw Hk _ _ _ _ _].
  - unfold placed_in. rewrite Hs. destruct (existsb _ _) eqn:E; [|reflexivity]. exfalso.
    apply existsb_exists in E. destruct E as (sl & Hsl & E). unfold on, a in E.
    rewrite (on_value I p Hn Hnr Hfeas t sl Ht Hsl) in E. unfold hitv, placed_in in E. rewrite Hs in E. cbn [andb] in E. lia.
  - unfold placed_in. rewrite Hs. apply existsb_exists. exists ((w, wk), (k, st)). split; [apply in_pairs; assumption|].
    unfold on, a. rewrite (on_value I p Hn Hnr Hfeas t _ Ht (in_pairs I t w wk k st Hw Hk)).
    unfold hitv, placed_in, w_in, k_in, slot_w, slot_k. rewrite Hs. cbn [fst snd andb]. rewrite !Z.eqb_refl. reflexivity.
Qed.
Theorem plan_assignment_objective : objective (gen_ilp I) a = goodput I p.
Proof.
  rewrite (objective_is_goodput I a plan_assignment_sat Hgoal). unfold goodput_a, goodput. apply sum_list_ext. intros g _.
  assert (E : forall l, (forall t, In t l -> In t (i_tasks I)) -> forallb (placedb_a I a) l = forallb (placed_in I p) l).
  { induction l as [|t l IH]; intros Hl; [reflexivity|]. cbn [forallb]. rewrite (placedb_plan t (Hl t (or_introl eq_refl))), IH; [reflexivity|].
    intros t' Ht'. apply Hl. right; exact Ht'. }
  rewrite (E (reward_tasks I g) (fun t Ht => reward_task_in I g t Ht)). reflexivity.
Qed.
End Complete.

Theorem C14_complete_taskwise : forall I p,
  nodup_ids I -> rt_nonneg I -> req_nonneg I -> caps_nonneg I -> i_goal I = Goodput ->
  no_running I -> taskwise I -> startable I -> feasible_clb I p = true -> no_three_way I p ->
  exists a, sat (gen_ilp I) a /\ objective (gen_ilp I) a = goodput I p.
Proof.
  intros I p Hn Hrt Hreq Hcaps Hgoal Hnr Htw Hst Hfeas H3w. exists (asg_plan I p). split.
  - apply plan_assignment_sat; assumption.
  - apply plan_assignment_objective; assumption.
Qed.

(* non-vacuity: two independent tasks on one 1-CPU worker, one after the other *)
Definition ex_two_plan : plan := [(1, Some (1, 1, 0)); (2, Some (7, 1, 0))].
Lemma C14_complete_nonvacuous :
  nodup_ids ex_two /\ rt_nonneg ex_two /\ req_nonneg ex_two /\ caps_nonneg ex_two /\ i_goal ex_two = Goodput /\
  no_running ex_two /\ taskwise ex_two /\ startable ex_two /\ feasible_clb ex_two ex_two_plan = true /\
  no_three_way ex_two ex_two_plan /\ goodput ex_two ex_two_plan = 2.
Proof.
  split; [unfold nodup_ids; cbn; repeat constructor; cbn; intuition discriminate|].
  split; [apply rt_nonnegb_spec; reflexivity|].
  split.
  { intros t s rq Ht Hs Hrq. cbn in Ht. destruct Ht as [<-|[<-|[]]]; cbn in Hs; destruct Hs as [<-|[]]; cbn in Hrq; destruct Hrq as [<-|[]]; cbn; lia. }
  split.
  { intros w rq Hw Hrq. cbn in Hw. destruct Hw as [<-|[]]. cbn in Hrq. destruct Hrq as [<-|[]]. cbn. lia. }
  split; [reflexivity|].
  split.
  { intros t Ht. cbn in Ht. destruct Ht as [<-|[<-|[]]]; reflexivity. }
  split.
  { split.
    - intros x y Hx Hy. cbn in Hx, Hy. destruct Hx as [<-|[<-|[]]]; destruct Hy as [<-|[<-|[]]]; reflexivity.
    - intros c Hc. cbn in Hc. destruct Hc as [<-|[<-|[]]]; reflexivity. }
  split.
  { intros t Ht _. cbn in Ht. destruct Ht as [<-|[<-|[]]]; vm_compute; discriminate. }
  split; [vm_compute; reflexivity|].
  split; [|vm_compute; reflexivity].
  intros t1 t2 t3 H1 H2 H3 _ _ _. cbn in H1, H2, H3.
  destruct H1 as [<-|[<-|[]]]; destruct H2 as [<-|[<-|[]]]; destruct H3 as [<-|[<-|[]]]; vm_compute; congruence.
Qed.
