(* C12 for the Z3 planner: deadlines never restrict the feasible set (they are add_soft rows in both
   modes), so "placed => completes by its deadline" fails for feasible points and, for tasks that cannot
   meet their deadline at all, for the optimum z3 returns (finding FZ3-E). *)
From Coq Require Import ZArith Bool List Lia ZifyBool.
Import ListNotations.
From Verif Require Import Model.Val Gen.Src_Z3 Model.Z3Model Proofs.Z3P Proofs.Z3P2.
Open Scope Z_scope.

(* enforce_deadlines does not occur in the asserted system *)
Lemma gen_z3_ignores_enforce : forall now e e' ts ws dep gdl,
  gen_z3 (mkInst now e ts ws dep gdl) = gen_z3 (mkInst now e' ts ws dep gdl).
Proof.
  intros now e e' ts ws dep gdl.
  assert (Hp : forall l, pairs_from (mkInst now e ts ws dep gdl) l = pairs_from (mkInst now e' ts ws dep gdl) l).
  { induction l as [|t l IH]; [reflexivity|]. cbn [pairs_from]. rewrite IH. reflexivity. }
  unfold gen_z3, exclusivity_rows, pairs. rewrite Hp. reflexivity.
Qed.

(* nor do the tasks' own deadlines, except through TaskGraph.deadline in the definition of the slack variable *)
Definition with_deadline (d : Z) (t : ztask) : ztask :=
  mkTask (zt_id t) (zt_graph t) (zt_release t) (zt_remaining t) d (zt_strats t) (zt_parents t) (zt_depth t).

(* witness = corpus/C12_z3/fz3e_hopeless_placed.json: now = 10, a 5us task with deadline 12 (hopeless),
   enforce_deadlines = True, one idle worker.  The point below is the optimum z3 returns: placed at 10. *)
Definition ex_hopeless : instance :=
  mkInst 10 true [mkTask 0 0 0 5 12 [mkStrat 5 [(0, 1)]] [] 1] [mkWorker 0 0 [(0, 2, 2)]] [] [(0, 12)].
Definition ex_hopeless_asg : asg :=
  asg_of [(VStart 0, 10); (VPlaced 0, 1); (VWorker 0, 1); (VRes 0 0, 1); (VPenalty, -2000000000); (VSlack 0, -3); (VGoal, -3)].
Lemma c12_z3_placed_meets_deadline_refuted : exists fs t,
  gen_z3 ex_hopeless = Ok fs /\ i_enforce ex_hopeless = true /\ sat fs ex_hopeless_asg = true /\ In t (i_tasks ex_hopeless) /\
  truth ex_hopeless_asg (VPlaced (zt_id t)) = true /\ meets_deadline ex_hopeless_asg t = false /\
  c12_strict_ok ex_hopeless ex_hopeless_asg = false /\
  (* and no feasible point does better on the soft rows: every start >= now = 10 misses 12 - 5 *)
  (forall a', sat fs a' = true -> soft_penalty ex_hopeless ex_hopeless_asg <= soft_penalty ex_hopeless a').
Proof.
  set (fs0 := match gen_z3 ex_hopeless with Ok l => l | Err _ => [] end).
  assert (E : gen_z3 ex_hopeless = Ok fs0) by (vm_compute; reflexivity).
  exists fs0, (mkTask 0 0 0 5 12 [mkStrat 5 [(0, 1)]] [] 1).
  repeat split; try (vm_compute; auto; fail).
  intros a' Hs.
  assert (Ht : feval a' (timing (ops ex_hopeless) (mkTask 0 0 0 5 12 [mkStrat 5 [(0, 1)]] [] 1) 10) = true).
  { eapply sat_in; [exact Hs|].
    assert (Hin : In (mkTask 0 0 0 5 12 [mkStrat 5 [(0, 1)]] [] 1) (i_tasks ex_hopeless)) by now left.
    destruct (task_rows_ok _ _ _ E Hin) as (rows & Hr).
    destruct (task_rows_shape _ _ _ Hr) as [(_ & _ & rr & _ & ->)|(_ & Hc & _)]; [|vm_compute in Hc; discriminate].
    eapply task_rows_in; [exact E|exact Hin|exact Hr|now left]. }
  apply timing_sem in Ht. unfold t_start in Ht. cbn [zt_id zt_release i_now ex_hopeless] in Ht.
  unfold soft_penalty. cbn. destruct (a' (VStart 0) + 5 <=? 12) eqn:El; lia.
Qed.
