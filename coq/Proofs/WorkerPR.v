(* Refuted statements: the hypotheses of the C04 theorems cannot be dropped, and the unrestricted
   property fails on the model exactly as it does on /repo (witnesses = corpus/C04/F*.json, replayed on
   the implementation on every run).  All by evaluation. *)
From Coq Require Import ZArith Bool List.
Import ListNotations.
From Verif Require Import Model.Val Model.Res Model.Worker.
Open Scope Z_scope.

Definition any0 : rvec := [((0, RAny), 1)].
Definition s_plain : strategy := mkStrat 0 false any0 2 5.
Definition s_batch : strategy := mkStrat 1 true any0 2 5.

(* FA: without freshness a resource is held although nothing is resident *)
Lemma replace_resident_refuted :
  exists id v ops, let w := w_run ops (w_new id v) in w_placed w = [] /\ r_allocs (w_res w) <> [].
Proof.
  exists 0, [((0, RId 0), 2)], [WPlace 0 s_plain; WPlace 0 s_batch; WRemove 0].
  vm_compute. split; [reflexivity|discriminate].
Qed.
(* FA2: a task resident on a worker of a pool that no longer knows it *)
Lemma replace_resident_pool_refuted :
  exists P ops, let P' := p_run ops P in
    p_placed P' = [] /\ exists W, In W (p_workers P') /\ w_placed W <> [].
Proof.
  exists (p_new 0 [w_new 0 [((0, RId 0), 1)]; w_new 1 [((0, RId 0), 1)]]),
         [PPlace 0 [s_plain] (Some s_plain) None; PPlace 0 [s_plain] (Some s_plain) None; PRemove 0].
  vm_compute. split; [reflexivity|]. eexists. split; [left; reflexivity|discriminate].
Qed.
(* FB: a resident task whose request recorded nothing cannot be removed *)
Lemma empty_request_refuted :
  exists id v t s, let w := fst (w_place t s (w_new id v)) in
    snd (w_place t s (w_new id v)) = Ok tt /\ snd (w_remove t w) = Err E_VALUE /\ w_placed (fst (w_remove t w)) <> [].
Proof.
  exists 0, [((0, RId 0), 2)], 0, (mkStrat 0 false [] 2 5). vm_compute. repeat split; discriminate.
Qed.
(* FC: with an `any` cell and specific cells of one name, copy raises on a reachable state ... *)
Lemma copy_mixed_vector_refuted :
  exists v ops, r_copy (r_run ops (r_new v)) = Err E_VALUE.
Proof.
  exists [((0, RId 0), 1); ((0, RAny), 1); ((0, RId 1), 1)],
         [RAllocate (0, RAny) (CTask 0) 2; RAllocate (0, RId 1) (CTask 1) 1; RDeallocate (CTask 0);
          RAllocate (0, RId 2) (CTask 2) 1; RAllocate (0, RId 0) (CBatch 0) 1].
  vm_compute. reflexivity.
Qed.
(* ... or answers a getter differently from its original *)
Lemma copy_mixed_vector_getters_refuted :
  exists v ops R' r, let R := r_run ops (r_new v) in r_copy R = Ok R' /\ r_available R' r <> r_available R r.
Proof.
  exists [((0, RAny), 1); ((0, RId 0), 1)],
         [RAllocate (0, RAny) (CTask 0) 1; RAllocate (0, RId 0) (CTask 1) 1; RDeallocate (CTask 0)].
  eexists. exists (0, RId 1). vm_compute. split; [reflexivity|discriminate].
Qed.
(* FD: a refused pool-wide load changes the pool *)
Lemma pool_wide_load_refuted :
  exists P p s P' e, p_load p s None P = (P', Err e) /\ P' <> P.
Proof.
  exists (p_new 0 [w_new 0 [((0, RId 0), 1)]; w_new 1 [((0, RId 0), 0)]]), 0, s_plain.
  eexists. eexists. vm_compute. split; [reflexivity|discriminate].
Qed.
(* FE: stepping a copy changes its original (shared loading-strategy object) *)
Lemma timer_aliasing_refuted :
  exists objs cs c, let W := fst (fold_left (fun Wc c => world_step (fst Wc) c) cs (mkWorld objs 1000000, 0)) in
    nth_error (wo_objs (fst (world_step W c))) 0 <> nth_error (wo_objs W) 0 /\
    match c with CWorker i _ => i <> O | _ => False end.
Proof.
  exists [OWorker (w_new 0 [((0, RId 0), 1)])], [CWorker 0 (WLoad 0 s_plain); CCopy 0], (CWorker 1 (WStep 3)).
  vm_compute. split; discriminate.
Qed.
(* FF: the copy of a worker forgets its batches *)
Lemma copy_drops_batch_refuted :
  exists id v t s w', let w := fst (w_place t s (w_new id v)) in
    w_copy w = Ok w' /\ w_fits s w = true /\ w_fits s w' = false.
Proof.
  exists 0, [((0, RId 0), 1)], 0, (mkStrat 1 true any0 3 5). eexists. vm_compute. repeat split; reflexivity.
Qed.
(* FG: loading an available profile again, then evicting: a pending profile that holds nothing *)
Lemma double_load_refuted :
  exists id v ops, let w := w_run ops (w_new id v) in w_pend_prof w <> [] /\ r_allocs (w_res w) = [].
Proof.
  exists 0, [((0, RId 0), 2)], [WLoad 0 (mkStrat 0 false any0 2 1); WStep 1; WLoad 0 (mkStrat 0 false any0 2 1); WEvict 0].
  vm_compute. split; [discriminate|reflexivity].
Qed.
(* FH: negative quantities break `available >= 0` *)
Lemma negative_quantity_refuted :
  exists v ops k q, In (k, q) (r_avail (r_run ops (r_new v))) /\ q < 0.
Proof.
  exists [((0, RId 0), 1)], [RAllocate (0, RAny) (CTask 0) (-1); RAllocate (0, RAny) (CTask 1) 2; RDeallocate (CTask 0)].
  eexists. eexists. vm_compute. split; [left; reflexivity|reflexivity].
Qed.
(* the refusal theorem needs "no empty entry": an entry created by the getter get_allocated_resources
   disappears when an allocate_multiple for the same computation is refused *)
Lemma refusal_empty_entry_refuted :
  exists R req c R' e, r_allocate_multiple R req c = (R', Err e) /\ R' <> R.
Proof.
  exists (fst (r_get_allocated_resources (r_new [((0, RId 0), 1); ((0, RId 1), 1)]) (CTask 0))),
         [((0, RAny), 1); ((0, RId 0), 1); ((0, RId 1), 1)], (CTask 0).
  eexists. eexists. vm_compute. split; [reflexivity|discriminate].
Qed.
