(* Refuted statements: what is still FALSE of /repo (witnesses = corpus/C04, replayed on the
   implementation on every run).  The statements refuted here earlier for findings FA, FA2, FB, FC, FC2, FD
   (load), FE, FF, FH, FI were repaired in /repo (17757a8, be1cb9f, cd7cd87, b0287db, 84d7416, 0f42ab1,
   402c33a) and are now THEOREMS (see Props/C04.v); their witnesses stay in corpus/C04 as regression cases. *)
From Coq Require Import ZArith Bool List.
Import ListNotations.
From Verif Require Import Model.Val Model.Res Model.Worker.
Open Scope Z_scope.

Definition any0 : rvec := [((0, RAny), 1)].
Definition s_plain : strategy := mkStrat 0 false any0 2 5.

(* FG (not repaired): loading an available profile again, then evicting: a pending profile that holds nothing *)
Lemma double_load_refuted :
  exists id v ops, let w := w_run ops (w_new id v) in w_pend_prof w <> [] /\ r_allocs (w_res w) = [].
Proof.
  exists 0, [((0, RId 0), 2)], [WLoad 0 (mkStrat 0 false any0 2 1); WStep 1; WLoad 0 (mkStrat 0 false any0 2 1); WEvict 0].
  vm_compute. split; [discriminate|reflexivity].
Qed.
(* FD2 (evict_profile was not repaired): a refused pool-wide evict changes the pool *)
Lemma pool_wide_evict_refuted :
  exists P p P' e, p_evict p None P = (P', Err e) /\ P' <> P.
Proof.
  exists (fst (p_load 0 s_plain (Some 0) (p_new 0 [w_new 0 [((0, RId 0), 1)]; w_new 1 [((0, RId 0), 1)]]))), 0.
  eexists. eexists. vm_compute. split; [reflexivity|discriminate].
Qed.
(* a loading strategy that is a registered BatchStrategy passes the pre-check of the pool-wide load on a
   full worker (can_accomodate_strategy is True for a placed batch) and is then refused half-way *)
Lemma pool_load_batch_strategy_refuted :
  exists P p s P' e, p_load p s None P = (P', Err e) /\ P' <> P.
Proof.
  exists (fst (p_place 0 [] (Some (mkStrat 1 true any0 2 5)) (Some 1)
                (p_new 0 [w_new 0 [((0, RId 0), 2)]; w_new 1 [((0, RId 0), 1)]]))), 0, (mkStrat 1 true any0 2 5).
  eexists. eexists. vm_compute. split; [reflexivity|discriminate].
Qed.
