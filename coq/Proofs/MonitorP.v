(* The monitors of Model/Worker.v (applied by the harness to the implementation's observations) are
   the decidable forms of the statements proved about the model. *)
From Coq Require Import ZArith Bool List Lia ZifyBool Arith.
Import ListNotations.
From Verif Require Import Model.Val Model.Res Model.Worker Proofs.ResP Proofs.ResP2 Proofs.WorkerP Proofs.WorkerP2 Proofs.WorkerP3.
Open Scope Z_scope.

(* ---------- check_same: equality of observations ---------- *)
Fixpoint val_size (v : val) : nat :=
  match v with I _ => 1%nat | L l => S (fold_right (fun x acc => (val_size x + acc)%nat) 0%nat l) end.
Lemma val_eqb_eq : forall a b, val_eqb a b = true <-> a = b.
Proof.
  assert (H : forall n a, (val_size a <= n)%nat -> forall b, val_eqb a b = true <-> a = b).
  { induction n as [|n IH]; intros a Hn b.
    - destruct a; cbn in Hn; lia.
    - destruct a as [x|xs]; destruct b as [y|ys]; cbn [val_eqb]; try (split; [discriminate|congruence]).
      + rewrite Z.eqb_eq. split; congruence.
      + cbn [val_size] in Hn. apply le_S_n in Hn. revert ys. induction xs as [|x xs IHx]; intros [|y ys]; try (split; [discriminate|congruence]).
        * split; reflexivity.
        * cbn [fold_right] in Hn. rewrite andb_true_iff. rewrite (IH x); [|lia]. rewrite IHx; [|lia].
          split; [intros [-> E]; inversion E; reflexivity|intro E; inversion E; auto]. }
  intros a b. apply (H (val_size a)). lia.
Qed.
Theorem check_same_iff : forall p, check_same p = true <-> fst p = snd p.
Proof. intros [a b]. apply val_eqb_eq. Qed.

(* ---------- check_demand: C01 on one worker observation ---------- *)
Theorem check_demand_iff : forall names tot placed profs,
  check_demand names tot placed profs = true <->
  forall n, In n names -> demand_name (obs_worker_of tot placed profs) n <= cap_name (obs_worker_of tot placed profs) n.
Proof.
  intros names tot placed profs. unfold check_demand. rewrite forallb_forall.
  split; intros H n Hn; specialize (H n Hn); lia.
Qed.

(* ---------- check_full ---------- *)
Lemma vec_eqb_eq : forall av tot,
  (fix eqv (x y : rvec) : bool :=
     match x, y with
     | [], [] => true
     | (k, q) :: x', (k', q') :: y' => rkey_eqb k k' && (q =? q') && eqv x' y'
     | _, _ => false
     end) av tot = true <-> av = tot.
Proof.
  induction av as [|[k q] av IH]; intros [|[k' q'] tot]; try (split; [discriminate|congruence]); [split; reflexivity|].
  rewrite !andb_true_iff, rkey_eqb_eq, Z.eqb_eq, IH. split; [intros [[-> ->] ->]; reflexivity|intro E; inversion E; auto].
Qed.
Theorem check_full_iff : forall tot av a, check_full tot av a = true <-> a = [] /\ av = tot.
Proof.
  intros tot av a. unfold check_full. rewrite andb_true_iff, vec_eqb_eq.
  destruct a; split; intros [H1 H2]; split; auto; discriminate.
Qed.

(* ---------- check_pool_placed ---------- *)
Theorem check_pool_placed_iff : forall pp wp,
  check_pool_placed pp wp = true <->
  (forall t w, In (t, w) pp -> exists l, zfind w wp = Some l /\ In t l) /\
  (forall w l t, In (w, l) wp -> In t l -> zfind t pp = Some w).
Proof.
  intros pp wp. unfold check_pool_placed. rewrite andb_true_iff, !forallb_forall. split.
  - intros [H1 H2]. split.
    + intros t w Hin. specialize (H1 _ Hin). cbn [fst snd] in H1. destruct (zfind w wp) as [l|]; [|discriminate].
      exists l. split; [reflexivity|apply set_mem_in; exact H1].
    + intros w l t Hin Ht. specialize (H2 _ Hin). cbn [fst snd] in H2. rewrite forallb_forall in H2. specialize (H2 _ Ht).
      destruct (zfind t pp) as [w'|]; [|discriminate]. f_equal. lia.
  - intros [H1 H2]. split.
    + intros [t w] Hin. cbn [fst snd]. destruct (H1 _ _ Hin) as (l & E & Ht). rewrite E. apply set_mem_in. exact Ht.
    + intros [w l] Hin. cbn [fst snd]. rewrite forallb_forall. intros t Ht. rewrite (H2 _ _ _ Hin Ht). lia.
Qed.

(* ---------- check_held: who holds what ---------- *)
Definition Exact_for (names : list Z) (a : allocs) (c : comp) (req : rvec) : Prop :=
  forall n, In n names -> name_sum n (al_get c a) = name_sum n req.
Lemma exact_for_iff : forall names a c req, exact_for names a c req = true <-> Exact_for names a c req.
Proof. intros. unfold exact_for, Exact_for. rewrite forallb_forall. split; intros H n Hn; specialize (H n Hn); lia. Qed.
Theorem check_held_iff : forall names a placed profs,
  check_held names a placed profs = true <->
  (forall c l, In (c, l) a -> holder_ok placed profs c = true) /\
  (forall t s, In (t, s) placed ->
     if s_is_batch s then Exact_for names a (CBatch (s_id s)) (s_req s) else Exact_for names a (CTask t) (s_req s)) /\
  (forall p req, In (p, req) profs -> Exact_for names a (CProf p) req).
Proof.
  intros names a placed profs. unfold check_held. rewrite !andb_true_iff, !forallb_forall. split.
  - intros [[H1 H2] H3]. split; [|split].
    + intros c l Hin. apply (H1 _ Hin).
    + intros t s Hin. specialize (H2 _ Hin). cbn [fst snd] in H2. destruct (s_is_batch s); apply exact_for_iff; exact H2.
    + intros p req Hin. apply exact_for_iff. apply (H3 _ Hin).
  - intros (H1 & H2 & H3). split; [split|].
    + intros [c l] Hin. eapply H1; eauto.
    + intros [t s] Hin. specialize (H2 _ _ Hin). cbn [fst snd]. destruct (s_is_batch s); apply exact_for_iff; exact H2.
    + intros [p req] Hin. apply exact_for_iff. eapply H3; eauto.
Qed.

(* ---------- check_ledger: conservation for every key predicate ---------- *)
Lemma keys_nodupb_iff : forall v, keys_nodupb v = true <-> NoDup (map fst v).
Proof.
  induction v as [|[k q] v IH]; cbn [keys_nodupb map fst]; [split; [constructor|reflexivity]|].
  rewrite andb_true_iff, negb_true_iff, IH. split.
  - intros [H1 H2]. constructor; [|exact H2]. intro Hin. apply in_map_iff in Hin. destruct Hin as ([k' q'] & E & Hin). cbn [fst] in E. subst k'.
    assert (X : existsb (fun kq => rkey_eqb k (fst kq)) v = true) by (apply existsb_exists; exists (k, q'); split; [exact Hin|apply rkey_eqb_refl]).
    congruence.
  - intro H. inversion H as [|x y N1 N2]; subst. split; [|exact N2].
    destruct (existsb _ v) eqn:E; [|reflexivity]. exfalso. apply existsb_exists in E. destruct E as ([k' q'] & Hin & E).
    apply rkey_eqb_eq in E. cbn [fst] in E. subst k'. apply N1. apply (in_map fst) in Hin. exact Hin.
Qed.
Lemma recs_inb_iff : forall v a, recs_inb v a = true <-> recs_in v a.
Proof.
  intros v a. unfold recs_inb, recs_in. rewrite forallb_forall, Forall_forall. split; intros H cl Hin; specialize (H cl Hin).
  - rewrite forallb_forall in H. rewrite Forall_forall. intros kq Hkq. specialize (H kq Hkq). apply existsb_exists in H.
    destruct H as (kq' & Hin' & E). apply rkey_eqb_eq in E. rewrite E. apply in_map. exact Hin'.
  - rewrite Forall_forall in H. rewrite forallb_forall. intros kq Hkq. specialize (H kq Hkq). apply in_map_iff in H.
    destruct H as (kq' & E & Hin'). apply existsb_exists. exists kq'. split; [exact Hin'|]. rewrite E. apply rkey_eqb_refl.
Qed.
Lemma allocated_cell_sum : forall a k, allocated_cell a k = allocs_sum (rkey_eqb k) a.
Proof. intros a k. unfold allocated_cell. induction a as [|cl a IH]; cbn [fold_right allocs_sum]; [reflexivity|]. rewrite IH. reflexivity. Qed.

Definition Cellwise (av tot : rvec) (a : allocs) : Prop :=
  Forall2 (fun x y => fst x = fst y /\ 0 <= snd x /\ snd x + allocs_sum (rkey_eqb (fst x)) a = snd y) av tot.
Lemma cells_ok_iff : forall av tot a, cells_ok av tot a = true <-> Cellwise av tot a.
Proof.
  unfold Cellwise. induction av as [|[k q] av IH]; intros [|[k' t] tot] a; cbn [cells_ok]; try (split; [discriminate|intro H; inversion H]).
  - split; [constructor|reflexivity].
  - rewrite !andb_true_iff, IH, rkey_eqb_eq, allocated_cell_sum. split.
    + intros [[[E1 E2] E3] E4]. constructor; [cbn [fst snd]; repeat split; [exact E1|lia|lia]|exact E4].
    + intro H. inversion H as [|x y l l' (X1 & X2 & X3) X4]; subst. cbn [fst snd] in *. repeat split; auto; lia.
Qed.

(* a sum over records whose keys are cells of a vector with unique keys, decomposed cell by cell *)
Fixpoint by_cell (P : rkey -> bool) (g : rkey -> Z) (keys : list rkey) : Z :=
  match keys with [] => 0 | k :: ks => (if P k then g k else 0) + by_cell P g ks end.
Lemma by_cell_add : forall P g h keys, by_cell P (fun k => g k + h k) keys = by_cell P g keys + by_cell P h keys.
Proof. intros P g h. induction keys as [|k ks IH]; cbn [by_cell]; [lia|]. rewrite IH. destruct (P k); lia. Qed.
Lemma by_cell_zero : forall P keys, by_cell P (fun _ => 0) keys = 0.
Proof. intros P. induction keys as [|k ks IH]; cbn [by_cell]; [reflexivity|]. rewrite IH. destruct (P k); reflexivity. Qed.
Lemma by_cell_single : forall P k0 q keys, NoDup keys -> In k0 keys ->
  by_cell P (fun k => if rkey_eqb k k0 then q else 0) keys = if P k0 then q else 0.
Proof.
  intros P k0 q. induction keys as [|k ks IH]; intros Hnd Hin; [destruct Hin|].
  inversion Hnd as [|x y N1 N2]; subst. cbn [by_cell]. destruct Hin as [->|Hin].
  - rewrite rkey_eqb_refl. assert (Z0 : by_cell P (fun k => if rkey_eqb k k0 then q else 0) ks = 0).
    { clear IH N2 Hnd. induction ks as [|k ks IHk]; cbn [by_cell]; [reflexivity|].
      destruct (rkey_eqb k k0) eqn:E; [apply rkey_eqb_eq in E; subst; exfalso; apply N1; left; reflexivity|].
      rewrite IHk; [destruct (P k); reflexivity|]. intro X. apply N1. right. exact X. }
    rewrite Z0. destruct (P k0); lia.
  - rewrite (IH N2 Hin). destruct (rkey_eqb k k0) eqn:E; [apply rkey_eqb_eq in E; subst; contradiction|]. destruct (P k); lia.
Qed.
Lemma sumP_by_cell : forall P l keys, NoDup keys -> Forall (fun kq => In (fst kq) keys) l ->
  sumP P l = by_cell P (fun k => sumP (rkey_eqb k) l) keys.
Proof.
  intros P l keys Hnd. induction l as [|[k0 q] l IH]; intro H; cbn [sumP].
  - rewrite by_cell_zero. reflexivity.
  - inversion H as [|x y H1 H2]; subst. cbn [fst] in H1. rewrite (IH H2).
    rewrite <- (by_cell_single P k0 q keys Hnd H1). rewrite <- by_cell_add. reflexivity.
Qed.
Lemma allocs_sum_by_cell : forall P a keys, NoDup keys ->
  Forall (fun cl => Forall (fun kq => In (fst kq) keys) (snd cl)) a ->
  allocs_sum P a = by_cell P (fun k => allocs_sum (rkey_eqb k) a) keys.
Proof.
  intros P a keys Hnd. induction a as [|[c l] a IH]; intro H; cbn [allocs_sum snd].
  - rewrite by_cell_zero. reflexivity.
  - inversion H as [|x y H1 H2]; subst. cbn [snd] in H1. rewrite (IH H2), (sumP_by_cell P l keys Hnd H1), <- by_cell_add. reflexivity.
Qed.
Lemma sumP_vec_by_cell : forall P v, NoDup (map fst v) -> sumP P v = by_cell P (fun k => sumP (rkey_eqb k) v) (map fst v).
Proof.
  intros P v Hnd. apply sumP_by_cell; [exact Hnd|]. rewrite Forall_forall. intros kq Hin. apply in_map. exact Hin.
Qed.
Lemma by_cell_ext : forall P g h keys, (forall k, In k keys -> g k = h k) -> by_cell P g keys = by_cell P h keys.
Proof.
  intros P g h. induction keys as [|k ks IH]; intro H; cbn [by_cell]; [reflexivity|].
  rewrite (H k (or_introl eq_refl)), IH; [reflexivity|]. intros k' Hk'. apply H. right. exact Hk'.
Qed.
Lemma sumP_eqb_cell : forall v k q, NoDup (map fst v) -> In (k, q) v -> sumP (rkey_eqb k) v = q.
Proof.
  induction v as [|[k0 q0] v IH]; intros k q Hnd Hin; [destruct Hin|].
  cbn [map fst] in Hnd. inversion Hnd as [|x y N1 N2]; subst. cbn [sumP]. destruct Hin as [Hin|Hin].
  - inversion Hin; subst. rewrite rkey_eqb_refl. rewrite (sumP_eqb_notin k v N1). lia.
  - rewrite (IH k q N2 Hin). destruct (rkey_eqb k k0) eqn:E; [|lia]. apply rkey_eqb_eq in E. subst.
    exfalso. apply N1. apply (in_map fst) in Hin. exact Hin.
Qed.

Definition Ledger_obs_ok (tot av : rvec) (a : allocs) : Prop :=
  NoDup (map fst av) /\ map fst av = map fst tot /\ nonneg_vec av /\ recs_in av a /\
  forall P, sumP P av + allocs_sum P a = sumP P tot.

Lemma cellwise_facts : forall av tot a, Cellwise av tot a ->
  map fst av = map fst tot /\ nonneg_vec av /\
  forall k q, In (k, q) av -> exists t, In (k, t) tot /\ q + allocs_sum (rkey_eqb k) a = t.
Proof.
  intros av tot a H. induction H as [|[k q] [k' t] av tot (X1 & X2 & X3) H IH]; cbn [map fst].
  - repeat split; [constructor|]. intros k q [].
  - cbn [fst snd] in *. subst k'. destruct IH as (I1 & I2 & I3). split; [f_equal; exact I1|]. split; [constructor; [exact X2|exact I2]|].
    intros k0 q0 [Hin|Hin].
    + inversion Hin; subst k0 q0. exists t. split; [left; reflexivity|exact X3].
    + destruct (I3 _ _ Hin) as (t0 & Y1 & Y2). exists t0. split; [right; exact Y1|exact Y2].
Qed.

Lemma cellwise_intro : forall a av tot, map fst av = map fst tot -> nonneg_vec av ->
  (forall k q t, In (k, q) av -> In (k, t) tot -> q + allocs_sum (rkey_eqb k) a = t) -> Cellwise av tot a.
Proof.
  intros a. unfold Cellwise. induction av as [|[k q] av IH]; intros [|[k' t] tot] K N H; cbn [map fst] in K; try discriminate; [constructor|].
  inversion K; subst k'. inversion N as [|x y N1 N2]; subst. constructor.
  - cbn [fst snd] in *. repeat split; [exact N1|]. apply H; left; reflexivity.
  - apply IH; [assumption|exact N2|]. intros k0 q0 t0 X Y. apply H; right; assumption.
Qed.

Theorem check_ledger_iff : forall tot av a, check_ledger tot av a = true <-> Ledger_obs_ok tot av a.
Proof.
  intros tot av a. unfold check_ledger, Ledger_obs_ok. rewrite !andb_true_iff, keys_nodupb_iff, recs_inb_iff, cells_ok_iff. split.
  - intros [[Hnd Hin] Hc]. destruct (cellwise_facts _ _ _ Hc) as (K & N & F). repeat split; auto.
    intro P. assert (Hndt : NoDup (map fst tot)) by (rewrite <- K; exact Hnd).
    rewrite (sumP_vec_by_cell P av Hnd), (allocs_sum_by_cell P a (map fst av) Hnd Hin), (sumP_vec_by_cell P tot Hndt), <- K, <- by_cell_add.
    apply by_cell_ext. intros k Hk. apply in_map_iff in Hk. destruct Hk as ([k' q] & E & Hk). cbn [fst] in E. subst k'.
    destruct (F _ _ Hk) as (t & T1 & T2). rewrite (sumP_eqb_cell av k q Hnd Hk), (sumP_eqb_cell tot k t Hndt T1). exact T2.
  - intros (Hnd & K & N & Hin & C). repeat split; auto.
    assert (Hndt : NoDup (map fst tot)) by (rewrite <- K; exact Hnd).
    apply cellwise_intro; [exact K|exact N|]. intros k q t H1 H2.
    specialize (C (rkey_eqb k)). rewrite (sumP_eqb_cell av k q Hnd H1), (sumP_eqb_cell tot k t Hndt H2) in C. exact C.
Qed.
