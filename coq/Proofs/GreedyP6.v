(* Greedy policies, part 6: joint feasibility in arithmetic form for the simple ledger.  For every pool and every
   resource name, what is available in the pool after the policy's placements is what was available on the planning
   copy minus the summed requests of the placements the policy reports for that pool -- and every entry of every
   worker stays within [0, total] (part 3).  Hence the placements returned for a pool never ask, in total, for
   more of a resource than the pool had free. *)
From Coq Require Import ZArith Bool List Lia ZifyBool Permutation.
Import ListNotations.
From Verif Require Import Model.Val Gen.Src_Greedy Model.Greedy Proofs.GreedyP Proofs.GreedyP2 Proofs.GreedyP3.
Open Scope Z_scope.

Fixpoint ws_avail (ws : list sworker) (n : Z) : Z :=
  match ws with [] => 0 | w :: r => avail_of w n + ws_avail r n end.
Definition pool_avail (p : pool SL) (n : Z) : Z := ws_avail (snd p) n.
Definition cluster_avail (c : cluster SL) (pid n : Z) : Z :=
  match find (fun p : pool SL => fst p =? pid) c with Some p => pool_avail p n | None => 0 end.
Definition dec_demand (ts : list (task SL)) (d : decision) (pid n : Z) : Z :=
  match d with
  | DPlace t pid' k _ =>
      if pid' =? pid then
        match find_task SL ts t with
        | Some tk => match nth_error (t_strats tk) k with Some s => demand (ss_req s) n | None => 0 end
        | None => 0
        end
      else 0
  | _ => 0
  end.
Fixpoint placed_demand (ts : list (task SL)) (ds : list decision) (pid n : Z) : Z :=
  match ds with [] => 0 | d :: r => dec_demand ts d pid n + placed_demand ts r pid n end.

Lemma place_first_conserve ws t s : forall ws', Forall s_wok ws -> s_sok s -> place_first SL ws t s = Some ws' ->
  (forall n, ws_avail ws' n = ws_avail ws n - demand (ss_req s) n) /\ Forall s_wok ws'.
Proof.
  induction ws as [|w r IH]; intros ws' Hok Hs H; cbn [place_first] in H; [discriminate|].
  inversion Hok as [|? ? Hw Hr]; subst.
  destruct (can SL w s) eqn:C.
  - inversion H; subst. split.
    + intros n. cbn [ws_avail]. change (wplace SL w t s) with (s_wplace w t s).
      rewrite (s_wplace_conserve w t s Hw Hs C n). lia.
    + constructor; [apply (s_wplace_ok w t s Hw Hs C)|exact Hr].
  - destruct (place_first SL r t s) as [r'|] eqn:E; [|discriminate]. inversion H; subst.
    destruct (IH r' Hr Hs eq_refl) as [H1 H2]. split.
    + intros n. cbn [ws_avail]. rewrite H1. lia.
    + constructor; assumption.
Qed.
Lemma place_first_some ws t s : existsb (fun w => can SL w s) ws = true -> exists ws', place_first SL ws t s = Some ws'.
Proof.
  induction ws as [|w r IH]; cbn [existsb place_first]; [discriminate|].
  destruct (can SL w s); [eauto|]. cbn [orb]. intros H. destruct (IH H) as [r' ->]. eauto.
Qed.

Definition stepf_s (t : Z) (s : sstrat) : pool SL -> option (pool SL) :=
  fun p => if pool_can SL p s then Some (pool_place SL p t s) else None.

Lemma pool_update_avail (c : cluster SL) pid' t s : forall c', NoDup (map fst c) -> s_cok c -> s_sok s ->
  pool_update SL c pid' (stepf_s t s) = Some c' ->
  (forall pid n, cluster_avail c' pid n = cluster_avail c pid n - (if pid' =? pid then demand (ss_req s) n else 0)) /\
  map fst c' = map fst c /\ s_cok c'.
Proof.
  induction c as [|p r IH]; intros c' ND Hok Hs H; cbn [pool_update] in H; [discriminate|].
  cbn [map] in ND. inversion ND as [|? ? Hn NDr]; subst. inversion Hok as [|? ? Hp Hokr]; subst.
  destruct (fst p =? pid') eqn:Q.
  - unfold stepf_s in H. destruct (pool_can SL p s) eqn:C; [|discriminate]. inversion H; subst.
    unfold pool_can in C. destruct (place_first_some (snd p) t s C) as [ws' E].
    destruct (place_first_conserve (snd p) t s ws' Hp Hs E) as [Hc Hok'].
    assert (pool_place SL p t s = (fst p, ws')) as Epp by (unfold pool_place; rewrite E; reflexivity).
    rewrite Epp. split; [|split; [reflexivity|constructor; assumption]].
    intros pid n. unfold cluster_avail. cbn [find fst].
    destruct (fst p =? pid) eqn:Q2.
    + unfold pool_avail. cbn [snd]. rewrite Hc. assert (pid' =? pid = true) as -> by lia. reflexivity.
    + assert (pid' =? pid = false) as -> by lia. lia.
  - destruct (pool_update SL r pid' (stepf_s t s)) as [r'|] eqn:U; [|discriminate]. inversion H; subst.
    destruct (IH r' NDr Hokr Hs eq_refl) as [Hc [Hids Hok']].
    split; [|split; [cbn [map]; f_equal; exact Hids|constructor; assumption]].
    intros pid n. unfold cluster_avail in *. cbn [find].
    destruct (fst p =? pid) eqn:Q2.
    + assert (pid' =? pid = false) as -> by lia. lia.
    + apply Hc.
Qed.

Lemma apply_decision_avail ts (c : cluster SL) d : forall c', NoDup (map fst c) -> s_cok c -> s_tasks_ok ts ->
  apply_decision SL ts c d = Some c' ->
  (forall pid n, cluster_avail c' pid n = cluster_avail c pid n - dec_demand ts d pid n) /\
  map fst c' = map fst c /\ s_cok c'.
Proof.
  intros c' ND Hok Hts H. destruct d as [t|t pid' k time|t]; cbn [apply_decision dec_demand] in *.
  - inversion H; subst. split; [intros; lia|auto].
  - destruct (find_task SL ts t) as [tk|] eqn:Ft; [|discriminate].
    destruct (nth_error (t_strats tk) k) as [s|] eqn:Hn; [|discriminate].
    assert (s_sok s) as Hs.
    { apply find_task_some in Ft. destruct Ft as [Hin _]. unfold s_tasks_ok, tasks_ok in Hts. rewrite Forall_forall in Hts.
      specialize (Hts tk Hin). rewrite Forall_forall in Hts. apply Hts. eapply nth_error_In; exact Hn. }
    exact (pool_update_avail c pid' t s c' ND Hok Hs H).
  - inversion H; subst. split; [intros; lia|auto].
Qed.

Lemma replay_avail ts ds : forall (c cf : cluster SL), NoDup (map fst c) -> s_cok c -> s_tasks_ok ts ->
  replay SL ts c ds = Some cf ->
  (forall pid n, cluster_avail cf pid n = cluster_avail c pid n - placed_demand ts ds pid n) /\ s_cok cf.
Proof.
  induction ds as [|d r IH]; intros c cf ND Hok Hts H; cbn [replay placed_demand] in *.
  - inversion H; subst. split; [intros; lia|exact Hok].
  - destruct (apply_decision SL ts c d) as [c'|] eqn:A; [|discriminate].
    destruct (apply_decision_avail ts c d c' ND Hok Hts A) as [H1 [Hids Hok']].
    destruct (IH c' cf ltac:(rewrite Hids; exact ND) Hok' Hts H) as [H2 Hokf].
    split; [|exact Hokf]. intros pid n. rewrite H2, H1. lia.
Qed.

Lemma ws_avail_nonneg ws n : Forall s_wok ws -> 0 <= ws_avail ws n.
Proof.
  induction 1 as [|w r Hw _ IH]; cbn [ws_avail]; [lia|]. pose proof (avail_of_nonneg w n Hw). lia.
Qed.
Lemma cluster_avail_nonneg (c : cluster SL) pid n : s_cok c -> 0 <= cluster_avail c pid n.
Proof.
  intros Hok. unfold cluster_avail. destruct (find _ c) as [p|] eqn:F; [|lia].
  apply find_some in F. destruct F as [Hin _]. unfold s_cok, cok in Hok. rewrite Forall_forall in Hok.
  apply ws_avail_nonneg. apply Hok. exact Hin.
Qed.

(* C10, capacity in arithmetic form *)
Theorem capacity_simple P e pre now (c : cluster SL) offered ds cf :
  NoDup (map (@t_id SL) offered) -> NoDup (map fst c) -> s_cok c -> s_tasks_ok offered ->
  schedule_full SL P e pre now c offered = Ok (ds, cf) ->
  forall pid n,
    cluster_avail cf pid n = cluster_avail (virtual SL P pre c) pid n - placed_demand offered ds pid n /\
    0 <= cluster_avail cf pid n /\
    placed_demand offered ds pid n <= cluster_avail (virtual SL P pre c) pid n.
Proof.
  intros NDt NDc Hok Hts H pid n.
  destruct (contract_generic SL P e pre now c offered ds cf NDt NDc H) as [_ [Hrep _]].
  assert (NoDup (map fst (virtual SL P pre c))) as NDv.
  { unfold virtual. destruct (p_reset P pre); [|exact NDc]. rewrite map_map. cbn [fst]. exact NDc. }
  assert (s_cok (virtual SL P pre c)) as Hokv by (apply (virtual_ok SL s_wok s_wreset_ok); exact Hok).
  destruct (replay_avail offered ds _ cf NDv Hokv Hts Hrep) as [Heq Hokf].
  pose proof (cluster_avail_nonneg cf pid n Hokf) as Hnn. specialize (Heq pid n). lia.
Qed.
