(* C19, part 8: the former finding C19-periodic-loader (fixed in /repo 3effb4b) as lemmas about the model of
   WorkloadLoader: had the loader handed the bare int flag loop_timeout to generate_task_graphs (as it did), a
   document with `release_policy: periodic` would not be instantiated (AttributeError, code 4); with
   EventTime(loop_timeout) it is instantiated as declared. *)
From Coq Require Import ZArith Bool List Lia.
Import ListNotations.
From Verif Require Import Model.Val Gen.Src_Time Model.Release.
Open Scope Z_scope.

Definition periodic_doc : load_case :=
  mkLC (Some [mkDP (Some 0) None (Some [mkDS (Some [(0, 0, 1)]) (Some 1) (Some 100)])])
       (Some [mkDG (Some 0) (Some [mkDN 0 (Some 0) None false None false None]) (Some 0)
                   (Some 5) (Some 300) None None None None None])
       (Some (mkRF (mkF 0 0) (mkF 0 0) 0 0 false 1 (-1) 0 (2 ^ 63 - 1) 1000 false)) [] [] [].

Lemma loader_periodic_int_horizon_refused :
  exists ls, load_workload (lc_profiles periodic_doc) (lc_graphs periodic_doc) (lc_flags periodic_doc) = Ok ls /\
    (exists l, In l ls /\ p_type (jg_policy (l_jg l)) = PERIODIC) /\
    forall us_, populate ls (mkIF 0 (2 ^ 63 - 1) (0, 0) false) None [] [] us_ 0 = Err 4.
Proof.
  eexists. split; [vm_compute; reflexivity|]. split.
  - eexists. split; [left; reflexivity|reflexivity].
  - intros us_. reflexivity.
Qed.

(* as loaded today: releases at 5, 305, 605, 905 for --loop_timeout=1000 *)
Lemma loader_periodic_instantiated :
  exists ls tgs, load_workload (lc_profiles periodic_doc) (lc_graphs periodic_doc) (lc_flags periodic_doc) = Ok ls /\
    populate ls (mkIF 0 (2 ^ 63 - 1) (0, 0) false) (lc_completion periodic_doc) [] []
             [mkF 0 0; mkF 0 0; mkF 0 0; mkF 0 0; mkF 0 0; mkF 0 0; mkF 0 0; mkF 0 0] 0 = Ok tgs /\
    map (fun x => map (fun tg => map (fun t => et_time (t_release t)) (tg_tasks tg)) (snd x)) tgs = [[[5]; [305]; [605]; [905]]].
Proof. eexists. eexists. split; [vm_compute; reflexivity|]. split; [vm_compute; reflexivity|]. reflexivity. Qed.
