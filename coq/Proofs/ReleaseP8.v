(* C19, part 8: finding C19-periodic-loader as a lemma about the model of WorkloadLoader:
   a document with `release_policy: periodic`, loaded with a flags object, is not instantiated
   (AttributeError, code 4): the horizon handed to generate_task_graphs is the int flag loop_timeout. *)
From Coq Require Import ZArith Bool List Lia.
Import ListNotations.
From Verif Require Import Model.Val Gen.Src_Time Model.Release.
Open Scope Z_scope.

Definition periodic_doc : load_case :=
  mkLC (Some [mkDP (Some 0) None (Some [mkDS (Some [(0, 0, 1)]) (Some 1) (Some 100)])])
       (Some [mkDG (Some 0) (Some [mkDN 0 (Some 0) None false None false None]) (Some 0)
                   (Some 5) (Some 300) None None None None None])
       (Some (mkRF (mkF 0 0) (mkF 0 0) 0 0 false 1 (-1) 0 (2 ^ 63 - 1))) [] [] [].

Lemma loader_periodic_refuted :
  exists c ls, load_workload (lc_profiles c) (lc_graphs c) (lc_flags c) = Ok ls /\
    (exists l, In l ls /\ p_type (jg_policy (l_jg l)) = PERIODIC) /\
    forall us_, populate ls (mkIF (df_minb (lc_flags c)) (df_maxb (lc_flags c)) (0, 0)) (lc_completion c) [] [] us_ 0 = Err 4.
Proof.
  exists periodic_doc. eexists. split; [vm_compute; reflexivity|]. split.
  - eexists. split; [left; reflexivity|reflexivity].
  - intros us_. reflexivity.
Qed.

(* the same document with the horizon the loader SHOULD pass (EventTime(1000 us)) is instantiated as declared *)
Example loader_periodic_intended :
  exists ls tgs, load_workload (lc_profiles periodic_doc) (lc_graphs periodic_doc) (lc_flags periodic_doc) = Ok ls /\
    populate ls (mkIF 0 (2 ^ 63 - 1) (0, 0)) (Some (us_time 1000)) [] []
             [mkF 0 0; mkF 0 0; mkF 0 0; mkF 0 0; mkF 0 0; mkF 0 0; mkF 0 0; mkF 0 0] 0 = Ok tgs /\
    map (fun x => map (fun tg => map (fun t => et_time (t_release t)) (tg_tasks tg)) (snd x)) tgs = [[[5]; [305]; [605]; [905]]].
Proof. eexists. eexists. split; [vm_compute; reflexivity|]. split; [vm_compute; reflexivity|]. reflexivity. Qed.
