(* C05, safety half: the scheduler is never started at or after the loop timeout, never in the
   past, and at the current instant only when a positive frequency says so; the simulation is
   ended either at the timeout or one microsecond from now when nothing is left. *)
From Coq Require Import ZArith Bool List Lia ZifyBool.
From Verif Require Import Model.Val Model.NextSched.
Open Scope Z_scope.

Ltac ns_prep i H :=
  unfold next_sched in H; cbv zeta in H;
  set (start0 := if ns_freq i <=? 0 then ns_now i + 1
                 else if ns_last i + ns_freq i <? ns_now i then ns_now i + 1 else ns_last i + ns_freq i) in *;
  assert (S0 : ns_now i <= start0 /\ (start0 = ns_now i -> 0 < ns_freq i /\ start0 = ns_last i + ns_freq i))
    by (unfold start0; destruct (ns_freq i <=? 0) eqn:?; [lia|]; destruct (ns_last i + ns_freq i <? ns_now i) eqn:?; lia);
  clearbody start0;
  set (nrel := match ns_next_release i with Some r => r + ns_delay i | None => MAXSIZE end) in *; clearbody nrel;
  set (mc := odef (ns_min_completion i)) in *; clearbody mc;
  set (nu := odef (ns_next_update i)) in *; clearbody nu.

Lemma next_sched_start i t :
  next_sched i = NsStart t ->
  ns_now i <= t /\ t < ns_timeout i /\
  (t = ns_now i -> 0 < ns_freq i /\ t = ns_last i + ns_freq i /\ negb (ns_worker_free i && (0 <? ns_n_running i)) = true).
Proof.
  intros H. ns_prep i H.
  repeat match type of H with
         | (if ?c then _ else _) = _ => destruct c eqn:?; try discriminate H
         end; injection H as <-; lia.
Qed.

Lemma next_sched_end i t :
  next_sched i = NsEnd t ->
  t = ns_timeout i \/ (t = ns_now i + 1 /\ ns_queue_empty i = true /\ ns_n_sched i = 0 /\ ns_n_running i = 0).
Proof.
  intros H. ns_prep i H.
  repeat match type of H with
         | (if ?c then _ else _) = _ => destruct c eqn:?; try discriminate H
         end; injection H as <-; lia.
Qed.

(* while the clock has not passed the timeout, the END event is never placed in the past *)
Lemma next_sched_end_not_past i t : ns_now i <= ns_timeout i -> next_sched i = NsEnd t -> ns_now i <= t.
Proof. intros L H. apply next_sched_end in H. lia. Qed.

(* two consecutive scheduler cycles (zero-runtime scheduler) strictly advance the clock *)
Lemma two_cycles_advance i j t u :
  next_sched i = NsStart t -> ns_now j = t -> ns_last j = t -> ns_freq j = ns_freq i ->
  next_sched j = NsStart u -> ns_now i < u.
Proof.
  intros H1 Hn Hl Hf H2. apply next_sched_start in H1. apply next_sched_start in H2. lia.
Qed.

Example next_sched_nonvacuous :
  next_sched (mkNS 10 (-1) 10 1000 0 false (Some 25) 1 0 true false false None (Some 40) false) = NsStart 25 /\
  next_sched (mkNS 10 7 10 15 0 false None 0 1 false false false None None false) = NsEnd 15 /\
  next_sched (mkNS 10 (-1) 10 1000 3 true (Some 4) 1 1 false false false None None false) = NsStart 11.
Proof. vm_compute. repeat split; reflexivity. Qed.
