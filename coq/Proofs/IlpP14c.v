(* C14 conditional completeness, part 1: the assignment built from a feasible plan and the value of
   every expression of gen_ilp under it (task-by-task mode, no running task). *)
From Coq Require Import ZArith Bool List Lia ZifyBool.
Import ListNotations.
From Verif Require Import Model.Val Gen.Src_Ilp Model.IlpModel Proofs.IlpP Proofs.IlpP11 Proofs.IlpP10 Proofs.IlpP14 Proofs.IlpP14s.
Open Scope Z_scope.

(* ------------------------------------------------------------------ enumeration facts *)
Lemma zenum_nth_In : forall A (l : list A) b n x, nth_error l n = Some x -> In (b + Z.of_nat n, x) (zenum b l).
Proof.
  induction l as [|y l IH]; intros b n x H; [destruct n; discriminate|]. destruct n as [|n]; cbn [nth_error] in H.
  - inversion H; subst. cbn [zenum]. left. f_equal. lia.
  - cbn [zenum]. right. replace (b + Z.of_nat (S n)) with ((b + 1) + Z.of_nat n) by lia. apply IH. exact H.
Qed.
Lemma nth_worker_In : forall I w wk, nth_worker I w = Some wk -> In (w, wk) (wenum I).
Proof.
  intros I w wk H. unfold nth_worker in H. destruct (w <? 1) eqn:E; [discriminate|]. unfold wenum.
  replace w with (1 + Z.of_nat (Z.to_nat (w - 1))) by lia. apply zenum_nth_In.
  replace (Z.to_nat (1 + Z.of_nat (Z.to_nat (w - 1)) - 1)) with (Z.to_nat (w - 1)) by lia. exact H.
Qed.
Lemma nth_strat_In : forall t k st, nth_strat t k = Some st -> In (k, st) (senum t).
Proof.
  intros t k st H. unfold nth_strat in H. destruct (k <? 0) eqn:E; [discriminate|]. unfold senum.
  replace k with (0 + Z.of_nat (Z.to_nat k)) by lia. apply zenum_nth_In.
  replace (Z.to_nat (0 + Z.of_nat (Z.to_nat k))) with (Z.to_nat k) by lia. exact H.
Qed.
(* picking the entry with a given index out of an enumerated list *)
Lemma zenum_pick0 : forall A (l : list A) b k (g : Z * A -> Z), k < b ->
  sum_list (fun ks => if fst ks =? k then g ks else 0) (zenum b l) = 0.
Proof.
  induction l as [|y l IH]; intros b k g H; cbn [zenum]; [reflexivity|]. rewrite sum_list_cons. cbn [fst].
  replace (b =? k) with false by lia. rewrite IH by lia. lia.
Qed.
Lemma zenum_pick : forall A (l : list A) b k x (g : Z * A -> Z), In (k, x) (zenum b l) ->
  sum_list (fun ks => if fst ks =? k then g ks else 0) (zenum b l) = g (k, x).
Proof.
  induction l as [|y l IH]; intros b k x g H; [contradiction|]. cbn [zenum] in *. rewrite sum_list_cons. cbn [fst].
  destruct H as [H|H].
  - inversion H; subst. rewrite Z.eqb_refl. rewrite zenum_pick0 by lia. lia.
  - pose proof (zenum_In _ _ _ _ _ H) as [Hb _]. replace (b =? k) with false by lia. rewrite (IH (b + 1) k x g H). lia.
Qed.
Lemma zenum_nomatch : forall A (l : list A) b k (g : Z * A -> Z), (forall x, ~ In (k, x) (zenum b l)) ->
  sum_list (fun ks => if fst ks =? k then g ks else 0) (zenum b l) = 0.
Proof.
  intros A l b k g H. apply sum_list_zero. intros [i x] Hx. cbn [fst]. destruct (i =? k) eqn:E; [|reflexivity].
  exfalso. apply (H x). replace k with i by lia. exact Hx.
Qed.
(* the same over the (worker, strategy) pairs *)
Lemma pairs_pick : forall I t w wk k st (g : slot -> Z), In (w, wk) (wenum I) -> In (k, st) (senum t) ->
  sum_list (fun sl => if (w =? slot_w sl) && (k =? slot_k sl) then g sl else 0) (pairs I t) = g ((w, wk), (k, st)).
Proof.
  intros I t w wk k st g Hw Hk. unfold pairs, wenum, senum in *.
  assert (E : forall l1 l2, sum_list (fun sl : slot => if (w =? slot_w sl) && (k =? slot_k sl) then g sl else 0) (list_prod l1 l2)
              = sum_list (fun wi : Z * worker => if fst wi =? w then sum_list (fun ks : Z * strat => if fst ks =? k then g (wi, ks) else 0) l2 else 0) l1).
  { induction l1 as [|wi l1 IH]; intros l2; cbn [list_prod]; [reflexivity|]. rewrite sum_list_app, sum_list_cons, IH. f_equal.
    rewrite sum_list_map. destruct (fst wi =? w) eqn:Ew.
    - apply sum_list_ext. intros ks _. unfold slot_w, slot_k. cbn [fst snd]. replace (w =? fst wi) with true by lia. cbn [andb].
      destruct (fst ks =? k) eqn:Ek; [replace (k =? fst ks) with true by lia|replace (k =? fst ks) with false by lia]; reflexivity.
    - apply sum_list_zero. intros ks _. unfold slot_w. cbn [fst snd]. replace (w =? fst wi) with false by lia. reflexivity. }
  rewrite E.
  rewrite (zenum_pick _ (i_workers I) 1 w wk (fun wi => sum_list (fun ks : Z * strat => if fst ks =? k then g (wi, ks) else 0) (zenum 0 (t_strats t)))) by exact Hw.
  apply (zenum_pick _ (t_strats t) 0 k st (fun ks => g ((w, wk), ks))). exact Hk.
Qed.

(* ------------------------------------------------------------------ the assignment of a plan *)
Definition byid {A} (I : instance) (id : Z) (f : task -> A) (d : A) : A :=
  match find_task I id with Some t => f t | None => d end.
Definition hitv (I : instance) (p : plan) (t : task) (w k : Z) : Z :=
  if placed_in I p t && (w_in I p t =? w) && (k_in I p t =? k) then 1 else 0.
Definition afterv (I : instance) (p : plan) (x y : task) : Z := if Sv I p y + Rv I p y + 1 <=? Sv I p x then 1 else 0.
Definition beforev (I : instance) (p : plan) (x y : task) : Z := if Sv I p x + Rv I p x + 1 <=? Sv I p y then 1 else 0.
Definition ovv (I : instance) (p : plan) (x y : task) : Z := 1 - afterv I p x y - beforev I p x y.
Definition placedv (I : instance) (p : plan) (t : task) : Z := if placed_in I p t then 1 else 0.
Definition asg_plan (I : instance) (p : plan) : assignment :=
  fun v => match v with
  | VStart id => byid I id (Sv I p) 0
  | VPlaced id w k => byid I id (fun t => hitv I p t w k) 0
  | VApp _ => 0
  | VOverlap x y => byid I x (fun tx => byid I y (fun ty => ovv I p tx ty) 0) 0
  | VAfter x y => byid I x (fun tx => byid I y (fun ty => afterv I p tx ty) 0) 0
  | VBefore x y => byid I x (fun tx => byid I y (fun ty => beforev I p tx ty) 0) 0
  | VGReward g => if forallb (placed_in I p) (reward_tasks I g) then 1 else 0
  | VTReward id => byid I id (placedv I p) 0
  end.

Section Build.
Variable I : instance.
Variable p : plan.
Hypothesis Hn : nodup_ids I.
Hypothesis Hrt : rt_nonneg I.
Hypothesis Hnr : no_running I.
Hypothesis Hfeas : feasible_clb I p = true.

Let a := asg_plan I p.

Lemma find_task_id : forall t, In t (i_tasks I) -> find_task I (t_id t) = Some t.
Proof.
  intros t Ht. unfold find_task. unfold nodup_ids in Hn. revert Hn Ht. generalize (i_tasks I) as l.
  induction l as [|x l IH]; intros Hnd Hin; [contradiction|]. cbn [find map] in *. inversion Hnd as [|? ? Hx Hnd']; subst.
  destruct Hin as [->|Hin]; [rewrite Z.eqb_refl; reflexivity|].
  destruct (t_id x =? t_id t) eqn:E; [|apply IH; assumption].
  exfalso. apply Hx. apply in_map_iff. exists t. split; [lia|exact Hin].
Qed.
Lemma byid_id : forall A (f : task -> A) d t, In t (i_tasks I) -> byid I (t_id t) f d = f t.
Proof. intros A f d t Ht. unfold byid. rewrite (find_task_id t Ht). reflexivity. Qed.

Lemma all_nonrunning : forall t, In t (i_tasks I) -> In t (nonrunning I).
Proof. intros t Ht. apply in_nonrunning. split; [exact Ht|apply Hnr; exact Ht]. Qed.

(* what feasible_clb says about one task *)
Lemma plan_decision : forall t, In t (i_tasks I) -> exists d, plan_get p (t_id t) = Some d /\ decision_clb I t d = true.
Proof.
  intros t Ht. unfold feasible_clb in Hfeas. rewrite !andb_true_iff in Hfeas. destruct Hfeas as [[[_ H] _] _].
  rewrite forallb_forall in H. specialize (H t (all_nonrunning t Ht)). destruct (plan_get p (t_id t)) as [d|]; [|discriminate].
  exists d. auto.
Qed.
Inductive task_view (t : task) : Prop :=
| view_unplaced : sits I p t = None -> (is_scheduled t && negb (i_retract I)) = false -> task_view t
| view_placed : forall s w k wk st, sits I p t = Some (s, w, k, s_rt st) -> In (w, wk) (wenum I) -> In (k, st) (senum t) ->
    nth_strat t k = Some st -> compat wk st = true -> i_now I + 1 <= s -> t_release t <= s ->
    (enforce_for I t = true -> s + s_rt st <= t_deadline t) -> task_view t.
Lemma view : forall t, In t (i_tasks I) -> task_view t.
Proof.
  intros t Ht. destruct (plan_decision t Ht) as (d & Hg & Hd). unfold decision_clb in Hd.
  assert (Hs : sits I p t = match d with Some (s, w, k) => match nth_strat t k with Some st => Some (s, w, k, s_rt st) | None => None end | None => None end).
  { unfold sits. rewrite (Hnr t Ht), Hg. destruct d as [[[s w] k]|]; reflexivity. }
  destruct d as [[[s w] k]|].
  - destruct (nth_worker I w) as [wk|] eqn:Nw; [|discriminate]. destruct (nth_strat t k) as [st|] eqn:Nk; [|discriminate].
    rewrite !andb_true_iff in Hd. destruct Hd as [[[Hc H1] H2] H3].
    apply (view_placed t s w k wk st);
      [exact Hs|apply nth_worker_In; exact Nw|apply nth_strat_In; exact Nk|exact Nk|exact Hc|lia|lia|].
    intros E. rewrite E in H3. cbn [negb orb] in H3. lia.
  - apply view_unplaced; [exact Hs|]. destruct (is_scheduled t && negb (i_retract I)); [discriminate|reflexivity].
Qed.

Lemma Rv_nonneg : forall t, In t (i_tasks I) -> 0 <= Rv I p t.
Proof.
  intros t Ht. unfold Rv, placed_in, rt_in. destruct (view t Ht) as [Hs _|s w k wk st Hs _ Hk _ _ _ _ _]; rewrite Hs; [lia|].
  apply zenum_snd_In in Hk. eapply Hrt; eassumption.
Qed.

(* ---------------------------------------------------------------- value of the placement terms *)
Lemma on_value : forall t sl, In t (i_tasks I) -> In sl (pairs I t) ->
  eval_pterm a (pv t sl) = hitv I p t (slot_w sl) (slot_k sl).
Proof.
  intros t sl Ht Hsl. unfold pv. rewrite (Hnr t Ht).
  destruct (compat (snd (fst sl)) (snd (snd sl))) eqn:C.
  - cbn [eval_pterm]. unfold a, asg_plan. apply byid_id. exact Ht.
  - cbn [eval_pterm]. unfold hitv. destruct (view t Ht) as [Hs _|s w k wk st Hs Hw Hk _ Hc _ _ _].
    + unfold placed_in. rewrite Hs. reflexivity.
    + unfold placed_in, w_in, k_in. rewrite Hs. cbn [andb].
      destruct ((w =? slot_w sl) && (k =? slot_k sl)) eqn:E; [|reflexivity]. exfalso.
      apply pairs_inv in Hsl. destruct Hsl as [Hw' Hk']. destruct sl as [[w' wk'] [k' st']]. unfold slot_w, slot_k in E. cbn [fst snd] in *.
      assert (w' = w) by lia. assert (k' = k) by lia. subst.
      rewrite (zenum_fst_inj _ _ _ _ _ _ Hw' Hw), (zenum_fst_inj _ _ _ _ _ _ Hk' Hk) in C. congruence.
Qed.
Lemma placed_lin_value : forall t coef, In t (i_tasks I) ->
  eval_lin a (placed_lin I t coef) =
  match sits I p t with
  | Some (_, w, k, _) => sum_list (fun sl => if (w =? slot_w sl) && (k =? slot_k sl) then coef sl else 0) (pairs I t)
  | None => 0
  end.
Proof.
  intros t coef Ht. rewrite eval_placed_lin.
  rewrite (sum_list_ext _ _ (fun sl => coef sl * hitv I p t (slot_w sl) (slot_k sl))) by (intros sl Hsl; rewrite (on_value t sl Ht Hsl); reflexivity).
  unfold hitv, placed_in, w_in, k_in. destruct (sits I p t) as [[[[s w] k] rt]|].
  - apply sum_list_ext. intros sl _. cbn [andb]. destruct ((w =? slot_w sl) && (k =? slot_k sl)); lia.
  - apply sum_list_zero. intros; cbn [andb]; lia.
Qed.
Lemma placed_lin_placed : forall t coef s w k wk st, In t (i_tasks I) -> sits I p t = Some (s, w, k, s_rt st) ->
  In (w, wk) (wenum I) -> In (k, st) (senum t) -> eval_lin a (placed_lin I t coef) = coef ((w, wk), (k, st)).
Proof. intros t coef s w k wk st Ht Hs Hw Hk. rewrite (placed_lin_value t coef Ht), Hs. apply pairs_pick; assumption. Qed.
Lemma placed_lin_unplaced : forall t coef, In t (i_tasks I) -> sits I p t = None -> eval_lin a (placed_lin I t coef) = 0.
Proof. intros t coef Ht Hs. rewrite (placed_lin_value t coef Ht), Hs. reflexivity. Qed.

Lemma placed_sum_value : forall t, In t (i_tasks I) -> eval_lin a (placed_lin I t one_coef) = placedv I p t.
Proof.
  intros t Ht. unfold placedv, placed_in. destruct (view t Ht) as [Hs _|s w k wk st Hs Hw Hk _ _ _ _ _].
  - rewrite (placed_lin_unplaced t _ Ht Hs), Hs. reflexivity.
  - rewrite (placed_lin_placed t _ s w k wk st Ht Hs Hw Hk), Hs. reflexivity.
Qed.
Lemma rem_value : forall t, In t (i_tasks I) -> eval_lin a (rem_lin I t) = Rv I p t.
Proof.
  intros t Ht. unfold rem_lin, Rv, placed_in, rt_in. destruct (view t Ht) as [Hs _|s w k wk st Hs Hw Hk _ _ _ _ _].
  - rewrite (placed_lin_unplaced t _ Ht Hs), Hs. reflexivity.
  - rewrite (placed_lin_placed t _ s w k wk st Ht Hs Hw Hk), Hs. reflexivity.
Qed.
Lemma start_value : forall t, In t (i_tasks I) -> eval_pterm a (startv I t) = Sv I p t.
Proof. intros t Ht. unfold startv. rewrite (Hnr t Ht). cbn [eval_pterm]. unfold a, asg_plan. apply byid_id. exact Ht. Qed.

(* the load a task puts on a worker *)
Definition ldv (t : task) (w r : Z) : Z := if placed_in I p t && (w_in I p t =? w) then req_at I p t r else 0.
Lemma load_value : forall t wi r, In t (i_tasks I) -> In wi (wenum I) -> load a t wi r = ldv t (fst wi) r.
Proof.
  intros t wi r Ht Hw. unfold load.
  rewrite (sum_list_ext _ _ (fun ks => req (snd ks) r * hitv I p t (fst wi) (fst ks))).
  2:{ intros ks Hks. unfold on. rewrite (on_value t (wi, ks) Ht (in_prod _ _ _ _ Hw Hks)). reflexivity. }
  unfold ldv, hitv, placed_in, w_in, k_in, req_at. destruct (view t Ht) as [Hs _|s w k wk st Hs _ Hk Nk _ _ _ _]; rewrite Hs.
  - cbn [andb]. apply sum_list_zero. intros; lia.
  - cbn [andb]. rewrite Nk. destruct (w =? fst wi) eqn:E.
    + rewrite (sum_list_ext _ _ (fun ks => if fst ks =? k then req (snd ks) r else 0)).
      2:{ intros ks _. cbn [andb]. destruct (fst ks =? k) eqn:Ek; [replace (k =? fst ks) with true by lia|replace (k =? fst ks) with false by lia]; lia. }
      apply (zenum_pick _ (t_strats t) 0 k st (fun ks => req (snd ks) r)). exact Hk.
    + apply sum_list_zero. intros; cbn [andb]; lia.
Qed.
End Build.
