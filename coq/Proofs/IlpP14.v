(* C14 for the ILP planner: the objective of every satisfying assignment is the goodput of the plan
   it reads back as (soundness of the objective); the per-task capacity row charges together
   tasks that never coexist (F11-ii, general form and witness), a running task is charged its full
   runtime (F11-iii), and a task whose deadline lies before its earliest start makes the whole
   system unsatisfiable (F22): completeness refuted three times. *)
From Coq Require Import ZArith Bool List Lia ZifyBool.
Import ListNotations.
From Verif Require Import Model.Val Gen.Src_Ilp Model.IlpModel Proofs.IlpP Proofs.IlpP11 Proofs.IlpP10.
Open Scope Z_scope.

Lemma forallb_map_ext_in : forall A B (f : A -> B) (p : B -> bool) (q : A -> bool) l,
  (forall x, In x l -> p (f x) = q x) -> forallb p (map f l) = forallb q l.
Proof.
  induction l as [|x l IH]; intros H; [reflexivity|]. cbn [map forallb]. rewrite (H x (or_introl eq_refl)), IH; [reflexivity|].
  intros y Hy. apply H. right; exact Hy.
Qed.

(* ------------------------------------------------------------------ objective = goodput *)
Section Obj.
Variable I : instance.
Variable a : assignment.
Hypothesis Hsat : sat (gen_ilp I) a.
Hypothesis Hgoal : i_goal I = Goodput.

Lemma reward_task_in : forall g t, In t (reward_tasks I g) -> In t (i_tasks I).
Proof. intros g t H. unfold reward_tasks in H. apply filter_In in H. tauto. Qed.

Lemma placedb_iff_sum : forall t, In t (i_tasks I) ->
  (placedb_a I a t = true <-> sum_list (on a t) (pairs I t) = 1).
Proof.
  intros t Ht. unfold placedb_a. rewrite existsb_exists. split.
  - intros (sl & Hsl & E). pose proof (on_sum_le1 I a Hsat t Ht).
    pose proof (sum_list_member_le _ (on a t) (pairs I t) sl (fun p Hp => proj1 (on_binary I a Hsat t p Ht Hp)) Hsl). lia.
  - intros E. destruct (sum_eq1_exists _ (on a t) (pairs I t) (fun p Hp => on_binary I a Hsat t p Ht Hp) ltac:(lia)) as (sl & Hsl & O).
    exists sl. split; [exact Hsl|lia].
Qed.

Lemma treward_value : forall g t, In g (graphs_in_order I) -> In t (reward_tasks I g) ->
  a (VTReward (t_id t)) = sum_list (on a t) (pairs I t).
Proof.
  intros g t Hg Ht.
  assert (Hr : lrow_ok a (treward_row I t)).
  { apply (sat_lrow I a Hsat). cbn [gen_ilp c_lin]. rewrite Hgoal. do 3 (apply in_or_app; right).
    apply in_map. apply in_flat_map. exists g. auto. }
  unfold lrow_ok, treward_row in Hr. cbn [l_sense l_lin l_rhs holds] in Hr.
  rewrite eval_lin_plus, eval_lin_scale, eval_placed_lin in Hr. unfold eval_lin at 1, eval_terms in Hr. cbn [fst snd] in Hr.
  rewrite sum_list_cons, sum_list_nil in Hr. cbn [fst snd] in Hr.
  rewrite (sum_list_ext _ _ (on a t)) in Hr by (intros; unfold one_coef, on; lia). lia.
Qed.

Lemma greward_value : forall g, In g (graphs_in_order I) ->
  a (VGReward g) = if forallb (placedb_a I a) (reward_tasks I g) then 1 else 0.
Proof.
  intros g Hg.
  assert (Hr : arow_ok a (mkA [51; g] (VGReward g) (map (fun t => VTReward (t_id t)) (reward_tasks I g)))).
  { apply (sat_arow I a Hsat). cbn [gen_ilp c_and]. rewrite Hgoal. apply in_map_iff. exists g. auto. }
  unfold arow_ok in Hr. cbn [a_res a_ops] in Hr. rewrite Hr.
  assert (E : all_one a (map (fun t => VTReward (t_id t)) (reward_tasks I g)) = forallb (placedb_a I a) (reward_tasks I g)).
  { unfold all_one. apply forallb_map_ext_in. intros t Ht.
    rewrite (treward_value g t Hg Ht).
    pose proof (placedb_iff_sum t (reward_task_in g t Ht)) as P.
    destruct (placedb_a I a t); destruct (sum_list (on a t) (pairs I t) =? 1) eqn:E; try reflexivity.
    - assert (sum_list (on a t) (pairs I t) = 1) by (apply P; reflexivity). lia.
    - assert (false = true) by (apply P; lia). discriminate. }
  rewrite E. reflexivity.
Qed.

Theorem objective_is_goodput : objective (gen_ilp I) a = goodput_a I a.
Proof.
  unfold objective. cbn [gen_ilp c_obj]. rewrite Hgoal. cbn [fst snd]. unfold eval_quad. rewrite sum_list_nil.
  rewrite eval_lin_sum. unfold goodput_a. rewrite Z.add_0_r. apply sum_list_ext. intros g Hg.
  unfold eval_lin, eval_terms. cbn [fst snd]. rewrite sum_list_cons, sum_list_nil. cbn [fst snd].
  rewrite (greward_value g Hg). lia.
Qed.
End Obj.

(* ------------------------------------------------------------------ F11-ii in general form *)
Lemma load_ge_slot : forall I a, sat (gen_ilp I) a -> req_nonneg I ->
  forall t w ks r, In t (i_tasks I) -> In w (wenum I) -> In ks (senum t) -> on a t (w, ks) = 1 -> req (snd ks) r <= load a t w r.
Proof.
  intros I a Hsat Hreq t w ks r Ht Hw Hks O. unfold load.
  pose proof (sum_list_member_le _ (fun ks => req (snd ks) r * on a t (w, ks)) (senum t) ks) as H. cbn beta in H.
  rewrite O in H. rewrite Z.mul_1_r in H. apply H; [|exact Hks].
  intros ks' Hks'. pose proof (req_ge0 I Hreq t ks' r Ht Hks'). pose proof (on_binary I a Hsat t (w, ks') Ht (in_prod _ _ _ _ Hw Hks')). nia.
Qed.

(* the capacity row of t1 charges t2 and t3 together as soon as each of them overlaps t1 somewhere,
   even if t2 and t3 never run at the same time *)
Theorem three_way_overcharge : forall I a, sat (gen_ilp I) a -> nodup_ids I -> rt_nonneg I -> req_nonneg I ->
  forall t1 t2 t3 w ks1 ks2 ks3 tau2 tau3 rq,
  In t1 (i_tasks I) -> In t2 (i_tasks I) -> In t3 (i_tasks I) ->
  t_id t1 <> t_id t2 -> t_id t1 <> t_id t3 -> t_id t2 <> t_id t3 ->
  In w (wenum I) -> In rq (w_res (snd w)) -> In ks1 (senum t1) -> In ks2 (senum t2) -> In ks3 (senum t3) ->
  dependent I t1 t2 = false -> dependent I t1 t3 = false ->
  active_a I a t1 (w, ks1) tau2 = true -> active_a I a t2 (w, ks2) tau2 = true ->
  active_a I a t1 (w, ks1) tau3 = true -> active_a I a t3 (w, ks3) tau3 = true ->
  req (snd ks1) (fst rq) + req (snd ks2) (fst rq) + req (snd ks3) (fst rq) <= snd rq.
Proof.
  intros I a Hsat Hn Hrt Hreq t1 t2 t3 w ks1 ks2 ks3 tau2 tau3 rq H1 H2 H3 N12 N13 N23 Hw Hrq K1 K2 K3 D12 D13 A12 A2 A13 A3.
  assert (S1 : In (w, ks1) (pairs I t1)) by (apply in_prod; assumption).
  assert (S2 : In (w, ks2) (pairs I t2)) by (apply in_prod; assumption).
  assert (S3 : In (w, ks3) (pairs I t3)) by (apply in_prod; assumption).
  pose proof (independent_overlap_one I a Hsat Hrt t1 t2 _ _ tau2 H1 H2 N12 D12 S1 S2 A12 A2) as O12.
  pose proof (independent_overlap_one I a Hsat Hrt t1 t3 _ _ tau3 H1 H3 N13 D13 S1 S3 A13 A3) as O13.
  assert (On1 : on a t1 (w, ks1) = 1) by (unfold active_a in A12; lia).
  assert (On2 : on a t2 (w, ks2) = 1) by (unfold active_a in A2; lia).
  assert (On3 : on a t3 (w, ks3) = 1) by (unfold active_a in A3; lia).
  assert (Hoff : off_worker t1 w = false).
  { destruct (off_worker t1 w) eqn:O; [|reflexivity]. exfalso. unfold off_worker in O. apply andb_true_iff in O. destruct O as [_ O].
    rewrite forallb_forall in O. specialize (O ks1 K1). unfold on in On1.
    destruct (pv t1 (w, ks1)) as [[| |]|]; try discriminate; cbn [eval_pterm] in On1; lia. }
  pose proof (cap_row_holds I a Hsat t1 w rq H1 Hw Hrq Hoff) as Hrow.
  pose proof (load_ge_slot I a Hsat Hreq t1 w ks1 (fst rq) H1 Hw K1 On1) as L1.
  pose proof (load_ge_slot I a Hsat Hreq t2 w ks2 (fst rq) H2 Hw K2 On2) as L2.
  pose proof (load_ge_slot I a Hsat Hreq t3 w ks3 (fst rq) H3 Hw K3 On3) as L3.
  (* the two terms of t2 and t3 inside the sum over the other tasks *)
  set (f := fun t2 => a (VOverlap (t_id t1) (t_id t2)) * load a t2 w (fst rq)) in *.
  assert (Hf0 : forall t, In t (others I t1) -> 0 <= f t).
  { intros t Ht. unfold others in Ht. apply filter_In in Ht. destruct Ht as [Ht Hne]. unfold f.
    pose proof (overlap_binary I a Hsat t1 t (in_opairs I t1 t H1 Ht ltac:(lia))).
    assert (0 <= load a t w (fst rq)).
    { unfold load. apply sum_list_nonneg. intros ks Hks. pose proof (req_ge0 I Hreq t ks (fst rq) Ht Hks).
      pose proof (on_binary I a Hsat t (w, ks) Ht (in_prod _ _ _ _ Hw Hks)). nia. }
    nia. }
  assert (I2 : In t2 (others I t1)) by (unfold others; apply filter_In; split; [exact H2|lia]).
  assert (I3 : In t3 (others I t1)) by (unfold others; apply filter_In; split; [exact H3|lia]).
  assert (Hnd : NoDup (map t_id (others I t1))) by (unfold others; apply NoDup_map_filter; exact Hn).
  rewrite (sum_split_at f (others I t1) t2 Hnd I2) in Hrow.
  assert (I3' : In t3 (filter (fun t => negb (t_id t2 =? t_id t)) (others I t1))) by (apply filter_In; split; [exact I3|lia]).
  pose proof (sum_list_member_le _ f _ t3 (fun t Ht => Hf0 t (proj1 (proj1 (filter_In _ _ _) Ht))) I3') as Hm.
  unfold f in Hm, Hrow. rewrite O12 in Hrow. rewrite O13 in Hm. lia.
Qed.

(* the same across workers: the row of t1 FOR WORKER w is written even when t1 sits on another worker (or nowhere),
   and then charges together two tasks of w that merely both overlap t1 in time *)
Theorem cross_worker_overcharge : forall I a, sat (gen_ilp I) a -> nodup_ids I -> rt_nonneg I -> req_nonneg I ->
  forall t1 t2 t3 w1 w ks1 ks2 ks3 tau2 tau3 rq,
  In t1 (i_tasks I) -> In t2 (i_tasks I) -> In t3 (i_tasks I) -> is_running t1 = false ->
  t_id t1 <> t_id t2 -> t_id t1 <> t_id t3 -> t_id t2 <> t_id t3 ->
  In w1 (wenum I) -> In w (wenum I) -> In rq (w_res (snd w)) -> In ks1 (senum t1) -> In ks2 (senum t2) -> In ks3 (senum t3) ->
  dependent I t1 t2 = false -> dependent I t1 t3 = false ->
  active_a I a t1 (w1, ks1) tau2 = true -> active_a I a t2 (w, ks2) tau2 = true ->
  active_a I a t1 (w1, ks1) tau3 = true -> active_a I a t3 (w, ks3) tau3 = true ->
  req (snd ks2) (fst rq) + req (snd ks3) (fst rq) <= snd rq.
Proof.
  intros I a Hsat Hn Hrt Hreq t1 t2 t3 w1 w ks1 ks2 ks3 tau2 tau3 rq H1 H2 H3 R1 N12 N13 N23 Hw1 Hw Hrq K1 K2 K3 D12 D13 A12 A2 A13 A3.
  assert (S1 : In (w1, ks1) (pairs I t1)) by (apply in_prod; assumption).
  assert (S2 : In (w, ks2) (pairs I t2)) by (apply in_prod; assumption).
  assert (S3 : In (w, ks3) (pairs I t3)) by (apply in_prod; assumption).
  pose proof (independent_overlap_one I a Hsat Hrt t1 t2 _ _ tau2 H1 H2 N12 D12 S1 S2 A12 A2) as O12.
  pose proof (independent_overlap_one I a Hsat Hrt t1 t3 _ _ tau3 H1 H3 N13 D13 S1 S3 A13 A3) as O13.
  assert (On2 : on a t2 (w, ks2) = 1) by (unfold active_a in A2; lia).
  assert (On3 : on a t3 (w, ks3) = 1) by (unfold active_a in A3; lia).
  assert (Hoff : off_worker t1 w = false) by (unfold off_worker; rewrite R1; reflexivity).
  pose proof (cap_row_holds I a Hsat t1 w rq H1 Hw Hrq Hoff) as Hrow.
  pose proof (load_ge_slot I a Hsat Hreq t2 w ks2 (fst rq) H2 Hw K2 On2) as L2.
  pose proof (load_ge_slot I a Hsat Hreq t3 w ks3 (fst rq) H3 Hw K3 On3) as L3.
  assert (L1 : 0 <= load a t1 w (fst rq)).
  { unfold load. apply sum_list_nonneg. intros ks Hks. pose proof (req_ge0 I Hreq t1 ks (fst rq) H1 Hks).
    pose proof (on_binary I a Hsat t1 (w, ks) H1 (in_prod _ _ _ _ Hw Hks)). nia. }
  set (f := fun t2 => a (VOverlap (t_id t1) (t_id t2)) * load a t2 w (fst rq)) in *.
  assert (Hf0 : forall t, In t (others I t1) -> 0 <= f t).
  { intros t Ht. unfold others in Ht. apply filter_In in Ht. destruct Ht as [Ht Hne]. unfold f.
    pose proof (overlap_binary I a Hsat t1 t (in_opairs I t1 t H1 Ht ltac:(lia))).
    assert (0 <= load a t w (fst rq)).
    { unfold load. apply sum_list_nonneg. intros ks Hks. pose proof (req_ge0 I Hreq t ks (fst rq) Ht Hks).
      pose proof (on_binary I a Hsat t (w, ks) Ht (in_prod _ _ _ _ Hw Hks)). nia. }
    nia. }
  assert (I2 : In t2 (others I t1)) by (unfold others; apply filter_In; split; [exact H2|lia]).
  assert (I3 : In t3 (others I t1)) by (unfold others; apply filter_In; split; [exact H3|lia]).
  assert (Hnd : NoDup (map t_id (others I t1))) by (unfold others; apply NoDup_map_filter; exact Hn).
  rewrite (sum_split_at f (others I t1) t2 Hnd I2) in Hrow.
  assert (I3' : In t3 (filter (fun t => negb (t_id t2 =? t_id t)) (others I t1))) by (apply filter_In; split; [exact I3|lia]).
  pose proof (sum_list_member_le _ f _ t3 (fun t Ht => Hf0 t (proj1 (proj1 (filter_In _ _ _) Ht))) I3') as Hm.
  unfold f in Hm, Hrow. rewrite O12 in Hrow. rewrite O13 in Hm. lia.
Qed.

(* ------------------------------------------------------------------ witnesses *)
Definition mk1 (id g dl rt : Z) : task := mkTask id g TReleased 0 dl [mkStrat 1 rt [(0, 1)]] None rt.
(* F11-ii: one worker with 2 CPUs, T1 (10us, deadline 11), T2 (4, 5), T3 (4, 11), now = 0 *)
Definition ex_f11 : instance :=
  mkInst 0 [mkWorker 1 [(0, 2)]] [mk1 1 0 11 10; mk1 2 1 5 4; mk1 3 2 11 4] 3%nat
    [mkGraph 0 [1] []; mkGraph 1 [2] []; mkGraph 2 [3] []] true false false Goodput [].
Definition ex_f11_plan : plan := [(1, Some (1, 1, 0)); (2, Some (1, 1, 0)); (3, Some (6, 1, 0))].

Lemma ex_f11_wf : nodup_ids ex_f11 /\ rt_nonneg ex_f11 /\ req_nonneg ex_f11.
Proof.
  split; [unfold nodup_ids; cbn; repeat constructor; cbn; intuition discriminate|]. split; [apply rt_nonnegb_spec; reflexivity|].
  intros t s rq Ht Hs Hrq. cbn in Ht. destruct Ht as [<-|[<-|[<-|[]]]]; cbn in Hs; destruct Hs as [<-|[]]; cbn in Hrq; destruct Hrq as [<-|[]]; cbn; lia.
Qed.

Lemma placedb_single : forall I a t w wk st, pairs I t = [((w, wk), (0, st))] -> is_running t = false -> compat wk st = true ->
  placedb_a I a t = true -> a (VPlaced (t_id t) w 0) = 1.
Proof.
  intros I a t w wk st Hp R C H. unfold placedb_a in H. rewrite Hp in H. cbn [existsb] in H. unfold on, pv in H. rewrite R in H.
  cbn [fst snd slot_w slot_k] in H. rewrite C in H. cbn [eval_pterm] in H. lia.
Qed.

Theorem completeness_refuted_three_way :
  feasible_clb ex_f11 ex_f11_plan = true /\ goodput ex_f11 ex_f11_plan = 3 /\
  forall a, sat (gen_ilp ex_f11) a -> objective (gen_ilp ex_f11) a <= 2.
Proof.
  split; [vm_compute; reflexivity|]. split; [vm_compute; reflexivity|].
  intros a Hsat. rewrite (objective_is_goodput ex_f11 a Hsat eq_refl).
  destruct ex_f11_wf as (Hn & Hrt & Hreq).
  set (t1 := mk1 1 0 11 10). set (t2 := mk1 2 1 5 4). set (t3 := mk1 3 2 11 4).
  assert (T1 : In t1 (i_tasks ex_f11)) by (left; reflexivity).
  assert (T2 : In t2 (i_tasks ex_f11)) by (right; left; reflexivity).
  assert (T3 : In t3 (i_tasks ex_f11)) by (right; right; left; reflexivity).
  unfold goodput_a. change (graphs_in_order ex_f11) with [0; 1; 2]. rewrite !sum_list_cons, sum_list_nil.
  change (reward_tasks ex_f11 0) with [t1]. change (reward_tasks ex_f11 1) with [t2]. change (reward_tasks ex_f11 2) with [t3].
  cbn [forallb]. rewrite !andb_true_r.
  destruct (placedb_a ex_f11 a t1) eqn:P1; [|destruct (placedb_a ex_f11 a t2), (placedb_a ex_f11 a t3); lia].
  destruct (placedb_a ex_f11 a t2) eqn:P2; [|destruct (placedb_a ex_f11 a t3); lia].
  destruct (placedb_a ex_f11 a t3) eqn:P3; [|lia]. exfalso.
  set (w := (1, mkWorker 1 [(0, 2)])).
  apply (placedb_single ex_f11 a t1 1 (snd w) (mkStrat 1 10 [(0, 1)]) eq_refl eq_refl eq_refl) in P1.
  apply (placedb_single ex_f11 a t2 1 (snd w) (mkStrat 1 4 [(0, 1)]) eq_refl eq_refl eq_refl) in P2.
  apply (placedb_single ex_f11 a t3 1 (snd w) (mkStrat 1 4 [(0, 1)]) eq_refl eq_refl eq_refl) in P3.
  cbn [t_id t1 t2 t3 mk1] in P1, P2, P3.
  assert (N1 : In t1 (nonrunning ex_f11)) by (apply in_nonrunning; split; [exact T1|reflexivity]).
  assert (N2 : In t2 (nonrunning ex_f11)) by (apply in_nonrunning; split; [exact T2|reflexivity]).
  assert (N3 : In t3 (nonrunning ex_f11)) by (apply in_nonrunning; split; [exact T3|reflexivity]).
  pose proof (sat_deadline ex_f11 a Hsat t1 N1 eq_refl) as D1. pose proof (sat_deadline ex_f11 a Hsat t2 N2 eq_refl) as D2.
  pose proof (sat_deadline ex_f11 a Hsat t3 N3 eq_refl) as D3.
  pose proof (start_lb_ok ex_f11 a Hsat t1 N1) as B1. pose proof (start_lb_ok ex_f11 a Hsat t2 N2) as B2.
  pose proof (start_lb_ok ex_f11 a Hsat t3 N3) as B3.
  rewrite bridge_start_lb in B1, B2, B3.
  cbn in D1, D2, D3, B1, B2, B3. rewrite ?sum_list_cons, ?sum_list_nil in D1, D2, D3. cbn in D1, D2, D3.
  rewrite P1 in D1. rewrite P2 in D2. rewrite P3 in D3.
  pose proof (three_way_overcharge ex_f11 a Hsat Hn Hrt Hreq t1 t2 t3 w (0, mkStrat 1 10 [(0, 1)]) (0, mkStrat 1 4 [(0, 1)])
                (0, mkStrat 1 4 [(0, 1)]) 1 (a (VStart 3)) (0, 2) T1 T2 T3) as H.
  cbn [t_id t1 t2 t3 mk1 fst snd] in H.
  assert (A : forall t sl tau, active_a ex_f11 a t sl tau = ((on a t sl =? 1) && (st_of ex_f11 a t <=? tau) && (tau <=? st_of ex_f11 a t + slot_rt sl))) by reflexivity.
  specialize (H ltac:(lia) ltac:(lia) ltac:(lia) (or_introl eq_refl) (or_introl eq_refl) (or_introl eq_refl) (or_introl eq_refl) (or_introl eq_refl)
                eq_refl eq_refl).
  rewrite !A in H. unfold on, st_of, pv, startv in H. cbn in H. rewrite P1, P2, P3 in H.
  specialize (H ltac:(lia) ltac:(lia) ltac:(lia) ltac:(lia)). lia.
Qed.

(* F11-iii: one 1-CPU worker, A (10us) started at 0 and now = 8 (2us left), B (5us, deadline 16):
   B can run in [11, 16] after A's last instant 10, but the planner charges A until 18 *)
Definition ex_run : instance :=
  mkInst 8 [mkWorker 1 [(0, 1)]]
    [mkTask 2 1 TReleased 0 16 [mkStrat 1 5 [(0, 1)]] None 5;
     mkTask 1 0 TRunning 0 30 [mkStrat 1 10 [(0, 1)]] (Some (1, 0)) 2] 1%nat
    [mkGraph 0 [1] []; mkGraph 1 [2] []] true false false Goodput [].
Definition ex_run_plan : plan := [(2, Some (11, 1, 0))].
Theorem completeness_refuted_running :
  feasible_clb ex_run ex_run_plan = true /\ goodput ex_run ex_run_plan = 2 /\
  forall a, sat (gen_ilp ex_run) a -> objective (gen_ilp ex_run) a <= 1.
Proof.
  split; [vm_compute; reflexivity|]. split; [vm_compute; reflexivity|].
  intros a Hsat. rewrite (objective_is_goodput ex_run a Hsat eq_refl).
  set (tb := mkTask 2 1 TReleased 0 16 [mkStrat 1 5 [(0, 1)]] None 5).
  set (ta := mkTask 1 0 TRunning 0 30 [mkStrat 1 10 [(0, 1)]] (Some (1, 0)) 2).
  unfold goodput_a. change (graphs_in_order ex_run) with [1; 0]. rewrite !sum_list_cons, sum_list_nil.
  change (reward_tasks ex_run 1) with [tb]. change (reward_tasks ex_run 0) with [ta]. cbn [forallb]. rewrite !andb_true_r.
  destruct (placedb_a ex_run a tb) eqn:Pb; [|destruct (placedb_a ex_run a ta); lia]. exfalso.
  apply (placedb_single ex_run a tb 1 (mkWorker 1 [(0, 1)]) (mkStrat 1 5 [(0, 1)]) eq_refl eq_refl eq_refl) in Pb. cbn [t_id tb] in Pb.
  assert (Nb : In tb (nonrunning ex_run)) by (apply in_nonrunning; split; [left; reflexivity|reflexivity]).
  pose proof (sat_deadline ex_run a Hsat tb Nb eq_refl) as D. pose proof (start_lb_ok ex_run a Hsat tb Nb) as B.
  rewrite bridge_start_lb in B. cbn in D, B. rewrite ?sum_list_cons, ?sum_list_nil in D. cbn in D. rewrite Pb in D.
  assert (Hn : nodup_ids ex_run) by (unfold nodup_ids; cbn; repeat constructor; cbn; intuition discriminate).
  assert (Hrt : rt_nonneg ex_run) by (apply rt_nonnegb_spec; reflexivity).
  assert (Hreq : req_nonneg ex_run).
  { intros t s rq Ht Hs Hrq. cbn in Ht. destruct Ht as [<-|[<-|[]]]; cbn in Hs; destruct Hs as [<-|[]]; cbn in Hrq; destruct Hrq as [<-|[]]; cbn; lia. }
  (* both occupy the worker at B's start: capacity 1 is exceeded *)
  pose proof (capacity_never_exceeded ex_run a Hsat Hn Hrt Hreq
                (no_dependent_linked ex_run ltac:(intros x y Hx Hy; cbn in Hx, Hy; destruct Hx as [<-|[<-|[]]]; destruct Hy as [<-|[<-|[]]]; reflexivity))
                (1, mkWorker 1 [(0, 1)]) (0, 1) (a (VStart 2)) (or_introl eq_refl) (or_introl eq_refl) ltac:(cbn; lia)) as C.
  unfold usage_a in C. cbn [i_tasks ex_run] in C. rewrite !sum_list_cons, sum_list_nil in C.
  cbn [senum t_strats zenum] in C. rewrite !sum_list_cons, !sum_list_nil in C.
  unfold active_a, on, st_of, pv, startv in C. cbn in C. rewrite Pb in C.
  replace (a (VStart 2) <=? a (VStart 2)) with true in C by lia.
  replace (a (VStart 2) <=? a (VStart 2) + 5) with true in C by lia.
  replace (8 <=? a (VStart 2)) with true in C by lia. replace (a (VStart 2) <=? 18) with true in C by lia.
  cbn in C. lia.
Qed.

(* F22: a task whose deadline lies before now + 1 makes the whole system unsatisfiable, so nothing is
   placed in that invocation although the other task fits *)
Definition ex_dead : instance :=
  mkInst 3 [mkWorker 1 [(0, 2)]] [mk1 1 0 30 5; mk1 2 1 3 4] 2%nat
    [mkGraph 0 [1] []; mkGraph 1 [2] []] true false false Goodput [].
Definition ex_dead_plan : plan := [(1, Some (4, 1, 0)); (2, None)].
Theorem completeness_refuted_dead_task :
  feasible_clb ex_dead ex_dead_plan = true /\ goodput ex_dead ex_dead_plan = 1 /\
  (forall a, ~ sat (gen_ilp ex_dead) a) /\ goodput ex_dead (answer ex_dead None) = 0.
Proof.
  split; [vm_compute; reflexivity|]. split; [vm_compute; reflexivity|]. split; [|vm_compute; reflexivity].
  intros a Hsat. set (t2 := mk1 2 1 3 4).
  assert (N2 : In t2 (nonrunning ex_dead)) by (apply in_nonrunning; split; [right; left; reflexivity|reflexivity]).
  pose proof (sat_deadline ex_dead a Hsat t2 N2 eq_refl) as D. pose proof (start_lb_ok ex_dead a Hsat t2 N2) as B.
  rewrite bridge_start_lb in B. cbn in D, B. rewrite ?sum_list_cons, ?sum_list_nil in D. cbn in D.
  assert (In t2 (i_tasks ex_dead)) by (right; left; reflexivity).
  pose proof (on_binary ex_dead a Hsat t2 ((1, mkWorker 1 [(0, 2)]), (0, mkStrat 1 4 [(0, 1)])) H (or_introl eq_refl)) as O.
  unfold on, pv in O. cbn in O. destruct (a (VPlaced 2 1 0)) as [|y|y]; lia.
Qed.

(* ------------------------------------------------------------------ F11-iv: completed parents are counted as unplaced *)
(* `len(parent_tasks)` counts every parent in the graph, the placement sum only those that have variables: a task
   with a co-decided parent and a parent that is not decided (e.g. COMPLETED) can never be placed *)
Theorem undecided_parent_blocks : forall I a, sat (gen_ilp I) a ->
  forall c, In c (nonrunning I) -> decided_parents I c <> [] ->
  Z.of_nat (length (decided_parents I c)) < nparents I c -> decision I a c = None.
Proof.
  intros I a Hsat c Hc Hne Hlt.
  assert (Hd : has_dep I c = true) by (unfold has_dep; destruct (decided_parents I c); [congruence|reflexivity]).
  destruct (app_rows I a Hsat c Hc Hd) as (Hb & H1 & H0).
  assert (Hsum : eval_lin a (parent_sum I c) <= Z.of_nat (length (decided_parents I c))).
  { unfold parent_sum. rewrite eval_lin_sum.
    assert (G : forall l', (forall q', In q' l' -> In q' (i_tasks I)) ->
                sum_list (fun x => eval_lin a (placed_lin I x one_coef)) l' <= Z.of_nat (length l')).
    { induction l' as [|q' l' IH']; intros Hin; [rewrite sum_list_nil; cbn; lia|]. rewrite sum_list_cons. cbn [length].
      assert (eval_lin a (placed_lin I q' one_coef) <= 1).
      { rewrite eval_placed_lin. rewrite (sum_list_ext _ _ (fun sl => eval_pterm a (pv q' sl))) by (intros; unfold one_coef; lia).
        apply (placed_le1 I a Hsat q'). apply Hin. left; reflexivity. }
      specialize (IH' (fun x Hx => Hin x (or_intror Hx))). lia. }
    apply G. intros q' Hq'. unfold decided_parents in Hq'. apply filter_In in Hq'. tauto. }
  assert (Happ : a (VApp (t_id c)) = 0).
  { destruct (Z.eq_dec (a (VApp (t_id c))) 1) as [E|E]; [specialize (H1 E); lia|lia]. }
  specialize (H0 Happ).
  destruct (decision I a c) as [[[s w] k]|] eqn:D; [|reflexivity]. exfalso.
  assert (Hin : In c (i_tasks I)) by (apply in_nonrunning in Hc; tauto).
  pose proof (decision_placed_sum I a c s w k Hsat Hin D). lia.
Qed.

(* witness: diamond A -> C <- B, A completed (not decided), B released, C offered with the graph; now = 10 *)
Definition ex_cp : instance :=
  mkInst 10 [mkWorker 1 [(0, 2)]]
    [mkTask 2 0 TReleased 0 60 [mkStrat 1 4 [(0, 1)]] None 4;
     mkTask 3 0 TVirtual (-1) 60 [mkStrat 1 4 [(0, 1)]] None 4] 2%nat
    [mkGraph 0 [1; 2; 3] [(1, 3); (2, 3)]] true false true Goodput [].
Definition ex_cp_plan : plan := [(2, Some (11, 1, 0)); (3, Some (16, 1, 0))].
Theorem completeness_refuted_completed_parent :
  feasible_clb ex_cp ex_cp_plan = true /\ goodput ex_cp ex_cp_plan = 1 /\
  forall a, sat (gen_ilp ex_cp) a -> objective (gen_ilp ex_cp) a <= 0.
Proof.
  split; [vm_compute; reflexivity|]. split; [vm_compute; reflexivity|].
  intros a Hsat. rewrite (objective_is_goodput ex_cp a Hsat eq_refl).
  set (tc := mkTask 3 0 TVirtual (-1) 60 [mkStrat 1 4 [(0, 1)]] None 4).
  assert (Nc : In tc (nonrunning ex_cp)) by (apply in_nonrunning; split; [right; left; reflexivity|reflexivity]).
  pose proof (undecided_parent_blocks ex_cp a Hsat tc Nc ltac:(vm_compute; discriminate) ltac:(vm_compute; reflexivity)) as D.
  unfold goodput_a. change (graphs_in_order ex_cp) with [0]. rewrite sum_list_cons, sum_list_nil.
  change (reward_tasks ex_cp 0) with [tc]. cbn [forallb]. rewrite andb_true_r.
  destruct (placedb_a ex_cp a tc) eqn:P; [|lia]. exfalso.
  apply (placedb_single ex_cp a tc 1 (mkWorker 1 [(0, 2)]) (mkStrat 1 4 [(0, 1)]) eq_refl eq_refl eq_refl) in P. cbn [t_id tc] in P.
  unfold decision in D. destruct (chosen ex_cp a tc) as [[w k]|] eqn:C; [discriminate|].
  apply (chosen_complete ex_cp a tc); [|exact C].
  exists ((1, mkWorker 1 [(0, 2)]), (0, mkStrat 1 4 [(0, 1)])). split; [left; reflexivity|].
  unfold slot_hit, pv. cbn. rewrite P. reflexivity.
Qed.
