(* TetriPComplete — every plan that is feasible under the formulation's convention is the read-back
   of a satisfying assignment whose objective is the plan's reward (completeness), for instances
   without running tasks and with all parents of a task co-decided. *)
From Coq Require Import ZArith Bool List Lia ZifyBool.
Import ListNotations.
From Verif Require Import Model.Val Model.PlanSpec Model.TetriModel Proofs.TetriP Proofs.TetriPSum Proofs.TetriPSound
  Proofs.TetriPCor.
Open Scope Z_scope.

(* ------------------------------------------------------------------ sums that select one element *)
Lemma sumf_select : forall A (key : A -> Z) (G : A -> Z) l x0,
  NoDup (map key l) -> In x0 l -> (forall y, In y l -> key y <> key x0 -> G y = 0) -> sumf G l = G x0.
Proof.
  induction l as [|b l IH]; intros x0 Hn Hx Hz; [contradiction|]. cbn [sumf]. cbn in Hn. inversion Hn as [|? ? Hnot Hn']; subst.
  destruct Hx as [->|Hx].
  - rewrite sumf_zero; [lia|]. intros y Hy. apply Hz; [now right|]. intros E. apply Hnot. rewrite <- E. now apply in_map.
  - rewrite (IH x0 Hn' Hx); [|intros; apply Hz; auto; now right].
    rewrite (Hz b (or_introl eq_refl)); [lia|]. intros E. apply Hnot. rewrite E. now apply in_map.
Qed.
Lemma sumf_at_most_one : forall A (key : A -> Z) (k v : Z) l, NoDup (map key l) -> 0 <= v ->
  sumf (fun y => if key y =? k then v else 0) l <= v.
Proof.
  induction l as [|b l IH]; intros Hn Hv; cbn [sumf]; [lia|]. cbn in Hn. inversion Hn as [|? ? Hnot Hn']; subst.
  destruct (key b =? k) eqn:E.
  - rewrite sumf_zero; [lia|]. intros y Hy. destruct (key y =? k) eqn:E2; [|reflexivity]. exfalso. apply Hnot.
    assert (key b = key y) by lia. rewrite H. now apply in_map.
  - specialize (IH Hn' Hv). lia.
Qed.
Lemma sumf_filter : forall A (f : A -> Z) (P : A -> bool) l, sumf f (filter P l) = sumf (fun x => if P x then f x else 0) l.
Proof. induction l as [|b l IH]; cbn; [reflexivity|]. destruct (P b); cbn [sumf]; lia. Qed.

(* ------------------------------------------------------------------ slots *)
Lemma NoDup_slots : forall I, 0 < ti_disc I -> NoDup (slots I).
Proof.
  intros I Hd. unfold slots. assert (G : forall n s, NoDup (map (slot I) (seq s n))).
  { induction n as [|n IH]; intros s; cbn; constructor; auto. intros H. apply in_map_iff in H. destruct H as [k [E Hk]].
    apply in_seq in Hk. unfold slot in E. nia. }
  apply G.
Qed.
Lemma consecutive_inv : forall l p q, In (p, q) (consecutive l) -> exists i, nth_error l i = Some p /\ nth_error l (S i) = Some q.
Proof.
  induction l as [|x l IH]; intros p q H; [contradiction|]. destruct l as [|y l']; [contradiction|].
  cbn [consecutive] in H. destruct H as [H|H].
  - inversion H; subst. exists 0%nat. split; reflexivity.
  - apply IH in H. destruct H as [i [H1 H2]]. exists (S i). split; auto.
Qed.
Lemma consecutive_slots : forall I p q, In (p, q) (consecutive (slots I)) -> In p (slots I) /\ In q (slots I) /\ q = p + ti_disc I.
Proof.
  intros I p q H. apply consecutive_inv in H. destruct H as [i [H1 H2]].
  assert (Hi : (S i < nslots I)%nat).
  { assert (L : (S i < length (slots I))%nat) by (apply nth_error_Some; rewrite H2; discriminate).
    unfold slots in L. rewrite map_length, seq_length in L. exact L. }
  rewrite nth_slots in H1, H2 by lia. inversion H1; inversion H2; subst. repeat split.
  - apply In_slots. exists i. split; [lia|reflexivity].
  - apply In_slots. exists (S i). split; [lia|reflexivity].
  - unfold slot. lia.
Qed.

(* ------------------------------------------------------------------ the assignment of a plan *)
Definition Kgap (I : tinst) : Z := 1 + fold_right (fun x m => Z.max (slowest_runtime (tt_strats x)) m) 0 (ti_tasks I).
Definition far (I : tinst) (rank : Z -> Z) (id : Z) : Z := last_slot I + Kgap I + Kgap I * rank id.
Definition placed_at (p : plan) (id t : Z) : Z :=
  match find_pl p id with Some pl => if pl_start pl =? t then 1 else 0 | None => 0 end.
Definition isp (p : plan) (id : Z) : Z := match find_pl p id with Some _ => 1 | None => 0 end.
Definition matches (pl : placement) (w t : Z) (i : nat) : bool :=
  (pl_worker pl =? w) && (pl_start pl =? t) && Nat.eqb (pl_strat pl) i.

Definition assign_of_plan (I : tinst) (rank : Z -> Z) (p : plan) : assignment :=
  fun v => match v with
  | VCell x w t i => match find_pl p x with Some pl => if matches pl w t i then 1 else 0 | None => 0 end
  | VPlacedAt x t => placed_at p x t
  | VNotPlacedAt x t => 1 - placed_at p x t
  | VPhase x t => if (1 - placed_at p x (t - ti_disc I) =? 1) && (placed_at p x t =? 1) then 1 else 0
  | VStart x => match find_pl p x with Some pl => pl_start pl | None => far I rank x end
  | VIsPlaced x => isp p x
  | VAllPar x => match find_tt (ti_tasks I) x with
                 | Some tx => if sumf (fun q => isp p (tt_id q)) (parents_of I tx) =? tt_nparents tx then 1 else 0
                 | None => 0 end
  | VReward x => match find_pl p x with Some pl => reward_num I (pl_start pl) | None => 0 end
  end.

(* hypotheses of completeness *)
Record cpl_hyp (I : tinst) (rank : Z -> Z) (p : plan) : Prop := mkCH {
  ch_wf : wf_inst I;
  ch_now : 0 <= ti_now I;
  ch_norun : forall x, In x (ti_tasks I) -> is_running x = false;
  ch_parents : forall x, In x (ti_tasks I) -> tt_nparents x = Z.of_nat (length (tt_parents x));
  ch_rank : forall x pid, In x (ti_tasks I) -> In pid (tt_parents x) -> rank pid < rank (tt_id x);
  ch_rank0 : forall id, 0 <= rank id;
  ch_runtime : forall x s, In x (ti_tasks I) -> In s (tt_strats x) -> 0 < st_runtime s;
  ch_feas : feasible (conv_tetri I) (to_pinst I) p;
  ch_stay : forall x, In x (ti_tasks I) -> must_stay I x = true -> exists pl, find_pl p (tt_id x) = Some pl }.

Lemma find_pl_In : forall p id pl, find_pl p id = Some pl -> In pl p /\ pl_task pl = id.
Proof.
  induction p as [|z p IH]; intros id pl F; cbn in F; [discriminate|]. destruct (pl_task z =? id) eqn:E.
  - inversion F; subst. split; [now left|lia].
  - destruct (IH _ _ F). split; [now right|auto].
Qed.
Lemma find_worker_inv : forall ws id pw, find_worker (map (fun w => mkPWorker (tw_idx w) (tw_total w)) ws) id = Some pw ->
  exists w, In w ws /\ tw_idx w = id /\ pw = mkPWorker (tw_idx w) (tw_total w).
Proof.
  induction ws as [|v ws IH]; intros id pw F; cbn in F; [discriminate|]. destruct (tw_idx v =? id) eqn:E.
  - inversion F; subst. exists v. split; [now left|]. split; [lia|reflexivity].
  - destruct (IH _ _ F) as [w [A B]]. exists w. split; [now right|auto].
Qed.
Lemma find_task_inv : forall I id t, find_task (pi_tasks (to_pinst I)) id = Some t ->
  exists x, In x (ti_tasks I) /\ tt_id x = id /\ t = to_ptask I x.
Proof.
  intros I id t F. cbn in F. rewrite find_task_map in F. destruct (find_tt (ti_tasks I) id) as [x|] eqn:Fx; [|discriminate].
  inversion F; subst. apply find_tt_In in Fx. destruct Fx. exists x. auto.
Qed.
Lemma rget_entry_le : forall v r q, (forall rq, In rq v -> 0 <= snd rq) -> In (r, q) v -> q <= rget v r.
Proof.
  induction v as [|[k q0] v IH]; intros r q Hn Hin; [contradiction|]. cbn.
  assert (0 <= q0) by (apply (Hn (k, q0)); now left).
  assert (0 <= rget v r) by (apply rget_nonneg; intros; apply Hn; now right).
  destruct Hin as [E|Hin].
  - inversion E; subst. rewrite Z.eqb_refl. lia.
  - specialize (IH r q (fun rq H => Hn rq (or_intror H)) Hin). destruct (k =? r); lia.
Qed.

Section PlanFacts.
  Variable I : tinst.
  Variable rank : Z -> Z.
  Variable p : plan.
  Hypothesis H : cpl_hyp I rank p.

  Let W := ch_wf I rank p H.

  Lemma free_is_all : free_tasks I = ti_tasks I.
  Proof.
    unfold free_tasks. pose proof (ch_norun I rank p H) as Hn. induction (ti_tasks I) as [|x l IH]; [reflexivity|]. cbn.
    rewrite (Hn x (or_introl eq_refl)). cbn. f_equal. apply IH. intros; apply Hn; now right.
  Qed.

  (* the strategy of any placement of the plan has non-negative requests *)
  Lemma plan_req_nonneg : forall pl s r, In pl p -> pl_strategy (to_pinst I) pl = Some s -> 0 <= rget (st_req s) r.
  Proof.
    intros pl s r Hpl Hs. unfold pl_strategy in Hs. destruct (find_task (pi_tasks (to_pinst I)) (pl_task pl)) as [t|] eqn:Ft; [|discriminate].
    apply find_task_inv in Ft. destruct Ft as [x [Hx [_ ->]]]. cbn in Hs. apply nth_error_In in Hs.
    apply rget_nonneg. intros rq Hrq. eapply (wf_req I W); eauto.
  Qed.

  Lemma plan_cell : forall x pl, In x (ti_tasks I) -> find_pl p (tt_id x) = Some pl ->
    exists w s, In w (ti_workers I) /\ pl_worker pl = tw_idx w /\ nth_error (tt_strats x) (pl_strat pl) = Some s /\
      In (pl_start pl) (slots I) /\ cell_kind I x w (pl_start pl) s = CVar /\
      In (w, pl_start pl, (pl_strat pl, s)) (var_cells I x).
  Proof.
    intros x pl Hx F. apply find_pl_In in F. destruct F as [Hpl Eid].
    destruct (ch_feas I rank p H) as [[Hnd Hwf] [Htim [_ Hcap]]]. rewrite Forall_forall in Hwf, Htim.
    destruct (Hwf pl Hpl) as [t [pw [s [Ft [_ [Fw Hs]]]]]].
    rewrite Eid, (find_task_pinst I x (wf_ids I W) Hx) in Ft. inversion Ft; subst t. cbn [to_ptask pt_strats] in Hs.
    cbn in Fw. apply find_worker_inv in Fw. destruct Fw as [w [Hw [Ew Epw]]].
    destruct (Htim pl Hpl) as [t' [s' [Ft' [Hs' [Hnow [Hrel [Hgrid Hdl]]]]]]].
    rewrite Eid, (find_task_pinst I x (wf_ids I W) Hx) in Ft'. inversion Ft'; subst t'. cbn [to_ptask pt_strats pt_release pt_deadline] in *.
    rewrite Hs in Hs'. inversion Hs'; subst s'. cbn [conv_tetri cv_grid cv_deadlines] in *. apply on_grid_iff in Hgrid.
    assert (Hk : cell_kind I x w (pl_start pl) s = CVar).
    { apply cell_kind_var_intro; auto.
      (* fits: capacity at the start instant *)
      unfold fits. apply forallb_forall. intros [r q] Hrq. cbn [fst snd].
      assert (Hin : In (mkPWorker (tw_idx w) (tw_total w)) (pi_workers (to_pinst I))) by (cbn; apply in_map_iff; exists w; auto).
      assert (Hnow' : pi_now (to_pinst I) <= pl_start pl) by (cbn [conv_tetri cv_first] in Hnow; lia).
      specialize (Hcap _ (pl_start pl) Hin Hnow' r). cbn [pw_id pw_cap] in Hcap.
      assert (Hs_in : In s (tt_strats x)) by (eapply nth_error_In; eauto).
      assert (Hq : q <= rget (st_req s) r).
      { apply rget_entry_le; auto. intros rq0 Hrq0. eapply (wf_req I W); eauto. }
      assert (Hfix : 0 <= demand_fixed (conv_tetri I) (to_pinst I) (tw_idx w) r (pl_start pl)).
      { unfold demand_fixed. rewrite fold_add_map. apply sumf_nonneg. intros f Hf. exfalso.
        unfold fixed_of in Hf. apply in_flat_map in Hf. destruct Hf as [pt [Hpt Hf]]. cbn in Hpt. apply in_map_iff in Hpt.
        destruct Hpt as [y [<- Hy]]. cbn in Hf. pose proof (ch_norun I rank p H y Hy) as Hr. unfold is_running in Hr.
        destruct (tt_state y); try contradiction. discriminate. }
      assert (Hterm : rget (st_req s) r <= demand_plan (conv_tetri I) (to_pinst I) p (tw_idx w) r (pl_start pl)).
      { unfold demand_plan. rewrite fold_add_map.
        set (g := fun x0 : placement => if (pl_worker x0 =? tw_idx w) && pl_active (conv_tetri I) (to_pinst I) x0 (pl_start pl)
                      then match pl_strategy (to_pinst I) x0 with Some s0 => rget (st_req s0) r | None => 0 end else 0).
        assert (Eg : g pl = rget (st_req s) r).
        { unfold g, pl_active. assert (Ep : pl_strategy (to_pinst I) pl = Some s).
          { unfold pl_strategy. rewrite Eid, (find_task_pinst I x (wf_ids I W) Hx). exact Hs. }
          rewrite Ep. cbn [conv_tetri cv_closed]. pose proof (ch_runtime I rank p H x s Hx Hs_in).
          assert (E1 : (pl_worker pl =? tw_idx w) = true) by lia.
          assert (E2 : (pl_start pl <=? pl_start pl) && (pl_start pl <? pl_start pl + st_runtime s + 0) = true) by lia.
          rewrite E1, E2. reflexivity. }
        rewrite <- Eg. apply (sumf_In_le _ g); auto. intros y Hy. unfold g. destruct (_ && _); [|lia].
        destruct (pl_strategy (to_pinst I) y) as [s0|] eqn:E0; [|lia]. eapply plan_req_nonneg; eauto. }
      unfold demand in Hcap. lia. }
    exists w, s. repeat split; auto. apply In_var_cells. split; auto. apply In_cells. repeat split; auto.
    change (pl_strat pl) with (0 + pl_strat pl)%nat. now apply In_indexed.
  Qed.
End PlanFacts.

Lemma indexed_NoDup_key : forall A (l : list A) i, NoDup (map (fun c => Z.of_nat (fst c)) (indexed i l)).
Proof.
  induction l as [|b l IH]; intros i; cbn; constructor; auto.
  intros Hin. apply in_map_iff in Hin. destruct Hin as [[k a0] [E Hk]]. cbn in E. apply indexed_In in Hk. lia.
Qed.

Definition cell_matches (pl : placement) (c : tworker * Z * (nat * strat)) : bool :=
  match c with (w, t, (i, _)) => matches pl (tw_idx w) t i end.

Section Select.
  Variable I : tinst.
  Hypothesis W : wf_inst I.

  Lemma sum_cells_select : forall x pl (F : tworker * Z * (nat * strat) -> Z) w s,
    In (w, pl_start pl, (pl_strat pl, s)) (var_cells I x) -> pl_worker pl = tw_idx w ->
    sumf (fun c => if cell_matches pl c then F c else 0) (var_cells I x) = F (w, pl_start pl, (pl_strat pl, s)).
  Proof.
    intros x pl F w s Hin Ew. pose proof Hin as Hin'. apply In_var_cells in Hin'. destruct Hin' as [Hc Hk].
    apply In_cells in Hc. destruct Hc as [Hw [Ht Hs]].
    unfold var_cells. rewrite sumf_filter. unfold cells. rewrite sumf_flat_map.
    set (P := fun c : tworker * Z * (nat * strat) => match c with (w0, t0, (_, s0)) =>
                 match cell_kind I x w0 t0 s0 with CVar => true | _ => false end end).
    set (G := fun c => if P c then (if cell_matches pl c then F c else 0) else 0).
    rewrite (sumf_select _ tw_idx _ (ti_workers I) w (wf_widx I W) Hw).
    - rewrite sumf_flat_map. rewrite (sumf_select _ (fun t => t) _ (slots I) (pl_start pl)); auto.
      + rewrite sumf_map. rewrite (sumf_select _ (fun c => Z.of_nat (fst c)) _ (indexed 0 (tt_strats x)) (pl_strat pl, s)); auto.
        * unfold P. rewrite Hk. unfold cell_matches, matches. rewrite Ew, !Z.eqb_refl, Nat.eqb_refl. reflexivity.
        * apply indexed_NoDup_key.
        * intros [i0 s0] _ Hne. cbn [fst] in Hne. destruct (cell_kind I x w (pl_start pl) s0); [|reflexivity].
          unfold cell_matches, matches. assert (E : Nat.eqb (pl_strat pl) i0 = false) by (apply Nat.eqb_neq; lia).
          rewrite E, andb_false_r. reflexivity.
      + rewrite map_id. apply NoDup_slots. apply W.
      + intros t0 _ Hne. rewrite sumf_map. apply sumf_zero. intros [i0 s0] _. destruct (cell_kind I x w t0 s0); [|reflexivity].
        unfold cell_matches, matches. assert (E : (pl_start pl =? t0) = false) by lia. rewrite E, andb_false_r. reflexivity.
    - intros w0 _ Hne. rewrite sumf_flat_map. apply sumf_zero. intros t0 _. rewrite sumf_map. apply sumf_zero. intros [i0 s0] _.
      destruct (cell_kind I x w0 t0 s0); [|reflexivity]. unfold cell_matches, matches.
      assert (E : (pl_worker pl =? tw_idx w0) = false) by lia. rewrite E. reflexivity.
  Qed.
End Select.

Lemma eval_cap_terms' : forall I a w r t x, is_running x = false ->
  eval_lin a (cap_terms I w r t x) = sumf (cap_term_val a w r t x) (var_cells I x).
Proof.
  intros I a w r t x Hr. unfold cap_terms. rewrite Hr. rewrite eval_lin_sumf, sumf_flat_map. apply sumf_ext.
  intros [[w' t0] [i s]] _. unfold cap_term_val. destruct (_ && _ && _); cbn [sumf fst snd]; lia.
Qed.
Lemma uniq_types_val : forall v seen total k q, In (k, q) (uniq_types_aux seen v total) -> q = rget total k.
Proof.
  induction v as [|[k0 q0] v IH]; intros seen total k q H; [contradiction|]. cbn [uniq_types_aux] in H.
  destruct (existsb (Z.eqb k0) seen); [eauto|]. destruct H as [E|H]; [inversion E; subst; reflexivity|eauto].
Qed.
Lemma parents_of_inv : forall I x q, In q (parents_of I x) -> exists pid, In pid (tt_parents x) /\ find_tt (ti_tasks I) pid = Some q.
Proof.
  intros I x q H. unfold parents_of in H. apply in_flat_map in H. destruct H as [pid [Hp H]].
  destruct (find_tt (ti_tasks I) pid) eqn:F; [|contradiction]. destruct H as [<-|[]]. eauto.
Qed.
Lemma parents_of_length_eq : forall I x, (forall pid, In pid (tt_parents x) -> exists q, find_tt (ti_tasks I) pid = Some q) ->
  length (parents_of I x) = length (tt_parents x).
Proof.
  intros I x H. unfold parents_of. induction (tt_parents x) as [|pid l IH]; [reflexivity|]. cbn [flat_map]. rewrite app_length.
  destruct (H pid (or_introl eq_refl)) as [q ->]. cbn. f_equal. apply IH. intros; apply H; now right.
Qed.
Lemma Kgap_bound : forall I q, In q (ti_tasks I) -> slowest_runtime (tt_strats q) + 1 <= Kgap I.
Proof.
  intros I q H. unfold Kgap. induction (ti_tasks I) as [|b l IH]; [contradiction|]. cbn [fold_right].
  destruct H as [->|H]; [lia|]. specialize (IH H). lia.
Qed.
Lemma Kgap_pos : forall I, 1 <= Kgap I.
Proof. intros I. unfold Kgap. induction (ti_tasks I) as [|b l IH]; cbn [fold_right]; lia. Qed.
Lemma slot_le_last : forall I t, 0 < ti_disc I -> In t (slots I) -> t <= last_slot I.
Proof. intros I t Hd H. apply In_slots in H. destruct H as [k [Hk ->]]. unfold last_slot, slot. nia. Qed.
Lemma sumf_plus : forall A (f g : A -> Z) l, sumf (fun x => f x + g x) l = sumf f l + sumf g l.
Proof. induction l as [|b l IH]; cbn [sumf]; [reflexivity|]. rewrite IH. lia. Qed.
Lemma sumf_le_length : forall A (f : A -> Z) l, (forall x, In x l -> f x <= 1) -> sumf f l <= Z.of_nat (length l).
Proof.
  induction l as [|b l IH]; intros H; cbn [sumf length]; [lia|].
  assert (f b <= 1) by (apply H; now left). assert (sumf f l <= Z.of_nat (length l)) by (apply IH; intros; apply H; now right). lia.
Qed.
Lemma sumf_eq_length : forall A (f : A -> Z) l, (forall x, In x l -> f x = 1) -> sumf f l = Z.of_nat (length l).
Proof.
  induction l as [|b l IH]; intros H; cbn [sumf length]; [lia|].
  rewrite (H b (or_introl eq_refl)), IH; [lia|]. intros; apply H; now right.
Qed.

Section Complete.
  Variable I : tinst.
  Variable rank : Z -> Z.
  Variable p : plan.
  Hypothesis H : cpl_hyp I rank p.

  Let W := ch_wf I rank p H.
  Let ap := assign_of_plan I rank p.

  Lemma isp_le1 : forall id, 0 <= isp p id <= 1.
  Proof. intros. unfold isp. destruct (find_pl p id); lia. Qed.
  Lemma placed_at_01 : forall id t, 0 <= placed_at p id t <= 1.
  Proof. intros. unfold placed_at. destruct (find_pl p id) as [pl|]; [destruct (pl_start pl =? t)|]; lia. Qed.

  Lemma ap_cell : forall x c, ap (cell_var x c) =
    match find_pl p (tt_id x) with Some pl => if cell_matches pl c then 1 else 0 | None => 0 end.
  Proof. intros x [[w t] [i s]]. reflexivity. Qed.

  (* weighted sum over the variable cells of a task *)
  Lemma cells_sum_placed : forall x pl (F : tworker * Z * (nat * strat) -> Z) w s, In x (ti_tasks I) ->
    find_pl p (tt_id x) = Some pl -> In (w, pl_start pl, (pl_strat pl, s)) (var_cells I x) -> pl_worker pl = tw_idx w ->
    sumf (fun c => F c * ap (cell_var x c)) (var_cells I x) = F (w, pl_start pl, (pl_strat pl, s)).
  Proof.
    intros x pl F w s Hx Fp Hin Ew. rewrite <- (sum_cells_select I W x pl F w s Hin Ew). apply sumf_ext.
    intros c _. rewrite ap_cell, Fp. destruct (cell_matches pl c); lia.
  Qed.
  Lemma cells_sum_unplaced : forall x (F : tworker * Z * (nat * strat) -> Z),
    find_pl p (tt_id x) = None -> sumf (fun c => F c * ap (cell_var x c)) (var_cells I x) = 0.
  Proof. intros x F Fp. apply sumf_zero. intros c _. rewrite ap_cell, Fp. lia. Qed.

  Lemma cellsum_isp : forall x, In x (ti_tasks I) -> sumf (fun c => ap (cell_var x c)) (var_cells I x) = isp p (tt_id x).
  Proof.
    intros x Hx. unfold isp. destruct (find_pl p (tt_id x)) as [pl|] eqn:Fp.
    - destruct (plan_cell I rank p H x pl Hx Fp) as [w [s [Hw [Ew [Hs [Ht [Hk Hin]]]]]]].
      rewrite <- (cells_sum_placed x pl (fun _ => 1) w s Hx Fp Hin Ew). apply sumf_ext. intros; lia.
    - apply sumf_zero. intros c _. rewrite ap_cell, Fp. reflexivity.
  Qed.
  Lemma cellsum_at_placed : forall x t, In x (ti_tasks I) ->
    sumf (fun c => ap (cell_var x c)) (cells_at I x t) = placed_at p (tt_id x) t.
  Proof.
    intros x t Hx. unfold cells_at. rewrite sumf_filter. unfold placed_at. destruct (find_pl p (tt_id x)) as [pl|] eqn:Fp.
    - destruct (plan_cell I rank p H x pl Hx Fp) as [w [s [Hw [Ew [Hs [Ht [Hk Hin]]]]]]].
      rewrite <- (cells_sum_placed x pl (fun c => match c with (_, t0, _) => if t0 =? t then 1 else 0 end) w s Hx Fp Hin Ew).
      apply sumf_ext. intros [[w0 t0] [i0 s0]] _. destruct (t0 =? t); lia.
    - apply sumf_zero. intros [[w0 t0] [i0 s0]] _. rewrite ap_cell, Fp. destruct (t0 =? t); lia.
  Qed.

  (* ---- rows of one task *)
  Lemma task_rows_sat : forall x c, In x (ti_tasks I) -> In c (task_rows I x) -> sat_constr ap c = true.
  Proof.
    intros x c Hx Hc. unfold task_rows in Hc. apply in_app_or in Hc. destruct Hc as [Hc|Hc].
    - (* Gurobi-only part *)
      destruct (ti_flavour I) eqn:Hfl; [|contradiction].
      apply in_app_or in Hc. destruct Hc as [Hc|Hc].
      + apply in_flat_map in Hc. destruct Hc as [t [Ht [<-|[<-|[]]]]].
        * cbn [sat_constr cmp]. rewrite eval_lin_cons, eval_lin_neg, eval_lin_sumf, sumf_map.
          assert (E : sumf (fun x0 => fst (1, cell_var x x0) * ap (snd (1, cell_var x x0))) (cells_at I x t) =
                      sumf (fun c0 => ap (cell_var x c0)) (cells_at I x t)) by (apply sumf_ext; intros; cbn [fst snd]; lia).
          rewrite E, cellsum_at_placed by auto. change (ap (VPlacedAt (tt_id x) t)) with (placed_at p (tt_id x) t). lia.
        * cbn [sat_constr cmp]. rewrite !eval_lin_cons. cbn [eval_lin fold_right].
          change (ap (VNotPlacedAt (tt_id x) t)) with (1 - placed_at p (tt_id x) t).
          change (ap (VPlacedAt (tt_id x) t)) with (placed_at p (tt_id x) t). lia.
      + apply in_app_or in Hc. destruct Hc as [Hc|Hc].
        * apply in_flat_map in Hc. destruct Hc as [[p0 q] [Hpq Hc]]. apply consecutive_slots in Hpq. destruct Hpq as [_ [_ Eq]].
          cbn [fst snd] in Hc. destruct Hc as [<-|[<-|[]]].
          -- cbn [sat_constr forallb].
             change (ap (VPhase (tt_id x) q)) with (if (1 - placed_at p (tt_id x) (q - ti_disc I) =? 1) && (placed_at p (tt_id x) q =? 1) then 1 else 0).
             change (ap (VNotPlacedAt (tt_id x) p0)) with (1 - placed_at p (tt_id x) p0).
             change (ap (VPlacedAt (tt_id x) q)) with (placed_at p (tt_id x) q).
             replace (q - ti_disc I) with p0 by lia. rewrite andb_true_r. apply Z.eqb_refl.
          -- cbn [sat_constr cmp]. rewrite eval_lin_cons. cbn [eval_lin fold_right].
             change (ap (VPhase (tt_id x) q)) with (if (1 - placed_at p (tt_id x) (q - ti_disc I) =? 1) && (placed_at p (tt_id x) q =? 1) then 1 else 0).
             change (ap (VStart (tt_id x))) with (match find_pl p (tt_id x) with Some pl => pl_start pl | None => far I rank (tt_id x) end).
             unfold placed_at. destruct (find_pl p (tt_id x)) as [pl|]; [|cbn; lia].
             destruct (pl_start pl =? q) eqn:E; [lia|]. rewrite andb_false_r. cbn. lia.
        * destruct Hc as [<-|[]]. cbn [sat_constr cmp]. rewrite eval_lin_cons. cbn [eval_lin fold_right].
          change (ap (VPlacedAt (tt_id x) (first_slot I))) with (placed_at p (tt_id x) (first_slot I)).
          change (ap (VStart (tt_id x))) with (match find_pl p (tt_id x) with Some pl => pl_start pl | None => far I rank (tt_id x) end).
          unfold placed_at. destruct (find_pl p (tt_id x)) as [pl|]; [|cbn; lia].
          destruct (pl_start pl =? first_slot I) eqn:E; [lia|cbn; lia].
    - apply in_app_or in Hc. destruct Hc as [Hc|Hc].
      + assert (Ect : eval_lin ap (cell_terms I x) = isp p (tt_id x)).
        { unfold cell_terms. rewrite eval_lin_sumf, sumf_map. rewrite <- cellsum_isp by auto. apply sumf_ext. intros; cbn [fst snd]; lia. }
        destruct (must_stay I x) eqn:M.
        * destruct Hc as [<-|[]]. cbn [sat_constr cmp]. rewrite Ect. destruct (ch_stay I rank p H x Hx M) as [pl Fp].
          unfold isp. rewrite Fp. reflexivity.
        * destruct Hc as [<-|[<-|[]]]; cbn [sat_constr cmp].
          -- rewrite Ect. pose proof (isp_le1 (tt_id x)). lia.
          -- rewrite eval_lin_cons, eval_lin_neg, Ect. change (ap (VIsPlaced (tt_id x))) with (isp p (tt_id x)). lia.
      + destruct (ti_flavour I) eqn:Hfl; [contradiction|]. destruct Hc as [<-|[]]. cbn [sat_constr cmp].
        rewrite eval_lin_cons, eval_lin_sumf, sumf_map.
        change (ap (VReward (tt_id x))) with (match find_pl p (tt_id x) with Some pl => reward_num I (pl_start pl) | None => 0 end).
        destruct (find_pl p (tt_id x)) as [pl|] eqn:Fp.
        * destruct (plan_cell I rank p H x pl Hx Fp) as [w [s [Hw [Ew [Hs [Ht [Hk Hin]]]]]]].
          pose proof (cells_sum_placed x pl (fun c0 => match c0 with (_, t0, _) => - reward_num I t0 end) w s Hx Fp Hin Ew) as E.
          assert (E2 : sumf (fun x0 => fst (let '(_, t, _) := x0 in (- reward_num I t, cell_var x x0)) *
                                  ap (snd (let '(_, t, _) := x0 in (- reward_num I t, cell_var x x0)))) (var_cells I x) =
                       sumf (fun c0 => (let '(_, t0, _) := c0 in - reward_num I t0) * ap (cell_var x c0)) (var_cells I x)).
          { apply sumf_ext. intros [[w0 t0] [i0 s0]] _. reflexivity. }
          rewrite E2, E. lia.
        * assert (E2 : sumf (fun x0 => fst (let '(_, t, _) := x0 in (- reward_num I t, cell_var x x0)) *
                                  ap (snd (let '(_, t, _) := x0 in (- reward_num I t, cell_var x x0)))) (var_cells I x) = 0).
          { apply sumf_zero. intros [[w0 t0] [i0 s0]] _. cbn [fst snd]. rewrite ap_cell, Fp. lia. }
          rewrite E2. lia.
  Qed.

  (* ---- dependency rows *)
  Lemma placed_parents : forall x pl q, In x (ti_tasks I) -> ti_flavour I = Gurobi -> find_pl p (tt_id x) = Some pl ->
    In q (parents_of I x) ->
    exists plq, find_pl p (tt_id q) = Some plq /\ pl_start plq + slowest_runtime (tt_strats q) + 1 <= pl_start pl.
  Proof.
    intros x pl q Hx Hfl Fp Hq. apply parents_of_inv in Hq. destruct Hq as [pid [Hpid Fq]].
    pose proof (find_tt_In _ _ _ Fq) as [Hqt Eq]. apply find_pl_In in Fp. destruct Fp as [Hpl Eid].
    destruct (ch_feas I rank p H) as [_ [_ [Hprec _]]]. rewrite Forall_forall in Hprec.
    specialize (Hprec pl Hpl (to_ptask I x) pid). rewrite Eid, (find_task_pinst I x (wf_ids I W) Hx) in Hprec.
    specialize (Hprec eq_refl). cbn [to_ptask pt_parents] in Hprec. rewrite Hfl in Hprec. specialize (Hprec Hpid).
    destruct Hprec as [pq [e [Fpq [He Hle]]]]. rewrite <- Eq, (find_task_pinst I q (wf_ids I W) Hqt) in Fpq. inversion Fpq; subst pq.
    unfold parent_end in He. cbn [to_ptask pt_fixed pt_id pt_strats conv_tetri cv_slowest cv_gap] in He, Hle.
    pose proof (ch_norun I rank p H q Hqt) as Hr. unfold is_running in Hr.
    destruct (tt_state q); try discriminate;
      (destruct (find_pl p (tt_id q)) as [plq|]; [|discriminate]; inversion He; subst e; exists plq; split; [reflexivity|lia]).
  Qed.

  Lemma placed_val_isp : forall q, In q (ti_tasks I) -> placed_val I ap q = isp p (tt_id q).
  Proof.
    intros q Hq. unfold placed_val, placed_expr. rewrite (ch_norun I rank p H q Hq). cbn [orb].
    destruct (must_stay I q) eqn:M; cbn [fst snd eval_lin fold_right].
    - destruct (ch_stay I rank p H q Hq M) as [pl Fp]. unfold isp. rewrite Fp. reflexivity.
    - change (ap (VIsPlaced (tt_id q))) with (isp p (tt_id q)). lia.
  Qed.

  Lemma dep_rows_sat : forall x c, In x (ti_tasks I) -> In c (dep_rows I x) -> sat_constr ap c = true.
  Proof.
    intros x c Hx Hc. unfold dep_rows in Hc. destruct (ti_flavour I) eqn:Hfl; [|contradiction].
    rewrite (ch_norun I rank p H x Hx) in Hc.
    destruct (parents_of I x) as [|p0 ps] eqn:Eps; [contradiction|]. rewrite <- Eps in Hc.
    assert (Hps : forall q, In q (parents_of I x) -> In q (ti_tasks I)) by (intros; eapply parents_of_tasks; eauto).
    set (S := sumf (fun q => isp p (tt_id q)) (parents_of I x)).
    assert (ES : sumf (placed_val I ap) (parents_of I x) = S).
    { apply sumf_ext. intros q Hq. apply placed_val_isp. auto. }
    assert (Elen : Z.of_nat (length (parents_of I x)) = tt_nparents x).
    { rewrite parents_of_length_eq; [symmetry; apply (ch_parents I rank p H x Hx)|]. intros pid Hpid. apply (wf_parents I W x pid Hx Hpid). }
    assert (HSle : S <= tt_nparents x).
    { rewrite <- Elen. apply sumf_le_length. intros q _. apply isp_le1. }
    assert (Eap : ap (VAllPar (tt_id x)) = if S =? tt_nparents x then 1 else 0).
    { change (ap (VAllPar (tt_id x))) with
        (match find_tt (ti_tasks I) (tt_id x) with
         | Some tx => if sumf (fun q => isp p (tt_id q)) (parents_of I tx) =? tt_nparents tx then 1 else 0 | None => 0 end).
      rewrite (find_tt_NoDup _ x (wf_ids I W) Hx). reflexivity. }
    assert (Hplaced : forall pl, find_pl p (tt_id x) = Some pl -> S = tt_nparents x).
    { intros pl Fp. rewrite <- Elen. apply sumf_eq_length. intros q Hq.
      destruct (placed_parents x pl q Hx Hfl Fp Hq) as [plq [Fq _]]. unfold isp. rewrite Fq. reflexivity. }
    apply in_app_or in Hc. destruct Hc as [Hc|Hc].
    - apply in_map_iff in Hc. destruct Hc as [q [<- Hq]]. pose proof (Hps q Hq) as Hqt.
      unfold start_expr. pose proof (ch_norun I rank p H q Hqt) as Hr. rewrite Hr. unfold is_running in Hr.
      assert (Hgoal : slowest_runtime (tt_strats q) + 1 <= ap (VStart (tt_id x)) - ap (VStart (tt_id q))).
      { change (ap (VStart (tt_id x))) with (match find_pl p (tt_id x) with Some pl => pl_start pl | None => far I rank (tt_id x) end).
        change (ap (VStart (tt_id q))) with (match find_pl p (tt_id q) with Some pl => pl_start pl | None => far I rank (tt_id q) end).
        pose proof (Kgap_bound I q Hqt) as Kb. pose proof (Kgap_pos I) as Kp.
        destruct (find_pl p (tt_id x)) as [pl|] eqn:Fp.
        - destruct (placed_parents x pl q Hx Hfl Fp Hq) as [plq [Fq Hle]]. rewrite Fq. lia.
        - apply parents_of_inv in Hq. destruct Hq as [pid [Hpid Fq]]. pose proof (find_tt_In _ _ _ Fq) as [_ Eq].
          pose proof (ch_rank I rank p H x pid Hx Hpid) as Hrk. pose proof (ch_rank0 I rank p H (tt_id x)) as H0x.
          pose proof (ch_rank0 I rank p H pid) as H0q. rewrite Eq.
          destruct (find_pl p pid) as [plq|] eqn:Fplq.
          + rewrite <- Eq in Fplq. destruct (plan_cell I rank p H q plq Hqt Fplq) as [w [s [_ [_ [_ [Ht _]]]]]].
            pose proof (slot_le_last I _ (wf_disc I W) Ht). unfold far. nia.
          + unfold far. nia. }
      destruct (tt_state q); try discriminate; cbn [sat_constr cmp]; rewrite eval_lin_cons, eval_lin_neg;
        cbn [eval_lin fold_right fst snd]; lia.
    - cbv zeta in Hc. rewrite <- (placed_sum I ap (parents_of I x)) in ES.
      destruct (placed_expr I x) as [xe xc] eqn:Ex.
      destruct Hc as [<-|[<-|[<-|[]]]]; cbn [sat_constr cmp]; rewrite Eap.
      + destruct (S =? tt_nparents x) eqn:E; [reflexivity|]. cbn [Z.eqb negb orb]. lia.
      + destruct (S =? tt_nparents x) eqn:E; [|reflexivity]. cbn [Z.eqb negb orb]. lia.
      + destruct (S =? tt_nparents x) eqn:E; [reflexivity|]. cbn [Z.eqb negb orb].
        unfold placed_expr in Ex. rewrite (ch_norun I rank p H x Hx) in Ex. cbn [orb] in Ex.
        destruct (must_stay I x) eqn:M; inversion Ex; subst xe xc; cbn [eval_lin fold_right fst snd].
        * destruct (ch_stay I rank p H x Hx M) as [pl Fp]. specialize (Hplaced pl Fp). lia.
        * change (ap (VIsPlaced (tt_id x))) with (isp p (tt_id x)). unfold isp.
          destruct (find_pl p (tt_id x)) as [pl|] eqn:Fp; [specialize (Hplaced pl eq_refl); lia|lia].
  Qed.

  (* ---- capacity rows *)
  Definition hdem (widx r t : Z) (x : ttask) : Z :=
    match find_pl p (tt_id x) with Some pl => gdem I widx r t pl | None => 0 end.

  Lemma gdem_plan_nonneg : forall widx r t pl, In pl p -> 0 <= gdem I widx r t pl.
  Proof.
    intros widx r t pl Hpl. unfold gdem. destruct (_ && _); [|lia].
    destruct (pl_strategy (to_pinst I) pl) as [s|] eqn:E; [|lia]. eapply (plan_req_nonneg I rank p H); eauto.
  Qed.

  Lemma hdem_le_demand : forall widx r t l, NoDup (map tt_id l) ->
    sumf (hdem widx r t) l <= demand_plan (conv_tetri I) (to_pinst I) p widx r t.
  Proof.
    intros widx r t l Hn. unfold demand_plan. rewrite fold_add_map. fold (gdem I widx r t).
    unfold hdem. assert (Hg : forall pl, In pl p -> 0 <= gdem I widx r t pl) by (intros; now apply gdem_plan_nonneg).
    clear H W ap. revert Hg. induction p as [|pl p' IH]; intros Hg.
    - cbn [find_pl sumf]. rewrite sumf_zero; [lia|reflexivity].
    - cbn [sumf]. assert (Hle : sumf (fun x => match find_pl (pl :: p') (tt_id x) with Some pl0 => gdem I widx r t pl0 | None => 0 end) l <=
                               sumf (fun x => if tt_id x =? pl_task pl then gdem I widx r t pl else 0) l +
                               sumf (fun x => match find_pl p' (tt_id x) with Some pl0 => gdem I widx r t pl0 | None => 0 end) l).
      { rewrite <- sumf_plus. apply sumf_le. intros x _. cbn [find_pl].
        assert (0 <= match find_pl p' (tt_id x) with Some pl0 => gdem I widx r t pl0 | None => 0 end).
        { destruct (find_pl p' (tt_id x)) as [pl0|] eqn:F; [|lia]. apply Hg. right. apply find_pl_In in F. tauto. }
        pose proof (Hg pl (or_introl eq_refl)).
        rewrite (Z.eqb_sym (pl_task pl) (tt_id x)). destruct (tt_id x =? pl_task pl); lia. }
      pose proof (sumf_at_most_one _ tt_id (pl_task pl) (gdem I widx r t pl) l Hn (Hg pl (or_introl eq_refl))).
      assert (IH' : sumf (fun x => match find_pl p' (tt_id x) with Some pl0 => gdem I widx r t pl0 | None => 0 end) l <= sumf (gdem I widx r t) p').
      { apply IH. intros; apply Hg; now right. }
      lia.
  Qed.

  Lemma cap_terms_le_hdem : forall w r t x, In x (ti_tasks I) -> eval_lin ap (cap_terms I w r t x) <= hdem (tw_idx w) r t x.
  Proof.
    intros w r t x Hx. rewrite eval_cap_terms' by (apply (ch_norun I rank p H x Hx)). unfold hdem.
    destruct (find_pl p (tt_id x)) as [pl|] eqn:Fp.
    - destruct (plan_cell I rank p H x pl Hx Fp) as [w0 [s [Hw [Ew [Hs [Ht [Hk Hin]]]]]]].
      assert (E : sumf (cap_term_val ap w r t x) (var_cells I x) =
                  sumf (fun c => (match c with (w', t0, (_, s0)) =>
                          if (tw_idx w' =? tw_idx w) && occupies t0 (st_runtime s0) t && negb (rget (st_req s0) r =? 0)
                          then rget (st_req s0) r else 0 end) * ap (cell_var x c)) (var_cells I x)).
      { apply sumf_ext. intros [[w' t0] [i0 s0]] _. unfold cap_term_val. destruct (_ && _ && _); lia. }
      rewrite E, (cells_sum_placed x pl _ w0 s Hx Fp Hin Ew).
      assert (Epl : pl = mkPl (tt_id x) (tw_idx w0) (pl_strat pl) (pl_start pl)).
      { apply find_pl_In in Fp. destruct Fp as [_ Eid]. destruct pl as [a0 b0 c0 d0]. cbn in *. subst. reflexivity. }
      rewrite Epl at 2. rewrite (gdem_cell I W x w0 (pl_start pl) (pl_strat pl) s (tw_idx w) r t Hx Hs).
      assert (0 <= rget (st_req s) r).
      { apply rget_nonneg. intros rq Hrq. eapply (wf_req I W); eauto. eapply nth_error_In; eauto. }
      destruct (tw_idx w0 =? tw_idx w); cbv [andb]; [|lia]. destruct (occupies (pl_start pl) (st_runtime s) t); [|lia].
      destruct (rget (st_req s) r =? 0) eqn:E0; cbv [negb]; lia.
    - rewrite sumf_zero; [lia|]. intros [[w' t0] [i0 s0]] _. unfold cap_term_val. rewrite ap_cell, Fp.
      destruct (_ && _ && _); lia.
  Qed.

  Lemma cap_rows_sat : forall c, In c (cap_rows I) -> sat_constr ap c = true.
  Proof.
    intros c Hc. unfold cap_rows in Hc. apply in_flat_map in Hc. destruct Hc as [t [Ht Hc]].
    apply in_flat_map in Hc. destruct Hc as [w [Hw Hc]]. apply in_flat_map in Hc. destruct Hc as [[r q] [Hrq Hc]].
    cbn [fst snd] in Hc. destruct (_ || _); [contradiction|]. destruct Hc as [<-|[]]. cbn [sat_constr cmp].
    unfold uniq_types in Hrq. apply uniq_types_val in Hrq. subst q.
    assert (Ec : fold_right Z.add 0 (map (cap_const I w r t) (ti_tasks I)) = 0).
    { rewrite fold_add_map. apply sumf_zero. intros x Hx. unfold cap_const. pose proof (ch_norun I rank p H x Hx) as Hr.
      unfold is_running in Hr. destruct (tt_state x); try reflexivity. discriminate. }
    rewrite Ec, eval_lin_sumf, sumf_flat_map.
    assert (Hle : sumf (fun x => sumf (fun cv0 => fst cv0 * ap (snd cv0)) (cap_terms I w r t x)) (ti_tasks I) <=
                  sumf (hdem (tw_idx w) r t) (ti_tasks I)).
    { apply sumf_le. intros x Hx. rewrite <- eval_lin_sumf. now apply cap_terms_le_hdem. }
    pose proof (hdem_le_demand (tw_idx w) r t (ti_tasks I) (wf_ids I W)) as Hd.
    destruct (ch_feas I rank p H) as [_ [_ [_ Hcap]]].
    assert (Hin : In (mkPWorker (tw_idx w) (tw_total w)) (pi_workers (to_pinst I))) by (cbn; apply in_map_iff; exists w; auto).
    assert (Hnow : pi_now (to_pinst I) <= t) by (cbn; apply (slots_ge_now I t (wf_disc I W) Ht)).
    specialize (Hcap _ t Hin Hnow r). cbn [pw_id pw_cap] in Hcap. unfold demand in Hcap.
    assert (Hfix : 0 <= demand_fixed (conv_tetri I) (to_pinst I) (tw_idx w) r t).
    { unfold demand_fixed. rewrite fold_add_map. apply sumf_nonneg. intros f Hf. exfalso.
      unfold fixed_of in Hf. apply in_flat_map in Hf. destruct Hf as [pt [Hpt Hf]]. cbn in Hpt. apply in_map_iff in Hpt.
      destruct Hpt as [y [<- Hy]]. cbn in Hf. pose proof (ch_norun I rank p H y Hy) as Hr. unfold is_running in Hr.
      destruct (tt_state y); try contradiction. discriminate. }
    lia.
  Qed.

  (* ---- bounds *)
  Lemma bounds_sat : forall d, In d (cs_vars (gen_tetri I)) -> sat_bound ap d = true.
  Proof.
    intros d Hd. cbn [gen_tetri cs_vars] in Hd. apply in_app_or in Hd. destruct Hd as [Hd|Hd].
    - apply in_flat_map in Hd. destruct Hd as [x [Hx Hd]]. rewrite (free_is_all I rank p H) in Hx.
      unfold task_vars in Hd. apply in_app_or in Hd. destruct Hd as [Hd|Hd].
      + apply in_map_iff in Hd. destruct Hd as [c [<- Hc]]. unfold sat_bound. cbn [vd_lb vd_var vd_ub]. rewrite ap_cell.
        destruct (find_pl p (tt_id x)) as [pl|]; [destruct (cell_matches pl c)|]; lia.
      + apply in_app_or in Hd. destruct Hd as [Hd|Hd].
        * destruct (ti_flavour I); [|contradiction]. apply in_app_or in Hd. destruct Hd as [Hd|Hd].
          -- apply in_flat_map in Hd. destruct Hd as [t [_ [<-|[<-|[]]]]]; unfold sat_bound; cbn [vd_lb vd_var vd_ub].
             ++ change (ap (VPlacedAt (tt_id x) t)) with (placed_at p (tt_id x) t). pose proof (placed_at_01 (tt_id x) t). lia.
             ++ change (ap (VNotPlacedAt (tt_id x) t)) with (1 - placed_at p (tt_id x) t). pose proof (placed_at_01 (tt_id x) t). lia.
          -- apply in_app_or in Hd. destruct Hd as [[<-|[]]|Hd].
             ++ unfold sat_bound. cbn [vd_lb vd_var vd_ub].
                change (ap (VStart (tt_id x))) with (match find_pl p (tt_id x) with Some pl => pl_start pl | None => far I rank (tt_id x) end).
                destruct (find_pl p (tt_id x)) as [pl|] eqn:Fp.
                ** destruct (plan_cell I rank p H x pl Hx Fp) as [w [s [_ [_ [_ [Ht _]]]]]].
                   pose proof (slots_ge_now I _ (wf_disc I W) Ht). pose proof (ch_now I rank p H). lia.
                ** unfold far. pose proof (Kgap_pos I). pose proof (ch_rank0 I rank p H (tt_id x)). pose proof (ch_now I rank p H).
                   assert (ti_now I <= last_slot I) by (unfold last_slot; apply slot_ge_now; apply W). nia.
             ++ apply in_map_iff in Hd. destruct Hd as [[p0 q] [<- _]]. unfold sat_bound. cbn [vd_lb vd_var vd_ub snd].
                change (ap (VPhase (tt_id x) q)) with (if (1 - placed_at p (tt_id x) (q - ti_disc I) =? 1) && (placed_at p (tt_id x) q =? 1) then 1 else 0).
                destruct ((1 - placed_at p (tt_id x) (q - ti_disc I) =? 1) && (placed_at p (tt_id x) q =? 1)); lia.
        * apply in_app_or in Hd. destruct Hd as [Hd|Hd].
          -- destruct (must_stay I x); [contradiction|]. destruct Hd as [<-|[]]. unfold sat_bound. cbn [vd_lb vd_var vd_ub].
             change (ap (VIsPlaced (tt_id x))) with (isp p (tt_id x)). pose proof (isp_le1 (tt_id x)). lia.
          -- destruct (ti_flavour I); [contradiction|]. destruct Hd as [<-|[]]. unfold sat_bound. cbn [vd_lb vd_var vd_ub].
             change (ap (VReward (tt_id x))) with (match find_pl p (tt_id x) with Some pl => reward_num I (pl_start pl) | None => 0 end).
             assert (Hden : 1 <= reward_den I) by (unfold reward_den; destruct (last_slot I - first_slot I =? 0) eqn:E; [lia|];
               assert (ti_now I <= last_slot I) by (unfold last_slot; apply slot_ge_now; apply W); unfold first_slot in *; lia).
             destruct (find_pl p (tt_id x)) as [pl|] eqn:Fp; [|lia].
             destruct (plan_cell I rank p H x pl Hx Fp) as [w [s [_ [_ [_ [Ht _]]]]]].
             pose proof (slots_ge_now I _ (wf_disc I W) Ht). pose proof (slot_le_last I _ (wf_disc I W) Ht).
             unfold reward_num, reward_den in *. unfold first_slot in *. destruct (last_slot I - ti_now I =? 0); lia.
    - apply in_flat_map in Hd. destruct Hd as [x [Hx Hd]]. unfold dep_vars in Hd. destruct (ti_flavour I); [|contradiction].
      rewrite (ch_norun I rank p H x Hx) in Hd. destruct (parents_of I x); [contradiction|]. destruct Hd as [<-|[]].
      unfold sat_bound. cbn [vd_lb vd_var vd_ub].
      change (ap (VAllPar (tt_id x))) with
        (match find_tt (ti_tasks I) (tt_id x) with
         | Some tx => if sumf (fun q => isp p (tt_id q)) (parents_of I tx) =? tt_nparents tx then 1 else 0 | None => 0 end).
      destruct (find_tt (ti_tasks I) (tt_id x)) as [tx|]; [destruct (_ =? _)|]; lia.
  Qed.

  (* ---- completeness *)
  Theorem plan_sat : sat (gen_tetri I) ap = true.
  Proof.
    unfold sat. apply andb_true_iff. split; apply forallb_forall.
    - apply bounds_sat.
    - intros c Hc. cbn [gen_tetri cs_rows] in Hc. apply in_app_or in Hc. destruct Hc as [Hc|Hc].
      + apply in_flat_map in Hc. destruct Hc as [x [Hx Hc]]. rewrite (free_is_all I rank p H) in Hx. eapply task_rows_sat; eauto.
      + apply in_app_or in Hc. destruct Hc as [Hc|Hc].
        * apply in_flat_map in Hc. destruct Hc as [x [Hx Hc]]. eapply dep_rows_sat; eauto.
        * now apply cap_rows_sat.
  Qed.

  (* the read-back of the plan's assignment is the plan *)
  Lemma plan_readback : forall x, In x (ti_tasks I) ->
    match find_pl p (tt_id x) with
    | Some pl => readback_task I ap x = Some pl
    | None => readback_task I ap x = None
    end.
  Proof.
    intros x Hx. destruct (find_pl p (tt_id x)) as [pl|] eqn:Fp.
    - destruct (plan_cell I rank p H x pl Hx Fp) as [w [s [Hw [Ew [Hs [Ht [Hk Hin]]]]]]].
      destruct (cell_one_readback I ap x (w, pl_start pl, (pl_strat pl, s)) Hin) as [pl' R].
      { rewrite ap_cell, Fp. unfold cell_matches, matches. rewrite Ew, !Z.eqb_refl, Nat.eqb_refl. reflexivity. }
      rewrite R. f_equal. apply readback_task_Some in R. destruct R as [w' [t' [i' [s' [Hin' [Ha ->]]]]]].
      change (VCell (tt_id x) (tw_idx w') t' i') with (cell_var x (w', t', (i', s'))) in Ha. rewrite ap_cell, Fp in Ha.
      unfold cell_matches, matches in Ha. destruct ((pl_worker pl =? tw_idx w') && (pl_start pl =? t') && Nat.eqb (pl_strat pl) i') eqn:E; [|lia].
      apply andb_true_iff in E. destruct E as [E E3]. apply andb_true_iff in E. destruct E as [E1 E2].
      apply Nat.eqb_eq in E3. apply find_pl_In in Fp. destruct Fp as [_ Eid]. destruct pl as [a0 b0 c0 d0]. cbn in *. f_equal; lia.
    - destruct (readback_task I ap x) as [pl'|] eqn:R; [|reflexivity]. exfalso.
      apply readback_task_Some in R. destruct R as [w' [t' [i' [s' [Hin' [Ha _]]]]]].
      change (VCell (tt_id x) (tw_idx w') t' i') with (cell_var x (w', t', (i', s'))) in Ha. rewrite ap_cell, Fp in Ha. lia.
  Qed.
End Complete.

(* ------------------------------------------------------------------ objective and maximality (C14 part) *)
Definition taskval (I : tinst) (a : assignment) (y : ttask) : Z :=
  sumf (fun c => (match c with (_, t, _) => reward_num I t end) * a (cell_var y c)) (var_cells I y).

Lemma free_all : forall I, (forall x, In x (ti_tasks I) -> is_running x = false) -> free_tasks I = ti_tasks I.
Proof.
  intros I Hn. unfold free_tasks. induction (ti_tasks I) as [|x l IH]; [reflexivity|]. cbn.
  rewrite (Hn x (or_introl eq_refl)). cbn. f_equal. apply IH. intros; apply Hn; now right.
Qed.

Lemma obj_eq_gen : forall I a, sat (gen_tetri I) a = true ->
  objective (gen_tetri I) a = sumf (fun y => if is_running y then 0 else if rewarded_fb I y then taskval I a y else 0) (ti_tasks I).
Proof.
  intros I a Hsat. unfold objective. cbn [gen_tetri cs_obj]. unfold obj_terms, rewarded_fb.
  destruct (ti_flavour I) eqn:Hfl.
  - rewrite eval_lin_sumf, sumf_flat_map. apply sumf_ext. intros y Hy. destruct (is_running y); cbn [orb]; [reflexivity|].
    destruct (rewarded I y); cbn [negb]; [|reflexivity]. rewrite sumf_map. unfold taskval. apply sumf_ext.
    intros [[w t] [i s]] _. reflexivity.
  - rewrite eval_lin_sumf, sumf_flat_map. apply sumf_ext. intros y Hy. destruct (is_running y) eqn:Ry; [reflexivity|]. cbn [sumf fst snd].
    (* the reward row ties the reward variable to the cells *)
    assert (Hr : In (CLin (RRewardRow (tt_id y)) ((1, VReward (tt_id y)) ::
                      map (fun c => match c with (_, t, _) => (- reward_num I t, cell_var y c) end) (var_cells I y)) SEq 0) (task_rows I y)).
    { unfold task_rows. rewrite Hfl. apply in_or_app. right. apply in_or_app. right. now left. }
    assert (Hyf : In y (free_tasks I)) by (apply free_tasks_In; auto).
    pose proof (sat_rows _ _ _ Hsat (row_of_task _ _ _ Hyf Hr)) as S. cbn [sat_constr cmp] in S.
    rewrite eval_lin_cons, eval_lin_sumf, sumf_map in S.
    assert (E : sumf (fun x0 => fst (let '(_, t, _) := x0 in (- reward_num I t, cell_var y x0)) *
                          a (snd (let '(_, t, _) := x0 in (- reward_num I t, cell_var y x0)))) (var_cells I y) = - taskval I a y).
    { unfold taskval. assert (G : forall l, sumf (fun x0 : tworker * Z * (nat * strat) => fst (let '(_, t, _) := x0 in (- reward_num I t, cell_var y x0)) *
                          a (snd (let '(_, t, _) := x0 in (- reward_num I t, cell_var y x0)))) l =
                          - sumf (fun c => (let '(_, t, _) := c in reward_num I t) * a (cell_var y c)) l).
      { induction l as [|[[w t] [i s]] l IH]; cbn [sumf]; [reflexivity|]. rewrite IH. cbn [fst snd]. lia. }
      apply G. }
    rewrite E in S. lia.
Qed.
Lemma obj_eq : forall I a, (forall x, In x (ti_tasks I) -> is_running x = false) -> sat (gen_tetri I) a = true ->
  objective (gen_tetri I) a = sumf (fun y => if rewarded_fb I y then taskval I a y else 0) (ti_tasks I).
Proof.
  intros I a Hnr Hsat. rewrite (obj_eq_gen I a Hsat). apply sumf_ext. intros y Hy. now rewrite (Hnr y Hy).
Qed.

Lemma find_split : forall A (f : A -> bool) l x, find f l = Some x -> exists l1 l2, l = l1 ++ x :: l2.
Proof.
  induction l as [|b l IH]; intros x F; cbn in F; [discriminate|]. destruct (f b).
  - inversion F; subst. exists [], l. reflexivity.
  - destruct (IH x F) as [l1 [l2 ->]]. exists (b :: l1), l2. reflexivity.
Qed.
Lemma sumf_nonneg_zero : forall A (f : A -> Z) l, (forall x, In x l -> 0 <= f x) -> sumf f l <= 0 -> forall x, In x l -> f x = 0.
Proof.
  induction l as [|b l IH]; intros Hn Hs x Hx; [contradiction|]. cbn [sumf] in Hs.
  assert (0 <= f b) by (apply Hn; now left). assert (0 <= sumf f l) by (apply sumf_nonneg; intros; apply Hn; now right).
  destruct Hx as [->|Hx]; [lia|]. apply IH; auto; [intros; apply Hn; now right|lia].
Qed.

Lemma taskval_readback : forall I a y, sat (gen_tetri I) a = true -> In y (free_tasks I) ->
  taskval I a y = match readback_task I a y with Some q => reward_num I (pl_start q) | None => 0 end.
Proof.
  intros I a y Hsat Hy. unfold taskval, readback_task.
  pose proof (cellsum_le_1 I a Hsat y Hy) as Hle. unfold cellsum in Hle.
  assert (Hb : forall c, In c (var_cells I y) -> 0 <= a (cell_var y c) <= 1) by (intros; now apply (cell_binary I a Hsat)).
  destruct (find (fun c => a (cell_var y c) =? 1) (var_cells I y)) as [[[w t] [i s]]|] eqn:F.
  - pose proof (find_some _ _ F) as [Hin H1]. cbn beta in H1. apply Z.eqb_eq in H1.
    destruct (find_split _ _ _ _ F) as [l1 [l2 El]]. rewrite El in *. rewrite sumf_app in *. cbn [sumf] in *.
    assert (Hz : forall c, In c (l1 ++ l2) -> a (cell_var y c) = 0).
    { apply sumf_nonneg_zero.
      - intros c Hc. apply Hb. apply in_app_or in Hc. apply in_or_app. destruct Hc; [now left|right; now right].
      - rewrite sumf_app. lia. }
    rewrite (sumf_zero _ _ l1), (sumf_zero _ _ l2).
    + cbn [pl_start]. lia.
    + intros c Hc. rewrite (Hz c); [lia|]. apply in_or_app. now right.
    + intros c Hc. rewrite (Hz c); [lia|]. apply in_or_app. now left.
  - apply sumf_zero. intros c Hc. pose proof (find_none _ _ F c Hc) as N. cbn beta in N. specialize (Hb c Hc).
    assert (a (cell_var y c) = 0) by lia. lia.
Qed.

Lemma reward_num_pos : forall I t, 0 < ti_disc I -> In t (slots I) -> 1 <= reward_num I t.
Proof.
  intros I t Hd Ht. pose proof (slots_ge_now I t Hd Ht). pose proof (slot_le_last I t Hd Ht).
  unfold reward_num, first_slot. destruct (last_slot I - ti_now I =? 0) eqn:E; lia.
Qed.

Lemma find_pl_readback : forall I a y, NoDup (map tt_id (ti_tasks I)) -> In y (free_tasks I) ->
  find_pl (plan_of (readback I a)) (tt_id y) = readback_task I a y.
Proof.
  intros I a y Hn Hy. destruct (readback_task I a y) as [q|] eqn:R.
  - assert (Hin : In q (plan_of (readback I a))) by (apply In_plan; eauto).
    rewrite <- (readback_pl_task _ _ _ _ R). apply find_pl_NoDup; auto. now apply plan_NoDup.
  - destruct (find_pl (plan_of (readback I a)) (tt_id y)) as [q|] eqn:F; [|reflexivity]. exfalso.
    apply find_pl_In in F. destruct F as [Hq Eq]. apply In_plan in Hq. destruct Hq as [z [Hz Rz]].
    pose proof (readback_pl_task _ _ _ _ Rz) as E. rewrite Eq in E.
    apply free_tasks_In in Hy. apply free_tasks_In in Hz. destruct Hy as [Hy _]. destruct Hz as [Hz _].
    pose proof (find_tt_NoDup _ y Hn Hy) as F1. pose proof (find_tt_NoDup _ z Hn Hz) as F2. rewrite E in F1. rewrite F1 in F2.
    inversion F2; subst. congruence.
Qed.

(* static hypotheses of maximality: no running task, every parent of an offered task has variables, the parent
   relation is acyclic (a rank exists), runtimes are positive *)
Record max_hyp (I : tinst) (rank : Z -> Z) : Prop := mkMH {
  mh_wf : wf_inst I;
  mh_now : 0 <= ti_now I;
  mh_norun : forall x, In x (ti_tasks I) -> is_running x = false;
  mh_parents : forall x, In x (ti_tasks I) -> tt_nparents x = Z.of_nat (length (tt_parents x));
  mh_rank : forall x pid, In x (ti_tasks I) -> In pid (tt_parents x) -> rank pid < rank (tt_id x);
  mh_rank0 : forall id, 0 <= rank id;
  mh_runtime : forall x s, In x (ti_tasks I) -> In s (tt_strats x) -> 0 < st_runtime s }.

Definition optimal (I : tinst) (a : assignment) : Prop :=
  sat (gen_tetri I) a = true /\ forall a', sat (gen_tetri I) a' = true -> objective (gen_tetri I) a' <= objective (gen_tetri I) a.

Lemma reward_num_ge_den : forall I t, 0 < ti_disc I -> In t (slots I) -> reward_den I <= reward_num I t.
Proof.
  intros I t Hd Ht. pose proof (slots_ge_now I t Hd Ht). pose proof (slot_le_last I t Hd Ht).
  unfold reward_num, reward_den, first_slot. destruct (last_slot I - ti_now I =? 0) eqn:E; lia.
Qed.

(* adding a rewarded task to the read-back of a satisfying assignment, if feasible, yields a satisfying assignment
   that is better by at least one unit of reward (reward_den, the objective being scaled by it) *)
Lemma tetri_addable_better : forall I rank a x pl, max_hyp I rank -> sat (gen_tetri I) a = true ->
  In x (ti_tasks I) -> rewarded_fb I x = true -> readback_task I a x = None -> pl_task pl = tt_id x ->
  feasible (conv_tetri I) (to_pinst I) (pl :: plan_of (readback I a)) ->
  exists a', sat (gen_tetri I) a' = true /\ objective (gen_tetri I) a + reward_den I <= objective (gen_tetri I) a'.
Proof.
  intros I rank a x pl M Hsat Hx Hrew Rx Epl Hfeas.
  pose proof (mh_wf I rank M) as W.
  assert (Hfree : free_tasks I = ti_tasks I) by (apply free_all; apply M).
  set (p' := pl :: plan_of (readback I a)).
  assert (Hfind : forall y, In y (ti_tasks I) -> find_pl p' (tt_id y) = if tt_id y =? tt_id x then Some pl else readback_task I a y).
  { intros y Hy. unfold p'. cbn [find_pl]. rewrite Epl, (Z.eqb_sym (tt_id x) (tt_id y)).
    destruct (tt_id y =? tt_id x); [reflexivity|]. apply find_pl_readback; [apply W|]. rewrite Hfree. auto. }
  assert (CH : cpl_hyp I rank p').
  { constructor; try apply M; auto. intros y Hy My. rewrite (Hfind y Hy). destruct (tt_id y =? tt_id x); [eauto|].
    assert (Hyf : In y (free_tasks I)) by (rewrite Hfree; auto).
    apply (cellsum_one_readback I a Hsat y Hyf). rewrite (must_stay_cellsum I a Hsat y Hyf My). lia. }
  pose proof (plan_sat I rank p' CH) as Hsat'.
  exists (assign_of_plan I rank p'). split; [exact Hsat'|].
  rewrite (obj_eq I _ (mh_norun I rank M) Hsat'), (obj_eq I a (mh_norun I rank M) Hsat).
  destruct (plan_cell I rank p' CH x pl Hx) as [w [s [_ [_ [_ [Ht _]]]]]].
  { rewrite (Hfind x Hx), Z.eqb_refl. reflexivity. }
  pose proof (reward_num_ge_den I _ (wf_disc I W) Ht) as Hpos.
  assert (Hge : sumf (fun y => if rewarded_fb I y then taskval I a y else 0) (ti_tasks I) +
                sumf (fun y => if tt_id y =? tt_id x then reward_num I (pl_start pl) else 0) (ti_tasks I) <=
                sumf (fun y => if rewarded_fb I y then taskval I (assign_of_plan I rank p') y else 0) (ti_tasks I)).
  { rewrite <- sumf_plus. apply sumf_le. intros y Hy.
    assert (Hyf : In y (free_tasks I)) by (rewrite Hfree; auto).
    rewrite (taskval_readback I a y Hsat Hyf), (taskval_readback I _ y Hsat' Hyf).
    pose proof (plan_readback I rank p' CH y Hy) as PR. rewrite (Hfind y Hy) in PR.
    destruct (tt_id y =? tt_id x) eqn:E.
    - assert (y = x).
      { pose proof (find_tt_NoDup _ y (wf_ids I W) Hy) as F1. pose proof (find_tt_NoDup _ x (wf_ids I W) Hx) as F2.
        apply Z.eqb_eq in E. rewrite E in F1. rewrite F1 in F2. now inversion F2. }
      subst y. rewrite PR, Rx, Hrew. lia.
    - destruct (readback_task I a y) as [q|] eqn:Ry; rewrite PR; destruct (rewarded_fb I y); lia. }
  rewrite (sumf_select _ tt_id (fun y => if tt_id y =? tt_id x then reward_num I (pl_start pl) else 0) (ti_tasks I) x (wf_ids I W) Hx) in Hge.
  - cbn beta in Hge. rewrite Z.eqb_refl in Hge. lia.
  - intros y _ Hne. destruct (tt_id y =? tt_id x) eqn:E; [lia|reflexivity].
Qed.

Lemma reward_den_pos : forall I, wf_inst I -> 1 <= reward_den I.
Proof.
  intros I W. unfold reward_den. destruct (last_slot I - first_slot I =? 0) eqn:E; [lia|].
  assert (ti_now I <= last_slot I) by (unfold last_slot; apply slot_ge_now; apply W). unfold first_slot in *. lia.
Qed.

Theorem tetri_maximal : forall I rank a x pl, max_hyp I rank -> optimal I a ->
  In x (ti_tasks I) -> rewarded_fb I x = true -> readback_task I a x = None -> pl_task pl = tt_id x ->
  ~ feasible (conv_tetri I) (to_pinst I) (pl :: plan_of (readback I a)).
Proof.
  intros I rank a x pl M [Hsat Hopt] Hx Hrew Rx Epl Hfeas.
  destruct (tetri_addable_better I rank a x pl M Hsat Hx Hrew Rx Epl Hfeas) as [a' [Hs' Hb]].
  specialize (Hopt a' Hs'). pose proof (reward_den_pos I (mh_wf I rank M)). lia.
Qed.

(* the solvers stop at a relative gap of 10%: an assignment within 10% of the optimum whose (scaled) objective is
   below 10 units of reward is already maximal — the gap cannot hide one task *)
Theorem tetri_gap_maximal : forall I rank a x pl, max_hyp I rank -> sat (gen_tetri I) a = true ->
  (forall a', sat (gen_tetri I) a' = true -> 10 * objective (gen_tetri I) a' <= 11 * objective (gen_tetri I) a) ->
  objective (gen_tetri I) a < 10 * reward_den I ->
  In x (ti_tasks I) -> rewarded_fb I x = true -> readback_task I a x = None -> pl_task pl = tt_id x ->
  ~ feasible (conv_tetri I) (to_pinst I) (pl :: plan_of (readback I a)).
Proof.
  intros I rank a x pl M Hsat Hgap Hsmall Hx Hrew Rx Epl Hfeas.
  destruct (tetri_addable_better I rank a x pl M Hsat Hx Hrew Rx Epl Hfeas) as [a' [Hs' Hb]].
  specialize (Hgap a' Hs'). lia.
Qed.

Lemma reward_num_le : forall I t, 0 < ti_disc I -> In t (slots I) -> reward_num I t <= 2 * reward_den I.
Proof.
  intros I t Hd Ht. pose proof (slots_ge_now I t Hd Ht). pose proof (slot_le_last I t Hd Ht).
  unfold reward_num, reward_den, first_slot. destruct (last_slot I - ti_now I =? 0) eqn:E; lia.
Qed.
(* no assignment is worth more than two units of reward per task *)
Lemma obj_upper : forall I a, wf_inst I -> (forall x, In x (ti_tasks I) -> is_running x = false) -> sat (gen_tetri I) a = true ->
  objective (gen_tetri I) a <= 2 * reward_den I * Z.of_nat (length (ti_tasks I)).
Proof.
  intros I a W Hnr Hsat. rewrite (obj_eq I a Hnr Hsat). pose proof (reward_den_pos I W) as Hden.
  assert (Hfree : free_tasks I = ti_tasks I) by (now apply free_all).
  assert (G : forall l, (forall y, In y l -> In y (ti_tasks I)) ->
            sumf (fun y => if rewarded_fb I y then taskval I a y else 0) l <= 2 * reward_den I * Z.of_nat (length l)).
  { induction l as [|y l IH]; intros Hl; cbn [sumf length]; [lia|].
    assert (Hy : In y (free_tasks I)) by (rewrite Hfree; apply Hl; now left).
    specialize (IH (fun z Hz => Hl z (or_intror Hz))).
    assert (taskval I a y <= 2 * reward_den I /\ 0 <= taskval I a y).
    { rewrite (taskval_readback I a y Hsat Hy). destruct (readback_task I a y) as [q|] eqn:R; [|lia].
      apply readback_cell in R. destruct R as [w [t [i [s [_ [Ht [_ [_ [_ [_ ->]]]]]]]]]]. cbn [pl_start].
      pose proof (reward_num_le I t (wf_disc I W) Ht). pose proof (reward_num_pos I t (wf_disc I W) Ht). lia. }
    destruct (rewarded_fb I y); lia. }
  apply G. auto.
Qed.
