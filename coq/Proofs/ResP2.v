(* More lemmas about Model/Res.v: dict well-formedness, extensionality of vectors, "a refused request
   changes nothing", "nothing allocated => available = total", exact recording of a successful
   allocation. *)
From Coq Require Import ZArith Bool List Lia ZifyBool Arith.
Import ListNotations.
From Verif Require Import Model.Val Model.Res Proofs.ResP.
Open Scope Z_scope.

Lemma NoDup_app_snoc : forall {A} (l : list A) x, NoDup l -> ~ In x l -> NoDup (l ++ [x]).
Proof.
  intros A. induction l as [|y l IH]; intros x H Hn; cbn [app].
  - constructor; [intros []|constructor].
  - inversion H as [|a b H1 H2]; subst. constructor.
    + intro Hin. apply in_app_or in Hin. destruct Hin as [Hin|[Hin|[]]]; [auto|]. subst. apply Hn. left. reflexivity.
    + apply IH; [exact H2|]. intro Hin. apply Hn. right. exact Hin.
Qed.

(* ---------- the allocation dict has unique keys ---------- *)
Definition Dict_ok (R : res) : Prop := NoDup (map fst (r_allocs R)) /\ NoDup (map fst (r_avail R)).

Lemma al_find_none_notin : forall c a, al_find c a = None <-> ~ In c (map fst a).
Proof.
  intros c. induction a as [|[c' l] a IH]; cbn [al_find map fst In]; [tauto|].
  destruct (comp_eqb c' c) eqn:E.
  - apply comp_eqb_eq in E. subst. split; [discriminate|intro H; exfalso; apply H; auto].
  - rewrite IH. split; [intros H [H1|H1]; [subst; rewrite comp_eqb_refl in E; discriminate|auto]|tauto].
Qed.
Lemma keys_al_set_in : forall c l a, al_find c a <> None -> map fst (al_set c l a) = map fst a.
Proof.
  intros c l. induction a as [|[c' l'] a IH]; cbn [al_find al_set map fst]; intro H; [congruence|].
  destruct (comp_eqb c' c) eqn:E; cbn [map fst]; [reflexivity|]. f_equal. apply IH. exact H.
Qed.
Lemma keys_al_set_notin : forall c l a, al_find c a = None -> map fst (al_set c l a) = map fst a ++ [c].
Proof.
  intros c l. induction a as [|[c' l'] a IH]; cbn [al_find al_set map fst app]; intro H; [reflexivity|].
  destruct (comp_eqb c' c) eqn:E; [discriminate|]. cbn [map fst]. f_equal. apply IH. exact H.
Qed.
Lemma nodup_al_set : forall c l a, NoDup (map fst a) -> NoDup (map fst (al_set c l a)).
Proof.
  intros c l a H. destruct (al_find c a) eqn:E.
  - rewrite keys_al_set_in; [exact H|congruence].
  - rewrite keys_al_set_notin by exact E. apply NoDup_app_snoc; [exact H|]. apply al_find_none_notin. exact E.
Qed.
Lemma in_al_remove : forall c x a, In x (map fst (al_remove c a)) -> In x (map fst a).
Proof.
  intros c x. induction a as [|[c' l'] a IH]; cbn [al_remove map fst In]; [tauto|].
  destruct (comp_eqb c' c); cbn [map fst In]; [auto|]. intros [H|H]; auto.
Qed.
Lemma nodup_al_remove : forall c a, NoDup (map fst a) -> NoDup (map fst (al_remove c a)).
Proof.
  intros c. induction a as [|[c' l'] a IH]; cbn [al_remove map fst]; intro H; [constructor|].
  inversion H as [|x y H1 H2]; subst. destruct (comp_eqb c' c); [exact H2|].
  cbn [map fst]. constructor; [|apply IH; exact H2]. intro Hin. apply H1. eapply in_al_remove; eauto.
Qed.
Lemma al_find_remove_same : forall c a, NoDup (map fst a) -> al_find c (al_remove c a) = None.
Proof.
  intros c. induction a as [|[c' l'] a IH]; cbn [al_remove map fst al_find]; intro H; [reflexivity|].
  inversion H as [|x y H1 H2]; subst. destruct (comp_eqb c' c) eqn:E.
  - apply comp_eqb_eq in E. subst. apply al_find_none_notin. exact H1.
  - cbn [al_find]. rewrite E. apply IH. exact H2.
Qed.
Lemma al_find_remove_other : forall c c' a, comp_eqb c c' = false -> al_find c' (al_remove c a) = al_find c' a.
Proof.
  intros c c'. induction a as [|[c0 l0] a IH]; cbn [al_remove al_find]; intro H; [reflexivity|].
  destruct (comp_eqb c0 c) eqn:E.
  - apply comp_eqb_eq in E. subst. rewrite H. reflexivity.
  - cbn [al_find]. rewrite IH by exact H. reflexivity.
Qed.
Lemma al_find_set_same : forall c l a, al_find c (al_set c l a) = Some l.
Proof.
  intros c l. induction a as [|[c' l'] a IH]; cbn [al_set al_find].
  - rewrite comp_eqb_refl. reflexivity.
  - destruct (comp_eqb c' c) eqn:E; cbn [al_find]; rewrite E; [reflexivity|exact IH].
Qed.
Lemma al_find_set_other : forall c c' l a, comp_eqb c c' = false -> al_find c' (al_set c l a) = al_find c' a.
Proof.
  intros c c' l. induction a as [|[c0 l0] a IH]; cbn [al_set al_find]; intro H.
  - rewrite H. reflexivity.
  - destruct (comp_eqb c0 c) eqn:E; cbn [al_find].
    + apply comp_eqb_eq in E. subst. rewrite H. reflexivity.
    + rewrite IH by exact H. reflexivity.
Qed.
Lemma al_find_append_other : forall c c' recs a, comp_eqb c c' = false -> al_find c' (al_append c recs a) = al_find c' a.
Proof. intros c c' recs a H. unfold al_append. destruct recs; [reflexivity|]. apply al_find_set_other. exact H. Qed.
Lemma al_get_append_same : forall c recs a, al_get c (al_append c recs a) = al_get c a ++ recs.
Proof.
  intros c recs a. unfold al_append. destruct recs as [|x recs]; [rewrite app_nil_r; reflexivity|].
  apply al_get_set.
Qed.
Lemma nodup_al_append : forall c recs a, NoDup (map fst a) -> NoDup (map fst (al_append c recs a)).
Proof. intros c recs a H. unfold al_append. destruct recs; [exact H|]. apply nodup_al_set. exact H. Qed.

Lemma comp_eqb_sym : forall a b, comp_eqb a b = comp_eqb b a.
Proof. intros [x|x|x] [y|y|y]; cbn; try reflexivity; apply Z.eqb_sym. Qed.

(* every operation keeps the dicts well-formed *)
Lemma dict_allocate : forall R r c q R' o, Dict_ok R -> r_allocate R r c q = (R', o) -> Dict_ok R'.
Proof.
  intros R r c q R' o [A B] H. unfold r_allocate in H.
  destruct (q <? 0); [inversion H; subst; split; assumption|].
  destruct (r_available R r <? q); [inversion H; subst; split; assumption|].
  destruct (alloc_loop r q (r_avail R)) as [v recs] eqn:El. inversion H; subst; clear H.
  destruct (alloc_loop_spec _ _ _ _ _ El) as (_ & K & _). split; cbn [r_allocs r_avail].
  - apply nodup_al_append. exact A.
  - rewrite K. exact B.
Qed.
Lemma dict_alloc_seq : forall req R c R' o, Dict_ok R -> alloc_seq R req c = (R', o) -> Dict_ok R'.
Proof.
  induction req as [|[r q] req IH]; intros R c R' o HI H; cbn [alloc_seq] in H.
  - inversion H; subst. exact HI.
  - destruct (r_allocate R r c q) as [R1 [u|e]] eqn:Ea.
    + eapply IH; [|exact H]. eapply dict_allocate; eauto.
    + inversion H; subst. eapply dict_allocate; eauto.
Qed.
Lemma dict_rollback : forall R c n had, (had = false -> n = 0%nat) -> Inv_ledger R -> Dict_ok R -> Dict_ok (r_rollback R c n had).
Proof.
  intros R c n had Hh HI [A B]. pose proof (inv_keys _ (inv_rollback R c n had Hh HI)) as K.
  split; [|rewrite K; unfold r_rollback; destruct (al_find c (r_allocs R)); cbn [r_total]; rewrite <- (inv_keys _ HI); exact B].
  unfold r_rollback. destruct (al_find c (r_allocs R)); [|exact A]. cbn [r_allocs].
  destruct had; [|apply nodup_al_remove]; apply nodup_al_set; exact A.
Qed.
Lemma nodup_al_register : forall c a, NoDup (map fst a) -> NoDup (map fst (al_register c a)).
Proof.
  intros c a H. unfold al_register. destruct (al_find c a) eqn:E; [exact H|]. rewrite map_app. cbn [map fst].
  apply NoDup_app_snoc; [exact H|]. apply al_find_none_notin. exact E.
Qed.
Lemma dict_allocate_multiple : forall R req c R' o,
  Inv_ledger R -> Dict_ok R -> r_allocate_multiple R req c = (R', o) -> Dict_ok R'.
Proof.
  intros R req c R' o HI HD H. unfold r_allocate_multiple in H.
  destruct (existsb _ req); [inversion H; subst; exact HD|].
  destruct (alloc_seq R req c) as [R1 [u|e]] eqn:Es; inversion H; subst.
  - destruct (dict_alloc_seq _ _ _ _ _ HD Es) as [A B]. split; cbn [r_allocs r_avail]; [apply nodup_al_register; exact A|exact B].
  - apply dict_rollback; [apply had_entry_n|eapply inv_alloc_seq; eauto|eapply dict_alloc_seq; eauto].
Qed.
Lemma dict_deallocate : forall R c R' o, Inv_ledger R -> Dict_ok R -> r_deallocate R c = (R', o) -> Dict_ok R'.
Proof.
  intros R c R' o HI [A B] H. pose proof (inv_deallocate _ _ _ _ HI H) as HI'.
  unfold r_deallocate in H. destruct (al_find c (r_allocs R)) as [l|] eqn:Ef; inversion H; subst; clear H; [|split; assumption].
  split; cbn [r_allocs]; [apply nodup_al_remove; exact A|].
  rewrite (inv_keys _ HI'). cbn [r_total]. rewrite <- (inv_keys _ HI). exact B.
Qed.
Lemma dict_get_allocated : forall R c, Dict_ok R -> Dict_ok (fst (r_get_allocated_resources R c)).
Proof.
  intros R c [A B]. unfold r_get_allocated_resources. destruct (al_find c (r_allocs R)) eqn:E; cbn [fst]; [split; assumption|].
  split; cbn [r_allocs r_avail]; [|exact B]. rewrite map_app. cbn [map fst].
  apply NoDup_app_snoc; [exact A|]. apply al_find_none_notin. exact E.
Qed.
Lemma dict_r_step : forall R o, Inv_ledger R -> Dict_ok R -> Dict_ok (fst (r_step R o)).
Proof.
  intros R [r c q|req c|c|c] HI HD; cbn [r_step].
  - destruct (r_allocate R r c q) as [R' x] eqn:E. eapply dict_allocate; eauto.
  - destruct (r_allocate_multiple R req c) as [R' x] eqn:E. eapply dict_allocate_multiple; eauto.
  - destruct (r_deallocate R c) as [R' x] eqn:E. eapply dict_deallocate; eauto.
  - cbn [fst]. apply dict_get_allocated. exact HD.
Qed.
Lemma dict_new : forall v, NoDup (map fst v) -> Dict_ok (r_new v).
Proof. intros v H. split; cbn; [constructor|exact H]. Qed.

(* ---------- extensionality of vectors with unique keys ---------- *)
Lemma sumP_eqb_notin : forall k v, ~ In k (map fst v) -> sumP (rkey_eqb k) v = 0.
Proof.
  intros k. induction v as [|[k' q] v IH]; cbn [sumP map fst In]; intro H; [reflexivity|].
  destruct (rkey_eqb k k') eqn:E.
  - apply rkey_eqb_eq in E. subst. exfalso. apply H. auto.
  - rewrite IH; [lia|tauto].
Qed.
Lemma vec_ext : forall v1 v2, map fst v1 = map fst v2 -> NoDup (map fst v1) ->
  (forall k, sumP (rkey_eqb k) v1 = sumP (rkey_eqb k) v2) -> v1 = v2.
Proof.
  induction v1 as [|[k q] v1 IH]; intros [|[k' q'] v2] K N S; cbn [map fst] in K; try discriminate; [reflexivity|].
  inversion K; subst. inversion N as [|x y N1 N2]; subst.
  pose proof (S k') as Sk. cbn [sumP] in Sk. rewrite rkey_eqb_refl in Sk.
  rewrite (sumP_eqb_notin k' v1 N1) in Sk. rewrite H1 in N1. rewrite (sumP_eqb_notin k' v2 N1) in Sk.
  f_equal; [f_equal; lia|]. apply IH; [exact H1|exact N2|].
  intro k. specialize (S k). cbn [sumP] in S. destruct (rkey_eqb k k') eqn:E; [|lia].
  apply rkey_eqb_eq in E. subst. rewrite H1 in N2.
  rewrite (sumP_eqb_notin k' v1), (sumP_eqb_notin k' v2); auto. rewrite H1. exact N1.
Qed.

Lemma allocs_sum_zero : forall P a, Forall (fun cl => snd cl = []) a -> allocs_sum P a = 0.
Proof. intros P. induction a as [|[c l] a IH]; intro H; cbn [allocs_sum snd]; [reflexivity|]. inversion H; subst. cbn [snd] in *. subst. rewrite IH by assumption. reflexivity. Qed.

(* nothing allocated => every cell is back at its total *)
Theorem nothing_allocated_full : forall R, Inv_ledger R -> Dict_ok R ->
  Forall (fun cl => snd cl = []) (r_allocs R) -> r_avail R = r_total R.
Proof.
  intros R [C K _] [_ N] H. apply vec_ext; [exact K|exact N|].
  intro k. specialize (C (rkey_eqb k)). rewrite (allocs_sum_zero _ _ H) in C. lia.
Qed.

(* ---------- a refused request changes nothing ---------- *)
Lemma alloc_seq_shape : forall req R c R' o, alloc_seq R req c = (R', o) ->
  exists recs, r_allocs R' = al_append c recs (r_allocs R) /\ r_total R' = r_total R /\
               (o = Ok tt \/ exists e, o = Err e).
Proof.
  induction req as [|[r q] req IH]; intros R c R' o H; cbn [alloc_seq] in H.
  - inversion H; subst. exists []. cbn. auto.
  - destruct (r_allocate R r c q) as [R1 [u|e]] eqn:Ea.
    + destruct (IH _ _ _ _ H) as (recs & E1 & E2 & E3).
      unfold r_allocate in Ea. destruct (q <? 0); [discriminate|]. destruct (r_available R r <? q); [discriminate|].
      destruct (alloc_loop r q (r_avail R)) as [v rs]. inversion Ea; subst; clear Ea. cbn [r_allocs r_total] in *.
      exists (rs ++ recs). split; [|split; assumption]. rewrite E1.
      unfold al_append. destruct rs as [|x rs]; [reflexivity|]. destruct recs as [|y recs].
      * rewrite app_nil_r. reflexivity.
      * cbn [app]. rewrite al_get_set.
        assert (Hs : forall c l1 l2 a, al_set c l2 (al_set c l1 a) = al_set c l2 a).
        { intros c0 l1 l2. induction a as [|[c' l'] a IHa]; cbn [al_set].
          - rewrite comp_eqb_refl. reflexivity.
          - destruct (comp_eqb c' c0) eqn:E; cbn [al_set]; rewrite E; [reflexivity|]. rewrite IHa. reflexivity. }
        rewrite Hs. rewrite <- app_assoc. reflexivity.
    + inversion H; subst. unfold r_allocate in Ea. destruct (q <? 0); [inversion Ea; subst; exists []; cbn; eauto|].
      destruct (r_available R r <? q).
      * inversion Ea; subst. exists []. cbn. eauto.
      * destruct (alloc_loop r q (r_avail R)). discriminate.
Qed.

Lemma al_remove_set_absent : forall c l a, al_find c a = None -> al_remove c (al_set c l a) = a.
Proof.
  intros c l. induction a as [|[c' l'] a IH]; cbn [al_find al_set al_remove]; intro H.
  - rewrite comp_eqb_refl. reflexivity.
  - destruct (comp_eqb c' c) eqn:E; [discriminate|]. cbn [al_remove]. rewrite E. rewrite IH by exact H. reflexivity.
Qed.
Lemma al_set_set : forall c l1 l2 a, al_set c l2 (al_set c l1 a) = al_set c l2 a.
Proof.
  intros c l1 l2. induction a as [|[c' l'] a IHa]; cbn [al_set].
  - rewrite comp_eqb_refl. reflexivity.
  - destruct (comp_eqb c' c) eqn:E; cbn [al_set]; rewrite E; [reflexivity|]. rewrite IHa. reflexivity.
Qed.
Lemma al_set_same : forall c l a, al_find c a = Some l -> al_set c l a = a.
Proof.
  intros c l. induction a as [|[c' l'] a IH]; cbn [al_find al_set]; intro H; [discriminate|].
  destruct (comp_eqb c' c) eqn:E; [inversion H; reflexivity|]. rewrite IH by exact H. reflexivity.
Qed.

(* a refused allocate_multiple changes NOTHING; since /repo be1cb9f (had_entry) this needs no side condition
   on empty entries: allocate_multiple_refusal keeps its older signature for the modules that use it *)
Theorem allocate_multiple_refusal_any : forall R req c R' e,
  Inv_ledger R -> Dict_ok R -> r_allocate_multiple R req c = (R', Err e) -> R' = R.
Proof.
  intros R req c R' e HI HD H. pose proof (inv_allocate_multiple _ _ _ _ _ HI H) as HI'.
  unfold r_allocate_multiple in H.
  destruct (existsb _ req); [inversion H; reflexivity|].
  destruct (alloc_seq R req c) as [R1 [u|e1]] eqn:Es; inversion H; subst; clear H.
  destruct (alloc_seq_shape _ _ _ _ _ Es) as (recs & Ea & Et & _).
  pose proof (inv_alloc_seq _ _ _ _ _ HI Es) as HI1.
  set (had := match al_find c (r_allocs R) with Some _ => true | None => false end) in *.
  assert (A : r_allocs (r_rollback R1 c (length (al_get c (r_allocs R))) had) = r_allocs R).
  { unfold r_rollback, had. destruct recs as [|x recs].
    - cbn [al_append] in Ea. rewrite Ea.
      destruct (al_find c (r_allocs R)) as [l|] eqn:Ef; [|congruence]. cbn [r_allocs].
      rewrite (al_find_get _ _ _ Ef), firstn_all. apply al_set_same. exact Ef.
    - rewrite Ea. unfold al_append. rewrite al_find_set_same. cbn [r_allocs]. rewrite al_set_set.
      destruct (al_find c (r_allocs R)) as [l|] eqn:Ef.
      + rewrite (al_find_get _ _ _ Ef). rewrite firstn_app, Nat.sub_diag, firstn_all. cbn [firstn]. rewrite app_nil_r.
        apply al_set_same. exact Ef.
      + unfold al_get. rewrite Ef. cbn [length firstn app]. apply al_remove_set_absent. exact Ef. }
  destruct R as [av tot al]. destruct (r_rollback R1 c _ had) as [av' tot' al'] eqn:Er. cbn [r_allocs] in A. subst al'.
  assert (T : tot' = tot).
  { assert (X : r_total (r_rollback R1 c (length (al_get c al)) had) = r_total R1)
      by (unfold r_rollback; destruct (al_find c (r_allocs R1)); reflexivity).
    cbn [r_allocs] in Er. rewrite Er in X. cbn [r_total] in X, Et. congruence. }
  subst tot'. f_equal.
  destruct HI as [C K _]. destruct HI' as [C' K' _]. destruct HD as [_ N]. cbn [r_avail r_total r_allocs] in *.
  apply vec_ext; [congruence| |].
  - rewrite K'. rewrite <- K. exact N.
  - intro k. specialize (C (rkey_eqb k)). specialize (C' (rkey_eqb k)). lia.
Qed.
Theorem allocate_multiple_refusal : forall R req c R' e,
  Inv_ledger R -> Dict_ok R -> al_find c (r_allocs R) <> Some [] ->
  r_allocate_multiple R req c = (R', Err e) -> R' = R.
Proof. intros R req c R' e HI HD _. apply allocate_multiple_refusal_any; assumption. Qed.

(* ---------- a successful allocation records exactly the requested quantity ---------- *)
Lemma alloc_loop_exact : forall r v rem v' recs,
  alloc_loop r rem v = (v', recs) -> nonneg_vec v -> 0 <= rem <= vec_quantity v r ->
  sumP (fun _ => true) recs = rem /\ Forall (fun kq => res_match (fst kq) r = true) recs.
Proof.
  intros r. unfold vec_quantity. induction v as [|[k q] v IH]; intros rem v' recs H Hn Hr; cbn [alloc_loop] in H; cbn [sumP] in Hr.
  - inversion H; subst. cbn. split; [lia|constructor].
  - inversion Hn as [|x l H1 H2]; subst. cbn [snd] in H1.
    destruct (res_match k r) eqn:Em.
    + destruct (rem <=? q) eqn:E1.
      * inversion H; subst. cbn [sumP]. split; [lia|]. constructor; [exact Em|constructor].
      * destruct (rem - q =? 0) eqn:E2; [lia|].
        destruct (alloc_loop r (rem - q) v) as [v'' rs] eqn:Er. inversion H; subst.
        destruct (IH _ _ _ Er H2) as [S F]; [lia|].
        destruct (0 <? q) eqn:E3; cbn [app sumP]; split; try lia; auto.
    + destruct (rem =? 0) eqn:E0.
      * inversion H; subst. cbn. split; [lia|constructor].
      * destruct (alloc_loop r rem v) as [v'' rs] eqn:Er. inversion H; subst.
        apply (IH _ _ _ Er H2). lia.
Qed.

Definition name_is (n : Z) (k : rkey) : bool := fst k =? n.
Lemma sumP_name_of_match : forall n r recs, Forall (fun kq => res_match (fst kq) r = true) recs ->
  sumP (name_is n) recs = if fst r =? n then sumP (fun _ => true) recs else 0.
Proof.
  intros n r. induction recs as [|[k q] recs IH]; intro H; cbn [sumP]; [destruct (fst r =? n); reflexivity|].
  inversion H as [|x l H1 H2]; subst. cbn [fst] in H1. rewrite IH by exact H2.
  unfold res_match in H1. apply andb_true_iff in H1. destruct H1 as [H1 _]. apply Z.eqb_eq in H1.
  unfold name_is. rewrite H1. destruct (fst r =? n); lia.
Qed.

(* the records appended by a successful allocate_multiple sum, per resource name, to the request *)
Lemma alloc_seq_exact : forall req R c R', Nonneg R -> nonneg_vec req -> alloc_seq R req c = (R', Ok tt) ->
  exists recs, r_allocs R' = al_append c recs (r_allocs R) /\
               forall n, sumP (name_is n) recs = sumP (name_is n) req.
Proof.
  induction req as [|[r q] req IH]; intros R c R' HN Hq H; cbn [alloc_seq] in H.
  - inversion H; subst. exists []. split; reflexivity.
  - inversion Hq as [|x l Hq1 Hq2]; subst. cbn [snd] in Hq1.
    destruct (r_allocate R r c q) as [R1 [u|e]] eqn:Ea; [|discriminate].
    pose proof (nonneg_allocate _ _ _ _ _ _ Hq1 HN Ea) as HN1.
    destruct (IH _ _ _ HN1 Hq2 H) as (recs & E1 & E2).
    unfold r_allocate in Ea. destruct (q <? 0); [discriminate|]. destruct (r_available R r <? q) eqn:Ev; [discriminate|].
    destruct (alloc_loop r q (r_avail R)) as [v rs] eqn:El. inversion Ea; subst; clear Ea. cbn [r_allocs] in *.
    destruct (alloc_loop_exact _ _ _ _ _ El (nn_avail _ HN)) as [S F]; [unfold r_available in Ev; lia|].
    exists (rs ++ recs). split.
    + rewrite E1. unfold al_append. destruct rs as [|y rs]; [reflexivity|]. destruct recs as [|z recs].
      * rewrite app_nil_r. reflexivity.
      * rewrite al_get_set, al_set_set, <- app_assoc. reflexivity.
    + intro n. rewrite sumP_app, E2, (sumP_name_of_match n r rs F), S. cbn [sumP]. unfold name_is at 2. cbn [fst].
      destruct (fst r =? n); lia.
Qed.
(* a request that is served has no negative quantity (allocate refuses them) *)
Lemma alloc_seq_ok_nonneg : forall req R c R', alloc_seq R req c = (R', Ok tt) -> nonneg_vec req.
Proof.
  induction req as [|[r q] req IH]; intros R c R' H; [constructor|]. cbn [alloc_seq] in H.
  destruct (r_allocate R r c q) as [R1 [u|e]] eqn:Ea; [|discriminate].
  constructor; [|eapply IH; eauto]. cbn [snd]. unfold r_allocate in Ea. destruct (q <? 0) eqn:E; [discriminate|lia].
Qed.
Lemma allocate_multiple_ok_nonneg : forall R req c R', r_allocate_multiple R req c = (R', Ok tt) -> nonneg_vec req.
Proof.
  intros R req c R' H. unfold r_allocate_multiple in H. destruct (existsb _ req); [discriminate|].
  destruct (alloc_seq R req c) as [R1 [[]|e]] eqn:Es; [|discriminate]. eapply alloc_seq_ok_nonneg; eauto.
Qed.
(* NOTE (interface change, /repo be1cb9f): the allocation dict of the result is the appended records
   followed by the registration of the computation (an empty entry when nothing was recorded) *)
Lemma allocate_multiple_exact : forall R req c R', Nonneg R -> nonneg_vec req ->
  r_allocate_multiple R req c = (R', Ok tt) ->
  exists recs, r_allocs R' = al_register c (al_append c recs (r_allocs R)) /\
               forall n, sumP (name_is n) recs = sumP (name_is n) req.
Proof.
  intros R req c R' HN Hq H. unfold r_allocate_multiple in H.
  destruct (existsb _ req); [discriminate|].
  destruct (alloc_seq R req c) as [R1 [[]|e]] eqn:Es; inversion H; subst.
  destruct (alloc_seq_exact _ _ _ _ HN Hq Es) as (recs & E1 & E2). exists recs. cbn [r_allocs]. rewrite E1. auto.
Qed.

(* deepcopy: the initial state *)
Lemma deepcopy_initial : forall v ops, r_deepcopy (r_run ops (r_new v)) = r_new v.
Proof. intros v ops. unfold r_deepcopy. destruct (ledger_conservation v ops) as (_ & _ & T). rewrite T. reflexivity. Qed.
