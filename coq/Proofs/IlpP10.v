(* C10 for the ILP planner: every satisfying assignment reads back as a complete decision list that
   names existing workers / strategies, starts no task before now + 1 or its release, and never
   exceeds any worker's capacity at any instant (closed intervals, running tasks charged their
   full runtime) — from the pairwise-overlap indicator rows and the per-task capacity rows. *)
From Coq Require Import ZArith Bool List Lia ZifyBool.
Import ListNotations.
From Verif Require Import Model.Val Gen.Src_Ilp Model.IlpModel Proofs.IlpP Proofs.IlpP11.
Open Scope Z_scope.

Definition req_nonneg (I : instance) : Prop :=
  forall t s rq, In t (i_tasks I) -> In s (t_strats t) -> In rq (s_res s) -> 0 <= snd rq.

Lemma qty_nonneg : forall l r, (forall rq, In rq l -> 0 <= snd rq) -> 0 <= qty l r.
Proof. intros l r H. unfold qty. apply sum_list_nonneg. intros p Hp. destruct (fst p =? r); [apply H, Hp|lia]. Qed.

(* ------------------------------------------------------------------ one slot *)
Lemma sum_zero_each : forall A (f : A -> Z) l, (forall x, In x l -> 0 <= f x) -> sum_list f l <= 0 -> forall x, In x l -> f x = 0.
Proof.
  intros A f l H0 Hs x Hx. pose proof (sum_list_member_le _ f l x H0 Hx). specialize (H0 x Hx). lia.
Qed.
Lemma single_slot : forall A (f g : A -> Z) l p0, (forall p, In p l -> 0 <= f p <= 1) -> sum_list f l <= 1 ->
  In p0 l -> f p0 = 1 -> sum_list (fun p => g p * f p) l = g p0.
Proof.
  induction l as [|x l IH]; intros p0 Hb Hs Hin H1; [contradiction|]. rewrite sum_list_cons in *. cbn beta in *.
  assert (Hx : 0 <= f x <= 1) by (apply Hb; left; reflexivity).
  assert (Hl : 0 <= sum_list f l) by (apply sum_list_nonneg; intros y Hy; apply Hb; right; exact Hy).
  destruct Hin as [->|Hin].
  - rewrite H1 in *. rewrite (sum_list_zero _ (fun p => g p * f p) l); [lia|].
    intros y Hy. rewrite (sum_zero_each _ f l (fun z Hz => proj1 (Hb z (or_intror Hz))) ltac:(lia) y Hy). lia.
  - assert (f p0 <= sum_list f l) by (apply sum_list_member_le; [intros z Hz; apply Hb; right; exact Hz|exact Hin]).
    rewrite (IH p0 (fun z Hz => Hb z (or_intror Hz)) ltac:(lia) Hin H1). assert (E : f x = 0) by lia. rewrite E. lia.
Qed.
Lemma sum_eq1_exists : forall A (f : A -> Z) l, (forall p, In p l -> 0 <= f p <= 1) -> sum_list f l >= 1 ->
  exists p, In p l /\ f p = 1.
Proof.
  induction l as [|x l IH]; intros Hb Hs; [rewrite sum_list_nil in Hs; lia|]. rewrite sum_list_cons in Hs.
  assert (Hx : 0 <= f x <= 1) by (apply Hb; left; reflexivity).
  destruct (Z.eq_dec (f x) 1) as [E|E]; [exists x; split; [left; reflexivity|exact E]|].
  destruct (IH (fun z Hz => Hb z (or_intror Hz)) ltac:(lia)) as (p & Hp & E1). exists p. split; [right; exact Hp|exact E1].
Qed.

Section Cap.
Variable I : instance.
Variable a : assignment.
Hypothesis Hsat : sat (gen_ilp I) a.
Hypothesis Hn : nodup_ids I.
Hypothesis Hrt : rt_nonneg I.
Hypothesis Hreq : req_nonneg I.

Lemma on_binary : forall t sl, In t (i_tasks I) -> In sl (pairs I t) -> 0 <= on a t sl <= 1.
Proof. intros. unfold on. apply (pterm_binary I a Hsat); assumption. Qed.
Lemma on_sum_le1 : forall t, In t (i_tasks I) -> sum_list (on a t) (pairs I t) <= 1.
Proof. intros t Ht. apply (placed_le1 I a Hsat t Ht). Qed.
Lemma slot_rt_nonneg : forall t sl, In t (i_tasks I) -> In sl (pairs I t) -> 0 <= slot_rt sl.
Proof.
  intros t sl Ht Hsl. unfold slot_rt. apply pairs_inv in Hsl. destruct Hsl as [_ Hs]. destruct sl as [x [ki sti]]. cbn [snd] in *.
  apply zenum_snd_In in Hs. eapply Hrt; eassumption.
Qed.
(* the `remaining time expression` of a task equals the runtime of the slot it occupies *)
Lemma rem_of_slot : forall t sl, In t (i_tasks I) -> In sl (pairs I t) -> on a t sl = 1 ->
  eval_lin a (rem_lin I t) = slot_rt sl.
Proof.
  intros t sl Ht Hsl H1. unfold rem_lin. rewrite eval_placed_lin.
  apply (single_slot _ (on a t) slot_rt (pairs I t) sl); [intros; apply on_binary; assumption|apply on_sum_le1; exact Ht|exact Hsl|exact H1].
Qed.
Lemma rem_nonneg : forall t, In t (i_tasks I) -> 0 <= eval_lin a (rem_lin I t).
Proof.
  intros t Ht. unfold rem_lin. rewrite eval_placed_lin. apply sum_list_nonneg. intros p Hp.
  pose proof (on_binary t p Ht Hp). pose proof (slot_rt_nonneg t p Ht Hp). unfold on in *. nia.
Qed.

(* ---------------------------------------------------------------- the overlap variable of an independent pair *)
Lemma in_opairs : forall t1 t2, In t1 (i_tasks I) -> In t2 (i_tasks I) -> t_id t1 <> t_id t2 -> In (t1, t2) (opairs I).
Proof.
  intros t1 t2 H1 H2 Hne. unfold opairs. apply filter_In. split; [apply in_prod; assumption|]. cbn [fst snd]. lia.
Qed.
Lemma overlap_binary : forall t1 t2, In (t1, t2) (opairs I) -> 0 <= a (VOverlap (t_id t1) (t_id t2)) <= 1.
Proof.
  intros t1 t2 Hp.
  assert (Hd : bound_ok a (mkV (VOverlap (t_id t1) (t_id t2)) VBin (Some 0) (Some 1))).
  { apply (sat_decl I a Hsat). cbn [gen_ilp c_vars]. apply in_or_app; right. apply in_or_app; right. apply in_or_app; left.
    apply in_map_iff. exists (t1, t2). split; [reflexivity|exact Hp]. }
  destruct Hd as [Hl Hu]. cbn in Hl, Hu. lia.
Qed.
Lemma ov_expr_eval : forall c1 cr1 c2 cr2 t1 t2,
  eval_lin a (ov_expr I (c1, cr1, c2, cr2) t1 t2) =
  c1 * st_of I a t1 + cr1 * eval_lin a (rem_lin I t1) + c2 * st_of I a t2 + cr2 * eval_lin a (rem_lin I t2).
Proof. intros. unfold ov_expr, st_of. rewrite !eval_lin_plus, !eval_lin_term, !eval_lin_scale. lia. Qed.

Lemma independent_overlap_one : forall t1 t2 sl1 sl2 tau,
  In t1 (i_tasks I) -> In t2 (i_tasks I) -> t_id t1 <> t_id t2 -> dependent I t1 t2 = false ->
  In sl1 (pairs I t1) -> In sl2 (pairs I t2) -> active_a I a t1 sl1 tau = true -> active_a I a t2 sl2 tau = true ->
  a (VOverlap (t_id t1) (t_id t2)) = 1.
Proof.
  intros t1 t2 sl1 sl2 tau H1 H2 Hne Hdep Hs1 Hs2 A1 A2.
  pose proof (in_opairs t1 t2 H1 H2 Hne) as Hp.
  unfold active_a in A1, A2.
  assert (O1 : on a t1 sl1 = 1) by lia. assert (O2 : on a t2 sl2 = 1) by lia.
  pose proof (rem_of_slot t1 sl1 H1 Hs1 O1) as R1. pose proof (rem_of_slot t2 sl2 H2 Hs2 O2) as R2.
  (* declarations *)
  assert (Hdecl : forall d, In d (pair_decls I (t1, t2)) -> bound_ok a d).
  { intros d Hd. apply (sat_decl I a Hsat). cbn [gen_ilp c_vars]. do 3 (apply in_or_app; right). apply in_or_app; left.
    apply in_flat_map. exists (t1, t2). auto. }
  unfold pair_decls in Hdecl. cbn [fst snd] in Hdecl. rewrite Hdep in Hdecl.
  pose proof (Hdecl _ (or_introl eq_refl)) as [Ba1 Ba2]. pose proof (Hdecl _ (or_intror (or_introl eq_refl))) as [Bb1 Bb2].
  cbn in Ba1, Ba2, Bb1, Bb2.
  (* the sum row *)
  assert (Hsum : lrow_ok a (let '(ca, cb, co, s, r) := ov_sum in
            mkL [35; t_id t1; t_id t2] ([(ca, VAfter (t_id t1) (t_id t2)); (cb, VBefore (t_id t1) (t_id t2)); (co, VOverlap (t_id t1) (t_id t2))], 0) s r)).
  { apply (sat_lrow I a Hsat). cbn [gen_ilp c_lin]. do 2 (apply in_or_app; right). apply in_or_app; left.
    apply in_flat_map. exists (t1, t2). split; [exact Hp|]. unfold pair_lrows. cbn [fst snd]. rewrite Hdep. left; reflexivity. }
  destruct bridge_overlap as (B1 & B2 & B3 & B4 & B5 & _). rewrite B5 in Hsum.
  unfold lrow_ok, eval_lin, eval_terms in Hsum. cbn [l_sense l_lin l_rhs fst snd holds] in Hsum.
  rewrite !sum_list_cons, sum_list_nil in Hsum. cbn [fst snd] in Hsum.
  (* the indicator rows *)
  assert (Hind : forall r, In r (pair_irows I (t1, t2)) -> irow_ok a r).
  { intros r Hr. apply (sat_irow I a Hsat). cbn [gen_ilp c_ind]. apply in_or_app; right. apply in_flat_map. exists (t1, t2). auto. }
  unfold pair_irows in Hind. cbn [fst snd] in Hind. rewrite Hdep in Hind.
  pose proof (Hind _ (or_intror (or_introl eq_refl))) as Iat.
  pose proof (Hind _ (or_intror (or_intror (or_intror (or_introl eq_refl))))) as Ibt.
  unfold ov_ind in Iat, Ibt. rewrite B2 in Iat. rewrite B4 in Ibt. unfold irow_ok in Iat, Ibt.
  cbn [n_bvar n_bval n_sense n_lin n_rhs holds] in Iat, Ibt. rewrite ov_expr_eval in Iat, Ibt.
  pose proof (slot_rt_nonneg t1 sl1 H1 Hs1). pose proof (slot_rt_nonneg t2 sl2 H2 Hs2).
  assert (a (VAfter (t_id t1) (t_id t2)) = 0).
  { destruct (Z.eq_dec (a (VAfter (t_id t1) (t_id t2))) 1) as [E|E]; [specialize (Iat E); lia|lia]. }
  assert (a (VBefore (t_id t1) (t_id t2)) = 0).
  { destruct (Z.eq_dec (a (VBefore (t_id t1) (t_id t2))) 1) as [E|E]; [specialize (Ibt E); lia|lia]. }
  lia.
Qed.

(* ---------------------------------------------------------------- dependent tasks never run at the same instant *)
Lemma placed_slot_exists : forall t, In t (i_tasks I) -> sum_list (on a t) (pairs I t) >= 1 ->
  exists sl, In sl (pairs I t) /\ on a t sl = 1.
Proof. intros t Ht Hs. apply sum_eq1_exists; [intros; apply on_binary; assumption|exact Hs]. Qed.

Lemma linked_order : forall x y, linked I x y -> sum_list (on a y) (pairs I y) >= 1 ->
  sum_list (on a x) (pairs I x) >= 1 /\ st_of I a y >= st_of I a x + eval_lin a (rem_lin I x) + 1.
Proof.
  assert (Step : forall x y, In y (nonrunning I) -> In x (decided_parents I y) -> sum_list (on a y) (pairs I y) >= 1 ->
            sum_list (on a x) (pairs I x) >= 1 /\ st_of I a y >= st_of I a x + eval_lin a (rem_lin I x) + 1).
  { intros x y Hy Hx Hpl.
    assert (Hxin : In x (i_tasks I)) by (unfold decided_parents in Hx; apply filter_In in Hx; tauto).
    pose proof (parents_all_placed I a Hsat y Hn Hy Hpl x Hx) as Hx1. fold (on a x) in Hx1. split; [lia|].
    destruct (placed_slot_exists x Hxin ltac:(lia)) as (sl & Hsl & O).
    pose proof (prec_general I a Hsat y x sl Hy Hx Hsl) as Hrow. fold (on a x sl) in Hrow. rewrite O in Hrow.
    rewrite (rem_of_slot x sl Hxin Hsl O). unfold st_of at 1. unfold startv.
    apply in_nonrunning in Hy. destruct Hy as [_ Ry]. rewrite Ry. cbn [eval_pterm]. unfold st_of. lia. }
  intros x y L. induction L as [x y Hy Hx|x z y L IH Hy Hz]; intros Hpl.
  - apply Step; assumption.
  - destruct (Step z y Hy Hz Hpl) as [Hz1 Hzo]. destruct (IH Hz1) as [Hx1 Hxo]. split; [exact Hx1|].
    assert (Hzin : In z (i_tasks I)) by (unfold decided_parents in Hz; apply filter_In in Hz; tauto).
    pose proof (rem_nonneg z Hzin). lia.
Qed.

Lemma dependent_never_together : forall t1 t2 sl1 sl2 tau, dep_linked I ->
  In t1 (i_tasks I) -> In t2 (i_tasks I) -> dependent I t1 t2 = true ->
  In sl1 (pairs I t1) -> In sl2 (pairs I t2) -> active_a I a t1 sl1 tau = true -> active_a I a t2 sl2 tau = true -> False.
Proof.
  intros t1 t2 sl1 sl2 tau HL H1 H2 Hdep Hs1 Hs2 A1 A2. unfold active_a in A1, A2.
  assert (O1 : on a t1 sl1 = 1) by lia. assert (O2 : on a t2 sl2 = 1) by lia.
  pose proof (rem_of_slot t1 sl1 H1 Hs1 O1) as R1. pose proof (rem_of_slot t2 sl2 H2 Hs2 O2) as R2.
  assert (P1 : sum_list (on a t1) (pairs I t1) >= 1).
  { pose proof (sum_list_member_le _ (on a t1) (pairs I t1) sl1 (fun p Hp => proj1 (on_binary t1 p H1 Hp)) Hs1). lia. }
  assert (P2 : sum_list (on a t2) (pairs I t2) >= 1).
  { pose proof (sum_list_member_le _ (on a t2) (pairs I t2) sl2 (fun p Hp => proj1 (on_binary t2 p H2 Hp)) Hs2). lia. }
  destruct (HL t1 t2 H1 H2 Hdep) as [L|L].
  - destruct (linked_order t1 t2 L P2) as [_ Ho]. lia.
  - destruct (linked_order t2 t1 L P1) as [_ Ho]. lia.
Qed.

(* ---------------------------------------------------------------- evaluation of a capacity row *)
Lemma eval_quad_app : forall q1 q2, eval_quad a (q1 ++ q2) = eval_quad a q1 + eval_quad a q2.
Proof. intros. unfold eval_quad. apply sum_list_app. Qed.
Definition load (t : task) (w : Z * worker) (r : Z) : Z :=
  sum_list (fun ks => req (snd ks) r * on a t (w, ks)) (senum t).
Lemma own_lin_eval : forall t w r, eval_lin a (own_lin t w r) = load t w r.
Proof.
  intros t w r. unfold own_lin, load. rewrite eval_lin_sum. apply sum_list_ext. intros ks _.
  destruct (req (snd ks) r =? 0) eqn:E; [rewrite eval_lin_zero; lia|]. rewrite eval_lin_term. reflexivity.
Qed.
Lemma other_terms_eval : forall t1 t2 w r,
  eval_lin a (fst (other_terms t1 t2 w r)) + eval_quad a (snd (other_terms t1 t2 w r)) =
  a (VOverlap (t_id t1) (t_id t2)) * load t2 w r.
Proof.
  intros t1 t2 w r. unfold other_terms, load. induction (senum t2) as [|ks l IH]; cbn [fold_right].
  - rewrite sum_list_nil. cbn. lia.
  - rewrite sum_list_cons. set (acc := fold_right _ _ l) in *. clearbody acc.
    set (Sm := sum_list (fun ks0 : Z * strat => req (snd ks0) r * on a t2 (w, ks0)) l) in *. clearbody Sm. unfold quad in *.
    destruct (req (snd ks) r =? 0) eqn:E; [rewrite IH; lia|].
    unfold on. destruct (pv t2 (w, ks)) as [z|x]; cbn [fst snd eval_pterm].
    + rewrite eval_lin_plus. unfold eval_lin at 1, eval_terms. cbn [fst snd]. rewrite sum_list_cons, sum_list_nil. cbn [fst snd].
      rewrite Z.mul_add_distr_l, <- IH. lia.
    + unfold eval_quad at 1. rewrite sum_list_cons. fold (eval_quad a (snd acc)). cbn [fst snd]. rewrite Z.mul_add_distr_l, <- IH. lia.
Qed.
Lemma off_worker_load : forall t w r, off_worker t w = true -> load t w r = 0.
Proof.
  intros t w r H. unfold off_worker in H. apply andb_true_iff in H. destruct H as [_ H]. rewrite forallb_forall in H.
  unfold load. apply sum_list_zero. intros ks Hks. specialize (H ks Hks). unfold on.
  destruct (pv t (w, ks)) as [[| |]|]; try discriminate. cbn [eval_pterm]. lia.
Qed.

Lemma cap_row_holds : forall t1 w rq, In t1 (i_tasks I) -> In w (wenum I) -> In rq (w_res (snd w)) -> off_worker t1 w = false ->
  load t1 w (fst rq) + sum_list (fun t2 => a (VOverlap (t_id t1) (t_id t2)) * load t2 w (fst rq)) (others I t1) <= snd rq.
Proof.
  intros t1 w rq H1 Hw Hrq Hoff.
  assert (Hr : qrow_ok a (cap_row I t1 w rq)).
  { apply (sat_qrow I a Hsat). cbn [gen_ilp c_quad]. apply in_flat_map. exists t1. split; [exact H1|].
    unfold cap_rows. apply in_flat_map. exists w. split; [exact Hw|]. rewrite Hoff. apply in_map. exact Hrq. }
  unfold qrow_ok, cap_row in Hr. cbn [q_sense q_lin q_quad q_rhs] in Hr.
  destruct bridge_overlap as (_ & _ & _ & _ & _ & B6 & _). rewrite B6 in Hr. cbn [holds] in Hr.
  rewrite eval_lin_plus, own_lin_eval, eval_lin_sum in Hr.
  set (L := filter (fun t2 => negb (off_worker t2 w)) (others I t1)) in *.
  assert (E : sum_list (fun x => eval_lin a (fst x)) (map (fun t2 => other_terms t1 t2 w (fst rq)) L)
              + eval_quad a (flat_map snd (map (fun t2 => other_terms t1 t2 w (fst rq)) L))
              = sum_list (fun t2 => a (VOverlap (t_id t1) (t_id t2)) * load t2 w (fst rq)) L).
  { clear Hr. induction L as [|t2 L IH]; [reflexivity|]. cbn [map flat_map]. rewrite !sum_list_cons, eval_quad_app.
    rewrite <- IH, <- other_terms_eval. cbn beta. unfold quad in *. lia. }
  assert (E2 : sum_list (fun t2 => a (VOverlap (t_id t1) (t_id t2)) * load t2 w (fst rq)) L
               = sum_list (fun t2 => a (VOverlap (t_id t1) (t_id t2)) * load t2 w (fst rq)) (others I t1)).
  { unfold L. rewrite sum_list_filter. apply sum_list_ext. intros t2 _. destruct (off_worker t2 w) eqn:O; cbn [negb]; [|reflexivity].
    rewrite (off_worker_load t2 w (fst rq) O). lia. }
  lia.
Qed.

(* ---------------------------------------------------------------- splitting a sum over the tasks at one task *)
Lemma sum_split_at : forall (f : task -> Z) (l : list task) t1, NoDup (map t_id l) -> In t1 l ->
  sum_list f l = f t1 + sum_list f (filter (fun t2 => negb (t_id t1 =? t_id t2)) l).
Proof.
  induction l as [|x l IH]; intros t1 Hnd Hin; [contradiction|]. cbn [map] in Hnd. inversion Hnd as [|? ? Hx Hnd']; subst.
  cbn [filter]. rewrite sum_list_cons. destruct Hin as [->|Hin].
  - rewrite Z.eqb_refl. cbn [negb]. f_equal. rewrite sum_list_filter. apply sum_list_ext. intros y Hy.
    destruct (t_id t1 =? t_id y) eqn:E; [|reflexivity]. exfalso. apply Hx. apply in_map_iff. exists y. split; [lia|exact Hy].
  - destruct (t_id t1 =? t_id x) eqn:E.
    + exfalso. apply Hx. apply in_map_iff. exists t1. split; [lia|exact Hin].
    + cbn [negb]. rewrite sum_list_cons, (IH t1 Hnd' Hin). lia.
Qed.

(* usage of one task at one instant *)
Definition use_of (t : task) (w : Z * worker) (r tau : Z) : Z :=
  sum_list (fun ks => if active_a I a t (w, ks) tau then req (snd ks) r else 0) (senum t).
Lemma req_ge0 : forall t ks r, In t (i_tasks I) -> In ks (senum t) -> 0 <= req (snd ks) r.
Proof.
  intros t ks r Ht Hks. unfold req. apply qty_nonneg. intros rq Hrq. destruct ks as [k s]. cbn [snd] in *.
  apply zenum_snd_In in Hks. eapply Hreq; eassumption.
Qed.
Lemma use_le_load : forall t w r tau, In t (i_tasks I) -> In w (wenum I) -> use_of t w r tau <= load t w r.
Proof.
  intros t w r tau Ht Hw. unfold use_of, load. apply sum_list_le. intros ks Hks.
  pose proof (req_ge0 t ks r Ht Hks). pose proof (on_binary t (w, ks) Ht (in_prod _ _ _ _ Hw Hks)).
  unfold active_a. destruct (on a t (w, ks) =? 1) eqn:E; cbn [andb].
  - destruct ((st_of I a t <=? tau) && (tau <=? st_of I a t + slot_rt (w, ks))); nia.
  - nia.
Qed.
Lemma use_nonneg : forall t w r tau, In t (i_tasks I) -> 0 <= use_of t w r tau.
Proof.
  intros t w r tau Ht. unfold use_of. apply sum_list_nonneg. intros ks Hks. pose proof (req_ge0 t ks r Ht Hks).
  destruct (active_a I a t (w, ks) tau); lia.
Qed.
Lemma use_pos_active : forall t w r tau, use_of t w r tau <> 0 -> exists ks, In ks (senum t) /\ active_a I a t (w, ks) tau = true.
Proof.
  intros t w r tau H. unfold use_of in H.
  destruct (existsb (fun ks => active_a I a t (w, ks) tau) (senum t)) eqn:E.
  - apply existsb_exists in E. exact E.
  - exfalso. apply H. apply sum_list_zero. intros ks Hks.
    destruct (active_a I a t (w, ks) tau) eqn:A; [|reflexivity].
    assert (existsb (fun ks => active_a I a t (w, ks) tau) (senum t) = true) by (apply existsb_exists; exists ks; auto). congruence.
Qed.

Theorem capacity_never_exceeded : dep_linked I ->
  forall w rq tau, In w (wenum I) -> In rq (w_res (snd w)) -> 0 <= snd rq ->
  usage_a I a w (fst rq) tau <= snd rq.
Proof.
  intros HL w rq tau Hw Hrq Hq. unfold usage_a.
  change (sum_list (fun t => use_of t w (fst rq) tau) (i_tasks I) <= snd rq).
  destruct (existsb (fun t => negb (use_of t w (fst rq) tau =? 0)) (i_tasks I)) eqn:Ex.
  2:{ rewrite sum_list_zero; [exact Hq|]. intros t Ht.
      destruct (use_of t w (fst rq) tau =? 0) eqn:E; [lia|]. exfalso.
      assert (existsb (fun t => negb (use_of t w (fst rq) tau =? 0)) (i_tasks I) = true) by (apply existsb_exists; exists t; split; [exact Ht|lia]).
      congruence. }
  apply existsb_exists in Ex. destruct Ex as (t1 & H1 & U1).
  destruct (use_pos_active t1 w (fst rq) tau ltac:(lia)) as (ks1 & Hks1 & A1).
  assert (Hs1 : In (w, ks1) (pairs I t1)) by (apply in_prod; assumption).
  assert (Hoff : off_worker t1 w = false).
  { destruct (off_worker t1 w) eqn:O; [|reflexivity]. exfalso. unfold off_worker in O. apply andb_true_iff in O. destruct O as [_ O].
    rewrite forallb_forall in O. specialize (O ks1 Hks1). unfold active_a, on in A1.
    destruct (pv t1 (w, ks1)) as [[| |]|]; try discriminate; cbn [eval_pterm] in A1; lia. }
  pose proof (cap_row_holds t1 w rq H1 Hw Hrq Hoff) as Hrow.
  rewrite (sum_split_at (fun t => use_of t w (fst rq) tau) (i_tasks I) t1 Hn H1). fold (others I t1).
  pose proof (use_le_load t1 w (fst rq) tau H1 Hw) as Hown.
  assert (Hoth : sum_list (fun t => use_of t w (fst rq) tau) (others I t1)
                 <= sum_list (fun t2 => a (VOverlap (t_id t1) (t_id t2)) * load t2 w (fst rq)) (others I t1)).
  { apply sum_list_le. intros t2 Ht2. unfold others in Ht2. apply filter_In in Ht2. destruct Ht2 as [H2 Hne].
    assert (Hne' : t_id t1 <> t_id t2) by lia.
    pose proof (overlap_binary t1 t2 (in_opairs t1 t2 H1 H2 Hne')) as Hob.
    pose proof (use_le_load t2 w (fst rq) tau H2 Hw) as Hul. pose proof (use_nonneg t2 w (fst rq) tau H2) as Hu0.
    destruct (Z.eq_dec (use_of t2 w (fst rq) tau) 0) as [Z0|NZ]; [nia|].
    destruct (use_pos_active t2 w (fst rq) tau NZ) as (ks2 & Hks2 & A2).
    assert (Hs2 : In (w, ks2) (pairs I t2)) by (apply in_prod; assumption).
    destruct (dependent I t1 t2) eqn:D.
    - exfalso. exact (dependent_never_together t1 t2 _ _ tau HL H1 H2 D Hs1 Hs2 A1 A2).
    - rewrite (independent_overlap_one t1 t2 _ _ tau H1 H2 Hne' D Hs1 Hs2 A1 A2). lia. }
  lia.
Qed.
End Cap.

(* ------------------------------------------------------------------ the other clauses of C10 *)
Lemma C10_one_decision_each : forall I a, map fst (readback I a) = map t_id (nonrunning I).
Proof. intros. unfold readback. rewrite map_map. reflexivity. Qed.
Lemma C10_decisions_distinct : forall I a, nodup_ids I -> NoDup (map fst (readback I a)).
Proof. intros I a H. rewrite C10_one_decision_each. unfold nonrunning. apply NoDup_map_filter. exact H. Qed.
Lemma C10_decision_valid : forall I a, sat (gen_ilp I) a ->
  forall t s w k, In t (nonrunning I) -> decision I a t = Some (s, w, k) ->
  exists wk st, nth_worker I w = Some wk /\ nth_strat t k = Some st /\ compat wk st = true /\
                i_now I + 1 <= s /\ t_release t <= s.
Proof.
  intros I a Hsat t s w k Ht Hd. pose proof (decision_slot I a t s w k Hd) as (-> & wk & st & _ & Hw & Hk & _ & Hc).
  exists wk, st. repeat split; try assumption; pose proof (start_lb_ok I a Hsat t Ht) as H; rewrite bridge_start_lb in H; lia.
Qed.
Lemma C10_no_solution_all_unplaced : forall I d, In d (answer I None) -> snd d = None.
Proof. intros I d H. cbn [answer] in H. apply in_map_iff in H. destruct H as (t & <- & _). reflexivity. Qed.
Lemma firstn_incl_In : forall A n (l : list A) x, In x (firstn n l) -> In x l.
Proof. induction n as [|n IH]; intros [|y l] x H; cbn [firstn] in H; try contradiction. destruct H as [->|H]; [left; reflexivity|right; apply IH, H]. Qed.
Lemma C10_answer_covers_offered : forall I sol,
  (forall t, In t (firstn (i_noffered I) (i_tasks I)) -> is_running t = false) ->
  forall t, In t (firstn (i_noffered I) (i_tasks I)) -> exists d, In (t_id t, d) (answer I sol).
Proof.
  intros I sol Hnr t Ht. destruct sol as [a|]; cbn [answer].
  - exists (decision I a t). unfold readback. apply in_map_iff. exists t. split; [reflexivity|].
    apply filter_In. split; [eapply firstn_incl_In; exact Ht|]. rewrite (Hnr t Ht). reflexivity.
  - exists None. apply in_map_iff. exists t. auto.
Qed.

(* schedule() returns normally: the only raising inputs left are RUNNING tasks without a usable cached
   placement (the warm-start loop skips constant-0 pairs since the fix of finding ILP-H1) *)
Lemma C10_returns_normally : forall I,
  (forall t, In t (i_tasks I) -> is_running t = true -> valid_prev I t = true) -> ilp_raises I = false.
Proof.
  intros I H. unfold ilp_raises. destruct (existsb _ (i_tasks I)) eqn:E; [|reflexivity]. exfalso.
  apply existsb_exists in E. destruct E as (t & Ht & E). unfold hint_raises in E. rewrite bridge_warm_start in E. cbn [negb andb orb] in E.
  apply andb_true_iff in E. destruct E as [R V]. rewrite (H t Ht R) in V. discriminate.
Qed.
(* regression witness of ILP-H1: a SCHEDULED task one of whose strategies does not fit the worker *)
Definition ex_hint : instance :=
  mkInst 0 [mkWorker 1 [(0, 2)]]
    [mkTask 1 0 TScheduled 0 30 [mkStrat 1 3 [(1, 1)]; mkStrat 2 3 [(0, 1)]] None 3] 0%nat
    [mkGraph 0 [1] []] true false false Goodput [].
Lemma C10_returns_normally_witness : ilp_raises ex_hint = false /\ exists a, sat (gen_ilp ex_hint) a.
Proof.
  split; [reflexivity|]. exists (asg_of [(VStart 1, 1); (VPlaced 1 1 1, 1); (VGReward 0, 1); (VTReward 1, 1)]).
  apply satb_spec. vm_compute. reflexivity.
Qed.

(* non-vacuity of the capacity theorem: two independent tasks on one 1-CPU worker, placed one after the other *)
Definition ex_two : instance :=
  mkInst 0 [mkWorker 1 [(0, 1)]]
    [mkTask 1 0 TReleased 0 30 [mkStrat 1 5 [(0, 1)]] None 5;
     mkTask 2 1 TReleased 0 30 [mkStrat 1 4 [(0, 1)]] None 4] 2%nat
    [mkGraph 0 [1] []; mkGraph 1 [2] []] true false false Goodput [].
Definition ex_two_asg : assignment :=
  asg_of [(VStart 1, 1); (VPlaced 1 1 0, 1); (VStart 2, 7); (VPlaced 2 1 0, 1);
          (VBefore 1 2, 1); (VAfter 2 1, 1); (VGReward 0, 1); (VGReward 1, 1); (VTReward 1, 1); (VTReward 2, 1)].
Lemma ex_two_sat : sat (gen_ilp ex_two) ex_two_asg.
Proof. apply satb_spec. vm_compute. reflexivity. Qed.
Lemma no_dependent_linked : forall I, (forall x y, In x (i_tasks I) -> In y (i_tasks I) -> dependent I x y = false) -> dep_linked I.
Proof. intros I H x y Hx Hy D. rewrite (H x y Hx Hy) in D. discriminate. Qed.
Lemma C10_nonvacuous : exists I a, sat (gen_ilp I) a /\ nodup_ids I /\ rt_nonneg I /\ req_nonneg I /\ dep_linked I /\
  exists w tau, In w (wenum I) /\ usage_a I a w 0 tau = 1.
Proof.
  exists ex_two, ex_two_asg. split; [exact ex_two_sat|].
  split; [unfold nodup_ids; cbn; repeat constructor; cbn; intuition discriminate|].
  split; [apply rt_nonnegb_spec; reflexivity|].
  split.
  { intros t s rq Ht Hs Hrq. cbn in Ht. destruct Ht as [<-|[<-|[]]]; cbn in Hs; destruct Hs as [<-|[]]; cbn in Hrq; destruct Hrq as [<-|[]]; cbn; lia. }
  split.
  { apply no_dependent_linked. intros x y Hx Hy. cbn in Hx, Hy.
    destruct Hx as [<-|[<-|[]]]; destruct Hy as [<-|[<-|[]]]; reflexivity. }
  exists (1, mkWorker 1 [(0, 1)]), 3. split; [left; reflexivity|reflexivity].
Qed.
