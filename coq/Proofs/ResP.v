(* Lemmas about Model/Res.v: the ledger invariant over key PREDICATES and its preservation by
   every operation of Resources. *)
From Coq Require Import ZArith Bool List Lia ZifyBool Arith.
Import ListNotations.
From Verif Require Import Model.Val Model.Res.
Open Scope Z_scope.

(* ---------- keys ---------- *)
Lemma rid_eqb_eq : forall a b, rid_eqb a b = true <-> a = b.
Proof.
  intros [|x] [|y]; cbn; split; intro H; try congruence; try discriminate.
  - apply Z.eqb_eq in H. congruence.
  - inversion H. apply Z.eqb_refl.
Qed.
Lemma rkey_eqb_eq : forall a b, rkey_eqb a b = true <-> a = b.
Proof.
  intros [n i] [m j]. unfold rkey_eqb. cbn [fst snd]. rewrite andb_true_iff, Z.eqb_eq, rid_eqb_eq.
  split; [intros [-> ->]; reflexivity | intro H; inversion H; auto].
Qed.
Lemma rkey_eqb_refl : forall a, rkey_eqb a a = true.
Proof. intro a. apply rkey_eqb_eq. reflexivity. Qed.
Lemma rkey_eq_dec : forall a b : rkey, {a = b} + {a <> b}.
Proof.
  intros a b. destruct (rkey_eqb a b) eqn:E.
  - left. apply rkey_eqb_eq. exact E.
  - right. intro H. apply rkey_eqb_eq in H. congruence.
Qed.
Lemma comp_eqb_eq : forall a b, comp_eqb a b = true <-> a = b.
Proof.
  intros [x|x|x] [y|y|y]; cbn; split; intro H; try discriminate; try congruence;
    try (apply Z.eqb_eq in H; congruence); inversion H; apply Z.eqb_refl.
Qed.
Lemma comp_eqb_refl : forall a, comp_eqb a a = true.
Proof. intro a. apply comp_eqb_eq. reflexivity. Qed.
Lemma res_match_sym : forall a b, res_match a b = res_match b a.
Proof.
  intros [n [|i]] [m [|j]]; unfold res_match; cbn [fst snd rid_match]; rewrite (Z.eqb_sym n m); try reflexivity.
  rewrite (Z.eqb_sym i j). reflexivity.
Qed.
Lemma res_match_refl : forall a, res_match a a = true.
Proof. intros [n [|i]]; unfold res_match; cbn; rewrite Z.eqb_refl; cbn; auto. apply Z.eqb_refl. Qed.

(* ---------- sums ---------- *)
Lemma sumP_app : forall P a b, sumP P (a ++ b) = sumP P a + sumP P b.
Proof. induction a as [|[k q] a IH]; intros b; cbn [sumP app]; [lia | rewrite IH; lia]. Qed.

Fixpoint allocs_sum (P : rkey -> bool) (a : allocs) : Z :=
  match a with
  | [] => 0
  | cl :: a' => sumP P (snd cl) + allocs_sum P a'
  end.

Lemma allocs_sum_app : forall P a b, allocs_sum P (a ++ b) = allocs_sum P a + allocs_sum P b.
Proof. induction a as [|[c l] a IH]; intros b; cbn [allocs_sum app snd]; [lia|]. rewrite IH. lia. Qed.

Lemma allocs_sum_set : forall P c l a,
  allocs_sum P (al_set c l a) = allocs_sum P a - sumP P (al_get c a) + sumP P l.
Proof.
  intros P c l. induction a as [|[c' l'] a IH]; unfold al_get in *; cbn [al_set al_find allocs_sum snd sumP].
  - lia.
  - destruct (comp_eqb c' c) eqn:E; cbn [allocs_sum snd].
    + lia.
    + rewrite IH. lia.
Qed.
Lemma allocs_sum_remove : forall P c a,
  allocs_sum P (al_remove c a) = allocs_sum P a - sumP P (al_get c a).
Proof.
  intros P c. induction a as [|[c' l'] a IH]; unfold al_get in *; cbn [al_remove al_find allocs_sum snd sumP].
  - lia.
  - destruct (comp_eqb c' c) eqn:E; cbn [allocs_sum snd].
    + lia.
    + rewrite IH. lia.
Qed.
Lemma allocs_sum_append : forall P c recs a,
  allocs_sum P (al_append c recs a) = allocs_sum P a + sumP P recs.
Proof.
  intros P c recs a. unfold al_append. destruct recs as [|x recs]; [cbn; lia|].
  rewrite allocs_sum_set, sumP_app. lia.
Qed.

Lemma sumP_vec_add : forall P k q v, sumP P (vec_add k q v) = sumP P v + (if P k then q else 0).
Proof.
  intros P k q. induction v as [|[k' q'] v IH]; cbn [vec_add sumP].
  - lia.
  - destruct (rkey_eqb k' k) eqn:E; cbn [sumP].
    + apply rkey_eqb_eq in E. subst k'. destruct (P k); lia.
    + rewrite IH. lia.
Qed.
Lemma keys_vec_add : forall k q v, In k (map fst v) -> map fst (vec_add k q v) = map fst v.
Proof.
  intros k q. induction v as [|[k' q'] v IH]; cbn [vec_add map fst In]; intro H; [contradiction|].
  destruct (rkey_eqb k' k) eqn:E; cbn [map fst]; [reflexivity|].
  f_equal. apply IH. destruct H as [H|H]; [|exact H]. subst k'. rewrite rkey_eqb_refl in E. discriminate.
Qed.

Definition add_all (recs : list (rkey * Z)) (v : rvec) : rvec :=
  fold_left (fun v kq => vec_add (fst kq) (snd kq) v) recs v.
Lemma sumP_add_all : forall P recs v, sumP P (add_all recs v) = sumP P v + sumP P recs.
Proof.
  intros P. unfold add_all. induction recs as [|[k q] recs IH]; intros v; cbn [fold_left sumP fst snd]; [lia|].
  rewrite IH, sumP_vec_add. lia.
Qed.
Lemma keys_add_all : forall recs v, Forall (fun kq => In (fst kq) (map fst v)) recs ->
  map fst (add_all recs v) = map fst v.
Proof.
  unfold add_all. induction recs as [|[k q] recs IH]; intros v H; cbn [fold_left fst snd]; [reflexivity|].
  inversion H as [|x l Hk Hr]; subst. cbn [fst] in Hk.
  rewrite IH; [apply keys_vec_add; exact Hk|].
  rewrite keys_vec_add by exact Hk. exact Hr.
Qed.

Definition nonneg_vec (v : rvec) : Prop := Forall (fun kq => 0 <= snd kq) v.
Lemma nonneg_vec_add : forall k q v, 0 <= q -> nonneg_vec v -> nonneg_vec (vec_add k q v).
Proof.
  intros k q v Hq. unfold nonneg_vec. induction v as [|[k' q'] v IH]; cbn [vec_add]; intro H.
  - constructor; [cbn; lia|constructor].
  - inversion H as [|x l H1 H2]; subst. cbn [snd] in H1. destruct (rkey_eqb k' k); constructor; cbn [snd]; auto; lia.
Qed.
Lemma nonneg_add_all : forall recs v, nonneg_vec recs -> nonneg_vec v -> nonneg_vec (add_all recs v).
Proof.
  unfold add_all. induction recs as [|[k q] recs IH]; intros v Hr Hv; cbn [fold_left fst snd]; [exact Hv|].
  inversion Hr as [|x l H1 H2]; subst. cbn [snd] in H1. apply IH; [exact H2|]. apply nonneg_vec_add; assumption.
Qed.

(* ---------- the allocation loop ---------- *)
Lemma alloc_loop_spec : forall r v rem v' recs,
  alloc_loop r rem v = (v', recs) ->
  (forall P, sumP P v' + sumP P recs = sumP P v) /\
  map fst v' = map fst v /\
  Forall (fun kq => In (fst kq) (map fst v)) recs /\
  (nonneg_vec v -> nonneg_vec v') /\
  (0 <= rem -> nonneg_vec recs).
Proof.
  intros r. induction v as [|[k q] v IH]; intros rem v' recs H; cbn [alloc_loop] in H.
  - inversion H; subst. refine (conj _ (conj _ (conj _ (conj _ _)))); cbn; auto; constructor.
  - destruct (res_match k r) eqn:Em.
    + destruct (rem <=? q) eqn:E1.
      * inversion H; subst. refine (conj _ (conj _ (conj _ (conj _ _)))); cbn [sumP map fst In].
        -- intro P. destruct (P k); lia.
        -- reflexivity.
        -- constructor; [cbn; auto|constructor].
        -- intro Hn. inversion Hn as [|x l H1 H2]; subst. cbn [snd] in H1. constructor; [cbn; lia|exact H2].
        -- intro Hr. constructor; [cbn; lia|constructor].
      * destruct (rem - q =? 0) eqn:E2.
        -- inversion H; subst. destruct (0 <? q) eqn:E3; refine (conj _ (conj _ (conj _ (conj _ _)))); cbn [sumP map fst In].
           ++ intro P. destruct (P k); lia.
           ++ reflexivity.
           ++ constructor; [cbn; auto|constructor].
           ++ intro Hn. inversion Hn as [|x l H1 H2]; subst. cbn [snd] in H1. constructor; [cbn; lia|exact H2].
           ++ intro Hr. constructor; [cbn; lia|constructor].
           ++ intro P. destruct (P k); lia.
           ++ reflexivity.
           ++ constructor.
           ++ intro Hn. exact Hn.
           ++ intro Hr. constructor.
        -- destruct (alloc_loop r (rem - q) v) as [v'' rs] eqn:Er. inversion H; subst.
           destruct (IH _ _ _ Er) as (C & K & I_ & N & R_).
           destruct (0 <? q) eqn:E3; refine (conj _ (conj _ (conj _ (conj _ _)))); cbn [sumP map fst In app].
           ++ intro P. specialize (C P). destruct (P k); lia.
           ++ f_equal. exact K.
           ++ constructor; [cbn; auto|]. eapply Forall_impl; [|exact I_]. cbn. auto.
           ++ intro Hn. inversion Hn as [|x l H1 H2]; subst. constructor; [cbn; lia|apply N; exact H2].
           ++ intro Hr. constructor; [cbn; lia|]. apply R_. lia.
           ++ intro P. specialize (C P). destruct (P k); lia.
           ++ f_equal. exact K.
           ++ eapply Forall_impl; [|exact I_]. cbn. auto.
           ++ intro Hn. inversion Hn as [|x l H1 H2]; subst. constructor; [exact H1|apply N; exact H2].
           ++ intro Hr. apply R_. lia.
    + destruct (rem =? 0) eqn:E0.
      * inversion H; subst. refine (conj _ (conj _ (conj _ (conj _ _)))); cbn [sumP].
        -- intro P. lia.
        -- reflexivity.
        -- constructor.
        -- auto.
        -- intro. constructor.
      * destruct (alloc_loop r rem v) as [v'' rs] eqn:Er. inversion H; subst.
        destruct (IH _ _ _ Er) as (C & K & I_ & N & R_).
        refine (conj _ (conj _ (conj _ (conj _ _)))); cbn [sumP map fst In].
        -- intro P. specialize (C P). lia.
        -- f_equal. exact K.
        -- eapply Forall_impl; [|exact I_]. cbn. auto.
        -- intro Hn. inversion Hn as [|x l H1 H2]; subst. constructor; [exact H1|apply N; exact H2].
        -- exact R_.
Qed.

(* ---------- the invariant ---------- *)
Definition recs_in (v : rvec) (a : allocs) : Prop :=
  Forall (fun cl => Forall (fun kq => In (fst kq) (map fst v)) (snd cl)) a.
Definition recs_nonneg (a : allocs) : Prop := Forall (fun cl => nonneg_vec (snd cl)) a.

Record Inv_ledger (R : res) : Prop := {
  inv_cons : forall P, sumP P (r_avail R) + allocs_sum P (r_allocs R) = sumP P (r_total R);
  inv_keys : map fst (r_avail R) = map fst (r_total R);
  inv_recs : recs_in (r_avail R) (r_allocs R) }.
Record Nonneg (R : res) : Prop := {
  nn_avail : nonneg_vec (r_avail R);
  nn_recs : recs_nonneg (r_allocs R) }.

Lemma al_get_in : forall (Q : list (rkey * Z) -> Prop) c a, Forall (fun cl => Q (snd cl)) a -> Q [] -> Q (al_get c a).
Proof.
  intros Q c. unfold al_get. induction a as [|[c' l] a IH]; cbn [al_find]; intros H H0; [exact H0|].
  inversion H as [|x y H1 H2]; subst. destruct (comp_eqb c' c); [exact H1|]. apply IH; assumption.
Qed.
Lemma al_set_forall : forall (Q : list (rkey * Z) -> Prop) c l a,
  Forall (fun cl => Q (snd cl)) a -> Q l -> Forall (fun cl => Q (snd cl)) (al_set c l a).
Proof.
  intros Q c l. induction a as [|[c' l'] a IH]; cbn [al_set]; intros H Hl.
  - constructor; [exact Hl|constructor].
  - inversion H as [|x y H1 H2]; subst. destruct (comp_eqb c' c); constructor; auto.
Qed.
Lemma al_remove_forall : forall (Q : list (rkey * Z) -> Prop) c a,
  Forall (fun cl => Q (snd cl)) a -> Forall (fun cl => Q (snd cl)) (al_remove c a).
Proof.
  intros Q c. induction a as [|[c' l'] a IH]; cbn [al_remove]; intros H; [constructor|].
  inversion H as [|x y H1 H2]; subst. destruct (comp_eqb c' c); [exact H2|]. constructor; auto.
Qed.
Lemma al_append_forall : forall (Q : list (rkey * Z) -> Prop) c recs a,
  (forall x y, Q x -> Q y -> Q (x ++ y)) -> Q [] ->
  Forall (fun cl => Q (snd cl)) a -> Q recs -> Forall (fun cl => Q (snd cl)) (al_append c recs a).
Proof.
  intros Q c recs a Happ H0 H Hr. unfold al_append. destruct recs as [|x recs]; [exact H|].
  apply al_set_forall; [exact H|]. apply Happ; [|exact Hr]. apply al_get_in; assumption.
Qed.

Lemma recs_in_keys : forall v v' a, map fst v' = map fst v -> recs_in v a -> recs_in v' a.
Proof. intros v v' a E H. unfold recs_in in *. rewrite E. exact H. Qed.

Lemma inv_new : forall v, Inv_ledger (r_new v).
Proof. intro v. constructor; cbn; [intro P; lia|reflexivity|constructor]. Qed.
Lemma nonneg_new : forall v, nonneg_vec v -> Nonneg (r_new v).
Proof. intros v H. constructor; cbn; [exact H|constructor]. Qed.

Lemma inv_allocate : forall R r c q R' o, Inv_ledger R -> r_allocate R r c q = (R', o) -> Inv_ledger R'.
Proof.
  intros R r c q R' o [C K I_] H. unfold r_allocate in H.
  destruct (q <? 0); [inversion H; subst; constructor; assumption|].
  destruct (r_available R r <? q); [inversion H; subst; constructor; assumption|].
  destruct (alloc_loop r q (r_avail R)) as [v recs] eqn:El. inversion H; subst; clear H.
  destruct (alloc_loop_spec _ _ _ _ _ El) as (C' & K' & I' & _ & _).
  constructor; cbn [r_avail r_total r_allocs].
  - intro P. rewrite allocs_sum_append. specialize (C P). specialize (C' P). lia.
  - congruence.
  - apply recs_in_keys with (v := r_avail R); [exact K'|].
    apply (al_append_forall (fun l => Forall (fun kq => In (fst kq) (map fst (r_avail R))) l)); auto.
    intros x y Hx Hy. apply Forall_app. split; assumption.
Qed.
(* a negative quantity is refused (/repo 84d7416), so no hypothesis on q is needed any more *)
Lemma nonneg_allocate_any : forall R r c q R' o, Nonneg R -> r_allocate R r c q = (R', o) -> Nonneg R'.
Proof.
  intros R r c q R' o [A B] H. unfold r_allocate in H.
  destruct (q <? 0) eqn:Hq0; [inversion H; subst; constructor; assumption|]. assert (Hq : 0 <= q) by lia.
  destruct (r_available R r <? q); [inversion H; subst; constructor; assumption|].
  destruct (alloc_loop r q (r_avail R)) as [v recs] eqn:El. inversion H; subst; clear H.
  destruct (alloc_loop_spec _ _ _ _ _ El) as (_ & _ & _ & N & Rn).
  constructor; cbn [r_avail r_allocs]; [auto|].
  apply (al_append_forall nonneg_vec); auto; [|constructor].
  intros x y Hx Hy. apply Forall_app. split; assumption.
Qed.
Lemma nonneg_allocate : forall R r c q R' o, 0 <= q -> Nonneg R -> r_allocate R r c q = (R', o) -> Nonneg R'.
Proof. intros R r c q R' o _. apply nonneg_allocate_any. Qed.

Lemma inv_alloc_seq : forall req R c R' o, Inv_ledger R -> alloc_seq R req c = (R', o) -> Inv_ledger R'.
Proof.
  induction req as [|[r q] req IH]; intros R c R' o HI H; cbn [alloc_seq] in H.
  - inversion H; subst. exact HI.
  - destruct (r_allocate R r c q) as [R1 [u|e]] eqn:Ea.
    + eapply IH; [|exact H]. eapply inv_allocate; eauto.
    + inversion H; subst. eapply inv_allocate; eauto.
Qed.
Lemma nonneg_alloc_seq : forall req R c R' o, nonneg_vec req -> Nonneg R -> alloc_seq R req c = (R', o) -> Nonneg R'.
Proof.
  induction req as [|[r q] req IH]; intros R c R' o Hq HI H; cbn [alloc_seq] in H.
  - inversion H; subst. exact HI.
  - inversion Hq as [|x l H1 H2]; subst. cbn [snd] in H1.
    destruct (r_allocate R r c q) as [R1 [u|e]] eqn:Ea.
    + eapply IH; [exact H2| |exact H]. eapply nonneg_allocate; eauto.
    + inversion H; subst. eapply nonneg_allocate; eauto.
Qed.

Lemma nonneg_alloc_seq_any : forall req R c R' o, Nonneg R -> alloc_seq R req c = (R', o) -> Nonneg R'.
Proof.
  induction req as [|[r q] req IH]; intros R c R' o HI H; cbn [alloc_seq] in H.
  - inversion H; subst. exact HI.
  - destruct (r_allocate R r c q) as [R1 [u|e]] eqn:Ea.
    + eapply IH; [|exact H]. eapply nonneg_allocate_any; eauto.
    + inversion H; subst. eapply nonneg_allocate_any; eauto.
Qed.

Lemma firstn_skipn_sum : forall P n (l : rvec), sumP P (firstn n l) + sumP P (skipn n l) = sumP P l.
Proof. intros P n l. rewrite <- sumP_app, firstn_skipn. reflexivity. Qed.

Lemma al_find_get : forall c a l, al_find c a = Some l -> al_get c a = l.
Proof. intros c a l H. unfold al_get. rewrite H. reflexivity. Qed.
Lemma al_find_in : forall (Q : list (rkey * Z) -> Prop) c a l,
  Forall (fun cl => Q (snd cl)) a -> al_find c a = Some l -> Q l.
Proof.
  intros Q c. induction a as [|[c' l'] a IH]; cbn [al_find]; intros l H E; [discriminate|].
  inversion H as [|x y H1 H2]; subst. destruct (comp_eqb c' c); [inversion E; subst; exact H1|]. eapply IH; eauto.
Qed.
Lemma al_get_set : forall c l a, al_get c (al_set c l a) = l.
Proof.
  intros c l. unfold al_get. induction a as [|[c' l'] a IH]; cbn [al_set al_find].
  - rewrite comp_eqb_refl. reflexivity.
  - destruct (comp_eqb c' c) eqn:E; cbn [al_find]; rewrite E; [reflexivity|exact IH].
Qed.

Lemma inv_rollback : forall R c n had, (had = false -> n = 0%nat) -> Inv_ledger R -> Inv_ledger (r_rollback R c n had).
Proof.
  intros R c n had Hh [C K I_]. unfold r_rollback. destruct (al_find c (r_allocs R)) as [l|] eqn:Ef; [|constructor; assumption].
  pose proof (al_find_in (fun l => Forall (fun kq => In (fst kq) (map fst (r_avail R))) l) _ _ _ I_ Ef) as Hl.
  assert (Hs : Forall (fun kq => In (fst kq) (map fst (r_avail R))) (skipn n l)).
  { rewrite <- (firstn_skipn n l) in Hl. apply Forall_app in Hl. tauto. }
  assert (Hf : Forall (fun kq => In (fst kq) (map fst (r_avail R))) (firstn n l)).
  { rewrite <- (firstn_skipn n l) in Hl. apply Forall_app in Hl. tauto. }
  fold (add_all (skipn n l) (r_avail R)).
  constructor; cbn [r_avail r_total r_allocs].
  - intro P. rewrite sumP_add_all. specialize (C P). pose proof (firstn_skipn_sum P n l) as Hfs.
    destruct had.
    + rewrite allocs_sum_set, (al_find_get _ _ _ Ef). lia.
    + rewrite (Hh eq_refl) in *. cbn [firstn skipn sumP] in *.
      rewrite allocs_sum_remove, al_get_set, allocs_sum_set, (al_find_get _ _ _ Ef). cbn [sumP]. lia.
  - rewrite keys_add_all; [exact K|exact Hs].
  - apply recs_in_keys with (v := r_avail R); [apply keys_add_all; exact Hs|].
    destruct had.
    + apply (al_set_forall (fun l => Forall (fun kq => In (fst kq) (map fst (r_avail R))) l)); assumption.
    + apply (al_remove_forall (fun l => Forall (fun kq => In (fst kq) (map fst (r_avail R))) l)).
      apply (al_set_forall (fun l => Forall (fun kq => In (fst kq) (map fst (r_avail R))) l)); assumption.
Qed.
Lemma nonneg_rollback : forall R c n had, Nonneg R -> Nonneg (r_rollback R c n had).
Proof.
  intros R c n had [A B]. unfold r_rollback. destruct (al_find c (r_allocs R)) as [l|] eqn:Ef; [|constructor; assumption].
  pose proof (al_find_in nonneg_vec _ _ _ B Ef) as Hl.
  assert (Hs : nonneg_vec (skipn n l)).
  { unfold nonneg_vec in *. rewrite <- (firstn_skipn n l) in Hl. apply Forall_app in Hl. tauto. }
  assert (Hf : nonneg_vec (firstn n l)).
  { unfold nonneg_vec in *. rewrite <- (firstn_skipn n l) in Hl. apply Forall_app in Hl. tauto. }
  fold (add_all (skipn n l) (r_avail R)).
  constructor; cbn [r_avail r_allocs].
  - apply nonneg_add_all; assumption.
  - destruct had; [|apply (al_remove_forall nonneg_vec)]; apply (al_set_forall nonneg_vec); assumption.
Qed.

(* registering the computation adds at most an empty entry *)
Lemma allocs_sum_register : forall P c a, allocs_sum P (al_register c a) = allocs_sum P a.
Proof. intros P c a. unfold al_register. destruct (al_find c a); [reflexivity|]. rewrite allocs_sum_app. cbn. lia. Qed.
Lemma inv_register : forall R c, Inv_ledger R -> Inv_ledger (mkRes (r_avail R) (r_total R) (al_register c (r_allocs R))).
Proof.
  intros R c [C K I_]. constructor; cbn [r_avail r_total r_allocs]; auto.
  - intro P. rewrite allocs_sum_register. apply C.
  - unfold al_register. destruct (al_find c (r_allocs R)); [exact I_|]. apply Forall_app. split; [exact I_|]. constructor; constructor.
Qed.
Lemma nonneg_register : forall R c, Nonneg R -> Nonneg (mkRes (r_avail R) (r_total R) (al_register c (r_allocs R))).
Proof.
  intros R c [A B]. constructor; cbn [r_avail r_allocs]; auto.
  unfold al_register. destruct (al_find c (r_allocs R)); [exact B|]. apply Forall_app. split; [exact B|]. constructor; constructor.
Qed.
Lemma had_entry_n : forall c (a : allocs), (match al_find c a with Some _ => true | None => false end) = false -> length (al_get c a) = 0%nat.
Proof. intros c a H. unfold al_get. destruct (al_find c a); [discriminate|reflexivity]. Qed.

Lemma inv_allocate_multiple : forall R req c R' o,
  Inv_ledger R -> r_allocate_multiple R req c = (R', o) -> Inv_ledger R'.
Proof.
  intros R req c R' o HI H. unfold r_allocate_multiple in H.
  destruct (existsb _ req); [inversion H; subst; exact HI|].
  destruct (alloc_seq R req c) as [R1 [u|e]] eqn:Es; inversion H; subst.
  - apply inv_register. eapply inv_alloc_seq; eauto.
  - apply inv_rollback; [apply had_entry_n|eapply inv_alloc_seq; eauto].
Qed.
Lemma nonneg_allocate_multiple_any : forall R req c R' o,
  Nonneg R -> r_allocate_multiple R req c = (R', o) -> Nonneg R'.
Proof.
  intros R req c R' o HI H. unfold r_allocate_multiple in H.
  destruct (existsb _ req); [inversion H; subst; exact HI|].
  destruct (alloc_seq R req c) as [R1 [u|e]] eqn:Es; inversion H; subst.
  - apply nonneg_register. eapply nonneg_alloc_seq_any; eauto.
  - apply nonneg_rollback. eapply nonneg_alloc_seq_any; eauto.
Qed.
Lemma nonneg_allocate_multiple : forall R req c R' o,
  nonneg_vec req -> Nonneg R -> r_allocate_multiple R req c = (R', o) -> Nonneg R'.
Proof. intros R req c R' o _. apply nonneg_allocate_multiple_any. Qed.

Lemma inv_deallocate : forall R c R' o, Inv_ledger R -> r_deallocate R c = (R', o) -> Inv_ledger R'.
Proof.
  intros R c R' o [C K I_] H. unfold r_deallocate in H.
  destruct (al_find c (r_allocs R)) as [l|] eqn:Ef; inversion H; subst; clear H; [|constructor; assumption].
  pose proof (al_find_in (fun l => Forall (fun kq => In (fst kq) (map fst (r_avail R))) l) _ _ _ I_ Ef) as Hl.
  fold (add_all l (r_avail R)).
  constructor; cbn [r_avail r_total r_allocs].
  - intro P. rewrite sumP_add_all, allocs_sum_remove, (al_find_get _ _ _ Ef). specialize (C P). lia.
  - rewrite keys_add_all; assumption.
  - apply recs_in_keys with (v := r_avail R); [apply keys_add_all; exact Hl|].
    apply (al_remove_forall (fun l => Forall (fun kq => In (fst kq) (map fst (r_avail R))) l)). exact I_.
Qed.
Lemma nonneg_deallocate : forall R c R' o, Nonneg R -> r_deallocate R c = (R', o) -> Nonneg R'.
Proof.
  intros R c R' o [A B] H. unfold r_deallocate in H.
  destruct (al_find c (r_allocs R)) as [l|] eqn:Ef; inversion H; subst; clear H; [|constructor; assumption].
  pose proof (al_find_in nonneg_vec _ _ _ B Ef) as Hl.
  fold (add_all l (r_avail R)).
  constructor; cbn [r_avail r_allocs]; [apply nonneg_add_all; assumption|apply (al_remove_forall nonneg_vec); exact B].
Qed.

Lemma inv_get_allocated : forall R c, Inv_ledger R -> Inv_ledger (fst (r_get_allocated_resources R c)).
Proof.
  intros R c [C K I_]. unfold r_get_allocated_resources. destruct (al_find c (r_allocs R)); cbn [fst]; [constructor; assumption|].
  constructor; cbn [r_avail r_total r_allocs]; auto.
  - intro P. rewrite allocs_sum_app. cbn. specialize (C P). lia.
  - apply Forall_app. split; [exact I_|]. constructor; [constructor|constructor].
Qed.
Lemma nonneg_get_allocated : forall R c, Nonneg R -> Nonneg (fst (r_get_allocated_resources R c)).
Proof.
  intros R c [A B]. unfold r_get_allocated_resources. destruct (al_find c (r_allocs R)); cbn [fst]; [constructor; assumption|].
  constructor; cbn [r_avail r_allocs]; auto. apply Forall_app. split; [exact B|]. constructor; [constructor|constructor].
Qed.

(* quantities requested by an operation are non-negative *)
Definition rop_nonneg (o : rop) : Prop :=
  match o with
  | RAllocate _ _ q => 0 <= q
  | RAllocateMultiple req _ => nonneg_vec req
  | _ => True
  end.

Lemma inv_r_step : forall R o, Inv_ledger R -> Inv_ledger (fst (r_step R o)).
Proof.
  intros R [r c q|req c|c|c] HI; cbn [r_step].
  - destruct (r_allocate R r c q) as [R' x] eqn:E. eapply inv_allocate; eauto.
  - destruct (r_allocate_multiple R req c) as [R' x] eqn:E. eapply inv_allocate_multiple; eauto.
  - destruct (r_deallocate R c) as [R' x] eqn:E. eapply inv_deallocate; eauto.
  - cbn [fst]. apply inv_get_allocated. exact HI.
Qed.
Lemma nonneg_r_step : forall R o, rop_nonneg o -> Nonneg R -> Nonneg (fst (r_step R o)).
Proof.
  intros R [r c q|req c|c|c] Hq HI; cbn [r_step]; cbn in Hq.
  - destruct (r_allocate R r c q) as [R' x] eqn:E. eapply nonneg_allocate; eauto.
  - destruct (r_allocate_multiple R req c) as [R' x] eqn:E. eapply nonneg_allocate_multiple; eauto.
  - destruct (r_deallocate R c) as [R' x] eqn:E. eapply nonneg_deallocate; eauto.
  - cbn [fst]. apply nonneg_get_allocated. exact HI.
Qed.

Lemma nonneg_r_step_any : forall R o, Nonneg R -> Nonneg (fst (r_step R o)).
Proof.
  intros R [r c q|req c|c|c] HI; cbn [r_step].
  - destruct (r_allocate R r c q) as [R' x] eqn:E. eapply nonneg_allocate_any; eauto.
  - destruct (r_allocate_multiple R req c) as [R' x] eqn:E. eapply nonneg_allocate_multiple_any; eauto.
  - destruct (r_deallocate R c) as [R' x] eqn:E. eapply nonneg_deallocate; eauto.
  - cbn [fst]. apply nonneg_get_allocated. exact HI.
Qed.

(* over ALL histories *)
Theorem inv_r_run : forall ops R, Inv_ledger R -> Inv_ledger (r_run ops R).
Proof.
  unfold r_run. induction ops as [|o ops IH]; intros R HI; cbn [fold_left]; [exact HI|].
  apply IH. apply inv_r_step. exact HI.
Qed.
Theorem nonneg_r_run : forall ops R, Forall rop_nonneg ops -> Nonneg R -> Nonneg (r_run ops R).
Proof.
  unfold r_run. induction ops as [|o ops IH]; intros R Hq HI; cbn [fold_left]; [exact HI|].
  inversion Hq as [|x l H1 H2]; subst. apply IH; [exact H2|]. apply nonneg_r_step; assumption.
Qed.

(* the totals never change *)
Lemma total_allocate : forall R r c q R' o, r_allocate R r c q = (R', o) -> r_total R' = r_total R.
Proof.
  intros R r c q R' o H. unfold r_allocate in H. destruct (q <? 0); [inversion H; reflexivity|].
  destruct (_ <? _); [inversion H; reflexivity|]. destruct (alloc_loop _ _ _). inversion H. reflexivity.
Qed.
Lemma total_alloc_seq : forall req R c R' o, alloc_seq R req c = (R', o) -> r_total R' = r_total R.
Proof.
  induction req as [|[r q] req IH]; intros R c R' o H; cbn [alloc_seq] in H; [inversion H; reflexivity|].
  destruct (r_allocate R r c q) as [R1 [u|e]] eqn:Ea.
  - rewrite (IH _ _ _ _ H). eapply total_allocate; eauto.
  - inversion H; subst. eapply total_allocate; eauto.
Qed.
Lemma total_allocate_multiple : forall R req c R' o, r_allocate_multiple R req c = (R', o) -> r_total R' = r_total R.
Proof.
  intros R req c R' o H. unfold r_allocate_multiple in H. destruct (existsb _ _); [inversion H; reflexivity|].
  destruct (alloc_seq R req c) as [R1 [u|e]] eqn:Es; inversion H; subst.
  - cbn [r_total]. exact (total_alloc_seq _ _ _ _ _ Es).
  - unfold r_rollback. destruct (al_find c (r_allocs R1)); cbn [r_total]; exact (total_alloc_seq _ _ _ _ _ Es).
Qed.
Lemma total_deallocate : forall R c R' o, r_deallocate R c = (R', o) -> r_total R' = r_total R.
Proof. intros R c R' o H. unfold r_deallocate in H. destruct (al_find _ _); inversion H; reflexivity. Qed.
Lemma total_get_allocated : forall R c, r_total (fst (r_get_allocated_resources R c)) = r_total R.
Proof. intros R c. unfold r_get_allocated_resources. destruct (al_find _ _); reflexivity. Qed.

(* the statement of C04 for one Resources object *)
Theorem ledger_conservation : forall v ops,
  let R := r_run ops (r_new v) in
  (forall P, sumP P (r_avail R) + allocs_sum P (r_allocs R) = sumP P v) /\
  map fst (r_avail R) = map fst v /\
  r_total R = v.
Proof.
  intros v ops R. pose proof (inv_r_run ops (r_new v) (inv_new v)) as [C K _]. fold R in C, K.
  assert (T : forall ops R0, r_total (r_run ops R0) = r_total R0).
  { unfold r_run. induction ops0 as [|o ops0 IH]; intros R0; cbn [fold_left]; [reflexivity|]. rewrite IH.
    destruct o as [r c q|req c|c|c]; cbn [r_step].
    - destruct (r_allocate R0 r c q) eqn:E. eapply total_allocate; eauto.
    - destruct (r_allocate_multiple R0 req c) eqn:E. eapply total_allocate_multiple; eauto.
    - destruct (r_deallocate R0 c) eqn:E. eapply total_deallocate; eauto.
    - apply total_get_allocated. }
  specialize (T ops (r_new v)). fold R in T. cbn [r_new r_total] in T.
  repeat split.
  - intro P. rewrite C, T. reflexivity.
  - rewrite K, T. reflexivity.
  - exact T.
Qed.
Theorem ledger_nonneg : forall v ops, nonneg_vec v -> Forall rop_nonneg ops ->
  nonneg_vec (r_avail (r_run ops (r_new v))).
Proof. intros v ops Hv Ho. apply nn_avail. apply nonneg_r_run; [exact Ho|apply nonneg_new; exact Hv]. Qed.

(* since a negative quantity is refused (/repo 84d7416): available >= 0 over ALL histories *)
Theorem ledger_nonneg_all : forall v ops, nonneg_vec v -> nonneg_vec (r_avail (r_run ops (r_new v))).
Proof.
  intros v ops Hv. apply nn_avail. assert (G : forall ops R, Nonneg R -> Nonneg (r_run ops R)).
  { unfold r_run. induction ops0 as [|o ops0 IH]; intros R HI; cbn [fold_left]; [exact HI|]. apply IH. apply nonneg_r_step_any. exact HI. }
  apply G. apply nonneg_new. exact Hv.
Qed.
