(* get_schedulable_tasks offers a VIRTUAL task all of whose parents are COMPLETED (e.g. a task that was
   scheduled ahead of its release, released, and then unscheduled: Task.unschedule puts it back to VIRTUAL).
   Needs an UPPER bound on the estimates of the work-list loop. *)
From Coq Require Import ZArith Bool List Lia ZifyBool.
Import ListNotations.
From Verif Require Import Model.Val Gen.Src_Task Gen.Src_TaskGraph Model.TaskGraph
  Proofs.TaskGraphP Proofs.TaskGraphP1 Proofs.TaskGraphP2 Proofs.TaskGraphP7 Proofs.TaskGraphP8.
Open Scope Z_scope.

Definition bounded (g : tgraph) (E0 E : ect_map) : Prop :=
  forall c v, al_get c E = Some v ->
    (virtualb g c = false /\ al_get c E0 = Some v) \/
    (virtualb g c = true /\ exists p cp, In c (tg_children g p) /\ al_get p E = Some cp /\ v <= child_estimate g cp c).

Lemma child_estimate_mono : forall g a b c, a <= b -> child_estimate g a c <= child_estimate g b c.
Proof. intros. unfold child_estimate. cbv zeta. lia. Qed.

Lemma ect_children_bounded : forall g t ct cs E0 E Q E' Q',
  (forall p c, In c (tg_children g p) -> p <> c) ->
  ect_children g false ct cs E Q = (E', Q') -> incl cs (tg_children g t) ->
  al_get t E = Some ct -> bounded g E0 E -> bounded g E0 E' /\ al_get t E' = Some ct.
Proof.
  intros g t ct cs E0; induction cs as [|c cs IH]; intros E Q E' Q' Hns H Hin Ht Hb; cbn [ect_children] in H.
  - inversion H; subst. auto.
  - assert (Hct : In c (tg_children g t)) by (apply Hin; left; reflexivity).
    assert (Hin' : incl cs (tg_children g t)) by (intros x Hx; apply Hin; right; exact Hx).
    rewrite skipped_noretract in H. fold (virtualb g c) in H.
    destruct (virtualb g c) eqn:Ev; cbn [negb] in H; [|eapply IH; eauto].
    unfold sched_child_updates in H.
    assert (Hupd : (forall cur, al_get c E = Some cur -> cur < child_estimate g ct c) ->
              bounded g E0 (al_put c (child_estimate g ct c) E) /\
              al_get t (al_put c (child_estimate g ct c) E) = Some ct).
    { intros Hlt. split.
      - intros c' v Hv. destruct (Z.eq_dec c' c) as [->|Hne].
        + rewrite al_get_put_same in Hv. inversion Hv; subst v. right. split; [exact Ev|].
          exists t, ct. split; [exact Hct|]. split; [|lia].
          rewrite al_get_put_other; [exact Ht | apply Hns in Hct; congruence].
        + rewrite al_get_put_other in Hv by exact Hne.
          destruct (Hb c' v Hv) as [(A & B)|(A & p & cp & P1 & P2 & P3)]; [left; auto|].
          right. split; [exact A|]. destruct (Z.eq_dec p c) as [->|Hpc].
          * exists c, (child_estimate g ct c). split; [exact P1|]. split; [apply al_get_put_same|].
            specialize (Hlt cp P2). pose proof (child_estimate_mono g cp (child_estimate g ct c) c'). lia.
          * exists p, cp. split; [exact P1|]. split; [rewrite al_get_put_other by exact Hpc; exact P2 | exact P3].
      - rewrite al_get_put_other; [exact Ht | apply Hns in Hct; congruence]. }
    destruct (al_get c E) as [cur|] eqn:Ec; cbn [negb orb] in H.
    + destruct (cur <? child_estimate g ct c) eqn:Eu.
      * destruct Hupd as [B1 B2]; [intros cur' A; inversion A; subst; lia|]. eapply IH; eauto.
      * eapply IH; eauto.
    + destruct Hupd as [B1 B2]; [intros cur' A; discriminate|]. eapply IH; eauto.
Qed.

Lemma ect_prop_bounded : forall fuel g policy E0 E Q draws E' d',
  wf g -> (forall n, In n (tg_nodes g) -> tg_conditional g n = false) ->
  (forall p c, In c (tg_children g p) -> p <> c) -> incl Q (tg_nodes g) ->
  ect_prop fuel g false policy E Q draws = Ok (E', d') -> bounded g E0 E -> bounded g E0 E'.
Proof.
  induction fuel as [|f IH]; intros g policy E0 E Q draws E' d' W Hnc Hns HQ H Hb.
  - destruct Q; cbn [ect_prop] in H; [|discriminate]. inversion H; subst. exact Hb.
  - destruct Q as [|t Q]; cbn [ect_prop] in H; [inversion H; subst; exact Hb|].
    destruct (al_get t E) as [ct|] eqn:Et; [|discriminate].
    rewrite (Hnc t (HQ t (or_introl eq_refl))) in H.
    destruct (ect_children g false ct (tg_children g t) E Q) as [E1 Q1] eqn:Ec.
    destruct (ect_children_bounded _ t _ _ E0 _ _ _ _ Hns Ec (incl_refl _) Et Hb) as [B1 _].
    apply (IH g policy E0 E1 Q1 draws E' d' W Hnc Hns); [|exact H|exact B1].
    intros x Hx. destruct (ect_children_queue _ _ _ _ _ _ _ _ Ec x Hx) as [Hq|Hq].
    + apply HQ. right. exact Hq.
    + eapply wf_children; eauto.
Qed.

Lemma ect_init_keys : forall g time ns E Q E1 Q1, ect_init g time false ns E Q = Ok (E1, Q1) ->
  forall n v, al_get n E1 = Some v -> al_get n E = Some v \/ init_of g time n = Ok (Some v).
Proof.
  intros g time ns; induction ns as [|m ns IH]; intros E Q E1 Q1 H n v Hv; cbn [ect_init] in H.
  - inversion H; subst. left. exact Hv.
  - fold (init_of g time m) in H. destruct (init_of g time m) as [[w|]|e] eqn:Ei; [| |discriminate].
    + destruct (IH _ _ _ _ H n v Hv) as [A|A]; [|right; exact A].
      destruct (Z.eq_dec n m) as [->|Hne].
      * rewrite al_get_put_same in A. inversion A; subst. right. exact Ei.
      * rewrite al_get_put_other in A by exact Hne. left. exact A.
    + eapply IH; eauto.
Qed.

Lemma init_virtual_none : forall g time n v, virtualb g n = true -> init_of g time n <> Ok (Some v).
Proof.
  intros g time n v Hv. unfold virtualb in Hv. apply task_state_eqb_eq in Hv.
  unfold init_of, ect_initial. rewrite Hv. cbn. discriminate.
Qed.

Lemma init_completed : forall g time n, tg_state g n = TS_COMPLETED ->
  init_of g time n = Ok (Some (t_completion_time (tt_dyn (tg_task g n)))).
Proof. intros g time n H. unfold init_of, ect_initial. rewrite H. reflexivity. Qed.

Theorem frontier_offers_virtual_below_completed : forall g o draws fr d' x,
  tg_schedulable g o draws = Ok (fr, d') -> so_retract o = false ->
  (forall n, In n (tg_nodes g) -> tg_conditional g n = false) ->
  In x (tg_nodes g) -> tg_state g x = TS_VIRTUAL -> tg_parents g x <> [] ->
  (forall p, In p (tg_parents g x) -> tg_state g p = TS_COMPLETED /\
             t_completion_time (tt_dyn (tg_task g p)) <= so_time o + so_lookahead o) ->
  t_release_time (tt_dyn (tg_task g x)) <= so_time o + so_lookahead o -> In x fr.
Proof.
  intros g o draws fr d' x H Hre Hnc Hx Hv Hne Hpar Hrel.
  apply tg_schedulable_unfold in H. destruct H as (Hok & E & order & He & Ht & ->).
  pose proof (tg_ok_wf _ Hok) as W. pose proof (topo_sort_ok _ _ W Ht) as To.
  rewrite Hre in He.
  assert (Hns : forall p c, In c (tg_children g p) -> p <> c).
  { intros p c Hc Epc. subst c. destruct To as (ND & Hn & Hp).
    assert (Hin : In p order) by (apply Hn; eapply children_node; eauto).
    apply in_split in Hin. destruct Hin as (l1 & l2 & Eo).
    assert (In p l1) by (apply (Hp l1 p l2 Eo); apply parents_children; [apply W | exact Hc]).
    rewrite Eo in ND. apply NoDup_remove_2 in ND. apply ND. apply in_or_app. left. assumption. }
  destruct (tg_ect_spec _ _ _ _ _ _ W Hnc He) as (I & R).
  (* bounded *)
  assert (Hb : bounded g (match ect_init g (so_time o) false (tg_nodes g) [] [] with Ok (e, _) => e | Err _ => [] end) E).
  { unfold tg_ect in He.
    destruct (ect_init g (so_time o) false (tg_nodes g) [] []) as [[E1 Q1]|e] eqn:Ei; cbn [bind fst snd] in He; [|discriminate].
    eapply ect_prop_bounded; eauto.
    - intros y Hy. destruct (ect_init_queue _ _ _ _ _ _ _ _ Ei y Hy) as [[]|A]. exact A.
    - intros c v Hcv. left. split; [|exact Hcv].
      destruct (virtualb g c) eqn:Evc; [|reflexivity]. exfalso.
      destruct (ect_init_keys _ _ _ _ _ _ _ Ei c v Hcv) as [A|A]; [cbn in A; discriminate|].
      eapply init_virtual_none; eauto. }
  destruct (tg_parents g x) as [|p0 ps] eqn:Ep; [congruence|].
  assert (Hvx : virtualb g x = true) by (unfold virtualb; rewrite Hv; reflexivity).
  (* x has an estimate *)
  assert (Hex : exists cc, al_get x E = Some cc).
  { destruct (Hpar p0 (or_introl eq_refl)) as [Hs0 _].
    assert (Hn0 : In p0 (tg_nodes g)) by (eapply parent_node; rewrite Ep; left; reflexivity).
    destruct (I p0 _ Hn0 (init_completed g (so_time o) p0 Hs0)) as (v' & Hv' & _).
    assert (Hch : In x (tg_children g p0)) by (apply parents_children; [apply W | rewrite Ep; left; reflexivity]).
    destruct (R p0 v' Hv' x Hch Hvx) as (cc & Hcc & _). exists cc. exact Hcc. }
  destruct Hex as (cc & Hcc).
  (* and it is small *)
  assert (Hsmall : cc <= so_time o + so_lookahead o + tg_slowest g x).
  { destruct (Hb x cc Hcc) as [(A & _)|(_ & p & cp & P1 & P2 & P3)]; [congruence|].
    assert (Hpp : In p (tg_parents g x)) by (apply parents_children; [apply W | exact P1]).
    rewrite Ep in Hpp. destruct (Hpar p Hpp) as [Hsp Hcp].
    assert (Hnv : virtualb g p = false) by (unfold virtualb; rewrite Hsp; reflexivity).
    destruct (Hb p cp P2) as [(_ & B)|(B & _)]; [|congruence].
    unfold tg_ect in He.
    destruct (ect_init g (so_time o) false (tg_nodes g) [] []) as [[E1 Q1]|e] eqn:Ei; cbn [bind fst snd] in He; [|discriminate].
    destruct (ect_init_keys _ _ _ _ _ _ _ Ei p cp B) as [A|A]; [cbn in A; discriminate|].
    rewrite (init_completed g (so_time o) p Hsp) in A. inversion A; subst cp.
    unfold child_estimate in P3. cbv zeta in P3. lia. }
  apply in_or_app. left. apply offer_loop_complete; [apply To; exact Hx|].
  intro ar. unfold offer_of. rewrite Hcc, Hv, (remaining_virtual _ _ Hv). unfold sched_offer. cbn.
  assert (cc <=? so_time o + so_lookahead o + tg_slowest g x = true) as -> by lia.
  destruct (ar && so_release_tg o); reflexivity.
Qed.
