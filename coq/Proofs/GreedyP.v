(* Greedy policies, part 1: the bridge from the translated keys / admission tests to the documented
   ones, the key order, the stable sort, and the structure of the scheduling loop `run`
   (one decision per task in order, prefix runs, what each kind of decision means). *)
From Coq Require Import ZArith Bool List Lia ZifyBool Sorting.Sorted Permutation.
Import ListNotations.
From Verif Require Import Model.Val Gen.Src_Greedy Model.Greedy.
Open Scope Z_scope.

(* ---------- bridge: source (translated) = documentation (hand-written) *)
Lemma edf_key_doc now t : p_key edf now t = doc_edf_key now t.
Proof. reflexivity. Qed.
Lemma fifo_key_doc now t : p_key fifo now t = doc_fifo_key now t.
Proof. reflexivity. Qed.
Lemma lsf_key_doc now t : p_key lsf now t = doc_lsf_key now t.
Proof. reflexivity. Qed.
Lemma edf_cancel_doc e now t f : p_has_adm edf = true /\ p_cancel edf e now t f = e && hopeless now t f.
Proof. split; reflexivity. Qed.
Lemma fifo_cancel_doc e now t f : p_has_adm fifo = true /\ p_cancel fifo e now t f = e && hopeless now t f.
Proof. split; reflexivity. Qed.
Lemma lsf_no_admission : p_has_adm lsf = false.
Proof. reflexivity. Qed.
Lemma reset_doc pre : p_reset edf pre = pre /\ p_reset fifo pre = false /\ p_reset lsf pre = pre.
Proof. destruct pre; repeat split; reflexivity. Qed.

(* ---------- the key order is a strict total order *)
Lemma lex_ltb_irrefl a : lex_ltb a a = false.
Proof. induction a as [|x a IH]; cbn [lex_ltb]; [reflexivity|]. rewrite IH. lia. Qed.
Lemma lex_ltb_trans a : forall b c, lex_ltb a b = true -> lex_ltb b c = true -> lex_ltb a c = true.
Proof.
  induction a as [|x a IH]; intros [|y b] [|z c]; cbn [lex_ltb]; intros H1 H2; try discriminate; try reflexivity.
  destruct (lex_ltb a b) eqn:Eab; destruct (lex_ltb b c) eqn:Ebc.
  - rewrite (IH b c Eab Ebc). lia.
  - destruct (lex_ltb a c); lia.
  - destruct (lex_ltb a c); lia.
  - destruct (lex_ltb a c); lia.
Qed.
Lemma lex_ltb_asym a : forall b, lex_ltb a b = true -> lex_ltb b a = false.
Proof.
  intros b H. destruct (lex_ltb b a) eqn:E; [|reflexivity].
  pose proof (lex_ltb_trans a b a H E) as C. rewrite lex_ltb_irrefl in C. discriminate.
Qed.
Lemma lex_total a : forall b, lex_ltb a b = true \/ a = b \/ lex_ltb b a = true.
Proof.
  induction a as [|x a IH]; intros [|y b]; cbn [lex_ltb]; auto.
  destruct (IH b) as [H|[H|H]].
  - rewrite H. destruct (Z.lt_trichotomy x y) as [L|[L|L]]; [left|left|right; right]; lia.
  - subst b. rewrite lex_ltb_irrefl. destruct (Z.lt_trichotomy x y) as [L|[L|L]];
      [left; lia|right; left; f_equal; lia|right; right; lia].
  - rewrite H. destruct (Z.lt_trichotomy x y) as [L|[L|L]]; [left|right; right|right; right]; lia.
Qed.
Lemma lex_leb_refl a : lex_leb a a = true.
Proof. unfold lex_leb. rewrite lex_ltb_irrefl. reflexivity. Qed.
Lemma lex_ltb_leb a b : lex_ltb a b = true -> lex_leb a b = true.
Proof. unfold lex_leb. intros H. rewrite (lex_ltb_asym a b H). reflexivity. Qed.
Lemma lex_leb_cases a b : lex_leb a b = true -> lex_ltb a b = true \/ a = b.
Proof.
  unfold lex_leb. intros H. destruct (lex_total a b) as [L|[L|L]]; auto. rewrite L in H. discriminate.
Qed.
Lemma lex_leb_trans a b c : lex_leb a b = true -> lex_leb b c = true -> lex_leb a c = true.
Proof.
  intros H1 H2. destruct (lex_leb_cases a b H1) as [L1|E1]; [|subst; exact H2].
  destruct (lex_leb_cases b c H2) as [L2|E2]; [|subst; exact H1].
  apply lex_ltb_leb. eapply lex_ltb_trans; eassumption.
Qed.
Lemma lex_leb_total a b : lex_leb a b = true \/ lex_leb b a = true.
Proof.
  destruct (lex_total a b) as [L|[L|L]].
  - left. apply lex_ltb_leb. exact L.
  - subst. left. apply lex_leb_refl.
  - right. apply lex_ltb_leb. exact L.
Qed.
Lemma lex_leb_antisym a b : lex_leb a b = true -> lex_leb b a = true -> a = b.
Proof.
  intros H1 H2. destruct (lex_leb_cases a b H1) as [L|E]; [|exact E].
  unfold lex_leb in H2. rewrite L in H2. discriminate.
Qed.
(* for one-component keys the order is the integer order *)
Lemma lex_leb_single x y : lex_leb [x] [y] = (x <=? y).
Proof. unfold lex_leb. cbn [lex_ltb]. lia. Qed.
Lemma lex_leb_pair x1 x2 y1 y2 : lex_leb [x1; x2] [y1; y2] = (x1 <? y1) || ((x1 =? y1) && (x2 <=? y2)).
Proof. unfold lex_leb. cbn [lex_ltb]. lia. Qed.

(* ---------- sorted(): a permutation, ordered, and stable *)
Section SortP.
  Context {A : Type}.
  Variable key : A -> list Z.
  Definition kle (a b : A) : Prop := lex_leb (key a) (key b) = true.

  Lemma insert_by_perm x l : Permutation (x :: l) (insert_by key x l).
  Proof.
    induction l as [|y r IH]; cbn [insert_by]; [apply Permutation_refl|].
    destruct (lex_ltb (key y) (key x)); [|apply Permutation_refl].
    eapply perm_trans; [apply perm_swap|]. apply perm_skip. exact IH.
  Qed.
  Lemma sort_by_perm l : Permutation l (sort_by key l).
  Proof.
    induction l as [|x r IH]; cbn [sort_by]; [apply perm_nil|].
    eapply perm_trans; [apply perm_skip; exact IH|apply insert_by_perm].
  Qed.
  Lemma insert_by_sorted x l : StronglySorted kle l -> StronglySorted kle (insert_by key x l).
  Proof.
    induction l as [|y r IH]; intros HS; cbn [insert_by].
    - constructor; constructor.
    - inversion HS as [|? ? HSr Hall]; subst.
      destruct (lex_ltb (key y) (key x)) eqn:Lt.
      + constructor; [apply IH; exact HSr|].
        apply (Permutation_Forall (insert_by_perm x r)). constructor; [apply lex_ltb_leb; exact Lt|exact Hall].
      + assert (kle x y) as Hxy by (unfold kle, lex_leb; rewrite Lt; reflexivity).
        constructor; [exact HS|]. constructor; [exact Hxy|].
        eapply Forall_impl; [|exact Hall]. intros z Hz. unfold kle in *. eapply lex_leb_trans; eassumption.
  Qed.
  Lemma sort_by_sorted l : StronglySorted kle (sort_by key l).
  Proof. induction l as [|x r IH]; cbn [sort_by]; [constructor|apply insert_by_sorted; exact IH]. Qed.

  (* stability: the elements carrying any one key keep their input order *)
  Variable sel : list Z -> bool.
  Definition with_key (l : list A) : list A := filter (fun a => sel (key a)) l.
  Hypothesis sel_class : forall a b, sel (key a) = true -> sel (key b) = true -> key a = key b.
  Lemma insert_by_stable x l : with_key (insert_by key x l) = with_key (x :: l).
  Proof.
    induction l as [|y r IH]; cbn [insert_by]; [reflexivity|].
    destruct (lex_ltb (key y) (key x)) eqn:Lt; [|reflexivity].
    unfold with_key in *. cbn [filter] in *. rewrite IH.
    destruct (sel (key x)) eqn:Sx; [|reflexivity].
    destruct (sel (key y)) eqn:Sy; [|reflexivity].
    rewrite (sel_class y x Sy Sx), lex_ltb_irrefl in Lt. discriminate.
  Qed.
  Lemma sort_by_stable l : with_key (sort_by key l) = with_key l.
  Proof.
    induction l as [|x r IH]; cbn [sort_by]; [reflexivity|].
    rewrite insert_by_stable. unfold with_key in *. cbn [filter]. rewrite IH. reflexivity.
  Qed.
End SortP.

(* the elements whose key equals k keep their order *)
Fixpoint list_eqb (a b : list Z) : bool :=
  match a, b with
  | [], [] => true
  | x :: a', y :: b' => (x =? y) && list_eqb a' b'
  | _, _ => false
  end.
Lemma list_eqb_eq a : forall b, list_eqb a b = true <-> a = b.
Proof.
  induction a as [|x a IH]; intros [|y b]; cbn [list_eqb]; split; intros H; try discriminate; try reflexivity.
  - apply andb_true_iff in H. destruct H as [H1 H2]. apply IH in H2. f_equal; [lia|exact H2].
  - inversion H; subst. rewrite Z.eqb_refl. cbn. apply IH. reflexivity.
Qed.
Lemma sort_by_stable_key {A} (key : A -> list Z) (k : list Z) (l : list A) :
  filter (fun a => list_eqb (key a) k) (sort_by key l) = filter (fun a => list_eqb (key a) k) l.
Proof.
  apply (sort_by_stable key (fun x => list_eqb x k)).
  intros a b Ha Hb. apply list_eqb_eq in Ha, Hb. congruence.
Qed.

(* ---------- the scheduling loop *)
Section RunP.
  Variable L : ledger.
  Notation task := (task L).
  Notation cluster := (cluster L).

  Lemma try_pools_none (c : cluster) t s : try_pools L c t s = None <-> fits_somewhere L c s = false.
  Proof.
    unfold fits_somewhere. induction c as [|p r IH]; cbn [try_pools existsb]; [tauto|].
    destruct (pool_can L p s); cbn [orb].
    - split; discriminate.
    - destruct (try_pools L r t s) as [[i r']|]; [|tauto].
      split; [discriminate|]. intros H. apply IH in H. discriminate.
  Qed.
  Lemma try_strats_none (c : cluster) t ss : forall i,
    try_strats L c t ss i = None <-> existsb (fits_somewhere L c) ss = false.
  Proof.
    induction ss as [|s r IH]; intros i; cbn [try_strats existsb]; [tauto|].
    destruct (try_pools L c t s) as [[pid c']|] eqn:E.
    - assert (fits_somewhere L c s = true) as F.
      { destruct (fits_somewhere L c s) eqn:F; [reflexivity|]. apply try_pools_none with (t := t) in F. congruence. }
      rewrite F. cbn [orb]. split; discriminate.
    - apply try_pools_none in E. rewrite E. cbn [orb]. apply IH.
  Qed.
  Lemma fits_somewhere_false (c : cluster) s :
    fits_somewhere L c s = false <-> forall p w, In p c -> In w (snd p) -> can L w s = false.
  Proof.
    unfold fits_somewhere, pool_can. split.
    - intros H p w Hp Hw. destruct (can L w s) eqn:C; [|reflexivity].
      rewrite <- H. symmetry. apply existsb_exists. exists p. split; [exact Hp|].
      apply existsb_exists. exists w. auto.
    - intros H. destruct (existsb _ c) eqn:X; [|reflexivity].
      apply existsb_exists in X. destruct X as [p [Hp X]]. apply existsb_exists in X. destruct X as [w [Hw X]].
      rewrite (H p w Hp Hw) in X. discriminate.
  Qed.
  Lemma task_fits_false (c : cluster) (x : task) :
    task_fits L c x = false <-> forall s p w, In s (t_strats x) -> In p c -> In w (snd p) -> can L w s = false.
  Proof.
    unfold task_fits. split.
    - intros H s p w Hs Hp Hw. destruct (fits_somewhere L c s) eqn:F.
      + assert (existsb (fits_somewhere L c) (t_strats x) = true) as X by (apply existsb_exists; eauto). congruence.
      + exact (proj1 (fits_somewhere_false c s) F p w Hp Hw).
    - intros H. destruct (existsb _ (t_strats x)) eqn:X; [|reflexivity].
      apply existsb_exists in X. destruct X as [s [Hs X]].
      assert (fits_somewhere L c s = false) as F by (apply fits_somewhere_false; intros p w Hp Hw; eapply H; eauto).
      congruence.
  Qed.

  (* one step of the loop, inverted *)
  Lemma run_cons P e now (c : cluster) (t : task) r ds cf :
    run L P e now c (t :: r) = Ok (ds, cf) ->
    exists d ds' c',
      ds = d :: ds' /\ run L P e now c' r = Ok (ds', cf) /\ dec_task d = t_id t /\
      ((admission L P e now t = Ok true /\ d = DCancel (t_id t) /\ c' = c) \/
       (admission L P e now t = Ok false /\ exists i pid, try_strats L c (t_id t) (t_strats t) 0%nat = Some (i, pid, c') /\ d = DPlace (t_id t) pid i now) \/
       (admission L P e now t = Ok false /\ try_strats L c (t_id t) (t_strats t) 0%nat = None /\ d = DUnplaced (t_id t) /\ c' = c)).
  Proof.
    cbn [run]. destruct (admission L P e now t) as [[|]|code] eqn:A; cbn [bind]; [| |discriminate].
    - destruct (run L P e now c r) as [[ds' c']|] eqn:R; cbn [bind fst snd]; [|discriminate].
      intros H. inversion H; subst. exists (DCancel (t_id t)), ds', c.
      split; [reflexivity|split; [exact R|split; [reflexivity|left; auto]]].
    - destruct (try_strats L c (t_id t) (t_strats t) 0%nat) as [[[i pid] c']|] eqn:T.
      + destruct (run L P e now c' r) as [[ds' c'']|] eqn:R; cbn [bind fst snd]; [|discriminate].
        intros H. inversion H; subst. exists (DPlace (t_id t) pid i now), ds', c'.
        split; [reflexivity|split; [exact R|split; [reflexivity|]]].
        right; left. split; [reflexivity|]. exists i, pid. auto.
      + destruct (run L P e now c r) as [[ds' c']|] eqn:R; cbn [bind fst snd]; [|discriminate].
        intros H. inversion H; subst. exists (DUnplaced (t_id t)), ds', c.
        split; [reflexivity|split; [exact R|split; [reflexivity|right; right; auto]]].
  Qed.

  (* every task is answered exactly once, in order *)
  Lemma run_tasks P e now ts : forall (c : cluster) ds cf,
    run L P e now c ts = Ok (ds, cf) -> map dec_task ds = map (@t_id L) ts.
  Proof.
    induction ts as [|t r IH]; intros c ds cf H.
    - cbn in H. inversion H. reflexivity.
    - apply run_cons in H. destruct H as [d [ds' [c' [-> [R [Hd _]]]]]].
      cbn [map]. rewrite Hd. f_equal. eapply IH; exact R.
  Qed.

  (* a run over a list is the run over a prefix followed by the run over the rest *)
  Lemma run_split P e now pre : forall post (c : cluster) ds cf,
    run L P e now c (pre ++ post) = Ok (ds, cf) ->
    exists d1 d2 V, run L P e now c pre = Ok (d1, V) /\ run L P e now V post = Ok (d2, cf) /\
                    ds = d1 ++ d2 /\ length d1 = length pre.
  Proof.
    induction pre as [|t r IH]; intros post c ds cf H.
    - exists [], ds, c. cbn in *. auto.
    - cbn [app] in H. pose proof H as H0. apply run_cons in H. destruct H as [d [ds' [c' [-> [R [Hd Hk]]]]]].
      destruct (IH post c' ds' cf R) as [d1 [d2 [V [R1 [R2 [-> Hl]]]]]].
      exists (d :: d1), d2, V. repeat split; auto; [|cbn; lia].
      cbn [run]. destruct Hk as [[A [-> ->]]|[[A [i [pid [T ->]]]]|[A [T [-> ->]]]]]; rewrite A; cbn [bind].
      + rewrite R1. reflexivity.
      + rewrite T, R1. reflexivity.
      + rewrite T, R1. reflexivity.
  Qed.

  Lemma firstn_app_exact {X} (a b : list X) : firstn (length a) (a ++ b) = a.
  Proof. induction a; cbn; [destruct b; reflexivity|f_equal; assumption]. Qed.

  (* the stage reached when the i-th task is considered *)
  Lemma run_stage P e now ts (c : cluster) ds cf i x :
    run L P e now c ts = Ok (ds, cf) -> nth_error ts i = Some x ->
    exists V d, run L P e now c (firstn i ts) = Ok (firstn i ds, V) /\
                nth_error ds i = Some d /\
                run L P e now V (x :: skipn (S i) ts) = Ok (d :: skipn (S i) ds, cf).
  Proof.
    intros H Hn. destruct (nth_error_split ts i Hn) as [pre [post [-> Hl]]].
    destruct (run_split P e now pre (x :: post) c ds cf H) as [d1 [d2 [V [R1 [R2 [-> Hl1]]]]]].
    pose proof R2 as R2'. apply run_cons in R2'. destruct R2' as [d [ds' [c' [-> _]]]].
    exists V, d. subst i.
    rewrite firstn_app_exact. rewrite <- Hl1 at 1. rewrite firstn_app_exact.
    split; [exact R1|]. split.
    - rewrite nth_error_app2 by lia. rewrite Hl1, Nat.sub_diag. reflexivity.
    - replace (skipn (S (length pre)) (pre ++ x :: post)) with post.
      + rewrite <- Hl1. replace (skipn (S (length d1)) (d1 ++ d :: ds')) with ds'; [exact R2|].
        clear. induction d1; cbn; [reflexivity|assumption].
      + clear. induction pre; cbn; [reflexivity|assumption].
  Qed.

  (* C13 core: the i-th task is reported unplaced only if none of its strategies fits any worker of any
     pool of the virtual cluster as it stands after the tasks ordered before it *)
  Lemma run_unplaced_no_fit P e now ts (c : cluster) ds cf i x :
    run L P e now c ts = Ok (ds, cf) -> nth_error ts i = Some x -> nth_error ds i = Some (DUnplaced (t_id x)) ->
    exists V, run L P e now c (firstn i ts) = Ok (firstn i ds, V) /\ task_fits L V x = false /\
              admission L P e now x = Ok false.
  Proof.
    intros H Hn Hd. destruct (run_stage P e now ts c ds cf i x H Hn) as [V [d [R1 [Hd' R2]]]].
    rewrite Hd in Hd'. inversion Hd'; subst d. exists V. split; [exact R1|].
    apply run_cons in R2. destruct R2 as [d [ds' [c' [E [_ [_ Hk]]]]]]. inversion E; subst d ds'.
    destruct Hk as [[_ [X _]]|[[_ [i' [pid [_ X]]]]|[A [T _]]]]; try discriminate.
    split; [|exact A]. unfold task_fits. apply (try_strats_none V (t_id x) (t_strats x) 0%nat). exact T.
  Qed.
  (* and conversely: not cancelled and fitting somewhere => placed (never spuriously unplaced) *)
  Lemma run_fit_placed P e now ts (c : cluster) ds cf i x V :
    run L P e now c ts = Ok (ds, cf) -> nth_error ts i = Some x ->
    run L P e now c (firstn i ts) = Ok (firstn i ds, V) -> admission L P e now x = Ok false -> task_fits L V x = true ->
    exists pid k, nth_error ds i = Some (DPlace (t_id x) pid k now).
  Proof.
    intros H Hn R1 A F. destruct (run_stage P e now ts c ds cf i x H Hn) as [V' [d [R1' [Hd R2]]]].
    rewrite R1 in R1'. inversion R1'; subst V'.
    apply run_cons in R2. destruct R2 as [d' [ds' [c' [E [_ [_ Hk]]]]]]. inversion E; subst d' ds'.
    destruct Hk as [[A' _]|[[_ [k [pid [_ X]]]]|[_ [T _]]]].
    - congruence.
    - exists pid, k. rewrite Hd, X. reflexivity.
    - apply (try_strats_none V (t_id x) (t_strats x) 0%nat) in T. unfold task_fits in F. congruence.
  Qed.
  (* a successful schedule is a successful run (in which no task was placed twice on one pool) *)
  Lemma schedule_full_run P e pre now (c : cluster) offered ds cf :
    schedule_full L P e pre now c offered = Ok (ds, cf) ->
    run L P e now (virtual L P pre c) (ordered L P now offered) = Ok (ds, cf) /\ place_twice ds = false.
  Proof.
    unfold schedule_full. destruct (run L P e now (virtual L P pre c) (ordered L P now offered)) as [[ds' cf']|code];
      cbn [bind fst]; [|discriminate].
    destruct (place_twice ds') eqn:T; [discriminate|]. intros H. inversion H; subst. auto.
  Qed.
End RunP.
