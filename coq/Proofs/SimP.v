(* Invariants of the abstract simulator machine (Model/Sim.v), for every accepted log,
   hence for every scheduler, workload and cluster. *)
From Coq Require Import ZArith Bool List Lia ZifyBool.
Import ListNotations.
From Verif Require Import Model.Val Gen.Src_Task Gen.Src_Event Gen.Src_TaskGraph Model.Sim Proofs.TaskP.
Open Scope Z_scope.

Arguments task_step : simpl never.
Arguments task_release : simpl never.
Arguments task_schedule : simpl never.
Arguments task_unschedule : simpl never.
Arguments task_start : simpl never.
Arguments task_finish : simpl never.
Arguments task_cancel : simpl never.
Arguments task_is_complete : simpl never.
Arguments task_init : simpl never.

(* ------------------------------------------------------------------ small facts *)
Lemma ts_eqb_true a b : task_state_eqb a b = true <-> a = b.
Proof. destruct a, b; cbn; split; intros H; try reflexivity; try discriminate. Qed.
Lemma ts_eqb_false a b : task_state_eqb a b = false <-> a <> b.
Proof. destruct a, b; cbn; split; intros H; try reflexivity; try discriminate; try congruence; exfalso; apply H; reflexivity. Qed.

Lemma upd_same f k v : upd f k v k = Some v.
Proof. unfold upd. rewrite Z.eqb_refl. reflexivity. Qed.
Lemma upd_other f k v x : x <> k -> upd f k v x = f x.
Proof. unfold upd. intros H. destruct (x =? k) eqn:E; [lia|reflexivity]. Qed.

Definition ids (res : list (Z * Z * request)) : list Z := map (fun e => fst (fst e)) res.

Lemma resident_In res t : resident res t = true <-> In t (ids res).
Proof.
  unfold resident, ids. rewrite existsb_exists. split.
  - intros [e [H1 H2]]. apply in_map_iff. exists e. split; [lia|assumption].
  - intros H. apply in_map_iff in H. destruct H as [e [H1 H2]]. exists e. split; [assumption|lia].
Qed.

Lemma resident_on_In res t w : resident_on res t w = true -> In t (ids res).
Proof.
  unfold resident_on, ids. rewrite existsb_exists. intros [e [H1 H2]]. apply in_map_iff. exists e. split; [lia|assumption].
Qed.

Lemma remove_res_ids res t x : In x (ids (remove_res res t)) -> In x (ids res).
Proof.
  induction res as [|e rest IH]; cbn; [auto|]. destruct (fst (fst e) =? t); cbn; intuition.
Qed.

Lemma remove_res_In res t e : In e (remove_res res t) -> In e res.
Proof.
  induction res as [|e0 rest IH]; cbn; [auto|]. destruct (fst (fst e0) =? t); cbn; intuition.
Qed.

Lemma remove_res_nodup res t : NoDup (ids res) -> NoDup (ids (remove_res res t)) /\ ~ In t (ids (remove_res res t)).
Proof.
  induction res as [|e rest IH]; cbn; intros H; [split; [constructor|auto]|].
  inversion H as [|? ? Hn Hd]; subst. destruct (fst (fst e) =? t) eqn:E.
  - split; [assumption|]. assert (fst (fst e) = t) by lia. subst. assumption.
  - destruct (IH Hd) as [H1 H2]. cbn. split.
    + constructor; [|assumption]. intro X. apply Hn. eapply remove_res_ids; exact X.
    + intros [X|X]; [lia|auto].
Qed.

Lemma used_remove_le res t w r :
  (forall e, In e res -> 0 <= qty (snd e) r) -> used (remove_res res t) w r <= used res w r.
Proof.
  induction res as [|e rest IH]; cbn; intros H; [lia|]. destruct e as [[t' w'] req]. cbn.
  assert (H0 : 0 <= qty req r) by (apply (H (t', w', req)); left; reflexivity).
  assert (IH' : used (remove_res rest t) w r <= used rest w r) by (apply IH; intros e He; apply H; right; exact He).
  destruct (t' =? t); cbn; destruct (w' =? w); lia.
Qed.

Lemma qty_nonneg req r : forallb (fun nq => 0 <=? snd nq) req = true -> 0 <= qty req r.
Proof.
  induction req as [|[n q] rest IH]; cbn; intros H; [lia|]. apply andb_true_iff in H. destruct H as [H1 H2].
  specialize (IH H2). destruct (n =? r); lia.
Qed.

Lemma qty_absent req r : (forall nq, In nq req -> fst nq <> r) -> qty req r = 0.
Proof.
  induction req as [|[n q] rest IH]; cbn; intros H; [reflexivity|].
  assert (n <> r) by (apply (H (n, q)); left; reflexivity).
  rewrite IH; [|intros nq Hn; apply H; right; exact Hn]. destruct (n =? r) eqn:E; lia.
Qed.

(* ------------------------------------------------------------------ the invariant *)
Definition st (x : tst) : task_state := t_state (t_dyn x).

Definition pending_state (a : task_state) : Prop :=
  a = TS_VIRTUAL \/ a = TS_RELEASED \/ a = TS_SCHEDULED \/ a = TS_CANCELLED.
Definition done_state (a : task_state) : Prop := a = TS_COMPLETED \/ a = TS_EVICTED.

Record task_ok (c : Z) (x : tst) : Prop := {
  ok_not_preempted : st x <> TS_PREEMPTED;
  ok_pre : pre_ok (t_dyn x);
  ok_last : t_last_step_time (t_dyn x) <= c;
  ok_pending : pending_state (st x) -> t_starts x = 0 /\ t_finishes x = 0;
  ok_running : st x = TS_RUNNING ->
      t_starts x = 1 /\ t_finishes x = 0 /\ 0 <= t_remaining_time (t_dyn x) /\
      t_start_time (t_dyn x) <= c /\ t_release_time (t_dyn x) <= t_start_time (t_dyn x) /\ t_runtime x <= t_drawn x /\
      0 <= t_drawn x /\
      (0 < t_remaining_time (t_dyn x) ->
         t_last_step_time (t_dyn x) = c /\ t_remaining_time (t_dyn x) = t_drawn x - (c - t_start_time (t_dyn x))) /\
      (t_remaining_time (t_dyn x) = 0 -> t_last_step_time (t_dyn x) = t_start_time (t_dyn x) + t_drawn x /\ t_last_step_time (t_dyn x) = c);
  ok_done : done_state (st x) ->
      t_starts x = 1 /\ t_finishes x = 1 /\ t_release_time (t_dyn x) <= t_start_time (t_dyn x) /\
      t_completion_time (t_dyn x) <= c /\ t_start_time (t_dyn x) <= t_completion_time (t_dyn x) /\ t_runtime x <= t_drawn x /\
      (st x = TS_COMPLETED -> t_completion_time (t_dyn x) = t_start_time (t_dyn x) + t_drawn x)
}.

Definition complete_by (s : sim) (p tau : Z) : Prop :=
  exists y, s_tasks s p = Some y /\ task_is_complete (t_dyn y) = true /\ t_completion_time (t_dyn y) <= tau.

Definition parents_done (s : sim) (x : tst) : Prop :=
  if ti_terminal (t_info x)
  then exists p, In p (ti_parents (t_info x)) /\ complete_by s p (t_start_time (t_dyn x))
  else forall p, In p (ti_parents (t_info x)) -> complete_by s p (t_start_time (t_dyn x)).

Record Inv (W : world) (s : sim) : Prop := {
  inv_clock : 0 <= s_clock s;
  inv_dom : forall t x, s_tasks s t = Some x -> In t (s_dom s);
  inv_tasks : forall t x, s_tasks s t = Some x -> task_ok (s_clock s) x;
  inv_cap : forall w r, used (s_res s) w r <= w_cap W w r;
  inv_req : forall e, In e (s_res s) -> forall r, 0 <= qty (snd e) r;
  inv_nodup : NoDup (ids (s_res s));
  inv_res : forall t, In t (ids (s_res s)) ->
              exists x, s_tasks s t = Some x /\
                (st x = TS_RUNNING \/ (st x = TS_SCHEDULED /\ cur_is s TASK_PLACEMENT (Some t) = true /\ parents_ok s x = true));
  inv_run : forall t x, s_tasks s t = Some x -> st x = TS_RUNNING ->
              In t (ids (s_res s)) \/ cur_is s TASK_FINISHED (Some t) = true;
  inv_dep : forall t x, s_tasks s t = Some x -> t_starts x = 1 -> parents_done s x
}.

Definition cap_nonneg (W : world) : Prop := forall w r, 0 <= w_cap W w r.

Lemma inv_init W : cap_nonneg W -> Inv W sim_init.
Proof.
  intros HW. constructor; cbn.
  - lia.
  - intros t x H; discriminate H.
  - intros t x H; discriminate H.
  - intros w r. apply HW.
  - intros e [].
  - constructor.
  - intros t [].
  - intros t x H; discriminate H.
  - intros t x H; discriminate H.
Qed.

(* ------------------------------------------------------------------ stability of completed tasks *)
Lemma is_complete_done d : task_is_complete d = true <-> done_state (t_state d).
Proof.
  unfold task_is_complete, done_state. destruct (t_state d); cbn; split; intros H; try discriminate; auto;
    destruct H as [H|H]; discriminate.
Qed.

Lemma step_tasks_spec res : forall f now d f',
  step_tasks f res now d = Some f' -> NoDup (ids res) ->
  (forall t, ~ In t (ids res) -> f' t = f t) /\
  (forall t, In t (ids res) -> exists x dy b, f t = Some x /\ task_step (t_dyn x) now d = Ok (dy, b) /\ f' t = Some (set_dyn x dy)).
Proof.
  induction res as [|[[t0 w0] r0] rest IH]; cbn; intros f now d f' H Hnd.
  - injection H as <-. split; [intros; reflexivity|intros t []].
  - inversion Hnd as [|? ? Hn Hd]; subst. destruct (f t0) as [x|] eqn:Ft; [|discriminate].
    destruct (task_step (t_dyn x) now d) as [[dy b]|c] eqn:Ts; [|discriminate].
    destruct (IH _ _ _ _ H Hd) as [A B]. split.
    + intros t Ht. rewrite A by tauto. apply upd_other. intro E. apply Ht. left. symmetry. exact E.
    + intros t [<-|Ht].
      * exists x, dy, b. split; [exact Ft|]. split; [exact Ts|]. rewrite A by exact Hn. apply upd_same.
      * destruct (B t Ht) as [x' [dy' [b' [F1 [F2 F3]]]]]. exists x', dy', b'. split; [|split; assumption].
        rewrite upd_other in F1; [exact F1|]. intro E. subst. apply Hn. exact Ht.
Qed.

Lemma min_rem_le s res t : In t (ids res) -> exists m, min_rem s res = Some m /\ m <= rem_of s t.
Proof.
  induction res as [|[[t0 w0] r0] rest IH]; cbn; intros H; [contradiction|].
  destruct H as [<-|H].
  - destruct (min_rem s rest) as [m|]; eexists; split; try reflexivity; lia.
  - destruct (IH H) as [m [E L]]. rewrite E. eexists; split; [reflexivity|]. lia.
Qed.

Lemma add_tasks_other ts : forall f t, (forall e, In e ts -> fst (fst (fst e)) <> t) -> add_tasks f ts t = f t.
Proof.
  induction ts as [|[[[id info] rel] dl] rest IH]; cbn; intros f t H; [reflexivity|].
  rewrite IH; [|intros e He; apply H; right; exact He].
  apply upd_other. intro E. apply (H (id, info, rel, dl)); [left; reflexivity|]. cbn. symmetry. exact E.
Qed.

Lemma add_tasks_new ts : forall f t, nodup_ids ts = true -> In t (map (fun e => fst (fst (fst e))) ts) ->
  exists info rel dl, add_tasks f ts t = Some (mkT (task_init rel dl) info 0 (-1) (-1) 0 0).
Proof.
  induction ts as [|[[[id info] rel] dl] rest IH]; cbn; intros f t Hn H; [contradiction|].
  apply andb_true_iff in Hn. destruct Hn as [Hn1 Hn2].
  destruct (in_dec Z.eq_dec t (map (fun e => fst (fst (fst e))) rest)) as [Hin|Hnin].
  - apply IH; assumption.
  - destruct H as [<-|H]; [|contradiction]. exists info, rel, dl.
    rewrite add_tasks_other; [apply upd_same|]. intros e He E. apply Hnin. apply in_map_iff. exists e. split; assumption.
Qed.

Lemma fresh_spec s ts t x : fresh s ts = true -> s_tasks s t = Some x -> forall e, In e ts -> fst (fst (fst e)) <> t.
Proof.
  unfold fresh. rewrite forallb_forall. intros H Hx e He E. specialize (H e He). rewrite E, Hx in H. discriminate.
Qed.

(* ------------------------------------------------------------------ monotonicity in the set of completed tasks *)
Definition same_shape (s s' : sim) : Prop :=
  s_clock s' = s_clock s /\ s_dom s' = s_dom s /\ s_res s' = s_res s /\ s_cur s' = s_cur s.

Lemma cur_is_same s s' ty t : s_cur s' = s_cur s -> cur_is s' ty t = cur_is s ty t.
Proof. unfold cur_is. intros ->. reflexivity. Qed.

Definition grows (s s' : sim) : Prop :=
  forall p y, s_tasks s p = Some y -> task_is_complete (t_dyn y) = true ->
    exists y', s_tasks s' p = Some y' /\ task_is_complete (t_dyn y') = true /\
               t_completion_time (t_dyn y') = t_completion_time (t_dyn y).

Lemma complete_grows s s' p : grows s s' -> complete s p = true -> complete s' p = true.
Proof.
  unfold complete. intros G H. destruct (s_tasks s p) as [y|] eqn:E; [|discriminate].
  destruct (G p y E H) as [y' [E' [C _]]]. rewrite E'. exact C.
Qed.

Lemma parents_ok_grows s s' x : grows s s' -> parents_ok s x = true -> parents_ok s' x = true.
Proof.
  unfold parents_ok. intros G. destruct (ti_terminal (t_info x)).
  - rewrite !existsb_exists. intros [p [H1 H2]]. exists p. split; [assumption|]. eapply complete_grows; eassumption.
  - rewrite !forallb_forall. intros H p Hp. eapply complete_grows; [eassumption|]. apply H. exact Hp.
Qed.

Lemma complete_by_grows s s' p tau : grows s s' -> complete_by s p tau -> complete_by s' p tau.
Proof.
  intros G [y [E [C L]]]. destruct (G p y E C) as [y' [E' [C' Q]]]. exists y'. split; [assumption|]. split; [assumption|]. lia.
Qed.

Lemma parents_done_grows s s' x x' :
  grows s s' -> t_info x' = t_info x -> t_start_time (t_dyn x') = t_start_time (t_dyn x) ->
  parents_done s x -> parents_done s' x'.
Proof.
  unfold parents_done. intros G -> ->. destruct (ti_terminal (t_info x)).
  - intros [p [H1 H2]]. exists p. split; [assumption|]. eapply complete_by_grows; eassumption.
  - intros H p Hp. eapply complete_by_grows; [eassumption|]. apply H; assumption.
Qed.

Lemma grows_upd s s' t x x' :
  s_tasks s t = Some x -> s_tasks s' = upd (s_tasks s) t x' ->
  (task_is_complete (t_dyn x) = true ->
     task_is_complete (t_dyn x') = true /\ t_completion_time (t_dyn x') = t_completion_time (t_dyn x)) ->
  grows s s'.
Proof.
  intros Hx Hs Hc p y Hp Cy. rewrite Hs. destruct (Z.eq_dec p t) as [->|Hne].
  - rewrite upd_same. rewrite Hx in Hp. injection Hp as <-. destruct (Hc Cy) as [A B]. exists x'. auto.
  - rewrite upd_other by assumption. exists y. auto.
Qed.

(* parents_ok proves the parents are done by the current clock *)
Lemma parents_ok_done W s x :
  Inv W s -> parents_ok s x = true ->
  forall x', t_info x' = t_info x -> t_start_time (t_dyn x') = s_clock s -> parents_done s x'.
Proof.
  intros I H x' Hi Hs. unfold parents_done, parents_ok in *. rewrite Hi, Hs.
  assert (K : forall p, complete s p = true -> complete_by s p (s_clock s)).
  { intros p Hp. unfold complete in Hp. destruct (s_tasks s p) as [y|] eqn:E; [|discriminate].
    exists y. split; [exact E|]. split; [assumption|].
    pose proof (inv_tasks W s I p y E) as T. apply is_complete_done in Hp.
    destruct (ok_done _ _ T Hp) as [_ [_ [_ [L _]]]]. exact L. }
  destruct (ti_terminal (t_info x)).
  - apply existsb_exists in H. destruct H as [p [H1 H2]]. exists p. split; [assumption|]. apply K. assumption.
  - rewrite forallb_forall in H. intros p Hp. apply K. apply H. assumption.
Qed.

(* one task changes, nothing else does *)
Lemma inv_update1 W s s' t x x' :
  Inv W s -> s_tasks s t = Some x -> same_shape s s' -> s_tasks s' = upd (s_tasks s) t x' ->
  task_is_complete (t_dyn x) = false ->
  t_info x' = t_info x ->
  task_ok (s_clock s) x' ->
  (In t (ids (s_res s)) ->
     st x' = TS_RUNNING \/ (st x' = TS_SCHEDULED /\ cur_is s TASK_PLACEMENT (Some t) = true /\ parents_ok s x = true)) ->
  (st x' = TS_RUNNING -> In t (ids (s_res s)) \/ cur_is s TASK_FINISHED (Some t) = true) ->
  (t_starts x' = 1 -> parents_done s x') ->
  Inv W s'.
Proof.
  intros I Hx [Sc [Sd [Sr Su]]] St Hnc Hi Hok Hres Hrun Hdep.
  assert (G : grows s s') by (eapply grows_upd; [exact Hx|exact St|intros C; congruence]).
  constructor.
  - rewrite Sc. apply (inv_clock W s I).
  - intros u y. rewrite St, Sd. destruct (Z.eq_dec u t) as [->|Hne].
    + intros _. eapply (inv_dom W s I); exact Hx.
    + rewrite upd_other by assumption. apply (inv_dom W s I).
  - intros u y. rewrite St, Sc. destruct (Z.eq_dec u t) as [->|Hne].
    + rewrite upd_same. intros E; injection E as <-. exact Hok.
    + rewrite upd_other by assumption. apply (inv_tasks W s I).
  - rewrite Sr. apply (inv_cap W s I).
  - rewrite Sr. apply (inv_req W s I).
  - rewrite Sr. apply (inv_nodup W s I).
  - intros u. rewrite Sr, St. intros Hu. destruct (Z.eq_dec u t) as [->|Hne].
    + rewrite upd_same. exists x'. split; [reflexivity|]. destruct (Hres Hu) as [A|[A [B C]]]; [left; exact A|right].
      split; [exact A|]. split; [rewrite (cur_is_same s s') by exact Su; exact B|].
      unfold parents_ok. rewrite Hi. eapply parents_ok_grows in C; [|exact G]. exact C.
    + rewrite upd_other by assumption. destruct (inv_res W s I u Hu) as [y [E [A|[A [B C]]]]]; exists y; (split; [exact E|]); [left; exact A|right].
      split; [exact A|]. split; [rewrite (cur_is_same s s') by exact Su; exact B|]. eapply parents_ok_grows; eassumption.
  - intros u y. rewrite St, Sr. destruct (Z.eq_dec u t) as [->|Hne].
    + rewrite upd_same. intros E; injection E as <-. intros R. rewrite (cur_is_same s s') by exact Su. apply Hrun; exact R.
    + rewrite upd_other by assumption. intros E R. rewrite (cur_is_same s s') by exact Su. eapply (inv_run W s I); eassumption.
  - intros u y. rewrite St. destruct (Z.eq_dec u t) as [->|Hne].
    + rewrite upd_same. intros E; injection E as <-. intros S1. eapply parents_done_grows; [exact G|reflexivity|reflexivity|]. apply Hdep; exact S1.
    + rewrite upd_other by assumption. intros E S1. eapply parents_done_grows; [exact G|reflexivity|reflexivity|].
      eapply (inv_dep W s I); eassumption.
Qed.

(* ------------------------------------------------------------------ preservation, event by event *)
Ltac guards H :=
  repeat match type of H with
         | match ?c with _ => _ end = Some _ => destruct c eqn:?; try discriminate H
         | (if ?c then _ else _) = Some _ => destruct c eqn:?; try discriminate H
         | (let '(_, _) := ?c in _) = Some _ => destruct c eqn:?
         end.
Ltac split_andb :=
  repeat match goal with H : (_ && _) = true |- _ => apply andb_true_iff in H; destruct H end.

Lemma event_type_value_inj a b : event_type_value a = event_type_value b -> a = b.
Proof. destruct a, b; cbn; intros H; try reflexivity; discriminate H. Qed.

Lemma cur_is_fun s a b u v : cur_is s a u = true -> cur_is s b v = true -> a = b.
Proof.
  unfold cur_is. destruct (s_cur s) as [[ty t']|]; [|discriminate]. intros H1 H2.
  apply andb_true_iff in H1, H2. destruct H1 as [H1 _], H2 as [H2 _]. unfold event_type_eqb in *.
  apply event_type_value_inj. lia.
Qed.

Lemma cur_is_some s a u : cur_is s a u = true -> s_cur s <> None.
Proof. unfold cur_is. destruct (s_cur s); [discriminate|discriminate]. Qed.

Lemma same_shape_with s f : same_shape s (with_tasks s f).
Proof. unfold same_shape, with_tasks; cbn. auto. Qed.

Lemma not_complete_of_state d :
  t_state d <> TS_COMPLETED -> t_state d <> TS_EVICTED -> task_is_complete d = false.
Proof. unfold task_is_complete. destruct (t_state d); cbn; intros; try reflexivity; congruence. Qed.

Lemma pres_release W s t time s' :
  Inv W s -> sim_step W s (ERelease t time) = Some s' -> Inv W s'.
Proof.
  intros I H. cbn [sim_step] in H.
  destruct (s_tasks s t) as [x|] eqn:Hx; [|discriminate].
  destruct (cur_is s TASK_RELEASE (Some t) && (time =? s_clock s)) eqn:G; [|discriminate].
  destruct (task_release (t_dyn x) (Some time)) as [[dy u]|c] eqn:R; [|discriminate].
  injection H as <-. apply andb_true_iff in G. destruct G as [G1 G2].
  apply release_spec in R. destruct R as [R [R1 [R2 [R3 [R4 [R5 R6]]]]]].
  pose proof (inv_tasks W s I t x Hx) as T. destruct T as [T1 T2 T3 T4 T5 T6]. unfold st in *.
  assert (P1 : pending_state (t_state (t_dyn x))).
  { destruct R as [[A _]|[[A|A] _]]; unfold pending_state; auto. exfalso; apply T1; exact A. }
  assert (P2 : pending_state (t_state dy)).
  { destruct R as [[A [B _]]|[[A|A] [B _]]]; rewrite ?B, ?A; unfold pending_state; auto. exfalso; apply T1; exact A. }
  eapply inv_update1 with (x' := set_dyn x dy); [exact I|exact Hx|apply same_shape_with|reflexivity| | | | | |].
  - apply not_complete_of_state; destruct P1 as [P|[P|[P|P]]]; rewrite P; discriminate.
  - reflexivity.
  - constructor; unfold st; cbn [t_dyn set_dyn t_starts t_finishes t_runtime t_drawn].
    + destruct R as [[A [B _]]|[_ [B _]]]; rewrite B; [discriminate|exact T1].
    + unfold pre_ok in *. destruct R as [[_ [_ C]]|[_ [_ C]]]; rewrite C; auto.
    + rewrite R5. exact T3.
    + intros _. apply T4. exact P1.
    + intros Q. exfalso. destruct P2 as [P|[P|[P|P]]]; congruence.
    + intros Q. exfalso. destruct Q as [Q|Q]; destruct P2 as [P|[P|[P|P]]]; congruence.
  - intros Hin. exfalso. destruct (inv_res W s I t Hin) as [y [E [A|[A [B _]]]]]; rewrite Hx in E; injection E as <-.
    + unfold st in A. destruct R as [[Q _]|[[Q|Q] _]]; congruence.
    + pose proof (cur_is_fun _ _ _ _ _ G1 B) as X. discriminate X.
  - unfold st. cbn [t_dyn set_dyn]. intros Q. exfalso. destruct P2 as [P|[P|[P|P]]]; congruence.
  - cbn [t_starts set_dyn]. intros Q. exfalso. destruct (T4 P1) as [Z0 _]. lia.
Qed.

Lemma pending_not_running a : pending_state a -> a <> TS_RUNNING /\ a <> TS_COMPLETED /\ a <> TS_EVICTED /\ a <> TS_PREEMPTED.
Proof. intros [P|[P|[P|P]]]; subst; repeat split; discriminate. Qed.

(* a task that has not started moves between states in which it has not started *)
Lemma inv_update_pending W s s' t x x' :
  Inv W s -> s_tasks s t = Some x -> same_shape s s' -> s_tasks s' = upd (s_tasks s) t x' ->
  pending_state (st x) -> pending_state (st x') -> pre_ok (t_dyn x') ->
  t_last_step_time (t_dyn x') <= s_clock s -> t_info x' = t_info x ->
  t_starts x' = t_starts x -> t_finishes x' = t_finishes x -> ~ In t (ids (s_res s)) ->
  Inv W s'.
Proof.
  intros I Hx Sh St P1 P2 Hpre Hlast Hi Hs Hf Hnr.
  pose proof (inv_tasks W s I t x Hx) as T. destruct T as [T1 T2 T3 T4 T5 T6].
  destruct (pending_not_running _ P1) as [N1 [N2 [N3 N4]]]. destruct (pending_not_running _ P2) as [M1 [M2 [M3 M4]]].
  eapply inv_update1 with (x' := x'); [exact I|exact Hx|exact Sh|exact St| |exact Hi| | | |].
  - apply not_complete_of_state; assumption.
  - constructor; try assumption.
    + intros _. rewrite Hs, Hf. apply T4. exact P1.
    + intros Q. contradiction.
    + intros [Q|Q]; contradiction.
  - intros Hin. contradiction.
  - intros Q. contradiction.
  - intros Q. exfalso. destruct (T4 P1) as [Z0 _]. lia.
Qed.

Lemma not_resident_if_pending W s t x a :
  Inv W s -> s_tasks s t = Some x -> pending_state (st x) -> cur_is s a None = true -> a <> TASK_PLACEMENT ->
  ~ In t (ids (s_res s)).
Proof.
  intros I Hx P C Ha Hin. destruct (inv_res W s I t Hin) as [y [E [A|[A [B _]]]]]; rewrite Hx in E; injection E as <-.
  - destruct (pending_not_running _ P) as [N _]. contradiction.
  - apply Ha. eapply cur_is_fun; eassumption.
Qed.

Lemma pres_schedule W s t time ptime runtime s' :
  Inv W s -> sim_step W s (ESchedule t time ptime runtime) = Some s' -> Inv W s'.
Proof.
  intros I H. cbn [sim_step] in H.
  destruct (s_tasks s t) as [x|] eqn:Hx; [|discriminate].
  destruct (cur_is s SCHEDULER_FINISHED None && (time =? s_clock s) && (s_clock s <=? ptime)) eqn:G; [|discriminate].
  destruct (task_schedule (t_dyn x) time runtime) as [[dy u]|c] eqn:R; [|discriminate].
  injection H as <-. apply andb_true_iff in G. destruct G as [G G3]. apply andb_true_iff in G. destruct G as [G1 G2].
  apply schedule_spec in R. destruct R as [R [R1 [R2 [R3 [R4 [R5 [R6 [R7 [R8 R9]]]]]]]]].
  pose proof (inv_tasks W s I t x Hx) as T. destruct T as [T1 T2 T3 T4 T5 T6]. unfold st in *.
  assert (P1 : pending_state (t_state (t_dyn x))).
  { destruct R as [A|[A|[A|A]]]; unfold pending_state; auto. exfalso; apply T1; exact A. }
  eapply inv_update_pending with (x' := mkT dy (t_info x) runtime ptime (t_drawn x) (t_starts x) (t_finishes x));
    [exact I|exact Hx|apply same_shape_with|reflexivity|exact P1| | | |reflexivity|reflexivity|reflexivity|].
  - unfold st; cbn [t_dyn]. rewrite R1. unfold pending_state; auto.
  - cbn [t_dyn]. unfold pre_ok in *. rewrite R2. exact T2.
  - cbn [t_dyn]. rewrite R8. exact T3.
  - eapply not_resident_if_pending; [exact I|exact Hx|exact P1|exact G1|discriminate].
Qed.

Lemma pres_unschedule W s t time s' :
  Inv W s -> sim_step W s (EUnschedule t time) = Some s' -> Inv W s'.
Proof.
  intros I H. cbn [sim_step] in H.
  destruct (s_tasks s t) as [x|] eqn:Hx; [|discriminate].
  destruct (cur_is s SCHEDULER_FINISHED None && (time =? s_clock s)) eqn:G; [|discriminate].
  destruct (task_unschedule (t_dyn x) time) as [[dy u]|c] eqn:R; [|discriminate].
  injection H as <-. apply andb_true_iff in G. destruct G as [G1 G2].
  apply unschedule_spec in R. destruct R as [R [R1 [R2 [R3 [R4 [R5 [R6 [R7 R8]]]]]]]].
  pose proof (inv_tasks W s I t x Hx) as T. destruct T as [T1 T2 T3 T4 T5 T6]. unfold st in *.
  assert (P1 : pending_state (t_state (t_dyn x))) by (rewrite R; unfold pending_state; auto).
  eapply inv_update_pending with (x' := set_dyn x dy);
    [exact I|exact Hx|apply same_shape_with|reflexivity|exact P1| | | |reflexivity|reflexivity|reflexivity|].
  - unfold st; cbn [t_dyn set_dyn]. rewrite R1. unfold pre_ok in T2. destruct T2 as [E|E]; rewrite E; unfold pending_state; auto.
  - cbn [t_dyn set_dyn]. unfold pre_ok in *. rewrite R2. exact T2.
  - cbn [t_dyn set_dyn]. rewrite R7. exact T3.
  - eapply not_resident_if_pending; [exact I|exact Hx|exact P1|exact G1|discriminate].
Qed.

Lemma pres_cancel W s t time s' :
  Inv W s -> sim_step W s (ECancel t time) = Some s' -> Inv W s'.
Proof.
  intros I H. cbn [sim_step] in H.
  destruct (s_tasks s t) as [x|] eqn:Hx; [|discriminate].
  destruct ((time =? s_clock s) && negb (resident (s_res s) t)) eqn:G; [|discriminate].
  destruct (task_cancel (t_dyn x) time) as [[dy u]|c] eqn:R; [|discriminate].
  injection H as <-. apply andb_true_iff in G. destruct G as [G1 G2].
  apply cancel_spec in R. destruct R as [R [R1 [R2 [R3 [R4 [R5 [R6 [R7 [R8 R9]]]]]]]]].
  pose proof (inv_tasks W s I t x Hx) as T. destruct T as [T1 T2 T3 T4 T5 T6]. unfold st in *.
  assert (P1 : pending_state (t_state (t_dyn x))) by (destruct R as [A|[A|A]]; rewrite A; unfold pending_state; auto).
  eapply inv_update_pending with (x' := set_dyn x dy);
    [exact I|exact Hx|apply same_shape_with|reflexivity|exact P1| | | |reflexivity|reflexivity|reflexivity|].
  - unfold st; cbn [t_dyn set_dyn]. rewrite R1. unfold pending_state; auto.
  - cbn [t_dyn set_dyn]. unfold pre_ok in *. rewrite R8. exact T2.
  - cbn [t_dyn set_dyn]. rewrite R7. exact T3.
  - intros Hin. apply resident_In in Hin. rewrite Hin in G2. discriminate G2.
Qed.

Lemma parents_done_ext s x x' :
  t_info x' = t_info x -> t_start_time (t_dyn x') = t_start_time (t_dyn x) -> parents_done s x -> parents_done s x'.
Proof. unfold parents_done. intros -> ->. auto. Qed.

Lemma pres_start W s t time draw s' :
  Inv W s -> sim_step W s (EStart t time draw) = Some s' -> Inv W s'.
Proof.
  intros I H. cbn [sim_step] in H.
  destruct (s_tasks s t) as [x|] eqn:Hx; [|discriminate].
  destruct (cur_is s TASK_PLACEMENT (Some t) && (time =? s_clock s) && resident (s_res s) t && (t_runtime x <=? draw)
            && (100 * draw <=? 100 * t_runtime x + t_runtime x * w_variance W + 50)) eqn:G; [|discriminate].
  destruct (task_start (t_dyn x) (Some time) draw) as [[dy u]|c] eqn:R; [|discriminate].
  injection H as <-. split_andb.
  match goal with H : cur_is s TASK_PLACEMENT _ = true |- _ => rename H into G1 end.
  match goal with H : resident _ _ = true |- _ => rename H into G3; apply resident_In in G3 end.
  assert (time = s_clock s) as -> by lia.
  apply start_spec in R. destruct R as [R [R1 [R2 [R3 [R4 [R5 [R6 [R7 [R8 [R9 R10]]]]]]]]]].
  pose proof (inv_tasks W s I t x Hx) as T. destruct T as [T1 T2 T3 T4 T5 T6]. unfold st in *.
  assert (P1 : pending_state (t_state (t_dyn x))) by (rewrite R; unfold pending_state; auto).
  destruct (T4 P1) as [S0 F0].
  eapply inv_update1 with (x' := mkT dy (t_info x) (t_runtime x) (t_ptime x) draw (t_starts x + 1) (t_finishes x));
    [exact I|exact Hx|apply same_shape_with|reflexivity| |reflexivity| | | |].
  - apply not_complete_of_state; rewrite R; discriminate.
  - constructor; unfold st; cbn [t_dyn t_starts t_finishes t_runtime t_drawn].
    + rewrite R1; discriminate.
    + unfold pre_ok in *. rewrite R9. exact T2.
    + lia.
    + rewrite R1. intros [P|[P|[P|P]]]; discriminate P.
    + intros _. repeat split; try lia.
    + rewrite R1. intros [P|P]; discriminate P.
  - intros _. left. unfold st; cbn [t_dyn]. exact R1.
  - intros _. left. exact G3.
  - intros _. destruct (inv_res W s I t G3) as [y [E [A|[A [B C]]]]]; rewrite Hx in E; injection E as <-.
    + unfold st in A. congruence.
    + eapply parents_ok_done; [exact I|exact C|reflexivity|cbn [t_dyn]; exact R2].
Qed.

Lemma pres_finish W s t s' :
  Inv W s -> sim_step W s (EFinish t) = Some s' -> Inv W s'.
Proof.
  intros I H. cbn [sim_step] in H.
  destruct (s_tasks s t) as [x|] eqn:Hx; [|discriminate].
  destruct (cur_is s TASK_FINISHED (Some t) && negb (resident (s_res s) t)) eqn:G; [|discriminate].
  destruct (task_finish (t_dyn x) None) as [[dy u]|c] eqn:R; [|discriminate].
  injection H as <-. apply andb_true_iff in G. destruct G as [G1 G2].
  apply finish_spec in R. destruct R as [R [R1 [R2 [R3 [R4 [R5 [R6 [R7 R8]]]]]]]].
  pose proof (inv_tasks W s I t x Hx) as T. destruct T as [T1 T2 T3 T4 T5 T6]. unfold st in *.
  destruct R as [R|R]; [|contradiction].
  destruct (T5 R) as [S1 [F0 [Rem0 [St [Rel [Rt [Dr [Pos Zero]]]]]]]].
  eapply inv_update1 with (x' := mkT dy (t_info x) (t_runtime x) (t_ptime x) (t_drawn x) (t_starts x) (t_finishes x + 1));
    [exact I|exact Hx| |reflexivity| |reflexivity| | | |].
  - unfold same_shape; cbn. auto.
  - apply not_complete_of_state; rewrite R; discriminate.
  - assert (D : done_state (t_state dy)) by (destruct R1 as [[_ B]|[_ B]]; rewrite B; unfold done_state; auto).
    assert (Hl : t_start_time (t_dyn x) <= t_last_step_time (t_dyn x)).
    { destruct (Z_lt_le_dec 0 (t_remaining_time (t_dyn x))) as [Hp|Hz]; [destruct (Pos Hp); lia|].
      assert (t_remaining_time (t_dyn x) = 0) as Z0 by lia. destruct (Zero Z0) as [Zr _]. rewrite Zr. lia. }
    constructor; unfold st; cbn [t_dyn t_starts t_finishes t_runtime t_drawn].
    + destruct D as [D|D]; rewrite D; discriminate.
    + unfold pre_ok in *. rewrite R7. exact T2.
    + rewrite R6. exact T3.
    + intros P. exfalso. destruct D as [D|D]; rewrite D in P; destruct P as [P|[P|[P|P]]]; discriminate P.
    + intros Q. exfalso. destruct D as [D|D]; congruence.
    + intros _. rewrite R2, R3, R4. repeat split; try lia.
      intros C. destruct R1 as [[Z0 _]|[_ B]]; [destruct (Zero Z0) as [Zr _]; rewrite Zr; reflexivity|congruence].
  - intros Hin. apply resident_In in Hin. rewrite Hin in G2. discriminate G2.
  - unfold st; cbn [t_dyn]. intros Q. exfalso. destruct R1 as [[_ B]|[_ B]]; congruence.
  - cbn [t_starts]. intros _. eapply parents_done_ext with (x := x); [reflexivity|cbn [t_dyn]; exact R3|].
    eapply (inv_dep W s I); eassumption.
Qed.

(* ---- events that change the set of resident tasks *)
Lemma fits_cap W res w req r :
  fits W res w req = true -> used res w r + qty req r <= w_cap W w r \/ qty req r = 0.
Proof.
  unfold fits. intros H. apply andb_true_iff in H. destruct H as [H _]. rewrite forallb_forall in H.
  destruct (existsb (fun nq => fst nq =? r) req) eqn:E.
  - apply existsb_exists in E. destruct E as [nq [Hin Hr]]. specialize (H nq Hin). left.
    assert (fst nq = r) as <- by lia. lia.
  - right. apply qty_absent. intros nq Hin Hr. assert (existsb (fun nq => fst nq =? r) req = true) as X.
    { apply existsb_exists. exists nq. split; [assumption|lia]. }
    congruence.
Qed.

Lemma grows_refl s s' : s_tasks s' = s_tasks s -> grows s s'.
Proof. intros E p y Hp C. rewrite E. exists y. auto. Qed.

Lemma parents_ok_same s s' x : s_tasks s' = s_tasks s -> parents_ok s' x = parents_ok s x.
Proof.
  intros E. unfold parents_ok, complete. rewrite E. reflexivity.
Qed.

Lemma parents_done_same s s' x : s_tasks s' = s_tasks s -> parents_done s x -> parents_done s' x.
Proof. intros E. apply parents_done_grows; [apply grows_refl; exact E|reflexivity|reflexivity]. Qed.

(* the translated readiness test (Task.is_ready_to_run) gives what the invariant needs: the parents the task waits for
   are complete (one of them for a join) and the task is SCHEDULED or PREEMPTED *)
Lemma existsb_id_map {A} (f : A -> bool) l : existsb (fun b => b) (map f l) = existsb f l.
Proof. induction l as [|a l IH]; cbn; [reflexivity|]. rewrite IH. reflexivity. Qed.
Lemma forallb_id_map {A} (f : A -> bool) l : forallb (fun b => b) (map f l) = forallb f l.
Proof. induction l as [|a l IH]; cbn; [reflexivity|]. rewrite IH. reflexivity. Qed.
Lemma is_ready_spec s x : is_ready s x = true ->
  parents_ok s x = true /\
  (task_state_eqb (t_state (t_dyn x)) TS_SCHEDULED || task_state_eqb (t_state (t_dyn x)) TS_PREEMPTED) = true.
Proof.
  unfold is_ready, Src_TaskGraph.is_ready_to_run, parents_ok. intros H. apply andb_true_iff in H. destruct H as [Hp Hs].
  split; [|exact Hs]. destruct (ti_terminal (t_info x)).
  - apply andb_true_iff in Hp. destruct Hp as [Hp _]. rewrite existsb_id_map in Hp. exact Hp.
  - rewrite forallb_id_map in Hp. exact Hp.
Qed.

Lemma pres_place W s t w req s' :
  Inv W s -> sim_step W s (EPlace t w req) = Some s' -> Inv W s'.
Proof.
  intros I H. cbn [sim_step] in H.
  destruct (s_tasks s t) as [x|] eqn:Hx; [|discriminate].
  destruct (cur_is s TASK_PLACEMENT (Some t) && is_ready s x && fits W (s_res s) w req && negb (resident (s_res s) t)) eqn:G; [|discriminate].
  injection H as <-. split_andb.
  match goal with H : cur_is s TASK_PLACEMENT _ = true |- _ => rename H into G1 end.
  match goal with H : is_ready _ _ = true |- _ => rename H into G2 end.
  match goal with H : fits _ _ _ _ = true |- _ => rename H into G3 end.
  match goal with H : negb _ = true |- _ => rename H into G4 end.
  assert (Hnr : ~ In t (ids (s_res s))) by (intro X; apply resident_In in X; rewrite X in G4; discriminate G4).
  pose proof (inv_tasks W s I t x Hx) as T. destruct T as [T1 T2 T3 T4 T5 T6]. unfold st in *.
  apply is_ready_spec in G2. destruct G2 as [Gp Gs].
  assert (Hs : t_state (t_dyn x) = TS_SCHEDULED).
  { apply orb_true_iff in Gs. destruct Gs as [Gs|Gs]; apply ts_eqb_true in Gs; [exact Gs|contradiction]. }
  constructor; cbn [s_clock s_tasks s_dom s_res s_cur].
  - apply (inv_clock W s I).
  - apply (inv_dom W s I).
  - apply (inv_tasks W s I).
  - intros w' r. cbn [used]. destruct (w =? w') eqn:E.
    + assert (w = w') as <- by lia. pose proof (inv_cap W s I w r). destruct (fits_cap W _ _ _ r G3); lia.
    + pose proof (inv_cap W s I w' r). lia.
  - intros e [<-|He] r; [|apply (inv_req W s I); exact He]. cbn [snd]. apply qty_nonneg.
    unfold fits in G3. apply andb_true_iff in G3. tauto.
  - cbn [ids map fst]. constructor; [exact Hnr|apply (inv_nodup W s I)].
  - cbn [ids map fst]. intros u [<-|Hu].
    + exists x. split; [exact Hx|]. right. unfold st. split; [exact Hs|]. split; [|exact Gp].
      rewrite <- G1. apply cur_is_same. reflexivity.
    + destruct (inv_res W s I u Hu) as [y [E [A|[A [B C]]]]]; exists y; (split; [exact E|]); [left; exact A|right].
      split; [exact A|]. split; [rewrite <- B; apply cur_is_same; reflexivity|].
      rewrite <- C. apply parents_ok_same. reflexivity.
  - cbn [ids map fst]. intros u y E R. destruct (inv_run W s I u y E R) as [A|A]; [left; right; exact A|right].
    rewrite <- A. apply cur_is_same. reflexivity.
  - intros u y E S1. eapply parents_done_same; [reflexivity|]. eapply (inv_dep W s I); eassumption.
Qed.

Lemma remove_res_keeps res t u : u <> t -> In u (ids res) -> In u (ids (remove_res res t)).
Proof.
  induction res as [|e rest IH]; cbn; intros Hne H; [contradiction|].
  destruct (fst (fst e) =? t) eqn:E.
  - destruct H as [H|H]; [lia|exact H].
  - cbn. destruct H as [H|H]; [left; exact H|right; apply IH; assumption].
Qed.

Lemma pres_remove W s t w s' :
  Inv W s -> sim_step W s (ERemove t w) = Some s' -> Inv W s'.
Proof.
  intros I H. cbn [sim_step] in H.
  destruct (cur_is s TASK_FINISHED (Some t) && resident_on (s_res s) t w) eqn:G; [|discriminate].
  injection H as <-. apply andb_true_iff in G. destruct G as [G1 G2].
  constructor; cbn [s_clock s_tasks s_dom s_res s_cur].
  - apply (inv_clock W s I).
  - apply (inv_dom W s I).
  - apply (inv_tasks W s I).
  - intros w' r. pose proof (inv_cap W s I w' r).
    pose proof (used_remove_le (s_res s) t w' r (fun e He => inv_req W s I e He r)). lia.
  - intros e He. apply (inv_req W s I). eapply remove_res_In; exact He.
  - apply remove_res_nodup. apply (inv_nodup W s I).
  - intros u Hu. apply remove_res_ids in Hu.
    destruct (inv_res W s I u Hu) as [y [E [A|[A [B C]]]]]; exists y; (split; [exact E|]); [left; exact A|right].
    split; [exact A|]. split; [rewrite <- B; apply cur_is_same; reflexivity|].
    rewrite <- C. apply parents_ok_same. reflexivity.
  - intros u y E R. destruct (Z.eq_dec u t) as [->|Hne].
    + right. rewrite <- G1. apply cur_is_same. reflexivity.
    + destruct (inv_run W s I u y E R) as [A|A]; [left; apply remove_res_keeps; assumption|right].
      rewrite <- A. apply cur_is_same. reflexivity.
  - intros u y E S1. eapply parents_done_same; [reflexivity|]. eapply (inv_dep W s I); eassumption.
Qed.

(* ---- events that change the handler context *)
Lemma cur_is_none s ty t : s_cur s = None -> cur_is s ty t = false.
Proof. unfold cur_is. intros ->. reflexivity. Qed.

Lemma pres_handle W s ty time t s' :
  Inv W s -> sim_step W s (EHandle ty time t) = Some s' -> Inv W s'.
Proof.
  intros I H. cbn [sim_step] in H.
  destruct (s_cur s) as [c|] eqn:Hc; [discriminate|].
  destruct (time =? s_clock s) eqn:G; [|discriminate]. injection H as <-.
  constructor; cbn [s_clock s_tasks s_dom s_res s_cur].
  - apply (inv_clock W s I).
  - apply (inv_dom W s I).
  - apply (inv_tasks W s I).
  - apply (inv_cap W s I).
  - apply (inv_req W s I).
  - apply (inv_nodup W s I).
  - intros u Hu. destruct (inv_res W s I u Hu) as [y [E [A|[A [B C]]]]]; exists y; (split; [exact E|]); [left; exact A|].
    rewrite (cur_is_none s _ _ Hc) in B. discriminate B.
  - intros u y E R. destruct (inv_run W s I u y E R) as [A|A]; [left; exact A|].
    rewrite (cur_is_none s _ _ Hc) in A. discriminate A.
  - intros u y E S1. eapply parents_done_same; [reflexivity|]. eapply (inv_dep W s I); eassumption.
Qed.

Lemma pres_handled W s s' :
  Inv W s -> sim_step W s EHandled = Some s' -> Inv W s'.
Proof.
  intros I H. cbn [sim_step] in H.
  destruct (s_cur s) as [c|] eqn:Hc; [|discriminate].
  destruct (quiescent_ok s) eqn:Q; [|discriminate]. injection H as <-.
  unfold quiescent_ok in Q. apply andb_true_iff in Q. destruct Q as [Q1 Q2]. rewrite forallb_forall in Q1, Q2.
  constructor; cbn [s_clock s_tasks s_dom s_res s_cur].
  - apply (inv_clock W s I).
  - apply (inv_dom W s I).
  - apply (inv_tasks W s I).
  - apply (inv_cap W s I).
  - apply (inv_req W s I).
  - apply (inv_nodup W s I).
  - intros u Hu. unfold ids in Hu. apply in_map_iff in Hu. destruct Hu as [e [<- He]]. specialize (Q1 e He).
    unfold running in Q1. destruct (s_tasks s (fst (fst e))) as [y|] eqn:E; [|discriminate].
    exists y. split; [reflexivity|]. left. apply ts_eqb_true. exact Q1.
  - intros u y E R. left. specialize (Q2 u (inv_dom W s I u y E)). unfold running in Q2. rewrite E in Q2.
    unfold st in R. rewrite R in Q2. cbn in Q2. apply resident_In. exact Q2.
  - intros u y E S1. eapply parents_done_same; [reflexivity|]. eapply (inv_dep W s I); eassumption.
Qed.

(* ---- the clock: one iteration of simulate() *)
Lemma task_ok_later c c' x :
  c <= c' -> st x <> TS_RUNNING -> task_ok c x -> task_ok c' x.
Proof.
  intros L N [T1 T2 T3 T4 T5 T6]. constructor; try assumption.
  - lia.
  - intros Q. contradiction.
  - intros D. destruct (T6 D) as [A [B [C [E F]]]]. repeat split; try assumption; try lia; tauto.
Qed.

Lemma pres_step W s d next s' :
  Inv W s -> sim_step W s (EStep d next) = Some s' -> Inv W s'.
Proof.
  intros I H. cbn [sim_step] in H.
  destruct (s_cur s) as [c|] eqn:Hc; [discriminate|].
  remember (match min_rem s (s_res s) with
            | Some m => if m <? next - s_clock s then m else next - s_clock s
            | None => next - s_clock s end) as expect eqn:He.
  destruct ((d =? expect) && (0 <=? d)) eqn:G; [|discriminate].
  destruct (step_tasks (s_tasks s) (s_res s) (s_clock s) d) as [f|] eqn:Hst; [|discriminate].
  injection H as <-. apply andb_true_iff in G. destruct G as [G1 G2].
  destruct (step_tasks_spec _ _ _ _ _ Hst (inv_nodup W s I)) as [Out In_].
  (* every resident task is RUNNING here (no handler is active) *)
  assert (ResRun : forall u, In u (ids (s_res s)) -> exists x, s_tasks s u = Some x /\ st x = TS_RUNNING).
  { intros u Hu. destruct (inv_res W s I u Hu) as [y [E [A|[A [B C]]]]]; [exists y; auto|].
    rewrite (cur_is_none s _ _ Hc) in B. discriminate B. }
  assert (RunRes : forall u y, s_tasks s u = Some y -> st y = TS_RUNNING -> In u (ids (s_res s))).
  { intros u y E R. destruct (inv_run W s I u y E R) as [A|A]; [exact A|]. rewrite (cur_is_none s _ _ Hc) in A. discriminate A. }
  (* the step never exceeds the remaining time of a resident task *)
  assert (Dle : forall u x, In u (ids (s_res s)) -> s_tasks s u = Some x -> d <= t_remaining_time (t_dyn x)).
  { intros u x Hu E. destruct (min_rem_le s (s_res s) u Hu) as [m [Em Lm]]. unfold rem_of in Lm. rewrite E in Lm.
    rewrite Em in He. destruct (m <? next - s_clock s) eqn:C; lia. }
  assert (G : grows s (mkSim (s_clock s + d) f (s_dom s) (s_res s) None (s_fin s) (s_canc s))).
  { intros p y Hp Cy. cbn [s_tasks]. destruct (in_dec Z.eq_dec p (ids (s_res s))) as [Hin|Hnin].
    - destruct (ResRun p Hin) as [x [E R]]. rewrite Hp in E. injection E as <-. apply is_complete_done in Cy.
      unfold st in R. destruct Cy as [Cy|Cy]; congruence.
    - rewrite (Out p Hnin). exists y. auto. }
  (* what happens to a resident task *)
  assert (Stepped : forall u x, In u (ids (s_res s)) -> s_tasks s u = Some x ->
            exists dy, f u = Some (set_dyn x dy) /\ t_state dy = TS_RUNNING /\ t_start_time dy = t_start_time (t_dyn x) /\
                       task_ok (s_clock s + d) (set_dyn x dy)).
  { intros u x Hu E. destruct (In_ u Hu) as [x0 [dy [b [E0 [Ts Fu]]]]]. rewrite E in E0. injection E0 as <-.
    exists dy. split; [exact Fu|]. destruct (ResRun u Hu) as [x1 [E1 R]]. rewrite E in E1. injection E1 as <-.
    pose proof (inv_tasks W s I u x E) as T. destruct T as [T1 T2 T3 T4 T5 T6]. unfold st in *.
    destruct (T5 R) as [S1 [F0 [Rem0 [St [Rel [Rt [Dr [Pos Zero]]]]]]]].
    pose proof (Dle u x Hu E) as Dl.
    apply step_spec in Ts. destruct Ts as [A1 [A2 [A3 [A4 [A5 [A6 [A7 [A8 A9]]]]]]]].
    split; [congruence|]. split; [exact A4|].
    destruct (Z.eq_dec (t_remaining_time (t_dyn x)) 0) as [Z0|NZ].
    - (* waiting for its TASK_FINISHED event: nothing moves, not even the clock *)
      assert (d = 0) by lia. subst d. rewrite (A8 R Z0). replace (s_clock s + 0) with (s_clock s) by lia.
      replace (set_dyn x (t_dyn x)) with x by (destruct x; reflexivity).
      constructor; assumption.
    - assert (Hp : 0 < t_remaining_time (t_dyn x)) by lia. destruct (Pos Hp) as [L1 L2].
      specialize (A9 R ltac:(lia) NZ). cbv zeta in A9. rewrite L1 in A9.
      constructor; unfold st; cbn [t_dyn set_dyn t_starts t_finishes t_runtime t_drawn].
      + congruence.
      + unfold pre_ok in *. rewrite A2. exact T2.
      + destruct A9 as [[B1 [B2 [B3 B4]]]|[B1 [B2 [B3 B4]]]]; lia.
      + intros P. exfalso. rewrite A1, R in P. destruct P as [P|[P|[P|P]]]; discriminate P.
      + intros _. rewrite A3, A4. destruct A9 as [[B1 [B2 [B3 B4]]]|[B1 [B2 [B3 B4]]]]; repeat split; try lia.
      + intros D. exfalso. rewrite A1, R in D. destruct D as [D|D]; discriminate D. }
  constructor; cbn [s_clock s_tasks s_dom s_res s_cur].
  - pose proof (inv_clock W s I). lia.
  - intros u y E. destruct (in_dec Z.eq_dec u (ids (s_res s))) as [Hin|Hnin].
    + destruct (ResRun u Hin) as [x [Ex _]]. eapply (inv_dom W s I); exact Ex.
    + rewrite (Out u Hnin) in E. eapply (inv_dom W s I); exact E.
  - intros u y E. destruct (in_dec Z.eq_dec u (ids (s_res s))) as [Hin|Hnin].
    + destruct (ResRun u Hin) as [x [Ex _]]. destruct (Stepped u x Hin Ex) as [dy [Fu [_ [_ Ok]]]].
      rewrite Fu in E. injection E as <-. exact Ok.
    + rewrite (Out u Hnin) in E. apply task_ok_later with (c := s_clock s); [lia| |apply (inv_tasks W s I u y E)].
      intros R. apply Hnin. eapply RunRes; eassumption.
  - apply (inv_cap W s I).
  - apply (inv_req W s I).
  - apply (inv_nodup W s I).
  - intros u Hu. destruct (ResRun u Hu) as [x [Ex _]]. destruct (Stepped u x Hu Ex) as [dy [Fu [R _]]].
    exists (set_dyn x dy). split; [exact Fu|]. left. exact R.
  - intros u y E R. left. destruct (in_dec Z.eq_dec u (ids (s_res s))) as [Hin|Hnin]; [exact Hin|].
    rewrite (Out u Hnin) in E. eapply RunRes; eassumption.
  - intros u y E S1. destruct (in_dec Z.eq_dec u (ids (s_res s))) as [Hin|Hnin].
    + destruct (ResRun u Hin) as [x [Ex _]]. destruct (Stepped u x Hin Ex) as [dy [Fu [_ [St _]]]].
      rewrite Fu in E. injection E as <-. eapply parents_done_grows with (x := x); [exact G|reflexivity|exact St|].
      eapply (inv_dep W s I); [exact Ex|exact S1].
    + rewrite (Out u Hnin) in E. eapply parents_done_grows; [exact G|reflexivity|reflexivity|].
      eapply (inv_dep W s I); eassumption.
Qed.

(* ---- a new task graph is loaded *)
Lemma pres_graph W s ts s' :
  Inv W s -> sim_step W s (EGraph ts) = Some s' -> Inv W s'.
Proof.
  intros I H. cbn [sim_step] in H.
  destruct (fresh s ts && nodup_ids ts) eqn:G; [|discriminate]. injection H as <-.
  apply andb_true_iff in G. destruct G as [G1 G2].
  assert (Old : forall u y, s_tasks s u = Some y -> add_tasks (s_tasks s) ts u = Some y).
  { intros u y E. rewrite add_tasks_other; [exact E|]. eapply fresh_spec; eassumption. }
  assert (Gr : grows s (mkSim (s_clock s) (add_tasks (s_tasks s) ts) (map (fun e => fst (fst (fst e))) ts ++ s_dom s)
                              (s_res s) (s_cur s) (s_fin s) (s_canc s))).
  { intros p y Hp Cy. exists y. cbn [s_tasks]. rewrite (Old p y Hp). auto. }
  assert (Split : forall u y, add_tasks (s_tasks s) ts u = Some y ->
            s_tasks s u = Some y \/ (In u (map (fun e => fst (fst (fst e))) ts) /\
                                     exists info rel dl, y = mkT (task_init rel dl) info 0 (-1) (-1) 0 0)).
  { intros u y E. destruct (in_dec Z.eq_dec u (map (fun e => fst (fst (fst e))) ts)) as [Hin|Hnin].
    - right. split; [exact Hin|]. destruct (add_tasks_new ts (s_tasks s) u G2 Hin) as [info [rel [dl E']]].
      rewrite E' in E. injection E as <-. eauto.
    - left. rewrite add_tasks_other in E; [exact E|]. intros e He X. apply Hnin. apply in_map_iff. exists e. auto. }
  constructor; cbn [s_clock s_tasks s_dom s_res s_cur].
  - apply (inv_clock W s I).
  - intros u y E. apply in_or_app. destruct (Split u y E) as [A|[A _]]; [right; eapply (inv_dom W s I); exact A|left; exact A].
  - intros u y E. destruct (Split u y E) as [A|[_ [info [rel [dl ->]]]]]; [apply (inv_tasks W s I u y A)|].
    pose proof (inv_clock W s I). unfold task_init.
    constructor; unfold st; cbn [t_dyn t_state t_pre_scheduling_state t_last_step_time t_starts t_finishes].
    + discriminate.
    + unfold pre_ok. cbn. left. reflexivity.
    + lia.
    + intros _. split; reflexivity.
    + intros Q; discriminate Q.
    + intros [Q|Q]; discriminate Q.
  - apply (inv_cap W s I).
  - apply (inv_req W s I).
  - apply (inv_nodup W s I).
  - intros u Hu. destruct (inv_res W s I u Hu) as [y [E [A|[A [B C]]]]]; exists y; (split; [apply Old; exact E|]); [left; exact A|right].
    split; [exact A|]. split; [rewrite <- B; apply cur_is_same; reflexivity|]. eapply parents_ok_grows; [exact Gr|exact C].
  - intros u y E R. destruct (Split u y E) as [A|[_ [info [rel [dl ->]]]]].
    + destruct (inv_run W s I u y A R) as [X|X]; [left; exact X|right]. rewrite <- X. apply cur_is_same. reflexivity.
    + unfold st, task_init in R. cbn in R. discriminate R.
  - intros u y E S1. destruct (Split u y E) as [A|[_ [info [rel [dl ->]]]]].
    + eapply parents_done_grows; [exact Gr|reflexivity|reflexivity|]. eapply (inv_dep W s I); eassumption.
    + cbn in S1. discriminate S1.
Qed.

(* ------------------------------------------------------------------ every accepted log *)
Theorem step_preserves_inv W s e s' : Inv W s -> sim_step W s e = Some s' -> Inv W s'.
Proof.
  intros I H. destruct e.
  - eapply pres_graph; eassumption.
  - eapply pres_step; eassumption.
  - eapply pres_handle; eassumption.
  - eapply pres_handled; eassumption.
  - eapply pres_release; eassumption.
  - eapply pres_schedule; eassumption.
  - eapply pres_unschedule; eassumption.
  - eapply pres_place; eassumption.
  - eapply pres_start; eassumption.
  - eapply pres_remove; eassumption.
  - eapply pres_finish; eassumption.
  - eapply pres_cancel; eassumption.
Qed.

Theorem exec_preserves_inv W l : forall s s', Inv W s -> sim_exec W s l = Some s' -> Inv W s'.
Proof.
  induction l as [|e rest IH]; cbn [sim_exec]; intros s s' I H.
  - injection H as <-. exact I.
  - destruct (sim_step W s e) as [s1|] eqn:E; [|discriminate]. eapply IH; [|exact H]. eapply step_preserves_inv; eassumption.
Qed.

Theorem reachable_inv W l s : cap_nonneg W -> sim_exec W sim_init l = Some s -> Inv W s.
Proof. intros HW H. eapply exec_preserves_inv; [apply inv_init; exact HW|exact H]. Qed.
