(* C20 — part 9: the Min monitor decides its statement. *)
From Coq Require Import ZArith Bool List Lia ZifyBool.
Import ListNotations.
From Verif Require Import Model.Val Model.Strl Proofs.StrlP Proofs.StrlP4.
Open Scope Z_scope.

Definition placed (pls : list placement) (e : expr) : Prop :=
  exists pl, In pl pls /\ In (pl_name pl) (choose_ids e).

Definition min_ok (e : expr) (pls : list placement) : Prop :=
  forall n ks, In (Min n ks) (subs e) ->
    (forall k, In k ks -> choose_ids k <> [] -> placed pls k) \/
    (forall k, In k ks -> choose_ids k <> [] -> ~ placed pls k).

Lemma has_placement_iff : forall pls e, has_placement pls e = true <-> placed pls e.
Proof.
  intros. unfold has_placement, placed. rewrite existsb_exists. split.
  - intros [pl [H1 H2]]. exists pl. split; [exact H1|apply memZ_in; exact H2].
  - intros [pl [H1 H2]]. exists pl. split; [exact H1|apply memZ_in; exact H2].
Qed.

Lemma min_okb_iff : forall e pls, min_okb e pls = true <-> min_ok e pls.
Proof.
  intros e pls. unfold min_okb, min_ok. rewrite forallb_forall. split.
  - intros H n ks Hin. specialize (H _ Hin). cbn [min_node_okb] in H. apply orb_true_iff in H. destruct H as [H|H].
    + left. intros k Hk Hne. rewrite forallb_forall in H. apply has_placement_iff. apply H.
      apply filter_In. split; [exact Hk|]. destruct (choose_ids k); [congruence|reflexivity].
    + right. intros k Hk Hne Hp. apply negb_true_iff in H.
      assert (existsb (has_placement pls) (filter (fun k0 => match choose_ids k0 with [] => false | _ => true end) ks) = true); [|congruence].
      apply existsb_exists. exists k. split; [|apply has_placement_iff; exact Hp].
      apply filter_In. split; [exact Hk|]. destruct (choose_ids k); [congruence|reflexivity].
  - intros H x Hx. destruct x; try reflexivity. cbn [min_node_okb]. apply orb_true_iff.
    destruct (H n kids Hx) as [Hall|Hnone].
    + left. apply forallb_forall. intros k Hk. apply filter_In in Hk. destruct Hk as [Hk Hc].
      apply has_placement_iff. apply Hall; [exact Hk|]. destruct (choose_ids k); [discriminate|discriminate].
    + right. apply negb_true_iff. destruct (existsb _ _) eqn:He; [|reflexivity]. exfalso.
      apply existsb_exists in He. destruct He as [k [Hk Hp]]. apply filter_In in Hk. destruct Hk as [Hk Hc].
      apply (Hnone k Hk); [destruct (choose_ids k); discriminate|apply has_placement_iff; exact Hp].
Qed.
