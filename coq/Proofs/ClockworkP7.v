(* Lemmas about Model/Clockwork.v, part 7: whole runs from start(), one decision per request, and the
   monitors (decidable forms) with their specifications. *)
From Coq Require Import ZArith Bool List Lia ZifyBool Sorting.Sorted Permutation.
Import ListNotations.
From Verif Require Import Model.Val Gen.Src_Clockwork Model.Clockwork Proofs.ClockworkP Proofs.ClockworkP2 Proofs.ClockworkP3
  Proofs.ClockworkP4 Proofs.ClockworkP5 Proofs.ClockworkP6.
Open Scope Z_scope.

(* ------------------------------------------------------------------ the state left by start() *)
Lemma cw_start_ids : forall wd l x, In x (map m_id (cw_start wd l)) -> In x l.
Proof.
  intros wd l. induction l as [|mid l IH]; intros x H; cbn [cw_start filter_map] in H; [destruct H|].
  destruct (zassoc mid wd) as [ss|]; [|right; apply IH; assumption].
  cbn [map new_model m_id] in H. destruct H as [<-|H]; [left; reflexivity|right; apply IH; assumption].
Qed.
Lemma cw_start_inv : forall wd started, world_wf wd -> NoDup started ->
  Inv_st wd (cw_start wd started) /\ st_recs (cw_start wd started) = [].
Proof.
  intros wd started Hw. induction started as [|mid l IH]; intros Hd.
  - cbn. split; [constructor; constructor|reflexivity].
  - inversion Hd as [|? ? Hn Hd']; subst. destruct (IH Hd') as [[H1 H2 H3] H4]. unfold cw_start in *. cbn [filter_map].
    destruct (zassoc mid wd) as [ss|] eqn:Ez; [|split; [constructor; assumption|assumption]].
    split; [constructor|].
    + cbn [map new_model m_id]. constructor; [|assumption]. intros Hc. apply Hn. eapply cw_start_ids. exact Hc.
    + constructor; [apply new_model_inv; eapply Hw; eassumption|assumption].
    + constructor; [|assumption]. unfold conforms. cbn [new_model m_id m_queues]. rewrite map_map. cbn [fst]. rewrite map_id. assumption.
    + unfold st_recs in *. cbn [flat_map new_model m_tasks map app]. assumption.
Qed.

(* ------------------------------------------------------------------ every invocation of a run *)
Definition res_all (P : decisions -> Prop) (r : result decisions) : Prop := match r with Ok d => P d | Err _ => True end.
Lemma run_batches_ok : forall wd ls invs st, world_wf wd -> Inv_st wd st ->
  Forall (res_all (fun d => Forall (batch_ok wd) (d_batches d))) (cw_run wd ls invs st).
Proof.
  intros wd ls invs. induction invs as [|inv rest IH]; intros st Hw Hi; cbn [cw_run]; [constructor|].
  destruct (cw_schedule wd ls inv st) as [[st' d]|c] eqn:Es; [|constructor; [exact Logic.I|constructor]].
  destruct (cw_schedule_spec _ _ _ _ _ _ Hw Hi Es) as [S1 [_ [S3 _]]]. constructor; [exact S3|apply IH; assumption].
Qed.
Lemma run_terminates : forall wd ls invs st, world_wf wd -> bs_pos wd -> Inv_st wd st -> ~ In (Err 99) (cw_run wd ls invs st).
Proof.
  intros wd ls invs. induction invs as [|inv rest IH]; intros st Hw Hp Hi; cbn [cw_run]; [intros []|].
  destruct (cw_schedule wd ls inv st) as [[st' d]|c] eqn:Es.
  - destruct (cw_schedule_spec _ _ _ _ _ _ Hw Hi Es) as [S1 _]. intros [Hc|Hc]; [discriminate|]. revert Hc. apply IH; assumption.
  - intros [Hc|[]]. injection Hc as ->. revert Es. apply cw_schedule_terminates; assumption.
Qed.
Lemma run_placed_offered : forall wd ls invs st, world_wf wd -> Inv_st wd st ->
  forall t, In t (run_placed (cw_run wd ls invs st)) -> In t (st_recs st) \/ In t (flat_map i_offered invs).
Proof.
  intros wd ls invs. induction invs as [|inv rest IH]; intros st Hw Hi t Ht; cbn [cw_run] in Ht; [destruct Ht|].
  destruct (cw_schedule wd ls inv st) as [[st' d]|c] eqn:Es; [|cbn in Ht; destruct Ht].
  destruct (cw_schedule_spec _ _ _ _ _ _ Hw Hi Es) as [S1 [_ [_ [_ [_ [S6 S7]]]]]].
  unfold run_placed in Ht. cbn [flat_map] in Ht. apply in_app_or in Ht. cbn [flat_map]. destruct Ht as [Ht|Ht].
  - destruct (S6 t Ht) as [[Hl|[Hr _]] _]; [left; assumption|right; apply in_or_app; left; assumption].
  - destruct (IH st' Hw S1 t Ht) as [Hl|Hr]; [|right; apply in_or_app; right; assumption].
    destruct (S7 t Hl) as [Hl'|[Hr' _]]; [left; assumption|right; apply in_or_app; left; assumption].
Qed.

Definition id_functional (l : list task) : Prop := forall a b, In a l -> In b l -> t_id a = t_id b -> a = b.
Lemma NoDup_map_inj : forall {A B} (f : A -> B) l, NoDup l -> (forall a b, In a l -> In b l -> f a = f b -> a = b) -> NoDup (map f l).
Proof.
  intros A B f l H. induction H as [|x l Hx Hd IH]; intros Hinj; cbn [map]; constructor.
  - intros Hc. apply in_map_iff in Hc. destruct Hc as [y [Ey Hy]]. assert (y = x) by (apply Hinj; [right; assumption|left; reflexivity|assumption]). subst y. contradiction.
  - apply IH. intros a b Ha Hb. apply Hinj; right; assumption.
Qed.
Lemma NoDup_map_filter : forall {A B} (f : A -> B) p l, NoDup (map f l) -> NoDup (map f (filter p l)).
Proof.
  intros A B f p l. induction l as [|x l IH]; intros H; cbn [filter map]; [constructor|]. cbn [map] in H. inversion H as [|? ? Hn Hd]; subst.
  destruct (p x); [|apply IH; assumption]. cbn [map]. constructor; [|apply IH; assumption].
  intros Hc. apply Hn. apply in_map_iff in Hc. destruct Hc as [y [Ey Hy]]. apply filter_In in Hy. apply in_map_iff. exists y. split; [assumption|apply Hy].
Qed.

(* no request is placed twice over a run from start(), whatever arrives, as long as the environment does not offer
   again a request that was already placed; stated for request identifiers *)
Lemma run_once_ids : forall wd ls started invs, world_wf wd -> NoDup started ->
  env_ok wd ls invs (cw_start wd started) [] -> id_functional (flat_map i_offered invs) ->
  NoDup (map t_id (run_placed (cw_run wd ls invs (cw_start wd started)))).
Proof.
  intros wd ls started invs Hw Hd He Hf. destruct (cw_start_inv wd started Hw Hd) as [Hi Hr].
  apply NoDup_map_inj.
  - apply (run_once wd ls invs _ [] Hw Hi (NoDup_nil _)); [intros t []|assumption].
  - intros a b Ha Hb. assert (Hin : forall t, In t (run_placed (cw_run wd ls invs (cw_start wd started))) -> In t (flat_map i_offered invs)).
    { intros t Ht. destruct (run_placed_offered _ _ _ _ Hw Hi t Ht) as [Hl|Hr']; [rewrite Hr in Hl; destruct Hl|assumption]. }
    apply Hf; apply Hin; assumption.
Qed.

(* ------------------------------------------------------------------ a placed request is not hopeless; one decision per request *)
Lemma batch_not_hopeless : forall wd b t, batch_ok wd b -> In t (b_tasks b) -> hopeless wd (b_now b) t = false.
Proof.
  intros wd b t [_ [_ [[ss [Hz Hs]] [_ [_ Hf]]]]] Ht. rewrite Forall_forall in Hf. destruct (Hf t Ht) as [Hm Hd].
  unfold hopeless. rewrite Hm, Hz. destruct (fastest_rt ss) as [f|] eqn:Ef; [|reflexivity].
  destruct (fastest_rt_spec ss f Ef) as [_ Hmin]. specialize (Hmin _ Hs). lia.
Qed.
Lemma schedule_not_hopeless : forall wd ls inv st st' d, world_wf wd -> Inv_st wd st -> cw_schedule wd ls inv st = Ok (st', d) ->
  forall t, In t (placed (d_batches d)) -> hopeless wd (i_now inv) t = false.
Proof.
  intros wd ls inv st st' d Hw Hi Hs t Ht. destruct (cw_schedule_spec _ _ _ _ _ _ Hw Hi Hs) as [_ [_ [S3 [S4 _]]]].
  unfold placed in Ht. apply in_flat_map in Ht. destruct Ht as [b [Hb Htb]]. rewrite Forall_forall in S3, S4.
  destruct (S4 b Hb) as [En _]. rewrite <- En. apply batch_not_hopeless; [apply S3|]; assumption.
Qed.
Lemma schedule_one_decision : forall wd ls inv st st' d, world_wf wd -> Inv_st wd st -> cw_schedule wd ls inv st = Ok (st', d) ->
  NoDup (map t_id (i_offered inv)) -> id_functional (st_recs st ++ i_offered inv) ->
  NoDup (map t_id (d_cancel d ++ placed (d_batches d))).
Proof.
  intros wd ls inv st st' d Hw Hi Hs Hno Hf. pose proof (schedule_not_hopeless _ _ _ _ _ _ Hw Hi Hs) as Hnh.
  destruct (cw_schedule_spec _ _ _ _ _ _ Hw Hi Hs) as [_ [S2 [_ [_ [S5 [S6 _]]]]]].
  assert (Hin : forall t, In t (placed (d_batches d)) -> In t (st_recs st ++ i_offered inv)).
  { intros t Ht. apply in_or_app. destruct (S6 t Ht) as [[Hl|[Hr _]] _]; [left|right]; assumption. }
  rewrite map_app. apply NoDup_app_intro.
  - rewrite S2. apply NoDup_map_filter. assumption.
  - apply NoDup_map_inj; [assumption|]. intros a b Ha Hb. apply Hf; apply Hin; assumption.
  - intros i Hi1 Hi2. apply in_map_iff in Hi1. destruct Hi1 as [c [Ec Hc]]. apply in_map_iff in Hi2. destruct Hi2 as [t [Et Ht]].
    rewrite S2 in Hc. apply filter_In in Hc. destruct Hc as [Hc1 Hc2].
    assert (c = t) by (apply Hf; [apply in_or_app; right; assumption|apply Hin; assumption|congruence]). subst c.
    rewrite (Hnh t Ht) in Hc2. discriminate.
Qed.

(* ------------------------------------------------------------------ monitors *)
Lemma zmem_iff : forall x l, zmem x l = true <-> In x l.
Proof. intros x l. induction l as [|y l IH]; cbn [zmem In]; [split; [discriminate|intros []]|]. rewrite orb_true_iff, IH. split; intros [H|H]; auto; left; lia. Qed.
Lemma znodup_iff : forall l, znodup l = true <-> NoDup l.
Proof.
  induction l as [|x l IH]; cbn [znodup]; [split; [constructor|reflexivity]|].
  rewrite andb_true_iff, negb_true_iff, IH. split.
  - intros [H1 H2]. constructor; [|assumption]. intros Hc. apply zmem_iff in Hc. congruence.
  - intros H. inversion H as [|? ? Hn Hd]; subst. split; [|assumption]. destruct (zmem x l) eqn:E; [|reflexivity]. apply zmem_iff in E. contradiction.
Qed.
Lemma zlist_eqb_iff : forall a b, zlist_eqb a b = true <-> a = b.
Proof.
  induction a as [|x a IH]; intros [|y b]; cbn [zlist_eqb]; try (split; [discriminate|discriminate]); [split; reflexivity|].
  rewrite andb_true_iff, IH. split; [intros [H1 ->]; f_equal; lia|intros H; injection H as -> ->; split; [lia|reflexivity]].
Qed.
Lemma mon_cancel_iff : forall wd now offered c, mon_cancel wd now offered c = true <-> c = map t_id (filter (hopeless wd now) offered).
Proof. intros. unfold mon_cancel. rewrite zlist_eqb_iff. split; congruence. Qed.
Lemma mon_once_iff : forall os, mon_once os = true <-> NoDup (flat_map oi_placed os).
Proof. intros. apply znodup_iff. Qed.

(* C15 for a reported batch, as a proposition *)
Definition obatch_ok (wd : world) (now : Z) (w : worker) (b : obatch) : Prop :=
  exists t0 ss s, hd_error (ob_tasks b) = Some t0 /\ zassoc (t_model t0) wd = Some ss /\ find_strategy (ob_sid b) ss = Some s /\
    Forall (fun t => t_model t = t_model t0) (ob_tasks b) /\ zlen (ob_tasks b) = s_bs s /\
    w_is_available w (t_model t0) = 0 /\ fits w s = true /\
    Forall (fun t => now + s_rt s <= t_deadline t) (ob_tasks b) /\ ob_time b = now.
Lemma mon_batch_iff : forall wd now w b, mon_batch wd now w b = true <-> obatch_ok wd now w b.
Proof.
  intros wd now w b. unfold mon_batch, obatch_ok. destruct (ob_tasks b) as [|t0 rest] eqn:Et.
  - split; [discriminate|]. intros [t [ss [s [H _]]]]. discriminate.
  - destruct (zassoc (t_model t0) wd) as [ss|] eqn:Ez.
    2:{ split; [discriminate|]. intros [t [ss [s [H [H2 _]]]]]. cbn in H. injection H as <-. congruence. }
    destruct (find_strategy (ob_sid b) ss) as [s|] eqn:Ef.
    2:{ split; [discriminate|]. intros [t [ss' [s [H [H2 [H3 _]]]]]]. cbn in H. injection H as <-. rewrite Ez in H2. injection H2 as <-. congruence. }
    rewrite !andb_true_iff, !forallb_forall. split.
    + intros [[[[[H1 H2] H3] H4] H5] H6]. exists t0, ss, s. cbn [hd_error]. repeat split; try assumption; try lia.
      * apply Forall_forall. intros t Ht. specialize (H1 t Ht). lia.
      * apply Forall_forall. intros t Ht. specialize (H5 t Ht). lia.
    + intros [t [ss' [s' [H [H2 [H3 [H4 [H5 [H6 [H7 [H8 H9]]]]]]]]]]]. cbn in H. injection H as <-. rewrite Ez in H2. injection H2 as <-.
      rewrite Ef in H3. injection H3 as <-. rewrite Forall_forall in H4, H8.
      repeat split; try assumption; try lia; intros x Hx; [specialize (H4 x Hx)|specialize (H8 x Hx)]; lia.
Qed.
Lemma find_strategy_in : forall s ss, NoDup (map s_id ss) -> In s ss -> find_strategy (s_id s) ss = Some s.
Proof.
  intros s ss. induction ss as [|x ss IH]; intros Hd H; [destruct H|]. cbn [find_strategy]. cbn [map] in Hd. inversion Hd as [|? ? Hn Hd']; subst.
  destruct H as [->|H]; [rewrite Z.eqb_refl; reflexivity|]. destruct (s_id x =? s_id s) eqn:E; [|apply IH; assumption].
  exfalso. apply Hn. assert (E' : s_id x = s_id s) by lia. rewrite E'. apply in_map. assumption.
Qed.
(* what the theorem guarantees of the model's batches is what the monitor checks on the implementation's *)
Lemma batch_ok_monitored : forall wd b, world_wf wd -> batch_ok wd b -> mon_batch wd (b_now b) (b_worker b) (obatch_of b) = true.
Proof.
  intros wd b Hw [H1 [H2 [[ss [Hz Hs]] [H4 [H5 H6]]]]]. apply mon_batch_iff. unfold obatch_ok, obatch_of. cbn [ob_tasks ob_sid ob_time].
  destruct (b_tasks b) as [|t0 rest] eqn:Et; [unfold zlen in H5; cbn in H5; lia|].
  assert (Hm0 : t_model t0 = b_model b) by (inversion H6 as [|? ? [E _] _]; assumption).
  exists t0, ss, (b_strat b). cbn [hd_error]. rewrite Hm0. repeat split; try assumption; try reflexivity.
  - apply find_strategy_in; [eapply Hw; eassumption|assumption].
  - eapply Forall_impl; [|exact H6]. cbn. intros t [E _]. assumption.
  - eapply Forall_impl; [|exact H6]. cbn. intros t [_ E]. assumption.
Qed.

(* no batch of a model where the same invocation evicts it, as a proposition *)
Lemma mon_evicted_iff : forall lds bs, mon_evicted lds bs = true <->
  forall b t0, In b bs -> hd_error (ob_tasks b) = Some t0 -> evicted_at_end lds (t_model t0) (ob_pool b) (ob_worker b) false = false.
Proof.
  intros lds bs. unfold mon_evicted. rewrite forallb_forall. split.
  - intros H b t0 Hb Ht. specialize (H b Hb). destruct (ob_tasks b) as [|t1 r]; [discriminate|]. cbn in Ht. injection Ht as ->.
    destruct (evicted_at_end lds (t_model t0) (ob_pool b) (ob_worker b) false); [discriminate|reflexivity].
  - intros H b Hb. destruct (ob_tasks b) as [|t0 r] eqn:E; [reflexivity|]. rewrite (H b t0 Hb); [reflexivity|rewrite E; reflexivity].
Qed.
(* the per-invocation monitor, clause by clause (the replay of the batches on the workers stays a computation) *)
Lemma mon_invocation_iff : forall wd o, mon_invocation wd o = true <->
  oi_cancelled o = map t_id (filter (hopeless wd (oi_now o)) (oi_offered o)) /\
  mon_batches wd (oi_now o) (oi_pools o) (oi_batches o) = true /\
  NoDup (oi_cancelled o ++ oi_placed o) /\
  (forall i, In i (oi_cancelled o ++ oi_placed o) -> In i (map t_id (oi_offered o))) /\
  (forall b t, In b (oi_batches o) -> In t (ob_tasks b) -> hopeless wd (oi_now o) t = false) /\
  (forall b t0, In b (oi_batches o) -> hd_error (ob_tasks b) = Some t0 ->
     evicted_at_end (oi_load o) (t_model t0) (ob_pool b) (ob_worker b) false = false).
Proof.
  intros wd o. unfold mon_invocation. rewrite !andb_true_iff, mon_cancel_iff, znodup_iff, mon_evicted_iff, !forallb_forall. split.
  - intros [[[[[H1 H2] H3] H4] H5] H6]. repeat split; try assumption.
    + intros i Hi. apply zmem_iff. apply H4. assumption.
    + intros b t Hb Ht. specialize (H5 b Hb). rewrite forallb_forall in H5. specialize (H5 t Ht). destruct (hopeless wd (oi_now o) t); [discriminate|reflexivity].
  - intros [H1 [H2 [H3 [H4 [H5 H6]]]]]. repeat split; try assumption.
    + intros i Hi. apply zmem_iff. apply H4. assumption.
    + intros b Hb. rewrite forallb_forall. intros t Ht. rewrite (H5 b t Hb Ht). reflexivity.
Qed.

(* ------------------------------------------------------------------ run_load's evictions reach run_inference *)
Lemma zremove_none : forall {B} k (l : list (Z * B)), zassoc k (zremove k l) = None.
Proof. intros B k l. induction l as [|[k' v] l IH]; cbn [zremove zassoc]; [reflexivity|]. destruct (k' =? k) eqn:E; [assumption|]. cbn [zassoc]. rewrite E. assumption. Qed.
Lemma zremove_keeps_none : forall {B} k m (l : list (Z * B)), zassoc m l = None -> zassoc m (zremove k l) = None.
Proof.
  intros B k m l. induction l as [|[k' v] l IH]; cbn [zremove zassoc]; intros H; [reflexivity|].
  destruct (k' =? m) eqn:Em; [discriminate|]. destruct (k' =? k); [apply IH; assumption|]. cbn [zassoc]. rewrite Em. apply IH. assumption.
Qed.
Definition not_loaded_at (mid pid wid : Z) (ps : list pool) : Prop :=
  forall p w, In p ps -> p_id p = pid -> In w (p_workers p) -> w_id w = wid -> zassoc mid (w_loaded w) = None.
Lemma evict_in_pools_in : forall m' p' w' ps p w, In p (evict_in_pools m' p' w' ps) -> In w (p_workers p) ->
  exists p0 w0, In p0 ps /\ In w0 (p_workers p0) /\ p_id p = p_id p0 /\ w_id w = w_id w0 /\
    w = if (p_id p0 =? p') && (w_id w0 =? w') then w_evict m' w0 else w0.
Proof.
  intros m' p' w' ps p w Hp Hw. unfold evict_in_pools in Hp. apply in_map_iff in Hp. destruct Hp as [p0 [E Hp0]].
  destruct (p_id p0 =? p') eqn:Ep.
  - subst p. cbn [p_workers p_id] in *. apply in_map_iff in Hw. destruct Hw as [w0 [E Hw0]]. exists p0, w0. rewrite Ep. cbn [andb].
    destruct (w_id w0 =? w'); subst w; repeat split; try assumption; reflexivity.
  - subst p. exists p0, w. rewrite Ep. cbn [andb]. repeat split; try assumption; reflexivity.
Qed.
Lemma evict_establishes : forall mid pid wid ps, not_loaded_at mid pid wid (evict_in_pools mid pid wid ps).
Proof.
  intros mid pid wid ps p w Hp Epid Hw Ewid. destruct (evict_in_pools_in _ _ _ _ _ _ Hp Hw) as [p0 [w0 [H1 [H2 [H3 [H4 H5]]]]]].
  assert (E : (p_id p0 =? pid) && (w_id w0 =? wid) = true) by lia. rewrite E in H5. subst w. cbn [w_evict w_loaded]. apply zremove_none.
Qed.
Lemma evict_preserves : forall mid pid wid m' p' w' ps, not_loaded_at mid pid wid ps -> not_loaded_at mid pid wid (evict_in_pools m' p' w' ps).
Proof.
  intros mid pid wid m' p' w' ps H p w Hp Epid Hw Ewid. destruct (evict_in_pools_in _ _ _ _ _ _ Hp Hw) as [p0 [w0 [H1 [H2 [H3 [H4 H5]]]]]].
  assert (H0 : zassoc mid (w_loaded w0) = None) by (apply (H p0 w0); [assumption|lia|assumption|lia]).
  destruct ((p_id p0 =? p') && (w_id w0 =? w')); subst w; [cbn [w_evict w_loaded]; apply zremove_keeps_none|]; assumption.
Qed.
(* a profile evicted by run_load is not loaded on that worker in the cluster run_inference reads *)
Lemma apply_load_evicted : forall lds ps ps' mid pid wid, apply_load lds ps = Ok ps' ->
  In (1, mid, pid, wid) lds \/ not_loaded_at mid pid wid ps -> not_loaded_at mid pid wid ps'.
Proof.
  induction lds as [|[[[ty m] p] w] rest IH]; intros ps ps' mid pid wid H Hor; cbn [apply_load] in H.
  - injection H as <-. destruct Hor as [[]|Hn]. assumption.
  - destruct (ty =? 1) eqn:Ety.
    + destruct (find_worker p w ps) as [w0|]; [|discriminate].
      destruct (zassoc m (w_loaded w0)); [|discriminate]. destruct (zassoc m (w_palloc w0)); [|discriminate].
      apply (IH _ _ _ _ _ H). destruct Hor as [[E|Hin]|Hn].
      * injection E as _ -> -> ->. right. apply evict_establishes.
      * left. assumption.
      * right. apply evict_preserves. assumption.
    + apply (IH _ _ _ _ _ H). destruct Hor as [[E|Hin]|Hn]; [injection E as -> _ _ _; discriminate|left; assumption|right; assumption].
Qed.
Lemma cw_schedule_load : forall wd ls inv st st' d, cw_schedule wd ls inv st = Ok (st', d) ->
  d_load d = match i_load inv with Some l => l | None => [] end /\ load_pools inv = Ok (inv_pools inv).
Proof.
  intros wd ls inv st st' d H. unfold cw_schedule in H. unfold inv_pools.
  destruct (admission wd (i_now inv) (i_offered inv) st []) as [[st1 c]|]; [|discriminate].
  destruct (load_pools inv) as [ps|]; [|discriminate].
  match type of H with context [infer_pools ?a ?b ?c ?d ?e] => destruct (infer_pools a b c d e) as [[st2 bs]|]; [|discriminate] end.
  injection H as <- <-. split; reflexivity.
Qed.
(* no batch of model M on worker W in an invocation whose LOAD/EVICT decisions evict M from W *)
Lemma no_batch_on_evicted : forall wd ls inv st st' d, world_wf wd -> Inv_st wd st -> cw_schedule wd ls inv st = Ok (st', d) ->
  forall b, In b (d_batches d) -> ~ In (1, b_model b, b_pool b, w_id (b_worker b)) (d_load d).
Proof.
  intros wd ls inv st st' d Hw Hi H b Hb Hin. destruct (cw_schedule_load _ _ _ _ _ _ H) as [Hl Hp].
  destruct (cw_schedule_spec _ _ _ _ _ _ Hw Hi H) as [_ [_ [S3 [S4 _]]]]. rewrite Forall_forall in S3, S4.
  destruct (S3 b Hb) as [Hav _]. destruct (S4 b Hb) as [_ [_ [p [w [Hp1 [Hw1 [Ep [Ew El]]]]]]]].
  unfold load_pools in Hp. rewrite Hl in Hin. destruct (i_load inv) as [lds|]; [|destruct Hin].
  pose proof (apply_load_evicted lds _ _ (b_model b) (b_pool b) (w_id (b_worker b)) Hp (or_introl Hin)) as Hn.
  specialize (Hn p w Hp1 (eq_sym Ep) Hw1 (eq_sym Ew)). unfold w_is_available in Hav. rewrite El, Hn in Hav. discriminate.
Qed.
Lemma evicted_at_end_none : forall lds mid pid wid cur, (forall ty, ty = 1 -> ~ In (ty, mid, pid, wid) lds) -> cur = false ->
  evicted_at_end lds mid pid wid cur = false.
Proof.
  induction lds as [|[[[ty m] p] w] rest IH]; intros mid pid wid cur H Hc; cbn [evicted_at_end]; [assumption|].
  assert (Hr : forall ty0, ty0 = 1 -> ~ In (ty0, mid, pid, wid) rest) by (intros ty0 E Hin; apply (H ty0 E); right; assumption).
  destruct ((m =? mid) && (p =? pid) && (w =? wid)) eqn:E; [|apply IH; assumption].
  apply IH; [assumption|]. destruct (ty =? 1) eqn:Ety.
  - exfalso. apply (H 1 eq_refl). left. f_equal; [f_equal; [f_equal|]|]; lia.
  - destruct (ty =? 2); [reflexivity|assumption].
Qed.
(* what the theorem guarantees of the model's decisions is what the monitor checks on the implementation's *)
Lemma no_batch_on_evicted_monitored : forall wd ls inv st st' d, world_wf wd -> Inv_st wd st -> cw_schedule wd ls inv st = Ok (st', d) ->
  mon_evicted (d_load d) (map obatch_of (d_batches d)) = true.
Proof.
  intros wd ls inv st st' d Hw Hi H. apply mon_evicted_iff. intros ob t0 Hob Ht. apply in_map_iff in Hob. destruct Hob as [b [<- Hb]].
  cbn [obatch_of ob_tasks ob_pool ob_worker] in *.
  destruct (cw_schedule_spec _ _ _ _ _ _ Hw Hi H) as [_ [_ [S3 _]]]. rewrite Forall_forall in S3. destruct (S3 b Hb) as [_ [_ [_ [_ [_ S6]]]]].
  assert (Em : t_model t0 = b_model b).
  { destruct (b_tasks b) as [|t1 r]; [discriminate|]. cbn in Ht. injection Ht as ->. inversion S6 as [|? ? [E _] _]. assumption. }
  rewrite Em. apply evicted_at_end_none; [|reflexivity]. intros ty -> Hin. exact (no_batch_on_evicted _ _ _ _ _ _ Hw Hi H b Hb Hin).
Qed.

(* task map <-> queues: a request is in the task map exactly when some queue holds it, and its counter is the number
   of queues that hold it *)
Lemma map_iff_queued : forall m t, Inv_m m ->
  (In (t_id t) (keys (m_tasks m)) <-> exists sq, In sq (m_queues m) /\ In (t_id t) (ids (snd sq))).
Proof.
  intros m t Hi. split.
  - intros H. unfold keys in H. apply in_map_iff in H. destruct H as [[u n] [E Hu]]. cbn [fst] in E.
    pose proof (inv_count m Hi) as Hc. rewrite Forall_forall in Hc. destruct (Hc (u, n) Hu) as [Hc1 Hc2]. cbn [fst snd] in *.
    destruct (count_q_pos_in u (m_queues m) ltac:(lia)) as [sq [Hsq Hq]]. exists sq. split; [assumption|].
    apply in_q_iff in Hq. rewrite <- E. assumption.
  - intros [sq [Hsq Hq]]. unfold ids in Hq. apply in_map_iff in Hq. destruct Hq as [x [Ex Hx]].
    destruct (in_queue_key m sq x Hi Hsq Hx) as [n Hn]. rewrite <- Ex. eapply keys_in. eassumption.
Qed.
Lemma counter_counts : forall m t n, Inv_m m -> In (t, n) (m_tasks m) -> n = count_q t (m_queues m) /\ 1 <= n.
Proof. intros m t n Hi H. pose proof (inv_count m Hi) as Hc. rewrite Forall_forall in Hc. apply (Hc (t, n) H). Qed.
