(* C19, part 6: deadline assignment of JobGraph._generate_task_graph (workload/jobs.py:757-941):
   every task of the instantiated graph carries release + fuzz(completion_time, second draw). *)
From Coq Require Import ZArith Bool List Lia ZifyBool.
Import ListNotations.
From Verif Require Import Model.Val Gen.Src_Time Proofs.TimeP Model.Release Proofs.ReleaseP1 Proofs.ReleaseP2 Proofs.ReleaseP3.
Open Scope Z_scope.

Ltac step H :=
  match type of H with
  | bind ?x _ = Ok _ => let E := fresh "E" in destruct x eqn:E; cbn [bind] in H; [|discriminate H]
  | (let '(_, _) := ?p in _) = Ok _ => destruct p
  | match ?x with _ => _ end = Ok _ => let E := fresh "E" in destruct x eqn:E; try discriminate H
  end.

Lemma take_draw_inv us_ u r : take_draw us_ = Ok (u, r) -> us_ = u :: r.
Proof. destruct us_; cbn; intros H; inversion H; reflexivity. Qed.

Lemma generate_deadline jg f release index next us_ tg next' us' :
  generate_task_graph jg f release index next us_ = Ok (tg, next', us') ->
  exists created ct u1 u2 d2, deadline_base jg f (tg_graph tg) created = Ok ct /\ us_ = u1 :: u2 :: us' /\
    et_add release (et_fuzz ct u2 (if_minb f) (if_maxb f)) = Ok d2 /\
    Forall (fun t => t_deadline t = d2) (tg_tasks tg) /\ tg_index tg = index.
Proof.
  intros H. unfold generate_task_graph in H.
  destruct (jg_jobs jg) as [|j0 jobs] eqn:Ej; [discriminate|].
  do 15 step H.
  match type of H with (if ?c then _ else _) = _ => destruct c; [discriminate|] end.
  inversion H; subst; clear H.
  repeat match goal with E : take_draw _ = Ok _ |- _ => apply take_draw_inv in E end. subst.
  do 5 eexists. cbn [tg_graph]. split; [eassumption|]. split; [reflexivity|]. split; [eassumption|].
  split; [|reflexivity]. cbn [tg_tasks]. apply Forall_forall. intros t Ht. apply in_map_iff in Ht.
  destruct Ht as [n [Hn _]]. subst t. destruct (find _ _); reflexivity.
Qed.

(* in microseconds: deadline = release + fuzzed completion time; with the bound of fuzz_time_bounds this is the
   property's "release + critical-path (or SLO) time stretched within the declared variance and bounds" *)
Lemma generate_deadline_us jg f release index next us_ tg next' us' :
  generate_task_graph jg f release index next us_ = Ok (tg, next', us') ->
  exists created ct u1 u2, deadline_base jg f (tg_graph tg) created = Ok ct /\ us_ = u1 :: u2 :: us' /\
    Forall (fun t => us (t_deadline t) =
                     us release + fuzz_time (et_time ct) u2 (if_minb f) (if_maxb f) * unit_value (et_unit ct)) (tg_tasks tg).
Proof.
  intros H. destruct (generate_deadline _ _ _ _ _ _ _ _ _ H) as [created [ct [u1 [u2 [d2 [Hc [Hu [Hd [Hall _]]]]]]]]].
  exists created, ct, u1, u2. split; [exact Hc|]. split; [exact Hu|].
  destruct (et_add_spec release (et_fuzz ct u2 (if_minb f) (if_maxb f))) as [r [Hr [Hus _]]].
  rewrite Hr in Hd. inversion Hd; subst. eapply Forall_impl; [|exact Hall]. intros t Ht. rewrite Ht, Hus.
  unfold us at 2, et_fuzz. cbn [et_time et_unit]. reflexivity.
Qed.

(* the completion time is a number of microseconds *)
Lemma et_add_us_unit t x r : et_unit t = U_US -> et_add t x = Ok r -> et_unit r = U_US.
Proof.
  intros Hu H. destruct (et_add_spec t x) as [r' [Hr [_ Hun]]]. rewrite Hr in H. inversion H; subst.
  rewrite Hun, Hu. unfold finer. change (unit_value U_US) with 1. pose proof (unit_value_pos (et_unit x)).
  destruct (1 <=? unit_value (et_unit x)) eqn:E; [reflexivity|lia].
Qed.

Lemma completion_time_us jg ct : completion_time jg = Ok ct -> et_unit ct = U_US.
Proof.
  unfold completion_time. intros H. step H. step H.
  assert (G : forall path (acc : result etime), (forall t, acc = Ok t -> et_unit t = U_US) ->
     fold_left (fun acc i => bind acc (fun t =>
        match find_job i (jg_jobs jg) with
        | None => Err 5
        | Some j => bind (et_eqb (j_slo j) et_invalid) (fun inv =>
                    if inv then bind (slowest_runtime j) (fun r => et_add t r) else et_add t (j_slo j))
        end)) path acc = Ok ct -> et_unit ct = U_US).
  { induction path as [|i path IH]; intros acc Hacc Hf; cbn [fold_left] in Hf; [apply Hacc; exact Hf|].
    apply IH in Hf; [exact Hf|]. intros t Ht. destruct acc as [t0|]; cbn [bind] in Ht; [|discriminate].
    specialize (Hacc t0 eq_refl). destruct (find_job i (jg_jobs jg)) as [j|]; [|discriminate].
    destruct (et_eqb (j_slo j) et_invalid) as [inv|]; cbn [bind] in Ht; [|discriminate].
    destruct inv.
    - destruct (slowest_runtime j) as [r|]; cbn [bind] in Ht; [|discriminate]. eapply et_add_us_unit; eassumption.
    - eapply et_add_us_unit; eassumption. }
  eapply (G _ (Ok et_zero)); [intros t Ht; inversion Ht; reflexivity|exact H].
Qed.

Lemma bp_length_us jg tgg created ct : bp_length jg tgg created = Ok ct -> et_unit ct = U_US.
Proof.
  unfold bp_length. intros H. step H. step H.
  assert (G : forall path (acc : result etime), (forall t, acc = Ok t -> et_unit t = U_US) ->
     fold_left (fun acc n => bind acc (fun t =>
        match task_job jg created n with
        | None => Err 5
        | Some j => bind (slowest_runtime j) (fun r => et_add t r)
        end)) path acc = Ok ct -> et_unit ct = U_US).
  { induction path as [|i path IH]; intros acc Hacc Hf; cbn [fold_left] in Hf; [apply Hacc; exact Hf|].
    apply IH in Hf; [exact Hf|]. intros t Ht. destruct acc as [t0|]; cbn [bind] in Ht; [|discriminate].
    specialize (Hacc t0 eq_refl). destruct (task_job jg created i) as [j|]; [|discriminate].
    destruct (slowest_runtime j) as [r|]; cbn [bind] in Ht; [|discriminate]. eapply et_add_us_unit; eassumption. }
  eapply (G _ (Ok et_zero)); [intros t Ht; inversion Ht; reflexivity|exact H].
Qed.

Lemma deadline_base_us jg f tgg created ct : deadline_base jg f tgg created = Ok ct -> et_unit ct = U_US.
Proof. unfold deadline_base. destruct (if_bpd f); [apply bp_length_us|apply completion_time_us]. Qed.

(* The deadline base is JobGraph.completion_time, or with --use_branch_predicated_deadlines the slowest-strategy
   runtimes along the longest path over the tasks of non-zero probability.  The interval the code REQUESTS from
   random.uniform for (minv, maxv) = the graph's variance (or the flags' default) is tied to the source by the
   S-uniform-request stream; the theorem holds for every draw inside it. *)
Theorem deadline_within_bounds jg f release index next us_ tg next' us' :
  generate_task_graph jg f release index next us_ = Ok (tg, next', us') ->
  exists created ct, deadline_base jg f (tg_graph tg) created = Ok ct /\ et_unit ct = U_US /\
  forall minv maxv,
  Z.abs (et_time ct) < 2 ^ 53 ->
  (forall u, nth_error us_ 1 = Some u -> uniform_contract (et_time ct) minv maxv u = true) ->
  Z.abs (et_time ct + clampZ (if_minb f) (if_maxb f) (var_lo (et_time ct) minv maxv)) <= 2 ^ 53 ->
  Z.abs (et_time ct + clampZ (if_minb f) (if_maxb f) (var_hi (et_time ct) minv maxv)) <= 2 ^ 53 ->
  Forall (fun t =>
    us release + et_time ct + clampZ (if_minb f) (if_maxb f) (var_lo (et_time ct) minv maxv) <= us (t_deadline t)
    <= us release + et_time ct + clampZ (if_minb f) (if_maxb f) (var_hi (et_time ct) minv maxv)) (tg_tasks tg).
Proof.
  intros H. destruct (generate_deadline_us _ _ _ _ _ _ _ _ _ H) as [created [ct [u1 [u2 [Hc [Hus Hall]]]]]].
  exists created, ct. pose proof (deadline_base_us _ _ _ _ _ Hc) as Hu. split; [exact Hc|]. split; [exact Hu|].
  intros minv maxv Habs Hcon Hlo Hhi. subst us_. specialize (Hcon u2 eq_refl).
  pose proof (fuzz_time_bounds (et_time ct) u2 minv maxv (if_minb f) (if_maxb f) Habs Hcon Hlo Hhi) as Hb.
  eapply Forall_impl; [|exact Hall]. intros t Ht. cbn beta in Ht. rewrite Ht, Hu. change (unit_value U_US) with 1. lia.
Qed.

(* without the flag the base is the job graph's completion time *)
Lemma deadline_base_default jg f tgg created : if_bpd f = false -> deadline_base jg f tgg created = completion_time jg.
Proof. intros H. unfold deadline_base. rewrite H. reflexivity. Qed.
