(* What the generative handler layer (Model/SimHandlers.v) guarantees, for every machine state, cluster layout and placement. *)
From Coq Require Import ZArith Bool List Lia ZifyBool.
Import ListNotations.
From Verif Require Import Model.Val Gen.Src_Task Gen.Src_Event Gen.Src_TaskGraph Model.Sim Model.SimRows Model.SimQ
  Model.SimHandlers Proofs.TaskP Proofs.SimP.
Open Scope Z_scope.

Arguments task_start : simpl never.
Arguments is_ready : simpl never.
Arguments fits : simpl never.

(* ------------------------------------------------------------------ WorkerPool.place_task: named worker or first fit *)
Lemma find_first {A} (f : A -> bool) l w :
  find f l = Some w -> exists l1 l2, l = l1 ++ w :: l2 /\ f w = true /\ forall x, In x l1 -> f x = false.
Proof.
  induction l as [|a l IH]; cbn; intros H; [discriminate|].
  destruct (f a) eqn:Fa.
  - inversion H; subst. exists [], l. repeat split; auto. intros x [].
  - destruct (IH H) as (l1 & l2 & E & Fw & N). exists (a :: l1), l2. subst l. repeat split; auto.
    intros x [Hx|Hx]; [subst; exact Fa|apply N; exact Hx].
Qed.

Lemma find_none_all {A} (f : A -> bool) l : find f l = None -> forall x, In x l -> f x = false.
Proof.
  induction l as [|a l IH]; cbn; intros H x Hx; [destruct Hx|].
  destruct (f a) eqn:Fa; [discriminate|]. destruct Hx as [Hx|Hx]; [subst; exact Fa|apply IH; assumption].
Qed.

Lemma choose_worker_sound W Ly res p w :
  choose_worker W Ly res p = Some w ->
  fits W res w (pi_req p) = true /\
  (pi_worker p = Some w \/ (pi_worker p = None /\ In w (workers_of Ly (pi_pool p)))).
Proof.
  unfold choose_worker. destruct (pi_worker p) as [w0|] eqn:Ew.
  - destruct (fits W res w0 (pi_req p)) eqn:F; intros H; inversion H; subst. split; [exact F|left; reflexivity].
  - intros H. destruct (find_first _ _ _ H) as (l1 & l2 & E & F & _). split; [exact F|].
    right. split; [reflexivity|]. rewrite E. apply in_or_app. right. left. reflexivity.
Qed.

(* first fit: no worker that comes earlier in the pool's order could hold the request *)
Lemma choose_worker_first W Ly res p w :
  pi_worker p = None -> choose_worker W Ly res p = Some w ->
  exists l1 l2, workers_of Ly (pi_pool p) = l1 ++ w :: l2 /\ forall w', In w' l1 -> fits W res w' (pi_req p) = false.
Proof.
  unfold choose_worker. intros Ew. rewrite Ew. intros H.
  destruct (find_first _ _ _ H) as (l1 & l2 & E & _ & N). exists l1, l2. split; assumption.
Qed.

Lemma choose_worker_none W Ly res p :
  choose_worker W Ly res p = None ->
  match pi_worker p with
  | Some w => fits W res w (pi_req p) = false
  | None => forall w, In w (workers_of Ly (pi_pool p)) -> fits W res w (pi_req p) = false
  end.
Proof.
  unfold choose_worker. destruct (pi_worker p) as [w0|].
  - destruct (fits W res w0 (pi_req p)); [discriminate|reflexivity].
  - intros H. apply find_none_all. exact H.
Qed.

(* ------------------------------------------------------------------ the handler's decision *)
Definition can_hold (W : world) (Ly : layout) (s : sim) (p : place_in) : Prop :=
  match pi_worker p with
  | Some w => fits W (s_res s) w (pi_req p) = true
  | None => exists w, In w (workers_of Ly (pi_pool p)) /\ fits W (s_res s) w (pi_req p) = true
  end.

(* a task that is ready when its placement event is handled, on a pool that can hold it, is started (on a worker that
   fits, the named one or the first in the pool's order) *)
Lemma start_when_ready_and_fits W Ly SL s p x :
  s_tasks s (pi_task p) = Some x -> is_ready s x = true -> pi_exact p = true -> can_hold W Ly s p ->
  exists w, placement_outcome W Ly SL s p = OStart w /\ fits W (s_res s) w (pi_req p) = true.
Proof.
  intros Hx Hr He Hc. unfold placement_outcome. rewrite Hx, Hr, He. cbn [negb].
  destruct (choose_worker W Ly (s_res s) p) as [w|] eqn:C.
  - exists w. split; [reflexivity|]. apply (choose_worker_sound _ _ _ _ _ C).
  - exfalso. pose proof (choose_worker_none _ _ _ _ C) as N. unfold can_hold in Hc.
    destruct (pi_worker p) as [w0|]; [congruence|]. destruct Hc as (w & Hin & F). rewrite (N w Hin) in F. discriminate.
Qed.

(* and only then *)
Lemma start_only_when_ready_and_fits W Ly SL s p w :
  placement_outcome W Ly SL s p = OStart w ->
  exists x, s_tasks s (pi_task p) = Some x /\ is_ready s x = true /\ fits W (s_res s) w (pi_req p) = true /\
            (pi_worker p = Some w \/ (pi_worker p = None /\ In w (workers_of Ly (pi_pool p)))).
Proof.
  unfold placement_outcome. destruct (s_tasks s (pi_task p)) as [x|]; [|discriminate].
  destruct (is_ready s x) eqn:R; cbn [negb].
  - destruct (pi_exact p); cbn [negb]; [|discriminate].
    destruct (choose_worker W Ly (s_res s) p) as [w0|] eqn:C; [|discriminate].
    intros H; inversion H; subst. exists x. destruct (choose_worker_sound _ _ _ _ _ C) as [F O]. auto.
  - destruct (task_state_eqb _ _ || _); [discriminate|]. destruct (max_list _); discriminate.
Qed.

Lemma max_list_ge l m : max_list l = Some m -> forall a, In a l -> a <= m.
Proof.
  revert m. induction l as [|b l IH]; cbn; intros m H a Ha; [destruct Ha|].
  destruct (max_list l) as [m'|] eqn:E.
  - inversion H; subst. destruct Ha as [Ha|Ha]; [subst; lia|]. specialize (IH m' eq_refl a Ha). lia.
  - inversion H; subst. destruct Ha as [Ha|Ha]; [subst; lia|]. destruct l; [destruct Ha|cbn in E; destruct (max_list l); discriminate].
Qed.

(* a re-queued placement is strictly later than the clock: the same placement is never retried at the same instant *)
Lemma retry_strictly_later W Ly SL s p time :
  placement_outcome W Ly SL s p = ORetry time -> s_clock s < time.
Proof.
  unfold placement_outcome. destruct (s_tasks s (pi_task p)) as [x|]; [|discriminate].
  destruct (is_ready s x); cbn [negb].
  - destruct (pi_exact p); cbn [negb]; [|discriminate]. destruct (choose_worker _ _ _ _); [discriminate|].
    intros H; inversion H; lia.
  - destruct (task_state_eqb _ _ || _); [discriminate|]. destruct (max_list _) as [m|]; [|discriminate].
    intros H; inversion H; lia.
Qed.

(* a task that waits for its parents is retried no earlier than the estimated completion of every parent,
   and exactly one microsecond later when the pool could not hold it *)
Lemma retry_time_spec W Ly SL s p time x :
  placement_outcome W Ly SL s p = ORetry time -> s_tasks s (pi_task p) = Some x ->
  (is_ready s x = false /\ forall parent, In parent (ti_parents (t_info x)) -> s_clock s + remaining_of SL s parent <= time) \/
  (is_ready s x = true /\ time = s_clock s + 1 /\ choose_worker W Ly (s_res s) p = None).
Proof.
  unfold placement_outcome. intros H Hx. rewrite Hx in H.
  destruct (is_ready s x); cbn [negb] in H.
  - right. destruct (pi_exact p); cbn [negb] in H; [|discriminate].
    destruct (choose_worker W Ly (s_res s) p); [discriminate|]. inversion H. auto.
  - left. split; [reflexivity|]. destruct (task_state_eqb _ _ || _); [discriminate|].
    destruct (max_list _) as [m|] eqn:M; [|discriminate]. inversion H; subst. intros parent Hp.
    pose proof (max_list_ge _ _ M (remaining_of SL s parent) (in_map _ _ _ Hp)). lia.
Qed.

Lemma consumed_only_if_cancelled W Ly SL s p :
  placement_outcome W Ly SL s p = OConsumed ->
  exists x, s_tasks s (pi_task p) = Some x /\ is_ready s x = false /\
            (t_state (t_dyn x) = TS_CANCELLED \/ pi_gcancelled p = true).
Proof.
  unfold placement_outcome. destruct (s_tasks s (pi_task p)) as [x|]; [|discriminate].
  destruct (is_ready s x) eqn:R; cbn [negb].
  - destruct (pi_exact p); cbn [negb]; [|discriminate]. destruct (choose_worker _ _ _ _); discriminate.
  - destruct (task_state_eqb (t_state (t_dyn x)) TS_CANCELLED) eqn:E; cbn [orb].
    + intros _. exists x. split; [reflexivity|]. split; [exact R|]. left. apply ts_eqb_true. exact E.
    + destruct (pi_gcancelled p) eqn:G; [|destruct (max_list _); discriminate].
      intros _. exists x. split; [reflexivity|]. split; [exact R|]. right. reflexivity.
Qed.

(* ------------------------------------------------------------------ the generated calls are accepted by the machine *)
Lemma resident_head t w req res : resident ((t, w, req) :: res) t = true.
Proof. unfold resident. cbn. rewrite Z.eqb_refl. reflexivity. Qed.
Lemma resident_on_head t w req res : resident_on ((t, w, req) :: res) t w = true.
Proof. unfold resident_on. cbn. rewrite !Z.eqb_refl. reflexivity. Qed.

Lemma task_start_ok d time draw :
  t_state d = TS_SCHEDULED -> t_release_time d <= time -> 0 <= draw ->
  exists d', task_start d (Some time) draw = Ok (d', tt) /\ t_start_time d' = time /\ t_state d' = TS_RUNNING /\
             t_remaining_time d' = draw.
Proof.
  intros Hs Hr Hd.
  assert (E : (t_release_time d <=? time) = true) by lia.
  assert (E2 : (draw <? 0) = false) by lia.
  unfold task_start, task_update_remaining_time, task_is_complete. rewrite Hs. cbn.
  rewrite ?E. cbn. rewrite ?E2. cbn. rewrite ?E. eexists. split; [reflexivity|]. cbn. auto.
Qed.

(* On the OStart path the handler's two primitive calls are accepted by the machine, the task is RUNNING on the chosen
   worker afterwards and its start time is the clock, i.e. the time of the placement event being handled. *)
Lemma start_calls_accepted W Ly SL s p w draw x :
  placement_outcome W Ly SL s p = OStart w ->
  s_tasks s (pi_task p) = Some x ->
  cur_is s TASK_PLACEMENT (Some (pi_task p)) = true ->
  resident (s_res s) (pi_task p) = false ->
  t_state (t_dyn x) = TS_SCHEDULED -> t_release_time (t_dyn x) <= s_clock s ->
  t_runtime x <= draw -> 100 * draw <= 100 * t_runtime x + t_runtime x * w_variance W + 50 -> 0 <= draw ->
  exists s' x', sim_exec W s (start_calls s p w draw) = Some s' /\ s_tasks s' (pi_task p) = Some x' /\
    t_start_time (t_dyn x') = s_clock s /\ t_state (t_dyn x') = TS_RUNNING /\ resident_on (s_res s') (pi_task p) w = true /\
    s_clock s' = s_clock s.
Proof.
  intros Ho Hx Hc Hnr Hst Hrel Hlo Hhi Hd.
  destruct (start_only_when_ready_and_fits _ _ _ _ _ _ Ho) as (x0 & Hx0 & Hr & Hf & _).
  rewrite Hx in Hx0. inversion Hx0; subst x0.
  destruct (task_start_ok (t_dyn x) (s_clock s) draw Hst Hrel Hd) as (d' & Hts & Hs1 & Hs2 & _).
  unfold start_calls. cbn [sim_exec].
  unfold sim_step at 1. rewrite Hx, Hc, Hr, Hf, Hnr. cbn [andb negb].
  unfold sim_step at 1. cbn [s_tasks s_cur s_res s_clock]. rewrite Hx.
  rewrite (cur_is_same s) by reflexivity. rewrite Hc, Z.eqb_refl, resident_head. cbn [andb].
  assert (B1 : (t_runtime x <=? draw) = true) by lia.
  assert (B2 : (100 * draw <=? 100 * t_runtime x + t_runtime x * w_variance W + 50) = true) by lia.
  rewrite B1, B2. cbn [andb]. rewrite Hts.
  eexists. eexists. split; [reflexivity|]. cbn [with_tasks s_tasks s_res s_clock].
  rewrite upd_same. split; [reflexivity|]. cbn [t_dyn]. repeat split; auto. apply resident_on_head.
Qed.

(* C03's clause: when the placement event fires at the time the scheduler chose (t_ptime), the task is ready and the
   pool can hold it, the task starts exactly at the chosen time *)
Lemma starts_exactly_at_chosen_time W Ly SL s p draw x :
  s_tasks s (pi_task p) = Some x -> s_clock s = t_ptime x ->
  is_ready s x = true -> pi_exact p = true -> can_hold W Ly s p ->
  cur_is s TASK_PLACEMENT (Some (pi_task p)) = true -> resident (s_res s) (pi_task p) = false ->
  t_state (t_dyn x) = TS_SCHEDULED -> t_release_time (t_dyn x) <= s_clock s ->
  t_runtime x <= draw -> 100 * draw <= 100 * t_runtime x + t_runtime x * w_variance W + 50 -> 0 <= draw ->
  exists w s' x', placement_outcome W Ly SL s p = OStart w /\
    sim_exec W s (start_calls s p w draw) = Some s' /\ s_tasks s' (pi_task p) = Some x' /\
    t_start_time (t_dyn x') = t_ptime x /\ t_state (t_dyn x') = TS_RUNNING.
Proof.
  intros Hx Hck Hr He Hc Hcur Hnr Hst Hrel Hlo Hhi Hd.
  destruct (start_when_ready_and_fits W Ly SL s p x Hx Hr He Hc) as (w & Ho & _).
  destruct (start_calls_accepted W Ly SL s p w draw x Ho Hx Hcur Hnr Hst Hrel Hlo Hhi Hd) as (s' & x' & E & Hx' & T & R & _).
  exists w, s', x'. rewrite <- Hck. auto.
Qed.

(* non-vacuity: a two-worker pool whose first worker is full; the task is started on the second *)
Definition ex_world : world := mkWorld (mk_cap [(0, [(0, 1)]); (1, [(0, 2)])]) 0.
Definition ex_layout : layout := [(0, [0; 1], [0])].
Definition ex_log : list ev :=
  [EGraph [(0, mkTI [] false, 0, 100); (1, mkTI [] false, 0, 100)];
   EHandle TASK_RELEASE 0 (Some 0); ERelease 0 0; EHandled;
   EHandle TASK_RELEASE 0 (Some 1); ERelease 1 0; EHandled;
   EHandle SCHEDULER_FINISHED 0 None; ESchedule 0 0 0 5; ESchedule 1 0 0 5; EHandled;
   EHandle TASK_PLACEMENT 0 (Some 0); EPlace 0 0 [(0, 1)]; EStart 0 0 5; EHandled;
   EHandle TASK_PLACEMENT 0 (Some 1)].
Example handler_example :
  match sim_exec ex_world sim_init ex_log with
  | Some s => placement_outcome ex_world ex_layout [] s (mkPI 1 0 None [(0, 1)] false true) = OStart 1 /\
              placement_outcome ex_world ex_layout [] s (mkPI 1 0 None [(0, 3)] false true) = ORetry 1 /\
              placement_outcome ex_world ex_layout [] s (mkPI 1 0 (Some 0) [(0, 1)] false true) = ORetry 1
  | None => False
  end.
Proof. vm_compute. repeat split. Qed.

(* ------------------------------------------------------------------ the TASK_CANCEL handler *)
Fixpoint count_placements (t : Z) (l : list pev) : nat :=
  match l with [] => 0%nat | p :: r => ((if is_placement_of t p then 1 else 0) + count_placements t r)%nat end.

Lemma pev_eqb_refl p : pev_eqb p p = true.
Proof.
  unfold pev_eqb, shape_eqb, otask_eqb. rewrite Z.eqb_refl.
  assert (E : event_type_eqb (pe_type p) (pe_type p) = true) by (destruct (pe_type p); reflexivity).
  rewrite E. destruct (pe_task p) as [[a b]|]; [rewrite !Z.eqb_refl|]; reflexivity.
Qed.

Lemma pev_eqb_placement t a b : pev_eqb a b = true -> is_placement_of t a = is_placement_of t b.
Proof.
  unfold pev_eqb, shape_eqb, otask_eqb, is_placement_of. intros H.
  apply andb_prop in H. destruct H as [_ H]. apply andb_prop in H. destruct H as [Ht Hk].
  assert (pe_type a = pe_type b) by (destruct (pe_type a), (pe_type b); cbn in Ht; congruence). rewrite H.
  destruct (pe_task a) as [[x r]|], (pe_task b) as [[y r']|]; try discriminate; [|reflexivity].
  apply andb_prop in Hk. destruct Hk as [Hk _]. assert (x = y) by lia. subst. reflexivity.
Qed.

Lemma count_remove_one t p l :
  In p l -> is_placement_of t p = true -> count_placements t (remove_one p l) = (count_placements t l - 1)%nat.
Proof.
  induction l as [|x l IH]; intros Hin Hp; [destruct Hin|]. cbn [remove_one count_placements].
  destruct (pev_eqb x p) eqn:E.
  - rewrite (pev_eqb_placement t x p E), Hp. lia.
  - destruct Hin as [Hin|Hin]; [subst; rewrite pev_eqb_refl in E; discriminate|].
    cbn [count_placements]. rewrite (IH Hin Hp).
    assert (1 <= count_placements t l)%nat.
    { clear -Hin Hp. induction l as [|y l IH]; [destruct Hin|]. cbn. destruct Hin as [H|H]; [subst; rewrite Hp; lia|].
      specialize (IH H). destruct (is_placement_of t y); lia. }
    destruct (is_placement_of t x); lia.
Qed.

Lemma find_in {A} (f : A -> bool) l x : find f l = Some x -> In x l /\ f x = true.
Proof. intros H. apply find_some in H. exact H. Qed.

Lemma mem_pev_in p l : In p l -> mem_pev p l = true.
Proof. unfold mem_pev. intros H. apply existsb_exists. exists p. split; [exact H|apply pev_eqb_refl]. Qed.

(* the handler's call is accepted by the machine with the queue and removes exactly one placement event of the cancelled task;
   when the task had at most one pending placement (the simulator keeps one per task in _future_placement_events), none remains *)
Lemma cancel_calls_accepted W q t :
  exists q', sq_exec W q (cancel_calls q t) = Some q' /\ q_sim q' = q_sim q /\
    count_placements t (q_pending q') = (count_placements t (q_pending q) - 1)%nat.
Proof.
  unfold cancel_calls, cancel_outcome. destruct (find (is_placement_of t) (q_pending q)) as [p|] eqn:F.
  - destruct (find_in _ _ _ F) as [Hin Hp]. cbn [sq_exec sq_step]. rewrite (mem_pev_in _ _ Hin).
    eexists. split; [reflexivity|]. cbn [q_sim q_pending]. split; [reflexivity|]. apply count_remove_one; assumption.
  - cbn [sq_exec]. exists q. split; [reflexivity|]. split; [reflexivity|].
    assert (count_placements t (q_pending q) = 0%nat).
    { pose proof (find_none _ _ F) as N. clear F. induction (q_pending q) as [|x l IH]; [reflexivity|].
      cbn. rewrite (N x (or_introl eq_refl)). apply IH. intros y Hy. apply N. right. exact Hy. }
    lia.
Qed.

Lemma cancel_leaves_no_placement W q t :
  (count_placements t (q_pending q) <= 1)%nat ->
  exists q', sq_exec W q (cancel_calls q t) = Some q' /\ count_placements t (q_pending q') = 0%nat.
Proof.
  intros H. destruct (cancel_calls_accepted W q t) as (q' & E & _ & C). exists q'. split; [exact E|lia].
Qed.

(* ------------------------------------------------------------------ one decision of the policy *)
Arguments task_unschedule : simpl never.

Lemma task_unschedule_ok d time :
  t_state d = TS_SCHEDULED ->
  exists d', task_unschedule d time = Ok (d', tt) /\ t_state d' = t_pre_scheduling_state d.
Proof.
  intros H. unfold task_unschedule. rewrite H. cbn. eexists. split; [reflexivity|]. reflexivity.
Qed.

(* a decision for a task that is COMPLETED or CANCELLED changes nothing *)
Lemma decision_for_final_task q drop t d x :
  s_tasks (q_sim q) t = Some x -> (t_state (t_dyn x) = TS_COMPLETED \/ t_state (t_dyn x) = TS_CANCELLED) -> d <> DCancel ->
  decision_outcome q drop t d = DoNothing.
Proof.
  intros Hx Hs Hd. unfold decision_outcome. rewrite Hx.
  destruct d as [pt rt| |]; [| |congruence]; destruct Hs as [Hs|Hs]; rewrite Hs; reflexivity.
Qed.

(* a plan is retracted only for a task that has not started and has a placement event pending; its time is reported *)
Lemma retraction_spec q drop t d tm :
  decision_outcome q drop t d = DoUnschedule tm ->
  d = DUnplaced /\ drop = false /\
  exists x p, s_tasks (q_sim q) t = Some x /\ cancel_outcome q t = Some p /\ pe_time p = tm /\
              (task_state_ltb (t_state (t_dyn x)) TS_SCHEDULED = true \/ t_state (t_dyn x) = TS_SCHEDULED).
Proof.
  unfold decision_outcome. destruct (s_tasks (q_sim q) t) as [x|] eqn:Hx; [|discriminate].
  destruct d as [pt rt| |]; [| |discriminate].
  - destruct (task_state_ltb _ _); [discriminate|]. destruct (task_state_eqb (t_state (t_dyn x)) TS_SCHEDULED).
    + destruct (cancel_outcome q t); discriminate.
    + destruct (_ || _); discriminate.
  - destruct (task_state_ltb (t_state (t_dyn x)) TS_SCHEDULED) eqn:L1; cbn [orb].
    + destruct drop; [discriminate|]. destruct (cancel_outcome q t) as [p|] eqn:C; [|discriminate].
      intros H; inversion H; subst. repeat split; auto. exists x, p. auto.
    + destruct (task_state_eqb (t_state (t_dyn x)) TS_SCHEDULED) eqn:L2.
      * destruct drop; [discriminate|]. destruct (cancel_outcome q t) as [p|] eqn:C; [|discriminate].
        intros H; inversion H; subst. repeat split; auto. exists x, p. repeat split; auto. right. apply ts_eqb_true. exact L2.
      * destruct (_ || _); discriminate.
Qed.

(* the retraction path: the two calls are accepted by the machine with the queue (inside the SCHEDULER_FINISHED handler), the
   task falls back from SCHEDULED to the state it was scheduled from, and one placement event of it leaves the queue *)
Lemma unschedule_calls_accepted W q t x :
  s_tasks (q_sim q) t = Some x -> t_state (t_dyn x) = TS_SCHEDULED ->
  cur_is (q_sim q) SCHEDULER_FINISHED None = true ->
  cancel_outcome q t <> None ->
  exists q' x', sq_exec W q (unschedule_calls q t) = Some q' /\ s_tasks (q_sim q') t = Some x' /\
    t_state (t_dyn x') = t_pre_scheduling_state (t_dyn x) /\
    count_placements t (q_pending q') = (count_placements t (q_pending q) - 1)%nat /\
    s_clock (q_sim q') = s_clock (q_sim q).
Proof.
  intros Hx Hs Hc Hp. unfold unschedule_calls. destruct (cancel_outcome q t) as [p|] eqn:C; [|congruence].
  unfold cancel_outcome in C. destruct (find_in _ _ _ C) as [Hin Hpl].
  destruct (task_unschedule_ok (t_dyn x) (s_clock (q_sim q)) Hs) as (d' & Hu & Hst).
  cbn [sq_exec]. unfold sq_step at 1. rewrite (mem_pev_in _ _ Hin).
  unfold sq_step at 1. cbn [q_sim q_pending q_popped q_handling].
  unfold sim_step. rewrite Hx, Hc, Z.eqb_refl. cbn [andb]. rewrite Hu.
  eexists. eexists. split; [reflexivity|]. cbn [q_sim with_tasks s_tasks q_pending s_clock].
  rewrite upd_same. split; [reflexivity|]. cbn [t_dyn set_dyn]. split; [exact Hst|].
  split; [apply count_remove_one; assumption|reflexivity].
Qed.
