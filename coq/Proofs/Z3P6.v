(* C10 for the Z3 constraint system, capacity: in every satisfying assignment, at every instant, the
   demand (as the scheduler reckons it: fastest compatible strategy) of the tasks executing on a worker
   does not exceed the quantity that was available on that worker when schedule() was called. *)
From Coq Require Import ZArith Bool List Lia ZifyBool.
Import ListNotations.
From Verif Require Import Model.Val Gen.Src_Z3 Model.Z3Model Proofs.Z3P Proofs.Z3P2 Proofs.Z3P3 Proofs.Z3P5.
Open Scope Z_scope.

(* ---------------------------------------------------------------- well-formedness of what was observed *)
(* ancestor through OFFERED parents *)
Inductive anc (ins : instance) : ztask -> ztask -> Prop :=
  | anc_step : forall p c, In c (i_tasks ins) -> In (zt_id p) (zt_parents c) ->
                           find_task (i_tasks ins) (zt_id p) = Some p -> anc ins p c
  | anc_trans : forall x y z, anc ins x y -> anc ins y z -> anc ins x z.

Record wf_inst (ins : instance) : Prop := mk_wf {
  wf_rem : forall t, In t (i_tasks ins) -> 0 <= zt_remaining t;
  (* tasks of one graph that TaskGraph.are_dependent relates are connected through offered parents *)
  wf_chain : forall t1 t2, In t1 (i_tasks ins) -> In t2 (i_tasks ins) -> zt_graph t1 = zt_graph t2 ->
             dependent ins (zt_id t1) (zt_id t2) = true -> anc ins t1 t2 \/ anc ins t2 t1 }.
(* one key per resource name; per key 0 <= available <= total *)
Definition wf_worker (w : zworker) : Prop :=
  NoDup (map (fun k => fst (fst k)) (zw_res w)) /\ Forall (fun k => 0 <= snd k <= snd (fst k)) (zw_res w).

Lemma find_task_in : forall l id t, find_task l id = Some t -> In t l.
Proof. intros l id t H. unfold find_task in H. apply find_some in H. tauto. Qed.
Lemma anc_in : forall ins x y, anc ins x y -> In x (i_tasks ins) /\ In y (i_tasks ins).
Proof.
  intros ins x y H. induction H as [p c Hc _ Hf|x y z _ [Hx _] _ [_ Hz]].
  - split; [eapply find_task_in; eauto|exact Hc].
  - split; assumption.
Qed.

Lemma anc_order : forall ins fs a, gen_z3 ins = Ok fs -> sat fs a = true -> wf_inst ins ->
  forall x y, anc ins x y -> truth a (VPlaced (zt_id y)) = true ->
  truth a (VPlaced (zt_id x)) = true /\ t_start a y >= t_start a x + zt_remaining x.
Proof.
  intros ins fs a Hg Hs Hwf x y H. induction H as [p c Hc Hp Hf|x y z Hxy IHxy Hyz IHyz]; intros Hpl.
  - destruct (c11_z3 _ _ _ Hg Hs c (zt_id p) p Hc Hp Hf Hpl) as [H1 H2]. split; [exact H1|exact H2].
  - destruct (IHyz Hpl) as [Hy Hzy]. destruct (IHxy Hy) as [Hx Hyx]. split; [exact Hx|].
    pose proof (wf_rem _ Hwf y (proj2 (anc_in _ _ _ Hxy))). lia.
Qed.

(* ---------------------------------------------------------------- available quantity with one key per name *)
Lemma avail_no_key : forall w r, ~ In r (map (fun k => fst (fst k)) (zw_res w)) -> avail w r = 0.
Proof.
  intros w r. unfold avail. induction (zw_res w) as [|[[n q] av] l IH]; intros H; [reflexivity|].
  cbn [map fold_right In fst] in *. destruct (n =? r) eqn:E; [exfalso; apply H; left; lia|]. apply IH. tauto.
Qed.
Lemma avail_unique : forall w r q av, NoDup (map (fun k => fst (fst k)) (zw_res w)) -> In (r, q, av) (zw_res w) -> avail w r = av.
Proof.
  intros w r q av. unfold avail. induction (zw_res w) as [|[[n q'] av'] l IH]; intros Hnd Hin; [contradiction|].
  cbn [map fold_right fst] in *. inversion Hnd as [|? ? Hnot Hnd']; subst. destruct Hin as [Heq|Hin].
  - inversion Heq; subst. rewrite Z.eqb_refl.
    change (fold_right _ 0 l) with (avail (mkWorker 0 0 l) r). rewrite avail_no_key; [lia|exact Hnot].
  - destruct (n =? r) eqn:E.
    + exfalso. apply Hnot. apply Z.eqb_eq in E. subst. apply in_map_iff. exists (r, q, av). split; [reflexivity|exact Hin].
    + now apply IH.
Qed.

Lemma fold_max_ge : forall l x0 x, (x = x0 \/ In x l) -> x <= fold_left Z.max l x0.
Proof.
  induction l as [|y l IH]; intros x0 x H; cbn [fold_left].
  - destruct H as [->|[]]. lia.
  - destruct H as [->|[->|H]].
    + etransitivity; [|apply IH; left; reflexivity]. lia.
    + etransitivity; [|apply IH; left; reflexivity]. lia.
    + apply IH. now right.
Qed.
Lemma rsize_ge : forall ins r size w, rsize ins r = Some size -> In w (i_workers ins) -> avail w r <= size.
Proof.
  intros ins r size w H Hw. unfold rsize, zmax_list in H.
  assert (Hin : In (avail w r) (map (fun w0 => avail w0 r) (i_workers ins))) by (apply in_map_iff; now exists w).
  destruct (map (fun w0 => avail w0 r) (i_workers ins)) as [|x l]; [contradiction|]. inversion H; subst.
  apply fold_max_ge. destruct Hin as [->|Hin]; [now left|now right].
Qed.

(* ---------------------------------------------------------------- rows that fix a placed task's slot pattern *)
Lemma resource_rows_placed : forall ins t idx w rws r, resource_rows ins t idx w = Ok rws -> can_be_placed w t = true ->
  In r (rtypes t) ->
  exists size need, rsize ins r = Some size /\ req w t r = Some need /\
    In (FImp (o_bv_eq_int (ops ins) (worker_bv ins t) idx)
             (FOr (map (fun v => FEqBV (BVar (VRes (zt_id t) r) size) (BConst v size)) (allowed_values size (avail w r) need)))) rws.
Proof.
  intros ins t idx w rws r H Hcan. unfold resource_rows in H. rewrite Hcan in H. revert rws H.
  induction (rtypes t) as [|r0 l IH]; intros rws H Hin; [contradiction|].
  cbn [fold_right] in H.
  destruct (fold_right _ (Ok []) l) as [rows|c] eqn:Ef; cbn [bind] in H; [|discriminate].
  destruct (rsize ins r0) as [size|] eqn:Es; [|discriminate].
  destruct (req w t r0) as [need|] eqn:Er; [|discriminate].
  inversion H; subst rws; clear H. destruct Hin as [->|Hin].
  - exists size, need. repeat split; try assumption. now left.
  - destruct (IH rows eq_refl Hin) as (s' & n' & H1 & H2 & H3). exists s', n'. repeat split; try assumption. now right.
Qed.

Lemma resource_rows_of : forall ins fs t k w, gen_z3 ins = Ok fs -> In t (i_tasks ins) -> any_compatible ins t = true ->
  In (k, w) (indexed_from 0 (i_workers ins)) ->
  exists rws, resource_rows ins t (2 ^ k) w = Ok rws /\ forall f, In f rws -> In f fs.
Proof.
  intros ins fs t k w Hg Ht Hc Hkw. destruct (task_rows_ok _ _ _ Hg Ht) as (rows & Hr).
  destruct (task_rows_shape _ _ _ Hr) as [(Hn & _ & rr & Hrr & ->)|(_ & Hc' & _)]; [|congruence].
  assert (Hin : In (resource_rows ins t (2 ^ k) w) (map (fun p => resource_rows ins t (fst p) (snd p)) (indexed_workers ins))).
  { apply in_map_iff. exists (2 ^ k, w). split; [reflexivity|]. unfold indexed_workers. apply in_map_iff. exists (k, w). split; [reflexivity|exact Hkw]. }
  destruct (concat_results_ok _ _ _ _ Hrr Hin) as (rws & Hrws). exists rws. split; [exact Hrws|].
  intros f Hf. eapply task_rows_in; eauto. apply in_or_app; right. eapply concat_results_in; eauto.
Qed.

Lemma placed_pattern : forall ins fs a t k w r, gen_z3 ins = Ok fs -> sat fs a = true -> In t (i_tasks ins) ->
  In (k, w) (indexed_from 0 (i_workers ins)) -> placed_on ins a t k = true -> In r (rtypes t) ->
  exists size need v, rsize ins r = Some size /\ req w t r = Some need /\ need <= avail w r /\
    0 <= v < 2 ^ avail w r /\ popcount v = need /\
    res_bits ins a t r = ((2 ^ (size - avail w r) - 1) * 2 ^ Z.max (avail w r) 1 + v) mod 2 ^ size.
Proof.
  intros ins fs a t k w r Hg Hs Ht Hkw Hpo Hr.
  unfold placed_on in Hpo. apply andb_prop in Hpo. destruct Hpo as [Hpl Hb].
  destruct (placed_facts _ _ _ _ Hg Hs Ht Hpl) as (Hc & Hn & _ & _ & _).
  destruct (resource_rows_of _ _ _ _ _ Hg Ht Hc Hkw) as (rws & Hrws & Hsub).
  pose proof (indexed_from_in _ _ _ _ _ Hkw) as [Hk _]. fold (nworkers ins) in Hk.
  assert (Hmod : 2 ^ k mod 2 ^ nworkers ins = 2 ^ k).
  { apply Z.mod_small. split; [apply Z.pow_nonneg; lia|apply pow2_lt; lia]. }
  destruct (can_be_placed w t) eqn:Hcan.
  - destruct (resource_rows_placed _ _ _ _ _ _ Hrws Hcan Hr) as (size & need & Hsz & Hreq & Hrow).
    assert (Hf := sat_in _ _ _ Hs (Hsub _ Hrow)).
    change (feval a (FImp ?x ?y)) with (implb (feval a x) (feval a y)) in Hf.
    rewrite feval_bv_eq_int, Hmod, Hb in Hf. cbn [implb] in Hf. rewrite feval_or in Hf.
    apply existsb_exists in Hf. destruct Hf as (f & Hfin & Hfe). apply in_map_iff in Hfin. destruct Hfin as (b & <- & Hbin).
    cbn [feval bveval] in Hfe. apply allowed_values_in in Hbin. destruct Hbin as (v & Hv & Hpc & ->).
    unfold can_be_placed in Hcan. rewrite forallb_forall in Hcan. specialize (Hcan r Hr). rewrite Hreq in Hcan.
    exists size, need, v. unfold res_bits. rewrite Hsz. repeat split; try assumption; try lia.
  - unfold resource_rows in Hrws. rewrite Hcan in Hrws. inversion Hrws; subst rws.
    assert (Hf := sat_in _ _ _ Hs (Hsub _ (or_introl eq_refl))).
    assert (Hf' : implb (truth a (VPlaced (zt_id t))) (negb (worker_bits ins a t =? 2 ^ k mod 2 ^ nworkers ins)) = true) by exact Hf.
    rewrite Hmod, Hb, Hpl in Hf'. discriminate.
Qed.

(* ---------------------------------------------------------------- tasks that do not use r demand none of it *)
Lemma dedup_in : forall l x, In x (dedup l) <-> In x l.
Proof.
  induction l as [|y l IH]; intros x; [reflexivity|]. cbn [dedup].
  destruct (existsb (Z.eqb y) l) eqn:E.
  - rewrite IH. split; [now right|]. intros [->|H]; [|exact H].
    apply existsb_exists in E. destruct E as (z & Hz & Hyz). apply Z.eqb_eq in Hyz. now subst.
  - cbn [In]. rewrite IH. reflexivity.
Qed.
Lemma in_rtypes_iff : forall t r, in_rtypes t r = true <-> In r (rtypes t).
Proof.
  intros t r. unfold in_rtypes. rewrite existsb_exists. split.
  - intros (x & Hx & E). apply Z.eqb_eq in E. now subst.
  - intros H. exists r. split; [exact H|apply Z.eqb_refl].
Qed.
Lemma fastest_from_in : forall l b, fastest_from b l = b \/ In (fastest_from b l) l.
Proof.
  induction l as [|s l IH]; intros b; [now left|]. cbn [fastest_from].
  destruct (s_runtime s <? s_runtime b).
  - destruct (IH s) as [->|H]; [right; now left|right; now right].
  - destruct (IH b) as [->|H]; [now left|right; now right].
Qed.
Lemma fastest_in : forall l s, fastest l = Some s -> In s l.
Proof.
  intros [|s0 l] s H; [discriminate|]. cbn [fastest] in H. inversion H; subst.
  destruct (fastest_from_in l s0) as [->|Hin]; [now left|now right].
Qed.
Lemma s_total_absent : forall s r, ~ In r (map fst (s_res s)) -> s_total s r = 0.
Proof.
  intros s r. unfold s_total. induction (s_res s) as [|[n q] l IH]; intros H; [reflexivity|].
  cbn [map fold_right fst snd In] in *. destruct (n =? r) eqn:E; [exfalso; apply H; left; lia|]. apply IH. tauto.
Qed.
Lemma demand_not_used : forall w t r, in_rtypes t r = false -> demand w t r = 0.
Proof.
  intros w t r H. unfold demand, req. destruct (fastest (compatible w t)) as [s|] eqn:Ef; [|reflexivity].
  apply fastest_in in Ef. unfold compatible in Ef. apply filter_In in Ef. destruct Ef as [Hs _].
  apply s_total_absent. intros Hin. assert (In r (rtypes t)).
  { unfold rtypes. apply dedup_in. apply in_flat_map. now exists s. }
  apply in_rtypes_iff in H0. congruence.
Qed.

(* ---------------------------------------------------------------- ordered pairs *)
Definition elig (ins : instance) (t1 t2 : ztask) : bool :=
  has_resources ins t1 && has_resources ins t2 &&
  (if zt_graph t1 =? zt_graph t2 then negb (dependent ins (zt_id t1) (zt_id t2)) else true).

Lemma fop_impl : forall A (R R' : A -> A -> Prop) l, (forall x y, R x y -> R' x y) -> ForallOrdPairs R l -> ForallOrdPairs R' l.
Proof.
  intros A R R' l H HF. induction HF as [|x l HFx _ IH]; constructor; [|exact IH].
  eapply Forall_impl; [|exact HFx]. intros y. apply H.
Qed.
Lemma fop_filter : forall A (R : A -> A -> Prop) f l, ForallOrdPairs R l -> ForallOrdPairs R (filter f l).
Proof.
  intros A R f l HF. induction HF as [|x l HFx _ IH]; cbn [filter]; [constructor|].
  destruct (f x); [|exact IH]. constructor; [|exact IH].
  apply Forall_forall. intros y Hy. apply filter_In in Hy. rewrite Forall_forall in HFx. apply HFx. tauto.
Qed.
Lemma fop_in : forall A (R R' : A -> A -> Prop) l, (forall x y, In x l -> In y l -> R x y -> R' x y) ->
  ForallOrdPairs R l -> ForallOrdPairs R' l.
Proof.
  intros A R R' l H HF. induction HF as [|x l HFx _ IH]; constructor.
  - apply Forall_forall. intros y Hy. rewrite Forall_forall in HFx. apply H; [now left|now right|now apply HFx].
  - apply IH. intros a b Ha Hb. apply H; now right.
Qed.
Lemma pairs_from_fop : forall ins l,
  ForallOrdPairs (fun t1 t2 => elig ins t1 t2 = true -> In (t1, t2) (pairs_from ins l)) l.
Proof.
  intros ins l. induction l as [|x l IH]; [constructor|]. constructor.
  - apply Forall_forall. intros y Hy He. cbn [pairs_from]. apply in_or_app; left.
    apply in_map_iff. exists y. split; [reflexivity|]. apply filter_In. split; [exact Hy|exact He].
  - eapply fop_impl; [|exact IH]. intros a b H He. cbn [pairs_from]. apply in_or_app; right. now apply H.
Qed.

(* ---------------------------------------------------------------- sums *)
Definition sel (ins : instance) (a : asg) (k tau : Z) (t : ztask) : bool := placed_on ins a t k && active_at a t tau.
Definition dsum (w : zworker) (r : Z) (l : list ztask) : Z := fold_right (fun t acc => demand w t r + acc) 0 l.
Lemma load_dsum : forall ins a k w r tau, load ins a k w r tau = dsum w r (filter (sel ins a k tau) (i_tasks ins)).
Proof.
  intros. unfold load, dsum, sel. induction (i_tasks ins) as [|t l IH]; [reflexivity|].
  cbn [fold_right filter]. destruct (placed_on ins a t k && active_at a t tau); cbn [fold_right]; rewrite IH; reflexivity.
Qed.
Lemma dsum_used : forall w r l, dsum w r l = dsum w r (filter (fun t => in_rtypes t r) l).
Proof.
  intros w r l. unfold dsum. induction l as [|t l IH]; [reflexivity|]. cbn [fold_right filter].
  destruct (in_rtypes t r) eqn:E; cbn [fold_right]; rewrite IH; [reflexivity|]. rewrite demand_not_used by exact E. lia.
Qed.
Lemma dsum_zero : forall w r l, (forall t, In t l -> demand w t r = 0) -> dsum w r l = 0.
Proof.
  intros w r l H. unfold dsum. induction l as [|t l IH]; [reflexivity|]. cbn [fold_right].
  rewrite (H t (or_introl eq_refl)), IH; [reflexivity|]. intros t' Ht'. apply H. now right.
Qed.

Lemma pcf_le : forall n x, popcount_fuel n x <= Z.of_nat n.
Proof.
  induction n as [|n IH]; intros x; cbn [popcount_fuel]; [lia|].
  pose proof (Z.mod_pos_bound x 2 ltac:(lia)). specialize (IH (x / 2)). lia.
Qed.
Lemma popcount_le : forall m x, 0 <= m -> 0 <= x < 2 ^ m -> popcount x <= m.
Proof.
  intros m x Hm Hx. rewrite (popcount_fuel_eq (Z.to_nat m)) by (rewrite Z2Nat.id; lia).
  pose proof (pcf_le (Z.to_nat m) x). lia.
Qed.

(* at most two bit sets can be pairwise complementary on m >= 1 bits, and two of them fill the m bits *)
Lemma complementary_sum : forall (l : list ztask) (vf need : ztask -> Z) m, 1 <= m ->
  (forall t, In t l -> 0 <= vf t < 2 ^ m /\ popcount (vf t) = need t) ->
  ForallOrdPairs (fun t1 t2 => Z.lxor (vf t1) (vf t2) = 2 ^ m - 1) l ->
  fold_right (fun t acc => need t + acc) 0 l <= m.
Proof.
  intros l vf need m Hm Hv HF.
  destruct l as [|t1 [|t2 [|t3 rest]]]; cbn [fold_right].
  - lia.
  - destruct (Hv t1 (or_introl eq_refl)) as [H1 <-]. pose proof (popcount_le m (vf t1) ltac:(lia) H1). lia.
  - destruct (Hv t1 (or_introl eq_refl)) as [H1 <-]. destruct (Hv t2 (or_intror (or_introl eq_refl))) as [H2 <-].
    inversion HF as [|? ? HF1 _]; subst. inversion HF1 as [|? ? H12 _]; subst.
    pose proof (popcount_compl m (vf t1) (vf t2) ltac:(lia) H1 H2 H12). lia.
  - exfalso. inversion HF as [|? ? HF1 HF']; subst. inversion HF1 as [|? ? H12 HF1']; subst. inversion HF1' as [|? ? H13 _]; subst.
    inversion HF' as [|? ? HF2 _]; subst. inversion HF2 as [|? ? H23 _]; subst.
    assert (vf t2 = vf t3) by (eapply xor_same_left; rewrite H12, H13; reflexivity).
    rewrite H, Z.lxor_nilpotent in H23. pose proof (pow2_pos m ltac:(lia)).
    assert (2 ^ m >= 2) by (replace m with (Z.succ (m - 1)) by lia; rewrite Z.pow_succ_r by lia; pose proof (pow2_pos (m - 1) ltac:(lia)); lia).
    lia.
Qed.

(* ---------------------------------------------------------------- the capacity theorem *)
Theorem c10_z3_capacity : forall ins fs a, gen_z3 ins = Ok fs -> sat fs a = true -> wf_inst ins ->
  forall k w, In (k, w) (indexed_from 0 (i_workers ins)) -> wf_worker w ->
  forall r tau, load ins a k w r tau <= avail w r.
Proof.
  intros ins fs a Hg Hs Hwf k w Hkw [Hnd Hq] r tau.
  rewrite load_dsum, dsum_used. set (S := filter (fun t => in_rtypes t r) (filter (sel ins a k tau) (i_tasks ins))).
  assert (HS : forall t, In t S -> In t (i_tasks ins) /\ placed_on ins a t k = true /\ active_at a t tau = true /\ In r (rtypes t)).
  { intros t Ht. unfold S in Ht. apply filter_In in Ht. destruct Ht as [Ht Hr]. apply filter_In in Ht. destruct Ht as [Ht Hsel].
    unfold sel in Hsel. apply andb_prop in Hsel. apply in_rtypes_iff in Hr. tauto. }
  assert (Hw : In w (i_workers ins)).
  { destruct (indexed_from_in _ _ _ _ _ Hkw) as [_ Hn]. eapply nth_error_In; eauto. }
  (* every selected task has a pattern *)
  assert (HP : forall t, In t S -> exists size need v, rsize ins r = Some size /\ req w t r = Some need /\ need <= avail w r /\
                 0 <= v < 2 ^ avail w r /\ popcount v = need /\
                 res_bits ins a t r = ((2 ^ (size - avail w r) - 1) * 2 ^ Z.max (avail w r) 1 + v) mod 2 ^ size).
  { intros t Ht. destruct (HS t Ht) as (Hin & Hpo & _ & Hr). eapply placed_pattern; eauto. }
  (* is there a key named r on this worker? *)
  destruct (in_dec Z.eq_dec r (map (fun k0 => fst (fst k0)) (zw_res w))) as [Hkey|Hnokey].
  2:{ rewrite avail_no_key by exact Hnokey. rewrite dsum_zero; [lia|].
      intros t Ht. destruct (HP t Ht) as (size & need & v & _ & Hreq & Hle & Hv & Hpc & _).
      rewrite avail_no_key in Hle, Hv by exact Hnokey. unfold demand. rewrite Hreq. pose proof (popcount_nonneg v). lia. }
  apply in_map_iff in Hkey. destruct Hkey as ([[r' q] av] & Hr' & Hkin). cbn [fst] in Hr'. subst r'.
  pose proof (avail_unique _ _ _ _ Hnd Hkin) as Hav. rewrite Hav in *.
  rewrite Forall_forall in Hq. pose proof (Hq _ Hkin) as Hbound. cbn [fst snd] in Hbound.
  destruct (Z.eq_dec av 0) as [->|Hav0].
  { rewrite dsum_zero; [lia|]. intros t Ht. destruct (HP t Ht) as (size & need & v & _ & Hreq & Hle & Hv & Hpc & _).
    unfold demand. rewrite Hreq. pose proof (popcount_nonneg v). lia. }
  assert (Hm : 1 <= av) by lia.
  (* pairwise: complementary on the low av bits *)
  assert (HF : ForallOrdPairs (fun t1 t2 => Z.lxor (res_bits ins a t1 r mod 2 ^ av) (res_bits ins a t2 r mod 2 ^ av) = 2 ^ av - 1) S).
  { unfold S. apply fop_in with (R := fun t1 t2 => elig ins t1 t2 = true -> In (t1, t2) (pairs ins)).
    2:{ apply fop_filter, fop_filter. apply pairs_from_fop. }
    fold S. intros t1 t2 H1 H2 HR.
    destruct (HS t1 H1) as (Hin1 & Hpo1 & Hact1 & Hr1). destruct (HS t2 H2) as (Hin2 & Hpo2 & Hact2 & Hr2).
    assert (Hpl1 : truth a (VPlaced (zt_id t1)) = true) by (unfold placed_on in Hpo1; apply andb_prop in Hpo1; tauto).
    assert (Hpl2 : truth a (VPlaced (zt_id t2)) = true) by (unfold placed_on in Hpo2; apply andb_prop in Hpo2; tauto).
    destruct (placed_facts _ _ _ _ Hg Hs Hin1 Hpl1) as (Hc1 & _). destruct (placed_facts _ _ _ _ Hg Hs Hin2 Hpl2) as (Hc2 & _).
    unfold active_at in Hact1, Hact2.
    assert (Hmeets : meets a t1 t2 = true) by (unfold meets; lia).
    destruct (elig ins t1 t2) eqn:He.
    - specialize (HR eq_refl).
      assert (Hsh : In (r, q) (shared_keys w t1 t2)).
      { unfold shared_keys. apply in_flat_map. exists (r, q, av). split; [exact Hkin|].
        apply in_rtypes_iff in Hr1. apply in_rtypes_iff in Hr2. rewrite Hr1, Hr2. now left. }
      (* the defining row of the independence variable, as in c10_z3_slots, but keeping the equation *)
      destruct (pair_rows_in _ _ _ _ _ Hg Hkw HR) as (rows & Hrows & Hsub).
      assert (Hall : forall f, In f rows -> feval a f = true) by (intros f Hf; eapply sat_in; [exact Hs|now apply Hsub]).
      unfold pair_rows in Hrows. cbn [fst snd] in Hrows.
      destruct (sequence (map (fun k0 => indep_row ins w t1 t2 (fst k0) (snd k0)) (shared_keys w t1 t2))) as [irows|c] eqn:Eseq;
        cbn [bind] in Hrows; [|discriminate].
      inversion Hrows; subst rows; clear Hrows.
      pose proof (indexed_from_in _ _ _ _ _ Hkw) as [Hk _]. fold (nworkers ins) in Hk.
      assert (H12 := Hall _ (or_introl eq_refl)). apply ends_before_sem in H12.
      assert (H21 := Hall _ (or_intror (or_introl eq_refl))). apply ends_before_sem in H21.
      assert (Hov := Hall _ (or_intror (or_intror (or_introl eq_refl)))).
      cbn [feval] in Hov. apply Bool.eqb_prop in Hov. rewrite H12, H21, orb_false_r in Hov.
      fold (meets a t1 t2) in Hov. rewrite Hmeets in Hov.
      assert (Himp : feval a (FImp (FAnd [FVar (VPlaced (zt_id t1)); FVar (VPlaced (zt_id t2));
                         o_bv_eq_int (ops ins) (worker_bv ins t1) (2 ^ k); o_bv_eq_int (ops ins) (worker_bv ins t2) (2 ^ k);
                         FVar (VOverlap (zt_id t1) (zt_id t2))])
                  (FAnd (map (fun k0 => FVar (VIndep (zw_name w) (fst k0) (zt_id t1) (zt_id t2))) (shared_keys w t1 t2)))) = true).
      { apply Hall. right; right; right. apply in_or_app; right. now left. }
      change (feval a (FImp ?x ?y)) with (implb (feval a x) (feval a y)) in Himp.
      rewrite !feval_and in Himp. cbn [forallb] in Himp. rewrite !feval_bv_eq_int in Himp. cbn [feval] in Himp.
      unfold placed_on in Hpo1, Hpo2. apply andb_prop in Hpo1. apply andb_prop in Hpo2. destruct Hpo1 as [_ Hb1], Hpo2 as [_ Hb2].
      assert (Hmod : 2 ^ k mod 2 ^ nworkers ins = 2 ^ k).
      { apply Z.mod_small. split; [apply Z.pow_nonneg; lia|apply pow2_lt; lia]. }
      rewrite Hmod, Hpl1, Hpl2, Hb1, Hb2, Hov in Himp. cbn [andb implb] in Himp. rewrite forallb_forall in Himp.
      assert (Hind : truth a (VIndep (zw_name w) r (zt_id t1) (zt_id t2)) = true).
      { specialize (Himp (FVar (VIndep (zw_name w) r (zt_id t1) (zt_id t2)))). cbn [feval] in Himp. apply Himp.
        apply in_map_iff. exists (r, q). split; [reflexivity|exact Hsh]. }
      assert (Hrow : In (indep_row ins w t1 t2 r q) (map (fun k0 => indep_row ins w t1 t2 (fst k0) (snd k0)) (shared_keys w t1 t2))).
      { apply in_map_iff. exists (r, q). split; [reflexivity|exact Hsh]. }
      destruct (sequence_in _ _ _ _ Eseq Hrow) as (row & Hrow_eq & Hrow_in).
      assert (Hrow_true : feval a row = true).
      { apply Hall. right; right; right. apply in_or_app; left. exact Hrow_in. }
      unfold indep_row in Hrow_eq.
      destruct (HP t1 H1) as (size & need1 & v1 & Hsz & _ & _ & Hv1 & _ & Hb1').
      destruct (HP t2 H2) as (size' & need2 & v2 & Hsz' & _ & _ & Hv2 & _ & Hb2').
      rewrite Hsz in Hsz'. inversion Hsz'; subst size'. rewrite Hsz in Hrow_eq.
      destruct ((0 <? q) && (q <=? size)) eqn:Eq; [|discriminate].
      inversion Hrow_eq; subst row; clear Hrow_eq.
      cbn [feval bveval] in Hrow_true. apply Bool.eqb_prop in Hrow_true. rewrite Hind in Hrow_true. symmetry in Hrow_true.
      rewrite !Z.pow_0_r, !Z.div_1_r in Hrow_true. replace (q - 1 - 0 + 1) with q in Hrow_true by lia.
      rewrite (Z.mod_small (2 ^ q - 1)) in Hrow_true by (pose proof (pow2_pos q ltac:(lia)); lia).
      apply Z.eqb_eq in Hrow_true.
      assert (Hsize : av <= size) by (pose proof (rsize_ge _ _ _ _ Hsz Hw); lia).
      rewrite Z.max_l in Hb1', Hb2' by lia. fold (pattern size av v1) in Hb1'. fold (pattern size av v2) in Hb2'.
      rewrite Z.mod_small in Hb1' by (apply pattern_range; lia). rewrite Z.mod_small in Hb2' by (apply pattern_range; lia).
      unfold res_bits in Hb1', Hb2'. rewrite Hsz in Hb1', Hb2'. rewrite Hb1', Hb2' in Hrow_true.
      destruct (patterns_complementary size av q v1 v2 ltac:(lia) ltac:(lia) Hv1 Hv2 Hrow_true) as [-> Hx].
      unfold res_bits. rewrite Hsz, Hb1', Hb2'. rewrite !pattern_low by lia. exact Hx.
    - (* not eligible although both have resources: same graph and are_dependent *)
      exfalso. unfold elig, has_resources in He. rewrite Hc1, Hc2 in He. cbn [andb] in He.
      destruct (zt_graph t1 =? zt_graph t2) eqn:Eg; [|discriminate].
      assert (Hdep : dependent ins (zt_id t1) (zt_id t2) = true) by (destruct (dependent ins (zt_id t1) (zt_id t2)); [reflexivity|discriminate]).
      destruct (wf_chain _ Hwf t1 t2 Hin1 Hin2 ltac:(lia) Hdep) as [Ha|Ha].
      + destruct (anc_order _ _ _ Hg Hs Hwf _ _ Ha Hpl2) as [_ Ho]. lia.
      + destruct (anc_order _ _ _ Hg Hs Hwf _ _ Ha Hpl1) as [_ Ho]. lia. }
  (* count *)
  unfold dsum.
  apply (complementary_sum S (fun t => res_bits ins a t r mod 2 ^ av) (fun t => demand w t r) av Hm); [|exact HF].
  intros t Ht. destruct (HP t Ht) as (size & need & v & Hsz & Hreq & Hle & Hv & Hpc & Hb).
  assert (Hsize : av <= size) by (pose proof (rsize_ge _ _ _ _ Hsz Hw); lia).
  rewrite Z.max_l in Hb by lia. fold (pattern size av v) in Hb. rewrite Z.mod_small in Hb by (apply pattern_range; lia).
  rewrite Hb, pattern_low by lia. unfold demand. rewrite Hreq. split; [lia|exact Hpc].
Qed.
