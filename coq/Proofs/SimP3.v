(* The clock cannot advance while a resident task has no remaining time, and such a task is never
   reported complete by Task.step: the model-level form of finding F8 (zero-runtime strategies). *)
From Coq Require Import ZArith Bool List Lia ZifyBool.
Import ListNotations.
From Verif Require Import Model.Val Gen.Src_Task Gen.Src_Event Model.Sim Proofs.TaskP Proofs.SimP Proofs.SimP2.
Open Scope Z_scope.
Arguments task_step : simpl never.

Lemma step_zero d now sz : t_remaining_time d = 0 -> task_step d now sz = Ok (d, false).
Proof.
  unfold task_step. destruct d as [sx pre rel sta com rem las can dl]. cbn. intros ->.
  destruct (negb (task_state_eqb sx TS_RUNNING) || (now + sz <? sta)); reflexivity.
Qed.

Lemma zero_remaining_blocks_clock W s t x d next s' :
  Inv W s -> In t (ids (s_res s)) -> s_tasks s t = Some x -> t_remaining_time (t_dyn x) = 0 ->
  sim_step W s (EStep d next) = Some s' ->
  d = 0 /\ s_clock s' = s_clock s /\ task_step (t_dyn x) (s_clock s) d = Ok (t_dyn x, false).
Proof.
  intros I Hin Hx Z0 H. cbn [sim_step] in H.
  destruct (s_cur s) as [c|] eqn:Hc; [discriminate|].
  remember (match min_rem s (s_res s) with
            | Some m => if m <? next - s_clock s then m else next - s_clock s
            | None => next - s_clock s end) as expect eqn:He.
  destruct ((d =? expect) && (0 <=? d)) eqn:G; [|discriminate].
  destruct (step_tasks (s_tasks s) (s_res s) (s_clock s) d) as [f|] eqn:Hst; [|discriminate].
  injection H as <-. cbn [s_clock].
  destruct (min_rem_le s (s_res s) t Hin) as [m [Em Lm]]. unfold rem_of in Lm. rewrite Hx, Z0 in Lm.
  rewrite Em in He. assert (D0 : d = 0) by (destruct (m <? next - s_clock s) eqn:C; lia).
  split; [exact D0|]. split; [lia|].
  apply step_zero. exact Z0.
Qed.

Lemma zero_runtime_reachable :
  exists W l s t x, sim_exec W sim_init l = Some s /\ s_cur s = None /\ In t (ids (s_res s)) /\ s_tasks s t = Some x /\
                    st x = TS_RUNNING /\ t_drawn x = 0 /\ t_remaining_time (t_dyn x) = 0.
Proof.
  exists (mkWorld (mk_cap [(0, [(0, 1)])]) 0).
  exists [EGraph [(0, mkTI [] false, 0, 100)];
          EStep 0 0; EHandle TASK_RELEASE 0 (Some 0); ERelease 0 0; EHandled;
          EStep 0 0; EHandle SCHEDULER_FINISHED 0 None; ESchedule 0 0 0 0; EHandled;
          EStep 0 0; EHandle TASK_PLACEMENT 0 (Some 0); EPlace 0 0 [(0, 1)]; EStart 0 0 0; EHandled].
  eexists. exists 0. eexists. vm_compute. repeat split; try reflexivity. left; reflexivity.
Qed.
