(* Lemmas about Model/Clockwork.v, part 5: run_inference over workers and pools, schedule(), runs of invocations. *)
From Coq Require Import ZArith Bool List Lia ZifyBool Sorting.Sorted Permutation.
Import ListNotations.
From Verif Require Import Model.Val Gen.Src_Clockwork Model.Clockwork Proofs.ClockworkP Proofs.ClockworkP2 Proofs.ClockworkP3 Proofs.ClockworkP4.
Open Scope Z_scope.

Lemma build_esq_aux : forall wd now st st' e, Forall Inv_m st -> Forall (conforms wd) st -> build_esq now st = Ok (st', e) ->
  Forall2 (fun m' m => Inv_m m' /\ shrinks m' m /\ clean now m') st' st /\ esq_ok wd e /\ (length e <= length st)%nat.
Proof.
  intros wd now st. induction st as [|m st IH]; intros st' e Hi Hc H; cbn [build_esq] in H.
  - injection H as <- <-. split; [constructor|]. split; [constructor|cbn; lia].
  - inversion Hi as [|? ? Him Hi']; subst. inversion Hc as [|? ? Hcm Hc']; subst.
    destruct (avail_strats now m) as [[m' ss]|] eqn:Ea; [|discriminate].
    destruct (build_esq now st) as [[st'' e0]|] eqn:Eb; [|discriminate]. injection H as <- <-.
    destruct (IH _ _ Hi' Hc' eq_refl) as [H1 [H2 H3]].
    destruct (avail_strats_spec now m m' ss Him Ea) as [A1 [A2 [A3 A4]]].
    split; [constructor; [split; [assumption|split; assumption]|assumption]|].
    assert (Hent : exists ssw, zassoc (fst (m_id m, ss)) wd = Some ssw /\ incl (snd (m_id m, ss)) ssw).
    { exists (map fst (m_queues m)). cbn [fst snd]. split; [exact Hcm|]. intros x Hx. destruct (A4 x Hx) as [q [Hq _]].
      rewrite <- (shrinks_strategies m' m A2). apply in_map_iff. exists (x, q). split; [reflexivity|assumption]. }
    destruct (nonempty ss); [split; [constructor; assumption|cbn [length]; lia]|split; [assumption|cbn [length]; lia]].
Qed.
Lemma forall2_shrinks_facts : forall wd now st' st, Inv_st wd st ->
  Forall2 (fun m' m => Inv_m m' /\ shrinks m' m /\ clean now m') st' st ->
  Inv_st wd st' /\ Forall (clean now) st' /\ incl (st_recs st') (st_recs st) /\ (st_total st' <= st_total st)%nat.
Proof.
  intros wd now st' st [Hnd Hinv Hconf] H.
  assert (Hids : map m_id st' = map m_id st).
  { clear - H. induction H as [|m' m st' st [_ [[E _] _]] _ IH]; cbn [map]; [reflexivity|]. f_equal; assumption. }
  assert (Hcf : Forall (conforms wd) st').
  { clear - H Hconf. induction H as [|m' m st' st [_ [Hs _]] _ IH]; [constructor|]. inversion Hconf; subst. constructor; [|apply IH; assumption].
    unfold conforms in *. rewrite (shrinks_strategies m' m Hs). destruct Hs as [E _]. rewrite E. assumption. }
  split; [constructor; [rewrite Hids; assumption| |assumption]|].
  - clear - H. induction H as [|m' m st' st [Hi _] _ IH]; constructor; assumption.
  - split; [clear - H; induction H as [|m' m st' st [_ [_ Hcl]] _ IH]; constructor; assumption|]. split.
    + clear - H. induction H as [|m' m st' st [_ [[_ [_ [_ Hs]]] _]] _ IH]; [apply incl_refl|].
      unfold st_recs. cbn [flat_map]. apply incl_app; [apply incl_appl; assumption|apply incl_appr; exact IH].
    + clear - H. induction H as [|m' m st' st [Hi [Hs _]] _ IH]; cbn [st_total fold_right]; [lia|].
      fold (st_total st') (st_total st).
      assert (length (m_tasks m') <= length (m_tasks m))%nat; [|lia].
      rewrite <- (map_length (fun tn => t_id (fst tn)) (m_tasks m')), <- (map_length (fun tn => t_id (fst tn)) (m_tasks m)).
      apply NoDup_incl_length; [apply (inv_keys m' Hi)|apply (shrinks_keys _ _ Hs)].
Qed.

Definition loc_ok (ps : list pool) (now : Z) (b : batch) : Prop :=
  b_now b = now /\ b_tasks b <> [] /\
  exists p w, In p ps /\ In w (p_workers p) /\ b_pool b = p_id p /\ w_id (b_worker b) = w_id w /\ w_loaded (b_worker b) = w_loaded w.
(* what one level of run_inference guarantees, given what held before *)
Definition level_spec (wd : world) (loc : batch -> Prop) (st : cw_state) (acc : list batch) (st' : cw_state) (acc' : list batch) : Prop :=
  Inv_st wd st' /\ Forall (batch_ok wd) acc' /\ once_inv acc' st' /\ incl (st_recs st') (st_recs st) /\
  exists new, acc' = acc ++ new /\ incl (placed new) (st_recs st) /\ Forall loc new.

Lemma once_inv_shrink : forall acc st st', once_inv acc st -> incl (st_recs st') (st_recs st) -> once_inv acc st'.
Proof. intros acc st st' [H1 H2] Hi. split; [assumption|]. intros t Ht Hc. apply (H2 t Ht). apply Hi. assumption. Qed.

Lemma infer_worker_spec : forall wd ls now pid w st acc st' acc',
  world_wf wd -> Inv_st wd st -> Forall (batch_ok wd) acc -> once_inv acc st ->
  infer_worker ls now pid w st acc = Ok (st', acc') ->
  level_spec wd (new_ok pid w now) st acc st' acc'.
Proof.
  intros wd ls now pid w st acc st' acc' Hw Hi Hb Ho H. unfold infer_worker in H.
  destruct (build_esq now st) as [[st1 e]|] eqn:Eb; [|discriminate].
  destruct (build_esq_aux wd now st st1 e (st_inv wd st Hi) (st_conf wd st Hi) Eb) as [F2 [He _]].
  destruct (forall2_shrinks_facts wd now st1 st Hi F2) as [Hi1 [Hc1 [Hr1 _]]].
  match type of H with context [infer_loop ?fu ?a ?b ?c ?d ?s ?ee ?ac] => destruct (infer_loop fu a b c d s ee ac) as [[[w2 st2] acc2]|] eqn:El; [|discriminate] end.
  injection H as <- <-.
  assert (He1 : esq_ok wd (if ls then sort_esq st1 e else e)) by (destruct ls; [apply esq_ok_sort|]; assumption).
  destruct (infer_loop_spec _ _ _ _ _ _ _ _ _ _ _ _ Hw Hi1 Hc1 He1 Hb (once_inv_shrink _ _ _ Ho Hr1) El) as [R1 [_ [R3 [R4 [R5 [new [Rn1 [Rn2 Rn3]]]]]]]].
  unfold level_spec. repeat (split; [assumption|]). split; [eapply incl_tran; eassumption|].
  exists new. split; [assumption|]. split; [eapply incl_tran; eassumption|assumption].
Qed.

Lemma level_spec_trans : forall wd (loc1 loc2 loc : batch -> Prop) st acc st1 acc1 st2 acc2,
  (forall b, loc1 b -> loc b) -> (forall b, loc2 b -> loc b) ->
  level_spec wd loc1 st acc st1 acc1 -> level_spec wd loc2 st1 acc1 st2 acc2 -> level_spec wd loc st acc st2 acc2.
Proof.
  intros wd loc1 loc2 loc st acc st1 acc1 st2 acc2 L1 L2 [A1 [A2 [A3 [A4 [n1 [A5 [A6 A7]]]]]]] [B1 [B2 [B3 [B4 [n2 [B5 [B6 B7]]]]]]].
  unfold level_spec. repeat (split; [assumption|]). split; [eapply incl_tran; eassumption|].
  exists (n1 ++ n2). split; [rewrite B5, A5, app_assoc; reflexivity|]. split.
  - rewrite placed_app. apply incl_app; [assumption|eapply incl_tran; eassumption].
  - apply Forall_app. split; (eapply Forall_impl; [|eassumption]); assumption.
Qed.
Lemma level_spec_refl : forall wd loc st acc, Inv_st wd st -> Forall (batch_ok wd) acc -> once_inv acc st -> level_spec wd loc st acc st acc.
Proof.
  intros. unfold level_spec. repeat (split; [assumption|]). split; [apply incl_refl|]. exists []. rewrite app_nil_r.
  split; [reflexivity|]. split; [intros x []|constructor].
Qed.

Lemma infer_workers_spec : forall wd ls now p ws st acc st' acc',
  world_wf wd -> Inv_st wd st -> Forall (batch_ok wd) acc -> once_inv acc st -> incl ws (p_workers p) ->
  infer_workers ls now (p_id p) ws st acc = Ok (st', acc') ->
  level_spec wd (loc_ok [p] now) st acc st' acc'.
Proof.
  intros wd ls now p ws. induction ws as [|w ws IH]; intros st acc st' acc' Hw Hi Hb Ho Hin H; cbn [infer_workers] in H.
  - injection H as <- <-. apply level_spec_refl; assumption.
  - destruct (infer_worker ls now (p_id p) w st acc) as [[st1 acc1]|] eqn:E1; [|discriminate].
    pose proof (infer_worker_spec _ _ _ _ _ _ _ _ _ Hw Hi Hb Ho E1) as L1.
    pose proof L1 as [A1 [A2 [A3 _]]].
    assert (Hin' : incl ws (p_workers p)) by (intros x Hx; apply Hin; right; assumption).
    pose proof (IH _ _ _ _ Hw A1 A2 A3 Hin' H) as L2.
    eapply level_spec_trans; [| |exact L1|exact L2]; [|auto].
    intros b [B1 [B2 [B3 [B4 B5]]]]. unfold loc_ok. repeat (split; [assumption|]). exists p, w.
    repeat split; [left; reflexivity|apply Hin; left; reflexivity|assumption|assumption|assumption].
Qed.
Lemma infer_pools_spec : forall wd ls now ps st acc st' acc',
  world_wf wd -> Inv_st wd st -> Forall (batch_ok wd) acc -> once_inv acc st ->
  infer_pools ls now ps st acc = Ok (st', acc') ->
  level_spec wd (loc_ok ps now) st acc st' acc'.
Proof.
  intros wd ls now ps. induction ps as [|p ps IH]; intros st acc st' acc' Hw Hi Hb Ho H; cbn [infer_pools] in H.
  - injection H as <- <-. apply level_spec_refl; assumption.
  - destruct (infer_workers ls now (p_id p) (p_workers p) st acc) as [[st1 acc1]|] eqn:E1; [|discriminate].
    pose proof (infer_workers_spec _ _ _ _ _ _ _ _ _ Hw Hi Hb Ho (incl_refl _) E1) as L1.
    pose proof L1 as [A1 [A2 [A3 _]]].
    pose proof (IH _ _ _ _ Hw A1 A2 A3 H) as L2.
    eapply level_spec_trans; [| |exact L1|exact L2].
    + intros b [B1 [B2 [q [w [[<-|[]] [Q2 [Q3 [Q4 Q5]]]]]]]]. unfold loc_ok. repeat (split; [assumption|]). exists p, w. repeat split; [left; reflexivity|assumption|assumption|assumption|assumption].
    + intros b [B1 [B2 [q [w [Q1 [Q2 [Q3 [Q4 Q5]]]]]]]]. unfold loc_ok. repeat (split; [assumption|]). exists q, w. repeat split; [right; assumption|assumption|assumption|assumption|assumption].
Qed.

(* ------------------------------------------------------------------ schedule() *)
(* the virtual cluster run_inference works on: the offered view with the evictions of run_load applied *)
Definition inv_pools (inv : invocation) : list pool := match load_pools inv with Ok ps => ps | Err _ => [] end.
Definition admitted (wd : world) (inv : invocation) (t : task) : Prop := In t (i_offered inv) /\ hopeless wd (i_now inv) t = false.

Lemma cw_schedule_spec : forall wd ls inv st st' d, world_wf wd -> Inv_st wd st -> cw_schedule wd ls inv st = Ok (st', d) ->
  Inv_st wd st' /\
  d_cancel d = filter (hopeless wd (i_now inv)) (i_offered inv) /\
  Forall (batch_ok wd) (d_batches d) /\ Forall (loc_ok (inv_pools inv) (i_now inv)) (d_batches d) /\
  NoDup (placed (d_batches d)) /\
  (forall t, In t (placed (d_batches d)) -> (In t (st_recs st) \/ admitted wd inv t) /\ ~ In t (st_recs st')) /\
  (forall t, In t (st_recs st') -> In t (st_recs st) \/ admitted wd inv t).
Proof.
  intros wd ls inv st st' d Hw Hi H. pose proof (cw_schedule_cancels _ _ _ _ _ _ H) as Hcan. unfold cw_schedule in H.
  destruct (admission wd (i_now inv) (i_offered inv) st []) as [[st1 c]|] eqn:Ea; [|discriminate].
  destruct (admission_inv _ _ _ _ _ _ _ Hw Hi Ea) as [Hi1 Hrec1].
  assert (Hx : exists lds, infer_pools ls (i_now inv) (inv_pools inv) st1 [] = Ok (st', d_batches d) /\ d = mkD c lds (d_batches d)).
  { unfold inv_pools. destruct (load_pools inv) as [ps|]; [|discriminate].
    match type of H with context [infer_pools ?a ?b ?c ?d ?e] => destruct (infer_pools a b c d e) as [[st2 bs]|] eqn:Ei; [|discriminate] end;
    injection H as <- <-; eexists; split; reflexivity. }
  destruct Hx as [lds [Ei _]].
  assert (Ho0 : once_inv [] st1) by (split; [constructor|intros t []]).
  destruct (infer_pools_spec _ _ _ _ _ _ _ _ Hw Hi1 (Forall_nil _) Ho0 Ei) as [R1 [R2 [[R3a R3b] [R4 [new [Rn1 [Rn2 Rn3]]]]]]].
  cbn [app] in Rn1. subst new.
  split; [assumption|]. split; [assumption|]. split; [assumption|]. split; [assumption|]. split; [assumption|]. split.
  - intros t Ht. split; [|apply R3b; assumption]. destruct (Hrec1 t (Rn2 t Ht)) as [Hl|Hr]; [left; assumption|right; exact Hr].
  - intros t Ht. apply Hrec1. apply R4. assumption.
Qed.

(* ------------------------------------------------------------------ runs *)
Definition run_placed (rs : list (result decisions)) : list task :=
  flat_map (fun r => match r with Ok d => placed (d_batches d) | Err _ => [] end) rs.
(* the environment never offers a request that was placed earlier in the run (it is SCHEDULED, RUNNING or COMPLETED) *)
Fixpoint env_ok (wd : world) (ls : bool) (invs : list invocation) (st : cw_state) (prev : list task) : Prop :=
  match invs with
  | [] => True
  | inv :: rest =>
      (forall t, In t (i_offered inv) -> ~ In t prev) /\
      match cw_schedule wd ls inv st with
      | Ok (st', d) => env_ok wd ls rest st' (prev ++ placed (d_batches d))
      | Err _ => True
      end
  end.

Lemma run_once : forall wd ls invs st prev, world_wf wd -> Inv_st wd st ->
  NoDup prev -> (forall t, In t prev -> ~ In t (st_recs st)) -> env_ok wd ls invs st prev ->
  NoDup (prev ++ run_placed (cw_run wd ls invs st)).
Proof.
  intros wd ls invs. induction invs as [|inv rest IH]; intros st prev Hw Hi Hp Hd He; cbn [cw_run].
  - cbn. rewrite app_nil_r. assumption.
  - cbn [env_ok] in He. destruct He as [He1 He2].
    destruct (cw_schedule wd ls inv st) as [[st' d]|c] eqn:Es.
    + destruct (cw_schedule_spec _ _ _ _ _ _ Hw Hi Es) as [S1 [_ [_ [_ [S5 [S6 S7]]]]]].
      unfold run_placed. cbn [flat_map]. fold (run_placed (cw_run wd ls rest st')). rewrite app_assoc. apply IH; try assumption.
      * apply NoDup_app_intro; [assumption|assumption|]. intros t Ht1 Ht2. destruct (S6 t Ht2) as [[Hl|[Hr _]] _].
        -- apply (Hd t Ht1). assumption.
        -- apply (He1 t Hr). assumption.
      * intros t Ht. apply in_app_or in Ht. destruct Ht as [Ht|Ht]; [|apply S6; assumption].
        intros Hc. destruct (S7 t Hc) as [Hl|[Hr _]]; [apply (Hd t Ht); assumption|apply (He1 t Hr); assumption].
    + unfold run_placed. cbn. rewrite app_nil_r. assumption.
Qed.
