From Coq Require Import ZArith Bool List Lia.
Import ListNotations.
From Verif Require Import Model.Val Model.Graph Proofs.GraphPBase.
Open Scope Z_scope.
(* Graph.remove does not keep the graph well-formed: the removed node stays in the children
   lists of its parents, and every traversal that reaches it raises.  P -> {A, B}, remove A. *)
Lemma remove_not_wf_refuted :
  exists g n g', wf g /\ remove_node g n = Ok g' /\ ~ wf g' /\
    topological_sort g' = Err E_KEY /\ depth_first g' None = ([0; 2; 1], E_VALUE) /\
    breadth_first g' None = ([], E_VALUE).
Proof.
  destruct (of_mapping_wf [(0, [1; 2])]) as [g [H W]]. vm_compute in H. injection H as <-.
  eexists _, 1, _. split; [exact W|]. split; [vm_compute; reflexivity|]. split.
  - intros [_ C _]. destruct (C 0 1) as [_ H]; [vm_compute; auto|]. vm_compute in H. intuition discriminate.
  - vm_compute. repeat split; reflexivity.
Qed.
