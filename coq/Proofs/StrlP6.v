(* C20 — part 6: LessThan over Choose / Max-of-Choose children at the level of the read-back. *)
From Coq Require Import ZArith Bool List Lia ZifyBool.
Import ListNotations.
From Verif Require Import Model.Val Model.Strl Proofs.StrlP Proofs.StrlP2 Proofs.StrlP3 Proofs.StrlP4.
Open Scope Z_scope.

(* ------------------------------------------------------------------ distinct identifiers *)
Lemma nodup_app_disjoint : forall {A} (l1 l2 : list A) x, NoDup (l1 ++ l2) -> In x l1 -> In x l2 -> False.
Proof.
  induction l1 as [|h t IH]; intros l2 x Hn H1 H2; [destruct H1|]. cbn [app] in Hn. inversion Hn as [|? ? Hh Ht]; subst.
  destruct H1 as [->|H1]; [apply Hh; apply in_or_app; right; exact H2|]. eapply IH; eauto.
Qed.

Lemma nodup_app_l : forall {A} (l1 l2 : list A), NoDup (l1 ++ l2) -> NoDup l1.
Proof.
  induction l1 as [|h t IH]; intros l2 Hn; [constructor|]. cbn [app] in Hn. inversion Hn as [|? ? Hh Ht]; subst.
  constructor; [intros Hin; apply Hh; apply in_or_app; left; exact Hin|eapply IH; eauto].
Qed.

Lemma nodup_app_r : forall {A} (l1 l2 : list A), NoDup (l1 ++ l2) -> NoDup l2.
Proof. induction l1 as [|h t IH]; intros l2 Hn; [exact Hn|]. cbn [app] in Hn. inversion Hn; subst. eapply IH; eauto. Qed.

Lemma shared_block : forall {A B} (F : A -> list B) (f : B -> Z) l k k' c c',
  NoDup (map f (flat_map F l)) -> In k l -> In k' l -> In c (F k) -> In c' (F k') -> f c = f c' -> k = k'.
Proof.
  induction l as [|h t IH]; intros k k' c c' Hn Hk Hk' Hc Hc' Hf; [destruct Hk|].
  cbn [flat_map] in Hn. rewrite map_app in Hn.
  destruct Hk as [->|Hk], Hk' as [->|Hk'].
  - reflexivity.
  - exfalso. apply (nodup_app_disjoint _ _ (f c) Hn); [apply in_map; exact Hc|].
    rewrite Hf. apply in_map. apply in_flat_map. exists k'. split; assumption.
  - exfalso. apply (nodup_app_disjoint _ _ (f c') Hn); [apply in_map; exact Hc'|].
    rewrite <- Hf. apply in_map. apply in_flat_map. exists k. split; assumption.
  - apply (IH k k' c c'); try assumption. eapply nodup_app_r; eauto.
Qed.

Lemma nodup_block : forall {A B} (F : A -> list B) (f : B -> Z) l k,
  NoDup (map f (flat_map F l)) -> In k l -> NoDup (map f (F k)).
Proof.
  induction l as [|h t IH]; intros k Hn Hk; [destruct Hk|]. cbn [flat_map] in Hn. rewrite map_app in Hn.
  destruct Hk as [->|Hk]; [eapply nodup_app_l; eauto|]. apply IH; [eapply nodup_app_r; eauto|exact Hk].
Qed.

Lemma unique_ids_kid : forall e k, unique_ids e -> In k (children e) -> unique_ids k.
Proof.
  intros e k Hu Hk. unfold unique_ids in *. rewrite subs_children in Hu. cbn [map] in Hu.
  inversion Hu as [|? ? _ Hflat]; subst.
  exact (nodup_block subs node_id (children e) k Hflat Hk).
Qed.

Lemma choose_ids_in : forall z n, In n (choose_ids z) <-> exists ps am s d u, In (Choose n ps am s d u) (subs z).
Proof.
  intros z n. unfold choose_ids. rewrite in_flat_map. split.
  - intros [x [Hx Hn]]. destruct x; cbn [choose_id] in Hn; try (destruct Hn; fail).
    destruct Hn as [<-|[]]. exists parts, amount, start, dur, util. exact Hx.
  - intros (ps & am & s & d & u & Hin). exists (Choose n ps am s d u). split; [exact Hin|left; reflexivity].
Qed.

(* ------------------------------------------------------------------ a placement reaches the root only through ancestors
   that were lowered with utility *)
Lemma alive_chain : forall pt now a e, unique_ids e ->
  forall pl, In pl (sol_pls (solve pt now a e)) ->
  forall z, In z (subs e) -> In (pl_name pl) (choose_ids z) -> is_pu (parse pt now z) = true.
Proof.
  intros pt now a. induction e using expr_kids_ind. intros Hu pl Hpl z Hz Hname.
  destruct (solve_pls_cases pt now a e) as [(n & ps & am & s & d & u & -> & Hp & _ & Heq)|[Heq|[Hpu Heq]]]; rewrite Heq in Hpl.
  - cbn [subs] in Hz. destruct Hz as [<-|[]]. exact Hp.
  - destruct Hpl.
  - rewrite subs_children in Hz. destruct Hz as [<-|Hz]; [exact Hpu|].
    apply in_flat_map in Hz. destruct Hz as [k' [Hk' Hz]].
    apply merge_in in Hpl. destruct Hpl as [sl [Hsl Hin]]. apply in_map_iff in Hsl. destruct Hsl as [k [<- Hk]].
    destruct (pls_origin _ _ _ _ _ Hin) as (n & ps & am & s & d & u & Hc & _ & _ & ->).
    cbn [own_placement pl_name] in Hname.
    apply choose_ids_in in Hname. destruct Hname as (ps' & am' & s' & d' & u' & Hc').
    assert (Hc'k : In (Choose n ps' am' s' d' u') (subs k')) by (eapply subs_trans; eauto).
    assert (k = k').
    { unfold unique_ids in Hu. rewrite subs_children in Hu. cbn [map] in Hu. inversion Hu as [|? ? _ Hflat]; subst.
      apply (shared_block subs node_id (children e) k k' _ _ Hflat Hk Hk' Hc Hc'k). reflexivity. }
    subst k'. rewrite Forall_forall in H.
    apply (H k Hk (unique_ids_kid _ _ Hu Hk) _ Hin z Hz).
    cbn [own_placement pl_name]. apply choose_ids_in. exists ps', am', s', d', u'. exact Hc'.
Qed.

(* ------------------------------------------------------------------ the theorem *)
Definition simple (z : expr) : Prop := is_choose z = true \/ exists m ks, z = Max m ks.

Definition lt_ok_simple (e : expr) (pls : list placement) : Prop :=
  forall n x y, In (LessThan n x y) (subs e) -> simple x -> simple y ->
    forall p1 p2, In p1 pls -> In p2 pls ->
      In (pl_name p1) (choose_ids x) -> In (pl_name p2) (choose_ids y) -> pl_end p1 <= pl_start p2.

Lemma inside_of_simple : forall pt now g e cs z c,
  compile pt now g e = Ok cs -> In z (subs e) -> simple z -> is_choose c = true -> In c (subs z) -> inside c z.
Proof.
  intros pt now g e cs z c Hc Hz Hs Hcc Hin. split; [exact Hcc|].
  destruct Hs as [Hch|[m [ks ->]]].
  - left. destruct z; try discriminate. cbn [subs] in Hin. destruct Hin as [<-|[]]. reflexivity.
  - right. exists m, ks. split; [reflexivity|].
    cbn [subs] in Hin. destruct Hin as [<-|Hin]; [discriminate|].
    apply in_flat_map in Hin. destruct Hin as [k [Hk Hin]].
    pose proof (max_kids_choose _ _ _ _ _ _ _ _ Hc Hz Hk) as Hkc.
    destruct k; try discriminate. cbn [subs] in Hin. destruct Hin as [<-|[]]. exact Hk.
Qed.

Theorem lessthan_simple_placements : forall pt now g e cs a,
  compile pt now g e = Ok cs -> sat cs a = true -> unique_ids e -> wf_times e ->
  lt_ok_simple e (populate pt now a e).
Proof.
  intros pt now g e cs a Hc Hs Hu Hwf n x y Hin Hsx Hsy p1 p2 H1 H2 M1 M2.
  pose proof (sat_facts _ _ _ _ _ _ Hc Hs) as F. unfold populate in H1, H2.
  assert (Hxs : In x (subs e)) by (eapply subs_trans; [exact Hin|]; eapply subs_kid; [left; reflexivity|apply subs_refl]).
  assert (Hys : In y (subs e)) by (eapply subs_trans; [exact Hin|]; eapply subs_kid; [right; left; reflexivity|apply subs_refl]).
  (* the LessThan itself was lowered with utility, because p1 came up through it *)
  assert (Hpu : is_pu (parse pt now (LessThan n x y)) = true).
  { apply (alive_chain pt now a e Hu p1 H1 _ Hin). apply choose_ids_in.
    apply choose_ids_in in M1. destruct M1 as (ps & am & s & d & u & Hcx). exists ps, am, s, d, u.
    eapply subs_kid; [left; reflexivity|exact Hcx]. }
  assert (Horigin : forall pl z, In pl (sol_pls (solve pt now a e)) -> In z (subs e) -> simple z ->
            In (pl_name pl) (choose_ids z) ->
            exists n0 ps am s d u, inside (Choose n0 ps am s d u) z /\
              is_pu (parse pt now (Choose n0 ps am s d u)) = true /\ a (VInd n0) = 1 /\
              pl_start pl = s /\ pl_end pl = s + d).
  { intros pl z Hpl Hz Hsz Hm.
    destruct (pls_origin _ _ _ _ _ Hpl) as (n0 & ps & am & s & d & u & Hc0 & Hp0 & Hnz & ->).
    destruct (choose_facts _ _ _ _ _ _ _ _ _ _ _ F Hc0 Hp0) as [Hi _].
    assert (HI : a (VInd n0) = 1).
    { assert (a (VInd n0) = 0 \/ a (VInd n0) = 1) as [H0|H1'] by lia; [|exact H1'].
      rewrite H0, Z.mul_0_r in Hnz. congruence. }
    cbn [own_placement pl_name] in Hm. apply choose_ids_in in Hm. destruct Hm as (ps' & am' & s' & d' & u' & Hcz).
    assert (Hsame : Choose n0 ps' am' s' d' u' = Choose n0 ps am s d u).
    { apply (unique_by node_id (subs e)); [exact Hu| |exact Hc0|reflexivity]. exact (subs_trans e z _ Hz Hcz). }
    rewrite Hsame in Hcz.
    exists n0, ps, am, s, d, u.
    split; [exact (inside_of_simple pt now g e cs z (Choose n0 ps am s d u) Hc Hz Hsz eq_refl Hcz)|].
    split; [exact Hp0|]. split; [exact HI|]. split; reflexivity. }
  destruct (Horigin p1 x H1 Hxs Hsx M1) as (n1 & ps1 & am1 & s1 & d1 & u1 & I1 & P1 & A1 & S1 & E1).
  destruct (Horigin p2 y H2 Hys Hsy M2) as (n2 & ps2 & am2 & s2 & d2 & u2 & I2 & P2 & A2 & S2 & E2).
  rewrite E1, S2.
  exact (lessthan_simple pt now g e cs a n x y Hc Hs Hwf Hin Hpu _ _ _ _ _ _ _ _ _ _ _ _ I1 I2 P1 A1 P2 A2).
Qed.
