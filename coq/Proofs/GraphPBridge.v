(* C17, bridge: the decisive expressions TRANSLATED from workload/graph.py (Gen/Src_Graph.v,
   regenerated on every run) are the ones the hand-written model uses.  An edit of one of
   them in the source breaks a lemma here. *)
From Coq Require Import ZArith Bool List Lia ZifyBool.
Import ListNotations.
From Verif Require Import Model.Val Model.Graph Gen.Src_Graph.
Open Scope Z_scope.

(* get_longest_path: the relaxation step of the model is the translated test / value *)
Lemma bridge_lp_relax : forall w n c (st : lp_state) lc ln,
  lookup c (fst st) = Some lc -> lookup n (fst st) = Some ln ->
  lp_relax w n (Ok st) c =
  if lp_test lc ln (w c) then Ok (set_key c (lp_new ln (w c)) (fst st), set_key c n (snd st)) else Ok st.
Proof. intros w n c st lc ln Hc Hn. unfold lp_relax, lp_test, lp_new. cbn [bind]. rewrite Hc, Hn. reflexivity. Qed.
(* ... and the back-tracking loop continues exactly while the translated test holds *)
Lemma bridge_lp_back : forall f w pred cur cum path,
  lp_back (S f) w pred cur cum path =
  if lp_continue cum then match lookup cur pred with
                          | None => Err E_KEY
                          | Some p => lp_back f w pred p (cum - w p) (path ++ [p])
                          end
  else Ok (rev path).
Proof. reflexivity. Qed.
Lemma bridge_default_weight : forall g n,
  default_weight g n = default_w (match parents_of g n with [] => true | _ => false end).
Proof. intros g n. unfold default_weight, default_w. destruct (parents_of g n); reflexivity. Qed.

(* are_dependent: the branch on the two (default-func) depths *)
Lemma bridge_are_dependent : forall g n1 n2 d1 d2,
  get_node_depth g n1 depth_default_is_max = Ok d1 -> get_node_depth g n2 depth_default_is_max = Ok d2 ->
  are_dependent g n1 n2 =
  match dep_branch d1 d2 with
  | 0 => Ok false
  | 21 => check_dependency g n2 n1
  | _ => check_dependency g n1 n2
  end.
Proof.
  intros g n1 n2 d1 d2 H1 H2. unfold are_dependent, dep_branch. unfold depth_default_is_max in *.
  rewrite H1, H2. cbn [bind]. destruct (d1 =? d2); [reflexivity|]. destruct (d1 >? d2); reflexivity.
Qed.

(* get_node_depth: default depth, the parents test, the increment *)
Lemma bridge_depth_default : forall d n, lookup n d = None -> dget d n = depth_source.
Proof. intros d n H. unfold dget. rewrite H. reflexivity. Qed.
Lemma bridge_depth_step : forall g mx t x rest d ps, get_parents g x = Ok ps ->
  depth_loop g mx t (x :: rest) d =
  let d' := if depth_has_parents (Z.of_nat (length ps))
            then set_key x (depth_step (fold_mm mx (dget d (hd 0 ps)) (map (dget d) (tl ps)))) d else d in
  if t =? x then Ok (dget d' t) else depth_loop g mx t rest d'.
Proof.
  intros g mx t x rest d ps H. cbn [depth_loop]. rewrite H. cbn [bind]. unfold depth_has_parents, depth_step.
  destruct ps as [|p ps']; [reflexivity|].
  replace (Z.of_nat (length (p :: ps')) >? 0) with true by (cbn [length]; lia). reflexivity.
Qed.

(* topological_sort: what visit() does on each mark *)
Definition mark_code (m : mark) : Z := match m with Unmarked => 0 | Temporary => 1 | Permanent => 2 end.
Lemma bridge_visit : forall f g n (s : tstate) m, lookup n (fst s) = Some m ->
  visit (S f) g n s =
  match visit_dispatch (mark_code m) with
  | 0 => Ok s
  | 1 => Err E_RUNTIME
  | _ => bind (get_children g n) (fun cs =>
         bind (visit_children (visit f g) cs (set_key n Temporary (fst s), snd s)) (fun s2 =>
         Ok (set_key n Permanent (fst s2), snd s2 ++ [n])))
  end.
Proof. intros f g n s m H. cbn [visit]. rewrite H. destruct m; reflexivity. Qed.
Lemma bridge_structure :
  topo_reversed = true /\ dfs_pops_right_and_skips_visited = true /\ bfs_pops_left_and_needs_all_parents = true.
Proof. repeat split; reflexivity. Qed.
