(* C20 — part 4: LessThan over Choose / Max-of-Choose children; monitor equivalences. *)
From Coq Require Import ZArith Bool List Lia ZifyBool.
Import ListNotations.
From Verif Require Import Model.Val Model.Strl Proofs.StrlP Proofs.StrlP2 Proofs.StrlP3.
Open Scope Z_scope.

(* ------------------------------------------------------------------ weighted sums of the child indicators of a Max *)
Lemma lin_val_weighted : forall pt now a (w : pres -> Z) ks,
  lin_val a (map (fun r => (w r, pu_ind r)) (filter is_pu (map (parse pt now) ks)))
  = sumZ (map (fun k => w (parse pt now k) * kid_ind pt now a k) ks).
Proof.
  induction ks as [|k ks IH]; [reflexivity|]. cbn [map filter]. unfold kid_ind at 1.
  destruct (is_pu (parse pt now k)); cbn [map lin_val]; rewrite ?sumZ_cons, IH; lia.
Qed.

Lemma one_le_sum : forall {A} (f : A -> Z) l x, (forall z, In z l -> 0 <= f z) -> In x l -> f x <= sumZ (map f l).
Proof.
  induction l as [|v l IH]; intros x Hnn Hx; [destruct Hx|]. cbn [map]. rewrite sumZ_cons.
  assert (0 <= f v) by (apply Hnn; left; reflexivity).
  assert (Hl : forall z, In z l -> 0 <= f z) by (intros; apply Hnn; right; assumption).
  assert (0 <= sumZ (map f l)) by (apply sumZ_nonneg; intros q Hq; apply in_map_iff in Hq; destruct Hq as [r [<- Hr]]; auto).
  destruct Hx as [<-|Hx]; [lia|]. pose proof (IH x Hl Hx). lia.
Qed.

Lemma zero_sum_all_zero : forall {A} (f : A -> Z) l, (forall z, In z l -> 0 <= f z) -> sumZ (map f l) = 0 ->
  forall z, In z l -> f z = 0.
Proof.
  intros A f l Hnn Hs z Hz. pose proof (one_le_sum f l z Hnn Hz). pose proof (Hnn z Hz). lia.
Qed.

Lemma weighted_single : forall {A} (f w : A -> Z) l x, (forall z, In z l -> 0 <= f z) -> In x l -> f x = 1 ->
  sumZ (map f l) = 1 -> sumZ (map (fun k => w k * f k) l) = w x.
Proof.
  induction l as [|h t IH]; intros x Hnn Hx Hfx Hs; [destruct Hx|]. cbn [map] in *. rewrite sumZ_cons in *.
  assert (Hh : 0 <= f h) by (apply Hnn; left; reflexivity).
  assert (Ht : forall z, In z t -> 0 <= f z) by (intros; apply Hnn; right; assumption).
  assert (Hst : 0 <= sumZ (map f t)) by (apply sumZ_nonneg; intros q Hq; apply in_map_iff in Hq; destruct Hq as [r [<- Hr]]; auto).
  destruct (Z.eq_dec (f h) 1) as [H1|H1].
  - assert (Hz : sumZ (map f t) = 0) by lia.
    assert (Hall : forall z, In z t -> f z = 0) by (apply zero_sum_all_zero; assumption).
    assert (Hx' : x = h).
    { destruct Hx as [->|Hx]; [reflexivity|]. specialize (Hall x Hx). lia. }
    subst x.
    assert (sumZ (map (fun k => w k * f k) t) = 0).
    { clear -Hall. induction t as [|v t IH]; [reflexivity|]. cbn [map]. rewrite sumZ_cons.
      rewrite (Hall v (or_introl eq_refl)). rewrite IH; [lia|]. intros; apply Hall; right; assumption. }
    lia.
  - assert (Hxt : In x t). { destruct Hx as [->|Hx]; [congruence|exact Hx]. }
    pose proof (one_le_sum f t x Ht Hxt).
    assert (f h = 0) by lia. assert (sumZ (map f t) = 1) by lia.
    rewrite (IH x Ht Hxt Hfx H2). lia.
Qed.

(* ------------------------------------------------------------------ a satisfied child of a Max lies inside the Max's time variables *)
Definition wf_times (e : expr) : Prop :=
  forall n ps am s d u, In (Choose n ps am s d u) (subs e) -> 0 <= s /\ 0 <= d.

Lemma max_kids_choose : forall pt now g e cs n ks k,
  compile pt now g e = Ok cs -> In (Max n ks) (subs e) -> In k ks -> is_choose k = true.
Proof.
  intros pt now g e cs n ks k Hc Hin Hk.
  destruct (compile_inv _ _ _ _ _ Hc) as [n0 [ks0 [-> [Hnt _]]]].
  assert (Hm : no_throw pt now (Max n ks) = true).
  { rewrite subs_children in Hin. destruct Hin as [Heq|Hin]; [discriminate|]. cbn [children] in Hin.
    apply in_flat_map in Hin. destruct Hin as [k0 [Hk0 Hin]]. rewrite forallb_forall in Hnt.
    apply (no_throw_sub pt now k0 (Hnt k0 Hk0) _ Hin). }
  cbn [no_throw] in Hm. repeat (apply andb_prop in Hm; destruct Hm as [Hm ?]).
  rewrite forallb_forall in H1. exact (H1 k Hk).
Qed.

Lemma kid_ind_choose : forall pt now a n ps am s d u,
  is_pu (parse pt now (Choose n ps am s d u)) = true ->
  kid_ind pt now a (Choose n ps am s d u) = a (VInd n).
Proof.
  intros. unfold kid_ind. rewrite H. destruct (choose_pu_inv _ _ _ _ _ _ _ _ H) as [-> _]. reflexivity.
Qed.

Lemma max_bounds : forall pt now g e cs a m ks n ps am s d u,
  compile pt now g e = Ok cs -> sat cs a = true -> wf_times e ->
  In (Max m ks) (subs e) -> In (Choose n ps am s d u) ks ->
  is_pu (parse pt now (Choose n ps am s d u)) = true -> a (VInd n) = 1 ->
  a (VStart m) <= s /\ s + d <= a (VEnd m).
Proof.
  intros pt now g e cs a m ks n ps am s d u Hc Hs Hwf Hin Hk Hp HI.
  pose proof (sat_facts _ _ _ _ _ _ Hc Hs) as F.
  destruct (max_at_most_one _ _ _ _ _ _ _ _ Hc Hs Hin) as [HM [Hsum [Hbin _]]].
  set (c := Choose n ps am s d u) in *.
  assert (Hkc : kid_ind pt now a c = 1) by (unfold c; rewrite kid_ind_choose; assumption).
  assert (Hnn : forall z, In z ks -> 0 <= kid_ind pt now a z) by (intros z Hz; apply (Hbin z Hz)).
  assert (HM1 : a (VInd m) = 1).
  { pose proof (one_le_sum (kid_ind pt now a) ks c Hnn Hk). lia. }
  assert (Hpc : parse pt now c = PU (AConst s) (AConst (s + d)) [(u, AVar (VInd n))] (AVar (VInd n))).
  { unfold c. apply (choose_pu_inv _ _ _ _ _ _ _ _ Hp). }
  split.
  - (* start row *)
    assert (Hrow : row_holds a (mkrow GE (map (fun r => (konst (pu_start r), pu_ind r)) (filter is_pu (map (parse pt now) ks))
                      ++ [(list_min UINT_MAX (map (fun r => konst (pu_start r)) (filter is_pu (map (parse pt now) ks))), AConst 1);
                          (- list_min UINT_MAX (map (fun r => konst (pu_start r)) (filter is_pu (map (parse pt now) ks))), AVar (VInd m));
                          (-1, AVar (VStart m))]) 0) = true).
    { apply (f_rows _ _ _ _ _ F _ _ Hin). cbn [own_rows]. left; reflexivity. }
    apply mkrow_GE in Hrow. rewrite lin_val_app, (lin_val_weighted pt now a (fun r => konst (pu_start r))) in Hrow.
    cbn [lin_val aval] in Hrow. rewrite HM1 in Hrow.
    rewrite (weighted_single (kid_ind pt now a) (fun k => konst (pu_start (parse pt now k))) ks c Hnn Hk Hkc) in Hrow by lia.
    rewrite Hpc in Hrow. cbn [pu_start konst] in Hrow. lia.
  - (* end row *)
    assert (Hrow : row_holds a (mkrow LE (map (fun r => (konst (pu_end r), pu_ind r)) (filter is_pu (map (parse pt now) ks))
                      ++ [(-1, AVar (VEnd m))]) 0) = true).
    { apply (f_rows _ _ _ _ _ F _ _ Hin). cbn [own_rows]. right; left; reflexivity. }
    apply mkrow_LE in Hrow. rewrite lin_val_app, (lin_val_weighted pt now a (fun r => konst (pu_end r))) in Hrow.
    cbn [lin_val aval] in Hrow.
    rewrite (weighted_single (kid_ind pt now a) (fun k => konst (pu_end (parse pt now k))) ks c Hnn Hk Hkc) in Hrow by lia.
    rewrite Hpc in Hrow. cbn [pu_end konst] in Hrow. lia.
Qed.

(* ------------------------------------------------------------------ LessThan over Choose / Max-of-Choose children *)
(* [inside c z]: c is the Choose z itself or a child of the Max z *)
Definition inside (c z : expr) : Prop :=
  is_choose c = true /\ (z = c \/ exists m ks, z = Max m ks /\ In c ks).

Lemma inside_bounds : forall pt now g e cs a z n ps am s d u,
  compile pt now g e = Ok cs -> sat cs a = true -> wf_times e ->
  In z (subs e) -> inside (Choose n ps am s d u) z ->
  is_pu (parse pt now (Choose n ps am s d u)) = true -> a (VInd n) = 1 ->
  is_pu (parse pt now z) = true /\
  aval a (pu_start (parse pt now z)) <= s /\ s + d <= aval a (pu_end (parse pt now z)).
Proof.
  intros pt now g e cs a z n ps am s d u Hc Hs Hwf Hz [_ [->|[m [ks [-> Hk]]]]] Hp HI.
  - split; [exact Hp|]. destruct (choose_pu_inv _ _ _ _ _ _ _ _ Hp) as [-> _]. cbn [pu_start pu_end aval]. lia.
  - split; [reflexivity|]. cbn [parse pu_start pu_end aval].
    eapply max_bounds; eauto.
Qed.

Theorem lessthan_simple : forall pt now g e cs a n x y,
  compile pt now g e = Ok cs -> sat cs a = true -> wf_times e ->
  In (LessThan n x y) (subs e) -> is_pu (parse pt now (LessThan n x y)) = true ->
  forall n1 ps1 am1 s1 d1 u1 n2 ps2 am2 s2 d2 u2,
    inside (Choose n1 ps1 am1 s1 d1 u1) x -> inside (Choose n2 ps2 am2 s2 d2 u2) y ->
    is_pu (parse pt now (Choose n1 ps1 am1 s1 d1 u1)) = true -> a (VInd n1) = 1 ->
    is_pu (parse pt now (Choose n2 ps2 am2 s2 d2 u2)) = true -> a (VInd n2) = 1 ->
    s1 + d1 <= s2.
Proof.
  intros pt now g e cs a n x y Hc Hs Hwf Hin Hpu n1 ps1 am1 s1 d1 u1 n2 ps2 am2 s2 d2 u2 Hx Hy Hp1 HI1 Hp2 HI2.
  pose proof (sat_facts _ _ _ _ _ _ Hc Hs) as F.
  assert (Hxs : In x (subs e)) by (eapply subs_trans; [exact Hin|]; eapply subs_kid; [left; reflexivity|apply subs_refl]).
  assert (Hys : In y (subs e)) by (eapply subs_trans; [exact Hin|]; eapply subs_kid; [right; left; reflexivity|apply subs_refl]).
  destruct (inside_bounds _ _ _ _ _ _ _ _ _ _ _ _ _ Hc Hs Hwf Hxs Hx Hp1 HI1) as [Hxp [_ Hxe]].
  destruct (inside_bounds _ _ _ _ _ _ _ _ _ _ _ _ _ Hc Hs Hwf Hys Hy Hp2 HI2) as [Hyp [Hys' _]].
  (* end of x <= start of y, from the constant test or from the happens-before row *)
  assert (Hord : aval a (pu_end (parse pt now x)) <= aval a (pu_start (parse pt now y))).
  { destruct (parse pt now x) as [|sx ex ux ix] eqn:Px; [discriminate|].
    destruct (parse pt now y) as [|sy ey uy iy] eqn:Py; [discriminate|].
    cbn [pu_end pu_start].
    assert (Hcase : (exists ka kb, ex = AConst ka /\ sy = AConst kb) \/
                    In (mkrow LE [(1, ex); (-1, sy)] 0) (own_rows pt now (LessThan n x y))).
    { cbn [own_rows]. rewrite Px, Py. destruct ex as [vx|ka]; [right; right; left; reflexivity|].
      destruct sy as [vy|kb]; [right; right; left; reflexivity|]. left. eauto. }
    destruct Hcase as [[ka [kb [-> ->]]]|Hrow].
    - cbn [parse] in Hpu. rewrite Px, Py in Hpu. cbn [aval]. destruct (ka <=? kb) eqn:Hle; [lia|discriminate].
    - pose proof (f_rows _ _ _ _ _ F _ _ Hin Hrow) as Hr. apply mkrow_LE in Hr. cbn [lin_val] in Hr. lia. }
  lia.
Qed.

(* ------------------------------------------------------------------ the monitors decide their statements *)
Definition capacity_at_starts (pt : ptab) (e : expr) (pls : list placement) : Prop :=
  forall p q av, In (p, q, av) pt -> forall tau, In tau (pl_starts pls ++ leaf_starts e) ->
    usage pls p tau + alloc_usage e p tau <= q.

Lemma capacity_okb_iff : forall pt e pls, capacity_okb pt e pls = true <-> capacity_at_starts pt e pls.
Proof.
  intros. unfold capacity_okb, capacity_at_starts. rewrite forallb_forall. split.
  - intros H p q av Hin tau Htau. specialize (H _ Hin). cbn [fst snd] in H. rewrite forallb_forall in H.
    specialize (H tau Htau). lia.
  - intros H [[p q] av] Hin. cbn [fst snd]. rewrite forallb_forall. intros tau Htau.
    specialize (H p q av Hin tau Htau). lia.
Qed.

(* what the capacity theorem proves (all times) implies what the monitor checks (the start times) *)
Lemma capacity_all_times_implies_monitor : forall pt e pls,
  (forall p q av, In (p, q, av) pt -> qty0 pt p = q) ->
  (forall p tau, usage pls p tau + alloc_usage e p tau <= qty0 pt p) -> capacity_okb pt e pls = true.
Proof.
  intros pt e pls Hq H. apply capacity_okb_iff. intros p q av Hin tau _. rewrite <- (Hq p q av Hin). apply H.
Qed.

Lemma memZ_in : forall x l, memZ x l = true <-> In x l.
Proof.
  intros. unfold memZ. rewrite existsb_exists. split.
  - intros [y [Hy He]]. apply Z.eqb_eq in He. subst. exact Hy.
  - intros H. exists x. split; [exact H|apply Z.eqb_refl].
Qed.

Definition max_ok (e : expr) (pls : list placement) : Prop :=
  forall n ks, In (Max n ks) (subs e) -> forall p1 p2, In p1 pls -> In p2 pls ->
    In (pl_name p1) (map node_id ks) -> In (pl_name p2) (map node_id ks) -> pl_name p1 = pl_name p2.

Lemma max_okb_iff : forall e pls, max_okb e pls = true <-> max_ok e pls.
Proof.
  intros. unfold max_okb, max_ok. rewrite forallb_forall. split.
  - intros H n ks Hin p1 p2 H1 H2 M1 M2. specialize (H _ Hin). cbn [max_node_okb] in H.
    rewrite forallb_forall in H.
    assert (F1 : In p1 (filter (fun pl => memZ (pl_name pl) (map node_id ks)) pls)) by (apply filter_In; split; [assumption|apply memZ_in; assumption]).
    assert (F2 : In p2 (filter (fun pl => memZ (pl_name pl) (map node_id ks)) pls)) by (apply filter_In; split; [assumption|apply memZ_in; assumption]).
    specialize (H p1 F1). rewrite forallb_forall in H. specialize (H p2 F2). lia.
  - intros H x Hx. destruct x; try reflexivity. cbn [max_node_okb]. rewrite forallb_forall. intros p1 F1.
    rewrite forallb_forall. intros p2 F2. apply filter_In in F1, F2. destruct F1 as [I1 M1], F2 as [I2 M2].
    apply memZ_in in M1, M2. pose proof (H n kids Hx p1 p2 I1 I2 M1 M2). lia.
Qed.

Definition lt_ok (e : expr) (pls : list placement) : Prop :=
  forall n x y, In (LessThan n x y) (subs e) -> forall p1 p2, In p1 pls -> In p2 pls ->
    In (pl_name p1) (choose_ids x) -> In (pl_name p2) (choose_ids y) -> pl_end p1 <= pl_start p2.

Lemma lt_okb_iff : forall e pls, lt_okb e pls = true <-> lt_ok e pls.
Proof.
  intros. unfold lt_okb, lt_ok. rewrite forallb_forall. split.
  - intros H n x y Hin p1 p2 H1 H2 M1 M2. specialize (H _ Hin). cbn [lt_node_okb] in H.
    rewrite forallb_forall in H.
    assert (F1 : In p1 (filter (fun pl => memZ (pl_name pl) (choose_ids x)) pls)) by (apply filter_In; split; [assumption|apply memZ_in; assumption]).
    assert (F2 : In p2 (filter (fun pl => memZ (pl_name pl) (choose_ids y)) pls)) by (apply filter_In; split; [assumption|apply memZ_in; assumption]).
    specialize (H p1 F1). rewrite forallb_forall in H. specialize (H p2 F2). lia.
  - intros H z Hz. destruct z; try reflexivity. cbn [lt_node_okb]. rewrite forallb_forall. intros p1 F1.
    rewrite forallb_forall. intros p2 F2. apply filter_In in F1, F2. destruct F1 as [I1 M1], F2 as [I2 M2].
    apply memZ_in in M1, M2. pose proof (H n z1 z2 Hz p1 p2 I1 I2 M1 M2). lia.
Qed.

Lemma nodupZ_iff : forall l, nodupZ l = true <-> NoDup l.
Proof.
  induction l as [|x l IH]; cbn [nodupZ]; [split; [constructor|reflexivity]|].
  rewrite andb_true_iff, negb_true_iff, IH. split.
  - intros [Hm Hn]. constructor; [|exact Hn]. intros Hin. apply memZ_in in Hin. congruence.
  - intros Hn. inversion Hn; subst. split; [|assumption].
    destruct (memZ x l) eqn:Hm; [apply memZ_in in Hm; contradiction|reflexivity].
Qed.

Lemma names_nodupb_iff : forall pls, names_nodupb pls = true <-> NoDup (map pl_name pls).
Proof. intros. apply nodupZ_iff. Qed.

(* ------------------------------------------------------------------ the read-back has one placement per name *)
Lemma pl_insert_nodup : forall acc p, NoDup (map pl_name acc) -> NoDup (map pl_name (pl_insert acc p)).
Proof.
  induction acc as [|q acc IH]; intros p Hn; cbn [pl_insert].
  - cbn. constructor; [intros []|constructor].
  - destruct (pl_name q =? pl_name p) eqn:He.
    + cbn [map] in *. apply Z.eqb_eq in He. rewrite <- He. exact Hn.
    + cbn [map] in *. inversion Hn as [|? ? Hq Hrest]; subst. constructor; [|apply IH; exact Hrest].
      intros Hin. apply in_map_iff in Hin. destruct Hin as [x [Hx Hin]]. apply pl_insert_in in Hin.
      destruct Hin as [->|Hin]; [lia|]. apply Hq. rewrite <- Hx. apply in_map. exact Hin.
Qed.

Lemma fold_insert_nodup : forall pls acc, NoDup (map pl_name acc) -> NoDup (map pl_name (fold_left pl_insert pls acc)).
Proof. induction pls as [|p pls IH]; intros acc Hn; cbn [fold_left]; [exact Hn|]. apply IH. apply pl_insert_nodup. exact Hn. Qed.

Lemma merge_nodup : forall sols, NoDup (map pl_name (merge sols)).
Proof.
  intros sols. unfold merge.
  assert (forall acc, NoDup (map pl_name acc) -> NoDup (map pl_name (fold_left merge_child sols acc))) as H.
  { induction sols as [|s sols IH]; intros acc Hn; cbn [fold_left]; [exact Hn|]. apply IH.
    destruct s as [|st en u pls]; cbn [merge_child]; [exact Hn|]. destruct (u =? 0); [exact Hn|].
    apply fold_insert_nodup. exact Hn. }
  apply H. constructor.
Qed.

Theorem populate_names_nodup : forall pt now a e, NoDup (map pl_name (populate pt now a e)).
Proof.
  intros pt now a e. unfold populate.
  destruct (solve_pls_cases pt now a e) as [(n & ps & am & s & d & u & -> & Hp & _ & Heq)|[Heq|[_ Heq]]]; rewrite Heq.
  - cbn. constructor; [intros []|constructor].
  - constructor.
  - apply merge_nodup.
Qed.

(* ------------------------------------------------------------------ Max at the level of placements *)
Lemma unique_by : forall {A} (f : A -> Z) l x y, NoDup (map f l) -> In x l -> In y l -> f x = f y -> x = y.
Proof.
  induction l as [|h t IH]; intros x y Hn Hx Hy Hf; [destruct Hx|]. cbn [map] in Hn. inversion Hn as [|? ? Hh Ht]; subst.
  destruct Hx as [->|Hx], Hy as [->|Hy].
  - reflexivity.
  - exfalso. apply Hh. rewrite Hf. apply in_map. exact Hy.
  - exfalso. apply Hh. rewrite <- Hf. apply in_map. exact Hx.
  - apply IH; assumption.
Qed.

Definition unique_ids (e : expr) : Prop := NoDup (map node_id (subs e)).

Theorem max_placements : forall pt now g e cs a,
  compile pt now g e = Ok cs -> sat cs a = true -> unique_ids e -> max_ok e (populate pt now a e).
Proof.
  intros pt now g e cs a Hc Hs Hu n ks Hin p1 p2 H1 H2 M1 M2.
  pose proof (sat_facts _ _ _ _ _ _ Hc Hs) as F.
  assert (Hkid : forall pl, In pl (populate pt now a e) -> In (pl_name pl) (map node_id ks) ->
            exists c, In c ks /\ node_id c = pl_name pl /\ kid_ind pt now a c = 1).
  { intros pl Hpl Hm. unfold populate in Hpl.
    destruct (pls_origin _ _ _ _ _ Hpl) as (m & ps & am & s & d & u & Hc' & Hp & Hnz & ->).
    destruct (choose_facts _ _ _ _ _ _ _ _ _ _ _ F Hc' Hp) as [Hi _].
    assert (HI : a (VInd m) = 1).
    { assert (a (VInd m) = 0 \/ a (VInd m) = 1) as [H0|H1'] by lia; [|exact H1'].
      rewrite H0, Z.mul_0_r in Hnz. congruence. }
    cbn [own_placement pl_name] in Hm |- *. apply in_map_iff in Hm. destruct Hm as [k [Hk Hkin]].
    assert (Hks : In k (subs e)) by (eapply subs_trans; [exact Hin|]; eapply subs_kid; [exact Hkin|apply subs_refl]).
    assert (k = Choose m ps am s d u) by (apply (unique_by node_id (subs e)); auto).
    subst k. exists (Choose m ps am s d u). split; [exact Hkin|]. split; [reflexivity|].
    rewrite kid_ind_choose; assumption. }
  destruct (Hkid p1 H1 M1) as [c1 [K1 [N1 I1]]]. destruct (Hkid p2 H2 M2) as [c2 [K2 [N2 I2]]].
  destruct (Z.eq_dec (pl_name p1) (pl_name p2)) as [E|NE]; [exact E|exfalso].
  destruct (max_at_most_one _ _ _ _ _ _ _ _ Hc Hs Hin) as [_ [_ [_ Hone]]].
  apply (Hone c1 c2 K1 K2); [|split; assumption]. intros ->. lia.
Qed.

(* the whole structure monitor holds on the model's own read-back: by proof, no false alarm can come
   from the model side of the correspondence *)
Theorem structure_monitor_holds : forall pt now g e cs a,
  compile pt now g e = Ok cs -> sat cs a = true -> unique_ids e ->
  structure_okb pt now e (populate pt now a e) = true.
Proof.
  intros pt now g e cs a Hc Hs Hu. unfold structure_okb. rewrite !andb_true_iff. repeat split.
  - apply placements_exactb_iff. apply (placements_are_exact _ _ _ _ _ _ Hc Hs).
  - apply max_okb_iff. eapply max_placements; eauto.
  - apply names_nodupb_iff. apply populate_names_nodup.
Qed.
