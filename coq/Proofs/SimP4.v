(* counters of the simulator machine *)
From Coq Require Import ZArith Bool List Lia ZifyBool.
Import ListNotations.
From Verif Require Import Model.Val Gen.Src_Task Gen.Src_Event Model.Sim Proofs.TaskP Proofs.SimP Proofs.SimP2.
Open Scope Z_scope.

Definition fin_inc (e : ev) : Z := match e with EFinish _ => 1 | _ => 0 end.
Definition canc_inc (e : ev) : Z := match e with EHandle ty _ _ => if event_type_eqb ty TASK_CANCEL then 1 else 0 | _ => 0 end.
Fixpoint total_finishes (l : list ev) : Z := match l with [] => 0 | e :: r => fin_inc e + total_finishes r end.
Fixpoint total_cancel_events (l : list ev) : Z := match l with [] => 0 | e :: r => canc_inc e + total_cancel_events r end.

Lemma step_counters W s e s' : sim_step W s e = Some s' ->
  s_fin s' = s_fin s + fin_inc e /\ s_canc s' = s_canc s + canc_inc e.
Proof.
  intros H. destruct e; cbn [sim_step fin_inc canc_inc] in *;
    repeat match type of H with
           | (if ?c then _ else _) = Some _ => destruct c eqn:?; try discriminate H
           | match ?c with _ => _ end = Some _ => destruct c eqn:?; try discriminate H
           end; injection H as <-; cbn [s_fin s_canc with_tasks]; try lia.
  all: match goal with |- context [if ?c then _ else _] => destruct c end; lia.
Qed.

Lemma exec_counters W l : forall s s', sim_exec W s l = Some s' ->
  s_fin s' = s_fin s + total_finishes l /\ s_canc s' = s_canc s + total_cancel_events l.
Proof.
  induction l as [|e r IH]; cbn [sim_exec total_finishes total_cancel_events]; intros s s' H.
  - injection H as <-. lia.
  - destruct (sim_step W s e) as [s1|] eqn:E; [|discriminate]. destruct (step_counters W s e s1 E). destruct (IH s1 s' H). lia.
Qed.

Lemma fin_counter_counts W l s : sim_exec W sim_init l = Some s -> s_fin s = total_finishes l.
Proof. intros H. destruct (exec_counters W l sim_init s H). cbn in *. lia. Qed.
Lemma canc_counter_counts W l s : sim_exec W sim_init l = Some s -> s_canc s = total_cancel_events l.
Proof. intros H. destruct (exec_counters W l sim_init s H). cbn in *. lia. Qed.

Lemma finished_iff_done W l s u x :
  cap_nonneg W -> sim_exec W sim_init l = Some s -> s_tasks s u = Some x ->
  (count_finishes l u = 1 <-> done_state (st x)) /\ (count_finishes l u = 0 \/ count_finishes l u = 1).
Proof.
  intros HW H Hx. pose proof (reachable_inv W l s HW H) as I.
  destruct (exec_counts W l sim_init s u (inv_init W HW) H) as [_ B].
  unfold cnt_f in B. cbn [sim_init s_tasks] in B. rewrite Hx in B.
  pose proof (inv_tasks W s I u x Hx) as T. destruct T as [T1 T2 T3 T4 T5 T6]. unfold done_state.
  destruct (st x) eqn:S.
  - destruct (T4 (or_introl eq_refl)). split; [split; [lia|intros [Q|Q]; discriminate Q]|lia].
  - destruct (T4 (or_intror (or_introl eq_refl))). split; [split; [lia|intros [Q|Q]; discriminate Q]|lia].
  - destruct (T4 (or_intror (or_intror (or_introl eq_refl)))). split; [split; [lia|intros [Q|Q]; discriminate Q]|lia].
  - destruct (T5 eq_refl) as [_ [Y _]]. split; [split; [lia|intros [Q|Q]; discriminate Q]|lia].
  - contradiction.
  - destruct (T6 (or_intror eq_refl)) as [_ [Y _]]. split; [split; [auto|lia]|lia].
  - destruct (T6 (or_introl eq_refl)) as [_ [Y _]]. split; [split; [auto|lia]|lia].
  - destruct (T4 (or_intror (or_intror (or_intror eq_refl)))). split; [split; [lia|intros [Q|Q]; discriminate Q]|lia].
Qed.
