(* Lemmas about Model/Worker.v, part 4: the invariant lifted to WorkerPool — every worker of the pool
   satisfies WInv, the pool's task map agrees with its workers, a task is resident on at most one
   worker — over every history of pool operations whose placements / loads are fresh. *)
From Coq Require Import ZArith Bool List Lia ZifyBool Arith.
Import ListNotations.
From Verif Require Import Model.Val Model.Res Model.Worker Proofs.ResP Proofs.ResP2 Proofs.WorkerP Proofs.WorkerP2 Proofs.WorkerP3 Proofs.ResP4.
Open Scope Z_scope.

(* ---------- the dict of workers ---------- *)
Lemma pw_find_id : forall wid ws W, pw_find wid ws = Some W -> w_id W = wid /\ In W ws.
Proof.
  intros wid. induction ws as [|W0 ws IH]; cbn [pw_find]; intros W H; [discriminate|].
  destruct (w_id W0 =? wid) eqn:E; [inversion H; subst; split; [lia|left; reflexivity]|].
  destruct (IH _ H). split; [assumption|right; assumption].
Qed.
Lemma pw_find_set_other : forall wid W ws, wid <> w_id W -> pw_find wid (pw_set W ws) = pw_find wid ws.
Proof.
  intros wid W. induction ws as [|W0 ws IH]; intro Hn; cbn [pw_set pw_find]; [reflexivity|].
  destruct (w_id W0 =? w_id W) eqn:E; cbn [pw_find].
  - destruct (w_id W =? wid) eqn:E1; [lia|]. destruct (w_id W0 =? wid) eqn:E2; [lia|reflexivity].
  - destruct (w_id W0 =? wid); [reflexivity|apply IH; exact Hn].
Qed.
Lemma pw_find_set_same : forall W ws, pw_find (w_id W) ws <> None -> pw_find (w_id W) (pw_set W ws) = Some W.
Proof.
  intros W. induction ws as [|W0 ws IH]; cbn [pw_set pw_find]; intro H; [congruence|].
  destruct (w_id W0 =? w_id W) eqn:E; cbn [pw_find]; [rewrite Z.eqb_refl; reflexivity|]. rewrite E. apply IH. exact H.
Qed.
Lemma pw_set_same : forall W ws, pw_find (w_id W) ws = Some W -> pw_set W ws = ws.
Proof.
  intros W. induction ws as [|W0 ws IH]; cbn [pw_set pw_find]; intro H; [reflexivity|].
  destruct (w_id W0 =? w_id W) eqn:E; [inversion H; reflexivity|]. rewrite IH by exact H. reflexivity.
Qed.
Lemma pw_set_forall : forall (Q : worker -> Prop) W ws, Forall Q ws -> Q W -> Forall Q (pw_set W ws).
Proof.
  intros Q W. induction ws as [|W0 ws IH]; cbn [pw_set]; intros H HQ; [constructor|].
  inversion H as [|x l H1 H2]; subst. destruct (w_id W0 =? w_id W); constructor; auto.
Qed.
Lemma pw_find_forall : forall (Q : worker -> Prop) wid ws W, Forall Q ws -> pw_find wid ws = Some W -> Q W.
Proof. intros Q wid ws W H E. rewrite Forall_forall in H. apply H. apply (pw_find_id _ _ _ E). Qed.

(* what the operations do to identity and placed tasks *)
Lemma w_place_shape : forall t s w w' o, w_place t s w = (w', o) ->
  w_id w' = w_id w /\ (o = Ok tt -> w_placed w' = zset t s (w_placed w)).
Proof.
  intros t s w w' o H. unfold w_place in H. destruct (zmem t (w_placed w)); [inversion H; subst; split; auto; discriminate|].
  destruct (s_is_batch s).
  - destruct (zfind (s_id s) (w_batches w)).
    + destruct (_ <? _); inversion H; subst; cbn; split; auto; discriminate.
    + destruct (s_bsize s <? 1); [inversion H; subst; split; auto; discriminate|].
      destruct (r_allocate_multiple _ _ _) as [R [u|e]]; inversion H; subst; cbn; split; auto; discriminate.
  - destruct (r_allocate_multiple _ _ _) as [R [u|e]]; inversion H; subst; cbn; split; auto; discriminate.
Qed.
Lemma w_remove_shape : forall t w w' o, w_remove t w = (w', o) ->
  w_id w' = w_id w /\ (o = Ok tt -> w_placed w' = zremove t (w_placed w)).
Proof.
  intros t w w' o H. unfold w_remove in H. destruct (zfind t (w_placed w)) as [s|]; [|inversion H; subst; split; auto; discriminate].
  destruct (s_is_batch s).
  - destruct (zfind (s_id s) (w_batches w)) as [mem|]; [|inversion H; subst; split; auto; discriminate].
    destruct (negb (set_mem t mem)); [inversion H; subst; split; auto; discriminate|].
    destruct (set_remove t mem).
    + destruct (zfind (s_id s) (w_btask w)); [|inversion H; subst; cbn; split; auto; discriminate].
      destruct (r_deallocate _ _) as [R [u|e]]; inversion H; subst; cbn; split; auto; discriminate.
    + inversion H; subst; cbn; split; auto.
  - destruct (r_deallocate _ _) as [R [u|e]]; inversion H; subst; cbn; split; auto; discriminate.
Qed.
Lemma w_load_shape : forall p s w w' o, w_load p s w = (w', o) -> w_id w' = w_id w /\ w_placed w' = w_placed w.
Proof.
  intros p s w w' o H. unfold w_load in H.
  destruct (r_allocate_multiple _ _ _) as [R [u|e]]; inversion H; subst; cbn; auto.
Qed.
Lemma w_evict_shape : forall p w w' o, w_evict p w = (w', o) -> w_id w' = w_id w /\ w_placed w' = w_placed w.
Proof.
  intros p w w' o H. unfold w_evict in H. destruct (_ && _); [inversion H; subst; auto|].
  destruct (r_deallocate _ _) as [R [u|e]]; [|inversion H; subst; cbn; auto].
  destruct (zmem p (w_avail_prof w)); inversion H; subst; cbn; auto.
Qed.
Lemma w_step_shape : forall dt w, w_id (w_step dt w) = w_id w /\ w_placed (w_step dt w) = w_placed w.
Proof. intros dt w. unfold w_step. destruct (step_pend _ _ _). cbn. auto. Qed.

Definition holds (ws : list worker) (wid t : Z) : Prop :=
  exists W, pw_find wid ws = Some W /\ zfind t (w_placed W) <> None.
Lemma holds_pw_set : forall W W' ws wid t, w_id W' = w_id W -> pw_find (w_id W) ws = Some W ->
  (holds (pw_set W' ws) wid t <-> (if wid =? w_id W then zfind t (w_placed W') <> None else holds ws wid t)).
Proof.
  intros W W' ws wid t Hid Hf. unfold holds. destruct (wid =? w_id W) eqn:E.
  - assert (wid = w_id W') by lia. subst wid. rewrite pw_find_set_same by (rewrite Hid, Hf; discriminate).
    split; [intros (W0 & X & Y); inversion X; subst; exact Y|intro Y; eauto].
  - rewrite pw_find_set_other by lia. tauto.
Qed.

Section Pool.
  Variable tbl : Z -> strategy.

  (* one strategy object per batch identifier (the only hypothesis on strategies that is left) *)
  Definition strat_wf (s : strategy) : Prop := s_is_batch s = true -> s = tbl (s_id s).

  Record PInv (P : pool) : Prop := {
    pi_ids : NoDup (map w_id (p_workers P));
    pi_workers : Forall (WInv tbl) (p_workers P);
    pi_nd : NoDup (map fst (p_placed P));
    pi_map : forall t wid, zfind t (p_placed P) = Some wid <-> holds (p_workers P) wid t }.

  Definition pop_ok (P : pool) (o : pop) : Prop :=
    match o with
    | PPlace t strats es wid => Forall strat_wf strats /\ (forall s, es = Some s -> strat_wf s)
    | PLoad p s wid =>      (* finding FG is not repaired: the profile must not be loaded there already *)
        forall W, In W (p_workers P) -> In (w_id W) (p_ids wid P) ->
                  zfind p (w_avail_prof W) = None /\ zfind p (w_pend_prof W) = None
    | _ => True
    end.

  Lemma p_choose_src : forall strats es wid P w s,
    p_choose strats es wid P = Ok (Some (w, Some s)) -> es = Some s \/ In s strats.
  Proof.
    intros strats es wid P w s H. unfold p_choose in H. destruct wid as [w0|].
    - destruct (pw_find w0 (p_workers P)) as [W|]; [|discriminate]. destruct es as [s0|].
      + destruct (negb (w_fits s0 W)); inversion H; subst. left. reflexivity.
      + inversion H as [[H1 H2]]. right. eapply first_fit_in; eauto.
    - destruct es as [s0|].
      + destruct (find _ _); inversion H; subst. left. reflexivity.
      + destruct (first_worker_strategy (p_workers P) strats) as [[w1 s1]|] eqn:E; inversion H; subst.
        right. eapply first_worker_strategy_in; eauto.
  Qed.

  Lemma not_held_fresh : forall P t wid W, PInv P -> zfind t (p_placed P) = None ->
    pw_find wid (p_workers P) = Some W -> zfind t (w_placed W) = None.
  Proof.
    intros P t wid W HI Hf E. destruct (zfind t (w_placed W)) eqn:X; [|reflexivity]. exfalso.
    assert (Y : holds (p_workers P) wid t) by (exists W; split; [exact E|congruence]).
    apply (pi_map _ HI) in Y. congruence.
  Qed.

  (* place: the invariant is kept, and a refused or declined request changes nothing *)
  Lemma pinv_place : forall t strats es wid P, PInv P -> pop_ok P (PPlace t strats es wid) ->
    PInv (fst (p_place t strats es wid P)) /\
    (snd (p_place t strats es wid P) <> Ok true -> fst (p_place t strats es wid P) = P).
  Proof.
    intros t strats es wid P HI (Hs & He). unfold p_place.
    destruct (zmem t (p_placed P)) eqn:Ezm; [cbn [fst snd]; split; [exact HI|reflexivity]|].
    assert (Hfr : zfind t (p_placed P) = None) by (apply zmem_false_find; exact Ezm).
    destruct (p_choose strats es wid P) as [[[w [s|]]|]|e] eqn:Ec; cbn [fst snd]; try (split; [exact HI|reflexivity]).
    destruct (pw_find w (p_workers P)) as [W|] eqn:Ef; [|split; [exact HI|reflexivity]].
    assert (Hwf : strat_wf s).
    { destruct (p_choose_src _ _ _ _ _ _ Ec) as [X|X]; [apply He; exact X|rewrite Forall_forall in Hs; apply Hs; exact X]. }
    pose proof Hwf as Htbl.
    pose proof (pw_find_forall _ _ _ _ (pi_workers _ HI) Ef) as HW.
    pose proof (not_held_fresh _ _ _ _ HI Hfr Ef) as HfW.
    destruct (pw_find_id _ _ _ Ef) as [Hid _].
    destruct (w_place t s W) as [W' r] eqn:Ep.
    destruct (winv_place tbl t s W W' r HW Htbl Ep) as [HW' Href].
    destruct (w_place_shape _ _ _ _ _ Ep) as [Hid' Hpl].
    destruct r as [[]|e]; cbn [fst snd].
    - split; [|intro X; congruence].
      constructor; cbn [p_workers p_placed].
      + rewrite pw_set_ids. apply (pi_ids _ HI).
      + apply pw_set_forall; [apply (pi_workers _ HI)|exact HW'].
      + apply nodup_zset. apply (pi_nd _ HI).
      + intros t0 wid0. rewrite <- Hid in Ef. rewrite (holds_pw_set W W' _ wid0 t0 Hid' Ef). rewrite (Hpl eq_refl).
        destruct (Z.eq_dec t t0) as [<-|Hnt].
        * rewrite zfind_zset_same. destruct (wid0 =? w_id W) eqn:E.
          -- rewrite zfind_zset_same. split; [discriminate|intros _; f_equal; lia].
          -- split; [intro X; inversion X; lia|]. intro X. apply (pi_map _ HI) in X. congruence.
        * rewrite zfind_zset_other by exact Hnt. rewrite (pi_map _ HI). destruct (wid0 =? w_id W) eqn:E.
          -- rewrite zfind_zset_other by exact Hnt. assert (wid0 = w_id W) by lia. subst wid0.
             unfold holds. rewrite Ef. split; [intros (W0 & X & Y); inversion X; subst; exact Y|eauto].
          -- tauto.
    - rewrite (Href e eq_refl). rewrite <- Hid in Ef. rewrite (pw_set_same _ _ Ef).
      split; [destruct P; exact HI|intros _; destruct P; reflexivity].
  Qed.

  Lemma pinv_remove : forall t P, PInv P -> PInv (fst (p_remove t P)) /\
    (forall e, snd (p_remove t P) = Err e -> fst (p_remove t P) = P).
  Proof.
    intros t P HI. unfold p_remove. destruct (zfind t (p_placed P)) as [w|] eqn:Et; cbn [fst snd]; [|split; [exact HI|reflexivity]].
    destruct (pw_find w (p_workers P)) as [W|] eqn:Ef; [|split; [exact HI|reflexivity]].
    pose proof (pw_find_forall _ _ _ _ (pi_workers _ HI) Ef) as HW.
    destruct (pw_find_id _ _ _ Ef) as [Hid _].
    destruct (w_remove t W) as [W' r] eqn:Ep.
    destruct (winv_remove tbl t W W' r HW Ep) as [HW' Href].
    destruct (w_remove_shape _ _ _ _ Ep) as [Hid' Hpl].
    destruct r as [[]|e]; cbn [fst snd].
    - split; [|intros e X; discriminate].
      constructor; cbn [p_workers p_placed].
      + rewrite pw_set_ids. apply (pi_ids _ HI).
      + apply pw_set_forall; [apply (pi_workers _ HI)|exact HW'].
      + apply nodup_zremove. apply (pi_nd _ HI).
      + intros t0 wid0. rewrite <- Hid in Ef. rewrite (holds_pw_set W W' _ wid0 t0 Hid' Ef). rewrite (Hpl eq_refl).
        destruct (Z.eq_dec t t0) as [<-|Hnt].
        * rewrite zfind_zremove_same by (apply (pi_nd _ HI)). destruct (wid0 =? w_id W) eqn:E.
          -- rewrite zfind_zremove_same by (apply (wi_nd_placed _ _ HW)). split; [discriminate|congruence].
          -- split; [discriminate|]. intro X. apply (pi_map _ HI) in X. rewrite Et in X. inversion X. lia.
        * rewrite zfind_zremove_other by exact Hnt. rewrite (pi_map _ HI). destruct (wid0 =? w_id W) eqn:E.
          -- rewrite zfind_zremove_other by exact Hnt. assert (wid0 = w_id W) by lia. subst wid0.
             unfold holds. rewrite Ef. split; [intros (W0 & X & Y); inversion X; subst; exact Y|eauto].
          -- tauto.
    - rewrite (Href e eq_refl). rewrite <- Hid in Ef. rewrite (pw_set_same _ _ Ef).
      split; [destruct P; exact HI|intros; destruct P; reflexivity].
  Qed.

  (* operations that touch workers one by one without changing who is placed where *)
  Lemma pinv_each : forall (f : worker -> worker * result unit) (okW : worker -> Prop),
    (forall W W' o, WInv tbl W -> okW W -> f W = (W', o) -> WInv tbl W' /\ w_id W' = w_id W /\ w_placed W' = w_placed W) ->
    forall ids ws ws' o, NoDup ids -> Forall (WInv tbl) ws ->
      (forall i W, In i ids -> pw_find i ws = Some W -> okW W) ->
      p_each f ids ws = (ws', o) ->
      Forall (WInv tbl) ws' /\ map w_id ws' = map w_id ws /\ (forall wid t, holds ws' wid t <-> holds ws wid t).
  Proof.
    intros f okW Hf. induction ids as [|i ids IH]; intros ws ws' o Hnd HW Hok H; cbn [p_each] in H.
    - inversion H; subst. repeat split; auto; tauto.
    - inversion Hnd as [|x l N1 N2]; subst.
      destruct (pw_find i ws) as [W|] eqn:Ef; [|inversion H; subst; repeat split; auto; tauto].
      destruct (pw_find_id _ _ _ Ef) as [Hid _].
      destruct (f W) as [W' r] eqn:EW.
      destruct (Hf W W' r (pw_find_forall _ _ _ _ HW Ef) (Hok i W (or_introl eq_refl) Ef) EW) as (HW' & Hid' & Hpl).
      assert (Hh : forall wid t, holds (pw_set W' ws) wid t <-> holds ws wid t).
      { intros wid t. rewrite <- Hid in Ef. rewrite (holds_pw_set W W' ws wid t Hid' Ef). destruct (wid =? w_id W) eqn:E; [|tauto].
        assert (wid = w_id W) by lia. subst wid. rewrite Hpl. unfold holds. rewrite Ef.
        split; [eauto|intros (W0 & X & Y); inversion X; subst; exact Y]. }
      destruct r as [[]|e].
      + destruct (IH (pw_set W' ws) ws' o N2 (pw_set_forall _ _ _ HW HW')) as (A & B & C); [|exact H|].
        * intros j Wj Hj Ej. rewrite pw_find_set_other in Ej by (rewrite Hid', Hid; intro; subst; contradiction).
          apply (Hok j Wj (or_intror Hj) Ej).
        * split; [exact A|]. split; [rewrite B; apply pw_set_ids|]. intros wid t. rewrite C. apply Hh.
      + inversion H; subst. split; [apply pw_set_forall; assumption|]. split; [apply pw_set_ids|exact Hh].
  Qed.

  Lemma nodup_p_ids : forall wid P, NoDup (map w_id (p_workers P)) -> NoDup (p_ids wid P).
  Proof. intros [w|] P H; cbn [p_ids]; [constructor; [intros []|constructor]|exact H]. Qed.

  Lemma pinv_load : forall p s wid P, PInv P -> pop_ok P (PLoad p s wid) -> PInv (fst (p_load p s wid P)).
  Proof.
    intros p s wid P HI Hfresh. unfold p_load. cbn [pop_ok] in Hfresh.
    destruct (p_precheck s (p_ids wid P) (p_workers P)); [|exact HI].
    destruct (p_each (w_load p s) (p_ids wid P) (p_workers P)) as [ws r] eqn:E. cbn [fst].
    set (okW := fun W => zfind p (w_avail_prof W) = None /\ zfind p (w_pend_prof W) = None).
    assert (Hf : forall W W' o, WInv tbl W -> okW W -> w_load p s W = (W', o) ->
                 WInv tbl W' /\ w_id W' = w_id W /\ w_placed W' = w_placed W).
    { intros W W' o HW [F1 F2] EW. destruct (winv_load tbl p s W W' o HW (conj F1 F2) EW) as [X _].
      destruct (w_load_shape _ _ _ _ _ EW). auto. }
    assert (Hok : forall i W, In i (p_ids wid P) -> pw_find i (p_workers P) = Some W -> okW W).
    { intros i W Hi Ef. destruct (pw_find_id _ _ _ Ef) as [Hid Hin]. apply Hfresh; [exact Hin|rewrite Hid; exact Hi]. }
    destruct (pinv_each _ okW Hf _ _ _ _ (nodup_p_ids wid P (pi_ids _ HI)) (pi_workers _ HI) Hok E) as (A & B & C).
    constructor; cbn [p_workers p_placed]; [rewrite B; apply (pi_ids _ HI)|exact A|apply (pi_nd _ HI)|].
    intros t w. rewrite C. apply (pi_map _ HI).
  Qed.

  (* ---- a refused pool-wide load changes nothing (/repo 0f42ab1) ---- *)
  Lemma precheck_ok : forall s ids ws, p_precheck s ids ws = Ok tt ->
    forall i, In i ids -> exists W, pw_find i ws = Some W /\ w_fits s W = true.
  Proof.
    intros s. induction ids as [|i0 ids IH]; intros ws H i Hi; [destruct Hi|]. cbn [p_precheck] in H.
    destruct (pw_find i0 ws) as [W|] eqn:Ef; [|discriminate]. destruct (w_fits s W) eqn:Efit; [|discriminate].
    destruct Hi as [<-|Hi]; [eauto|]. apply IH; assumption.
  Qed.
  Lemma w_load_fits_ok : forall p s W, WInv tbl W -> s_is_batch s = false -> nonneg_vec (s_req s) -> w_fits s W = true ->
    snd (w_load p s W) = Ok tt.
  Proof.
    intros p s W HW Hb Hq Hfit. unfold w_fits in Hfit. rewrite Hb in Hfit. cbn [andb] in Hfit. rewrite orb_false_r in Hfit.
    unfold w_load. destruct (proj1 (gt_iff_success (w_res W) (s_req s) (CProf p) (wi_nn _ _ HW) Hq) Hfit) as (R' & ->). reflexivity.
  Qed.
  Lemma p_each_load_all_ok : forall p s, s_is_batch s = false -> nonneg_vec (s_req s) ->
    forall ids ws, NoDup ids -> Forall (WInv tbl) ws ->
      (forall i, In i ids -> exists W, pw_find i ws = Some W /\ w_fits s W = true /\
                                       zfind p (w_avail_prof W) = None /\ zfind p (w_pend_prof W) = None) ->
      snd (p_each (w_load p s) ids ws) = Ok tt.
  Proof.
    intros p s Hb Hq. induction ids as [|i ids IH]; intros ws Hnd HW Hok; cbn [p_each]; [reflexivity|].
    inversion Hnd as [|x l N1 N2]; subst.
    destruct (Hok i (or_introl eq_refl)) as (W & Ef & Hfit & F1 & F2). rewrite Ef.
    pose proof (w_load_fits_ok p s W (pw_find_forall _ _ _ _ HW Ef) Hb Hq Hfit) as Hs.
    destruct (w_load p s W) as [W' r] eqn:EW. cbn [snd] in Hs. subst r.
    destruct (winv_load tbl p s W W' (Ok tt) (pw_find_forall _ _ _ _ HW Ef) (conj F1 F2) EW) as [HW' _].
    destruct (w_load_shape _ _ _ _ _ EW) as [Hid' _]. destruct (pw_find_id _ _ _ Ef) as [Hid _].
    apply IH; [exact N2|apply pw_set_forall; assumption|].
    intros j Hj. destruct (Hok j (or_intror Hj)) as (Wj & Ej & X). exists Wj. split; [|exact X].
    rewrite pw_find_set_other; [exact Ej|]. rewrite Hid', Hid. intro; subst; contradiction.
  Qed.
  Theorem pool_load_refusal : forall p s wid P e, PInv P -> pop_ok P (PLoad p s wid) -> s_is_batch s = false ->
    snd (p_load p s wid P) = Err e -> fst (p_load p s wid P) = P.
  Proof.
    intros p s wid P e HI Hfresh Hb. unfold p_load. cbn [pop_ok] in Hfresh.
    destruct (p_precheck s (p_ids wid P) (p_workers P)) as [[]|e0] eqn:Epre; [|reflexivity].
    pose proof (precheck_ok _ _ _ Epre) as Hfits.
    assert (Hnd0 : NoDup (p_ids wid P)) by (apply nodup_p_ids; apply (pi_ids _ HI)).
    remember (p_ids wid P) as ids0 eqn:Eids in *. destruct ids0 as [|i ids]; [cbn [p_each fst snd]; discriminate|].
    (* the first worker decides: if it is refused nothing has changed yet, if it is served the request
       has no negative quantity and every other worker, which passed the pre-check, is served too *)
    pose proof Hnd0 as Hnd.
    assert (Hall : forall j, In j (i :: ids) -> exists W, pw_find j (p_workers P) = Some W /\ w_fits s W = true /\
                     zfind p (w_avail_prof W) = None /\ zfind p (w_pend_prof W) = None).
    { intros j Hj. destruct (Hfits j Hj) as (W & Ef & Hf). exists W. split; [exact Ef|]. split; [exact Hf|].
      destruct (pw_find_id _ _ _ Ef) as [Hid Hin]. apply Hfresh; [exact Hin|rewrite Hid; exact Hj]. }
    destruct (Hall i (or_introl eq_refl)) as (W & Ef & Hfit & F1 & F2).
    destruct (w_load p s W) as [W' r] eqn:EW.
    destruct (winv_load tbl p s W W' r (pw_find_forall _ _ _ _ (pi_workers _ HI) Ef) (conj F1 F2) EW) as [HW' Href].
    destruct r as [[]|e1].
    - (* served: the request is non-negative, so everything is served *)
      assert (Hq : nonneg_vec (s_req s)).
      { unfold w_load in EW. destruct (r_allocate_multiple (w_res W) (s_req s) (CProf p)) as [R [[]|e2]] eqn:Ea; [|discriminate].
        eapply allocate_multiple_ok_nonneg; eauto. }
      pose proof (p_each_load_all_ok p s Hb Hq (i :: ids) (p_workers P) Hnd (pi_workers _ HI) Hall) as Hok.
      destruct (p_each (w_load p s) (i :: ids) (p_workers P)) as [ws r]. cbn [snd fst] in *. subst r. discriminate.
    - cbn [p_each]. rewrite Ef, EW. cbn [fst snd]. intros _. rewrite (Href e1 eq_refl).
      destruct (pw_find_id _ _ _ Ef) as [Hid _]. rewrite <- Hid in Ef. rewrite (pw_set_same _ _ Ef). destruct P; reflexivity.
  Qed.

  Lemma pinv_evict : forall p wid P, PInv P -> PInv (fst (p_evict p wid P)).
  Proof.
    intros p wid P HI. unfold p_evict.
    destruct (p_each (w_evict p) (p_ids wid P) (p_workers P)) as [ws r] eqn:E. cbn [fst].
    assert (Hf : forall W W' o, WInv tbl W -> True -> w_evict p W = (W', o) ->
                 WInv tbl W' /\ w_id W' = w_id W /\ w_placed W' = w_placed W).
    { intros W W' o HW _ EW. destruct (winv_evict tbl p W W' o HW EW) as [X _].
      destruct (w_evict_shape _ _ _ _ EW). auto. }
    destruct (pinv_each _ (fun _ => True) Hf _ _ _ _ (nodup_p_ids wid P (pi_ids _ HI)) (pi_workers _ HI)
                        (fun _ _ _ _ => Logic.I) E) as (A & B & C).
    constructor; cbn [p_workers p_placed]; [rewrite B; apply (pi_ids _ HI)|exact A|apply (pi_nd _ HI)|].
    intros t w. rewrite C. apply (pi_map _ HI).
  Qed.

  Lemma pw_find_map : forall (f : worker -> worker) wid ws, (forall W, w_id (f W) = w_id W) ->
    pw_find wid (map f ws) = option_map f (pw_find wid ws).
  Proof.
    intros f wid ws Hf. induction ws as [|W ws IH]; cbn [map pw_find option_map]; [reflexivity|].
    rewrite Hf. destruct (w_id W =? wid); [reflexivity|exact IH].
  Qed.
  Lemma pinv_step : forall dt P, PInv P -> PInv (p_step dt P).
  Proof.
    intros dt P HI. constructor; cbn [p_step p_workers p_placed].
    - rewrite map_map. erewrite map_ext; [apply (pi_ids _ HI)|]. intro W. apply (w_step_shape dt W).
    - pose proof (pi_workers _ HI) as H. rewrite Forall_forall in *. intros W' Hin. apply in_map_iff in Hin.
      destruct Hin as (W & <- & Hin). apply winv_step. auto.
    - apply (pi_nd _ HI).
    - intros t wid. rewrite (pi_map _ HI). unfold holds.
      rewrite (pw_find_map (w_step dt) wid _ (fun W => proj1 (w_step_shape dt W))).
      destruct (pw_find wid (p_workers P)) as [W|]; cbn [option_map].
      + split.
        * intros (W0 & X & Y). inversion X; subst W0. exists (w_step dt W). split; [reflexivity|].
          rewrite (proj2 (w_step_shape dt W)). exact Y.
        * intros (W0 & X & Y). inversion X; subst W0. exists W. split; [reflexivity|].
          rewrite (proj2 (w_step_shape dt W)) in Y. exact Y.
      + split; intros (W0 & X & _); discriminate.
  Qed.

  Theorem pinv_opstep : forall P o, PInv P -> pop_ok P o -> PInv (fst (p_opstep P o)).
  Proof.
    intros P [t strats es wid|t|p s wid|p wid|dt] HI Ho; cbn [p_opstep].
    - apply pinv_place; assumption.
    - pose proof (pinv_remove t P HI) as [X _]. destruct (p_remove t P). exact X.
    - pose proof (pinv_load p s wid P HI Ho) as X. destruct (p_load p s wid P). exact X.
    - pose proof (pinv_evict p wid P HI) as X. destruct (p_evict p wid P). exact X.
    - cbn [fst]. apply pinv_step. exact HI.
  Qed.

  Inductive p_reach (P0 : pool) : pool -> Prop :=
  | preach0 : p_reach P0 P0
  | preachS : forall P o, p_reach P0 P -> pop_ok P o -> p_reach P0 (fst (p_opstep P o)).
  Theorem pinv_reach : forall P0 P, PInv P0 -> p_reach P0 P -> PInv P.
  Proof. intros P0 P H0 Hr. induction Hr as [|P o Hr IH Ho]; [exact H0|]. apply pinv_opstep; assumption. Qed.

  Lemma pinv_new : forall id ws, NoDup (map w_id ws) -> Forall (WInv tbl) ws ->
    Forall (fun W => w_placed W = []) ws -> PInv (p_new id ws).
  Proof.
    intros id ws Hn HW He. constructor; cbn; auto; [constructor|].
    intros t wid. split; [discriminate|]. intros (W & X & Y). exfalso. apply Y.
    rewrite Forall_forall in He. rewrite (He W (proj2 (pw_find_id _ _ _ X))). reflexivity.
  Qed.

  (* C01 (pool half): on every reachable pool state no worker is oversubscribed and a task draws
     resources from at most one worker *)
  Theorem pool_no_oversubscription : forall P, PInv P ->
    (forall W n, In W (p_workers P) -> demand_name W n <= cap_name W n) /\
    (forall t w1 w2, holds (p_workers P) w1 t -> holds (p_workers P) w2 t -> w1 = w2).
  Proof.
    intros P HI. split.
    - intros W n Hin. apply (demand_le_capacity tbl). pose proof (pi_workers _ HI) as H. rewrite Forall_forall in H. auto.
    - intros t w1 w2 H1 H2. apply (pi_map _ HI) in H1. apply (pi_map _ HI) in H2. congruence.
  Qed.
End Pool.
