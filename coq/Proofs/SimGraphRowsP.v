(* The graph-level rows and graph counters the machine emits (Model/SimGraphRows.v) are true of the run. *)
From Coq Require Import ZArith Bool List Lia ZifyBool.
Import ListNotations.
From Verif Require Import Model.Val Gen.Src_Task Gen.Src_Event Model.Sim Model.SimGraphRows
  Proofs.TaskP Proofs.SimP Proofs.SimP2.
Open Scope Z_scope.

Lemma graph_of_spec G t g : graph_of G t = Some g -> In g G /\ In t (g_members g).
Proof.
  unfold graph_of. intros H. apply find_some in H. destruct H as [Hin Hm]. split; [exact Hin|].
  unfold memz in Hm. apply existsb_exists in Hm. destruct Hm as [x [Hx E]]. assert (t = x) as -> by lia. exact Hx.
Qed.

Lemma complete_spec s u : complete s u = true <-> exists x, s_tasks s u = Some x /\ done_state (st x).
Proof.
  unfold complete, st. destruct (s_tasks s u) as [x|].
  - rewrite is_complete_done. split; [intros H; exists x; auto|intros [y [E D]]; injection E as <-; exact D].
  - split; [discriminate|intros [y [E _]]; discriminate E].
Qed.

(* what each graph-level row claims *)
Definition grow_true (G : list ginfo) (s s' : sim) (r : grow) : Prop :=
  match r with
  | RGFinished time g deadline tardiness =>
      time = s_clock s /\ tardiness = Z.max 0 (time - deadline) /\
      exists gi, In gi G /\ g_id gi = g /\ g_deadline gi = deadline /\
                 forall u, In u (g_sinks gi) -> exists x, s_tasks s' u = Some x /\ done_state (st x)
  | RGMissed time g deadline =>
      time = s_clock s /\ deadline < time /\ exists gi, In gi G /\ g_id gi = g /\ g_deadline gi = deadline
  | RGEnd time gfin gcanc gmiss => time = s_clock s /\ gcanc = count_cancelled s G
  end.

Theorem grows_ev_true W G gf gm s s' e :
  sim_step W s e = Some s' -> forall r, In r (grows_ev G gf gm s s' e) -> grow_true G s s' r.
Proof.
  intros H r Hr. destruct e; cbn [grows_ev] in Hr; try contradiction.
  - destruct (event_type_eqb ty SIMULATOR_END); [|contradiction]. destruct Hr as [<-|[]]. cbn [grow_true].
    split; [exact (events_handled_at_their_time W s ty time t s' H)|reflexivity].
  - destruct (graph_of G t) as [g|] eqn:Hg; [|contradiction]. destruct (graph_of_spec G t g Hg) as [Hin _].
    apply in_app_or in Hr. destruct Hr as [Hr|Hr].
    + destruct (g_complete s' g) eqn:C; [|contradiction]. destruct Hr as [<-|[]]. cbn [grow_true].
      split; [reflexivity|]. split; [destruct (g_deadline g <? s_clock s) eqn:L; lia|].
      exists g. repeat split; auto. intros u Hu. unfold g_complete in C. rewrite forallb_forall in C.
      apply complete_spec. apply C. exact Hu.
    + destruct (g_deadline g <? s_clock s) eqn:L; [|contradiction]. destruct Hr as [<-|[]]. cbn [grow_true].
      split; [reflexivity|]. split; [lia|]. exists g. auto.
Qed.

(* at the completion of a member of graph g: TASK_GRAPH_FINISHED exactly when every sink of g is complete,
   MISSED_TASK_GRAPH_DEADLINE exactly when the completion is later than the graph's deadline *)
Theorem graph_rows_iff W G gf gm s s' t g :
  sim_step W s (EFinish t) = Some s' -> graph_of G t = Some g ->
  (g_complete s' g = true <-> count_grows is_gfin (grows_ev G gf gm s s' (EFinish t)) = 1) /\
  (g_complete s' g = false <-> count_grows is_gfin (grows_ev G gf gm s s' (EFinish t)) = 0) /\
  (g_deadline g < s_clock s <-> In (RGMissed (s_clock s) (g_id g) (g_deadline g)) (grows_ev G gf gm s s' (EFinish t))) /\
  count_grows is_glate (grows_ev G gf gm s s' (EFinish t)) =
    (if g_complete s' g && (g_deadline g <? s_clock s) then 1 else 0).
Proof.
  intros H Hg. cbn [grows_ev]. rewrite Hg.
  destruct (g_complete s' g) eqn:C; destruct (g_deadline g <? s_clock s) eqn:L;
    cbn [app count_grows is_gfin is_glate In andb]; rewrite ?L; repeat split; intros; try lia; try discriminate; auto.
  all: try (match goal with X : _ \/ _ |- _ => destruct X as [Q|X]; [discriminate Q|] end).
  all: try (match goal with X : _ \/ _ |- _ => destruct X as [Q|X]; [injection Q; intros; lia|] end).
  all: try contradiction.
  all: try (right; left; reflexivity).
  all: try (left; reflexivity).
Qed.

(* the graph counters of the summary count the rows written before it *)
Fixpoint gend_ok (gf gm : Z) (rr : list grow) : Prop :=
  match rr with
  | [] => True
  | r :: rest =>
      match r with RGEnd _ f _ m => f = gf /\ m = gm | _ => True end /\
      gend_ok (gf + is_gfin r) (gm + is_glate r) rest
  end.

Lemma count_grows_app f a b : count_grows f (a ++ b) = count_grows f a + count_grows f b.
Proof. induction a as [|r a IH]; cbn [count_grows app]; lia. Qed.

Lemma gend_ok_app a : forall gf gm b,
  gend_ok gf gm a -> gend_ok (gf + count_grows is_gfin a) (gm + count_grows is_glate a) b -> gend_ok gf gm (a ++ b).
Proof.
  induction a as [|r a IH]; cbn [app gend_ok count_grows]; intros gf gm b Ha Hb.
  - replace (gf + 0) with gf in Hb by lia. replace (gm + 0) with gm in Hb by lia. exact Hb.
  - destruct Ha as [A B]. split; [exact A|]. apply IH; [exact B|].
    replace (gf + is_gfin r + count_grows is_gfin a) with (gf + (is_gfin r + count_grows is_gfin a)) by lia.
    replace (gm + is_glate r + count_grows is_glate a) with (gm + (is_glate r + count_grows is_glate a)) by lia. exact Hb.
Qed.

Lemma grows_ev_gend_ok G gf gm s s' e : gend_ok gf gm (grows_ev G gf gm s s' e).
Proof.
  destruct e; cbn [grows_ev gend_ok]; auto.
  - destruct (event_type_eqb ty SIMULATOR_END); cbn [gend_ok]; auto.
  - destruct (graph_of G t) as [g|]; cbn [gend_ok]; auto.
    destruct (g_complete s' g); destruct (g_deadline g <? s_clock s); cbn [app gend_ok]; auto.
Qed.

Theorem grows_run_gend_ok W G l : forall s gf gm rr, grows_run W G s gf gm l = Some rr -> gend_ok gf gm rr.
Proof.
  induction l as [|e rest IH]; cbn [grows_run]; intros s gf gm rr H.
  - injection H as <-. exact Logic.I.
  - destruct (sim_step W s e) as [s1|]; [|discriminate].
    destruct (grows_run W G s1 (gf + count_grows is_gfin (grows_ev G gf gm s s1 e))
                        (gm + count_grows is_glate (grows_ev G gf gm s s1 e)) rest) as [rr1|] eqn:R; [|discriminate].
    injection H as <-. apply gend_ok_app; [apply grows_ev_gend_ok|]. exact (IH _ _ _ _ R).
Qed.

Theorem grows_of_gend_ok W G l rr : grows_of W G l = Some rr -> gend_ok 0 0 rr.
Proof. intros H. exact (grows_run_gend_ok W G l sim_init 0 0 rr H). Qed.

(* every graph-level row of every accepted trace was written at some call of the run and is true there *)
Theorem grows_run_true W G l : forall s gf gm rr,
  grows_run W G s gf gm l = Some rr ->
  forall r, In r rr -> exists l1 e l2 s1 s2 a b, l = l1 ++ e :: l2 /\ sim_exec W s l1 = Some s1 /\ sim_step W s1 e = Some s2 /\
                                         In r (grows_ev G a b s1 s2 e) /\ grow_true G s1 s2 r.
Proof.
  induction l as [|e rest IH]; cbn [grows_run]; intros s gf gm rr H r Hr.
  - injection H as <-. contradiction.
  - destruct (sim_step W s e) as [s1|] eqn:E; [|discriminate].
    destruct (grows_run W G s1 (gf + count_grows is_gfin (grows_ev G gf gm s s1 e))
                        (gm + count_grows is_glate (grows_ev G gf gm s s1 e)) rest) as [rr1|] eqn:R; [|discriminate].
    injection H as <-. apply in_app_or in Hr. destruct Hr as [Hr|Hr].
    + exists [], e, rest, s, s1, gf, gm. cbn [app sim_exec]. split; [reflexivity|]. split; [reflexivity|]. split; [exact E|].
      split; [exact Hr|]. eapply grows_ev_true; eassumption.
    + destruct (IH _ _ _ _ R r Hr) as [l1 [e' [l2 [sa [sb [a [b [Q1 [Q2 Q3]]]]]]]]].
      exists (e :: l1), e', l2, sa, sb, a, b. cbn [app sim_exec]. rewrite E, Q1. split; [reflexivity|]. split; [exact Q2|exact Q3].
Qed.

(* the census of cancelled graphs counts exactly the graphs one of whose sinks is CANCELLED *)
Lemma count_cancelled_spec s G : count_cancelled s G = Z.of_nat (length (filter (g_cancelled s) G)).
Proof. induction G as [|g G IH]; cbn [count_cancelled filter]; [reflexivity|]. destruct (g_cancelled s g); cbn [length]; lia. Qed.

(* non-vacuity: one graph of one task that completes after the graph's deadline *)
Definition gex_world : world := mkWorld (fun _ _ => 1) 0.
Definition gex_log : list ev :=
  [EGraph [(0, mkTI [] false, 0, 2)];
   EHandle TASK_RELEASE 0 (Some 0); ERelease 0 0; EHandled;
   EHandle SCHEDULER_FINISHED 0 None; ESchedule 0 0 0 3; EHandled;
   EHandle TASK_PLACEMENT 0 (Some 0); EPlace 0 0 [(0, 1)]; EStart 0 0 3; EHandled;
   EStep 3 10;
   EHandle TASK_FINISHED 3 (Some 0); ERemove 0 0; EFinish 0; EHandled;
   EStep 7 10;
   EHandle SIMULATOR_END 10 None].
Example grows_example :
  grows_of gex_world [mkG 0 2 [0] [0]] gex_log = Some [RGFinished 3 0 2 1; RGMissed 3 0 2; RGEnd 10 1 0 1].
Proof. vm_compute. reflexivity. Qed.
