(* C19, part 7: each invocation is a fresh copy of the job graph.
   For a job graph whose jobs are identified by their names and whose breadth-first traversal visits every
   node once, _generate_task_graph creates one new Task per job (ids next, next+1, ... in traversal
   order) and hands TaskGraph(...) exactly the job graph's adjacency with every job replaced by its task,
   children in the same order.  (Graph.__init__ itself -- graph_of_mapping -- is the generic constructor
   checked by the S-instantiate stream and by C17.) *)
From Coq Require Import ZArith Bool List Lia ZifyBool.
Import ListNotations.
From Verif Require Import Model.Val Gen.Src_Time Proofs.TimeP Model.Release Proofs.ReleaseP6.
Open Scope Z_scope.

Fixpoint index_of (i : Z) (l : list Z) : Z :=
  match l with [] => 0 | x :: l' => if x =? i then 0 else 1 + index_of i l' end.

Section Inst.
Variable jg : jobgraph.
Variable release d1 : etime.

Definition mk_task (nid i : Z) : task :=
  match find_job i (jg_jobs jg) with
  | Some j => mkTask nid i (j_name j) (if g_is_source (jg_graph jg) i then release else mkET (-1) U_US) d1 (j_prob j)
  | None => mkTask nid i (-1) et_invalid d1 (mkF 0 0)
  end.

Lemma name_lookup_set_same n t m : name_lookup n (name_set n t m) = Some t.
Proof.
  induction m as [|[k v] m IH]; cbn [name_set name_lookup].
  - rewrite Z.eqb_refl. reflexivity.
  - destruct (k =? n) eqn:E; cbn [name_lookup]; rewrite E; [reflexivity|exact IH].
Qed.
Lemma name_lookup_set_other n n' t m : n <> n' -> name_lookup n' (name_set n t m) = name_lookup n' m.
Proof.
  intros Hne. induction m as [|[k v] m IH]; cbn [name_set name_lookup].
  - destruct (n =? n') eqn:E; [lia|reflexivity].
  - destruct (k =? n) eqn:E; cbn [name_lookup].
    + assert (k = n) by lia. subst. destruct (n =? n') eqn:E'; [lia|reflexivity].
    + destruct (k =? n'); [reflexivity|exact IH].
Qed.

Definition step_tasks (acc : result (list (Z * task) * list task * Z)) (i : Z) :=
  bind acc (fun st =>
    let '(m, tasks, nid) := st in
    match find_job i (jg_jobs jg) with
    | None => Err 5
    | Some j =>
        let t := mkTask nid i (j_name j) (if g_is_source (jg_graph jg) i then release else mkET (-1) U_US) d1 (j_prob j) in
        Ok (name_set (j_name j) t m, tasks ++ [t], nid + 1)
    end).

Lemma fold_step_err l : fold_left step_tasks l (Err 5) = Err 5.
Proof. induction l as [|x l IH]; cbn [fold_left]; [reflexivity|exact IH]. Qed.
Lemma fold_step_err_any l c : fold_left step_tasks l (Err c) = Err c.
Proof. induction l as [|x l IH]; cbn [fold_left]; [reflexivity|exact IH]. Qed.

Lemma build_tasks_gen order : forall m0 c0 nid m c nid',
  fold_left step_tasks order (Ok (m0, c0, nid)) = Ok (m, c, nid') ->
  NoDup order ->
  (forall i i', In i order -> In i' order -> name_of jg i = name_of jg i' -> i = i') ->
  nid' = nid + Z.of_nat (length order) /\
  c = c0 ++ map (fun i => mk_task (nid + index_of i order) i) order /\
  (forall i, In i order -> name_lookup (name_of jg i) m = Some (mk_task (nid + index_of i order) i)) /\
  (forall n, (forall i, In i order -> name_of jg i <> n) -> name_lookup n m = name_lookup n m0).
Proof.
  induction order as [|i0 rest IH]; intros m0 c0 nid m c nid' H Hnd Hinj; cbn [fold_left] in H.
  - inversion H; subst. cbn [length map]. rewrite app_nil_r. repeat split; [lia|intros i []].
  - unfold step_tasks at 2 in H. cbn [bind] in H.
    destruct (find_job i0 (jg_jobs jg)) as [j|] eqn:Ej; [|rewrite fold_step_err_any in H; discriminate].
    inversion Hnd as [|? ? Hni Hnd']; subst.
    assert (Hname0 : name_of jg i0 = j_name j) by (unfold name_of; rewrite Ej; reflexivity).
    specialize (IH _ _ _ _ _ _ H Hnd').
    destruct IH as [Hn [Hc [Hl Ho]]].
    { intros i i' Hi Hi'. apply Hinj; right; assumption. }
    assert (Hne : forall i, In i rest -> name_of jg i <> name_of jg i0).
    { intros i Hi Heq. assert (i = i0) by (apply Hinj; [right; exact Hi|left; reflexivity|exact Heq]). subst. contradiction. }
    assert (Hmk0 : mk_task nid i0 = mkTask nid i0 (j_name j) (if g_is_source (jg_graph jg) i0 then release else mkET (-1) U_US) d1 (j_prob j))
      by (unfold mk_task; rewrite Ej; reflexivity).
    split; [cbn [length]; lia|]. split; [|split].
    + rewrite Hc, <- app_assoc. cbn [app map index_of]. rewrite Z.eqb_refl, Z.add_0_r, Hmk0. f_equal. f_equal.
      apply map_ext_in. intros i Hi. destruct (i0 =? i) eqn:E; [assert (i0 = i) by lia; subst; contradiction|].
      f_equal. lia.
    + intros i [Hi|Hi].
      * subst i. cbn [index_of]. rewrite Z.eqb_refl, Z.add_0_r.
        rewrite Ho by (intros i Hi; apply Hne; exact Hi). rewrite Hname0, name_lookup_set_same, Hmk0. reflexivity.
      * rewrite (Hl i Hi). cbn [index_of]. destruct (i0 =? i) eqn:E; [assert (i0 = i) by lia; subst; contradiction|].
        f_equal. f_equal. lia.
    + intros n Hn'. rewrite Ho by (intros i Hi; apply Hn'; right; exact Hi).
      apply name_lookup_set_other. rewrite <- Hname0. apply Hn'. left. reflexivity.
Qed.

Lemma build_tasks_spec order next m c next' :
  build_tasks jg release d1 order next = Ok (m, c, next') ->
  NoDup order ->
  (forall i i', In i order -> In i' order -> name_of jg i = name_of jg i' -> i = i') ->
  next' = next + Z.of_nat (length order) /\
  c = map (fun i => mk_task (next + index_of i order) i) order /\
  (forall i, In i order -> name_lookup (name_of jg i) m = Some (mk_task (next + index_of i order) i)).
Proof.
  intros H Hnd Hinj. unfold build_tasks in H. change (fold_left step_tasks order (Ok ([], [], next)) = Ok (m, c, next')) in H.
  destruct (build_tasks_gen order _ _ _ _ _ _ H Hnd Hinj) as [H1 [H2 [H3 _]]]. repeat split; assumption.
Qed.

(* ---- the mapping handed to TaskGraph(...) *)
Variable m : list (Z * task).
Variable T : Z -> task.           (* the task of a job *)

Lemma children_fold l : forall cs0,
  (forall c, In c l -> name_lookup (name_of jg c) m = Some (T c)) ->
  fold_left (fun acc' c => bind acc' (fun cs =>
      match name_lookup (name_of jg c) m with None => Err 5 | Some ct' => Ok (cs ++ [t_id ct']) end)) l (Ok cs0)
  = Ok (cs0 ++ map (fun c => t_id (T c)) l).
Proof.
  induction l as [|c l IH]; intros cs0 H; cbn [fold_left map].
  - rewrite app_nil_r. reflexivity.
  - cbn [bind]. rewrite (H c (or_introl eq_refl)). rewrite IH by (intros c' Hc'; apply H; right; exact Hc').
    rewrite <- app_assoc. reflexivity.
Qed.

Lemma map_set_fresh k v (mp : adj) : ~ In k (map fst mp) -> map_set k v mp = mp ++ [(k, v)].
Proof.
  induction mp as [|[k' w] mp IH]; cbn [map_set map fst app In]; intros H; [reflexivity|].
  destruct (k' =? k) eqn:E; [exfalso; apply H; left; lia|]. rewrite IH by tauto. reflexivity.
Qed.

Definition rename (kv : Z * list Z) : Z * list Z := (t_id (T (fst kv)), map (fun c => t_id (T c)) (snd kv)).

Lemma mapping_fold l : forall mp0,
  (forall kv, In kv l -> name_lookup (name_of jg (fst kv)) m = Some (T (fst kv)) /\
                         forall c, In c (snd kv) -> name_lookup (name_of jg c) m = Some (T c)) ->
  NoDup (map fst mp0 ++ map (fun kv => t_id (T (fst kv))) l) ->
  fold_left (fun acc kv => bind acc (fun mp =>
      match name_lookup (name_of jg (fst kv)) m with
      | None => Err 5
      | Some pt =>
          bind (fold_left (fun acc' c => bind acc' (fun cs =>
                  match name_lookup (name_of jg c) m with None => Err 5 | Some ct' => Ok (cs ++ [t_id ct']) end))
                (snd kv) (Ok [])) (fun cs => Ok (map_set (t_id pt) cs mp))
      end)) l (Ok mp0)
  = Ok (mp0 ++ map rename l).
Proof.
  induction l as [|kv l IH]; intros mp0 H Hnd; cbn [fold_left map].
  - rewrite app_nil_r. reflexivity.
  - cbn [bind]. destruct (H kv (or_introl eq_refl)) as [Hp Hc]. rewrite Hp.
    rewrite (children_fold (snd kv) [] Hc). cbn [bind app].
    rewrite map_set_fresh.
    + rewrite IH.
      * rewrite <- app_assoc. reflexivity.
      * intros kv' Hkv'. apply H. right. exact Hkv'.
      * rewrite map_app. cbn [map fst]. rewrite <- app_assoc. exact Hnd.
    + cbn [map] in Hnd. apply NoDup_remove_2 in Hnd. intros Hin. apply Hnd. apply in_or_app. left. exact Hin.
Qed.

Lemma build_mapping_spec :
  (forall kv, In kv (g_ch (jg_graph jg)) -> name_lookup (name_of jg (fst kv)) m = Some (T (fst kv)) /\
                                           forall c, In c (snd kv) -> name_lookup (name_of jg c) m = Some (T c)) ->
  NoDup (map (fun kv => t_id (T (fst kv))) (g_ch (jg_graph jg))) ->
  build_mapping jg m = Ok (map rename (g_ch (jg_graph jg))).
Proof.
  intros H Hnd. unfold build_mapping. rewrite (mapping_fold _ [] H); [reflexivity|exact Hnd].
Qed.
End Inst.

Lemma index_of_bound i l : In i l -> 0 <= index_of i l < Z.of_nat (length l).
Proof.
  induction l as [|x l IH]; cbn [In index_of length]; [tauto|]. intros H. destruct (x =? i) eqn:E; [lia|].
  destruct H as [H|H]; [lia|]. specialize (IH H). lia.
Qed.
Lemma index_of_inj i i' l : In i l -> In i' l -> index_of i l = index_of i' l -> i = i'.
Proof.
  induction l as [|x l IH]; cbn [In index_of]; [tauto|]. intros H H' He.
  destruct (x =? i) eqn:E; destruct (x =? i') eqn:E'; try lia.
  - destruct H' as [H'|H']; [lia|]. pose proof (index_of_bound i' l H'). lia.
  - destruct H as [H|H]; [lia|]. pose proof (index_of_bound i l H). lia.
  - destruct H as [H|H]; [lia|]. destruct H' as [H'|H']; [lia|]. apply IH; [assumption|assumption|lia].
Qed.

Lemma NoDup_map_inj_in (f : Z -> Z) l :
  (forall a b, In a l -> In b l -> f a = f b -> a = b) -> NoDup l -> NoDup (map f l).
Proof.
  induction l as [|x l IH]; intros Hinj Hnd; cbn [map]; [constructor|]. inversion Hnd; subst. constructor.
  - intros Hin. apply in_map_iff in Hin. destruct Hin as [y [Hy Hyin]].
    assert (y = x) by (apply Hinj; [right; exact Hyin|left; reflexivity|exact Hy]). subst. contradiction.
  - apply IH; [|assumption]. intros a b Ha Hb. apply Hinj; right; assumption.
Qed.

(* ---- the statement: a fresh copy with the same shape *)
Theorem instantiation_is_fresh_copy jg f release index next us_ tg next' us' order :
  generate_task_graph jg f release index next us_ = Ok (tg, next', us') ->
  g_bfs (jg_graph jg) = Ok order ->
  NoDup order ->                                                         (* every node is visited once ... *)
  (forall kv, In kv (g_ch (jg_graph jg)) -> In (fst kv) order /\ forall c, In c (snd kv) -> In c order) ->   (* ... and all of them *)
  NoDup (map fst (g_ch (jg_graph jg))) ->
  (forall i i', In i order -> In i' order -> name_of jg i = name_of jg i' -> i = i') ->   (* names identify jobs *)
  let task_id i := next + index_of i order in
  (* fresh: one new id per visited job, all beyond the ids in use *)
  next' = next + Z.of_nat (length order) /\
  (forall i, In i order -> next <= task_id i < next') /\
  (forall i i', In i order -> In i' order -> task_id i = task_id i' -> i = i') /\
  (* same shape: the TaskGraph is built from the job graph's adjacency, jobs replaced by their tasks *)
  graph_of_mapping (map (fun kv => (task_id (fst kv), map task_id (snd kv))) (g_ch (jg_graph jg))) = Ok (tg_graph tg).
Proof.
  intros H Hbfs Hnd Hcov Hkeys Hinj task_id. unfold generate_task_graph in H.
  destruct (jg_jobs jg) as [|j0 jobs] eqn:Ej; [discriminate|]. rewrite Hbfs in H.
  step H. step H. step H. step H. cbn [bind] in H. step H. step H. step H.
  destruct (build_tasks_spec jg release a0 order next _ _ _ E2 Hnd Hinj) as [Hn' [Hc Hl]].
  assert (Hid : forall i, t_id (mk_task jg release a0 (next + index_of i order) i) = task_id i).
  { intros i. unfold mk_task, task_id. destruct (find_job i (jg_jobs jg)); reflexivity. }
  assert (Hmap : build_mapping jg l0 = Ok (map (rename (fun i => mk_task jg release a0 (next + index_of i order) i)) (g_ch (jg_graph jg)))).
  { apply build_mapping_spec.
    - intros kv Hkv. destruct (Hcov kv Hkv) as [Hk Hcs]. split; [apply Hl; exact Hk|]. intros c Hc'. apply Hl. apply Hcs. exact Hc'.
    - rewrite (map_ext _ (fun kv => task_id (fst kv))) by (intros kv; apply Hid).
      rewrite <- (map_map fst task_id). apply NoDup_map_inj_in; [|exact Hkeys].
      intros x y Ha Hb Hab. unfold task_id in Hab.
      apply (index_of_inj x y order); [| |lia].
      + apply in_map_iff in Ha. destruct Ha as [kv [<- Hkv]]. exact (proj1 (Hcov kv Hkv)).
      + apply in_map_iff in Hb. destruct Hb as [kv [<- Hkv]]. exact (proj1 (Hcov kv Hkv)). }
  rewrite Hmap in H. cbn [bind] in H.
  assert (Hren : map (rename (fun i => mk_task jg release a0 (next + index_of i order) i)) (g_ch (jg_graph jg))
                 = map (fun kv => (task_id (fst kv), map task_id (snd kv))) (g_ch (jg_graph jg))).
  { apply map_ext. intros kv. unfold rename. rewrite Hid. f_equal. apply map_ext. intros c. apply Hid. }
  rewrite Hren in H. step H. do 5 step H.
  match type of H with (if ?c then _ else _) = _ => destruct c; [discriminate|] end.
  inversion H; subst; clear H. cbn [tg_graph].
  split; [reflexivity|]. split; [|split; [|reflexivity]].
  - intros i Hi. pose proof (index_of_bound i order Hi). unfold task_id. lia.
  - intros i i' Hi Hi' He. unfold task_id in He. apply (index_of_inj i i' order Hi Hi'). lia.
Qed.

(* the hypotheses are satisfiable: A -> {B, C}, runtimes 100/50/70 us, B with an SLO of 500 us *)
Definition ex_jg : jobgraph :=
  mkJG 0 [mkJob 0 0 et_invalid false false (mkF 1 0) [us_time 100; us_time 300];
          mkJob 1 1 (us_time 500) false false (mkF 1 0) [us_time 50];
          mkJob 2 2 et_invalid false false (mkF 1 0) [us_time 70]]
       (mkG [(0, [1; 2]); (1, []); (2, [])] [(1, [0]); (2, [0])])
       (mkPol FIXED (us_time 10) 2 (mkF (-1) 0) (mkF (-1) 0) 0 et_zero (mkF 0 0)) (Some (10, 50)).
Example instantiation_example :
  exists tg, generate_task_graph ex_jg no_flags (us_time 10) 1 100 [mkF 37 0; mkF 156 0; mkF 1 0] = Ok (tg, 103, [mkF 1 0]) /\
    g_bfs (jg_graph ex_jg) = Ok [0; 1; 2] /\ completion_time ex_jg = Ok (us_time 370) /\
    map t_id (tg_tasks tg) = [100; 101; 102] /\ map t_deadline (tg_tasks tg) = [us_time 536; us_time 536; us_time 536] /\
    g_ch (tg_graph tg) = [(100, [101; 102]); (101, []); (102, [])] /\
    uniform_contract 370 10 50 (mkF 156 0) = true.
Proof. eexists. split; [vm_compute; reflexivity|]. repeat split. Qed.

(* --use_branch_predicated_deadlines on the same graph, C given probability 0: the path is A -> B (300 + 50, the SLO of B
   is not used), and the deadline follows *)
Definition ex_jg_bp : jobgraph :=
  mkJG 0 [mkJob 0 0 et_invalid false false (mkF 1 0) [us_time 100; us_time 300];
          mkJob 1 1 (us_time 500) false false (mkF 1 0) [us_time 50];
          mkJob 2 2 et_invalid false false (mkF 0 0) [us_time 70]]
       (mkG [(0, [1; 2]); (1, []); (2, [])] [(1, [0]); (2, [0])])
       (mkPol FIXED (us_time 10) 2 (mkF (-1) 0) (mkF (-1) 0) 0 et_zero (mkF 0 0)) (Some (0, 0)).
Example branch_predicated_example :
  exists tg, generate_task_graph ex_jg_bp (mkIF 0 (2 ^ 63 - 1) (0, 0) true) (us_time 10) 0 0 [mkF 0 0; mkF 0 0] = Ok (tg, 3, []) /\
    completion_time ex_jg_bp = Ok (us_time 800) /\
    deadline_base ex_jg_bp (mkIF 0 (2 ^ 63 - 1) (0, 0) true) (tg_graph tg) (tg_tasks tg) = Ok (us_time 350) /\
    map t_deadline (tg_tasks tg) = [us_time 360; us_time 360; us_time 360].
Proof. eexists. split; [vm_compute; reflexivity|]. repeat split. Qed.
