(* Lemmas about Model/Worker.v, part 3 (C01, worker half): on every state satisfying the structural
   invariant the demand of the residents equals what the ledger has allocated, hence demand <= capacity. *)
From Coq Require Import ZArith Bool List Lia ZifyBool Arith Permutation.
Import ListNotations.
From Verif Require Import Model.Val Model.Res Model.Worker Proofs.ResP Proofs.ResP2 Proofs.WorkerP Proofs.WorkerP2.
Open Scope Z_scope.

Section Sums.
  Context {A : Type}.
  Fixpoint zsum (f : A -> Z) (l : list A) : Z := match l with [] => 0 | x :: l' => f x + zsum f l' end.
  Lemma zsum_app : forall f l1 l2, zsum f (l1 ++ l2) = zsum f l1 + zsum f l2.
  Proof. intros f. induction l1 as [|x l1 IH]; intro l2; cbn [zsum app]; [lia|rewrite IH; lia]. Qed.
  Lemma zsum_perm : forall f l l', Permutation l l' -> zsum f l = zsum f l'.
  Proof. intros f l l' H. induction H; cbn [zsum]; lia. Qed.
  Lemma zsum_ext : forall f g l, (forall x, In x l -> f x = g x) -> zsum f l = zsum g l.
  Proof.
    intros f g. induction l as [|x l IH]; intro H; cbn [zsum]; [reflexivity|].
    rewrite (H x (or_introl eq_refl)), IH; [reflexivity|]. intros y Hy. apply H. right. exact Hy.
  Qed.
End Sums.
Lemma zsum_map : forall {A B} (f : B -> Z) (h : A -> B) l, zsum f (map h l) = zsum (fun x => f (h x)) l.
Proof. intros A B f h. induction l as [|x l IH]; cbn [zsum map]; [reflexivity|rewrite IH; reflexivity]. Qed.

Lemma in_zfind : forall {A} (d : list (Z * A)) k a, NoDup (map fst d) -> In (k, a) d -> zfind k d = Some a.
Proof.
  intros A. induction d as [|[k0 a0] d IH]; intros k a Hnd Hin; [destruct Hin|].
  cbn [map fst] in Hnd. inversion Hnd as [|x y H1 H2]; subst. cbn [zfind]. destruct Hin as [Hin|Hin].
  - inversion Hin; subst. rewrite Z.eqb_refl. reflexivity.
  - destruct (k0 =? k) eqn:E; [|apply IH; assumption].
    exfalso. apply H1. assert (k0 = k) by lia. subst. apply (in_map fst) in Hin. exact Hin.
Qed.
Lemma zfind_in : forall {A} (d : list (Z * A)) k a, zfind k d = Some a -> In (k, a) d.
Proof.
  intros A. induction d as [|[k0 a0] d IH]; intros k a H; cbn [zfind] in H; [discriminate|].
  destruct (k0 =? k) eqn:E; [inversion H; subst; left; f_equal; lia|right; apply IH; exact H].
Qed.

Lemma al_find_some_in : forall c a, al_find c a <> None -> In c (map fst a).
Proof.
  intros c. induction a as [|[c' l] a IH]; cbn [al_find map fst In]; intro H; [congruence|].
  destruct (comp_eqb c' c) eqn:E; [left; apply comp_eqb_eq; exact E|right; apply IH; exact H].
Qed.
Lemma NoDup_app_intro : forall {A} (l1 l2 : list A), NoDup l1 -> NoDup l2 -> (forall x, In x l1 -> In x l2 -> False) -> NoDup (l1 ++ l2).
Proof.
  intros A. induction l1 as [|x l1 IH]; intros l2 H1 H2 Hd; cbn [app]; [exact H2|].
  inversion H1 as [|a b X1 X2]; subst. constructor.
  - intro Hin. apply in_app_or in Hin. destruct Hin as [Hin|Hin]; [contradiction|]. apply (Hd x); [left; reflexivity|exact Hin].
  - apply IH; [exact X2|exact H2|]. intros y Y1 Y2. apply (Hd y); [right; exact Y1|exact Y2].
Qed.

(* allocs as a sum over its keys *)
Lemma allocs_sum_keys : forall P a, NoDup (map fst a) ->
  allocs_sum P a = zsum (fun c => sumP P (al_get c a)) (map fst a).
Proof.
  intros P. induction a as [|[c l] a IH]; intro Hnd; cbn [allocs_sum map fst zsum snd]; [reflexivity|].
  inversion Hnd as [|x y H1 H2]; subst. unfold al_get at 1. cbn [al_find]. rewrite comp_eqb_refl. f_equal.
  rewrite IH by exact H2. apply zsum_ext. intros c' Hc'. unfold al_get. cbn [al_find].
  destruct (comp_eqb c c') eqn:E; [|reflexivity]. apply comp_eqb_eq in E. subst. contradiction.
Qed.

(* the batch strategies with a resident member, each once *)
Lemma resident_batches_spec : forall pl seen,
  NoDup (map s_id (resident_batches pl seen)) /\
  forall sid, In sid (map s_id (resident_batches pl seen)) <->
              ~ In sid seen /\ exists t s, In (t, s) pl /\ s_is_batch s = true /\ s_id s = sid.
Proof.
  induction pl as [|[t s] pl IH]; intro seen; cbn [resident_batches].
  - split; [constructor|]. intro sid. cbn. split; [tauto|intros (_ & t & s & [] & _)].
  - destruct (s_is_batch s && negb (set_mem (s_id s) seen)) eqn:E.
    + apply andb_true_iff in E. destruct E as [Eb Es]. apply negb_true_iff in Es.
      assert (Hns : ~ In (s_id s) seen) by (intro X; apply set_mem_in in X; congruence).
      destruct (IH (s_id s :: seen)) as [N S]. cbn [map]. split.
      * constructor; [|exact N]. intro X. apply S in X. apply (proj1 X). left. reflexivity.
      * intro sid. cbn [In]. rewrite S. cbn [In]. split.
        -- intros [X|(X1 & t0 & s0 & X2 & X3 & X4)].
           ++ subst sid. split; [exact Hns|]. exists t, s. auto.
           ++ split; [tauto|]. exists t0, s0. auto.
        -- intros (X1 & t0 & s0 & [X2|X2] & X3 & X4).
           ++ inversion X2; subst. left. reflexivity.
           ++ destruct (Z.eq_dec (s_id s) sid) as [Y|Y]; [left; exact Y|right]. split; [tauto|]. exists t0, s0. auto.
    + destruct (IH seen) as [N S]. split; [exact N|]. intro sid. rewrite S. split.
      * intros (X1 & t0 & s0 & X2 & X3 & X4). split; [exact X1|]. exists t0, s0. cbn [In]. auto.
      * intros (X1 & t0 & s0 & [X2|X2] & X3 & X4); [|split; [exact X1|]; exists t0, s0; auto].
        inversion X2; subst. rewrite X3 in E. cbn [andb] in E. apply negb_false_iff in E. apply set_mem_in in E. contradiction.
Qed.
Lemma resident_batches_in : forall pl seen s, In s (resident_batches pl seen) -> exists t, In (t, s) pl /\ s_is_batch s = true.
Proof.
  induction pl as [|[t s0] pl IH]; intros seen s H; cbn [resident_batches] in H; [destruct H|].
  destruct (s_is_batch s0 && negb (set_mem (s_id s0) seen)) eqn:E.
  - destruct H as [H|H].
    + subst. apply andb_true_iff in E. exists t. split; [left; reflexivity|tauto].
    + destruct (IH _ _ H) as (t' & X & Y). exists t'. split; [right; exact X|exact Y].
  - destruct (IH _ _ H) as (t' & X & Y). exists t'. split; [right; exact X|exact Y].
Qed.

Section Demand.
  Variable tbl : Z -> strategy.

  Definition plain_keys (pl : list (Z * strategy)) : list Z :=
    map fst (filter (fun ts => negb (s_is_batch (snd ts))) pl).

  Lemma nodup_filter_keys : forall {A} (f : Z * A -> bool) d, NoDup (map fst d) -> NoDup (map fst (filter f d)).
  Proof.
    intros A f. induction d as [|[k a] d IH]; intro H; cbn [filter map fst]; [constructor|].
    inversion H as [|x y H1 H2]; subst. destruct (f (k, a)); [|auto]. cbn [map fst]. constructor; [|auto].
    intro X. apply H1. apply in_map_iff in X. destruct X as ([k' a'] & X1 & X2). apply filter_In in X2.
    cbn [fst] in X1. subst. destruct X2 as [X2 _]. apply (in_map fst) in X2. exact X2.
  Qed.
  Lemma nodup_map_inj : forall {A B} (h : A -> B) l, (forall x y, h x = h y -> x = y) -> NoDup l -> NoDup (map h l).
  Proof.
    intros A B h l Hinj. induction 1 as [|x l Hx Hl IH]; cbn [map]; constructor; [|exact IH].
    intro X. apply in_map_iff in X. destruct X as (y & E & Hy). apply Hinj in E. subst. contradiction.
  Qed.

  Theorem demand_eq_allocated : forall w n, WInv tbl w ->
    demand_name w n = allocs_sum (name_is n) (r_allocs (w_res w)).
  Proof.
    intros w n HI. set (a := r_allocs (w_res w)).
    destruct (wi_res _ _ HI) as [_ [Hnda _]]. fold a in Hnda.
    set (f := fun c => sumP (name_is n) (al_get c a)).
    set (L := map CTask (plain_keys (w_placed w)) ++ map CBatch (map snd (w_btask w)) ++
              map CProf (map fst (w_avail_prof w) ++ map fst (w_pend_prof w))).
    (* the keys of the allocation dict are exactly the residents *)
    assert (HndL : NoDup L).
    { unfold L. assert (N1 : NoDup (map CTask (plain_keys (w_placed w)))).
      { apply nodup_map_inj; [intros x y E; inversion E; reflexivity|]. apply nodup_filter_keys. apply (wi_nd_placed _ _ HI). }
      assert (N2 : NoDup (map CBatch (map snd (w_btask w)))).
      { apply nodup_map_inj; [intros x y E; inversion E; reflexivity|].
        assert (Nk : NoDup (map fst (w_btask w))) by (rewrite (wi_bt_keys _ _ HI); apply (wi_nd_batches _ _ HI)).
        pose proof (wi_bt_inj _ _ HI) as Hinj. revert Nk Hinj. generalize (w_btask w) as bt.
        induction bt as [|[sid b] bt IHb]; intros Nk Hinj; cbn [map snd]; [constructor|].
        cbn [map fst] in Nk. inversion Nk as [|x y K1 K2]; subst. constructor.
        - intro X. apply in_map_iff in X. destruct X as ([sid' b'] & E & Hin'). cbn [snd] in E. subst b'.
          assert (Z1 : zfind sid ((sid, b) :: bt) = Some b) by (cbn [zfind]; rewrite Z.eqb_refl; reflexivity).
          assert (Z2 : zfind sid' ((sid, b) :: bt) = Some b).
          { apply in_zfind; [cbn [map fst]; constructor; assumption|right; exact Hin']. }
          pose proof (Hinj _ _ _ Z1 Z2) as E. subst sid'. apply K1. apply (in_map fst) in Hin'. exact Hin'.
        - apply IHb; [exact K2|]. intros s1 s2 b0 E1 E2. apply (Hinj s1 s2 b0).
          + cbn [zfind]. destruct (sid =? s1) eqn:E; [|exact E1]. exfalso. apply K1. assert (sid = s1) by lia. subst.
            apply zfind_in in E1. apply (in_map fst) in E1. exact E1.
          + cbn [zfind]. destruct (sid =? s2) eqn:E; [|exact E2]. exfalso. apply K1. assert (sid = s2) by lia. subst.
            apply zfind_in in E2. apply (in_map fst) in E2. exact E2. }
      assert (N3 : NoDup (map CProf (map fst (w_avail_prof w) ++ map fst (w_pend_prof w)))).
      { apply nodup_map_inj; [intros x y E; inversion E; reflexivity|].
        apply NoDup_app_intro; [apply (wi_nd_avail _ _ HI)|apply (wi_nd_pend _ _ HI)|].
        intros p Ha Hq. assert (X : zfind p (w_avail_prof w) <> None) by (intro X; apply zfind_none_notin in X; contradiction).
        apply (wi_disj _ _ HI) in X. apply zfind_none_notin in X. contradiction. }
      apply NoDup_app_intro; [exact N1|apply NoDup_app_intro; [exact N2|exact N3|]|].
      - intros c X Y. apply in_map_iff in X. apply in_map_iff in Y. destruct X as (? & <- & _). destruct Y as (? & ? & _). discriminate.
      - intros c X Y. apply in_map_iff in X. destruct X as (? & <- & _). apply in_app_or in Y.
        destruct Y as [Y|Y]; apply in_map_iff in Y; destruct Y as (? & ? & _); discriminate. }
    assert (Hperm : Permutation (map fst a) L).
    { apply NoDup_Permutation; [exact Hnda|exact HndL|]. intro c. split.
      - intro Hc. assert (X : al_find c a <> None) by (intro X; apply al_find_none_notin in X; contradiction).
        pose proof (wi_orphan _ _ HI c X) as Y. unfold L. destruct c as [t|b|p].
        + destruct Y as (s & Y1 & Y2). apply in_or_app. left. apply in_map. unfold plain_keys.
          apply in_map_iff. exists (t, s). split; [reflexivity|]. apply filter_In. split; [apply zfind_in; exact Y1|cbn; rewrite Y2; reflexivity].
        + destruct Y as (sid & Y). apply in_or_app. right. apply in_or_app. left. apply in_map.
          apply in_map_iff. exists (sid, b). split; [reflexivity|apply zfind_in; exact Y].
        + apply in_or_app. right. apply in_or_app. right. apply in_map. apply in_or_app.
          destruct Y as [Y|Y]; [left|right]; (destruct (zfind p _) as [s|] eqn:E; [|congruence]);
            apply zfind_in in E; apply (in_map fst) in E; exact E.
      - unfold L. intro Hc. apply in_app_or in Hc. destruct Hc as [Hc|Hc]; [|apply in_app_or in Hc; destruct Hc as [Hc|Hc]].
        + apply in_map_iff in Hc. destruct Hc as (t & <- & Ht). unfold plain_keys in Ht. apply in_map_iff in Ht.
          destruct Ht as ([t' s] & E & Ht). cbn [fst] in E. subst t'. apply filter_In in Ht. destruct Ht as [Ht Hb]. cbn [snd] in Hb.
          apply negb_true_iff in Hb. pose proof (wi_ex_task _ _ HI t s (in_zfind _ _ _ (wi_nd_placed _ _ HI) Ht) Hb) as Hh.
          apply held_some in Hh. apply al_find_some_in. exact Hh.
        + apply in_map_iff in Hc. destruct Hc as (b & <- & Hb). apply in_map_iff in Hb. destruct Hb as ([sid b'] & E & Hb). cbn [snd] in E. subst b'.
          assert (Nk : NoDup (map fst (w_btask w))) by (rewrite (wi_bt_keys _ _ HI); apply (wi_nd_batches _ _ HI)).
          pose proof (wi_ex_batch _ _ HI sid b (in_zfind _ _ _ Nk Hb)) as Hh. apply held_some in Hh.
          apply al_find_some_in. exact Hh.
        + apply in_map_iff in Hc. destruct Hc as (p & <- & Hp). apply in_app_or in Hp.
          assert (Hh : exists s, zfind p (w_avail_prof w) = Some s \/ zfind p (w_pend_prof w) = Some s).
          { destruct Hp as [Hp|Hp]; apply in_map_iff in Hp; destruct Hp as ([p' s] & E & Hp); cbn [fst] in E; subst p'; exists s.
            - left. apply in_zfind; [apply (wi_nd_avail _ _ HI)|exact Hp].
            - right. apply in_zfind; [apply (wi_nd_pend _ _ HI)|exact Hp]. }
          destruct Hh as (s & Hh). pose proof (wi_ex_prof _ _ HI p s Hh) as Hd. apply held_some in Hd.
          apply al_find_some_in. exact Hd. }
    rewrite (allocs_sum_keys _ _ Hnda). fold f. rewrite (zsum_perm f _ _ Hperm). unfold L. rewrite !zsum_app.
    unfold demand_name. rewrite Z.add_assoc. f_equal; [f_equal|].
    - (* plain tasks *)
      unfold demand_tasks. rewrite zsum_map.
      assert (G : forall pl, (forall t s, In (t, s) pl -> s_is_batch s = false -> f (CTask t) = req_name n (s_req s)) ->
                  fold_right (fun ts acc => (if s_is_batch (snd ts) then 0 else req_name n (s_req (snd ts))) + acc) 0 pl =
                  zsum (fun x => f (CTask x)) (plain_keys pl)).
      { induction pl as [|[t s] pl IHp]; intro Hx; [reflexivity|].
        cbn [fold_right snd]. unfold plain_keys. cbn [filter snd].
        assert (IH' := IHp (fun t0 s0 H => Hx t0 s0 (or_intror H))). unfold plain_keys in IH'.
        destruct (s_is_batch s) eqn:E; cbn [negb map fst zsum].
        - rewrite IH'. lia.
        - rewrite IH', (Hx t s (or_introl eq_refl) E). reflexivity. }
      apply G. intros t s Hin Hb. destruct (wi_ex_task _ _ HI t s (in_zfind _ _ _ (wi_nd_placed _ _ HI) Hin) Hb) as (l & E1 & E3).
      unfold f, al_get. fold a in E1. rewrite E1. apply E3.
    - (* batches, each once *)
      unfold demand_batches. rewrite !zsum_map.
      set (g := fun sid => req_name n (s_req (tbl sid))).
      assert (Nk : NoDup (map fst (w_btask w))) by (rewrite (wi_bt_keys _ _ HI); apply (wi_nd_batches _ _ HI)).
      transitivity (zsum g (map s_id (resident_batches (w_placed w) []))).
      { rewrite zsum_map.
        assert (G : forall l, (forall s, In s l -> s = tbl (s_id s)) ->
                    fold_right (fun s acc => req_name n (s_req s) + acc) 0 l = zsum (fun x => g (s_id x)) l).
        { induction l as [|s l IHl]; intro Hx; cbn [fold_right zsum]; [reflexivity|].
          rewrite IHl by (intros; apply Hx; right; assumption).
          assert (E : g (s_id s) = req_name n (s_req s)) by (unfold g; rewrite <- (Hx s (or_introl eq_refl)); reflexivity).
          rewrite E. reflexivity. }
        apply G. intros s Hs. apply resident_batches_in in Hs. destruct Hs as (t & Hin & Hb).
        apply (wi_placed_batch _ _ HI t s (in_zfind _ _ _ (wi_nd_placed _ _ HI) Hin) Hb). }
      transitivity (zsum g (map fst (w_btask w))).
      { apply zsum_perm. destruct (resident_batches_spec (w_placed w) []) as [N S].
        apply NoDup_Permutation; [exact N|exact Nk|]. intro sid. rewrite S. rewrite (wi_bt_keys _ _ HI). split.
        - intros (_ & t & s & Hin & Hb & Hid). subst sid.
          destruct (wi_placed_batch _ _ HI t s (in_zfind _ _ _ (wi_nd_placed _ _ HI) Hin) Hb) as [_ B2].
          destruct (zfind (s_id s) (w_batches w)) as [mem|] eqn:E; [|congruence]. apply zfind_in in E. apply (in_map fst) in E. exact E.
        - intro Hin. split; [intros []|]. apply in_map_iff in Hin. destruct Hin as ([sid' mem] & E & Hin). cbn [fst] in E. subst sid'.
          destruct (wi_members _ _ HI sid mem (in_zfind _ _ _ (wi_nd_batches _ _ HI) Hin)) as (M1 & _ & M3 & M4 & M5).
          destruct mem as [|t mem]; [congruence|]. exists t, (tbl sid). split; [|auto].
          apply zfind_in. apply M5. left. reflexivity. }
      rewrite zsum_map. revert Nk. generalize (wi_ex_batch _ _ HI). generalize (w_btask w) as bt.
      induction bt as [|[sid b] bt IHb]; intros Hex Nk; cbn [map zsum fst snd]; [reflexivity|].
      cbn [map fst] in Nk. inversion Nk as [|x y K1 K2]; subst.
      rewrite IHb; [|intros sid' b' E'; apply Hex; cbn [zfind]; destruct (sid =? sid') eqn:E; [exfalso; apply K1; assert (sid = sid') by lia; subst; apply zfind_in in E'; apply (in_map fst) in E'; exact E'|exact E']|exact K2].
      f_equal. destruct (Hex sid b) as (l & E1 & E3); [cbn [zfind]; rewrite Z.eqb_refl; reflexivity|].
      unfold f, al_get. fold a in E1. rewrite E1. unfold g. symmetry. apply E3.
    - (* profiles *)
      unfold demand_profiles. rewrite zsum_map, <- map_app, zsum_map.
      assert (G : forall l, (forall p s, In (p, s) l -> f (CProf p) = req_name n (s_req s)) ->
                  fold_right (fun ps acc => req_name n (s_req (snd ps)) + acc) 0 l = zsum (fun x => f (CProf (fst x))) l).
      { induction l as [|[p s] l IHl]; intro Hx; cbn [fold_right zsum fst snd]; [reflexivity|].
        rewrite IHl by (intros; eapply Hx; right; eauto). rewrite (Hx p s (or_introl eq_refl)). reflexivity. }
      apply G. intros p s Hin. apply in_app_or in Hin.
      assert (Hh : zfind p (w_avail_prof w) = Some s \/ zfind p (w_pend_prof w) = Some s).
      { destruct Hin as [Hin|Hin]; [left; apply in_zfind; [apply (wi_nd_avail _ _ HI)|exact Hin]|right; apply in_zfind; [apply (wi_nd_pend _ _ HI)|exact Hin]]. }
      destruct (wi_ex_prof _ _ HI p s Hh) as (l0 & E1 & E3). unfold f, al_get. fold a in E1. rewrite E1. apply E3.
  Qed.

  (* C01, worker half: the residents never demand more than the configured capacity *)
  Theorem demand_le_capacity : forall w n, WInv tbl w -> demand_name w n <= cap_name w n.
  Proof.
    intros w n HI. rewrite (demand_eq_allocated w n HI). unfold cap_name.
    destruct (wi_res _ _ HI) as [[C _ _] _]. specialize (C (name_is n)).
    pose proof (sumP_nonneg (name_is n) _ (nn_avail _ (wi_nn _ _ HI))) as Hn.
    change (fun k : rkey => fst k =? n) with (name_is n). lia.
  Qed.
End Demand.
