(* C17, the monitors: the boolean checks applied to the implementation's outputs decide the
   propositions of the theorems (brute-force references proved correct). *)
From Coq Require Import ZArith Bool List Lia ZifyBool Permutation.
Import ListNotations.
From Verif Require Import Model.Val Model.Graph Proofs.GraphPBase Proofs.GraphPDfs Proofs.GraphPTopo
  Proofs.GraphPBfs Proofs.GraphPLong.
Open Scope Z_scope.

Lemma nodupb_spec : forall l, nodupb l = true <-> NoDup l.
Proof.
  induction l as [|x l IH]; cbn [nodupb].
  - split; [constructor | reflexivity].
  - rewrite andb_true_iff, negb_true_iff, mem_false, IH. split.
    + intros [H1 H2]. constructor; assumption.
    + intro N. inversion N; subst. auto.
Qed.
Lemma same_set_spec : forall a b, same_set a b = true <-> forall x, In x a <-> In x b.
Proof.
  intros a b. unfold same_set. rewrite andb_true_iff, !forallb_forall. split.
  - intros [H1 H2] x. split; intro H; apply mem_In; auto.
  - intro H. split; intros x Hx; apply mem_In; apply H; exact Hx.
Qed.
Lemma edgeb_spec : forall g u v, edgeb g u v = true <-> edge g u v.
Proof. intros. unfold edgeb, edge. apply mem_In. Qed.

Lemma lookup_nodup_in : forall (a : adj) k v, NoDup (map fst a) -> In (k, v) a -> lookup k a = Some v.
Proof. intros. apply in_pair_lookup; assumption. Qed.
Lemma get_edges_spec : forall g, wf g -> forall u v, In (u, v) (get_edges g) <-> edge g u v.
Proof.
  intros g W u v. unfold get_edges. rewrite in_flat_map. unfold edge, children_of. split.
  - intros [[n cs] [H1 H2]]. cbn [fst snd] in H2. apply in_map_iff in H2. destruct H2 as [c [E Hc]].
    injection E as -> ->. rewrite (lookup_nodup_in _ _ _ (wf_nodup g W) H1). exact Hc.
  - intro H. destruct (lookup u (g_children g)) as [cs|] eqn:E; [|destruct H].
    exists (u, cs). split; [apply lookup_in_pair; exact E|]. cbn [fst snd]. apply in_map. exact H.
Qed.

(* the order monitor (topological_sort, breadth_first) *)
Lemma mon_topo_spec : forall g, wf g -> forall l,
  mon_topo g l = true <->
  NoDup l /\ (forall x, In x l <-> In x (nodes g)) /\ forall u v, edge g u v -> (index_of u l < index_of v l)%nat.
Proof.
  intros g W l. unfold mon_topo. rewrite !andb_true_iff, nodupb_spec, same_set_spec, forallb_forall. split.
  - intros [[H1 H2] H3]. split; [exact H1|]. split; [exact H2|]. intros u v E.
    apply (get_edges_spec g W) in E. specialize (H3 (u, v) E). cbn [fst snd] in H3. apply Nat.ltb_lt. exact H3.
  - intros [H1 [H2 H3]]. split; [split; assumption|]. intros [u v] E. cbn [fst snd].
    apply Nat.ltb_lt. apply H3. apply (get_edges_spec g W). exact E.
Qed.
Lemma mon_topo_perm : forall g, wf g -> forall l,
  mon_topo g l = true <-> Permutation l (nodes g) /\ forall u v, edge g u v -> (index_of u l < index_of v l)%nat.
Proof.
  intros g W l. rewrite (mon_topo_spec g W). split.
  - intros [H1 [H2 H3]]. split; [apply NoDup_Permutation; [exact H1 | apply (wf_nodup g W) | exact H2] | exact H3].
  - intros [H1 H3]. split; [eapply Permutation_NoDup; [apply Permutation_sym; exact H1 | apply (wf_nodup g W)]|].
    split; [|exact H3]. intro x. split; apply Permutation_in; [exact H1 | apply Permutation_sym; exact H1].
Qed.
Lemma mon_bfs_eq : forall g l, mon_bfs g l = mon_topo g l.
Proof. reflexivity. Qed.

(* ------------------------------------------------------------------ reachability closure *)
Section Reach.
Variable g : graph.
Hypothesis W : wf g.

Definition stepset (s : list node) : list node :=
  filter (fun v => negb (mem v s) && existsb (fun u => edgeb g u v) s) (nodes g).
Lemma reach_iter_S : forall k s, reach_iter (S k) g s = reach_iter k g (s ++ stepset s).
Proof. reflexivity. Qed.
Lemma stepset_in : forall s v, In v (stepset s) <-> In v (nodes g) /\ ~ In v s /\ exists u, In u s /\ edge g u v.
Proof.
  intros s v. unfold stepset. rewrite filter_In, andb_true_iff, negb_true_iff, mem_false, existsb_exists.
  split; intros [H1 [H2 [u [H3 H4]]]]; (split; [exact H1|]; split; [exact H2|]; exists u; split; [exact H3|]);
    apply edgeb_spec; exact H4.
Qed.
Definition closed_set (s : list node) : Prop := forall u v, In u s -> edge g u v -> In v s.

Lemma reach_iter_sound : forall k s x, In x (reach_iter k g s) -> exists r, In r s /\ reach g r x.
Proof.
  induction k as [|k IH]; intros s x H; cbn [reach_iter] in H.
  - exists x. split; [exact H | apply reach_refl].
  - fold (stepset s) in H. destruct (IH _ _ H) as [r [Hr R]]. apply in_app_or in Hr. destruct Hr as [Hr|Hr].
    + exists r. auto.
    + apply stepset_in in Hr. destruct Hr as [_ [_ [u [Hu E]]]]. exists u. split; [exact Hu | eapply reach_step; eassumption].
Qed.
Lemma reach_iter_incl : forall k s x, In x s -> In x (reach_iter k g s).
Proof.
  induction k as [|k IH]; intros s x H; cbn [reach_iter]; [exact H|]. apply IH. apply in_or_app. left. exact H.
Qed.
Lemma closed_stepset_nil : forall s, closed_set s -> stepset s = [].
Proof.
  intros s C. destruct (stepset s) as [|v l] eqn:E; [reflexivity|]. exfalso.
  assert (H : In v (stepset s)) by (rewrite E; left; reflexivity).
  apply stepset_in in H. destruct H as [_ [N [u [Hu Ed]]]]. apply N. eapply C; eassumption.
Qed.
Lemma stepset_nil_closed : forall s, stepset s = [] -> closed_set s.
Proof.
  intros s E u v Hu Ed. destruct (mem v s) eqn:M; [apply mem_In; exact M|]. exfalso.
  assert (H : In v (stepset s)).
  { apply stepset_in. split; [apply (wf_closed g W u v Ed)|]. split; [apply mem_false; exact M | eauto]. }
  rewrite E in H. destruct H.
Qed.
Lemma closed_iter : forall k s, closed_set s -> reach_iter k g s = s.
Proof.
  induction k as [|k IH]; intros s C; cbn [reach_iter]; [reflexivity|]. fold (stepset s).
  rewrite (closed_stepset_nil s C), app_nil_r. apply IH. exact C.
Qed.
Lemma reach_iter_closed : forall k s, NoDup s -> (forall x, In x s -> In x (nodes g)) ->
  (length (nodes g) < length s + k)%nat -> closed_set (reach_iter k g s).
Proof.
  induction k as [|k IH]; intros s N Hin Hl.
  - exfalso. pose proof (NoDup_incl_length N Hin). lia.
  - rewrite reach_iter_S. destruct (stepset s) as [|v l] eqn:E.
    + rewrite app_nil_r. rewrite closed_iter; apply stepset_nil_closed; exact E.
    + apply IH.
      * apply NoDup_app_iff. split; [exact N|]. split.
        -- rewrite <- E. unfold stepset. apply NoDup_filter. apply (wf_nodup g W).
        -- intros x Hx Hx'. rewrite <- E in Hx'. apply stepset_in in Hx'. tauto.
      * intros x Hx. apply in_app_or in Hx. destruct Hx as [Hx|Hx]; [apply Hin; exact Hx|].
        rewrite <- E in Hx. apply stepset_in in Hx. tauto.
      * rewrite app_length. cbn [length]. lia.
Qed.
Lemma closed_set_reach : forall s x y, closed_set s -> reach g x y -> In x s -> In y s.
Proof. intros s x y C H. induction H; [auto | intro Hx; apply IHreach; eapply C; eassumption]. Qed.

Lemma reachb_spec : forall u v, In u (nodes g) -> reachb g u v = true <-> reach g u v.
Proof.
  intros u v Hu. unfold reachb, reach_set. rewrite mem_In. split.
  - intro H. destruct (reach_iter_sound _ _ _ H) as [r [[<-|[]] R]]. exact R.
  - intro R. eapply closed_set_reach; [|exact R|apply reach_iter_incl; left; reflexivity].
    apply reach_iter_closed.
    + constructor; [intros []|constructor].
    + intros x [<-|[]]. exact Hu.
    + cbn [length]. lia.
Qed.
Lemma reachpb_spec : forall u v, reachpb g u v = true <-> reachp g u v.
Proof.
  intros u v. unfold reachpb, reachp. rewrite existsb_exists. split.
  - intros [c [Hc R]]. exists c. split; [exact Hc|]. apply reachb_spec; [apply (wf_closed g W u c Hc) | exact R].
  - intros [c [Hc R]]. exists c. split; [exact Hc|]. apply reachb_spec; [apply (wf_closed g W u c Hc) | exact R].
Qed.
Lemma cyclicb_spec : cyclicb g = true <-> cyclic g.
Proof.
  unfold cyclicb, cyclic. rewrite existsb_exists. split.
  - intros [x [_ H]]. exists x. apply reachpb_spec. exact H.
  - intros [x H]. exists x. split; [|apply reachpb_spec; exact H].
    destruct H as [y [E _]]. apply (wf_closed g W x y E).
Qed.

(* depth_first monitor *)
Lemma mon_dfs_spec : forall n l, In n (nodes g) ->
  mon_dfs g n l = true <-> NoDup l /\ forall x, In x l <-> reach g n x.
Proof.
  intros n l Hn. unfold mon_dfs. rewrite andb_true_iff, nodupb_spec, same_set_spec.
  assert (R : forall x, In x (reach_set g n) <-> reach g n x).
  { intro x. rewrite <- mem_In. apply (reachb_spec n x Hn). }
  split; intros [H1 H2]; (split; [exact H1|]); intro x; [rewrite H2; apply R | rewrite H2; symmetry; apply R].
Qed.
(* are_dependent monitor *)
Lemma mon_dependent_spec : forall u v b,
  mon_dependent g u v b = true <-> (b = true <-> reachp g u v \/ reachp g v u).
Proof.
  intros u v b. unfold mon_dependent. rewrite eqb_true_iff.
  rewrite <- (reachpb_spec u v), <- (reachpb_spec v u), <- orb_true_iff.
  destruct b, (reachpb g u v || reachpb g v u); split; try tauto; try congruence; intros [H1 H2]; auto. symmetry. apply H1. reflexivity.
Qed.
End Reach.

(* what a passing monitor certifies about one observation of the implementation *)
Lemma mon_MTopo_spec : forall m l, mon (MTopo m l) = true <->
  exists g, of_mapping m = Ok g /\ acyclic g /\ Permutation l (nodes g) /\
            forall u v, edge g u v -> (index_of u l < index_of v l)%nat.
Proof.
  intros m l. cbn [mon]. destruct (of_mapping_wf m) as [g [E W]]. rewrite E. split.
  - intro H. apply andb_true_iff in H. destruct H as [H1 H2]. exists g. split; [reflexivity|].
    split; [apply acyclic_not_cyclic; rewrite <- (cyclicb_spec g W); apply negb_true_iff in H1; congruence|].
    apply (mon_topo_perm g W). exact H2.
  - intros [g' [E' [A H]]]. injection E' as <-. apply andb_true_iff. split.
    + apply negb_true_iff. destruct (cyclicb g) eqn:C; [|reflexivity]. exfalso.
      apply (acyclic_not_cyclic g); [exact A | apply (cyclicb_spec g W); exact C].
    + apply (mon_topo_perm g W). exact H.
Qed.
Lemma mon_MTopoErr_spec : forall m c, mon (MTopoErr m c) = true <->
  exists g, of_mapping m = Ok g /\ c = E_RUNTIME /\ cyclic g.
Proof.
  intros m c. cbn [mon]. destruct (of_mapping_wf m) as [g [E W]]. rewrite E. rewrite andb_true_iff, Z.eqb_eq, (cyclicb_spec g W).
  split; [intros [H1 H2]; exists g; auto | intros [g' [E' H]]; injection E' as <-; exact H].
Qed.
Lemma mon_MDfs_spec : forall m n l st, mon (MDfs m n l st) = true ->
  exists g, of_mapping m = Ok g /\ (In n (nodes g) -> st = 0 /\ NoDup l /\ forall x, In x l <-> reach g n x).
Proof.
  intros m n l st. cbn [mon]. destruct (of_mapping_wf m) as [g [E W]]. rewrite E. intro H.
  apply andb_true_iff in H. destruct H as [H1 H2]. exists g. split; [reflexivity|]. intro Hn.
  split; [apply Z.eqb_eq; exact H1 | apply (mon_dfs_spec g W n l Hn); exact H2].
Qed.
Lemma mon_MBfs_spec : forall m l st, mon (MBfs m l st) = true <->
  exists g, of_mapping m = Ok g /\ st = 0 /\ Permutation l (nodes g) /\
            forall u v, edge g u v -> (index_of u l < index_of v l)%nat.
Proof.
  intros m l st. cbn [mon]. destruct (of_mapping_wf m) as [g [E W]]. rewrite E.
  rewrite andb_true_iff, Z.eqb_eq, mon_bfs_eq, (mon_topo_perm g W).
  split; [intros [H1 H2]; exists g; auto | intros [g' [E' H]]; injection E' as <-; exact H].
Qed.
Lemma mon_MDep_spec : forall m u v tag b, mon (MDep m u v tag b) = true <->
  exists g, of_mapping m = Ok g /\ tag = 0 /\ (b = 1 <-> reachp g u v \/ reachp g v u).
Proof.
  intros m u v tag b. cbn [mon]. destruct (of_mapping_wf m) as [g [E W]]. rewrite E.
  rewrite andb_true_iff, Z.eqb_eq, (mon_dependent_spec g W), Z.eqb_eq.
  split; [intros [H1 H2]; exists g; auto | intros [g' [E' H]]; injection E' as <-; exact H].
Qed.

(* ------------------------------------------------------------------ longest path: the path
   enumeration reference *)
Lemma fold_max_ge : forall {A} (f : A -> Z) l a,
  a <= fold_left (fun a c => Z.max a (f c)) l a /\ forall c, In c l -> f c <= fold_left (fun a c => Z.max a (f c)) l a.
Proof.
  induction l as [|y l IH]; intro a; cbn [fold_left].
  - split; [lia | intros c []].
  - destruct (IH (Z.max a (f y))) as [H1 H2]. split; [lia|].
    intros c [<-|Hc]; [lia | apply H2; exact Hc].
Qed.
Lemma fold_max_attained : forall {A} (f : A -> Z) l a,
  fold_left (fun a c => Z.max a (f c)) l a = a \/ exists c, In c l /\ fold_left (fun a c => Z.max a (f c)) l a = f c.
Proof.
  induction l as [|y l IH]; intro a; cbn [fold_left]; [left; reflexivity|].
  destruct (IH (Z.max a (f y))) as [E|[c [Hc E]]].
  - rewrite E. destruct (Z.max_spec a (f y)) as [[_ M]|[_ M]]; rewrite M; [right; exists y; split; [left|]; reflexivity | left; reflexivity].
  - right. exists c. split; [right; exact Hc | exact E].
Qed.

Section LongMon.
Variable g : graph.
Hypothesis W : wf g.
Variable w : node -> Z.
Hypothesis Wnn : forall n, 0 <= w n.

Lemma is_path_spec : forall p, is_path g p = true <-> gpath g p.
Proof.
  induction p as [|x p IH]; cbn [is_path].
  - split; [discriminate | intro H; inversion H].
  - destruct p as [|y p].
    + rewrite has_node_In. split; [apply gpath_one | intro H; inversion H; assumption].
    + rewrite andb_true_iff, edgeb_spec, IH. split.
      * intros [E H]. apply gpath_cons; assumption.
      * intro H. inversion H; subst. auto.
Qed.
Lemma sum_w_nonneg : forall l, 0 <= sum_w w l.
Proof. induction l as [|x l IH]; cbn [sum_w fold_right]; [lia|]. unfold sum_w in IH. pose proof (Wnn x). lia. Qed.

Lemma best_from_ge : forall k x q, gpath g (x :: q) -> (length (x :: q) <= S k)%nat ->
  sum_w w (x :: q) <= best_from k w g x.
Proof.
  induction k as [|k IH]; intros x q H L.
  - destruct q; [cbn; lia | cbn [length] in L; lia].
  - cbn [best_from]. rewrite sum_w_cons. inversion H as [? Hx|? y l E Hp]; subst.
    + cbn [sum_w fold_right]. pose proof (proj1 (fold_max_ge (best_from k w g) (children_of g x) 0)). lia.
    + specialize (IH y l Hp). cbn [length] in L, IH.
      pose proof (proj2 (fold_max_ge (best_from k w g) (children_of g x) 0) y E). lia.
Qed.
Lemma best_from_attained : forall k x, In x (nodes g) ->
  exists q, gpath g (x :: q) /\ sum_w w (x :: q) = best_from k w g x.
Proof.
  induction k as [|k IH]; intros x Hx.
  - exists []. split; [apply gpath_one; exact Hx | cbn; lia].
  - cbn [best_from]. destruct (fold_max_attained (best_from k w g) (children_of g x) 0) as [E|[c [Hc E]]]; rewrite E.
    + exists []. split; [apply gpath_one; exact Hx | cbn; lia].
    + destruct (IH c (proj2 (wf_closed g W x c Hc))) as [q [Hq S]].
      exists (c :: q). split; [apply gpath_cons; assumption | rewrite sum_w_cons, S; reflexivity].
Qed.

Hypothesis A : acyclic g.
Lemma gpath_length : forall q, gpath g q -> (length q <= length (nodes g))%nat.
Proof.
  destruct (topo_acyclic_ok g W A) as [order Ho]. destruct (topo_sound g W order Ho) as [P F].
  rewrite <- (Permutation_length P).
  assert (G : forall q, gpath g q -> (index_of (hd 0%Z q) order + length q <= length order)%nat).
  { intros q H. induction H as [x Hx|x y l E H IH].
    - cbn [hd length]. pose proof (index_of_lt_length x order (Permutation_in x (Permutation_sym P) Hx)). lia.
    - cbn [hd length] in *. specialize (F x y E). lia. }
  intros q H. specialize (G q H). lia.
Qed.
Lemma best_path_weight_ge : forall q, gpath g q -> sum_w w q <= best_path_weight w g.
Proof.
  intros q H. pose proof (gpath_length q H) as L. destruct q as [|x q]; [inversion H|].
  assert (Hx : In x (nodes g)) by (apply (gpath_in g W (x :: q) x H); left; reflexivity).
  unfold best_path_weight.
  pose proof (proj2 (fold_max_ge (best_from (length (nodes g)) w g) (nodes g) 0) x Hx).
  pose proof (best_from_ge (length (nodes g)) x q H). lia.
Qed.
Lemma best_path_weight_le : forall p, gpath g p -> (forall q, gpath g q -> sum_w w q <= sum_w w p) ->
  best_path_weight w g <= sum_w w p.
Proof.
  intros p Hp M. unfold best_path_weight.
  destruct (fold_max_attained (best_from (length (nodes g)) w g) (nodes g) 0) as [E|[c [Hc E]]]; rewrite E.
  - apply sum_w_nonneg.
  - destruct (best_from_attained (length (nodes g)) c Hc) as [q [Hq S]]. rewrite <- S. apply M. exact Hq.
Qed.

(* the table-based reference computes the same number as the path enumeration *)
Lemma fold_max_ext : forall (f f' : node -> Z) l a, (forall c, In c l -> f c = f' c) ->
  fold_left (fun a c => Z.max a (f c)) l a = fold_left (fun a c => Z.max a (f' c)) l a.
Proof.
  induction l as [|y l IH]; intros a H; cbn [fold_left]; [reflexivity|].
  rewrite (H y (or_introl eq_refl)). apply IH. intros; apply H; right; assumption.
Qed.
Lemma relax_rounds_spec : forall k j d,
  d = map (fun n => (n, best_from j w g n)) (nodes g) ->
  relax_rounds k w g d = map (fun n => (n, best_from (j + k) w g n)) (nodes g).
Proof.
  induction k as [|k IH]; intros j d E; cbn [relax_rounds].
  - rewrite Nat.add_0_r. exact E.
  - replace (j + S k)%nat with (S j + k)%nat by lia. apply IH.
    apply map_ext_in. intros n Hn. f_equal. cbn [best_from]. f_equal.
    apply fold_max_ext. intros c Hc. rewrite E, lookup_init_w.
    assert (M : mem c (nodes g) = true) by (apply mem_In; apply (wf_closed g W n c Hc)).
    rewrite M. reflexivity.
Qed.
Lemma best_weight_relax_eq : best_weight_relax w g = best_path_weight w g.
Proof.
  unfold best_weight_relax, best_path_weight.
  change (map (fun n => (n, w n)) (nodes g)) with (map (fun n => (n, best_from 0 w g n)) (nodes g)).
  rewrite (relax_rounds_spec (length (nodes g)) 0 _ eq_refl). cbn [plus].
  generalize (best_from (length (nodes g)) w g). intro f. generalize 0.
  induction (nodes g) as [|y l IH]; intro a; cbn [map fold_left snd]; [reflexivity | apply IH].
Qed.

Lemma preds_nil : forall x, preds g x = [] <-> forall u, ~ edge g u x.
Proof.
  intro x. unfold preds. split.
  - intros E u Ed. assert (H : In u (filter (fun u => edgeb g u x) (nodes g))).
    { apply filter_In. split; [apply (wf_closed g W u x Ed) | apply edgeb_spec; exact Ed]. }
    rewrite E in H. destruct H.
  - intro H. destruct (filter (fun u => edgeb g u x) (nodes g)) as [|u l] eqn:E; [reflexivity|]. exfalso.
    assert (Hu : In u (filter (fun u => edgeb g u x) (nodes g))) by (rewrite E; left; reflexivity).
    apply filter_In in Hu. destruct Hu as [_ Hu]. apply edgeb_spec in Hu. exact (H u Hu).
Qed.

(* the longest-path monitor (either reference) decides the statement of C17_longest_path *)
Lemma mon_longest_enum_spec : forall enum p,
  mon_longest_by enum w g p = true <->
  gpath g p /\ (forall u, ~ edge g u (hd 0 p)) /\ (forall v, ~ edge g (last p 0) v) /\
  forall q, gpath g q -> sum_w w q <= sum_w w p.
Proof.
  intros enum p. unfold mon_longest_by.
  replace (if enum then best_path_weight w g else best_weight_relax w g) with (best_path_weight w g)
    by (destruct enum; [reflexivity | symmetry; apply best_weight_relax_eq]).
  rewrite !andb_true_iff, is_path_spec, Z.eqb_eq. split.
  - intros [[[Hp Hs] Hk] Hm]. split; [exact Hp|]. split; [|split].
    + destruct p as [|x p]; [discriminate|]. cbn [hd]. apply preds_nil. destruct (preds g x); [reflexivity | discriminate].
    + unfold edge. destruct (children_of g (last p 0)); [intros v [] | discriminate].
    + intros q Hq. rewrite Hm. apply best_path_weight_ge. exact Hq.
  - intros [Hp [Hs [Hk Hm]]]. split; [split; [split; [exact Hp|]|]|].
    + destruct p as [|x p]; [inversion Hp|]. cbn [hd] in Hs. apply preds_nil in Hs. rewrite Hs. reflexivity.
    + destruct (children_of g (last p 0)) as [|c cs] eqn:E; [reflexivity|]. exfalso. apply (Hk c). unfold edge. rewrite E. left. reflexivity.
    + pose proof (best_path_weight_ge p Hp). pose proof (best_path_weight_le p Hp Hm). lia.
Qed.
End LongMon.

(* ------------------------------------------------------------------ node depth reference *)
From Verif Require Import Proofs.GraphPDep.
Section DepthMon.
Variable g : graph.
Hypothesis W : wf g.
Variable order : list node.
Hypothesis Ho : topological_sort g = Ok order.

Lemma preds_in : forall n u, In u (preds g n) <-> edge g u n.
Proof.
  intros n u. unfold preds. rewrite filter_In, edgeb_spec. split; [tauto|].
  intro E. split; [apply (wf_closed g W u n E) | exact E].
Qed.
Lemma fold_mm_true : forall x l, fold_mm true x l = fold_left (fun a c => Z.max a (id c)) l x.
Proof. reflexivity. Qed.

Lemma depth_ref_fn : forall k n, In n (nodes g) -> (index_of n order < k)%nat ->
  depth_ref k g n = depth_fn g order true n /\ 1 <= depth_fn g order true n.
Proof.
  destruct (topo_sound g W order Ho) as [_ F].
  induction k as [|k IH]; intros n Hn Hk; [lia|].
  cbn [depth_ref]. rewrite (depth_fn_eq g W order Ho true n Hn).
  assert (IHp : forall p, edge g p n -> depth_ref k g p = depth_fn g order true p /\ 1 <= depth_fn g order true p).
  { intros p E. apply IH; [apply (wf_closed g W p n E) | specialize (F p n E); lia]. }
  set (D := depth_fn g order true) in *.
  assert (Efold : fold_left (fun a p => Z.max a (depth_ref k g p)) (preds g n) 0 =
                  fold_left (fun a p => Z.max a (D p)) (preds g n) 0).
  { assert (G : forall l a, (forall p, In p l -> depth_ref k g p = D p) ->
                  fold_left (fun a p => Z.max a (depth_ref k g p)) l a = fold_left (fun a p => Z.max a (D p)) l a).
    { induction l as [|y l IHl]; intros a H; cbn [fold_left]; [reflexivity|].
      rewrite (H y (or_introl eq_refl)). apply IHl. intros; apply H; right; assumption. }
    apply G. intros p Hp. apply IHp. apply preds_in. exact Hp. }
  rewrite Efold.
  destruct (fold_max_ge D (preds g n) 0) as [G0 G1].
  destruct (fold_max_attained D (preds g n) 0) as [Ga|[c [Hc Ga]]].
  - (* no predecessor contributes: there is none *)
    destruct (parents_of g n) as [|p ps'] eqn:Ep.
    + rewrite Ga. lia.
    + exfalso. assert (E : edge g p n) by (apply (wf_par g W); rewrite Ep; left; reflexivity).
      pose proof (G1 p (proj2 (preds_in n p) E)). pose proof (proj2 (IHp p E)). lia.
  - destruct (parents_of g n) as [|p ps'] eqn:Ep.
    + exfalso. apply preds_in in Hc. apply (wf_par g W) in Hc. rewrite Ep in Hc. destruct Hc.
    + rewrite fold_mm_true.
      destruct (fold_max_ge id (map D ps') (D p)) as [M0 M1].
      destruct (fold_max_attained id (map D ps') (D p)) as [Ma|[z [Hz Ma]]].
      * (* maximum of the parents is D p *)
        assert (Ep' : edge g p n) by (apply (wf_par g W); rewrite Ep; left; reflexivity).
        pose proof (G1 p (proj2 (preds_in n p) Ep')). pose proof (proj2 (IHp p Ep')).
        assert (D c <= D p).
        { apply preds_in in Hc. apply (wf_par g W) in Hc. rewrite Ep in Hc. destruct Hc as [<-|Hc]; [lia|].
          pose proof (M1 (D c) (in_map D _ _ Hc)). unfold id in *. lia. }
        rewrite Ga, Ma. lia.
      * unfold id in *. apply in_map_iff in Hz. destruct Hz as [q [<- Hq]].
        assert (Eq : edge g q n) by (apply (wf_par g W); rewrite Ep; right; exact Hq).
        pose proof (G1 q (proj2 (preds_in n q) Eq)). pose proof (proj2 (IHp q Eq)).
        assert (D c <= D q).
        { rewrite <- Ma. apply preds_in in Hc. apply (wf_par g W) in Hc. rewrite Ep in Hc. destruct Hc as [<-|Hc]; [lia|].
          pose proof (M1 (D c) (in_map D _ _ Hc)). unfold id in *. lia. }
        rewrite Ga, Ma. lia.
Qed.

Lemma depth_ref_spec : forall n, In n (nodes g) -> get_node_depth g n true = Ok (depth_ref (length (nodes g)) g n).
Proof.
  intros n Hn. rewrite (get_node_depth_fn g W order Ho true n Hn). f_equal. symmetry.
  apply depth_ref_fn; [exact Hn|].
  destruct (topo_sound g W order Ho) as [P _]. rewrite <- (Permutation_length P).
  apply index_of_lt_length. apply (Permutation_in n (Permutation_sym P) Hn).
Qed.
End DepthMon.

Lemma mon_MDepth_spec : forall m n d, mon (MDepth m n d) = true ->
  exists g, of_mapping m = Ok g /\ (acyclic g -> In n (nodes g) -> get_node_depth g n true = Ok d).
Proof.
  intros m n d. cbn [mon]. destruct (of_mapping_wf m) as [g [E W]]. rewrite E. intro H.
  apply Z.eqb_eq in H. exists g. split; [reflexivity|]. intros A Hn.
  destruct (topo_acyclic_ok g W A) as [order Ho]. rewrite H. apply (depth_ref_spec g W order Ho n Hn).
Qed.
Lemma mon_MLong_enum_spec : forall m wt p enum, (forall n, 0 <= w_of wt n) -> mon (MLong m wt p enum) = true ->
  exists g, of_mapping m = Ok g /\ (acyclic g ->
    gpath g p /\ (forall u, ~ edge g u (hd 0 p)) /\ (forall v, ~ edge g (last p 0) v) /\
    forall q, gpath g q -> sum_w (w_of wt) q <= sum_w (w_of wt) p).
Proof.
  intros m wt p enum Wnn. cbn [mon]. destruct (of_mapping_wf m) as [g [E W]]. rewrite E. intro H.
  exists g. split; [reflexivity|]. intro A. apply (mon_longest_enum_spec g W (w_of wt) Wnn A enum p). exact H.
Qed.

(* the critical-path monitor: the reported runtime is the maximum path weight *)
Lemma mon_MCrit_spec : forall m wt z, (forall n, 0 <= w_of wt n) -> mon (MCrit m wt z) = true ->
  exists g, of_mapping m = Ok g /\ (acyclic g -> nodes g <> [] ->
    (exists p, gpath g p /\ sum_w (w_of wt) p = z) /\ forall q, gpath g q -> sum_w (w_of wt) q <= z).
Proof.
  intros m wt z Wnn. cbn [mon]. destruct (of_mapping_wf m) as [g [E W]]. rewrite E. intro H.
  apply Z.eqb_eq in H. exists g. split; [reflexivity|]. intros A NE.
  rewrite (best_weight_relax_eq g W (w_of wt)) in H. subst z. split.
  - destruct (longest_path_max g W A NE (w_of wt) Wnn) as [p [_ [Gp M]]]. exists p. split; [exact Gp|].
    pose proof (best_path_weight_ge g W (w_of wt) A p Gp). pose proof (best_path_weight_le g W (w_of wt) Wnn p Gp M). lia.
  - apply (best_path_weight_ge g W (w_of wt) A).
Qed.
