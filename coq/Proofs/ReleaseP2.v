(* C19, part 2: the binary64 layer of Model/Release.v.  What the property needs from IEEE
   arithmetic is only this: rounding to nearest (to 53 bits, and to an integer) is MONOTONE and
   leaves representable values unchanged.  Hence adding a non-negative draw never moves a
   release backwards, and a fuzzed time stays between the integers that enclose the exact sum. *)
From Coq Require Import ZArith Bool List Lia ZifyBool.
Import ListNotations.
From Verif Require Import Model.Val Model.Release.
Open Scope Z_scope.

(* ---------- powers of two ---------- *)
Lemma pow2_pos k : 0 < 2 ^ k \/ k < 0.
Proof. destruct (Z_lt_ge_dec k 0); [right; lia|left; apply Z.pow_pos_nonneg; lia]. Qed.
Lemma pow2_gt0 k : 0 <= k -> 0 < 2 ^ k.
Proof. intros; apply Z.pow_pos_nonneg; lia. Qed.
Lemma pow2_succ k : 1 <= k -> 2 ^ k = 2 * 2 ^ (k - 1).
Proof. intros. replace k with (1 + (k - 1)) at 1 by lia. rewrite Z.pow_add_r by lia. reflexivity. Qed.
Lemma pow2_add a b : 0 <= a -> 0 <= b -> 2 ^ (a + b) = 2 ^ a * 2 ^ b.
Proof. intros; apply Z.pow_add_r; lia. Qed.

(* ---------- rne_shift ---------- *)
Lemma rne_shift_exact k a : 1 <= k -> rne_shift (a * 2 ^ k) k = a.
Proof.
  intros Hk. unfold rne_shift. pose proof (pow2_gt0 k ltac:(lia)) as Hp. pose proof (pow2_gt0 (k - 1) ltac:(lia)) as Hh.
  rewrite Z.div_mul by lia. rewrite Z.mod_mul by lia.
  destruct (0 <? 2 ^ (k - 1)) eqn:E; [reflexivity|lia].
Qed.

Lemma rne_shift_mono k m1 m2 : 1 <= k -> m1 <= m2 -> rne_shift m1 k <= rne_shift m2 k.
Proof.
  intros Hk Hm. unfold rne_shift.
  pose proof (pow2_gt0 (k - 1) ltac:(lia)) as Hh. pose proof (pow2_succ k Hk) as Hp.
  set (h := 2 ^ (k - 1)) in *. set (p := 2 ^ k) in *.
  assert (Hp0 : 0 < p) by lia.
  pose proof (Z.div_mod m1 p ltac:(lia)) as D1. pose proof (Z.div_mod m2 p ltac:(lia)) as D2.
  pose proof (Z.mod_pos_bound m1 p Hp0) as B1. pose proof (Z.mod_pos_bound m2 p Hp0) as B2.
  pose proof (Z.div_le_mono m1 m2 p Hp0 Hm) as Hq.
  set (q1 := m1 / p) in *. set (q2 := m2 / p) in *. set (r1 := m1 mod p) in *. set (r2 := m2 mod p) in *.
  destruct (Z.eq_dec q1 q2) as [Heq|Hne].
  - assert (Hr : r1 <= r2) by nia. rewrite <- Heq.
    destruct (r1 <? h) eqn:A1; destruct (r2 <? h) eqn:A2; destruct (h <? r1) eqn:C1; destruct (h <? r2) eqn:C2;
      destruct (Z.even q1); lia.
  - assert (q1 + 1 <= q2) by lia.
    destruct (r1 <? h); destruct (r2 <? h); destruct (h <? r1); destruct (h <? r2);
      destruct (Z.even q1); destruct (Z.even q2); lia.
Qed.

Lemma rne_shift_opp k m : 1 <= k -> rne_shift (- m) k = - rne_shift m k.
Proof.
  intros Hk. unfold rne_shift.
  pose proof (pow2_gt0 (k - 1) ltac:(lia)) as Hh. pose proof (pow2_succ k Hk) as Hp.
  set (h := 2 ^ (k - 1)) in *. set (p := 2 ^ k) in *. assert (Hp0 : 0 < p) by lia.
  pose proof (Z.div_mod m p ltac:(lia)) as D. pose proof (Z.mod_pos_bound m p Hp0) as B.
  set (q := m / p) in *. set (r := m mod p) in *.
  destruct (Z.eq_dec r 0) as [Hr0|Hr0].
  - assert (Hm : - m = (- q) * p) by lia. rewrite Hm, Z.div_mul, Z.mod_mul by lia. rewrite Hr0.
    destruct (0 <? h) eqn:E; lia.
  - assert (Hd : (- m) / p = - q - 1).
    { symmetry. apply Z.div_unique with (r := p - r); lia. }
    assert (Hmo : (- m) mod p = p - r).
    { symmetry. apply Z.mod_unique with (q := - q - 1); lia. }
    rewrite Hd, Hmo.
    assert (Hev : Z.even (- q - 1) = negb (Z.even q)).
    { replace (- q - 1) with (- (q + 1)) by lia. rewrite Z.even_opp, Z.even_add. destruct (Z.even q); reflexivity. }
    rewrite Hev.
    destruct (r <? h) eqn:A; destruct (h <? r) eqn:C; destruct (p - r <? h) eqn:A'; destruct (h <? p - r) eqn:C';
      destruct (Z.even q); cbn [negb]; lia.
Qed.

(* scaling numerator and shift together changes nothing *)
Lemma rne_shift_scale k j m : 1 <= k -> 0 <= j -> rne_shift (m * 2 ^ j) (k + j) = rne_shift m k.
Proof.
  intros Hk Hj. unfold rne_shift.
  pose proof (pow2_gt0 (k - 1) ltac:(lia)) as Hh. pose proof (pow2_gt0 k ltac:(lia)) as Hp.
  pose proof (pow2_gt0 j Hj) as HJ.
  rewrite (pow2_add k j) by lia. replace (k + j - 1) with ((k - 1) + j) by lia. rewrite (pow2_add (k - 1) j) by lia.
  set (J := 2 ^ j) in *. set (h := 2 ^ (k - 1)) in *. set (p := 2 ^ k) in *.
  rewrite Z.div_mul_cancel_r by lia. rewrite Z.mul_mod_distr_r by lia.
  pose proof (Z.mod_pos_bound m p Hp) as B. set (r := m mod p) in *.
  destruct (r <? h) eqn:A; destruct (r * J <? h * J) eqn:A'; try nia.
  destruct (h <? r) eqn:C; destruct (h * J <? r * J) eqn:C'; try nia; reflexivity.
Qed.

(* ---------- values at a common exponent ---------- *)
Definition sc (x : fl) (e : Z) : Z := fm x * 2 ^ (fe x - e).

Lemma sc_rescale x e e' : e' <= e -> e <= fe x -> sc x e' = sc x e * 2 ^ (e - e').
Proof.
  intros H1 H2. unfold sc. replace (fe x - e') with ((fe x - e) + (e - e')) by lia.
  rewrite pow2_add by lia. lia.
Qed.

Lemma fl_leb_at x y e : e <= fe x -> e <= fe y -> (fl_leb x y = true <-> sc x e <= sc y e).
Proof.
  intros Hx Hy. unfold fl_leb, fl_align. set (e0 := Z.min (fe x) (fe y)).
  assert (He : e <= e0) by (unfold e0; lia).
  change (fm x * 2 ^ (fe x - e0)) with (sc x e0). change (fm y * 2 ^ (fe y - e0)) with (sc y e0).
  rewrite (sc_rescale x e0 e), (sc_rescale y e0 e) by (unfold e0; lia).
  pose proof (pow2_gt0 (e0 - e) ltac:(lia)). split; intros; [nia|]. apply Z.leb_le. nia.
Qed.

Lemma fl_leb_refl x : fl_leb x x = true.
Proof. apply (fl_leb_at x x (fe x)); lia. Qed.

Lemma fl_leb_trans x y z : fl_leb x y = true -> fl_leb y z = true -> fl_leb x z = true.
Proof.
  intros H1 H2. set (e := Z.min (fe x) (Z.min (fe y) (fe z))).
  apply (fl_leb_at x y e) in H1; [|unfold e; lia|unfold e; lia].
  apply (fl_leb_at y z e) in H2; [|unfold e; lia|unfold e; lia].
  apply (fl_leb_at x z e); [unfold e; lia|unfold e; lia|lia].
Qed.

(* ---------- round53 ---------- *)
Lemma log2_big a : 2 ^ 53 <= a -> 53 <= Z.log2 a /\ 2 ^ (Z.log2 a) <= a < 2 ^ (Z.log2 a + 1).
Proof.
  intros H. assert (0 < a) by (pose proof (pow2_gt0 53 ltac:(lia)); lia).
  split; [|replace (Z.log2 a + 1) with (Z.succ (Z.log2 a)) by lia; apply Z.log2_spec; lia].
  rewrite <- (Z.log2_pow2 53) by lia. apply Z.log2_le_mono. lia.
Qed.

Lemma fe_round53 x : fe x <= fe (round53 x).
Proof.
  unfold round53. destruct (Z.abs (fm x) <? 2 ^ 53) eqn:E; [lia|]. cbn [fe].
  destruct (log2_big (Z.abs (fm x)) ltac:(lia)) as [H _]. lia.
Qed.

(* the value of a rounded number, read at the exponent of the unrounded one *)
Lemma sc_round53 S e :
  sc (round53 (mkF S e)) e =
  if Z.abs S <? 2 ^ 53 then S else rne_shift S (Z.log2 (Z.abs S) - 52) * 2 ^ (Z.log2 (Z.abs S) - 52).
Proof.
  unfold round53, sc. cbn [fm fe]. destruct (Z.abs S <? 2 ^ 53) eqn:E; cbn [fm fe].
  - rewrite Z.sub_diag. cbn. lia.
  - replace (e + (Z.log2 (Z.abs S) - 52) - e) with (Z.log2 (Z.abs S) - 52) by lia. reflexivity.
Qed.

(* a lower bound a*2^j with |a| <= 2^53 (a representable number) survives rounding *)
Lemma round53_ge S e a j :
  0 <= j -> Z.abs a <= 2 ^ 53 -> a * 2 ^ j <= S -> a * 2 ^ j <= sc (round53 (mkF S e)) e.
Proof.
  intros Hj Ha HA. rewrite sc_round53. destruct (Z.abs S <? 2 ^ 53) eqn:E; [exact HA|].
  destruct (log2_big (Z.abs S) ltac:(lia)) as [HL [Hlo Hhi]].
  set (L := Z.log2 (Z.abs S)) in *. set (k := L - 52).
  assert (Hk : 1 <= k) by (unfold k; lia).
  pose proof (pow2_gt0 k ltac:(lia)) as HP. pose proof (pow2_gt0 j Hj) as HJ.
  assert (E52 : 2 ^ L = 2 ^ 52 * 2 ^ k) by (unfold k; rewrite <- pow2_add by lia; f_equal; lia).
  assert (E53 : 2 ^ (L + 1) = 2 ^ 53 * 2 ^ k) by (unfold k; rewrite <- pow2_add by lia; f_equal; lia).
  set (P := 2 ^ k) in *. set (Q := rne_shift S k).
  (* every multiple c*P below S gives c <= Q *)
  assert (Hmult : forall c, c * P <= S -> c <= Q).
  { intros c Hc. unfold Q. rewrite <- (rne_shift_exact k c Hk). apply rne_shift_mono; [exact Hk|exact Hc]. }
  (* if j >= k then a*2^j is such a multiple *)
  assert (Hdiv : k <= j -> a * 2 ^ j <= Q * P).
  { intros Hkj. replace j with ((j - k) + k) in * by lia. rewrite pow2_add in * by lia. fold P in HA |- *.
    assert (a * 2 ^ (j - k) <= Q) by (apply Hmult; lia). nia. }
  (* if j <= k-1 then |a*2^j| <= 2^52 * P *)
  assert (Hsmall : j <= k - 1 -> Z.abs (a * 2 ^ j) <= 2 ^ 52 * P).
  { intros Hjk. assert (2 ^ j <= 2 ^ (k - 1)) by (apply Z.pow_le_mono_r; lia).
    pose proof (pow2_succ k Hk) as Hs. fold P in Hs. rewrite Z.abs_mul, (Z.abs_eq (2 ^ j)) by lia.
    pose proof (pow2_gt0 (k - 1) ltac:(lia)). change (2 ^ 53) with (2 * 2 ^ 52) in Ha. nia. }
  destruct (Z_le_gt_dec 0 S) as [Hpos|Hneg].
  - (* S >= 2^L = 2^52 * P *)
    rewrite Z.abs_eq in Hlo, Hhi by lia.
    assert (H52 : 2 ^ 52 <= Q) by (apply Hmult; lia).
    destruct (Z_le_gt_dec (a * 2 ^ j) (2 ^ 52 * P)) as [Hle|Hgt]; [nia|].
    destruct (Z_le_gt_dec k j) as [Hkj|Hjk]; [apply Hdiv; exact Hkj|].
    specialize (Hsmall ltac:(lia)). lia.
  - (* S <= -2^52 * P,  S > -2^53 * P *)
    rewrite Z.abs_neq in Hlo, Hhi by lia.
    assert (H53 : - 2 ^ 53 <= Q) by (apply Hmult; lia).
    destruct (Z_le_gt_dec (a * 2 ^ j) (- 2 ^ 53 * P)) as [Hle|Hgt]; [nia|].
    destruct (Z_le_gt_dec k j) as [Hkj|Hjk]; [apply Hdiv; exact Hkj|].
    specialize (Hsmall ltac:(lia)).
    assert (Heq : a * 2 ^ j = (- 2 ^ 52) * P) by lia.
    assert (- 2 ^ 52 <= Q) by (apply Hmult; lia). nia.
Qed.

Lemma round53_neg S e : round53 (mkF (- S) e) = fl_neg (round53 (mkF S e)).
Proof.
  unfold round53, fl_neg. cbn [fm fe]. rewrite Z.abs_opp.
  destruct (Z.abs S <? 2 ^ 53) eqn:E; [reflexivity|].
  destruct (log2_big (Z.abs S) ltac:(lia)) as [HL _]. cbn [fm fe].
  rewrite rne_shift_opp by lia. reflexivity.
Qed.

Lemma sc_neg x e : sc (fl_neg x) e = - sc x e.
Proof. unfold sc, fl_neg; cbn [fm fe]. lia. Qed.

Lemma round53_le S e a j :
  0 <= j -> Z.abs a <= 2 ^ 53 -> S <= a * 2 ^ j -> sc (round53 (mkF S e)) e <= a * 2 ^ j.
Proof.
  intros Hj Ha HA. pose proof (round53_ge (- S) e (- a) j Hj ltac:(rewrite Z.abs_opp; exact Ha) ltac:(lia)) as H.
  rewrite round53_neg, sc_neg in H. lia.
Qed.

(* the result of a rounding is itself representable *)
Lemma round53_repr x : Z.abs (fm (round53 x)) <= 2 ^ 53.
Proof.
  destruct x as [S e]. unfold round53. cbn [fm fe]. destruct (Z.abs S <? 2 ^ 53) eqn:E; cbn [fm]; [lia|].
  destruct (log2_big (Z.abs S) ltac:(lia)) as [HL [Hlo Hhi]].
  set (L := Z.log2 (Z.abs S)) in *. set (k := L - 52). assert (Hk : 1 <= k) by (unfold k; lia).
  pose proof (pow2_gt0 k ltac:(lia)) as HP.
  assert (E53 : 2 ^ (L + 1) = 2 ^ 53 * 2 ^ k) by (unfold k; rewrite <- pow2_add by lia; f_equal; lia).
  assert (Hup : rne_shift S k <= 2 ^ 53).
  { rewrite <- (rne_shift_exact k (2 ^ 53) Hk). apply rne_shift_mono; lia. }
  assert (Hdn : - 2 ^ 53 <= rne_shift S k).
  { rewrite <- (rne_shift_exact k (- 2 ^ 53) Hk). apply rne_shift_mono; lia. }
  lia.
Qed.

(* ---------- addition of a non-negative number never decreases a float ---------- *)
Lemma fl_add_nonneg_ge cur d :
  Z.abs (fm cur) <= 2 ^ 53 -> 0 <= fm d -> fl_leb cur (fl_add cur d) = true.
Proof.
  intros Hc Hd. unfold fl_add, fl_align. set (e0 := Z.min (fe cur) (fe d)).
  set (S := fm cur * 2 ^ (fe cur - e0) + fm d * 2 ^ (fe d - e0)).
  apply (fl_leb_at cur (round53 (mkF S e0)) e0); [unfold e0; lia| |].
  - pose proof (fe_round53 (mkF S e0)). cbn [fe] in H. lia.
  - unfold sc at 1. apply round53_ge; [unfold e0; lia|exact Hc|].
    unfold S. pose proof (pow2_gt0 (fe d - e0) ltac:(unfold e0; lia)). nia.
Qed.

(* ---------- round() is monotone and exact on integers ---------- *)
Lemma py_round_at x K : 1 <= K -> - fe x <= K -> py_round x = rne_shift (sc x (- K)) K.
Proof.
  intros HK Hx. unfold py_round, sc. destruct (0 <=? fe x) eqn:E.
  - replace (fe x - - K) with (fe x + K) by lia. rewrite pow2_add by lia.
    rewrite Z.mul_assoc. rewrite rne_shift_exact by lia. reflexivity.
  - replace K with ((- fe x) + (K + fe x)) at 2 by lia. replace (fe x - - K) with (K + fe x) by lia.
    rewrite rne_shift_scale by lia. reflexivity.
Qed.

Lemma py_round_mono x y : fl_leb x y = true -> py_round x <= py_round y.
Proof.
  intros H. set (K := Z.max 1 (Z.max (- fe x) (- fe y))).
  rewrite (py_round_at x K), (py_round_at y K) by (unfold K; lia).
  apply rne_shift_mono; [unfold K; lia|]. apply (fl_leb_at x y (- K)); [unfold K; lia|unfold K; lia|exact H].
Qed.

Lemma py_round_int z : py_round (mkF z 0) = z.
Proof. unfold py_round; cbn. lia. Qed.

Lemma fl_of_Z_small z : Z.abs z < 2 ^ 53 -> fl_of_Z z = mkF z 0.
Proof. intros H. unfold fl_of_Z, round53. cbn [fm]. destruct (Z.abs z <? 2 ^ 53) eqn:E; [reflexivity|lia]. Qed.

(* integers that enclose an exact sum still enclose its rounded value *)
Lemma round_sandwich S e lo hi :
  e <= 0 -> Z.abs lo <= 2 ^ 53 -> Z.abs hi <= 2 ^ 53 ->
  lo * 2 ^ (- e) <= S <= hi * 2 ^ (- e) ->
  lo <= py_round (round53 (mkF S e)) <= hi.
Proof.
  intros He Hlo Hhi [H1 H2].
  pose proof (fe_round53 (mkF S e)) as Hfe. cbn [fe] in Hfe.
  split.
  - rewrite <- (py_round_int lo). apply py_round_mono.
    apply (fl_leb_at (mkF lo 0) (round53 (mkF S e)) e); [cbn; lia|lia|].
    unfold sc at 1. cbn [fm fe]. replace (0 - e) with (- e) by lia. apply round53_ge; [lia|exact Hlo|exact H1].
  - rewrite <- (py_round_int hi). apply py_round_mono.
    apply (fl_leb_at (round53 (mkF S e)) (mkF hi 0) e); [lia|cbn; lia|].
    unfold sc at 2. cbn [fm fe]. replace (0 - e) with (- e) by lia. apply round53_le; [lia|exact Hhi|exact H2].
Qed.
