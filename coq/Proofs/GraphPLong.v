(* C17, get_longest_path: on a non-empty DAG with non-negative weights the result is a real
   path of the graph whose total weight is the maximum over all paths; with positive weights it
   starts at a source and ends at a sink.  critical_path (the weights summed over that path)
   is therefore the maximum path weight. *)
From Coq Require Import ZArith Bool List Lia ZifyBool Permutation.
Import ListNotations.
From Verif Require Import Model.Val Model.Graph Proofs.GraphPBase Proofs.GraphPTopo.
Open Scope Z_scope.

(* paths of the graph: non-empty lists of nodes joined by edges *)
Inductive gpath (g : graph) : list node -> Prop :=
| gpath_one : forall x, In x (nodes g) -> gpath g [x]
| gpath_cons : forall x y l, edge g x y -> gpath g (y :: l) -> gpath g (x :: y :: l).

Lemma sum_w_app : forall w a b, sum_w w (a ++ b) = sum_w w a + sum_w w b.
Proof. intros w a b. unfold sum_w. induction a as [|x a IH]; cbn [app fold_right]; [lia | rewrite IH; lia]. Qed.
Lemma sum_w_rev : forall w l, sum_w w (rev l) = sum_w w l.
Proof.
  induction l as [|x l IH]; [reflexivity|]. cbn [rev]. rewrite sum_w_app, IH. unfold sum_w. cbn [fold_right]. lia.
Qed.
Lemma sum_w_cons : forall w x l, sum_w w (x :: l) = w x + sum_w w l.
Proof. reflexivity. Qed.

Lemma lookup_init_w : forall (w : node -> Z) ns v,
  lookup v (map (fun n => (n, w n)) ns) = if mem v ns then Some (w v) else None.
Proof.
  induction ns as [|y ns IH]; intro v; cbn [map lookup mem]; [reflexivity|].
  destruct (Z.eqb_spec v y); [subst; reflexivity | apply IH].
Qed.
Lemma keys_init_w : forall (w : node -> Z) (ns : list node), map fst (map (fun n => (n, w n)) ns) = ns.
Proof. induction ns as [|y ns IH]; cbn [map fst]; [reflexivity | rewrite IH; reflexivity]. Qed.

Lemma lookup_in_pair : forall {A} k (a : list (node * A)) v, lookup k a = Some v -> In (k, v) a.
Proof.
  induction a as [|[k' v'] a IH]; intros v H; cbn [lookup] in H; [discriminate|].
  destruct (Z.eqb_spec k k'); [left; congruence | right; auto].
Qed.
Lemma in_pair_lookup : forall {A} k (a : list (node * A)) v, NoDup (map fst a) -> In (k, v) a -> lookup k a = Some v.
Proof.
  induction a as [|[k' v'] a IH]; intros v N H; [destruct H|].
  cbn [map fst] in N. inversion N as [|? ? Nk Na]; subst. cbn [lookup]. destruct H as [H|H].
  - injection H as -> ->. rewrite Z.eqb_refl. reflexivity.
  - destruct (Z.eqb_spec k k') as [E|E]; [|auto].
    subst k'. exfalso. apply Nk. change k with (fst (k, v)). apply in_map. exact H.
Qed.

Lemma first_max_spec : forall l best s m, first_max best l = (s, m) ->
  In (s, m) (best :: l) /\ forall k x, In (k, x) (best :: l) -> x <= m.
Proof.
  induction l as [|y l IH]; intros best s m H; cbn [first_max] in H.
  - subst best. split; [left; reflexivity|]. intros k x [E|[]]. injection E as _ <-. lia.
  - destruct (snd y >? snd best) eqn:G.
    + destruct (IH y s m H) as [I M]. split; [right; exact I|].
      intros k x [E|Hx]; [|apply (M k x Hx)]. subst best. cbn [snd] in G.
      pose proof (M (fst y) (snd y)) as M1. rewrite <- surjective_pairing in M1. specialize (M1 (or_introl eq_refl)). lia.
    + destruct (IH best s m H) as [I M]. split; [destruct I as [I|I]; [left; exact I | right; right; exact I]|].
      intros k x [E|[E|Hx]].
      * apply (M k x). left. exact E.
      * subst y. cbn [snd] in G. pose proof (M (fst best) (snd best)) as M1. rewrite <- surjective_pairing in M1.
        specialize (M1 (or_introl eq_refl)). lia.
      * apply (M k x). right. exact Hx.
Qed.

Lemma index_of_lt_length : forall x l, In x l -> (index_of x l < length l)%nat.
Proof.
  induction l as [|y l IH]; intro H; [destruct H|]. cbn [index_of length].
  destruct (Z.eqb_spec x y); [lia|]. destruct H as [H|H]; [congruence|]. specialize (IH H). lia.
Qed.
Lemma index_in_prefix_lt : forall x pre rest, In x pre -> (index_of x (pre ++ rest) < length pre)%nat.
Proof.
  induction pre as [|y pre IH]; intros rest H; [destruct H|]. cbn [app index_of length].
  destruct (Z.eqb_spec x y); [lia|]. destruct H as [H|H]; [congruence|]. specialize (IH rest H). lia.
Qed.

Section Long.
Variable g : graph.
Hypothesis W : wf g.
Variable w : node -> Z.
Hypothesis Wnn : forall n, 0 <= w n.

(* U: nodes whose longest_path_length is final; R: edges already relaxed *)
Record GInv (U : node -> Prop) (R : node -> node -> Prop) (st : lp_state) : Prop := mkGInv {
  GK : map fst (fst st) = nodes g;
  GC : forall v x, lookup v (fst st) = Some x -> w v <= x;
  GA : forall v x, lookup v (fst st) = Some x ->
         x = w v \/ exists u xu, lookup v (snd st) = Some u /\ U u /\ edge g u v /\
                                 lookup u (fst st) = Some xu /\ x = xu + w v;
  GB : forall u v xu xv, R u v -> lookup u (fst st) = Some xu -> lookup v (fst st) = Some xv -> xu + w v <= xv
}.

Lemma GInv_weaken : forall (U U' : node -> Prop) (R R' : node -> node -> Prop) st,
  (forall u, U u -> U' u) -> (forall u v, R' u v -> R u v) -> GInv U R st -> GInv U' R' st.
Proof.
  intros U U' R R' st HU HR [K C A B]. constructor; auto.
  - intros v x Hv. destruct (A v x Hv) as [E|[u [xu [H1 [H2 [H3 [H4 H5]]]]]]]; [left; exact E|].
    right. exists u, xu. auto 6.
  - intros u v xu xv Hr. apply B. apply HR. exact Hr.
Qed.

Lemma relax_step : forall (U : node -> Prop) (R : node -> node -> Prop) n c st,
  GInv U R st -> (forall u v, R u v -> U u) -> U n -> ~ U c ->
  In n (nodes g) -> In c (nodes g) -> edge g n c ->
  exists st', lp_relax w n (Ok st) c = Ok st' /\ GInv U (fun u v => R u v \/ (u = n /\ v = c)) st'.
Proof.
  intros U R n c st [K C A B] HR Un Uc Hn Hc E.
  assert (Nc : n <> c) by (intro H; subst; contradiction).
  unfold lp_relax. cbn [bind].
  destruct (lookup_in_some c (fst st)) as [lc Lc]; [rewrite K; exact Hc|].
  destruct (lookup_in_some n (fst st)) as [ln Ln]; [rewrite K; exact Hn|].
  rewrite Lc, Ln. destruct (lc <=? ln + w c) eqn:Cond.
  - eexists. split; [reflexivity|]. constructor; cbn [fst snd].
    + rewrite keys_set_key_in; [exact K | rewrite K; exact Hc].
    + intros v x. rewrite lookup_set_key. destruct (Z.eqb_spec v c) as [Ev|Ev].
      * intro H. injection H as <-. subst v. pose proof (C n ln Ln). pose proof (Wnn n). lia.
      * apply C.
    + intros v x. rewrite !lookup_set_key. destruct (Z.eqb_spec v c) as [Ev|Ev].
      * intro H. injection H as <-. subst v. right. exists n, ln.
        rewrite lookup_set_key. destruct (Z.eqb_spec n c); [contradiction|]. auto 6.
      * intro H. destruct (A v x H) as [E1|[u [xu [H1 [H2 [H3 [H4 H5]]]]]]]; [left; exact E1|].
        right. exists u, xu. rewrite lookup_set_key. destruct (Z.eqb_spec u c) as [Eu|Eu]; [subst; contradiction|]. auto 6.
    + intros u v xu xv Hr. rewrite !lookup_set_key.
      assert (Uu : U u) by (destruct Hr as [Hr|[-> _]]; [eapply HR; exact Hr | exact Un]).
      destruct (Z.eqb_spec u c) as [Eu|Eu]; [subst; contradiction|].
      destruct (Z.eqb_spec v c) as [Ev|Ev].
      * intros Hu Hv. injection Hv as <-. subst v. destruct Hr as [Hr|[-> _]].
        -- pose proof (B u c xu lc Hr Hu Lc). lia.
        -- rewrite Ln in Hu. injection Hu as <-. lia.
      * intros Hu Hv. destruct Hr as [Hr|[_ ->]]; [eapply B; eassumption | contradiction].
  - exists st. split; [reflexivity|]. constructor; auto.
    intros u v xu xv [Hr|[-> ->]] Hu Hv; [eapply B; eassumption|].
    rewrite Ln in Hu. rewrite Lc in Hv. injection Hu as <-. injection Hv as <-. lia.
Qed.

Lemma relax_children : forall cs (U : node -> Prop) (R : node -> node -> Prop) n st,
  GInv U R st -> (forall u v, R u v -> U u) -> U n -> In n (nodes g) ->
  (forall c, In c cs -> ~ U c /\ In c (nodes g) /\ edge g n c) ->
  exists st', fold_left (lp_relax w n) cs (Ok st) = Ok st' /\
              GInv U (fun u v => R u v \/ (u = n /\ In v cs)) st'.
Proof.
  induction cs as [|c cs IH]; intros U R n st G HR Un Hn Hcs; cbn [fold_left].
  - exists st. split; [reflexivity|]. eapply GInv_weaken; [| |exact G]; [auto | intros u v [H|[_ []]]; exact H].
  - destruct (Hcs c (or_introl eq_refl)) as [Uc [Hc E]].
    destruct (relax_step U R n c st G HR Un Uc Hn Hc E) as [st1 [R1 G1]]. rewrite R1.
    destruct (IH U (fun u v => R u v \/ (u = n /\ v = c)) n st1 G1) as [st' [R' G']].
    + intros u v [H|[-> _]]; [eapply HR; exact H | exact Un].
    + exact Un.
    + exact Hn.
    + intros; apply Hcs; right; assumption.
    + exists st'. split; [exact R'|]. eapply GInv_weaken; [| |exact G']; [auto|].
      intros u v [H|[-> [->|H]]]; auto.
Qed.

Variable order : list node.
Hypothesis Horder : topological_sort g = Ok order.

Let Hperm : Permutation order (nodes g) := proj1 (topo_sound g W order Horder).
Let Hfwd := proj2 (topo_sound g W order Horder).
Lemma lorder_nodup : NoDup order.
Proof. eapply Permutation_NoDup; [apply Permutation_sym; exact Hperm | apply (wf_nodup g W)]. Qed.
Lemma lorder_in : forall x, In x order <-> In x (nodes g).
Proof. intro x. split; apply Permutation_in; [exact Hperm | apply Permutation_sym; exact Hperm]. Qed.

Lemma lp_fold : forall post pre st, order = pre ++ post ->
  GInv (fun u => In u pre) (fun u v => In u pre /\ edge g u v) st ->
  exists st', fold_left (lp_node w g) post (Ok st) = Ok st' /\
              GInv (fun u => In u order) (fun u v => In u order /\ edge g u v) st'.
Proof.
  induction post as [|n q IH]; intros pre st E G; cbn [fold_left].
  - rewrite app_nil_r in E. subst pre. exists st. auto.
  - assert (Hn : In n (nodes g)) by (apply lorder_in; rewrite E; apply in_or_app; right; left; reflexivity).
    pose proof lorder_nodup as N. rewrite E in N.
    assert (Nn : ~ In n pre) by (eapply NoDup_app_notin; [exact N | left; reflexivity]).
    unfold lp_node at 2. cbn [bind]. rewrite (get_children_ok g n Hn). cbn [bind].
    destruct (relax_children (children_of g n) (fun u => In u (pre ++ [n])) (fun u v => In u pre /\ edge g u v) n st) as [st1 [R1 G1]].
    + eapply GInv_weaken; [| |exact G]; [intros u H; apply in_or_app; left; exact H | auto].
    + intros u v [H _]. apply in_or_app. left. exact H.
    + apply in_or_app. right. left. reflexivity.
    + exact Hn.
    + intros c Hc. split; [|split; [apply (wf_closed g W n c Hc) | exact Hc]].
      intro H. pose proof (Hfwd n c Hc) as L. rewrite E in L.
      rewrite (index_of_app_notin n pre _ Nn), index_of_head in L.
      apply in_app_or in H. destruct H as [H|[H|[]]].
      * pose proof (index_in_prefix_lt c pre (n :: q) H). lia.
      * subst c. rewrite (index_of_app_notin n pre _ Nn), index_of_head in L. lia.
    + rewrite R1. apply (IH (pre ++ [n]) st1).
      * rewrite E, <- app_assoc. reflexivity.
      * eapply GInv_weaken; [| |exact G1]; [auto|].
        intros u v [H Ed]. apply in_app_or in H. destruct H as [H|[H|[]]]; [left; auto | right; subst; auto].
Qed.

Lemma GInv_init : GInv (fun _ => False) (fun u v => In u [] /\ edge g u v) (map (fun n => (n, w n)) (nodes g), []).
Proof.
  constructor; cbn [fst snd].
  - apply keys_init_w.
  - intros v x. rewrite lookup_init_w. destruct (mem v (nodes g)); [|discriminate]. intro H. injection H as <-. lia.
  - intros v x. rewrite lookup_init_w. destruct (mem v (nodes g)); [|discriminate]. intro H. injection H as <-. left. reflexivity.
  - intros u v xu xv [[] _].
Qed.

(* the state after the DP *)
Variable st : lp_state.
Hypothesis Hst : GInv (fun u => In u order) (fun u v => In u order /\ edge g u v) st.

Definition LZ (v : node) : Z := match lookup v (fst st) with Some x => x | None => 0 end.
Lemma LZ_lookup : forall v, In v (nodes g) -> lookup v (fst st) = Some (LZ v).
Proof.
  intros v Hv. unfold LZ. destruct (lookup_in_some v (fst st)) as [x Hx]; [rewrite (GK _ _ _ Hst); exact Hv|].
  rewrite Hx. reflexivity.
Qed.
Lemma LZ_ge_w : forall v, In v (nodes g) -> w v <= LZ v.
Proof. intros v Hv. apply (GC _ _ _ Hst v). apply LZ_lookup. exact Hv. Qed.
Lemma LZ_edge : forall u v, edge g u v -> LZ u + w v <= LZ v.
Proof.
  intros u v E. destruct (wf_closed g W u v E) as [Hu Hv].
  apply (GB _ _ _ Hst u v); [split; [apply lorder_in; exact Hu | exact E] | apply LZ_lookup; exact Hu | apply LZ_lookup; exact Hv].
Qed.
Lemma LZ_pred : forall v, In v (nodes g) -> LZ v = w v \/
  exists u, lookup v (snd st) = Some u /\ edge g u v /\ LZ v = LZ u + w v.
Proof.
  intros v Hv. destruct (GA _ _ _ Hst v (LZ v) (LZ_lookup v Hv)) as [E|[u [xu [H1 [H2 [H3 [H4 H5]]]]]]]; [left; exact E|].
  right. exists u. split; [exact H1|]. split; [exact H3|].
  rewrite (LZ_lookup u) in H4 by (apply (wf_closed g W u v H3)). injection H4 as <-. exact H5.
Qed.

Lemma gpath_in : forall p x, gpath g p -> In x p -> In x (nodes g).
Proof.
  intros p x H. induction H as [y Hy|y z l E _ IH]; intros [Hx|Hx]; subst; auto; try (destruct Hx).
  apply (wf_closed g W x z E).
Qed.
(* every path ending in v weighs at most LZ v *)
Lemma path_bound : forall q, gpath g q -> LZ (hd 0 q) - w (hd 0 q) + sum_w w q <= LZ (last q 0).
Proof.
  intros q H. induction H as [x Hx|x y l E H IH].
  - cbn [hd last sum_w fold_right]. lia.
  - rewrite sum_w_cons. change (hd 0 (x :: y :: l)) with x. change (last (x :: y :: l) 0) with (last (y :: l) 0).
    change (hd 0 (y :: l)) with y in IH. pose proof (LZ_edge x y E). lia.
Qed.

Variable s : node.
Hypothesis Hs : In s (nodes g).
Hypothesis Hmax : forall v, In v (nodes g) -> LZ v <= LZ s.

Lemma path_le_max : forall q, gpath g q -> sum_w w q <= LZ s.
Proof.
  intros q H. pose proof (path_bound q H) as B.
  assert (Hh : In (hd 0 q) (nodes g)) by (apply (gpath_in q _ H); destruct H; left; reflexivity).
  assert (Hl : In (last q 0) (nodes g)).
  { apply (gpath_in q _ H). clear B Hh. induction H as [x Hx|x y l E H IH]; [left; reflexivity|].
    right. exact IH. }
  pose proof (LZ_ge_w _ Hh). pose proof (Hmax _ Hl). lia.
Qed.

Lemma lp_back_spec : forall fuel cur cum path tl,
  In cur (nodes g) -> (index_of cur order < fuel)%nat -> cum = LZ cur - w cur ->
  rev path = cur :: tl -> gpath g (rev path) -> last (rev path) 0 = s -> sum_w w path + cum = LZ s ->
  exists p, lp_back fuel w (snd st) cur cum path = Ok p /\ gpath g p /\ last p 0 = s /\
            sum_w w p = LZ s /\ LZ (hd 0 p) = w (hd 0 p).
Proof.
  induction fuel as [|f IH]; intros cur cum path tl Hc Hf Ec Er Hp Hl Hsum; [lia|].
  cbn [lp_back]. destruct (cum >? 0) eqn:G.
  - destruct (LZ_pred cur Hc) as [E|[u [Hu [Ed Eq]]]]; [lia|].
    rewrite Hu. apply (IH u (cum - w u) (path ++ [u]) (cur :: tl)).
    + apply (wf_closed g W u cur Ed).
    + pose proof (Hfwd u cur Ed). lia.
    + lia.
    + rewrite rev_app_distr. cbn [rev app]. rewrite Er. reflexivity.
    + rewrite rev_app_distr. cbn [rev app]. rewrite Er. apply gpath_cons; [exact Ed | rewrite <- Er; exact Hp].
    + rewrite rev_app_distr. cbn [rev app]. rewrite Er. rewrite Er in Hl. exact Hl.
    + rewrite sum_w_app. cbn [sum_w fold_right]. lia.
  - exists (rev path). split; [reflexivity|]. split; [exact Hp|]. split; [exact Hl|].
    split; [rewrite sum_w_rev; pose proof (LZ_ge_w cur Hc); lia|].
    rewrite Er. cbn [hd]. pose proof (LZ_ge_w cur Hc). lia.
Qed.
End Long.

(* ------------------------------------------------------------------ the theorems *)
Section LongMain.
Variable g : graph.
Hypothesis W : wf g.
Hypothesis A : acyclic g.
Hypothesis NE : nodes g <> [].
Variable w : node -> Z.

Lemma longest_path_core : (forall n, 0 <= w n) ->
  exists p st s, longest_path_w w g = Ok p /\ gpath g p /\ last p 0 = s /\ In s (nodes g) /\
    sum_w w p = LZ st s /\ LZ st (hd 0 p) = w (hd 0 p) /\
    (forall v, In v (nodes g) -> LZ st v <= LZ st s) /\
    (forall u v, edge g u v -> LZ st u + w v <= LZ st v) /\
    (forall v, In v (nodes g) -> w v <= LZ st v) /\
    (forall q, gpath g q -> sum_w w q <= LZ st s).
Proof.
  intros Wnn. destruct (topo_acyclic_ok g W A) as [order Ho].
  destruct (lp_fold g W w Wnn order Ho order [] (map (fun n => (n, w n)) (nodes g), [])) as [st [R G]].
  - reflexivity.
  - eapply GInv_weaken; [| |apply GInv_init]; [intros u [] | auto].
  -     pose proof (GK g w _ _ _ G) as K.
    destruct (fst st) as [|x l] eqn:Efst; [cbn [map] in K; symmetry in K; contradiction|].
    destruct (first_max x l) as [s m] eqn:Fm.
    destruct (first_max_spec l x s m Fm) as [I M].
    assert (Nk : NoDup (map fst (fst st))) by (rewrite Efst, K; apply (wf_nodup g W)).
    assert (Ls : lookup s (fst st) = Some m) by (apply in_pair_lookup; [exact Nk | rewrite Efst; exact I]).
    assert (Hs : In s (nodes g)) by (rewrite <- K, <- Efst; eapply lookup_some_in; exact Ls).
    assert (Em : m = LZ st s) by (unfold LZ; rewrite Ls; reflexivity).
    assert (Hmax : forall v, In v (nodes g) -> LZ st v <= LZ st s).
    { intros v Hv. rewrite <- Em. pose proof (LZ_lookup g w order st G v Hv) as Lv.
      apply lookup_in_pair in Lv. rewrite Efst in Lv. apply (M v _ Lv). }
    destruct (lp_back_spec g W w order Ho st G s (S (length (nodes g))) s (m - w s) [s] []) as [p [Rp [Gp [Lp [Sp Hp]]]]].
    + exact Hs.
    + pose proof (index_of_lt_length s order (proj2 (lorder_in g W order Ho s) Hs)).
      pose proof (Permutation_length (proj1 (topo_sound g W order Ho))). lia.
    + lia.
    + reflexivity.
    + cbn [rev app]. apply gpath_one. exact Hs.
    + reflexivity.
    + cbn [sum_w fold_right]. lia.
    + exists p, st, s. split. { unfold longest_path_w; rewrite Ho; cbn [bind]. rewrite R; cbn [bind]; rewrite Efst, Fm; exact Rp. } split; [exact Gp|]. split; [exact Lp|]. split; [exact Hs|].
      split; [exact Sp|]. split; [exact Hp|]. split; [exact Hmax|].
      split; [apply (LZ_edge g W w order Ho st G)|]. split; [apply (LZ_ge_w g w order st G)|].
      apply (path_le_max g W w order Ho st G s Hmax).
Qed.

(* non-negative weights: a real path of maximum weight *)
Lemma longest_path_max : (forall n, 0 <= w n) ->
  exists p, longest_path_w w g = Ok p /\ gpath g p /\ forall q, gpath g q -> sum_w w q <= sum_w w p.
Proof.
  intros Wnn. destruct (longest_path_core Wnn) as [p [st [s [R [Gp [_ [_ [Sp [_ [_ [_ [_ B]]]]]]]]]]]].
  exists p. split; [exact R|]. split; [exact Gp|]. intros q Hq. rewrite Sp. apply B. exact Hq.
Qed.

(* positive weights: additionally from a source to a sink *)
Lemma longest_path_pos : (forall n, 0 < w n) ->
  exists p, longest_path_w w g = Ok p /\ gpath g p /\
    parents_of g (hd 0 p) = [] /\ children_of g (last p 0) = [] /\
    forall q, gpath g q -> sum_w w q <= sum_w w p.
Proof.
  intros Wp. assert (Wnn : forall n, 0 <= w n) by (intro n; specialize (Wp n); lia).
  destruct (longest_path_core Wnn) as [p [st [s [R [Gp [Lp [Hs [Sp [Hp [Hmax [He [Hw B]]]]]]]]]]]].
  exists p. split; [exact R|]. split; [exact Gp|]. split; [|split].
  - destruct (parents_of g (hd 0 p)) as [|u ps] eqn:Ep; [reflexivity|]. exfalso.
    assert (E : edge g u (hd 0 p)) by (apply (wf_par g W); rewrite Ep; left; reflexivity).
    pose proof (He _ _ E). pose proof (Hw u (proj1 (wf_closed g W _ _ E))). pose proof (Wp u). lia.
  - rewrite Lp. destruct (children_of g s) as [|c cs] eqn:Ec; [reflexivity|]. exfalso.
    assert (E : edge g s c) by (unfold edge; rewrite Ec; left; reflexivity).
    pose proof (He _ _ E). pose proof (Hmax c (proj2 (wf_closed g W _ _ E))). pose proof (Wp c). lia.
  - intros q Hq. rewrite Sp. apply B. exact Hq.
Qed.

(* the critical-path runtime is the maximum path weight *)
Lemma critical_path_max : (forall n, 0 <= w n) ->
  exists z, critical_path w g = Ok z /\ (exists p, gpath g p /\ sum_w w p = z) /\
            forall q, gpath g q -> sum_w w q <= z.
Proof.
  intros Wnn. destruct (longest_path_max Wnn) as [p [R [Gp B]]].
  exists (sum_w w p). unfold critical_path. rewrite R. cbn [bind]. split; [reflexivity|]. split; [eauto | exact B].
Qed.
End LongMain.

(* weights=None *)
Lemma default_weight_pos : forall g n, 0 < default_weight g n.
Proof. intros g n. unfold default_weight. destruct (parents_of g n); lia. Qed.
Lemma longest_path_default : forall g, wf g -> acyclic g -> nodes g <> [] ->
  exists p, get_longest_path g None = Ok p /\ gpath g p /\
    parents_of g (hd 0 p) = [] /\ children_of g (last p 0) = [] /\
    forall q, gpath g q -> sum_w (default_weight g) q <= sum_w (default_weight g) p.
Proof. intros g W A NE. unfold get_longest_path. apply longest_path_pos; auto. apply default_weight_pos. Qed.

(* errors *)
Lemma longest_path_cyclic : forall g w, wf g -> cyclic g -> longest_path_w w g = Err E_RUNTIME.
Proof. intros g w W C. unfold longest_path_w. rewrite (topo_cyclic_err g W C). reflexivity. Qed.
Lemma longest_path_empty : forall w, longest_path_w w g_empty = Err E_VALUE.
Proof. intro w. reflexivity. Qed.
