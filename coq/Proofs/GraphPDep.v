(* C17, get_node_depth and are_dependent: the (max) depth is 1 on sources and one more than
   the deepest parent elsewhere, hence strictly increasing along edges; the depth-based
   dependency test answers "one node is reachable from the other" on every DAG. *)
From Coq Require Import ZArith Bool List Lia ZifyBool Permutation.
Import ListNotations.
From Verif Require Import Model.Val Model.Graph Proofs.GraphPBase Proofs.GraphPDfs Proofs.GraphPTopo.
Open Scope Z_scope.

Ltac edisc := solve [discriminate | match goal with H : Err _ = Err _ |- _ => cbv in H; discriminate H end].

(* one iteration of the loop of get_node_depth *)
Definition depth_step (g : graph) (is_max : bool) (d : list (node * Z)) (x : node) : list (node * Z) :=
  match parents_of g x with
  | [] => d
  | p :: ps' => set_key x (fold_mm is_max (dget d p) (map (dget d) ps') + 1) d
  end.

Lemma depth_step_eq : forall g mx d x, depth_step g mx d x =
  match parents_of g x with
  | [] => d
  | p :: ps' => set_key x (fold_mm mx (dget d p) (map (dget d) ps') + 1) d
  end.
Proof. reflexivity. Qed.
Lemma dget_set_key : forall d k v x, dget (set_key k v d) x = if x =? k then v else dget d x.
Proof. intros. unfold dget. rewrite lookup_set_key. destruct (x =? k); reflexivity. Qed.

Lemma depth_step_other : forall g mx d x t, t <> x -> dget (depth_step g mx d x) t = dget d t.
Proof.
  intros g mx d x t H. unfold depth_step. destruct (parents_of g x); [reflexivity|].
  rewrite dget_set_key. destruct (Z.eqb_spec t x); [contradiction | reflexivity].
Qed.
Lemma depth_fold_other : forall g mx l d t, ~ In t l -> dget (fold_left (depth_step g mx) l d) t = dget d t.
Proof.
  induction l as [|x l IH]; intros d t H; cbn [fold_left]; [reflexivity|].
  rewrite IH by (intro H1; apply H; right; exact H1).
  apply depth_step_other. intro E. apply H. left. congruence.
Qed.

(* the early return computes the same value as running the loop to its end *)
Lemma depth_loop_full : forall g mx t l d, NoDup l -> In t l -> (forall x, In x l -> In x (nodes g)) ->
  depth_loop g mx t l d = Ok (dget (fold_left (depth_step g mx) l d) t).
Proof.
  induction l as [|x l IH]; intros d N Ht Hn; [destruct Ht|].
  cbn [depth_loop fold_left]. rewrite (get_parents_ok g x) by (apply Hn; left; reflexivity). cbn [bind].
  fold (depth_step g mx d x). inversion N as [|? ? Nx Nl]; subst.
  destruct (Z.eqb_spec t x) as [E|E].
  - subst t. rewrite depth_fold_other by exact Nx. reflexivity.
  - apply IH; [exact Nl | destruct Ht; [congruence | assumption] | intros; apply Hn; right; assumption].
Qed.

Lemma fold_mm_max_ge : forall l a, a <= fold_mm true a l /\ forall x, In x l -> x <= fold_mm true a l.
Proof.
  induction l as [|y l IH]; intro a; unfold fold_mm; cbn [fold_left].
  - split; [lia | intros x []].
  - fold (fold_mm true (Z.max a y) l). destruct (IH (Z.max a y)) as [H1 H2]. split; [lia|].
    intros x [E|Hx]; [subst; lia | apply H2; exact Hx].
Qed.

Lemma index_lt_in_prefix : forall u pre rest, (index_of u (pre ++ rest) < length pre)%nat -> In u pre.
Proof.
  induction pre as [|y pre IH]; intros rest H; cbn [app length index_of] in *; [lia|].
  destruct (Z.eqb_spec u y); [left; congruence | right; apply (IH rest); lia].
Qed.

Section Depth.
Variable g : graph.
Hypothesis W : wf g.
Variable order : list node.
Hypothesis Horder : topological_sort g = Ok order.

Let Hperm : Permutation order (nodes g) := proj1 (topo_sound g W order Horder).
Let Hfwd := proj2 (topo_sound g W order Horder).

Lemma order_nodup : NoDup order.
Proof. eapply Permutation_NoDup; [apply Permutation_sym; exact Hperm | apply (wf_nodup g W)]. Qed.
Lemma order_in : forall x, In x order <-> In x (nodes g).
Proof. intro x. split; apply Permutation_in; [exact Hperm | apply Permutation_sym; exact Hperm]. Qed.

(* the depth map at the end of the loop *)
Definition depth_map (mx : bool) : list (node * Z) := fold_left (depth_step g mx) order [].
Definition depth_fn (mx : bool) (n : node) : Z := dget (depth_map mx) n.

Lemma get_node_depth_fn : forall mx n, In n (nodes g) -> get_node_depth g n mx = Ok (depth_fn mx n).
Proof.
  intros mx n Hn. unfold get_node_depth. apply has_node_In in Hn. rewrite Hn, Horder. cbn [bind].
  apply depth_loop_full; [apply order_nodup | apply order_in, has_node_In; exact Hn | intros x Hx; apply order_in; exact Hx].
Qed.

(* the value of a node is fixed when it is processed, from the final values of its parents *)
Lemma depth_fn_eq : forall mx x, In x (nodes g) ->
  depth_fn mx x = match parents_of g x with
                  | [] => 1
                  | p :: ps' => fold_mm mx (depth_fn mx p) (map (depth_fn mx) ps') + 1
                  end.
Proof.
  intros mx x Hx. apply order_in in Hx. destruct (in_split x order Hx) as [pre [post E]].
  pose proof order_nodup as N. rewrite E in N.
  assert (Nx : ~ In x pre) by (eapply NoDup_app_notin; [exact N | left; reflexivity]).
  assert (Nx' : ~ In x post) by (apply NoDup_remove_2 in N; intro H; apply N; apply in_or_app; right; exact H).
  assert (Hpar : forall p, In p (parents_of g x) -> In p pre).
  { intros p Hp. apply (wf_par g W) in Hp. pose proof (Hfwd p x Hp) as L. rewrite E in L.
    rewrite (index_of_app_notin x pre _ Nx), index_of_head in L. apply (index_lt_in_prefix p pre (x :: post)). lia. }
  assert (Hfin : forall p, In p pre -> depth_fn mx p = dget (fold_left (depth_step g mx) pre []) p).
  { intros p Hp. unfold depth_fn, depth_map. rewrite E, fold_left_app. apply depth_fold_other.
    intro H. eapply (NoDup_app_notin pre (x :: post) p N); assumption. }
  assert (Hval : depth_fn mx x = dget (depth_step g mx (fold_left (depth_step g mx) pre []) x) x).
  { unfold depth_fn, depth_map. rewrite E, fold_left_app. cbn [fold_left]. apply depth_fold_other. exact Nx'. }
  rewrite Hval. rewrite depth_step_eq. destruct (parents_of g x) as [|p ps'] eqn:Ep.
  - unfold dget. assert (L : lookup x (fold_left (depth_step g mx) pre []) = None); [|rewrite L; reflexivity].
    clear - Nx. assert (G : forall l d, ~ In x l -> lookup x d = None -> lookup x (fold_left (depth_step g mx) l d) = None).
    { induction l as [|y l IH]; intros d H Hd; cbn [fold_left]; [exact Hd|].
      apply IH; [intro H1; apply H; right; exact H1|]. unfold depth_step. destruct (parents_of g y); [exact Hd|].
      rewrite lookup_set_key. destruct (Z.eqb_spec x y); [exfalso; apply H; left; congruence | exact Hd]. }
    apply G; [exact Nx | reflexivity].
  - rewrite dget_set_key, Z.eqb_refl. rewrite <- Hfin by (apply Hpar; left; reflexivity).
    f_equal. f_equal. apply map_ext_in. intros a Ha. symmetry. apply Hfin. apply Hpar. right. exact Ha.
Qed.

(* (max) depth strictly increases along every edge, hence along every path *)
Lemma depth_edge : forall u v, edge g u v -> depth_fn true u < depth_fn true v.
Proof.
  intros u v E. destruct (wf_closed g W u v E) as [_ Hv]. rewrite (depth_fn_eq true v Hv).
  apply (wf_par g W) in E. destruct (parents_of g v) as [|p ps']; [destruct E|].
  destruct (fold_mm_max_ge (map (depth_fn true) ps') (depth_fn true p)) as [H1 H2].
  destruct E as [E|E]; [subst; lia|]. specialize (H2 (depth_fn true u) (in_map _ _ _ E)). lia.
Qed.
Lemma depth_reach : forall u v, reach g u v -> depth_fn true u <= depth_fn true v.
Proof. intros u v H. induction H; [lia|]. pose proof (depth_edge x y H). lia. Qed.
Lemma depth_reachp : forall u v, reachp g u v -> depth_fn true u < depth_fn true v.
Proof. intros u v [y [E R]]. pose proof (depth_edge u y E). pose proof (depth_reach y v R). lia. Qed.
End Depth.

(* ------------------------------------------------------------------ are_dependent *)
Section Dependent.
Variable g : graph.
Hypothesis W : wf g.

Lemma check_dependency_spec : forall top bottom, In top (nodes g) ->
  exists b, check_dependency g top bottom = Ok b /\ (b = true <-> reach g top bottom).
Proof.
  intros top bottom Ht. unfold check_dependency.
  destruct (dfs_node_spec g W top Ht) as [l [R [_ S]]]. rewrite R.
  destruct (mem bottom l) eqn:M.
  - exists true. split; [reflexivity|]. split; [intros _; apply S, mem_In; exact M | reflexivity].
  - cbn. exists false. split; [reflexivity|]. split; [discriminate|].
    intro H. apply S, mem_In in H. congruence.
Qed.

(* On a DAG the depth-based test is exact. *)
Lemma are_dependent_spec : acyclic g -> forall u v, In u (nodes g) -> In v (nodes g) ->
  exists b, are_dependent g u v = Ok b /\ (b = true <-> reachp g u v \/ reachp g v u).
Proof.
  intros A u v Hu Hv. destruct (topo_acyclic_ok g W A) as [order Ho].
  unfold are_dependent.
  rewrite (get_node_depth_fn g W order Ho true u Hu), (get_node_depth_fn g W order Ho true v Hv). cbn [bind].
  pose proof (depth_reachp g W order Ho) as D.
  destruct (Z.eqb_spec (depth_fn g order true u) (depth_fn g order true v)) as [E|E].
  - exists false. split; [reflexivity|]. split; [discriminate|].
    intros [H|H]; apply D in H; lia.
  - destruct (depth_fn g order true u >? depth_fn g order true v) eqn:G.
    + destruct (check_dependency_spec v u Hv) as [b [R S]]. exists b. split; [exact R|]. rewrite S. split.
      * intro H. right. destruct (reach_cases g v u H) as [->|H1]; [contradiction | exact H1].
      * intros [H|H]; [apply D in H; lia | apply reachp_reach; exact H].
    + destruct (check_dependency_spec u v Hu) as [b [R S]]. exists b. split; [exact R|]. rewrite S. split.
      * intro H. left. destruct (reach_cases g u v H) as [->|H1]; [contradiction | exact H1].
      * intros [H|H]; [apply reachp_reach; exact H | apply D in H; lia].
Qed.

(* the errors: a node outside the graph, a cyclic graph *)
Lemma are_dependent_unknown : forall u v, ~ In u (nodes g) -> are_dependent g u v = Err E_VALUE.
Proof.
  intros u v H. unfold are_dependent, get_node_depth.
  destruct (has_node g u) eqn:E; [apply has_node_In in E; contradiction | reflexivity].
Qed.
Lemma are_dependent_cyclic : cyclic g -> forall u v, In u (nodes g) -> are_dependent g u v = Err E_RUNTIME.
Proof.
  intros C u v Hu. unfold are_dependent, get_node_depth. apply has_node_In in Hu. rewrite Hu.
  rewrite (topo_cyclic_err g W C). reflexivity.
Qed.

(* get_node_depth on a DAG: sources have depth 1, any other node one more than its deepest
   (func=max) / shallowest (func=min) parent *)
Lemma get_node_depth_spec : acyclic g -> forall mx n, In n (nodes g) ->
  exists d, get_node_depth g n mx = Ok d /\
    match parents_of g n with
    | [] => d = 1
    | p :: ps' => exists dp dps, get_node_depth g p mx = Ok dp /\
                    Forall2 (fun q dq => get_node_depth g q mx = Ok dq) ps' dps /\
                    d = fold_mm mx dp dps + 1
    end.
Proof.
  intros A mx n Hn. destruct (topo_acyclic_ok g W A) as [order Ho].
  exists (depth_fn g order mx n). split; [apply get_node_depth_fn; assumption|].
  rewrite (depth_fn_eq g W order Ho mx n Hn).
  destruct (parents_of g n) as [|p ps'] eqn:Ep; [reflexivity|].
  assert (Hp : forall q, In q (p :: ps') -> In q (nodes g)).
  { intros q Hq. assert (E : edge g q n) by (apply (wf_par g W); rewrite Ep; exact Hq). apply (wf_closed g W q n E). }
  exists (depth_fn g order mx p), (map (depth_fn g order mx) ps'). split; [|split].
  - apply get_node_depth_fn; [assumption.. | apply Hp; left; reflexivity].
  - assert (G : forall l, (forall q, In q l -> In q (nodes g)) ->
                 Forall2 (fun q dq => get_node_depth g q mx = Ok dq) l (map (depth_fn g order mx) l)).
    { induction l as [|q l IH]; intro H; cbn [map]; constructor.
      - apply get_node_depth_fn; [assumption.. | apply H; left; reflexivity].
      - apply IH. intros; apply H; right; assumption. }
    apply G. intros q Hq. apply Hp. right. exact Hq.
  - reflexivity.
Qed.
End Dependent.
