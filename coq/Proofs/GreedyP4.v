(* Greedy policies, part 4: the laws of part 2 discharged for the shared worker model
   (Model/Res.v + Model/Worker.v: insertion-ordered resource vectors with `any` and specific ids, the
   allocation ledger, Worker.place_task / can_accomodate_strategy / __deepcopy__ as modelled there),
   for plain (non-batch) strategies with non-negative requests.  Uses the ledger lemmas of
   Proofs/ResP*.v and Proofs/WorkerP.v (conservation for every key predicate, refusal, non-negativity). *)
From Coq Require Import ZArith Bool List Lia ZifyBool.
Import ListNotations.
From Verif Require Import Model.Val Model.Res Model.Worker Proofs.ResP Proofs.ResP2 Proofs.WorkerP Proofs.ResP4.
From Verif Require Import Gen.Src_Greedy Model.Greedy Proofs.GreedyP Proofs.GreedyP2 Proofs.GreedyP3.
Open Scope Z_scope.

Definition WL : ledger :=
  mkLedger worker strategy (fun w s => w_fits s w) (fun w t s => fst (w_place t s w)) w_deepcopy s_runtime.

(* at least as occupied: for every predicate on resource keys no more is available *)
Definition r_le (R R' : res) : Prop := forall P, sumP P (r_avail R') <= sumP P (r_avail R).
Definition w_wle (w w' : worker) : Prop := r_le (w_res w) (w_res w').
Definition r_wok (R : res) : Prop :=
  Res_ok R /\ Nonneg R /\ NoDup (map fst (r_total R)) /\ nonneg_vec (r_total R).
Definition w_wok (w : worker) : Prop := r_wok (w_res w).
(* plain strategies, non-negative quantities, each resource name requested once (the keys may be `any` or specific) *)
Definition w_sok (s : strategy) : Prop :=
  s_is_batch s = false /\ nonneg_vec (s_req s) /\ NoDup (req_names (s_req s)).

Lemma g_sumP_nonneg P v : nonneg_vec v -> 0 <= sumP P v.
Proof.
  induction 1 as [|[k q] v H _ IH]; cbn [sumP]; [lia|]. cbn [snd] in H. destruct (P k); lia.
Qed.
Lemma r_allocate_le R r c q R' o : 0 <= q -> r_allocate R r c q = (R', o) -> r_le R R'.
Proof.
  intros Hq H P. unfold r_allocate in H.
  repeat match type of H with (if ?b then _ else _) = _ => destruct b; [inversion H; subst; lia|] end.
  destruct (alloc_loop r q (r_avail R)) as [v recs] eqn:E. inversion H; subst. cbn [r_avail].
  destruct (alloc_loop_spec _ _ _ _ _ E) as (C & _ & _ & _ & N). specialize (C P).
  pose proof (g_sumP_nonneg P recs (N Hq)). lia.
Qed.
Lemma alloc_seq_le req : forall R c R' o, nonneg_vec req -> alloc_seq R req c = (R', o) -> r_le R R'.
Proof.
  induction req as [|[r q] req IH]; intros R c R' o Hq H; cbn [alloc_seq] in H.
  - inversion H; subst. intros P. lia.
  - inversion Hq as [|? ? Hq1 Hq2]; subst. cbn [snd] in Hq1.
    destruct (r_allocate R r c q) as [R1 [u|e]] eqn:Ea.
    + pose proof (r_allocate_le _ _ _ _ _ _ Hq1 Ea) as L1. pose proof (IH _ _ _ _ Hq2 H) as L2.
      intros P. specialize (L1 P). specialize (L2 P). lia.
    + inversion H; subst. eapply r_allocate_le; eauto.
Qed.

(* Resources.allocate_multiple on a well-formed ledger: only consumes, keeps the ledger well formed *)
Lemma am_le R req c R' o : r_wok R -> nonneg_vec req -> r_allocate_multiple R req c = (R', o) -> r_le R R' /\ r_wok R'.
Proof.
  intros (HR & HN & HD & HT) Hq H.
  assert (r_total R' = r_total R) as ET by (eapply total_allocate_multiple; exact H).
  destruct o as [[]|e].
  - split.
    + unfold r_allocate_multiple in H. destruct (existsb _ req); [discriminate|].
      destruct (alloc_seq R req c) as [R1 [u|e1]] eqn:Es; inversion H; subst.
      intros P. cbn [r_avail]. exact (alloc_seq_le _ _ _ _ _ Hq Es P).
    + split; [eapply res_ok_allocate_multiple; eauto|]. split; [eapply nonneg_allocate_multiple; eauto|].
      rewrite ET; auto.
  - destruct HR as [HI HDi].
    rewrite (allocate_multiple_refusal_any R req c R' e HI HDi H).
    split; [intros P; lia|]. exact (conj (conj HI HDi) (conj HN (conj HD HT))).
Qed.

Lemma w_wle_refl w : w_wle w w.
Proof. intros P. lia. Qed.
Lemma w_wle_trans a b c : w_wle a b -> w_wle b c -> w_wle a c.
Proof. intros H1 H2 P. specialize (H1 P). specialize (H2 P). lia. Qed.
(* Worker.place_task with a plain strategy either refuses at once (the task is already placed: nothing changes) or is
   allocate_multiple on the worker's resources *)
Lemma w_place_plain t s w : s_is_batch s = false ->
  w_res (fst (w_place t s w)) = w_res w \/
  w_res (fst (w_place t s w)) = fst (r_allocate_multiple (w_res w) (s_req s) (CTask t)).
Proof.
  intros Hb. unfold w_place. rewrite Hb.
  destruct (zmem t (w_placed w)); [left; reflexivity|].
  right. destruct (r_allocate_multiple (w_res w) (s_req s) (CTask t)) as [R [u|e]]; reflexivity.
Qed.
Lemma w_wplace_le w t s : w_wok w -> w_sok s -> can WL w s = true -> w_wle w (wplace WL w t s).
Proof.
  intros Hok [Hb [Hq _]] _. unfold w_wle. cbn [wplace WL].
  destruct (w_place_plain t s w Hb) as [E|E]; rewrite E; [intros P; lia|].
  destruct (r_allocate_multiple (w_res w) (s_req s) (CTask t)) as [R o] eqn:E2. cbn [fst].
  exact (proj1 (am_le _ _ _ _ _ Hok Hq E2)).
Qed.
Lemma w_wplace_ok w t s : w_wok w -> w_sok s -> can WL w s = true -> w_wok (wplace WL w t s).
Proof.
  intros Hok [Hb [Hq _]] _. unfold w_wok. cbn [wplace WL].
  destruct (w_place_plain t s w Hb) as [E|E]; rewrite E; [exact Hok|].
  destruct (r_allocate_multiple (w_res w) (s_req s) (CTask t)) as [R o] eqn:E2. cbn [fst].
  exact (proj2 (am_le _ _ _ _ _ Hok Hq E2)).
Qed.
Lemma w_wreset_ok w : w_wok w -> w_wok (wreset WL w).
Proof.
  intros (_ & _ & HD & HT). unfold w_wok, r_wok. cbn [wreset WL w_deepcopy w_res]. unfold r_deepcopy.
  split; [split; [apply inv_new|apply dict_new; exact HD]|].
  split; [apply nonneg_new; exact HT|]. cbn [r_total r_new]. auto.
Qed.
Lemma w_can_antitone w w' s : w_wok w -> w_wok w' -> w_sok s -> w_wle w w' -> can WL w' s = true -> can WL w s = true.
Proof.
  intros (_ & HN & _) (_ & HN' & _) [Hb [Hq ND]] Hle. cbn [can WL]. unfold w_fits. rewrite Hb. cbn [andb]. rewrite !orb_false_r.
  intros H. apply (r_gt_per_key_iff _ _ ND Hq HN). apply (r_gt_per_key_iff _ _ ND Hq HN') in H.
  unfold r_gt_per_key in *. rewrite forallb_forall in *. intros rq Hrq. specialize (H rq Hrq).
  unfold r_available, vec_quantity in *. specialize (Hle (fun k => res_match k (fst rq))). lia.
Qed.

(* under the fit test Worker.place_task raises only for a task that is already placed on the worker: the total
   `wplace` of the ledger interface is otherwise the state after a successful placement, as in the scheduler's loop
   (place_task is only called after can_accomodate_strategy) *)
Lemma w_place_succeeds t s w : w_wok w -> w_sok s -> can WL w s = true -> zmem t (w_placed w) = false ->
  snd (w_place t s w) = Ok tt.
Proof.
  intros (_ & HN & _) [Hb [Hq _]] Hc Hnp. cbn [can WL] in Hc. unfold w_fits in Hc. rewrite Hb in Hc. cbn [andb] in Hc.
  rewrite orb_false_r in Hc.
  destruct (proj1 (gt_iff_success (w_res w) (s_req s) (CTask t) HN Hq) Hc) as (R' & E).
  unfold w_place. rewrite Hnp, Hb, E. reflexivity.
Qed.

Theorem WL_laws : ledger_laws WL w_wle w_wok w_sok.
Proof.
  constructor; [exact w_wle_refl|exact w_wle_trans|exact w_wplace_le|exact w_wplace_ok|exact w_wreset_ok|exact w_can_antitone].
Qed.

(* a fresh Worker(name, Resources(vec)) is well formed *)
Lemma w_new_ok id v : NoDup (map fst v) -> nonneg_vec v -> w_wok (w_new id v).
Proof.
  intros HD HT. unfold w_wok, r_wok, w_new. cbn [w_res].
  split; [split; [apply inv_new|apply dict_new; exact HD]|].
  split; [apply nonneg_new; exact HT|]. cbn [r_total r_new]. auto.
Qed.

(* closed witness on the shared worker model: one worker with CPU:c0 x1 and CPU:c1 x1, tasks asking for
   `any` CPU: A (deadline 10) 1, B (12) 2, C (12, after B in the input) 1  ->  A placed, B unplaced, C placed *)
Definition wl_cluster : cluster WL := [(0, [w_new 0 [((0, RId 0), 1); ((0, RId 1), 1)]])].
Definition wl_strat (i q : Z) : strategy := mkStrat i false [((0, RAny), q)] 1 3.
Definition wl_tasks : list (task WL) :=
  [@mkTask WL 1 (mkTA 12 0 3 0) [wl_strat 11 2]; @mkTask WL 2 (mkTA 12 0 3 0) [wl_strat 12 1]; @mkTask WL 0 (mkTA 10 0 3 0) [wl_strat 10 1]].
Example wl_run : schedule WL edf false false 0 wl_cluster wl_tasks = Ok [DPlace 0 0 0%nat 0; DUnplaced 1; DPlace 2 0 0%nat 0].
Proof. vm_compute. reflexivity. Qed.
Example wl_hyps : cok WL w_wok wl_cluster /\ tasks_ok WL w_sok wl_tasks.
Proof.
  split.
  - constructor; [|constructor]. cbn [snd]. constructor; [|constructor]. apply w_new_ok.
    + cbn [map fst]. constructor; [cbn; intros [X|[]]; discriminate|]. constructor; [intros []|constructor].
    + constructor; [cbn; lia|]. constructor; [cbn; lia|constructor].
  - repeat constructor; cbn; try lia; intros [].
Qed.

(* ---------- the policy model over the shared worker model, run on the S-greedy inputs: a simple-ledger input is
   rendered as Worker.v workers (entry i of a worker becomes the resource key (name, RId i)) and strategies with
   `any` requests; the decisions are compared with the real schedule() by the stream S-greedy-wl *)
Fixpoint wl_vec (w : sworker) (i : Z) (f : entry -> Z) : rvec :=
  match w with [] => [] | en :: r => ((e_name en, RId i), f en) :: wl_vec r (i + 1) f end.
Definition wl_worker (w : sworker) : worker :=
  mkWorker 0 (mkRes (wl_vec w 0 e_avail) (wl_vec w 0 e_total) []) [] [] [] [] [] 0.
Definition wl_pool (p : pool SL) : pool WL := (fst p, map wl_worker (snd p)).
Definition wl_strat_of (s : sstrat) : strategy :=
  mkStrat 0 false (map (fun r => ((fst r, RAny), snd r)) (ss_req s)) 1 (ss_runtime s).
Definition wl_task (t : task SL) : task WL := @mkTask WL (t_id t) (t_attrs t) (map wl_strat_of (t_strats t)).
Definition g_observe_wl (i : ginput) : val :=
  vres (vlist vdec)
       (schedule WL (policy_of_code (gi_policy i)) (gi_enforce i) (gi_preemptive i) (gi_now i)
                 (map wl_pool (gi_cluster i)) (map wl_task (gi_offered i))).

(* ---------- inputs rendered directly for the shared worker model (requests may name specific resource ids):
   stream S-greedy-ids *)
Record winput := mkWI {
  wi_policy : Z; wi_enforce : bool; wi_preemptive : bool; wi_now : Z;
  wi_cluster : cluster WL; wi_offered : list (task WL) }.
Definition wtask (i : Z) (a : tattrs) (ss : list strategy) : task WL := @mkTask WL i a ss.
Definition wworker (av tot : rvec) : worker := mkWorker 0 (mkRes av tot []) [] [] [] [] [] 0.
Definition vwcluster (c : cluster WL) : val :=
  vlist (fun p => L [I (fst p); vlist (fun w => vlist (fun kq => L [I (fst (fst kq)); I (snd kq)]) (r_avail (w_res w))) (snd p)]) c.
Definition w_observe_both (i : winput) : val :=
  let r := schedule_full WL (policy_of_code (wi_policy i)) (wi_enforce i) (wi_preemptive i) (wi_now i)
                         (wi_cluster i) (wi_offered i) in
  L [vres (vlist vdec) (bind r (fun o => Ok (fst o))); vres vwcluster (bind r (fun o => Ok (snd o)))].
