(* TaskGraph.cancel cancels exactly the tasks that can no longer receive their inputs
   (C06 closure clause; used by C07).  Model: Model/TaskGraph.v tg_cancel. *)
From Coq Require Import ZArith Bool List Lia ZifyBool.
Import ListNotations.
From Verif Require Import Model.Val Gen.Src_Task Gen.Src_TaskGraph Model.TaskGraph Proofs.TaskGraphP.
Open Scope Z_scope.

(* ---------- reachability and Graph.depth_first ---------- *)
Inductive reach (g : tgraph) (a : Z) : Z -> Prop :=
| reach_refl : reach g a a
| reach_step : forall b c, reach g a b -> In c (tg_children g b) -> reach g a c.

Lemma dfs_go_spec : forall fuel g t stack visited out,
  dfs_go fuel g stack visited = Some out ->
  (forall x, In x visited -> reach g t x) -> (forall x, In x stack -> reach g t x) ->
  (forall v c, In v visited -> In c (tg_children g v) -> In c visited \/ In c stack) ->
  (forall x, In x out -> reach g t x) /\ (forall x, In x visited -> In x out) /\
  (forall x, In x stack -> In x out) /\
  (forall v c, In v out -> In c (tg_children g v) -> In c out).
Proof.
  induction fuel as [|f IH]; intros g t stack visited out H Hv Hs Hc; cbn [dfs_go] in H; [discriminate|].
  destruct stack as [|n st].
  - inversion H; subst out. repeat split.
    + intros x Hx. apply Hv. rewrite <- in_rev in Hx. exact Hx.
    + intros x Hx. rewrite <- in_rev. exact Hx.
    + intros x [].
    + intros v c Hin Hch. rewrite <- in_rev in Hin. destruct (Hc v c Hin Hch) as [A|[]]. rewrite <- in_rev. exact A.
  - destruct (zmem n visited) eqn:M.
    + apply zmem_In in M.
      destruct (IH g t st visited out H Hv) as (A & B & C & D).
      * intros x Hx. apply Hs. right. exact Hx.
      * intros v c Hin Hch. destruct (Hc v c Hin Hch) as [E|[E|E]]; [left; exact E | subst c; left; exact M | right; exact E].
      * repeat split; try assumption. intros x [Hx|Hx]; [subst x; apply B; exact M | apply C; exact Hx].
    + apply zmem_not_In in M.
      set (v' := n :: visited) in *.
      set (st' := rev (filter (fun c => negb (zmem c v')) (tg_children g n)) ++ st) in *.
      destruct (IH g t st' v' out H) as (A & B & C & D).
      * intros x [Hx|Hx]; [subst x; apply Hs; left; reflexivity | apply Hv; exact Hx].
      * intros x Hx. unfold st' in Hx. apply in_app_or in Hx. destruct Hx as [Hx|Hx].
        -- rewrite <- in_rev in Hx. apply filter_In in Hx. destruct Hx as [Hx _].
           apply reach_step with (b := n); [apply Hs; left; reflexivity | exact Hx].
        -- apply Hs. right. exact Hx.
      * intros v c [Hin|Hin] Hch.
        -- subst v. destruct (zmem c v') eqn:Mc.
           ++ left. apply zmem_In. exact Mc.
           ++ right. unfold st'. apply in_or_app. left. rewrite <- in_rev.
              apply filter_In. split; [exact Hch | rewrite Mc; reflexivity].
        -- destruct (Hc v c Hin Hch) as [E|[E|E]].
           ++ left. right. exact E.
           ++ subst c. left. left. reflexivity.
           ++ right. unfold st'. apply in_or_app. right. exact E.
      * repeat split; try assumption.
        -- intros x Hx. apply B. right. exact Hx.
        -- intros x [Hx|Hx]; [subst x; apply B; left; reflexivity | apply C; unfold st'; apply in_or_app; right; exact Hx].
Qed.

Lemma depth_first_reach : forall g t desc, depth_first g t = Some desc -> forall c, In c desc <-> reach g t c.
Proof.
  intros g t desc H c. unfold depth_first in H.
  destruct (dfs_go_spec _ g t [t] [] desc H) as (A & B & C & D).
  - intros x [].
  - intros x [Hx|[]]. subst x. constructor.
  - intros v c0 [].
  - split; [apply A|]. intros R. induction R as [|b c0 R IH Hch].
    + apply C. left. reflexivity.
    + apply D with (v := b); assumption.
Qed.

(* ---------- visiting orders ---------- *)
Definition topo_ok (g : tgraph) (order : list Z) : Prop :=
  NoDup order /\ (forall n, In n order <-> In n (tg_nodes g)) /\
  (forall pre c post, order = pre ++ c :: post -> forall p, In p (tg_parents g c) -> In p pre).

(* well-formedness of the input, as checked by tg_ok *)
Record wf (g : tgraph) : Prop := {
  wf_nodup : NoDup (tg_nodes g);
  wf_children : forall p c, In c (tg_children g p) -> In c (tg_nodes g);
  wf_tasks : forall n, In n (tg_nodes g) -> tg_get g n <> None }.

Lemma tg_ok_wf : forall g, tg_ok g = true -> wf g.
Proof.
  intros g H. unfold tg_ok in H. repeat rewrite andb_true_iff in H.
  destruct H as ((((H1 & H2) & H3) & H4) & H5).
  constructor.
  - apply znodup_NoDup. exact H1.
  - intros p c Hc. unfold tg_children in Hc. destruct (al_get p (g_adj g)) as [cs|] eqn:E; [|contradiction].
    apply al_get_In in E. rewrite forallb_forall in H2. specialize (H2 _ E). cbn [snd] in H2.
    apply andb_true_iff in H2. destruct H2 as [_ H2]. rewrite forallb_forall in H2. apply zmem_In. apply H2. exact Hc.
  - intros n Hn. rewrite forallb_forall in H3. specialize (H3 _ Hn). destruct (tg_get g n); [congruence | discriminate].
Qed.

Lemma reach_node : forall g t c, wf g -> In t (tg_nodes g) -> reach g t c -> In c (tg_nodes g).
Proof.
  intros g t c W Ht R. induction R as [|b c R IH Hch]; [exact Ht|]. eapply wf_children; eauto.
Qed.

(* ---------- the set cancelled by one request ---------- *)
Inductive hit (g : tgraph) (t : Z) : Z -> Prop :=
| hit_root : tg_state g t <> TS_CANCELLED -> hit g t t
| hit_regular : forall p c, hit g t p -> In c (tg_children g p) -> tg_terminal g c = false ->
    tg_state g c <> TS_CANCELLED -> hit g t c
| hit_terminal : forall c, tg_terminal g c = true -> reach g t c ->
    (forall p, In p (tg_parents g c) -> hit g t p \/ tg_state g p = TS_CANCELLED) ->
    tg_state g c <> TS_CANCELLED -> hit g t c.

Lemma hit_reach : forall g t c, hit g t c -> reach g t c.
Proof.
  intros g t c H. induction H as [H|p c H IH Hc Ht Hs|c Ht R Hp Hs].
  - constructor.
  - eapply reach_step; eauto.
  - exact R.
Qed.
Lemma hit_state : forall g t c, hit g t c -> tg_state g c <> TS_CANCELLED.
Proof. intros g t c H. destruct H; assumption. Qed.

Section CancelLoop.
Variables (g0 : tgraph) (t time : Z) (desc order : list Z).
Hypothesis Hdesc : forall c, In c desc <-> reach g0 t c.
Hypothesis Htopo : topo_ok g0 order.
Hypothesis Hwf : wf g0.
Hypothesis Ht : In t (tg_nodes g0).

Record inv (pre : list Z) (g : tgraph) (now : list Z) : Prop := {
  inv_adj : g_adj g = g_adj g0;
  inv_den : g_den g = g_den g0;
  inv_keys : forall n, tg_get g n <> None <-> tg_get g0 n <> None;
  inv_now : forall n, In n now ->
      tg_state g n = TS_CANCELLED /\ tg_prob g n = 0 /\ t_remaining_time (tt_dyn (tg_task g n)) = 0 /\
      tg_terminal g n = tg_terminal g0 n /\ tg_conditional g n = tg_conditional g0 n /\
      tt_runtimes (tg_task g n) = tt_runtimes (tg_task g0 n) /\ cancellable (tg_state g0 n);
  inv_rest : forall n, ~ In n now -> tg_task g n = tg_task g0 n;
  inv_hit : forall n, In n now <-> In n pre /\ hit g0 t n;
  inv_nodup : NoDup now }.

Lemma inv_state : forall pre g now p, inv pre g now ->
  (tg_state g p = TS_CANCELLED <-> In p now \/ tg_state g0 p = TS_CANCELLED).
Proof.
  intros pre g now p I. destruct (zmem p now) eqn:M.
  - apply zmem_In in M. split; [intros _; left; exact M | intros _; apply (inv_now _ _ _ I); exact M].
  - apply zmem_not_In in M. unfold tg_state. rewrite (inv_rest _ _ _ I p M). tauto.
Qed.


Lemma hit_inv : forall c, hit g0 t c ->
  tg_state g0 c <> TS_CANCELLED /\
  (c = t \/ (tg_terminal g0 c = false /\ exists p, hit g0 t p /\ In c (tg_children g0 p)) \/
   (tg_terminal g0 c = true /\ reach g0 t c /\
    forall p, In p (tg_parents g0 c) -> hit g0 t p \/ tg_state g0 p = TS_CANCELLED)).
Proof.
  intros c H. destruct H as [H|p c H Hc Htm Hs|c Htm R Hp Hs]; (split; [assumption|]).
  - left. reflexivity.
  - right. left. split; [exact Htm|]. exists p. auto.
  - right. right. auto.
Qed.

Lemma now_sub_pre : forall pre g now n, inv pre g now -> In n now -> In n pre.
Proof. intros pre g now n I H. apply (inv_hit _ _ _ I) in H. tauto. Qed.

Lemma proceeds_iff : forall pre c post g now,
  order = pre ++ c :: post -> inv pre g now -> In c desc ->
  (tgc_proceeds (tg_state g) (fun p => zmem p now) (c =? t) (tg_terminal g c) (tg_parents g c) (tg_state g c) = true
   <-> hit g0 t c).
Proof.
  intros pre c post g now Ho I Hd.
  destruct Htopo as (ND & Hn & Hpar).
  assert (Hcpre : ~ In c pre).
  { rewrite Ho in ND. apply NoDup_remove_2 in ND. intro A. apply ND. apply in_or_app. left. exact A. }
  assert (Hcnow : ~ In c now) by (intro A; apply Hcpre; eapply now_sub_pre; eauto).
  assert (Etask : tg_task g c = tg_task g0 c) by (apply (inv_rest _ _ _ I); exact Hcnow).
  assert (Eterm : tg_terminal g c = tg_terminal g0 c) by (unfold tg_terminal; rewrite Etask; reflexivity).
  assert (Est : tg_state g c = tg_state g0 c) by (unfold tg_state; rewrite Etask; reflexivity).
  assert (Epar : tg_parents g c = tg_parents g0 c) by (unfold tg_parents; rewrite (inv_adj _ _ _ I); reflexivity).
  assert (Hppre : forall p, In p (tg_parents g0 c) -> In p pre) by (intros p Hp; eapply Hpar; eauto).
  assert (Hnowhit : forall p, In p (tg_parents g0 c) -> (In p now <-> hit g0 t p)).
  { intros p Hp. rewrite (inv_hit _ _ _ I). specialize (Hppre p Hp). tauto. }
  rewrite Eterm, Est, Epar. unfold tgc_proceeds.
  destruct (c =? t) eqn:Ect; cbn [negb].
  - assert (c = t) by lia. subst c.
    destruct (task_state_eqb (tg_state g0 t) TS_CANCELLED) eqn:Es.
    + apply task_state_eqb_eq in Es. split; [discriminate|]. intro H. apply hit_state in H. contradiction.
    + apply task_state_eqb_neq in Es. split; [intros _; constructor; exact Es | reflexivity].
  - assert (Hne : c <> t) by lia.
    destruct (tg_terminal g0 c) eqn:Etm.
    + destruct (forallb (fun parent => task_state_eqb (tg_state g parent) TS_CANCELLED) (tg_parents g0 c)) eqn:Ef; cbn [negb].
      * rewrite forallb_forall in Ef.
        assert (Hall : forall p, In p (tg_parents g0 c) -> hit g0 t p \/ tg_state g0 p = TS_CANCELLED).
        { intros p Hp. specialize (Ef p Hp). apply task_state_eqb_eq in Ef.
          apply (inv_state _ _ _ p I) in Ef. destruct Ef as [A|A]; [left; apply Hnowhit; assumption | right; exact A]. }
        destruct (task_state_eqb (tg_state g0 c) TS_CANCELLED) eqn:Es.
        -- apply task_state_eqb_eq in Es. split; [discriminate|]. intro H. apply hit_state in H. contradiction.
        -- apply task_state_eqb_neq in Es. split; [|reflexivity]. intros _.
           apply hit_terminal; auto. apply Hdesc. exact Hd.
      * split; [discriminate|]. intro H. exfalso.
        apply hit_inv in H. destruct H as (Hs & [A|[(A & _)|(_ & _ & A)]]); [contradiction | congruence |].
        assert (forallb (fun parent => task_state_eqb (tg_state g parent) TS_CANCELLED) (tg_parents g0 c) = true); [|congruence].
        apply forallb_forall. intros p Hp. apply task_state_eqb_eq. apply (inv_state _ _ _ p I).
        destruct (A p Hp) as [B|B]; [left; apply Hnowhit; assumption | right; exact B].
    + destruct (existsb (fun parent => zmem parent now) (tg_parents g0 c)) eqn:Ee; cbn [negb].
      * apply existsb_exists in Ee. destruct Ee as (p & Hp & Hm). apply zmem_In in Hm.
        destruct (task_state_eqb (tg_state g0 c) TS_CANCELLED) eqn:Es.
        -- apply task_state_eqb_eq in Es. split; [discriminate|]. intro H. apply hit_state in H. contradiction.
        -- apply task_state_eqb_neq in Es. split; [|reflexivity]. intros _.
           apply hit_regular with (p := p); auto.
           ++ apply Hnowhit; assumption.
           ++ apply parents_children; [apply Hwf | exact Hp].
      * split; [discriminate|]. intro H. exfalso.
        apply hit_inv in H. destruct H as (Hs & [A|[(_ & p & A & B)|(A & _)]]); [contradiction | | congruence].
        assert (existsb (fun parent => zmem parent now) (tg_parents g0 c) = true); [|congruence].
        apply existsb_exists. exists p.
        assert (Hp : In p (tg_parents g0 c)) by (apply parents_children; [apply Hwf | exact B]).
        split; [exact Hp|]. apply zmem_In. apply Hnowhit; assumption.
Qed.

Lemma inv_skip : forall pre c post g now,
  order = pre ++ c :: post -> inv pre g now -> ~ hit g0 t c -> inv (pre ++ [c]) g now.
Proof.
  intros pre c post g now Ho I Hnh. destruct I as [A B C D E F G]. constructor; auto.
  intros n. rewrite F. rewrite in_app_iff. cbn [In]. split; [tauto|].
  intros [[H|[H|[]]] Hh]; [tauto | subst n; contradiction].
Qed.

Lemma cancel_loop_spec : forall rest pre g now g' r,
  order = pre ++ rest -> inv pre g now ->
  cancel_loop t time desc rest g now = (g', r) ->
  match r with
  | Ok cs => exists now', cs = rev now' /\ inv order g' now'
  | Err e => e = 1 /\ exists pre' c now', inv pre' g' now' /\ hit g0 t c /\ ~ cancellable (tg_state g0 c)
  end.
Proof.
  induction rest as [|c rest IH]; intros pre g now g' r Ho I H; cbn [cancel_loop] in H.
  - inversion H; subst. exists now. rewrite app_nil_r in *. subst. auto.
  - assert (Ho' : order = (pre ++ [c]) ++ rest) by (rewrite <- app_assoc; exact Ho).
    destruct (zmem c desc) eqn:Md; cbn [negb] in H.
    + apply zmem_In in Md.
      pose proof (proceeds_iff pre c rest g now Ho I Md) as P.
      destruct (tgc_proceeds (tg_state g) (fun p => zmem p now) (c =? t) (tg_terminal g c) (tg_parents g c) (tg_state g c)) eqn:Ep.
      * assert (Hh : hit g0 t c) by (apply P; reflexivity).
        destruct Htopo as (ND & Hn & Hpar).
        assert (Hcpre : ~ In c pre).
        { rewrite Ho in ND. apply NoDup_remove_2 in ND. intro A. apply ND. apply in_or_app. left. exact A. }
        assert (Hcnow : ~ In c now) by (intro A; apply Hcpre; eapply now_sub_pre; eauto).
        assert (Etask : tg_task g c = tg_task g0 c) by (apply (inv_rest _ _ _ I); exact Hcnow).
        assert (Hkey : tg_get g c <> None).
        { apply (inv_keys _ _ _ I). apply (wf_tasks _ Hwf). apply Hn. rewrite Ho. apply in_or_app. right. left. reflexivity. }
        destruct (cancel_task (tg_task g c) time) as [tk|e] eqn:Ec.
        -- apply (IH (pre ++ [c]) _ _ _ _ Ho') in H; [exact H|].
           rewrite Etask in Ec. apply cancel_task_ok in Ec. destruct Ec as (C1 & C2 & C3 & C4 & C5 & C6 & C7).
           destruct I as [A B C D E F G]. constructor; cbn [tg_set g_adj g_den]; auto.
           ++ intros n. rewrite tg_get_set_keys. apply C.
           ++ intros n [Hn'|Hn'].
              ** subst n. unfold tg_state, tg_prob, tg_terminal, tg_conditional. rewrite tg_task_set_same by exact Hkey.
                 repeat split; auto.
              ** assert (n <> c) by (intro; subst; contradiction).
                 unfold tg_state, tg_prob, tg_terminal, tg_conditional. rewrite tg_task_set_other by assumption.
                 apply D. exact Hn'.
           ++ intros n Hn'. cbn [In] in Hn'. assert (n <> c) by (intro; subst; apply Hn'; left; reflexivity).
              rewrite tg_task_set_other by assumption. apply E. tauto.
           ++ intros n. cbn [In]. rewrite F, in_app_iff. cbn [In]. split.
              ** intros [Hx|Hx]; [subst n; split; [right; left; reflexivity | exact Hh] | tauto].
              ** intros [[Hx|[Hx|[]]] Hy]; [right; tauto | left; exact Hx].
           ++ constructor; assumption.
        -- inversion H; subst g' r. rewrite Etask in Ec. apply cancel_task_err in Ec. destruct Ec as [C1 C2].
           split; [exact C2|]. exists pre, c, now. auto.
      * apply (IH (pre ++ [c]) _ _ _ _ Ho') in H; [exact H|].
        eapply inv_skip; eauto. intro Hh. apply P in Hh. congruence.
    + apply zmem_not_In in Md.
      apply (IH (pre ++ [c]) _ _ _ _ Ho') in H; [exact H|].
      eapply inv_skip; eauto. intro Hh. apply Md. apply Hdesc. apply hit_reach. exact Hh.
Qed.

Lemma inv_init : inv [] g0 [].
Proof.
  constructor; auto; try tauto.
  - intros n [].
  - intros n. cbn [In]. tauto.
  - constructor.
Qed.

End CancelLoop.

(* ---------- TaskGraph.cancel for a visiting order that puts parents before children ---------- *)
Record cancel_post (g g' : tgraph) (cs : list Z) : Prop := {
  cp_adj : g_adj g' = g_adj g;
  cp_den : g_den g' = g_den g;
  cp_keys : forall n, tg_get g' n <> None <-> tg_get g n <> None;
  cp_in : forall n, In n cs ->
      tg_state g' n = TS_CANCELLED /\ tg_prob g' n = 0 /\ t_remaining_time (tt_dyn (tg_task g' n)) = 0 /\
      tg_terminal g' n = tg_terminal g n /\ tg_conditional g' n = tg_conditional g n /\
      tt_runtimes (tg_task g' n) = tt_runtimes (tg_task g n) /\ cancellable (tg_state g n);
  cp_out : forall n, ~ In n cs -> tg_task g' n = tg_task g n;
  cp_nodup : NoDup cs }.

Lemma hit_node : forall g t c, wf g -> In t (tg_nodes g) -> hit g t c -> In c (tg_nodes g).
Proof. intros g t c W Ht H. eapply reach_node; eauto. apply hit_reach. exact H. Qed.

Theorem tg_cancel_with_ok : forall g t time order g' cs,
  wf g -> In t (tg_nodes g) -> topo_ok g order ->
  tg_cancel_with order g t time = (g', Ok cs) ->
  cancel_post g g' cs /\ (forall n, In n cs <-> hit g t n).
Proof.
  intros g t time order g' cs W Ht To H. unfold tg_cancel_with in H.
  destruct (depth_first g t) as [desc|] eqn:Ed; [|inversion H].
  pose proof (depth_first_reach _ _ _ Ed) as Hd.
  pose proof (cancel_loop_spec g t time desc order Hd To W order [] g [] g' (Ok cs) eq_refl (inv_init g t) H) as S.
  destruct S as (now & -> & I). destruct I as [A B C D E F G]. split.
  - constructor; auto.
    + intros n Hn. apply D. rewrite <- in_rev in Hn. exact Hn.
    + intros n Hn. apply E. rewrite in_rev. exact Hn.
    + apply NoDup_rev. exact G.
  - intros n. rewrite <- in_rev, F. split; [tauto|]. intros Hh. split; [|exact Hh].
    destruct To as (_ & Hn & _). apply Hn. eapply hit_node; eauto.
Qed.

(* an error is the ValueError of Task.cancel on a task that had to be cancelled (or the model's fuel) *)
Theorem tg_cancel_with_err : forall g t time order g' e,
  wf g -> In t (tg_nodes g) -> topo_ok g order ->
  tg_cancel_with order g t time = (g', Err e) ->
  e = 7 \/ (e = 1 /\ exists c, hit g t c /\ ~ cancellable (tg_state g c)).
Proof.
  intros g t time order g' e W Ht To H. unfold tg_cancel_with in H.
  destruct (depth_first g t) as [desc|] eqn:Ed; [|inversion H; left; reflexivity].
  pose proof (depth_first_reach _ _ _ Ed) as Hd.
  pose proof (cancel_loop_spec g t time desc order Hd To W order [] g [] g' (Err e) eq_refl (inv_init g t) H) as S.
  destruct S as (-> & pre' & c & now' & _ & Hh & Hc). right. split; [reflexivity|]. exists c. auto.
Qed.

(* ---------- induction along a visiting order ---------- *)
Lemma topo_ind : forall g order (P : Z -> Prop), topo_ok g order ->
  (forall c, In c (tg_nodes g) -> (forall p, In p (tg_parents g c) -> P p) -> P c) ->
  forall c, In c (tg_nodes g) -> P c.
Proof.
  intros g order P (ND & Hn & Hpar) Hstep.
  assert (A : forall pre post, order = pre ++ post -> forall c, In c pre -> P c).
  { induction pre as [|x l IH] using rev_ind; intros post Ho c Hc; [contradiction|].
    rewrite <- app_assoc in Ho. cbn [app] in Ho.
    apply in_app_or in Hc. destruct Hc as [Hc|[Hc|[]]].
    - eapply IH; eauto.
    - subst x. apply Hstep.
      + apply Hn. rewrite Ho. apply in_or_app. right. left. reflexivity.
      + intros p Hp. apply (IH (c :: post) Ho). eapply Hpar; eauto. }
  intros c Hc. apply (A order [] (eq_sym (app_nil_r order))). apply Hn. exact Hc.
Qed.

(* ---------- the doomed set of the property ---------- *)
Inductive doomed (g : tgraph) (t : Z) : Z -> Prop :=
| doomed_root : doomed g t t
| doomed_child : forall p c, doomed g t p -> In c (tg_children g p) -> tg_terminal g c = false -> doomed g t c
| doomed_join : forall c p0, tg_terminal g c = true -> In p0 (tg_parents g c) -> doomed g t p0 ->
    (forall p, In p (tg_parents g c) -> doomed g t p \/ tg_state g p = TS_CANCELLED) -> doomed g t c.

(* the state is closed under earlier cancellations *)
Definition cancel_closed (g : tgraph) : Prop :=
  (forall p c, tg_state g p = TS_CANCELLED -> In c (tg_children g p) -> tg_terminal g c = false ->
               tg_state g c = TS_CANCELLED) /\
  (forall c, tg_terminal g c = true -> tg_parents g c <> [] ->
             (forall p, In p (tg_parents g c) -> tg_state g p = TS_CANCELLED) -> tg_state g c = TS_CANCELLED).

Lemma doomed_reach : forall g t c, wf g -> doomed g t c -> reach g t c.
Proof.
  intros g t c W H. induction H as [|p c H IH Hc Ht|c p0 Ht Hp H IH Hall].
  - constructor.
  - eapply reach_step; eauto.
  - eapply reach_step; eauto. apply parents_children; [apply W | exact Hp].
Qed.

Lemma forall_or_split : forall (A B : Z -> Prop) l, (forall p, In p l -> A p \/ B p) ->
  (exists p, In p l /\ A p) \/ (forall p, In p l -> B p).
Proof.
  intros A B l; induction l as [|x l IH]; intros H.
  - right. intros p [].
  - destruct (H x (or_introl eq_refl)) as [Hx|Hx].
    + left. exists x. split; [left; reflexivity | exact Hx].
    + destruct IH as [(p & Hp & Ha)|Hb].
      * intros p Hp. apply H. right. exact Hp.
      * left. exists p. split; [right; exact Hp | exact Ha].
      * right. intros p [Hp|Hp]; [subst; exact Hx | apply Hb; exact Hp].
Qed.

Lemma hit_cases : forall g t c, hit g t c ->
  tg_state g c <> TS_CANCELLED /\
  (c = t \/ (tg_terminal g c = false /\ exists p, hit g t p /\ In c (tg_children g p)) \/
   (tg_terminal g c = true /\ reach g t c /\
    forall p, In p (tg_parents g c) -> hit g t p \/ tg_state g p = TS_CANCELLED)).
Proof.
  intros g t c H. destruct H as [H|p c H Hc Htm Hs|c Htm R Hp Hs]; (split; [assumption|]).
  - left. reflexivity.
  - right. left. split; [exact Htm|]. exists p. auto.
  - right. right. auto.
Qed.

Lemma hit_iff_doomed : forall g t order, wf g -> In t (tg_nodes g) -> topo_ok g order -> cancel_closed g ->
  forall c, In c (tg_nodes g) -> (hit g t c <-> doomed g t c /\ tg_state g c <> TS_CANCELLED).
Proof.
  intros g t order W Ht To (CC1 & CC2).
  apply (topo_ind g order (fun c => hit g t c <-> doomed g t c /\ tg_state g c <> TS_CANCELLED) To).
  intros c Hc IH. split.
  - intros H. pose proof (hit_cases _ _ _ H) as (Hs & Cs). split; [|exact Hs].
    destruct Cs as [->|[(Htm & p & Hp & Hch)|(Htm & R & Hall)]].
    + constructor.
    + apply doomed_child with (p := p); auto. apply IH; [apply parents_children; [apply W | exact Hch] | exact Hp].
    + destruct (Z.eq_dec c t) as [->|Hne]; [constructor|].
      assert (Hall' : forall p, In p (tg_parents g c) -> doomed g t p \/ tg_state g p = TS_CANCELLED).
      { intros p Hp. destruct (Hall p Hp) as [A|A]; [left; apply IH; assumption | right; exact A]. }
      destruct (forall_or_split _ _ _ Hall) as [(p & Hp & Hh)|Hb].
      * apply doomed_join with (p0 := p); auto. apply IH; assumption.
      * exfalso. apply Hs. apply CC2; auto.
        inversion R as [|b c' R' Hch]; subst; [congruence|].
        intro E. assert (In b (tg_parents g c)) by (apply parents_children; [apply W | exact Hch]).
        rewrite E in H0. contradiction.
  - intros (Hd & Hs). inversion Hd as [|p c' Hp Hch Htm|c' p0 Htm Hp0 Hd0 Hall]; subst.
    + constructor. exact Hs.
    + assert (Hpp : In p (tg_parents g c)) by (apply parents_children; [apply W | exact Hch]).
      destruct (task_state_eq_dec (tg_state g p) TS_CANCELLED) as [E|E].
      * exfalso. apply Hs. eapply CC1; eauto.
      * apply hit_regular with (p := p); auto. apply IH; auto.
    + apply hit_terminal; auto.
      * eapply reach_step; [apply doomed_reach; [exact W | exact Hd0] | apply parents_children; [apply W | exact Hp0]].
      * intros p Hp. destruct (task_state_eq_dec (tg_state g p) TS_CANCELLED) as [E|E]; [right; exact E|].
        left. destruct (Hall p Hp) as [A|A]; [|contradiction]. apply IH; auto.
Qed.
