(* TetriPSound — every satisfying assignment of gen_tetri reads back as a plan that is feasible
   under the formulation's convention (C10 / C11 / C12 parts), hence under the simulator's. *)
From Coq Require Import ZArith Bool List Lia ZifyBool.
Import ListNotations.
From Verif Require Import Model.Val Model.PlanSpec Model.TetriModel Proofs.TetriP Proofs.TetriPSum.
Open Scope Z_scope.


(* well-formedness of an instance: what the Python objects guarantee by construction (dict keys are
   distinct, quantities are non-negative, a running task has run for part of its runtime, the running
   tasks fit their workers) *)
Record wf_inst (I : tinst) : Prop := mkWF {
  wf_disc : 0 < ti_disc I;
  wf_hor : 0 <= horizon I;
  wf_ids : NoDup (map tt_id (ti_tasks I));
  wf_widx : NoDup (map tw_idx (ti_workers I));
  wf_req : forall x s rq, In x (ti_tasks I) -> In s (tt_strats x) -> In rq (st_req s) -> 0 <= snd rq;
  wf_req_keys : forall x s, In x (ti_tasks I) -> In s (tt_strats x) -> NoDup (map fst (st_req s));
  wf_tot : forall w rq, In w (ti_workers I) -> In rq (tw_total w) -> 0 <= snd rq;
  wf_run : forall x w s rem, In x (ti_tasks I) -> tt_state x = SRunning w s rem ->
             0 <= rem <= st_runtime s /\ (forall rq, In rq (st_req s) -> 0 <= snd rq);
  wf_run_fit : forall w r, In w (ti_workers I) ->
             sumf (fun x => running_req x (tw_idx w) r) (ti_tasks I) <= rget (tw_total w) r;
  wf_parents : forall x pid, In x (ti_tasks I) -> In pid (tt_parents x) -> exists q, find_tt (ti_tasks I) pid = Some q;
  wf_nparents : forall x, In x (ti_tasks I) -> Z.of_nat (length (tt_parents x)) <= tt_nparents x }.

(* ------------------------------------------------------------------ lookups *)
Lemma find_tt_In : forall ts id x, find_tt ts id = Some x -> In x ts /\ tt_id x = id.
Proof.
  induction ts as [|t ts IH]; intros id x H; cbn in H; [discriminate|].
  destruct (tt_id t =? id) eqn:E.
  - inversion H; subst. split; [now left|lia].
  - apply IH in H. destruct H. split; [now right|auto].
Qed.
Lemma find_tt_NoDup : forall ts x, NoDup (map tt_id ts) -> In x ts -> find_tt ts (tt_id x) = Some x.
Proof.
  induction ts as [|t ts IH]; intros x Hn Hx; [contradiction|]. cbn. inversion Hn as [|? ? Hnot Hn']; subst.
  destruct Hx as [->|Hx]; [now rewrite Z.eqb_refl|].
  destruct (tt_id t =? tt_id x) eqn:E.
  - exfalso. apply Hnot. apply Z.eqb_eq in E. rewrite E. apply in_map. exact Hx.
  - now apply IH.
Qed.
Lemma find_task_map : forall I ts id, find_task (map (to_ptask I) ts) id = option_map (to_ptask I) (find_tt ts id).
Proof.
  induction ts as [|t ts IH]; intros id; cbn; [reflexivity|].
  destruct (tt_id t =? id); [reflexivity|apply IH].
Qed.
Lemma find_task_pinst : forall I x, NoDup (map tt_id (ti_tasks I)) -> In x (ti_tasks I) ->
  find_task (pi_tasks (to_pinst I)) (tt_id x) = Some (to_ptask I x).
Proof. intros I x Hn Hx. cbn. rewrite find_task_map, find_tt_NoDup; auto. Qed.
Lemma find_worker_pinst : forall ws w, In w ws ->
  exists pw, find_worker (map (fun w => mkPWorker (tw_idx w) (tw_total w)) ws) (tw_idx w) = Some pw /\ pw_id pw = tw_idx w.
Proof.
  induction ws as [|v ws IH]; intros w Hw; [contradiction|]. cbn.
  destruct (tw_idx v =? tw_idx w) eqn:E.
  - eexists. split; [reflexivity|]. cbn. lia.
  - destruct Hw as [->|Hw]; [rewrite Z.eqb_refl in E; discriminate|]. now apply IH.
Qed.

(* ------------------------------------------------------------------ the plan read back *)
Definition rb_list (I : tinst) (a : assignment) (x : ttask) : list placement :=
  match readback_task I a x with Some p => [p] | None => [] end.

Lemma plan_of_readback_gen : forall I a l,
  plan_of (map (fun x => (tt_id x, readback_task I a x)) l) = flat_map (rb_list I a) l.
Proof.
  induction l as [|x l IH]; [reflexivity|]. cbn [map]. unfold plan_of in *. cbn [flat_map snd]. rewrite IH. reflexivity.
Qed.
Lemma plan_of_readback : forall I a, plan_of (readback I a) = flat_map (rb_list I a) (free_tasks I).
Proof. intros. unfold readback. apply plan_of_readback_gen. Qed.
Lemma In_plan : forall I a pl, In pl (plan_of (readback I a)) <->
  exists x, In x (free_tasks I) /\ readback_task I a x = Some pl.
Proof.
  intros. rewrite plan_of_readback, in_flat_map. split; intros [x [Hx H]]; exists x; split; auto.
  - unfold rb_list in H. destruct (readback_task I a x); [destruct H as [->|[]]; reflexivity|contradiction].
  - unfold rb_list. rewrite H. now left.
Qed.
Lemma readback_pl_task : forall I a x pl, readback_task I a x = Some pl -> pl_task pl = tt_id x.
Proof. intros I a x pl H. apply readback_task_Some in H. destruct H as [w [t [i [s [_ [_ ->]]]]]]. reflexivity. Qed.

Lemma plan_NoDup : forall I a, NoDup (map tt_id (ti_tasks I)) -> NoDup (map pl_task (plan_of (readback I a))).
Proof.
  intros I a Hn. rewrite plan_of_readback.
  assert (Hf : NoDup (map tt_id (free_tasks I))).
  { unfold free_tasks. clear - Hn. induction (ti_tasks I) as [|t ts IH]; cbn; [constructor|].
    inversion Hn; subst. destruct (negb (is_running t)); cbn; auto. constructor; auto.
    intros H. apply H1. apply in_map_iff in H. destruct H as [y [E Hy]]. apply filter_In in Hy. rewrite <- E. apply in_map. tauto. }
  induction (free_tasks I) as [|x l IH]; cbn; [constructor|].
  inversion Hf as [|? ? Hnot Hf']; subst. rewrite map_app. unfold rb_list at 1.
  destruct (readback_task I a x) eqn:R; cbn; auto.
  constructor; auto. intros H. apply Hnot. apply in_map_iff in H. destruct H as [pl [E Hpl]].
  apply in_flat_map in Hpl. destruct Hpl as [y [Hy Hpl]]. unfold rb_list in Hpl.
  destruct (readback_task I a y) eqn:Ry; [|contradiction]. destruct Hpl as [<-|[]].
  apply readback_pl_task in R. apply readback_pl_task in Ry. rewrite <- R, <- E, Ry. now apply in_map.
Qed.

(* the read-back of a free task x is described by a variable cell *)
Lemma readback_cell : forall I a x pl, readback_task I a x = Some pl ->
  exists w t i s, In w (ti_workers I) /\ In t (slots I) /\ nth_error (tt_strats x) i = Some s /\
    cell_kind I x w t s = CVar /\ In (w, t, (i, s)) (var_cells I x) /\
    a (VCell (tt_id x) (tw_idx w) t i) = 1 /\ pl = mkPl (tt_id x) (tw_idx w) i t.
Proof.
  intros I a x pl H. apply readback_task_Some in H. destruct H as [w [t [i [s [Hin [Ha ->]]]]]].
  pose proof Hin as Hin'. apply In_var_cells in Hin. destruct Hin as [Hc Hk]. apply In_cells in Hc.
  destruct Hc as [Hw [Ht Hs]]. apply indexed_In0 in Hs. exists w, t, i, s. repeat split; auto.
Qed.

Lemma pl_strategy_pinst : forall I x w t i s, NoDup (map tt_id (ti_tasks I)) -> In x (ti_tasks I) ->
  nth_error (tt_strats x) i = Some s -> pl_strategy (to_pinst I) (mkPl (tt_id x) w i t) = Some s.
Proof. intros. unfold pl_strategy. cbn [pl_task pl_strat]. rewrite find_task_pinst; auto. Qed.

(* ------------------------------------------------------------------ well-formedness and timing *)
Lemma sound_wellformed : forall I a, wf_inst I -> plan_wellformed (to_pinst I) (plan_of (readback I a)).
Proof.
  intros I a W. split; [apply plan_NoDup, W|]. apply Forall_forall. intros pl Hpl.
  apply In_plan in Hpl. destruct Hpl as [x [Hx R]]. apply free_tasks_In in Hx. destruct Hx as [Hx Hr].
  apply readback_cell in R. destruct R as [w [t [i [s [Hw [Ht [Hs [Hk [_ [_ ->]]]]]]]]]].
  destruct (find_worker_pinst (ti_workers I) w Hw) as [pw [Fw _]].
  exists (to_ptask I x), pw, s. cbn [pl_task pl_worker pl_strat]. repeat split; auto.
  - apply find_task_pinst; auto. apply W.
  - cbn. unfold is_running in Hr. destruct (tt_state x); auto; discriminate.
Qed.

Lemma sound_timing : forall I a, wf_inst I -> Forall (timing_ok (conv_tetri I) (to_pinst I)) (plan_of (readback I a)).
Proof.
  intros I a W. apply Forall_forall. intros pl Hpl.
  apply In_plan in Hpl. destruct Hpl as [x [Hx R]]. apply free_tasks_In in Hx. destruct Hx as [Hx Hr].
  apply readback_cell in R. destruct R as [w [t [i [s [Hw [Ht [Hs [Hk [_ [_ ->]]]]]]]]]].
  apply cell_kind_var in Hk. destruct Hk as [_ [Hrel Hdl]].
  exists (to_ptask I x), s. cbn [pl_task pl_worker pl_strat pl_start]. repeat split; auto.
  - apply find_task_pinst; auto. apply W.
  - cbn. pose proof (slots_ge_now I t (wf_disc I W) Ht). lia.
  - cbn. now apply on_grid_iff.
Qed.

(* ------------------------------------------------------------------ the start-time variable (Gurobi) *)
Lemma consecutive_In : forall l i p q, nth_error l i = Some p -> nth_error l (S i) = Some q -> In (p, q) (consecutive l).
Proof.
  induction l as [|x l IH]; intros i p q H1 H2; [destruct i; discriminate|].
  destruct l as [|y l']; [destruct i; cbn in H2; [discriminate|destruct i; discriminate]|].
  destruct i as [|i].
  - cbn in H1, H2. inversion H1; inversion H2; subst. cbn. now left.
  - cbn [consecutive]. right. apply (IH i); auto.
Qed.
Lemma nth_error_seq' : forall n s k, (k < n)%nat -> nth_error (seq s n) k = Some (s + k)%nat.
Proof.
  induction n as [|n IH]; intros s k H; [lia|]. destruct k as [|k]; cbn.
  - f_equal. lia.
  - rewrite IH by lia. f_equal. lia.
Qed.
Lemma nth_slots : forall I k, (k < nslots I)%nat -> nth_error (slots I) k = Some (slot I k).
Proof.
  intros I k H. unfold slots. apply map_nth_error. rewrite nth_error_seq' by lia. reflexivity.
Qed.

Section Start.
  Variable I : tinst.
  Variable a : assignment.
  Hypothesis W : wf_inst I.
  Hypothesis Hsat : sat (gen_tetri I) a = true.
  Hypothesis Hfl : ti_flavour I = Gurobi.

  Definition cellsum_at (x : ttask) (t : Z) : Z := sumf (fun c => a (cell_var x c)) (cells_at I x t).

  Lemma task_row_gurobi_slot : forall x t c, In t (slots I) ->
    In c [CLin (RPlacedAt (tt_id x) t) ((1, VPlacedAt (tt_id x) t) :: neg (map (fun c => (1, cell_var x c)) (cells_at I x t))) SEq 0;
          CLin (RNotPlacedAt (tt_id x) t) [(1, VNotPlacedAt (tt_id x) t); (1, VPlacedAt (tt_id x) t)] SEq 1] ->
    In c (task_rows I x).
  Proof.
    intros x t c Ht Hc. unfold task_rows. rewrite Hfl. apply in_or_app. left. apply in_or_app. left.
    apply in_flat_map. exists t. split; auto.
  Qed.
  Lemma task_row_gurobi_pair : forall x p q c, In (p, q) (consecutive (slots I)) ->
    In c [CAnd (RPhase (tt_id x) q) (VPhase (tt_id x) q) [VNotPlacedAt (tt_id x) p; VPlacedAt (tt_id x) q];
          CInd (RStartAt (tt_id x) q) (VPhase (tt_id x) q) 1 [(1, VStart (tt_id x))] SEq q] ->
    In c (task_rows I x).
  Proof.
    intros x p q c Hp Hc. unfold task_rows. rewrite Hfl. apply in_or_app. left. apply in_or_app. right. apply in_or_app. left.
    apply in_flat_map. exists (p, q). split; auto.
  Qed.
  Lemma task_row_gurobi_first : forall x,
    In (CInd (RStartAt (tt_id x) (first_slot I)) (VPlacedAt (tt_id x) (first_slot I)) 1 [(1, VStart (tt_id x))] SEq (first_slot I))
       (task_rows I x).
  Proof.
    intros x. unfold task_rows. rewrite Hfl. apply in_or_app. left. apply in_or_app. right. apply in_or_app. right. now left.
  Qed.
  Lemma task_var_gurobi_slot : forall x t, In t (slots I) ->
    In (mkVD (VPlacedAt (tt_id x) t) TBin 0 (Some 1)) (task_vars I x).
  Proof.
    intros x t Ht. unfold task_vars. rewrite Hfl. apply in_or_app. right. apply in_or_app. left. apply in_or_app. left.
    apply in_flat_map. exists t. split; auto. now left.
  Qed.

  Lemma placed_at_sum : forall x t, In x (free_tasks I) -> In t (slots I) -> a (VPlacedAt (tt_id x) t) = cellsum_at x t.
  Proof.
    intros x t Hx Ht.
    pose proof (sat_rows _ _ _ Hsat (row_of_task _ _ _ Hx (task_row_gurobi_slot x t _ Ht (or_introl eq_refl)))) as S.
    cbn [sat_constr cmp] in S. rewrite eval_lin_cons, eval_lin_neg, eval_lin_sumf, sumf_map in S.
    unfold cellsum_at. assert (E : sumf (fun x0 => fst (1, cell_var x x0) * a (snd (1, cell_var x x0))) (cells_at I x t) =
                                   sumf (fun c => a (cell_var x c)) (cells_at I x t)).
    { apply sumf_ext. intros c _. cbn [fst snd]. lia. }
    rewrite E in S. lia.
  Qed.
  Lemma not_placed_at : forall x t, In x (free_tasks I) -> In t (slots I) ->
    a (VNotPlacedAt (tt_id x) t) = 1 - a (VPlacedAt (tt_id x) t).
  Proof.
    intros x t Hx Ht.
    pose proof (sat_rows _ _ _ Hsat (row_of_task _ _ _ Hx (task_row_gurobi_slot x t _ Ht (or_intror (or_introl eq_refl))))) as S.
    cbn [sat_constr cmp] in S. rewrite !eval_lin_cons in S. cbn [eval_lin fold_right] in S. lia.
  Qed.

  Lemma cells_at_nonneg : forall x c, In x (free_tasks I) -> In c (var_cells I x) -> 0 <= a (cell_var x c).
  Proof. intros x c Hx Hc. pose proof (cell_binary I a Hsat x c Hx Hc). lia. Qed.

  (* the units placed at two different slots add up to at most the task's total *)
  Lemma cellsum_two_slots : forall x t t', In x (free_tasks I) -> t <> t' ->
    cellsum_at x t + cellsum_at x t' <= cellsum I a x.
  Proof.
    intros x t t' Hx Hne. unfold cellsum_at, cells_at, cellsum.
    rewrite (sumf_filter_split _ (fun c => a (cell_var x c)) (fun c => match c with (_, t0, _) => t0 =? t end) (var_cells I x)).
    assert (sumf (fun c => a (cell_var x c)) (filter (fun c => match c with (_, t0, _) => t0 =? t' end) (var_cells I x)) <=
            sumf (fun c => a (cell_var x c)) (filter (fun c => negb (match c with (_, t0, _) => t0 =? t end)) (var_cells I x))).
    { apply sumf_filter_sub.
      - intros c Hc. now apply cells_at_nonneg.
      - intros [[w0 t0] s0] _ E. lia. }
    lia.
  Qed.

  Lemma start_link : forall x w t i s, In x (free_tasks I) -> In (w, t, (i, s)) (var_cells I x) ->
    a (VCell (tt_id x) (tw_idx w) t i) = 1 -> a (VStart (tt_id x)) = t.
  Proof.
    intros x w t i s Hx Hc H1.
    pose proof Hc as Hc'. apply In_var_cells in Hc'. destruct Hc' as [Hcell _]. apply In_cells in Hcell. destruct Hcell as [_ [Ht _]].
    (* placed_at t = 1 *)
    assert (Hge : 1 <= cellsum_at x t).
    { unfold cellsum_at.
      assert (Hle : (fun c => a (cell_var x c)) (w, t, (i, s)) <= sumf (fun c => a (cell_var x c)) (cells_at I x t)).
      { apply (sumf_In_le _ (fun c => a (cell_var x c))).
        - intros c Hc2. unfold cells_at in Hc2. apply filter_In in Hc2. apply cells_at_nonneg; tauto.
        - unfold cells_at. apply filter_In. split; auto. apply Z.eqb_refl. }
      cbn [cell_var] in Hle. rewrite H1 in Hle. exact Hle. }
    assert (Hp : a (VPlacedAt (tt_id x) t) = 1).
    { pose proof (placed_at_sum x t Hx Ht).
      pose proof (sat_bounds _ _ _ Hsat (var_of_task _ _ _ Hx (task_var_gurobi_slot x t Ht))) as B.
      unfold sat_bound in B. cbn [vd_lb vd_var vd_ub] in B. lia. }
    apply In_slots in Ht. destruct Ht as [k [Hk ->]].
    destruct k as [|k].
    - (* first slot *)
      assert (E0 : slot I 0 = first_slot I) by (unfold slot, first_slot; lia).
      pose proof (sat_rows _ _ _ Hsat (row_of_task _ _ _ Hx (task_row_gurobi_first x))) as S.
      cbn [sat_constr cmp] in S. rewrite eval_lin_cons in S. cbn [eval_lin fold_right] in S. rewrite <- E0 in S. rewrite Hp in S.
      lia.
    - (* slot k+1: the preceding slot is empty *)
      assert (Hpair : In (slot I k, slot I (S k)) (consecutive (slots I))).
      { apply (consecutive_In _ k); apply nth_slots; lia. }
      assert (Hne : slot I (S k) <> slot I k) by (unfold slot; pose proof (wf_disc I W); nia).
      assert (Hk' : In (slot I k) (slots I)) by (apply In_slots; exists k; split; [lia|reflexivity]).
      pose proof (cellsum_two_slots x (slot I (S k)) (slot I k) Hx Hne) as H2.
      pose proof (cellsum_le_1 I a Hsat x Hx) as Hle.
      assert (H0 : 0 <= cellsum_at x (slot I k)).
      { unfold cellsum_at. apply sumf_nonneg. intros c Hc2. unfold cells_at in Hc2. apply filter_In in Hc2. apply cells_at_nonneg; tauto. }
      assert (Hnp : a (VNotPlacedAt (tt_id x) (slot I k)) = 1).
      { rewrite not_placed_at by auto. rewrite (placed_at_sum x (slot I k)) by auto. lia. }
      pose proof (sat_rows _ _ _ Hsat (row_of_task _ _ _ Hx (task_row_gurobi_pair x _ _ _ Hpair (or_introl eq_refl)))) as SA.
      cbn [sat_constr forallb] in SA. rewrite Hnp, Hp in SA. rewrite !Z.eqb_refl in SA. cbn [andb] in SA.
      pose proof (sat_rows _ _ _ Hsat (row_of_task _ _ _ Hx (task_row_gurobi_pair x _ _ _ Hpair (or_intror (or_introl eq_refl))))) as SI.
      cbn [sat_constr cmp] in SI. rewrite eval_lin_cons in SI. cbn [eval_lin fold_right] in SI.
      assert (Eph : a (VPhase (tt_id x) (slot I (S k))) = 1) by lia. rewrite Eph in SI. lia.
  Qed.
End Start.

(* ------------------------------------------------------------------ precedence (C11 part, Gurobi) *)
Lemma find_pl_NoDup : forall p x, NoDup (map pl_task p) -> In x p -> find_pl p (pl_task x) = Some x.
Proof.
  induction p as [|y p IH]; intros x Hn Hx; [contradiction|]. cbn. inversion Hn as [|? ? Hnot Hn']; subst.
  destruct Hx as [->|Hx]; [now rewrite Z.eqb_refl|].
  destruct (pl_task y =? pl_task x) eqn:E.
  - exfalso. apply Hnot. apply Z.eqb_eq in E. rewrite E. now apply in_map.
  - now apply IH.
Qed.

Definition placed_val (I : tinst) (a : assignment) (p : ttask) : Z :=
  eval_lin a (fst (placed_expr I p)) + snd (placed_expr I p).

Lemma placed_sum : forall I a ps,
  eval_lin a (flat_map (fun p => fst (placed_expr I p)) ps) + fold_right Z.add 0 (map (fun p => snd (placed_expr I p)) ps)
  = sumf (placed_val I a) ps.
Proof.
  induction ps as [|p ps IH]; cbn [flat_map map fold_right sumf]; [reflexivity|].
  rewrite eval_lin_app. unfold placed_val at 1. lia.
Qed.

Lemma parents_of_length : forall I x, (length (parents_of I x) <= length (tt_parents x))%nat.
Proof.
  intros I x. unfold parents_of. induction (tt_parents x) as [|pid l IH]; cbn; [lia|].
  rewrite app_length. destruct (find_tt (ti_tasks I) pid); cbn; lia.
Qed.
Lemma parents_of_In : forall I x pid q, In pid (tt_parents x) -> find_tt (ti_tasks I) pid = Some q -> In q (parents_of I x).
Proof. intros I x pid q Hp Hf. unfold parents_of. apply in_flat_map. exists pid. split; auto. rewrite Hf. now left. Qed.
Lemma parents_of_tasks : forall I x q, In q (parents_of I x) -> In q (ti_tasks I).
Proof.
  intros I x q H. unfold parents_of in H. apply in_flat_map in H. destruct H as [pid [_ H]].
  destruct (find_tt (ti_tasks I) pid) eqn:F; [|contradiction]. destruct H as [<-|[]]. apply find_tt_In in F. tauto.
Qed.

Section Prec.
  Variable I : tinst.
  Variable a : assignment.
  Hypothesis W : wf_inst I.
  Hypothesis Hsat : sat (gen_tetri I) a = true.
  Hypothesis Hfl : ti_flavour I = Gurobi.

  Lemma placed_cellsum : forall x pl, In x (free_tasks I) -> readback_task I a x = Some pl -> 1 <= cellsum I a x.
  Proof.
    intros x pl Hx R. apply readback_cell in R. destruct R as [w [t [i [s [_ [_ [_ [_ [Hc [H1 _]]]]]]]]]].
    assert (Hle : (fun c => a (cell_var x c)) (w, t, (i, s)) <= cellsum I a x).
    { unfold cellsum. apply (sumf_In_le _ (fun c => a (cell_var x c))); auto. intros c Hc2. now apply (cells_at_nonneg I a Hsat). }
    cbn [cell_var] in Hle. lia.
  Qed.

  Lemma placed_val_le1 : forall q, In q (ti_tasks I) -> placed_val I a q <= 1.
  Proof.
    intros q Hq. unfold placed_val, placed_expr. destruct (is_running q) eqn:R; cbn [orb fst snd eval_lin fold_right]; [lia|].
    destruct (must_stay I q) eqn:M; cbn [fst snd eval_lin fold_right]; [lia|].
    assert (Hf : In q (free_tasks I)) by (apply free_tasks_In; auto).
    rewrite (is_placed_cellsum I a Hsat q Hf M). pose proof (cellsum_le_1 I a Hsat q Hf). lia.
  Qed.

  (* a non-running parent whose placed value is 1 has a placement in the read-back *)
  Lemma placed_val_readback : forall q, In q (ti_tasks I) -> is_running q = false -> placed_val I a q = 1 ->
    exists pl, readback_task I a q = Some pl.
  Proof.
    intros q Hq R H1. assert (Hf : In q (free_tasks I)) by (apply free_tasks_In; auto).
    apply (cellsum_one_readback I a Hsat q Hf).
    unfold placed_val, placed_expr in H1. rewrite R in H1. cbn [orb] in H1.
    destruct (must_stay I q) eqn:M; cbn [fst snd eval_lin fold_right] in H1.
    - rewrite (must_stay_cellsum I a Hsat q Hf M). lia.
    - rewrite (is_placed_cellsum I a Hsat q Hf M) in H1. lia.
  Qed.

  Lemma sound_precedence : Forall (precedence_ok (conv_tetri I) (to_pinst I) (plan_of (readback I a))) (plan_of (readback I a)).
  Proof.
    apply Forall_forall. intros pl Hpl. pose proof Hpl as Hpl0.
    apply In_plan in Hpl. destruct Hpl as [x [Hxf R]]. pose proof Hxf as Hxf'. apply free_tasks_In in Hxf'. destruct Hxf' as [Hx Hrun].
    pose proof (readback_pl_task _ _ _ _ R) as Eid.
    intros t pid Ft Hpid. rewrite Eid, (find_task_pinst I x (wf_ids I W) Hx) in Ft. inversion Ft; subst t. clear Ft.
    cbn [to_ptask pt_parents] in Hpid. rewrite Hfl in Hpid.
    destruct (wf_parents I W x pid Hx Hpid) as [q Fq]. pose proof (find_tt_In _ _ _ Fq) as [Hq Eq].
    pose proof (parents_of_In I x pid q Hpid Fq) as Hqp.
    (* the dependency rows of x *)
    assert (Hrows : forall c, In c (dep_rows I x) -> sat_constr a c = true).
    { intros c Hc. apply (sat_rows _ _ _ Hsat). apply (row_of_dep I x c Hx Hc). }
    unfold dep_rows in Hrows. rewrite Hfl, Hrun in Hrows.
    destruct (parents_of I x) as [|p0 ps] eqn:Eps; [contradiction|]. rewrite <- Eps in *. clear p0 ps Eps.
    assert (Hne : exists p0 ps, parents_of I x = p0 :: ps) by (destruct (parents_of I x); [contradiction|eauto]).
    destruct Hne as [p0 [ps Eps]].
    assert (Hrows' : forall c,
      In c (map (fun p => let '(pe, pc) := start_expr I p in
                   match tt_state p with
                   | SRunning _ _ rem => CLin (RAfterRunning (tt_id x) (tt_id p) (rem + 1)) ((1, VStart (tt_id x)) :: neg pe) SGe (pc + rem + 1)
                   | _ => CLin (RAfter (tt_id x) (tt_id p)) ((1, VStart (tt_id x)) :: neg pe) SGe (pc + slowest_runtime (tt_strats p) + 1)
                   end) (parents_of I x) ++
            (let sum_e := flat_map (fun p => fst (placed_expr I p)) (parents_of I x) in
             let sum_c := fold_right Z.add 0 (map (fun p => snd (placed_expr I p)) (parents_of I x)) in
             let '(xe, xc) := placed_expr I x in
             [CInd (RParFalse (tt_id x)) (VAllPar (tt_id x)) 0 sum_e SLe (tt_nparents x - 1 - sum_c);
              CInd (RParTrue (tt_id x)) (VAllPar (tt_id x)) 1 sum_e SEq (tt_nparents x - sum_c);
              CInd (RPlacementFalse (tt_id x)) (VAllPar (tt_id x)) 0 xe SEq (0 - xc)])) -> sat_constr a c = true).
    { intros c Hc. apply Hrows. rewrite Eps in *. exact Hc. }
    clear Hrows.
    (* x is placed, so all_parents_placed = 1 *)
    pose proof (placed_cellsum x pl Hxf R) as Hcs.
    assert (Hvar : In (mkVD (VAllPar (tt_id x)) TBin 0 (Some 1)) (dep_vars I x)).
    { unfold dep_vars. rewrite Hfl, Hrun, Eps. now left. }
    pose proof (sat_bounds _ _ _ Hsat (var_of_dep _ _ _ Hx Hvar)) as Bap. unfold sat_bound in Bap. cbn [vd_lb vd_var vd_ub] in Bap.
    assert (Hap : a (VAllPar (tt_id x)) = 1).
    { destruct (Z.eq_dec (a (VAllPar (tt_id x))) 1) as [E|E]; [exact E|]. exfalso.
      assert (E0 : a (VAllPar (tt_id x)) = 0) by lia.
      specialize (Hrows' (let '(xe, xc) := placed_expr I x in CInd (RPlacementFalse (tt_id x)) (VAllPar (tt_id x)) 0 xe SEq (0 - xc))).
      assert (Hin : In (let '(xe, xc) := placed_expr I x in CInd (RPlacementFalse (tt_id x)) (VAllPar (tt_id x)) 0 xe SEq (0 - xc))
                (map (fun p => let '(pe, pc) := start_expr I p in
                   match tt_state p with
                   | SRunning _ _ rem => CLin (RAfterRunning (tt_id x) (tt_id p) (rem + 1)) ((1, VStart (tt_id x)) :: neg pe) SGe (pc + rem + 1)
                   | _ => CLin (RAfter (tt_id x) (tt_id p)) ((1, VStart (tt_id x)) :: neg pe) SGe (pc + slowest_runtime (tt_strats p) + 1)
                   end) (parents_of I x) ++
            (let sum_e := flat_map (fun p => fst (placed_expr I p)) (parents_of I x) in
             let sum_c := fold_right Z.add 0 (map (fun p => snd (placed_expr I p)) (parents_of I x)) in
             let '(xe, xc) := placed_expr I x in
             [CInd (RParFalse (tt_id x)) (VAllPar (tt_id x)) 0 sum_e SLe (tt_nparents x - 1 - sum_c);
              CInd (RParTrue (tt_id x)) (VAllPar (tt_id x)) 1 sum_e SEq (tt_nparents x - sum_c);
              CInd (RPlacementFalse (tt_id x)) (VAllPar (tt_id x)) 0 xe SEq (0 - xc)]))).
      { apply in_or_app. right. cbv zeta. destruct (placed_expr I x) as [xe xc]. right. right. now left. }
      specialize (Hrows' Hin). unfold placed_expr in Hrows'. rewrite Hrun in Hrows'. cbn [orb] in Hrows'.
      destruct (must_stay I x) eqn:M; cbn [sat_constr cmp eval_lin fold_right fst snd] in Hrows'.
      - lia.
      - rewrite (is_placed_cellsum I a Hsat x Hxf M) in Hrows'. lia. }
    (* hence the placed values of the parents add up to the number of parents *)
    assert (Hsum : sumf (placed_val I a) (parents_of I x) = tt_nparents x).
    { specialize (Hrows' (CInd (RParTrue (tt_id x)) (VAllPar (tt_id x)) 1 (flat_map (fun p => fst (placed_expr I p)) (parents_of I x)) SEq
                              (tt_nparents x - fold_right Z.add 0 (map (fun p => snd (placed_expr I p)) (parents_of I x))))).
      rewrite <- placed_sum.
      assert (Hs : sat_constr a (CInd (RParTrue (tt_id x)) (VAllPar (tt_id x)) 1 (flat_map (fun p => fst (placed_expr I p)) (parents_of I x)) SEq
                              (tt_nparents x - fold_right Z.add 0 (map (fun p => snd (placed_expr I p)) (parents_of I x)))) = true).
      { apply Hrows'. apply in_or_app. right. cbv zeta. destruct (placed_expr I x) as [xe xc]. right. now left. }
      cbn [sat_constr cmp] in Hs. rewrite Hap in Hs. lia. }
    assert (Hq1 : placed_val I a q = 1).
    { apply (sumf_all_one _ (placed_val I a) (parents_of I x)); auto.
      - intros y Hy. apply placed_val_le1. eapply parents_of_tasks; eauto.
      - rewrite Hsum. pose proof (parents_of_length I x). pose proof (wf_nparents I W x Hx). lia. }
    (* the row that orders x after q *)
    assert (Hrow : sat_constr a (let '(pe, pc) := start_expr I q in
                   match tt_state q with
                   | SRunning _ _ rem => CLin (RAfterRunning (tt_id x) (tt_id q) (rem + 1)) ((1, VStart (tt_id x)) :: neg pe) SGe (pc + rem + 1)
                   | _ => CLin (RAfter (tt_id x) (tt_id q)) ((1, VStart (tt_id x)) :: neg pe) SGe (pc + slowest_runtime (tt_strats q) + 1)
                   end) = true).
    { apply Hrows'. apply in_or_app. left.
      apply (in_map (fun p => let '(pe, pc) := start_expr I p in
                   match tt_state p with
                   | SRunning _ _ rem => CLin (RAfterRunning (tt_id x) (tt_id p) (rem + 1)) ((1, VStart (tt_id x)) :: neg pe) SGe (pc + rem + 1)
                   | _ => CLin (RAfter (tt_id x) (tt_id p)) ((1, VStart (tt_id x)) :: neg pe) SGe (pc + slowest_runtime (tt_strats p) + 1)
                   end) _ q Hqp). }
    (* start of x *)
    pose proof R as Rc. apply readback_cell in Rc. destruct Rc as [w [ts [i [s [_ [_ [_ [_ [Hc [H1 Epl]]]]]]]]]].
    pose proof (start_link I a W Hsat Hfl x w ts i s Hxf Hc H1) as Sx.
    assert (Est : pl_start pl = ts) by (rewrite Epl; reflexivity).
    exists (to_ptask I q). rewrite <- Eq. rewrite (find_task_pinst I q (wf_ids I W) Hq).
    unfold parent_end. cbn [to_ptask pt_fixed pt_id pt_strats conv_tetri cv_slowest cv_gap].
    unfold start_expr in Hrow.
    destruct (tt_state q) as [| |wq sq rem] eqn:Sq.
    - (* free parent *)
      assert (Rq : is_running q = false) by (unfold is_running; now rewrite Sq).
      rewrite Rq in Hrow. destruct (placed_val_readback q Hq Rq Hq1) as [plq Rplq].
      pose proof Rplq as Rc. apply readback_cell in Rc. destruct Rc as [wq [tq [iq [sq [_ [_ [_ [_ [Hcq [H1q Eplq]]]]]]]]]].
      assert (Hqf : In q (free_tasks I)) by (apply free_tasks_In; auto).
      pose proof (start_link I a W Hsat Hfl q wq tq iq sq Hqf Hcq H1q) as Sq'.
      assert (Hinq : In plq (plan_of (readback I a))) by (apply In_plan; eauto).
      pose proof (find_pl_NoDup _ plq (plan_NoDup I a (wf_ids I W)) Hinq) as Fpl.
      rewrite (readback_pl_task _ _ _ _ Rplq) in Fpl. rewrite Fpl.
      eexists. split; [reflexivity|]. split; [reflexivity|].
      cbn [sat_constr cmp] in Hrow. rewrite eval_lin_cons, eval_lin_neg in Hrow. cbn [eval_lin fold_right fst snd] in Hrow.
      rewrite Eplq. cbn [pl_start]. lia.
    - (* scheduled parent *)
      assert (Rq : is_running q = false) by (unfold is_running; now rewrite Sq).
      rewrite Rq in Hrow. destruct (placed_val_readback q Hq Rq Hq1) as [plq Rplq].
      pose proof Rplq as Rc. apply readback_cell in Rc. destruct Rc as [wq [tq [iq [sq [_ [_ [_ [_ [Hcq [H1q Eplq]]]]]]]]]].
      assert (Hqf : In q (free_tasks I)) by (apply free_tasks_In; auto).
      pose proof (start_link I a W Hsat Hfl q wq tq iq sq Hqf Hcq H1q) as Sq'.
      assert (Hinq : In plq (plan_of (readback I a))) by (apply In_plan; eauto).
      pose proof (find_pl_NoDup _ plq (plan_NoDup I a (wf_ids I W)) Hinq) as Fpl.
      rewrite (readback_pl_task _ _ _ _ Rplq) in Fpl. rewrite Fpl.
      eexists. split; [reflexivity|]. split; [reflexivity|].
      cbn [sat_constr cmp] in Hrow. rewrite eval_lin_cons, eval_lin_neg in Hrow. cbn [eval_lin fold_right fst snd] in Hrow.
      rewrite Eplq. cbn [pl_start]. lia.
    - (* running parent *)
      assert (Rq : is_running q = true) by (unfold is_running; now rewrite Sq).
      rewrite Rq in Hrow.
      eexists. split; [reflexivity|]. split; [reflexivity|].
      cbn [sat_constr cmp neg map] in Hrow. rewrite eval_lin_cons in Hrow. cbn [eval_lin fold_right fst snd fx_remaining pi_now to_pinst] in Hrow.
      cbn [fx_remaining pi_now to_pinst]. lia.
  Qed.
End Prec.

(* ------------------------------------------------------------------ capacity (C10 part) *)
Lemma rget_nonneg : forall v r, (forall rq, In rq v -> 0 <= snd rq) -> 0 <= rget v r.
Proof.
  induction v as [|[k q] v IH]; intros r H; cbn; [lia|].
  assert (0 <= q) by (apply (H (k, q)); now left). assert (0 <= rget v r) by (apply IH; intros; apply H; now right).
  destruct (k =? r); lia.
Qed.
Lemma rget_fits_zero : forall total s r, fits total s = true -> (forall rq, In rq (st_req s) -> 0 <= snd rq) ->
  rget total r = 0 -> rget (st_req s) r = 0.
Proof.
  intros total s r Hf Hn H0. unfold fits in Hf. rewrite forallb_forall in Hf.
  induction (st_req s) as [|[k q] v IH]; cbn; [reflexivity|].
  assert (0 <= q) by (apply (Hn (k, q)); now left).
  assert (Hq : q <= rget total k) by (specialize (Hf (k, q) (or_introl eq_refl)); cbn in Hf; lia).
  rewrite IH; [|intros; apply Hf; now right|intros; apply Hn; now right].
  destruct (k =? r) eqn:E; [|lia]. apply Z.eqb_eq in E. subst k. lia.
Qed.
Lemma uniq_types_aux_In : forall v seen total r,
  ~ In r seen -> In r (map fst v) -> In (r, rget total r) (uniq_types_aux seen v total).
Proof.
  induction v as [|[k q] v IH]; intros seen total r Hs Hin; [contradiction|]. cbn [uniq_types_aux].
  destruct (existsb (Z.eqb k) seen) eqn:E.
  - apply IH; auto. destruct Hin as [Hk|Hin]; auto. cbn in Hk. subst k. exfalso. apply Hs.
    apply existsb_exists in E. destruct E as [y [Hy E]]. apply Z.eqb_eq in E. now subst.
  - destruct (Z.eq_dec k r) as [->|Hne]; [now left|]. right. apply IH.
    + intros [H|H]; auto.
    + destruct Hin as [Hk|Hin]; auto. cbn in Hk. contradiction.
Qed.
Lemma rget_key : forall v r, rget v r <> 0 -> In r (map fst v).
Proof.
  induction v as [|[k q] v IH]; intros r H; cbn in *; [lia|].
  destruct (k =? r) eqn:E; [left; lia|]. right. apply IH. lia.
Qed.
Lemma uniq_types_In : forall total r, rget total r <> 0 -> In (r, rget total r) (uniq_types total).
Proof. intros. unfold uniq_types. apply uniq_types_aux_In; auto. now apply rget_key. Qed.

Section Cap.
  Variable I : tinst.
  Variable a : assignment.
  Hypothesis W : wf_inst I.
  Hypothesis Hsat : sat (gen_tetri I) a = true.

  Let PI := to_pinst I.
  Let cv := conv_tetri I.
  Let p := plan_of (readback I a).

  (* contribution of one placement to the demand on worker index widx for r at tau *)
  Definition gdem (widx r tau : Z) (pl : placement) : Z :=
    if (pl_worker pl =? widx) && pl_active cv PI pl tau
    then match pl_strategy PI pl with Some s => rget (st_req s) r | None => 0 end else 0.

  Lemma demand_plan_sum : forall widx r tau,
    demand_plan cv PI p widx r tau = sumf (fun x => sumf (gdem widx r tau) (rb_list I a x)) (free_tasks I).
  Proof.
    intros. unfold demand_plan. rewrite fold_add_map. unfold p. rewrite plan_of_readback, sumf_flat_map. reflexivity.
  Qed.

  Lemma gdem_cell : forall x w0 t0 i s widx r tau, In x (ti_tasks I) -> nth_error (tt_strats x) i = Some s ->
    gdem widx r tau (mkPl (tt_id x) (tw_idx w0) i t0) =
    if (tw_idx w0 =? widx) && occupies t0 (st_runtime s) tau then rget (st_req s) r else 0.
  Proof.
    intros x w0 t0 i s widx r tau Hx Hs. unfold gdem, pl_active. cbn [pl_worker pl_start]. unfold PI.
    rewrite (pl_strategy_pinst I x (tw_idx w0) t0 i s (wf_ids I W) Hx Hs).
    unfold occupies, cv, conv_tetri. cbn [cv_closed]. rewrite Z.add_0_r. reflexivity.
  Qed.

  Lemma req_nonneg : forall x s r, In x (ti_tasks I) -> In s (tt_strats x) -> 0 <= rget (st_req s) r.
  Proof. intros x s r Hx Hs. apply rget_nonneg. intros rq Hrq. eapply (wf_req I W); eauto. Qed.

  Lemma gdem_nonneg : forall x widx r tau pl, In x (free_tasks I) -> readback_task I a x = Some pl -> 0 <= gdem widx r tau pl.
  Proof.
    intros x widx r tau pl Hx R. apply free_tasks_In in Hx. destruct Hx as [Hx _].
    apply readback_cell in R. destruct R as [w0 [t0 [i [s [_ [_ [Hs [_ [_ [_ ->]]]]]]]]]].
    rewrite (gdem_cell x w0 t0 i s); auto. destruct (_ && _); [|lia]. apply (req_nonneg x); auto. eapply nth_error_In; eauto.
  Qed.

  (* the terms of the capacity row contributed by task x, as a sum over its variable cells *)
  Definition cap_term_val (w : tworker) (r t : Z) (x : ttask) (c : tworker * Z * (nat * strat)) : Z :=
    match c with (w', t0, (_, s)) =>
      if (tw_idx w' =? tw_idx w) && occupies t0 (st_runtime s) t && negb (rget (st_req s) r =? 0)
      then rget (st_req s) r * a (cell_var x c) else 0 end.
  Lemma eval_cap_terms : forall w r t x, is_running x = false ->
    eval_lin a (cap_terms I w r t x) = sumf (cap_term_val w r t x) (var_cells I x).
  Proof.
    intros w r t x Hr. unfold cap_terms. rewrite Hr. rewrite eval_lin_sumf, sumf_flat_map. apply sumf_ext.
    intros [[w' t0] [i s]] _. unfold cap_term_val. destruct (_ && _ && _); cbn [sumf fst snd]; lia.
  Qed.
  Lemma cap_term_val_nonneg : forall w r t x c, In x (free_tasks I) -> In c (var_cells I x) -> 0 <= cap_term_val w r t x c.
  Proof.
    intros w r t x [[w' t0] [i s]] Hx Hc. unfold cap_term_val. destruct (_ && _ && _); [|lia].
    pose proof (cell_binary I a Hsat x _ Hx Hc). apply free_tasks_In in Hx. destruct Hx as [Hx _].
    apply In_var_cells in Hc. destruct Hc as [Hc _]. apply In_cells in Hc. destruct Hc as [_ [_ Hs]]. apply indexed_In0 in Hs.
    apply nth_error_In in Hs. pose proof (req_nonneg x s r Hx Hs). nia.
  Qed.

  (* per task: what the read-back places is covered by the row's terms *)
  Lemma contrib_le_terms : forall w r t x, In x (free_tasks I) ->
    sumf (gdem (tw_idx w) r t) (rb_list I a x) <= eval_lin a (cap_terms I w r t x).
  Proof.
    intros w r t x Hxf. pose proof Hxf as Hxf'. apply free_tasks_In in Hxf'. destruct Hxf' as [Hx Hr].
    rewrite eval_cap_terms by auto.
    assert (Hnn : 0 <= sumf (cap_term_val w r t x) (var_cells I x)).
    { apply sumf_nonneg. intros c Hc. now apply cap_term_val_nonneg. }
    unfold rb_list. destruct (readback_task I a x) as [pl|] eqn:R; cbn [sumf]; [|lia].
    apply readback_cell in R. destruct R as [w0 [t0 [i [s [_ [_ [Hs [_ [Hc [H1 ->]]]]]]]]]].
    rewrite (gdem_cell x w0 t0 i s); auto. rewrite Z.add_0_r.
    destruct ((tw_idx w0 =? tw_idx w) && occupies t0 (st_runtime s) t) eqn:E; [|lia].
    destruct (rget (st_req s) r =? 0) eqn:E0; [lia|].
    assert (Hle : cap_term_val w r t x (w0, t0, (i, s)) <= sumf (cap_term_val w r t x) (var_cells I x)).
    { apply sumf_In_le; auto. intros c Hc2. now apply cap_term_val_nonneg. }
    unfold cap_term_val in Hle at 1. rewrite E, E0 in Hle. cbn [andb negb cell_var] in Hle. rewrite H1 in Hle. lia.
  Qed.

  Lemma plan_demand_le_row : forall w r t,
    demand_plan cv PI p (tw_idx w) r t <= eval_lin a (flat_map (cap_terms I w r t) (ti_tasks I)).
  Proof.
    intros w r t. rewrite demand_plan_sum. rewrite eval_lin_sumf, sumf_flat_map.
    rewrite (sumf_filter_split _ (fun x => sumf (fun cv0 => fst cv0 * a (snd cv0)) (cap_terms I w r t x))
               (fun x => negb (is_running x)) (ti_tasks I)).
    fold (free_tasks I).
    assert (H0 : sumf (fun x => sumf (fun cv0 => fst cv0 * a (snd cv0)) (cap_terms I w r t x))
                      (filter (fun x => negb (negb (is_running x))) (ti_tasks I)) = 0).
    { apply sumf_zero. intros x Hx. apply filter_In in Hx. destruct Hx as [_ Hx]. unfold cap_terms.
      destruct (is_running x); [reflexivity|discriminate]. }
    rewrite H0, Z.add_0_r. apply sumf_le. intros x Hx. rewrite <- eval_lin_sumf. now apply contrib_le_terms.
  Qed.

  (* the running tasks: the constant of the row is the demand of the fixed occupations *)
  Lemma fx_active_occupies : forall f t, fx_active cv PI f t = occupies (ti_now I) (st_runtime (fx_strat f)) t.
  Proof. intros. unfold fx_active, occupies, fx_len, cv, conv_tetri, PI. cbn. rewrite Z.add_0_r. reflexivity. Qed.

  Lemma demand_fixed_const : forall w r t,
    demand_fixed cv PI (tw_idx w) r t = sumf (cap_const I w r t) (ti_tasks I).
  Proof.
    intros w r t. unfold demand_fixed. rewrite fold_add_map. unfold fixed_of. unfold PI at 2. cbn [to_pinst pi_tasks].
    induction (ti_tasks I) as [|x l IH]; [reflexivity|]. cbn [map flat_map]. rewrite sumf_app, IH. cbn [sumf]. f_equal.
    unfold cap_const. cbn [to_ptask pt_fixed]. destruct (tt_state x) as [| |w' s rem]; cbn [sumf]; try reflexivity.
    cbn [fx_worker fx_strat]. rewrite fx_active_occupies. cbn [fx_strat]. lia.
  Qed.

  Lemma cap_const_le_running : forall w r t x, In x (ti_tasks I) -> 0 <= cap_const I w r t x <= running_req x (tw_idx w) r.
  Proof.
    intros w r t x Hx. unfold cap_const, running_req. destruct (tt_state x) as [| |w' s rem] eqn:S; try lia.
    pose proof (wf_run I W x w' s rem Hx S) as [_ Hn]. pose proof (rget_nonneg (st_req s) r Hn).
    destruct (w' =? tw_idx w); cbn [andb]; [|lia]. destruct (occupies _ _ _); lia.
  Qed.
  Lemma fixed_fits : forall w r t, In w (ti_workers I) -> 0 <= sumf (cap_const I w r t) (ti_tasks I) <= rget (tw_total w) r.
  Proof.
    intros w r t Hw. split.
    - apply sumf_nonneg. intros x Hx. apply (cap_const_le_running w r t x Hx).
    - pose proof (wf_run_fit I W w r Hw).
      assert (sumf (cap_const I w r t) (ti_tasks I) <= sumf (fun x => running_req x (tw_idx w) r) (ti_tasks I)).
      { apply sumf_le. intros x Hx. apply (cap_const_le_running w r t x Hx). }
      lia.
  Qed.

  (* no variable term when the worker has none of the resource *)
  Lemma no_terms_when_zero : forall w r t, In w (ti_workers I) -> rget (tw_total w) r = 0 ->
    flat_map (cap_terms I w r t) (ti_tasks I) = [].
  Proof.
    intros w r t Hw H0. induction (ti_tasks I) as [|x l IH] eqn:El in |- *; [reflexivity|].
    assert (Hsub : forall y, In y (x :: l) -> In y (ti_tasks I)) by (intros; rewrite El; auto).
    clear El. revert Hsub. induction (x :: l) as [|y l' IH']; intros Hsub; [reflexivity|]. cbn [flat_map].
    rewrite IH' by (intros; apply Hsub; now right). rewrite app_nil_r.
    unfold cap_terms. destruct (is_running y); [reflexivity|].
    assert (Hy : In y (ti_tasks I)) by (apply Hsub; now left).
    assert (G : forall cs, (forall c, In c cs -> In c (var_cells I y)) ->
      flat_map (fun c => match c with (w', t0, (_, s)) =>
                 if (tw_idx w' =? tw_idx w) && occupies t0 (st_runtime s) t && negb (rget (st_req s) r =? 0)
                 then [(rget (st_req s) r, cell_var y c)] else [] end) cs = []).
    { induction cs as [|[[w' t0] [i s]] cs IHc]; intros Hc; [reflexivity|]. cbn [flat_map].
      rewrite IHc by (intros; apply Hc; now right). rewrite app_nil_r.
      destruct (tw_idx w' =? tw_idx w) eqn:Ew; cbn [andb]; [|reflexivity].
      destruct (occupies t0 (st_runtime s) t); cbn [andb]; [|reflexivity].
      assert (Hin : In (w', t0, (i, s)) (var_cells I y)) by (apply Hc; now left).
      apply In_var_cells in Hin. destruct Hin as [Hcell Hk]. apply In_cells in Hcell. destruct Hcell as [Hw' [_ Hs]].
      apply indexed_In0 in Hs. apply nth_error_In in Hs. apply cell_kind_var in Hk. destruct Hk as [Hf _].
      (* w' and w have the same index, hence are the same worker *)
      assert (Eww : w' = w).
      { apply Z.eqb_eq in Ew. pose proof (wf_widx I W) as Hn. clear - Hn Hw Hw' Ew.
        induction (ti_workers I) as [|v ws IHw]; [contradiction|]. cbn in Hn. inversion Hn as [|? ? Hnot Hn']; subst.
        destruct Hw as [->|Hw]; destruct Hw' as [->|Hw']; auto.
        - exfalso. apply Hnot. rewrite <- Ew. now apply in_map.
        - exfalso. apply Hnot. rewrite Ew. now apply in_map. }
      subst w'. assert (Ez : rget (st_req s) r = 0).
      { apply (rget_fits_zero (tw_total w) s r Hf); auto. intros rq Hrq. eapply (wf_req I W); eauto. }
      rewrite Ez. reflexivity. }
    apply G. auto.
  Qed.

  (* capacity at a slot time *)
  Lemma capacity_at_slot : forall w r t, In w (ti_workers I) -> In t (slots I) ->
    demand cv PI p (tw_idx w) r t <= rget (tw_total w) r.
  Proof.
    intros w r t Hw Ht. unfold demand. rewrite demand_fixed_const.
    pose proof (plan_demand_le_row w r t) as Hp. pose proof (fixed_fits w r t Hw) as [Hc0 Hc1].
    destruct (flat_map (cap_terms I w r t) (ti_tasks I)) as [|e0 e] eqn:Ee.
    - cbn in Hp. lia.
    - destruct (Z.eq_dec (rget (tw_total w) r) 0) as [E0|E0].
      + rewrite (no_terms_when_zero w r t Hw E0) in Ee. discriminate.
      + assert (Hrow : In (CLin (RCap r (tw_idx w) t) (e0 :: e) SLe
                              (rget (tw_total w) r - fold_right Z.add 0 (map (cap_const I w r t) (ti_tasks I)))) (cap_rows I)).
        { unfold cap_rows. apply in_flat_map. exists t. split; auto. apply in_flat_map. exists w. split; auto.
          apply in_flat_map. exists (r, rget (tw_total w) r). split; [now apply uniq_types_In|].
          cbn [fst snd]. rewrite Ee. assert (En : (rget (tw_total w) r =? 0) = false) by lia. rewrite En.
          destruct (ti_flavour I); cbn [orb]; now left. }
        pose proof (sat_rows _ _ _ Hsat (row_of_cap _ _ Hrow)) as S. cbn [sat_constr cmp] in S. rewrite fold_add_map in S. lia.
  Qed.
End Cap.

(* ------------------------------------------------------------------ slots suffice *)
Section Slots.
  Variable I : tinst.
  Hypothesis W : wf_inst I.

  Lemma nslots_pos : (1 <= nslots I)%nat.
  Proof.
    unfold nslots. pose proof (wf_disc I W). pose proof (wf_hor I W).
    assert (1 <= (horizon I + ti_disc I) / ti_disc I) by (apply Z.div_le_lower_bound; lia). lia.
  Qed.

  (* the last slot that is not after tau *)
  Definition floor_slot (tau : Z) : Z :=
    slot I (Z.to_nat (Z.min ((tau - ti_now I) / ti_disc I) (Z.of_nat (nslots I) - 1))).

  Lemma floor_slot_spec : forall tau, ti_now I <= tau ->
    In (floor_slot tau) (slots I) /\ floor_slot tau <= tau /\
    forall t, In t (slots I) -> t <= tau -> t <= floor_slot tau.
  Proof.
    intros tau Htau. pose proof (wf_disc I W) as Hd. pose proof nslots_pos as Hn.
    assert (Hq : 0 <= (tau - ti_now I) / ti_disc I) by (apply Z.div_pos; lia).
    set (k := Z.min ((tau - ti_now I) / ti_disc I) (Z.of_nat (nslots I) - 1)).
    assert (Hk : 0 <= k) by (unfold k; lia).
    unfold floor_slot. fold k. repeat split.
    - apply In_slots. exists (Z.to_nat k). split; [unfold k; lia|reflexivity].
    - unfold slot. rewrite Z2Nat.id by lia.
      assert (ti_disc I * ((tau - ti_now I) / ti_disc I) <= tau - ti_now I) by (apply Z.mul_div_le; lia).
      assert (ti_disc I * k <= ti_disc I * ((tau - ti_now I) / ti_disc I)) by (apply Z.mul_le_mono_nonneg_l; unfold k; lia).
      lia.
    - intros t Ht Hle. apply In_slots in Ht. destruct Ht as [j [Hj ->]]. unfold slot in *. rewrite Z2Nat.id by lia.
      assert (Z.of_nat j <= (tau - ti_now I) / ti_disc I) by (apply Z.div_le_lower_bound; lia).
      assert (Z.of_nat j <= k) by (unfold k; lia). nia.
  Qed.
End Slots.

Section CapAll.
  Variable I : tinst.
  Variable a : assignment.
  Hypothesis W : wf_inst I.
  Hypothesis Hsat : sat (gen_tetri I) a = true.

  (* slots_suffice: the demand at any instant is bounded by the demand at the last slot before it, because
     every start is a slot time *)
  Lemma slots_suffice : forall widx r tau, ti_now I <= tau ->
    demand (conv_tetri I) (to_pinst I) (plan_of (readback I a)) widx r tau <=
    demand (conv_tetri I) (to_pinst I) (plan_of (readback I a)) widx r (floor_slot I tau).
  Proof.
    intros widx r tau Htau. destruct (floor_slot_spec I W tau Htau) as [Hin [Hle Hmax]].
    unfold demand. apply Z.add_le_mono.
    - rewrite !(demand_plan_sum I a). apply sumf_le. intros x Hx. unfold rb_list.
      destruct (readback_task I a x) as [pl|] eqn:R; cbn [sumf]; [|lia]. rewrite !Z.add_0_r.
      pose proof (gdem_nonneg I a W Hsat x widx r (floor_slot I tau) pl Hx R) as Hnn.
      pose proof Hx as Hx'. apply free_tasks_In in Hx'. destruct Hx' as [Hxt _].
      apply readback_cell in R. destruct R as [w0 [t0 [i [s [_ [Ht0 [Hs [_ [_ [_ ->]]]]]]]]]].
      rewrite (gdem_cell I W x w0 t0 i s widx r (floor_slot I tau) Hxt Hs) in Hnn.
      rewrite (gdem_cell I W x w0 t0 i s widx r (floor_slot I tau) Hxt Hs).
      rewrite (gdem_cell I W x w0 t0 i s widx r tau Hxt Hs).
      destruct (tw_idx w0 =? widx); cbv [andb] in *; [|lia].
      destruct (occupies t0 (st_runtime s) tau) eqn:E; [|exact Hnn].
      apply occupies_iff in E. assert (E2 : occupies t0 (st_runtime s) (floor_slot I tau) = true).
      { apply occupies_iff. specialize (Hmax t0 Ht0). lia. }
      rewrite E2. lia.
    - unfold demand_fixed. rewrite !fold_add_map. apply sumf_le. intros f Hf.
      rewrite !(fx_active_occupies I). destruct (fx_worker f =? widx); cbv [andb]; [|lia].
      (* f comes from a running task: its request is non-negative *)
      assert (Hnn : 0 <= rget (st_req (fx_strat f)) r).
      { unfold fixed_of in Hf. apply in_flat_map in Hf. destruct Hf as [pt [Hpt Hf]]. cbn in Hpt. apply in_map_iff in Hpt.
        destruct Hpt as [x [<- Hx]]. cbn in Hf. destruct (tt_state x) as [| |w' s rem] eqn:S; try contradiction.
        destruct Hf as [<-|[]]. cbn. apply rget_nonneg. apply (wf_run I W x w' s rem Hx S). }
      destruct (occupies (ti_now I) (st_runtime (fx_strat f)) tau) eqn:E.
      + apply occupies_iff in E. assert (E2 : occupies (ti_now I) (st_runtime (fx_strat f)) (floor_slot I tau) = true).
        { apply occupies_iff. pose proof (slots_ge_now I _ (wf_disc I W) Hin). lia. }
        rewrite E2. lia.
      + destruct (occupies _ _ (floor_slot I tau)); lia.
  Qed.

  Lemma sound_capacity : capacity_ok (conv_tetri I) (to_pinst I) (plan_of (readback I a)).
  Proof.
    intros pw tau Hpw Htau r. cbn in Hpw. apply in_map_iff in Hpw. destruct Hpw as [w [<- Hw]]. cbn [pw_id pw_cap].
    cbn in Htau. destruct (floor_slot_spec I W tau Htau) as [Hin _].
    pose proof (slots_suffice (tw_idx w) r tau Htau). pose proof (capacity_at_slot I a W Hsat w r _ Hw Hin). lia.
  Qed.
End CapAll.

(* ------------------------------------------------------------------ soundness, assembled *)
Theorem tetri_sound : forall I a, wf_inst I -> ti_flavour I = Gurobi -> sat (gen_tetri I) a = true ->
  feasible (conv_tetri I) (to_pinst I) (plan_of (readback I a)).
Proof.
  intros I a W Hfl Hsat. repeat split.
  - apply plan_NoDup, W.
  - apply (sound_wellformed I a W).
  - now apply sound_timing.
  - now apply sound_precedence.
  - now apply sound_capacity.
Qed.

(* CPLEX formulation: no dependencies are modelled (the scheduler offers tasks one by one), the rest holds *)
Theorem tetri_sound_cplex : forall I a, wf_inst I -> ti_flavour I = Cplex -> sat (gen_tetri I) a = true ->
  feasible (conv_tetri I) (to_pinst I) (plan_of (readback I a)).
Proof.
  intros I a W Hfl Hsat. repeat split.
  - apply plan_NoDup, W.
  - apply (sound_wellformed I a W).
  - now apply sound_timing.
  - apply Forall_forall. intros pl Hpl t pid Ft Hpid. exfalso.
    apply In_plan in Hpl. destruct Hpl as [x [Hx R]]. apply free_tasks_In in Hx. destruct Hx as [Hx _].
    rewrite (readback_pl_task _ _ _ _ R), (find_task_pinst I x (wf_ids I W) Hx) in Ft. inversion Ft; subst t.
    cbn in Hpid. rewrite Hfl in Hpid. contradiction.
  - now apply sound_capacity.
Qed.
