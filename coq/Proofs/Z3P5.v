(* C10 for the Z3 constraint system, capacity: bit-level lemmas (population count of complementary
   bit sets, shape of the allowed slot patterns). *)
From Coq Require Import ZArith Bool List Lia ZifyBool.
Import ListNotations.
From Verif Require Import Model.Val Gen.Src_Z3 Model.Z3Model Proofs.Z3P Proofs.Z3P2 Proofs.Z3P3.
Open Scope Z_scope.

(* ---------------------------------------------------------------- population count *)
Lemma pcf_zero : forall n, popcount_fuel n 0 = 0.
Proof. induction n as [|n IH]; [reflexivity|]. cbn [popcount_fuel]. rewrite Z.mod_0_l, Z.div_0_l by lia. lia. Qed.

Lemma pcf_extra : forall n k x, 0 <= x < 2 ^ Z.of_nat n -> popcount_fuel (n + k) x = popcount_fuel n x.
Proof.
  induction n as [|n IH]; intros k x Hx.
  - cbn in Hx. assert (x = 0) by lia. subst. cbn [Nat.add popcount_fuel]. apply pcf_zero.
  - cbn [Nat.add popcount_fuel]. f_equal. apply IH.
    rewrite Nat2Z.inj_succ, Z.pow_succ_r in Hx by lia.
    split; [apply Z.div_pos; lia|apply Z.div_lt_upper_bound; lia].
Qed.
Lemma pcf_any : forall n m x, 0 <= x < 2 ^ Z.of_nat n -> 0 <= x < 2 ^ Z.of_nat m -> popcount_fuel n x = popcount_fuel m x.
Proof.
  intros n m x Hn Hm. destruct (Nat.le_ge_cases n m) as [H|H].
  - replace m with (n + (m - n))%nat by lia. symmetry. now apply pcf_extra.
  - replace n with (m + (n - m))%nat by lia. now apply pcf_extra.
Qed.
Lemma popcount_fuel_eq : forall m x, 0 <= x < 2 ^ Z.of_nat m -> popcount x = popcount_fuel m x.
Proof.
  intros m x Hx. unfold popcount. apply pcf_any; [|exact Hx].
  destruct (Z.eq_dec x 0) as [->|Hne]; [cbn; lia|].
  pose proof (Z.log2_spec x ltac:(lia)) as Hl. pose proof (Z.log2_nonneg x).
  rewrite Nat2Z.inj_add, Z2Nat.id by lia. change (Z.of_nat 1) with 1. rewrite <- Z.add_1_r in Hl.
  replace (Z.log2 x + 1) with (Z.succ (Z.log2 x)) by lia. lia.
Qed.
Lemma pcf_nonneg : forall n x, 0 <= popcount_fuel n x.
Proof. induction n as [|n IH]; intros x; cbn [popcount_fuel]; [lia|]. pose proof (Z.mod_pos_bound x 2 ltac:(lia)). specialize (IH (x / 2)). lia. Qed.

(* complementary on the low n bits => the counts add up to n *)
Lemma pcf_compl : forall n x y,
  (forall j, 0 <= j < Z.of_nat n -> Z.testbit x j = negb (Z.testbit y j)) ->
  popcount_fuel n x + popcount_fuel n y = Z.of_nat n.
Proof.
  induction n as [|n IH]; intros x y H; [reflexivity|].
  cbn [popcount_fuel]. rewrite <- !Z.bit0_mod.
  assert (H0 := H 0 ltac:(lia)).
  assert (Hrec : popcount_fuel n (x / 2) + popcount_fuel n (y / 2) = Z.of_nat n).
  { apply IH. intros j Hj. rewrite !Z.div2_bits by lia. apply H. lia. }
  rewrite Nat2Z.inj_succ. destruct (Z.testbit x 0), (Z.testbit y 0); cbn [negb Z.b2z] in H0 |- *; try discriminate; lia.
Qed.

Lemma xor_ones_bits : forall x y m j, 0 <= j < m -> Z.lxor x y = 2 ^ m - 1 -> Z.testbit x j = negb (Z.testbit y j).
Proof.
  intros x y m j Hj H.
  assert (Hb : Z.testbit (Z.lxor x y) j = true).
  { rewrite H. replace (2 ^ m - 1) with (Z.ones m) by (rewrite Z.ones_equiv; lia). apply Z.ones_spec_low. lia. }
  rewrite Z.lxor_spec in Hb. destruct (Z.testbit x j), (Z.testbit y j); cbn in *; congruence.
Qed.
Lemma popcount_compl : forall m x y, 0 <= m -> 0 <= x < 2 ^ m -> 0 <= y < 2 ^ m -> Z.lxor x y = 2 ^ m - 1 ->
  popcount x + popcount y = m.
Proof.
  intros m x y Hm Hx Hy H.
  rewrite (popcount_fuel_eq (Z.to_nat m) x), (popcount_fuel_eq (Z.to_nat m) y) by (rewrite Z2Nat.id; lia).
  rewrite pcf_compl; [lia|]. intros j Hj. rewrite Z2Nat.id in Hj by lia. eapply xor_ones_bits; eauto.
Qed.
Lemma popcount_nonneg : forall x, 0 <= popcount x.
Proof. intros. apply pcf_nonneg. Qed.

(* ---------------------------------------------------------------- allowed slot patterns *)
Lemma allowed_values_in : forall size m need b, In b (allowed_values size m need) ->
  exists v, 0 <= v < 2 ^ m /\ popcount v = need /\ b = (2 ^ (size - m) - 1) * 2 ^ Z.max m 1 + v.
Proof.
  intros size m need b H. unfold allowed_values in H. apply in_map_iff in H. destruct H as (v & <- & Hv).
  apply filter_In in Hv. destruct Hv as [Hr Hp]. apply py_range_in in Hr. exists v. repeat split; lia.
Qed.

(* pattern of a task on a worker with m >= 1 available units, in a vector of size >= m bits *)
Definition pattern (size m v : Z) : Z := (2 ^ (size - m) - 1) * 2 ^ m + v.
Lemma pattern_range : forall size m v, 0 <= m <= size -> 0 <= v < 2 ^ m -> 0 <= pattern size m v < 2 ^ size.
Proof.
  intros size m v Hm Hv. unfold pattern.
  assert (Hs : 2 ^ size = 2 ^ (size - m) * 2 ^ m) by (rewrite <- Z.pow_add_r by lia; f_equal; lia).
  pose proof (pow2_pos (size - m) ltac:(lia)). pose proof (pow2_pos m ltac:(lia)). nia.
Qed.
Lemma pattern_low : forall size m v, 0 <= m <= size -> 0 <= v < 2 ^ m -> pattern size m v mod 2 ^ m = v.
Proof.
  intros size m v Hm Hv. unfold pattern. rewrite Z.add_comm, Z_mod_plus_full. apply Z.mod_small. lia.
Qed.
Lemma pattern_phantom_bit : forall size m v, 0 <= m < size -> 0 <= v < 2 ^ m -> Z.testbit (pattern size m v) m = true.
Proof.
  intros size m v Hm Hv. apply Z.testbit_true; [lia|]. unfold pattern.
  rewrite Z.div_add_l by (pose proof (pow2_pos m ltac:(lia)); lia). rewrite (Z.div_small v) by lia. rewrite Z.add_0_r.
  replace (size - m) with (Z.succ (size - m - 1)) by lia. rewrite Z.pow_succ_r by lia.
  replace (2 * 2 ^ (size - m - 1) - 1) with (1 + (2 ^ (size - m - 1) - 1) * 2) by lia.
  rewrite Z_mod_plus_full. reflexivity.
Qed.

(* two patterns whose low q bits are complementary: q = m and the counts add up to m; a wider
   extraction (q > m) meets the phantom bits and is impossible *)
Lemma patterns_complementary : forall size m q v1 v2, 1 <= m <= size -> m <= q <= size ->
  0 <= v1 < 2 ^ m -> 0 <= v2 < 2 ^ m ->
  Z.lxor (pattern size m v1 mod 2 ^ q) (pattern size m v2 mod 2 ^ q) = 2 ^ q - 1 ->
  q = m /\ Z.lxor v1 v2 = 2 ^ m - 1.
Proof.
  intros size m q v1 v2 Hm Hq H1 H2 H.
  destruct (Z.eq_dec q m) as [->|Hne].
  - split; [reflexivity|]. rewrite !pattern_low in H by lia. exact H.
  - exfalso. assert (Hb := xor_ones_bits _ _ q m ltac:(lia) H).
    rewrite !Z.mod_pow2_bits_low in Hb by lia. rewrite !pattern_phantom_bit in Hb by lia. discriminate.
Qed.
Lemma xor_same_left : forall a b c, Z.lxor a b = Z.lxor a c -> b = c.
Proof. intros a b c H. apply (f_equal (Z.lxor a)) in H. rewrite <- !Z.lxor_assoc, Z.lxor_nilpotent, !Z.lxor_0_l in H. exact H. Qed.
